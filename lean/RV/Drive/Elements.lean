import RV.Model.Elements
import RV.Drive.Frames
import RV.Generated.Constants
namespace RV.Drive.Elements
open RV RV.Frames RV.Elements RV.Drive.Frames

def tau := RV.Generated.TWOPI
def piC := RV.Generated.PI

def sTriple (t : Rat × Rat × Rat) : String := s!"{showRat t.1} {showRat t.2.1} {showRat t.2.2}"

def handle (op : String) : Option (P String) :=
  match op with
  | "el.coe2eci" => some do
      let sma ← P.rat; let ecc ← P.rat; let cO ← P.rat; let sO ← P.rat; let ci ← P.rat; let si ← P.rat
      let cw ← P.rat; let sw ← P.rat; let cv ← P.rat; let sv ← P.rat; let sq ← P.rat
      pure (sState (coe2eci sma ecc cO sO ci si cw sw cv sv sq))
  | "el.flags" => some do
      let limI ← P.rat; let limE ← P.rat; let inc ← P.rat; let ecc ← P.rat
      match isInclined piC limI inc, isEccentric limE ecc with
      | some a, some b => pure s!"{showBool a} {showBool b}"
      | _, _ => pure "raise"
  | "el.sing" => some do
      let inc ← P.rat; let a ← P.bool; let b ← P.bool; let raan ← P.rat; let argp ← P.rat; let anom ← P.rat
      pure (sTriple (singularityCheck tau piC inc a b raan argp anom))
  | "el.eci2coe" => some do
      let inc ← P.rat; let a ← P.bool; let b ← P.bool; let raan ← P.rat; let argp ← P.rat; let anom ← P.rat
      let lonPer ← P.rat; let argLat ← P.rat; let trueLon ← P.rat
      pure (sTriple (eci2coeAngles tau piC inc a b raan argp anom lonPer argLat trueLon))
  | "el.sma" => some do
      let mu ← P.rat; let rn ← P.rat; let vn ← P.rat
      if orbitalEnergy mu rn vn = 0 then pure "raise" else pure (showRat (semiMajorAxis mu rn vn))
  | "el.eccvec" => some do
      let mu ← P.rat; let x ← pState; let rn ← P.rat; let vn ← P.rat
      pure (sV3 (eccVector mu x rn vn))
  | "el.angmom" => some do let x ← pState; pure (sV3 (angMomentum x) ++ " " ++ sV3 (lineOfNodes (angMomentum x)))
  | "el.basis" => some do
      let p ← P.rat; let q ← P.rat; let retro ← P.bool
      let fg := eqeBasis p q retro
      pure (sV3 fg.1 ++ " " ++ sV3 fg.2)
  | "el.pq" => some do
      let w ← pV3; let retro ← P.bool
      if 1 + retroFactor retro * w.z = 0 then pure "raise" else
      let o := eqePQ w retro
      pure s!"{showRat o.1} {showRat o.2}"
  | "el.hkpq" => some do
      let ecc ← P.rat; let t ← P.rat; let cs ← P.rat; let ss ← P.rat; let cO ← P.rat; let sO ← P.rat
      let o := coe2eqeHKPQ ecc t cs ss cO sO
      pure s!"{showRat o.1} {showRat o.2.1} {showRat o.2.2.1} {showRat o.2.2.2}"
  | "el.eqe2eci" => some do
      let sma ← P.rat; let h ← P.rat; let k ← P.rat; let p ← P.rat; let q ← P.rat; let retro ← P.bool
      let n ← P.rat; let beta ← P.rat; let cF ← P.rat; let sF ← P.rat
      pure (sState (eqe2eci sma h k p q retro n beta cF sF))
  | "el.kepler" => some do
      let E ← P.rat; let ecc ← P.rat; let sE ← P.rat
      pure (showRat (Angles.wrap2Pi tau (keplerM E ecc sE)))
  | "el.keplerlam" => some do
      let F ← P.rat; let h ← P.rat; let k ← P.rat; let cF ← P.rat; let sF ← P.rat
      pure (showRat (Angles.wrap2Pi tau (keplerLam F h k cF sF)))
  | _ => none
end RV.Drive.Elements
