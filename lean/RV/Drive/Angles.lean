import RV.Model.Angles
import RV.Generated.Constants
namespace RV.Drive.Angles
open RV RV.Angles

def pi := RV.Generated.PI
def tau := RV.Generated.TWOPI

def handle (op : String) : Option (P String) :=
  match op with
  | "ang.wrap2pi" => some do let x ← P.rat; pure (showRat (wrap2Pi tau x))
  | "ang.wrapneg" => some do let x ← P.rat; pure (showRat (wrapNegPiPi pi tau x))
  | "ang.res" => some do
      let a ← P.rat; let b ← P.rat; let ang ← P.bool
      pure (showRat (residual pi tau a b ang))
  | "ang.vwrapneg" => some do let x ← P.rat; pure (showRat (vecWrapNeg pi tau x))
  | "ang.vwrap2pi" => some do let x ← P.rat; pure (showRat (vecWrap2Pi tau x))
  | "ang.vres" => some do
      let a ← P.rat; let b ← P.rat; let ang ← P.bool
      pure (showRat (vecResidual pi tau a b ang))
  | _ => none
end RV.Drive.Angles
