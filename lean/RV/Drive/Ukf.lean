import RV.Model.Ukf
namespace RV.Drive.Ukf
open RV RV.Ukf

def pMat (r c : Nat) : P Mat := P.rep (P.rep P.rat c) r
def sVec (v : Vec) : String := " ".intercalate (v.map showRat)
def sMat (m : Mat) : String := " ".intercalate ((m.flatMap id).map showRat)

def handle (op : String) : Option (P String) :=
  match op with
  | "ukf.step" => some do
      let n ← P.nat; let m ← P.nat
      let lam ← P.rat; let γ ← P.rat; let α ← P.rat; let β ← P.rat
      let x ← P.rep P.rat n
      let L ← pMat n n; let F ← pMat n n; let Q ← pMat n n
      let redraw ← P.bool
      let L' ← pMat n n; let H ← pMat m n; let R ← pMat m m; let Sinv ← pMat m m
      let y ← P.rep P.rat m
      if (n : Rat) + lam = 0 then failure
      let o := step n m ⟨lam, γ, α, β⟩ x L F Q redraw L' H R Sinv y
      pure (sVec o.predX ++ " | " ++ sMat o.predP ++ " | " ++ sMat o.S ++ " | " ++ sMat o.C ++ " | "
            ++ sMat o.K ++ " | " ++ sVec o.estX ++ " | " ++ sMat o.estP)
  | _ => none
end RV.Drive.Ukf
