import RV.Model.Engine
namespace RV.Drive.Engine
open RV RV.Engine

def pRec : P Rec := do let s ← P.nat; let t ← P.nat; let u ← P.nat; pure ⟨s, t, u⟩
def pMiss : P (Option Rec) := do
  let f ← P.bool
  let r ← pRec
  pure (if f then some r else none)
def pInfo : P (Nat × Pointing) := do let s ← P.nat; let b ← P.nat; let l ← P.nat; pure (s, ⟨b, l⟩)

def pResult : P JobResult := do
  match (← P.tok) with
  | "R" => do
      let row ← P.nat; let v ← P.list P.bool
      pure (.reward row v [])
  | "T" => do
      let t ← P.nat; let o ← P.list pRec; let ms ← P.list pMiss; let i ← P.list pInfo
      pure (.task t o ms i)
  | _ => failure

def sRec (r : Rec) : String := s!"{r.sensor}:{r.target}:{r.uid}"

/-- canonical (sorted) rendering of a record list -/
def sRecs (l : List Rec) : String :=
  let a := (l.map sRec).toArray.qsort (· < ·)
  ",".intercalate a.toList

def handle (op : String) : Option (P String) :=
  match op with
  | "eng.step" => some do
      let shape ← P.tok
      let rows ← P.nat                      -- number of target rows to report
      let sensors ← P.list P.nat            -- sensor ids to report pointing changes for
      let rs ← P.list pResult
      let sh := if shape == "unrepaired" then Shape.unrepaired else if shape == "lastwrite" then Shape.lastWrite else Shape.repaired
      let e0 : Engine := ⟨fun _ => none, fun _ => none, [], [], [], [], fun _ => none⟩
      let e := runStep sh e0 rs
      let vis := (List.range rows).map fun i => match e.vis i with
        | some v => String.join (v.map showBool)
        | none => "-"
      let sc := sensors.map fun s => match e.sensorChanges s with
        | some c => s!"{s}={c.2.boresight}/{c.2.lastTasked}"
        | none => s!"{s}=-"
      pure (s!"obs[{sRecs e.obs}] missed[{sRecs e.missed}] vis[{",".intercalate vis}] sc[{",".intercalate sc}]")
  | _ => none
end RV.Drive.Engine
