import RV.Model.Decisions
namespace RV.Drive.Decisions
open RV RV.Decisions

def showB (m : List (List Bool)) : String := showMat showBool m

def pPair : P (Nat × Nat) := do let a ← P.nat; let b ← P.nat; pure (a, b)

def handle (op : String) : Option (P String) :=
  match op with
  | "dec.greedy" => some do
      let R ← P.mat P.rat; let V ← P.mat P.bool
      let T := R.length; let S := (R.getD 0 []).length
      if T = 0 ∨ S = 0 ∨ V.length ≠ T then failure
      pure (showB (build T S (calcD (greedySel (entry R) T) (bentry V))))
  | "dec.allvis" => some do
      let R ← P.mat P.rat; let V ← P.mat P.bool
      let T := V.length; let S := (V.getD 0 []).length
      let _ := R
      pure (showB (build T S (calcD (allVisSel (bentry V)) (bentry V))))
  | "dec.random" => some do
      let V ← P.mat P.bool; let ch ← P.list P.nat
      let T := V.length; let S := (V.getD 0 []).length
      pure (showB (build T S (calcD (randomSel (bentry V) T (fun s => ch.getD s 0)) (bentry V))))
  | "dec.munkres" => some do
      let R ← P.mat P.rat; let V ← P.mat P.bool; let pairs ← P.list pPair
      let T := R.length; let S := (R.getD 0 []).length
      let D := calcD (pairsSel pairs) (bentry V)
      pure (showB (build T S D) ++ " " ++ showRat (total (mask (entry R) (bentry V)) D T S))
  | "dec.best" => some do
      let R ← P.mat P.rat; let V ← P.mat P.bool
      let T := R.length; let S := (R.getD 0 []).length
      match bestTotal (mask (entry R) (bentry V)) T S with
      | some b => pure (showRat b)
      | none => failure
  | "dec.dual" => some do
      -- rows ≤ cols required (the harness transposes otherwise)
      let R ← P.mat P.rat; let V ← P.mat P.bool
      let u ← P.list P.rat; let v ← P.list P.rat; let σ ← P.list P.nat
      let T := R.length; let S := (R.getD 0 []).length
      if T > S ∨ u.length ≠ T ∨ v.length ≠ S ∨ σ.length ≠ T then failure
      let M := mask (entry R) (bentry V)
      pure (showBool (checkDual M T S (fun t => u.getD t 0) (fun s => v.getD s 0) (fun t => σ.getD t 0))
            ++ " " ++ showRat (totalOf M (fun t => σ.getD t 0) T))
  | "rew.norm" => some do
      let m ← P.list P.rat
      pure (showList showRat (normalize m))
  | "rew.cc" => some do
      let δ ← P.rat; let a ← P.rat; let b ← P.rat; let c ← P.rat
      pure (showRat (costConstrained δ a b c))
  | "rew.comb" => some do
      let δ ← P.rat; let a ← P.rat; let b ← P.rat; let c ← P.rat; let d ← P.rat
      pure (showRat (combined δ a b c d))
  | "rew.sum" => some do
      let m ← P.list P.rat
      pure (showRat (summation m))
  | _ => none

end RV.Drive.Decisions
