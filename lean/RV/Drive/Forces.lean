import RV.Model.Forces
import RV.Drive.Frames
namespace RV.Drive.Forces
open RV RV.Forces RV.Drive.Frames

def sList (l : List Rat) : String := " ".intercalate (l.map showRat)

/-- a dense (N+1)x(M+1) row-major coefficient table as a function -/
def tableFn (cols : Nat) (l : List Rat) : Nat → Nat → Rat := fun n m => if m < cols then l.getD (n * cols + m) 0 else 0

def handle (op : String) : Option (P String) :=
  match op with
  | "fo.tb" => some do
      let r ← pV3; let r3 ← pV3; let rn ← P.rat; let R ← P.rat; let d ← P.rat
      pure (sV3 (thirdBody r r3 rn R d) ++ " | " ++ sV3 (thirdBodyDirect r r3 R d))
  | "fo.gr" => some do
      let mu ← P.rat; let cSq ← P.rat; let r ← pV3; let v ← pV3; let rn ← P.rat; let vn ← P.rat
      pure (sV3 (grAcc mu cSq r v rn vn) ++ " | " ++ sV3 (grReference mu cSq r v rn))
  | "fo.srp" => some do
      let p ← P.rat; let ratio ← P.rat; let au ← P.rat; let sat ← pV3; let sun ← pV3; let d ← P.rat; let frac ← P.rat
      pure (sV3 (srpAcc p ratio au sat sun d frac))
  | "fo.harm" => some do
      let xb ← P.rat; let yb ← P.rat; let zb ← P.rat; let rho ← P.rat; let rhoSq ← P.rat; let N ← P.nat; let M ← P.nat
      let idx := (List.range (N + 1)).flatMap fun n => (List.range (M + 1)).map fun m => (n, m)
      pure (sList (idx.map fun p => harmV xb yb zb rho rhoSq p.1 p.2) ++ " | " ++ sList (idx.map fun p => harmW xb yb zb rho rhoSq p.1 p.2))
  | "fo.nonsph" => some do
      let mu ← P.rat; let R ← P.rat; let N ← P.nat; let M ← P.nat; let pos ← pV3; let rn ← P.rat
      let cl ← P.rep P.rat ((N + 1) * (M + 1)); let sl ← P.rep P.rat ((N + 1) * (M + 1))
      pure (sV3 (nonSpherical mu R (tableFn (M + 1) cl) (tableFn (M + 1) sl) N M pos rn))
  | "fo.total" => some do
      let a ← P.bool; let b ← P.bool; let c ← P.bool; let pm ← pV3; let ns ← pV3
      let tb ← P.list pV3; let aS ← pV3; let aG ← pV3; let aT ← pV3
      pure (sV3 (total ⟨a, b, c⟩ pm ns tb aS aG aT))
  | "fo.cheb" => some do
      let x ← P.rat; let cs ← P.list P.rat
      pure (showRat (chebval x cs))
  | "fo.scale" => some do
      let jd ← P.rat; let init ← P.rat; let len ← P.rat
      let o := scaleCheb jd init len
      pure s!"{showRat o.1} {o.2}"
  | _ => none
end RV.Drive.Forces
