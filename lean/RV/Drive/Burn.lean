import RV.Model.Burn
namespace RV.Drive.Burn
open RV RV.Burn

def handle (op : String) : Option (P String) :=
  match op with
  | "burn.calls" => some do
      let shape ← P.tok; let s ← P.rat; let e ← P.rat; let ts ← P.list P.rat
      let sh := if shape == "startRootOnly" then EventShape.startRootOnly else EventShape.phaseSwitch
      if ts.length < 2 then failure
      let N := ts.length - 1
      let t := fun k => ts.getD k 0
      let ivs := (List.range N).map fun k => match callOn sh s e (t k) (t (k + 1)) with
        | some (a, b) => showRat a ++ ":" ++ showRat b
        | none => "-"
      pure (showRat (totalOn sh s e t N) ++ " " ++ " ".intercalate ivs)
  | _ => none
end RV.Drive.Burn
