import RV.Model.Burn
namespace RV.Drive.Burn
open RV RV.Burn

def handle (op : String) : Option (P String) :=
  match op with
  | "burn.calls" => some do
      let shape ← P.tok; let s ← P.rat; let e ← P.rat; let ts ← P.list P.rat
      let sh := if shape == "startRootOnly" then EventShape.startRootOnly else EventShape.phaseSwitch
      if ts.length < 2 then failure
      let N := ts.length - 1
      let t := fun k => ts.getD k 0
      let ivs := (List.range N).map fun k => match callOn sh s e (t k) (t (k + 1)) with
        | some (a, b) => showRat a ++ ":" ++ showRat b
        | none => "-"
      pure (showRat (totalOn sh s e t N) ++ " " ++ " ".intercalate ivs)
  | "burn.timeline" => some do
      -- the callbacks of every call, in order, for several burns of one agent: `time=+k` burn k's thrust installed,
      -- `time=-k` burn k's end; then the slot at the end of the call
      let bs ← P.list (do let s ← P.rat; let e ← P.rat; pure ((s, e) : BurnIv))
      let ts ← P.list P.rat
      if ts.length < 2 then failure
      let N := ts.length - 1
      let t := fun k => ts.getD k 0
      let idx := fun (b : BurnIv) => match bs.findIdx? (· == b) with
        | some i => toString i
        | none => "?"
      let calls := (List.range N).map fun k =>
        let tl := prepCallbacks bs (t k) ++ sortedRoots bs (t k) (t (k + 1))
        let items := tl.map fun c => showRat c.time ++ "=" ++ (if c.on then "+" else "-") ++ idx c.burn
        let endSlot := match slotEnd bs (t k) (t (k + 1)) with
          | some b => idx b
          | none => "off"
        (if items.isEmpty then "-" else ",".intercalate items) ++ ";end=" ++ endSlot
      pure (" ".intercalate calls)
  | _ => none
end RV.Drive.Burn
