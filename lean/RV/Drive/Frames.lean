import RV.Model.Frames
import RV.Generated.Constants
namespace RV.Drive.Frames
open RV RV.Frames

def pV3 : P V3 := do let x ← P.rat; let y ← P.rat; let z ← P.rat; pure ⟨x, y, z⟩
def pM3 : P M3 := do let a ← pV3; let b ← pV3; let c ← pV3; pure ⟨a, b, c⟩
def pState : P State := do let r ← pV3; let v ← pV3; pure ⟨r, v⟩
def sV3 (v : V3) : String := s!"{showRat v.x} {showRat v.y} {showRat v.z}"
def sM3 (m : M3) : String := s!"{sV3 m.r1} {sV3 m.r2} {sV3 m.r3}"
def sState (x : State) : String := s!"{sV3 x.r} {sV3 x.v}"
def sSph (p : Sph) : String :=
  " ".intercalate ([p.rho, p.cth, p.sth, p.cph, p.sph, p.rhoDot, p.thDot, p.phDot].map showRat)
def pSph : P Sph := do
  let a ← P.rat; let b ← P.rat; let c ← P.rat; let d ← P.rat
  let e ← P.rat; let f ← P.rat; let g ← P.rat; let h ← P.rat
  pure ⟨a, b, c, d, e, f, g, h⟩

def kGen : GstConst := ⟨RV.Generated.DEG2RAD, RV.Generated.TWOPI⟩

def handle (op : String) : Option (P String) :=
  match op with
  | "fr.rot" => some do
      let k ← P.nat; let c ← P.rat; let s ← P.rat
      match k with
      | 1 => pure (sM3 (rot1 c s)) | 2 => pure (sM3 (rot2 c s)) | 3 => pure (sM3 (rot3 c s))
      | _ => failure
  | "fr.skew" => some do let w ← pV3; pure (sM3 (skew w))
  | "fr.dotrot" => some do
      let k ← P.nat; let c ← P.rat; let s ← P.rat; let w ← pV3
      match k with
      | 1 => pure (sM3 (dotRot1 c s w)) | 2 => pure (sM3 (dotRot2 c s w)) | 3 => pure (sM3 (dotRot3 c s w))
      | _ => failure
  | "fr.polar" => some do
      let cx ← P.rat; let sx ← P.rat; let cy ← P.rat; let sy ← P.rat
      pure (sM3 (polarW cx sx cy sy))
  | "fr.eci2ecef" => some do
      let RNP ← pM3; let W ← pM3; let om ← P.rat; let x ← pState
      pure (sState (eci2ecef RNP W W.transpose om x))
  | "fr.ecef2eci" => some do
      let PNR ← pM3; let W ← pM3; let om ← P.rat; let x ← pState
      pure (sState (ecef2eci PNR W om x))
  | "fr.sez2ecef" => some do
      let cl ← P.rat; let sl ← P.rat; let c2 ← P.rat; let s2 ← P.rat; let x ← pState
      pure (sState (rotState (sez2ecefRot cl sl c2 s2) x))
  | "fr.ecef2sez" => some do
      let cl ← P.rat; let sl ← P.rat; let c2 ← P.rat; let s2 ← P.rat; let x ← pState
      pure (sState (rotState (ecef2sezRot cl sl c2 s2) x))
  | "fr.sph2cart" => some do let p ← pSph; pure (sState (sph2cart p))
  | "fr.razel2sez" => some do let p ← pSph; pure (sState (razel2sez p))
  | "fr.cart2sph" => some do
      let x ← pState; let rng ← P.rat; let t1 ← P.rat
      if rng = 0 ∨ t1 = 0 then failure
      pure (sSph (cart2sph x rng t1))
  | "fr.sez2razel" => some do
      let x ← pState; let rng ← P.rat; let t1 ← P.rat
      if rng = 0 ∨ t1 = 0 then failure
      pure (sSph (sez2razel x rng t1))
  | "fr.eci2rsw" => some do
      let t ← pState; let c ← pState; let nr ← P.rat; let nh ← P.rat
      if nr = 0 ∨ nh = 0 then failure
      pure (sState (eci2rsw t c nr nh))
  | "fr.rsw2eci" => some do
      let t ← pState; let rel ← pState; let nr ← P.rat; let nh ← P.rat
      if nr = 0 ∨ nh = 0 then failure
      pure (sState (rsw2eci t rel nr nh))
  | "fr.ntw2eci" => some do
      let t ← pState; let rel ← pState; let nv ← P.rat; let nh ← P.rat
      if nv = 0 ∨ nh = 0 then failure
      pure (sState (ntw2eci t rel nv nh))
  | "fr.lla2ecef" => some do
      let e2 ← P.rat; let N ← P.rat; let cp ← P.rat; let sp ← P.rat
      let cl ← P.rat; let sl ← P.rat; let h ← P.rat
      pure (sV3 (lla2ecef e2 N cp sp cl sl h))
  | "fr.doy" => some do
      let y ← P.int; let m ← P.nat; let d ← P.nat; let hh ← P.nat; let mi ← P.nat; let s ← P.rat
      if m < 1 ∨ m > 12 then failure
      pure (showRat (dayOfYear y m d hh mi s) ++ " " ++ toString (dayNumber y m d - dayNumber y 1 1 + 1))
  | "fr.gmst" => some do let jd ← P.rat; pure (showRat (gmst kGen jd))
  | "fr.gast" => some do
      let y ← P.int; let days ← P.rat; let eqe ← P.rat
      pure (showRat (gast kGen y days eqe) ++ " " ++ showRat (rotRate y))
  | _ => none
end RV.Drive.Frames
