import RV.Model.Database
namespace RV.Drive.Database
open RV RV.Database

def handle (op : String) : Option (P String) :=
  match op with
  | "db.run" => some do
      let rule ← P.tok; let dt ← P.nat; let out ← P.nat; let span ← P.nat
      let agents ← P.list P.nat; let tracked ← P.list P.nat
      let steps ← P.list (do let rows ← P.list P.nat; let ag ← P.list P.nat; let tr ← P.list P.nat; pure (⟨rows, ag, tr⟩ : StepIn))
      if dt = 0 ∨ out = 0 then failure
      let r := if rule == "currentOnly" then EpochRule.currentOnly else EpochRule.recordStepped
      let s := run r dt out (init r dt span agents tracked) steps
      let sE := " ".intercalate (s.db.epochs.map toString)
      let sT := " ".intercalate (s.db.truth.map fun p => s!"{p.1}@{p.2}")
      let sS := " ".intercalate (s.db.est.map fun p => s!"{p.1}@{p.2}")
      let sR := " ".intercalate (s.db.trans.map fun p => s!"{p.1}@{p.2}")
      pure s!"E[{sE}] T[{sT}] S[{sS}] R[{sR}] P[{s.pendingTrans.length}]"
  | _ => none
end RV.Drive.Database
