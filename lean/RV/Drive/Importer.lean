import RV.Model.Importer
namespace RV.Drive.Importer
open RV RV.Importer

def pPair : P (Nat × Nat) := do let a ← P.nat; let b ← P.nat; pure (a, b)
def pObs : P Obs := do
  let id ← P.nat; let x ← P.int; let y ← P.int; let z ← P.int; let t ← P.nat
  pure ⟨id, (x, y, z, t)⟩
def sPairs (l : List (Nat × Nat)) : String :=
  " ".intercalate (toString l.length :: l.map fun p => s!"{p.1} {p.2}")

def handle (op : String) : Option (P String) :=
  match op with
  | "imp.step" => some do
      let c ← P.tok
      let regs ← P.list P.nat; let states ← P.list pPair; let rows ← P.list pPair
      let shape := if c == "counts" then Completeness.counts else Completeness.idSets
      -- registering goes through `register` (dict semantics)
      let s0 : St := regs.foldl register ⟨[], states⟩
      match importStep shape s0 rows with
      | .ok s => pure ("ok " ++ showList toString s.regs ++ " " ++ sPairs s.states)
      | .missing ids => pure ("missing " ++ showList toString ids)
  | "imp.dedup" => some do
      let os ← P.list pObs
      pure (showList toString ((dedup os []).map (·.id)))
  | _ => none
end RV.Drive.Importer
