import RV.Model.Propagate
import RV.Drive.Frames
namespace RV.Drive.Propagate
open RV RV.Propagate RV.Drive.Frames

abbrev St := List Rat   -- [x,y,z,vx,vy,vz]

/-- straight-line flow: exact for the constant-velocity dynamics the harness integrates with the real loop -/
def lineFlow (t0 t1 : Rat) (x : St) : St :=
  match x with
  | [a, b, c, d, e, f] => [a + (t1 - t0) * d, b + (t1 - t0) * e, c + (t1 - t0) * f, d, e, f]
  | _ => x

def kick (dv : List Rat) (x : St) : St :=
  match x, dv with
  | [a, b, c, d, e, f], [p, q, r] => [a, b, c, d + p, e + q, f + r]
  | _, _ => x

def pEvent : P (Rat × (St → St)) := do
  let te ← P.rat; let p ← P.rat; let q ← P.rat; let r ← P.rat
  pure (te, kick [p, q, r])

def sList (l : List Rat) : String := " ".intercalate (l.map showRat)
def sNats (l : List Nat) : String := " ".intercalate (l.map toString)

def handle (op : String) : Option (P String) :=
  match op with
  | "pr.slices" => some do
      let K ← P.nat; let jj ← P.nat
      pure (sNats (posSlice K jj) ++ " | " ++ sNats (velSlice K jj))
  | "pr.ravel" => some do
      let K ← P.nat
      let cols ← P.rep (P.rep P.rat 6) K
      pure (sList (ravelList cols))
  | "pr.run" => some do
      let es ← P.list pEvent
      let t0 ← P.rat; let t1 ← P.rat
      let x ← P.rep P.rat 6
      pure (sList (run lineFlow es t0 t1 x))
  | "pr.bulk" => some do
      let es ← P.list pEvent
      let t0 ← P.rat
      let ts ← P.list P.rat
      let x ← P.rep P.rat 6
      pure (" ; ".intercalate ((bulk lineFlow es t0 ts x).map sList))
  | "pr.lagrange" => some do
      let f ← P.rat; let g ← P.rat; let fd ← P.rat; let gd ← P.rat; let r0 ← pV3; let v0 ← pV3
      let o := lagrange f g fd gd r0 v0
      pure (sV3 o.1 ++ " " ++ sV3 o.2)
  | "pr.epoch" => some do
      let jd0 ← P.rat; let t ← P.rat
      pure (showRat (epoch jd0 t))
  | _ => none
end RV.Drive.Propagate
