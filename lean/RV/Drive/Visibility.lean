import RV.Model.Visibility
import RV.Generated.Constants
namespace RV.Drive.Visibility
open RV RV.Visibility

def pV3 : P V3 := do let x ← P.rat; let y ← P.rat; let z ← P.rat; pure ⟨x, y, z⟩
def pi := RV.Generated.PI
def tau := RV.Generated.TWOPI

def handle (op : String) : Option (P String) :=
  match op with
  | "vis.los" => some do
      let R2 ← P.rat; let r1 ← pV3; let r2 ← pV3
      if r1 = r2 then pure "degenerate" else
      let d12 := r1.dot r2
      let t := (r1.nsq - d12) / (r1.nsq + r2.nsq - 2 * d12)
      let margin := (1 - t) * r1.nsq + d12 * t - R2
      pure (showBool (lineOfSight R2 r1 r2) ++ " " ++ showRat t ++ " " ++ showRat margin)
  | "vis.conic" => some do
      let c ← P.rat; let a ← pV3; let b ← pV3
      pure (showBool (conicIn c a b) ++ " " ++ showRat (a.dot b) ++ " "
            ++ showRat (a.dot b * a.dot b - c * c * (a.nsq * b.nsq)))
  | "vis.rect" => some do
      let ah ← P.rat; let eh ← P.rat
      let azP ← P.rat; let elP ← P.rat; let azB ← P.rat; let elB ← P.rat
      pure (showBool (rectIn pi tau ah eh azP elP azB elB) ++ " "
            ++ showRat (ah - RV.Angles.absQ (RV.Angles.wrapNegPiPi pi tau (azP - azB))) ++ " "
            ++ showRat (eh - RV.Angles.absQ (elP - elB)))
  | "vis.azmask" => some do
      let a0 ← P.rat; let a1 ← P.rat; let az ← P.rat
      pure (showBool (azMaskIn a0 a1 az))
  | "vis.elmask" => some do
      let e0 ← P.rat; let e1 ← P.rat; let el ← P.rat
      pure (showBool (elMaskIn e0 e1 el))
  | "vis.limb" => some do
      let Rl2 ← P.rat; let d2 ← P.rat; let z ← P.rat; let ρ2 ← P.rat
      pure (showBool (limbObscured Rl2 d2 z ρ2) ++ " " ++ showRat (z * z * d2 - ρ2 * (d2 - Rl2)))
  | "vis.sunbranch" => some do
      let a ← P.rat; let b ← P.rat; let c ← P.rat; let ds ← P.rat; let dss ← P.rat
      pure (toString (sunBranch a b c ds dss))
  | _ => none
end RV.Drive.Visibility
