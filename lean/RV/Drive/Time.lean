import RV.Model.Time
namespace RV.Drive.Time
open RV RV.Time RV.F64

def ok (xs : List Rat) : Bool := xs.all inRange

def handle (op : String) : Option (P String) :=
  match op with
  | "time.jd" => some do
      let y ← P.int; let mo ← P.int; let d ← P.int; let h ← P.int; let mi ← P.int; let s ← P.int; let us ← P.int
      if mo < 1 ∨ mo > 12 ∨ d < 1 ∨ d > 31 ∨ h < 0 ∨ h > 24 ∨ mi < 0 ∨ mi > 60 ∨ s < 0 ∨ s > 60 then pure "ValueError" else
      let jd := jdOf ⟨y, mo, d, h, mi, s, us⟩
      if ok [jd] then pure (showRat jd) else pure "out-of-model"
  | "time.cal" => some do
      let jd ← P.rat
      if !(ok [jd]) then pure "out-of-model" else
      let c := getCalendarDate jd
      pure s!"{c.y} {c.mo} {c.d} {showRat c.h} {showRat c.mi} {showRat c.sec}"
  | "time.j2d" => some do
      let rule ← P.tok; let jd ← P.rat
      let r := if rule == "truncate" then SecondRule.truncate else SecondRule.nearest
      pure (toString (j2dSeconds r jd))
  | "time.toJD" => some do
      let jd0 ← P.rat; let t ← P.rat
      pure (showRat (toJD jd0 t))
  | "time.toSec" => some do
      let jd ← P.rat; let jd0 ← P.rat
      pure (showRat (toScenario jd jd0))
  | "time.steps" => some do
      let target ← P.rat; let jd0 ← P.rat; let clock ← P.rat; let dt ← P.rat
      match propagateSteps target jd0 clock dt with
      | some n => pure (toString n)
      | none => pure "ValueError"
  | "time.run" => some do
      let rule ← P.tok
      let y ← P.int; let mo ← P.int; let d ← P.int; let h ← P.int; let mi ← P.int; let s ← P.int
      let D ← P.int; let dt ← P.int
      let r := if rule == "truncate" then SecondRule.truncate else SecondRule.nearest
      match runSteps r ⟨y, mo, d, h, mi, s, 0⟩ D dt with
      | some n => pure (toString n)
      | none => pure "ValueError"
  | "time.target" => some do
      let rule ← P.tok; let jd ← P.rat; let D ← P.int
      let r := if rule == "truncate" then SecondRule.truncate else SecondRule.nearest
      pure (showRat (targetJD r jd D))
  | "time.civil" => some do
      let t ← P.int
      let c := civilFromSeconds t
      pure s!"{c.y} {c.mo} {c.d} {c.h} {c.mi} {c.s}"
  | "f64.rn" => some do let x ← P.rat; pure (showRat (rn x))
  | "f64.op" => some do
      let o ← P.tok; let a ← P.rat; let b ← P.rat
      match o with
      | "add" => pure (showRat (fadd a b)) | "sub" => pure (showRat (fsub a b))
      | "mul" => pure (showRat (fmul a b))
      | "div" => if b = 0 then failure else pure (showRat (fdiv a b))
      | _ => failure
  | _ => none
end RV.Drive.Time
