import RV.Model.Mmae
namespace RV.Drive.Mmae
open RV RV.Mmae

def fn (l : List Rat) : Nat → Rat := fun i => l.getD i 0
def tab (n : Nat) (f : Nat → Rat) : List Rat := (List.range n).map f

def handle (op : String) : Option (P String) :=
  match op with
  | "mm.smm" => some do
      let w ← P.list P.rat; let L ← P.list P.rat
      if w.length = 0 ∨ L.length ≠ w.length then failure
      pure (showList showRat (tab w.length (smmUpdate w.length (fn w) (fn L))))
  | "mm.gpb1" => some do
      let r ← P.rat; let μ ← P.list P.rat; let L ← P.list P.rat
      if μ.length = 0 ∨ L.length ≠ μ.length then failure
      let n := μ.length
      let w := gpb1Weights n (fn μ) (fn L)
      pure (showList showRat (tab n w) ++ " " ++ showList showRat (tab n (gpb1Modes n r w)))
  | "mm.prune" => some do
      let thr ← P.rat; let w ← P.list P.rat
      if w.length = 0 then failure
      let (idx, w') := pruneStep thr w
      pure (showList toString idx ++ " " ++ showList showRat w')
  | "mm.smmstep" => some do
      let thr ← P.rat; let pct ← P.rat; let B ← P.rat
      let w ← P.list P.rat; let L ← P.list P.rat; let nis ← P.list P.rat
      if w.length = 0 ∨ L.length ≠ w.length ∨ nis.length ≠ w.length then failure
      let o := smmStep thr pct B w L nis
      pure (showList toString o.kept ++ " " ++ showList showRat o.w ++ " " ++ showBool o.closed)
  | "mm.mix" => some do
      -- d n w… then n state vectors, then n d×d covariances
      let d ← P.nat; let w ← P.list P.rat
      let xs ← P.rep (P.rep P.rat d) w.length
      let ps ← P.rep (P.rep (P.rep P.rat d) d) w.length
      pure (showList showRat (mixMean d w xs) ++ " " ++ showMat showRat (mixCov d w xs ps))
  | _ => none
end RV.Drive.Mmae
