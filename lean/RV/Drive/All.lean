import RV.Drive.Decisions
import RV.Drive.Detectors
import RV.Drive.Mmae
import RV.Drive.Angles
import RV.Drive.Visibility
import RV.Drive.Frames
import RV.Drive.Time
import RV.Drive.Events
import RV.Drive.Importer
import RV.Drive.Ukf
import RV.Drive.Engine
import RV.Drive.Burn
import RV.Drive.Database
import RV.Drive.Sensor
import RV.Drive.Elements
import RV.Drive.Propagate
import RV.Drive.Forces
import RV.Drive.Lambert
namespace RV.Drive
open RV

def handlers : List (String → Option (P String)) :=
  [RV.Drive.Decisions.handle, RV.Drive.Detectors.handle, RV.Drive.Mmae.handle, RV.Drive.Angles.handle, RV.Drive.Visibility.handle, RV.Drive.Frames.handle, RV.Drive.Time.handle, RV.Drive.Events.handle, RV.Drive.Importer.handle, RV.Drive.Ukf.handle, RV.Drive.Engine.handle, RV.Drive.Burn.handle, RV.Drive.Database.handle, RV.Drive.Sensor.handle, RV.Drive.Elements.handle, RV.Drive.Propagate.handle, RV.Drive.Forces.handle, RV.Drive.Lambert.handle]

def step (line : String) : String :=
  match tokens line with
  | [] => "bad-op"
  | op :: args =>
    match handlers.findSome? (· op) with
    | none => "bad-op"
    | some p => match P.run p args with
      | some out => out
      | none => "bad-op"
end RV.Drive
