import RV.Model.Lambert
import RV.Drive.Frames
namespace RV.Drive.Lambert
open RV RV.Lambert RV.Drive.Frames

def handle (op : String) : Option (P String) :=
  match op with
  | "lb.vel" => some do
      let f ← P.rat; let g ← P.rat; let gd ← P.rat; let r1 ← pV3; let r2 ← pV3
      if g = 0 then pure "raise" else
      let v := calcVelocities f g gd r1 r2
      pure (sV3 v.1 ++ " " ++ sV3 v.2)
  | "lb.arc" => some do
      let f ← P.rat; let g ← P.rat; let gd ← P.rat; let r1 ← pV3; let r2 ← pV3
      if g = 0 then pure "raise" else
      let v := calcVelocities f g gd r1 r2
      let o := RV.Propagate.lagrange f g ((f * gd - 1) / g) gd r1 v.1
      pure (sV3 o.1 ++ " " ++ sV3 o.2)
  | "lb.slant" => some do
      let E ← pM3; let S ← pM3; let sensor ← pV3; let target ← pV3
      pure (sV3 (slantSez E S sensor target))
  | "lb.obs2eci" => some do
      let E ← pM3; let S ← pM3; let sensor ← pV3; let sez ← pV3
      pure (sV3 (radarObs2eci E.transpose S.transpose sensor sez))
  | "lb.dir" => some do
      let t ← P.rat; let p ← P.rat
      pure (toString (transferDirection t p))
  | "lb.pass" => some do
      let t ← P.rat; let p ← P.rat
      match singlePass t p with
      | none => pure "raise" | some none => pure "false" | some (some x) => pure (showRat x)
  | "lb.prev" => some do
      let lo ← P.rat; let hi ← P.rat
      let stored ← P.list (do let a ← P.rat; let b ← P.nat; pure (a, b))
      match previousObservation stored lo hi with
      | none => pure "none" | some o => pure (toString o.2)
  | _ => none
end RV.Drive.Lambert
