import RV.Model.Sensor
namespace RV.Drive.Sensor
open RV RV.Sensor

def pCheck : P Check := do let h ← P.bool; let r ← P.tok; pure ⟨h, r⟩
def pBg : P (Nat × List Check) := do let t ← P.nat; let cs ← P.list pCheck; pure (t, cs)

def sOutcome : Outcome → String
  | .observation => "obs"
  | .missed r => "missed:" ++ r

def handle (op : String) : Option (P String) :=
  match op with
  | "sen.collect" => some do
      let sr ← P.tok; let canSlew ← P.bool; let cb ← P.bool
      let pc ← P.list pCheck; let bg ← P.list pBg
      let c := collect sr canSlew pc cb bg
      -- the model's slew reason is the code's string with the space; on the wire spaces are underscores
      let prim := match c.primary with
        | .missed r => "missed:" ++ (r.replace " " "_")
        | .observation => "obs"
      pure (prim ++ " B " ++ " ".intercalate (c.background.map fun p => toString p.1))
  | _ => none
end RV.Drive.Sensor
