import RV.Model.Detectors
namespace RV.Drive.Detectors
open RV RV.Detectors

/-- one history step on the wire: `dim ν… dim dim Sinv…` -/
def pObs : P Obs := do
  let ν ← P.list P.rat
  let S ← P.mat P.rat
  if S.length ≠ ν.length then failure
  pure ⟨nis ν S, ν.length⟩

def showOut (o : Out) : String := showRat o.metric ++ " " ++ showRat o.dof

def handle (op : String) : Option (P String) :=
  match op with
  | "det.nis" => some do
      let o ← pObs
      pure (showRat o.q)
  | "det.standard" => some do
      let h ← P.list pObs
      pure (" ".intercalate (h.map fun o => showOut (standardStep o)))
  | "det.sliding" => some do
      let w ← P.nat
      if w = 0 then failure
      let h ← P.list pObs
      let (_, outs) := h.foldl (fun (s, acc) o => let (s', out) := s.step o; (s', acc ++ [out]))
                        (Sliding.init w, ([] : List Out))
      pure (" ".intercalate (outs.map showOut))
  | "det.fading" => some do
      let δ ← P.rat
      if δ ≤ 0 ∨ 1 ≤ δ then failure
      let h ← P.list pObs
      let (_, outs) := h.foldl (fun (s, acc) o => let (s', out) := s.step o; (s', acc ++ [out]))
                        (Fading.init δ, ([] : List Out))
      pure (" ".intercalate (outs.map showOut))
  | _ => none
end RV.Drive.Detectors
