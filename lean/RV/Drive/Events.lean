import RV.Model.Events
import RV.Generated.Constants
namespace RV.Drive.Events
open RV RV.Events

def jdSec (t : Int) : Rat := RV.Time.jdOf (RV.Time.civilFromSeconds t)

def pScope : P Scope := do
  match (← P.tok) with
  | "scenario_step" => pure .scenarioStep
  | "agent_propagation" => pure .agentPropagation
  | "task_reward_generation" => pure .taskRewardGeneration
  | "observation_generation" => pure .observationGeneration
  | _ => failure

def pImpl : P WindowImpl := do
  match (← P.tok) with
  | "datetime" => pure .datetimeBased
  | "clock" => pure .clockPlusDelta
  | _ => failure

def pInst : P (Option Int) := do
  let t ← P.tok
  if t == "-" then pure none else
  match t.toInt? with
  | some i => pure (some i)
  | none => failure

def pRow : P EventRow := do
  let id ← P.nat; let sc ← pScope; let inst ← P.int; let a ← P.int; let b ← P.int
  pure ⟨id, sc, inst, a, b⟩

def pDeliv : P (Nat × Imp) := do
  let k ← P.nat; let id ← P.nat; let t ← P.rat
  pure (k, ⟨id, t⟩)

def handle (op : String) : Option (P String) :=
  match op with
  | "evt.window" => some do
      let impl ← pImpl; let start ← P.int; let dt ← P.int; let k ← P.nat
      let w := stepWindow impl jdSec RV.Generated.SEC2DAYS start dt k
      pure (showRat w.1 ++ " " ++ showRat w.2)
  | "evt.deliver" => some do
      let impl ← pImpl; let filt ← P.bool; let start ← P.int; let dt ← P.int; let N ← P.nat
      let sc ← pScope; let inst ← pInst; let e ← pRow
      pure (showList toString (deliverySteps impl filt jdSec RV.Generated.SEC2DAYS start dt N sc inst e))
  | "evt.run" => some do
      -- rule, the step times t0..tN, the deliveries (step id time), then the ids to report
      let rule ← P.tok
      let ts ← P.list P.rat
      let ds ← P.list pDeliv
      let ids ← P.list P.nat
      let r := if rule == "keepIfEqual" then PruneRule.keepIfEqual else PruneRule.strict
      let N := ts.length - 1
      let t := fun k => ts.getD k 0
      let d := fun k => (ds.filter (·.1 == k)).map (·.2)
      let a := runAgent r t d N
      pure (" ".intercalate (ids.map fun id => toString ((a.fired.filter (· == id)).length)))
  | _ => none
end RV.Drive.Events
