/-
Model of the tasking engine's per-step bookkeeping (C08): the resets at the top of
`CentralizedTaskingEngine.assess`, the three `processResults` merges that `JobExecutor.join`
applies in whatever order the worker jobs complete, and the scenario's application of
`sensor_changes` to the sensing agents.

Records (observations / missed observations) are abstract identifiers; what matters is how many
times each one ends up in each list.  Maps (visibility rows, metric rows, sensor changes) are
functions `Nat → Option _`, so that two writes to different keys commute definitionally.
-/
import RV.Num.Parse
namespace RV.Engine

/-- an observation or missed-observation record: (sensor, target, payload id) -/
structure Rec where
  sensor : Nat
  target : Nat
  uid : Nat
deriving Repr, DecidableEq

/-- what a task job reports for one tasked sensor -/
structure Pointing where
  boresight : Nat      -- identifier of the new boresight direction
  lastTasked : Nat     -- time_last_tasked
deriving Repr, DecidableEq

structure Engine where
  vis : Nat → Option (List Bool)
  metrics : Nat → Option (List (List Rat))
  obs : List Rec
  missed : List Rec
  savedObs : List Rec
  savedMissed : List Rec
  sensorChanges : Nat → Option (Nat × Pointing)     -- sensor ↦ (target whose job reported it, reported state)

inductive JobResult
  | reward (row : Nat) (v : List Bool) (m : List (List Rat))
  | task (target : Nat) (obs : List Rec) (missed : List (Option Rec)) (info : List (Nat × Pointing))
deriving Repr

/-- bookkeeping variants: `repaired` = the current code (a sensor reported by several jobs of a step keeps the report
of the highest target id); `lastWrite` = reports accumulate over the step but the last one processed wins;
`unrepaired` = `sensor_changes` reset by every job -/
inductive Shape | repaired | lastWrite | unrepaired
deriving Repr, DecidableEq

def upd {α} (m : Nat → Option α) (k : Nat) (v : α) : Nat → Option α := fun i => if i = k then some v else m i

/-- `updateFromAsyncTaskExecution` for one sensor: an earlier report from a job with a higher target id is kept -/
def updMax (m : Nat → Option (Nat × Pointing)) (k : Nat) (c : Nat × Pointing) : Nat → Option (Nat × Pointing) :=
  fun i => if i = k then
      (match m k with
       | some old => if old.1 > c.1 then some old else some c
       | none => some c)
    else m i

/-- `saveMissedObservations`: repaired = extend once with the truthy entries; unrepaired = extend
with the whole list once per truthy entry -/
def missedToAdd (sh : Shape) (missed : List (Option Rec)) : List Rec :=
  let valid := missed.filterMap id
  match sh with
  | .repaired | .lastWrite => valid
  | .unrepaired => (valid.map fun _ => valid).flatten

/-- `processResults` of a finished job -/
def merge (sh : Shape) (e : Engine) : JobResult → Engine
  | .reward row v m => { e with vis := upd e.vis row v, metrics := upd e.metrics row m }
  | .task t obs missed info =>
    let add := missedToAdd sh missed
    let sc := match sh with
      | .repaired => info.foldl (fun m p => updMax m p.1 (t, p.2)) e.sensorChanges
      | .lastWrite => info.foldl (fun m p => upd m p.1 (t, p.2)) e.sensorChanges
      | .unrepaired => info.foldl (fun m p => upd m p.1 (t, p.2)) (fun _ => none)   -- `self.sensor_changes = {}` per job
    { e with
      obs := e.obs ++ obs, savedObs := e.savedObs ++ obs,
      missed := e.missed ++ add, savedMissed := e.savedMissed ++ add,
      sensorChanges := sc }

/-- the resets at the top of `assess` (the saved lists are drained by the scenario when it writes
the database, not here) -/
def resetForStep (sh : Shape) (e : Engine) : Engine :=
  match sh with
  | .repaired | .lastWrite => { e with vis := fun _ => none, metrics := fun _ => none, obs := [], missed := [], sensorChanges := fun _ => none }
  | .unrepaired => { e with vis := fun _ => none, metrics := fun _ => none, obs := [] }

/-- one step: reset, then the results in completion order -/
def runStep (sh : Shape) (e : Engine) (results : List JobResult) : Engine :=
  results.foldl (merge sh) (resetForStep sh e)

/-- the scenario's `updateInfo` loop: each sensor named in `sensor_changes` takes the reported
pointing state, the others keep theirs -/
def applyChanges (sensors : Nat → Pointing) (e : Engine) : Nat → Pointing :=
  fun s => match e.sensorChanges s with
    | some c => c.2
    | none => sensors s

/-! ### the order in which a step's observations reach the filters

`saveObservations` keeps the engine's list sorted by (epoch, target, sensor, measurement) since 4ecfeb3; before, the
list was in job-completion order.  `uid` stands for the content of the record. -/

def recLe (a b : Rec) : Prop :=
  a.target < b.target ∨ (a.target = b.target ∧ (a.sensor < b.sensor ∨ (a.sensor = b.sensor ∧ a.uid ≤ b.uid)))

instance (a b : Rec) : Decidable (recLe a b) := by unfold recLe; exact inferInstance

def insertRec (r : Rec) : List Rec → List Rec
  | [] => [r]
  | d :: l => if recLe r d then r :: d :: l else d :: insertRec r l

def sortRecs : List Rec → List Rec
  | [] => []
  | r :: l => insertRec r (sortRecs l)

/-- the observations a target's filter is handed: the engine's list restricted to that target, in the engine's order -/
def handedTo (sorted : Bool) (e : Engine) (t : Nat) : List Rec :=
  ((if sorted then sortRecs e.obs else e.obs).filter (·.target == t))

end RV.Engine
