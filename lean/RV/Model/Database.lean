/-
Model of what a run writes to the output database (C09): the epochs the clock inserts up front,
`Scenario.__init__`'s initial save, `stepForward` (records the stepped epoch; rows produced in the
step refer to it), `propagateTo`'s output test `time % output_step == 0`, and `saveDatabaseOutput`
(inserts missing epochs first, then writes the truth/estimate rows of the current epoch and drains
the transient row lists, all in one `bulkSave`).

Times are whole seconds since the scenario start.
-/
import RV.Num.Parse
namespace RV.Database

structure Db where
  epochs : List Nat                    -- epoch rows (time), insertion order
  truth : List (Nat × Nat)             -- (agent, epoch)
  est : List (Nat × Nat)               -- (target, epoch)
  trans : List (Nat × Nat)             -- transient rows (observations, misses, tasks, filter steps, …): (row id, epoch)
deriving Repr, DecidableEq

structure Sim where
  time : Nat
  db : Db
  pendingEpochs : List Nat             -- `_unsaved_epochs`
  pendingTrans : List (Nat × Nat)      -- rows collected since the last save
  agents : List Nat
  tracked : List Nat
deriving Repr, DecidableEq

/-- how missing epochs are handled at save time -/
inductive EpochRule
  | recordStepped      -- repaired: every epoch stepped through since the last save is inserted if absent
  | currentOnly        -- unrepaired: only the current epoch is inserted if absent
deriving Repr, DecidableEq

/-- `ScenarioClock.__init__`: epochs `0, dt, 2dt, … ≤ span` -/
def clockEpochs (dt span : Nat) : List Nat := (List.range (span / dt + 1)).map (· * dt)

def insertMissing (epochs : List Nat) : List Nat → List Nat
  | [] => epochs
  | e :: es => if e ∈ epochs then insertMissing epochs es else insertMissing (epochs ++ [e]) es

/-- `saveDatabaseOutput` -/
def save (rule : EpochRule) (s : Sim) : Sim :=
  let toInsert := match rule with
    | .recordStepped => s.pendingEpochs ++ [s.time]
    | .currentOnly => [s.time]
  let db := s.db
  { s with
    db := { epochs := insertMissing db.epochs toInsert,
            truth := db.truth ++ s.agents.map (·, s.time),
            est := db.est ++ s.tracked.map (·, s.time),
            trans := db.trans ++ s.pendingTrans },
    pendingEpochs := [], pendingTrans := [] }

/-- `Scenario.__init__`: build the clock, save the initial states -/
def init (rule : EpochRule) (dt span : Nat) (agents tracked : List Nat) : Sim :=
  save rule ⟨0, ⟨clockEpochs dt span, [], [], []⟩, [], [], agents, tracked⟩

/-- what one step contributes: the transient rows it produces and the agent sets the scenario holds after it
(targets and sensors join or leave through scenario-step events) -/
structure StepIn where
  rows : List Nat
  agents : List Nat
  tracked : List Nat
deriving Repr, DecidableEq

/-- one iteration of `propagateTo`'s loop: `stepForward` (events may change the agent sets; rows produced this step carry
the new epoch), then the output test -/
def step (rule : EpochRule) (dt out : Nat) (s : Sim) (inp : StepIn) : Sim :=
  let t := s.time + dt
  let s1 : Sim := { s with time := t, pendingEpochs := s.pendingEpochs ++ [t], pendingTrans := s.pendingTrans ++ inp.rows.map (·, t),
                           agents := inp.agents, tracked := inp.tracked }
  if t % out = 0 then save rule s1 else s1

/-- a run: what each step contributes is given -/
def run (rule : EpochRule) (dt out : Nat) (s : Sim) (steps : List StepIn) : Sim :=
  steps.foldl (step rule dt out) s

/-- steps of a scenario whose agent sets never change -/
def constSteps (agents tracked : List Nat) (rows : List (List Nat)) : List StepIn := rows.map fun r => ⟨r, agents, tracked⟩

end RV.Database
