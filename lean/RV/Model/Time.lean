/-
Model of `resonaate.physics.time.stardate` / `conversions` and of the step arithmetic of
`ScenarioClock` / `Scenario.propagateTo` (C05; reused by C01, C11, C09).

Operation-for-operation mirrors over the soft binary64 model `RV.F64`: every float operation of
the Python source appears as one `fadd`/`fsub`/`fmul`/`fdiv`/`ffloor` here, in the same order, so
the model and CPython produce the same bits.
-/
import RV.Num.F64
import RV.Model.Frames
namespace RV.Time
open RV.F64

structure Civil where
  y : Int
  mo : Int
  d : Int
  h : Int
  mi : Int
  s : Int
  us : Int := 0
deriving Repr, DecidableEq

/-- the `second` argument handed to `getJulianDate`: `second + microsecond / 1e6` -/
def secFloat (c : Civil) : Rat := fadd c.s (fdiv c.us 1000000)

/-- `JulianDate.getJulianDate(year, month, day, hour, minute, second)` -/
def getJulianDate (y mo d h mi : Int) (sec : Rat) : Rat :=
  let mDay := fadd d (17210135 / 10)
  let a := ffloor (fmul (fmul 7 (fadd y (ffloor (fdiv (mo + 9) 12)))) (1 / 4))
  let b := ffloor (fdiv (275 * mo) 9)
  let jDay := fadd (fadd (fsub (367 * y) a) b) mDay
  let frac := fdiv (fadd (fadd sec (mi * 60)) (h * 3600)) 86400
  if frac > 1 then fadd (fadd jDay (ffloor frac)) (fsub frac (ffloor frac))
  else fadd jDay frac

/-- `datetimeToJulianDate` -/
def jdOf (c : Civil) : Rat := getJulianDate c.y c.mo c.d c.h c.mi (secFloat c)

structure Cal where
  y : Int
  mo : Int
  d : Int
  h : Rat
  mi : Rat
  sec : Rat
deriving Repr, DecidableEq

def monthLenT (leap : Bool) (m : Int) : Int :=
  if m = 2 then (if leap then 29 else 28)
  else if m = 4 ∨ m = 6 ∨ m = 9 ∨ m = 11 then 30 else 31

/-- the `while` loop of `days2mdh`: returns (month, days before that month) -/
def monthLoop (leap : Bool) (doyInt : Int) : Nat → Int → Int → Int × Int
  | 0, item, acc => (item, acc)
  | fuel + 1, item, acc =>
    if doyInt > acc + monthLenT leap item ∧ item < 12 then monthLoop leap doyInt fuel (item + 1) (acc + monthLenT leap item)
    else (item, acc)

/-- `days2mdh(year, day_of_year)` -/
def days2mdh (year : Int) (doy : Rat) : Int × Int × Rat × Rat × Rat :=
  let leap := (year - 1900) % 4 == 0
  let doyInt := doy.floor
  let (month, before) := monthLoop leap doyInt 12 1 0
  let day := doyInt - before
  let hourRem := fmul (fsub doy doyInt) 24
  let hour := ffloor hourRem
  let minRem := fmul (fsub hourRem hour) 60
  let minute := ffloor minRem
  let second := fmul (fsub minRem minute) 60
  (month, day, hour, minute, second)

/-- `getCalendarDate(julian_date)` -/
def getCalendarDate (jd : Rat) : Cal :=
  let tempVal := fsub jd (24150195 / 10)
  let tempU := fdiv tempVal (36525 / 100)
  let year0 : Int := 1900 + tempU.floor
  let doyOf (year : Int) : Rat :=
    let leapYears := ffloor (fmul ((year : Rat) - 1901) (1 / 4))
    fsub tempVal (((year - 1900) * 365 : Int) + leapYears)
  let year := if doyOf year0 < 1 then year0 - 1 else year0
  let doy := doyOf year
  let (mo, d, h, mi, s) := days2mdh year doy
  ⟨year, mo, d, h, mi, s⟩

inductive SecondRule | truncate | nearest
deriving Repr, DecidableEq

/-- seconds since 0001-01-01 of a civil instant (proleptic Gregorian), for datetime arithmetic -/
def civilToSeconds (c : Civil) : Int :=
  (RV.Frames.dayNumber c.y c.mo.toNat c.d.toNat) * 86400 + c.h * 3600 + c.mi * 60 + c.s

/-- `julianDateToDatetime`, as (calendar fields, whole seconds to add by `timedelta`).
`.nearest` is the repaired rule `timedelta(seconds=int(round(second)))`; `.truncate` is the
unrepaired `int(second)` with its `== 60` patch. -/
def j2dParts (rule : SecondRule) (jd : Rat) : Civil × Int :=
  let c := getCalendarDate jd
  match rule with
  | .nearest => (⟨c.y, c.mo, c.d, c.h.floor, c.mi.floor, 0, 0⟩, fround c.sec)
  | .truncate =>
    let s := ftrunc c.sec
    (⟨c.y, c.mo, c.d, c.h.floor, c.mi.floor, s, 0⟩,
      if (s : Rat) ≠ c.sec ∧ fround c.sec = 60 then 1 else 0)

/-- `julianDateToDatetime` as seconds on the civil time line -/
def j2dSeconds (rule : SecondRule) (jd : Rat) : Int :=
  let (c, extra) := j2dParts rule jd
  civilToSeconds c + extra

/-- days since 1970-01-01 → civil date (inverse of `dayNumber`; the standard era/400 algorithm) -/
def civilFromDays (z0 : Int) : Int × Int × Int :=
  let z := z0 + 719468
  let era := z / 146097
  let doe := z - era * 146097
  let yoe := (doe - doe / 1460 + doe / 36524 - doe / 146096) / 365
  let y := yoe + era * 400
  let doy := doe - (365 * yoe + yoe / 4 - yoe / 100)
  let mp := (5 * doy + 2) / 153
  let d := doy - (153 * mp + 2) / 5 + 1
  let m := if mp < 10 then mp + 3 else mp - 9
  (if m ≤ 2 then y + 1 else y, m, d)

/-- seconds on the civil time line → civil instant (`datetime` arithmetic) -/
def civilFromSeconds (t : Int) : Civil :=
  let days := t / 86400
  let sod := t % 86400
  let (y, m, d) := civilFromDays days
  ⟨y, m, d, sod / 3600, (sod % 3600) / 60, sod % 60, 0⟩

/-- `getTargetJulianDate(start_jd, timedelta(seconds = D))` -/
def targetJD (rule : SecondRule) (startJD : Rat) (D : Int) : Rat :=
  jdOf (civilFromSeconds (j2dSeconds rule startJD + D))

/-- `ScenarioTime.convertToJulianDate(jd0)` -/
def toJD (jd0 t : Rat) : Rat := fadd jd0 (fmul t (fdiv 1 (fmul 24 3600)))
/-- `JulianDate.convertToScenarioTime(jd0)` -/
def toScenario (jd jd0 : Rat) : Rat := fmul (fmul (fsub jd jd0) 24) 3600

/-- the number of `stepForward` calls `Scenario.propagateTo` makes, or `none` when it raises
(`rounded_delta < dt`) -/
def propagateSteps (targetJD jd0 clockTime dt : Rat) : Option Int :=
  let target := toScenario targetJD jd0
  let rounded : Rat := (fround (fsub target clockTime) : Int)
  if rounded ≥ dt then some (ftrunc (fdiv rounded dt)) else none

/-- a timed run `runResonaate(sim_time = D seconds)` from the civil instant `start` with step `dt`:
the number of steps taken (or `none` if `propagateTo` raises) -/
def runSteps (rule : SecondRule) (start : Civil) (D dt : Int) : Option Int :=
  let jd0 := jdOf start
  propagateSteps (targetJD rule jd0 D) jd0 0 dt

end RV.Time
