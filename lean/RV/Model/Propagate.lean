/-
Model of the propagation layer (C03): `Celestial.propagate` / `propagateBulk` and the batch layout of
`_differentialEquation`.

* The numerical integrator is an abstract flow `Φ t0 t1 x` (the state at `t1` of the trajectory through
  `x` at `t0`); what the code adds around it — the restart loop with state jumps at event times, the
  bulk output at requested times, the `(6,K)` C-order flattening and its strided slices — is modelled
  exactly.
* `lagrange`: the closed-form two-body solution in Lagrange-coefficient form, as
  `solveKeplerProblemUniversal` returns it.
* `epoch`: the Julian date expression `init_julian_date + time / 86400` in binary64.
-/
import RV.Num.Vec3
import RV.Num.F64
namespace RV.Propagate
open RV

/-! ### batch layout -/

/-- index of entry (row `i`, column `j`) of a `6 × K` array flattened in C order (`ndarray.ravel()`) -/
def flatIdx (K i j : Nat) : Nat := i * K + j

/-- the indices selected by the slice `[start : stop : step]` with positive step -/
def sliceIdx (start stop step : Nat) : List Nat :=
  (List.range ((stop - start + step - 1) / step)).map fun n => start + n * step

/-- `state[jj : jj + half : step]` with `step = n/6`, `half = n/2`, `n = 6K` -/
def posSlice (K jj : Nat) : List Nat := sliceIdx jj (jj + 3 * K) K
/-- `state[jj + half :: step]` -/
def velSlice (K jj : Nat) : List Nat := sliceIdx (jj + 3 * K) (6 * K) K

/-- `X.ravel()` of the `6 × K` array `X i j` (row `i`, column `j`), as a function of the flat index -/
def flatOf (X : Nat → Nat → Rat) (K : Nat) : Nat → Rat := fun idx => X (idx / K) (idx % K)

/-- the `n`-th element of the strided view `flat[start :: step]` -/
def sliceGet (flat : Nat → Rat) (start step n : Nat) : Rat := flat (start + n * step)

/-- one column's derivative: velocity, then the acceleration `acc` computes from the column -/
def colDeriv (acc : (Nat → Rat) → Nat → Rat) (col : Nat → Rat) : Nat → Rat :=
  fun i => if i < 3 then col (i + 3) else acc col (i - 3)

/-- the array the loop of `_differentialEquation` writes for a flattened batch: for each column `jj` it reads
`r = flat[jj : jj+half : step]`, `v = flat[jj+half :: step]` and writes `v` into the position slice and the
acceleration into the velocity slice of the derivative -/
def batchDeriv (acc : (Nat → Rat) → Nat → Rat) (K : Nat) (flat : Nat → Rat) : Nat → Rat := fun idx =>
  let jj := idx % K
  let col : Nat → Rat := fun r => if r < 3 then sliceGet flat jj K r else sliceGet flat (jj + 3 * K) K (r - 3)
  colDeriv acc col (idx / K)

/-- list forms for the driver: a batch given by its columns -/
def ravelList (cols : List (List Rat)) : List Rat :=
  let K := cols.length
  (List.range (6 * K)).map (flatOf (fun i j => (cols[j]!)[i]!) K)

/-! ### the restart loop over an abstract flow -/

section
variable {S : Type}

/-- `propagate`: integrate to the next event inside the span, apply its state jump, restart there -/
def run (Φ : Rat → Rat → S → S) : List (Rat × (S → S)) → Rat → Rat → S → S
  | [], t, tEnd, x => Φ t tEnd x
  | (te, jump) :: rest, t, tEnd, x =>
    if te ≤ tEnd then run Φ rest te tEnd (jump (Φ t te x)) else Φ t tEnd x

/-- `propagateBulk`: the states at each requested time (after the first), by continuing from one to the next -/
def bulk (Φ : Rat → Rat → S → S) (events : List (Rat × (S → S))) : Rat → List Rat → S → List S
  | _, [], _ => []
  | t, tk :: ts, x =>
    let xk := run Φ (events.filter fun e => decide (t < e.1) && decide (e.1 ≤ tk)) t tk x
    xk :: bulk Φ events tk ts xk
end

/-! ### closed-form two-body solution -/

/-- `(f r₀ + g v₀, ḟ r₀ + ġ v₀)` -/
def lagrange (f g fd gd : Rat) (r0 v0 : V3) : V3 × V3 :=
  ((V3.smul f r0).add (V3.smul g v0), (V3.smul fd r0).add (V3.smul gd v0))

/-! ### epoch arithmetic -/

/-- `init_julian_date + time / 86400` in binary64 -/
def epoch (jd0 t : Rat) : Rat := F64.fadd jd0 (F64.fdiv t 86400)

end RV.Propagate
