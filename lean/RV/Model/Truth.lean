/-
Model of the truth side of a scenario step (C10): every realtime agent's truth state is advanced by
its own propagation job — a function of that agent's state, the step's times, its dynamics and the
events queued for it — and the finished jobs are applied in whatever order they complete.
Everything else (estimates, sensors' pointing, tasking, database, noise) is the opaque component
`R`, which may read the truth but is never read by the truth update.
-/
import RV.Num.Parse
namespace RV.Truth

/-- truth states of the agents present: agent id ↦ state (states abstracted to `σ`) -/
abbrev TruthMap (σ : Type) := Nat → Option σ

def upd {σ} (m : TruthMap σ) (k : Nat) (v : σ) : TruthMap σ := fun i => if i = k then some v else m i

/-- the result of one propagation job -/
structure JobResult (σ : Type) where
  agent : Nat
  final : σ

/-- `PropagateRegistration.processResults`, applied in completion order -/
def applyJobs {σ} (m : TruthMap σ) (rs : List (JobResult σ)) : TruthMap σ :=
  rs.foldl (fun m r => upd m r.agent r.final) m

/-- a step of the whole simulation: `prop k a x` is the propagation of agent `a` from state `x` in
step `k` (dynamics + that agent's scheduled events); the jobs of the agents in `agents`
complete in the order `order`; `rest` updates everything else. -/
structure World (σ R : Type) where
  truth : TruthMap σ
  rest : R

def jobsOf {σ} (prop : Nat → σ → σ) (m : TruthMap σ) (order : List Nat) : List (JobResult σ) :=
  order.filterMap fun a => (m a).map fun x => ⟨a, prop a x⟩

def stepWorld {σ R} (prop : Nat → σ → σ) (restStep : TruthMap σ → R → R) (order : List Nat) (w : World σ R) : World σ R :=
  let t' := applyJobs w.truth (jobsOf prop w.truth order)
  ⟨t', restStep t' w.rest⟩

end RV.Truth
