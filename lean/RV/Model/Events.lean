/-
Model of event scheduling (C01): the per-step query window of `Scenario.stepForward`, the query
predicate of `getRelevantEvents`, and an agent's `propagate_event_queue` (append on delivery, prune
at job submission, firing inside `Celestial.propagate`).

Time lives on two axes: civil seconds (integers; `datetime` arithmetic is exact) and Julian dates
(binary64 values, as rationals).  `jd : Int → Rat` is the conversion `datetimeToJulianDate` of a
civil second count (in the driver: `Time.jdOf ∘ Time.civilFromSeconds`); the theorems need only
that it is strictly increasing on the simulated span, which is C05's `jd_strict_mono`.
-/
import RV.Model.Time
namespace RV.Events

inductive Scope | scenarioStep | agentPropagation | taskRewardGeneration | observationGeneration
deriving Repr, DecidableEq

structure EventRow where
  id : Nat
  scope : Scope
  instanceId : Int
  startSec : Int      -- configured start_time (civil seconds)
  endSec : Int        -- configured end_time
deriving Repr, DecidableEq

/-- how the step window is computed -/
inductive WindowImpl
  | datetimeBased     -- repaired: both bounds are `datetimeToJulianDate` of the clock's datetimes
  | clockPlusDelta    -- unrepaired: clock Julian date and that plus `dt * SEC2DAYS`
deriving Repr, DecidableEq

/-- `(prior_jd, next_jd)` of step `k ≥ 1` (the step from `start + (k-1)dt` to `start + k dt`) -/
def stepWindow (impl : WindowImpl) (jd : Int → Rat) (sec2days : Rat) (start dt : Int) (k : Nat) : Rat × Rat :=
  match impl with
  | .datetimeBased => (jd (start + ((k : Int) - 1) * dt), jd (start + (k : Int) * dt))
  | .clockPlusDelta =>
    let lb := RV.Time.toJD (jd start) ((((k : Int) - 1) * dt : Int) : Rat)
    (lb, RV.F64.fadd lb (RV.F64.fmul (dt : Rat) sec2days))

/-- the filter of `getRelevantEvents`; `filterApplied = false` models the unrepaired code, where
the result of `query.filter(scope_instance_id == …)` was discarded -/
def relevant (filterApplied : Bool) (jd : Int → Rat) (scope : Scope) (lb ub : Rat) (inst : Option Int)
    (e : EventRow) : Bool :=
  decide (e.scope = scope) && decide (jd e.startSec ≤ ub) && decide (jd e.endSec > lb)
  && (match inst with
      | none => true
      | some i => if filterApplied then decide (e.instanceId = i) else true)

/-- the steps `1..N` in which an event is handed to its handler -/
def deliverySteps (impl : WindowImpl) (filterApplied : Bool) (jd : Int → Rat) (sec2days : Rat)
    (start dt : Int) (N : Nat) (scope : Scope) (inst : Option Int) (e : EventRow) : List Nat :=
  (List.range N).filterMap fun i =>
    let k := i + 1
    let w := stepWindow impl jd sec2days start dt k
    if relevant filterApplied jd scope w.1 w.2 inst e then some k else none

/-! ### an agent's propagate-event queue -/

structure Imp where
  id : Nat
  time : Rat          -- scenario time of the impulse (`start_jd.convertToScenarioTime(jd0)`)
deriving Repr, DecidableEq

/-- the prune rule for impulses: `.strict` keeps `now < time` (repaired); `.keepIfEqual` also
keeps `time ≈ now` (unrepaired) -/
inductive PruneRule | strict | keepIfEqual
deriving Repr, DecidableEq

def fpeEq (a b : Rat) : Bool := decide (RV.F64.absQ (a - b) < 1 / 1000000000000000)

def prune (rule : PruneRule) (now : Rat) (q : List Imp) : List Imp :=
  q.filter fun i => decide (now < i.time) || (rule == .keepIfEqual && fpeEq i.time now)

/-- impulses of one agent that share their instant: the solver reports one terminal event per stop.
`.all` (repaired): the propagator also applies the scheduled events whose root is that same instant;
`.firstOnly` (unrepaired): coincident impulses behind the first are never applied. -/
inductive TieRule | all | firstOnly
deriving Repr, DecidableEq

/-- is `i` the first entry of `q` with its time? -/
def firstWithTime (q : List Imp) (i : Imp) : Bool :=
  match q.find? (fun j => j.time == i.time) with
  | some j => j.id == i.id
  | none => false

/-- the impulses applied by one `Celestial.propagate(t0, t1)` call with queue `q`: those whose
event function `t - time` has a root in the call — `t0 < time ≤ t1`, or `time ≈ t0` when such an
entry survived pruning (the event function is 0 at the first instant: scipy counts that as a
crossing). -/
def fire (t0 t1 : Rat) (q : List Imp) (tie : TieRule := .all) : List Nat :=
  (q.filter fun i => (decide (t0 < i.time) || fpeEq i.time t0) && decide (i.time ≤ t1) && (tie == .all || firstWithTime q i)).map (·.id)

structure Agent where
  queue : List Imp
  fired : List Nat
deriving Repr

/-- one scenario step for one agent: events delivered this step are appended (`handleEvent` →
`appendPropagateEvent`), the queue is pruned when the propagation job is generated (agent time =
start of the step), and the propagator applies what falls inside the step. -/
def stepAgent (rule : PruneRule) (tPrev tNow : Rat) (delivered : List Imp) (a : Agent) (tie : TieRule := .all) : Agent :=
  let q := prune rule tPrev (a.queue ++ delivered)
  { queue := q, fired := a.fired ++ fire tPrev tNow q tie }

/-- a whole run: step `k` (1-based) goes from `t (k-1)` to `t k` and receives `deliveries k` -/
def runAgent (rule : PruneRule) (t : Nat → Rat) (deliveries : Nat → List Imp) (n : Nat) (tie : TieRule := .all) : Agent :=
  match n with
  | 0 => ⟨[], []⟩
  | k + 1 => stepAgent rule (t k) (t (k + 1)) (deliveries (k + 1)) (runAgent rule t deliveries k tie) tie

end RV.Events
