/-
Model of `resonaate.tasking.decisions` and `resonaate.tasking.rewards` (C07).

Matrices are indexed `(target, sensor)` as in the code.  The executable model works on list
matrices (`RMat`, `BMat`); every definition is a tabulation of a function `Nat → Nat → _`, and the
theorems are stated on those functions, with `build_entry` as the bridge.

`scipy.optimize.linear_sum_assignment` is a library call: the assignment it returns is an input of
the model (`pairs`), and the optimality of a given assignment is *decided* by a dual certificate
(`checkDual`, sound by `RV.Props.C07.checkDual_sound`) or, for small shapes, by brute force
(`bestTotal`).
-/
import RV.Num.Parse
namespace RV.Decisions

abbrev RMat := List (List Rat)
abbrev BMat := List (List Bool)

def entry (M : RMat) (t s : Nat) : Rat := (M.getD t []).getD s 0
def bentry (M : BMat) (t s : Nat) : Bool := (M.getD t []).getD s false

def build {α} (T S : Nat) (f : Nat → Nat → α) : List (List α) :=
  (List.range T).map fun t => (List.range S).map fun s => f t s

/-- `numpy.argmax` over the indices `0..n` (inclusive): the first index attaining the maximum. -/
def argmaxFirst (f : Nat → Rat) : Nat → Nat
  | 0 => 0
  | n + 1 => let b := argmaxFirst f n; if f b < f (n + 1) then n + 1 else b

/-- `Decision.calculate`: the policy's selection ANDed with the visibility matrix. -/
def calcD (sel vis : Nat → Nat → Bool) (t s : Nat) : Bool := sel t s && vis t s

/-- `MyopicNaiveGreedyDecision._calculate` on `T ≥ 1` targets. -/
def greedySel (R : Nat → Nat → Rat) (T : Nat) (t s : Nat) : Bool :=
  t == argmaxFirst (fun t' => R t' s) (T - 1)

/-- `AllVisibleDecision._calculate`. -/
def allVisSel (vis : Nat → Nat → Bool) (t s : Nat) : Bool := vis t s

/-- `RandomDecision._calculate`: `choice s` is the index the generator drew for sensor `s`
(the code draws only among visible targets, and only if there is one). -/
def anyVis (vis : Nat → Nat → Bool) (T : Nat) (s : Nat) : Bool :=
  (List.range T).any fun t => vis t s
def randomSel (vis : Nat → Nat → Bool) (T : Nat) (choice : Nat → Nat) (t s : Nat) : Bool :=
  anyVis vis T s && t == choice s

/-- the matrix `where(visibility, reward, 0)` handed to the assignment solver. -/
def mask (R : Nat → Nat → Rat) (vis : Nat → Nat → Bool) (t s : Nat) : Rat :=
  if vis t s then R t s else 0

/-- `MunkresDecision._calculate`: mark the pairs the solver returned. -/
def pairsSel (pairs : List (Nat × Nat)) (t s : Nat) : Bool := pairs.contains (t, s)

/-- total reward of a boolean decision over a `T × S` matrix. -/
def total (R : Nat → Nat → Rat) (D : Nat → Nat → Bool) (T S : Nat) : Rat :=
  ((List.range T).map fun t => ((List.range S).map fun s => if D t s then R t s else 0).sum).sum

/-- total reward of an assignment given as `σ t` = sensor of target `t`, for `t < T`. -/
def totalOf (R : Nat → Nat → Rat) (σ : Nat → Nat) (T : Nat) : Rat :=
  ((List.range T).map fun t => R t (σ t)).sum

/-- Dual certificate for "the assignment `σ` of all `T ≤ S` targets to distinct sensors has
maximum total": potentials `u` (targets) and `v ≥ 0` (sensors) with `u t + v s ≥ R t s`
everywhere and `Σu + Σv = total σ`. -/
def checkDual (R : Nat → Nat → Rat) (T S : Nat) (u v : Nat → Rat) (σ : Nat → Nat) : Bool :=
  ((List.range T).all fun t => (List.range S).all fun s => decide (R t s ≤ u t + v s))
  && ((List.range S).all fun s => decide (0 ≤ v s))
  && decide (((List.range T).map u).sum + ((List.range S).map v).sum = totalOf R σ T)

/-- all injective maps from `0..T-1` into `0..S-1`, as lists (brute force; small shapes only). -/
def injections : Nat → List Nat → List (List Nat)
  | 0, _ => [[]]
  | T + 1, avail => avail.flatMap fun s => (injections T (avail.erase s)).map (s :: ·)

def listMax : List Rat → Option Rat
  | [] => none
  | x :: xs => match listMax xs with
    | none => some x
    | some m => some (if m < x then x else m)

/-- brute-force maximum total over complete one-to-one assignments of the smaller side. -/
def bestTotal (R : Nat → Nat → Rat) (T S : Nat) : Option Rat :=
  if T ≤ S then
    listMax ((injections T (List.range S)).map fun σ => totalOf R (fun t => σ.getD t 0) T)
  else
    listMax ((injections S (List.range T)).map fun σ =>
      ((List.range S).map fun s => R (σ.getD s 0) s).sum)

/-! ### rewards -/

/-- `Reward.normalizeMetrics` for one metric slice: divide by the maximum when it is positive. -/
def normalize (m : List Rat) : List Rat :=
  match listMax m with
  | some mx => if 0 < mx then m.map (· / mx) else m
  | none => m

def sign (x : Rat) : Rat := if 0 < x then 1 else if x < 0 then -1 else 0

/-- `CostConstrainedReward.calculate` for one (target, sensor) pair. -/
def costConstrained (δ stab info sens : Rat) : Rat := δ * (sign stab + info) - (1 - δ) * sens
/-- `CombinedReward.calculate`. -/
def combined (δ stab info sens beh : Rat) : Rat := costConstrained δ stab info sens + beh
/-- `SimpleSummationReward.calculate`. -/
def summation (ms : List Rat) : Rat := ms.sum

end RV.Decisions
