/-
Model of `resonaate.estimation.maneuver_detection` (C17).

One filter step hands the detector an innovation `ν` and its covariance `S`; everything the
detectors do with them goes through the scalar `q = νᵀ S⁻¹ ν` (`chiSquareQuadraticForm`) and the
measurement dimension.  A history is therefore a list of `Obs` (oldest first).  The chi-square
bound `chi2.isf(α, dof)` is a library call: an oracle `B : Rat → Rat` of the degrees of freedom.
-/
import RV.Num.Parse
namespace RV.Detectors

structure Obs where
  q : Rat
  dim : Nat
deriving Repr

/-- `νᵀ Sinv ν` on list vectors/matrices (`Sinv` is the exact inverse supplied by the harness). -/
def dot (a b : List Rat) : Rat := (List.zipWith (· * ·) a b).sum
def mulVec (M : List (List Rat)) (v : List Rat) : List Rat := M.map (dot · v)
def nis (ν : List Rat) (Sinv : List (List Rat)) : Rat := dot ν (mulVec Sinv ν)

/-- what every detector reports for a step: the metric and the degrees of freedom it tests with -/
structure Out where
  metric : Rat
  dof : Rat
deriving Repr

/-- `not oneSidedChiSquareTest(metric, α, dof)`: a maneuver is declared iff the metric is not
below the upper-tail bound. -/
def detect (B : Rat → Rat) (o : Out) : Bool := !(decide (o.metric < B o.dof))

/-! StandardNis -/
def standardStep (o : Obs) : Out := ⟨o.q, o.dim⟩

/-! SlidingNis: two `deque(maxlen = w)`; newest first here -/
structure Sliding where
  w : Nat
  qs : List Rat
  dims : List Nat
deriving Repr

def Sliding.init (w : Nat) : Sliding := ⟨w, [], []⟩
def Sliding.step (s : Sliding) (o : Obs) : Sliding × Out :=
  let qs := (o.q :: s.qs).take s.w
  let dims := (o.dim :: s.dims).take s.w
  (⟨s.w, qs, dims⟩, ⟨qs.sum, (dims.sum : Nat)⟩)

/-! FadingMemoryNis -/
structure Fading where
  δ : Rat
  prior : Rat
  totalDim : Nat
  total : Nat
deriving Repr

def Fading.init (δ : Rat) : Fading := ⟨δ, 0, 0, 0⟩
def Fading.step (s : Fading) (o : Obs) : Fading × Out :=
  let total := s.total + 1
  let totalDim := s.totalDim + o.dim
  let avg : Rat := (totalDim : Rat) / (total : Rat)
  let dof := avg * (1 + s.δ) / (1 - s.δ)
  let prior := s.δ * s.prior + o.q
  (⟨s.δ, prior, totalDim, total⟩, ⟨prior * (1 + s.δ), dof⟩)

/-- detector state after a whole history, and the output of the step that follows it -/
def slidingState (w : Nat) (h : List Obs) : Sliding := h.foldl (fun s o => (s.step o).1) (Sliding.init w)
def slidingOut (w : Nat) (h : List Obs) (o : Obs) : Out := ((slidingState w h).step o).2
def fadingState (δ : Rat) (h : List Obs) : Fading := h.foldl (fun s o => (s.step o).1) (Fading.init δ)
def fadingOut (δ : Rat) (h : List Obs) (o : Obs) : Out := ((fadingState δ h).step o).2

/-- the documented exponentially faded sum, newest first: `Σ_j δ^j q_j` -/
def fadedSum (δ : Rat) : List Rat → Rat
  | [] => 0
  | q :: older => q + δ * fadedSum δ older

end RV.Detectors
