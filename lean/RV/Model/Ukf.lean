/-
Executable model of one predict/update cycle of `UnscentedKalmanFilter` on a linear system (C06):
weights, sigma points from a supplied factor `L` (`numpy.linalg.cholesky`) and `γ` (`sqrt`),
prediction, forecast in both modes (redraw: new points and new state residuals; no redraw: the
propagated points), gain from a supplied inverse `Sinv` (`numpy.linalg.inv`), update.
List matrices (rows), core Lean only.  The theorems of `RV.Props.C06` are about the same formulas
written over Mathlib matrices.
-/
import RV.Num.Parse
namespace RV.Ukf

abbrev Vec := List Rat
abbrev Mat := List (List Rat)

def dot (a b : Vec) : Rat := (List.zipWith (· * ·) a b).sum
def mulVec (M : Mat) (v : Vec) : Vec := M.map (dot · v)
def transpose (M : Mat) : Mat :=
  match M with
  | [] => []
  | r :: _ => (List.range r.length).map fun j => M.map fun row => row.getD j 0
def mul (A B : Mat) : Mat := let Bt := transpose B; A.map fun r => Bt.map fun c => dot r c
def vadd (a b : Vec) : Vec := List.zipWith (· + ·) a b
def vsub (a b : Vec) : Vec := List.zipWith (· - ·) a b
def vscale (c : Rat) (a : Vec) : Vec := a.map (c * ·)
def madd (A B : Mat) : Mat := List.zipWith vadd A B
def msub (A B : Mat) : Mat := List.zipWith vsub A B
def mscale (c : Rat) (A : Mat) : Mat := A.map (vscale c)
def outer (a b : Vec) : Mat := a.map fun x => b.map fun y => x * y
def zeros (r c : Nat) : Mat := List.replicate r (List.replicate c 0)
def col (M : Mat) (j : Nat) : Vec := M.map fun row => row.getD j 0

structure Tuning where
  lam : Rat
  γ : Rat
  α : Rat
  β : Rat

/-- mean weights and covariance weights (`2n+1` entries) -/
def meanW (n : Nat) (t : Tuning) : List Rat :=
  (t.lam / ((n : Rat) + t.lam)) :: List.replicate (2 * n) (1 / (2 * (t.lam + (n : Rat))))
def covW (n : Nat) (t : Tuning) : List Rat :=
  match meanW n t with
  | [] => []
  | w0 :: ws => (w0 + (1 - t.α * t.α + t.β)) :: ws

/-- `generateSigmaPoints(mean, cov)` with `sqrt_cov = L`: the columns `x, x + γLᵢ, x − γLᵢ` -/
def sigmaPoints (n : Nat) (t : Tuning) (x : Vec) (L : Mat) : List Vec :=
  x :: ((List.range n).map fun i => vadd x (vscale t.γ (col L i)))
    ++ ((List.range n).map fun i => vsub x (vscale t.γ (col L i)))

def wmean (w : List Rat) (pts : List Vec) (d : Nat) : Vec :=
  (List.zip w pts).foldl (fun acc (wi, p) => vadd acc (vscale wi p)) (List.replicate d 0)

def wcov (w : List Rat) (ra rb : List Vec) (da db : Nat) : Mat :=
  (List.zip w (List.zip ra rb)).foldl (fun acc (wi, a, b) => madd acc (mscale wi (outer a b))) (zeros da db)

structure Out where
  predX : Vec
  predP : Mat
  S : Mat
  C : Mat
  K : Mat
  estX : Vec
  estP : Mat

/-- predict through linear dynamics `F` with process noise `Q`, then update with the stacked linear
measurement `H`, noise `R`, measurement `y`.  `redraw` selects the mode; `L'` is the factor of the
predicted covariance used when redrawing; `Sinv` the inverse of the innovation covariance. -/
def step (n m : Nat) (t : Tuning) (x : Vec) (L F Q : Mat) (redraw : Bool) (L' H R Sinv : Mat) (y : Vec) : Out :=
  let w := meanW n t
  let wc := covW n t
  let pts := (sigmaPoints n t x L).map (mulVec F)
  let predX := wmean w pts n
  let xres := pts.map (vsub · predX)
  let predP := madd (wcov wc xres xres n n) Q
  let pts2 := if redraw then sigmaPoints n t predX L' else pts
  let xres2 := if redraw then pts2.map (vsub · (pts2.headD [])) else xres
  let ys := pts2.map (mulVec H)
  let ybar := wmean w ys m
  let yres := ys.map (vsub · ybar)
  let S := madd (wcov wc yres yres m m) R
  let C := wcov wc xres2 yres n m
  let K := mul C Sinv
  let estP := msub predP (mul K (mul S (transpose K)))
  let estX := vadd predX (mulVec K (vsub y ybar))
  ⟨predX, predP, S, C, K, estX, estP⟩

end RV.Ukf
