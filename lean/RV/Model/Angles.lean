/-
Model of the angle helpers of `resonaate.physics.maths` (C16): `wrapAngle2Pi` (C `fmod`, result has
the sign of the dividend), `wrapAngleNegPiPi` (`numpy.remainder`, sign of the divisor), `residual`,
`vecWrapAngleNeg`, `vecWrapAngle2Pi`, `vecResiduals`.

Everything is a function of the two constants the code uses, `τ = const.TWOPI` and `π = const.PI`
(their exact binary64 values are extracted into `RV.Generated.Constants`); the theorems need only
`τ = 2π` and `0 < π`.
-/
import RV.Num.Parse
namespace RV.Angles

/-- truncation toward zero of a rational (C `fmod`'s quotient) -/
def truncQ (q : Rat) : Int := if 0 ≤ q then q.floor else -((-q).floor)

/-- C `fmod(x, τ)` -/
def fmodQ (x τ : Rat) : Rat := x - τ * (truncQ (x / τ) : Rat)
/-- `numpy.remainder(x, τ)` (Python `%`) -/
def remQ (x τ : Rat) : Rat := x - τ * ((x / τ).floor : Rat)

def sgn (x : Rat) : Rat := if 0 < x then 1 else if x < 0 then -1 else 0
def absQ (x : Rat) : Rat := if x < 0 then -x else x

/-- `wrapAngle2Pi` -/
def wrap2Pi (τ x : Rat) : Rat :=
  let a := fmodQ x τ
  if a < 0 then a + τ else a

/-- `wrapAngleNegPiPi` -/
def wrapNegPiPi (π τ x : Rat) : Rat :=
  let a := remQ x τ
  if absQ a > π then a - τ * sgn a else a

/-- `residual(val1, val2, angular)` -/
def residual (π τ : Rat) (a b : Rat) (angular : Bool) : Rat :=
  if angular then wrapNegPiPi π τ (wrap2Pi τ a - wrap2Pi τ b) else a - b

/-- `vecWrapAngleNeg`: `(x + π) % τ - π` -/
def vecWrapNeg (π τ x : Rat) : Rat := remQ (x + π) τ - π
/-- `vecWrapAngle2Pi`: `where(x < 0, τ + x, x)` — note: no reduction of multi-turn angles -/
def vecWrap2Pi (τ x : Rat) : Rat := if x < 0 then τ + x else x
/-- `vecResiduals` -/
def vecResidual (π τ : Rat) (a b : Rat) (angular : Bool) : Rat :=
  if angular then vecWrapNeg π τ (vecWrap2Pi τ a - vecWrap2Pi τ b) else a - b

end RV.Angles
