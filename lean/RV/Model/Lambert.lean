/-
Model of the Lambert / initial-orbit-determination layer (C20): `_calculateVelocities`, the
Lagrange-coefficient propagation it must be consistent with, `radarObs2eciPosition` as the inverse of
the radar measurement model over the frame matrices of C04, and the selection logic of `LambertIOD`.
-/
import RV.Num.Vec3
import RV.Model.Frames
import RV.Model.Propagate
namespace RV.Lambert
open RV RV.Frames

/-- `_calculateVelocities`: `v₁ = (r₂ − f r₁)/g`, `v₂ = (ġ r₂ − r₁)/g` -/
def calcVelocities (f g gd : Rat) (r1 r2 : V3) : V3 × V3 :=
  (V3.smul (1 / g) (r2.sub (V3.smul f r1)), V3.smul (1 / g) ((V3.smul gd r2).sub r1))

/-- the radar measurement model: slant range vector of the target in the sensor's SEZ frame;
`E` takes inertial to Earth-fixed positions at the observation's instant, `S` Earth-fixed to SEZ at the site -/
def slantSez (E S : M3) (sensor target : V3) : V3 := S.mulVec (E.mulVec (target.sub sensor))

/-- `radarObs2eciPosition`: rotate the SEZ vector back and add the sensor position -/
def radarObs2eci (Et St : M3) (sensor sez : V3) : V3 := (Et.mulVec (St.mulVec sez)).add sensor

/-- `determineTransferDirection`: short way (+1) below half the period, long way (−1) above, 0 at exactly half -/
def transferDirection (transit period : Rat) : Int :=
  if transit < period / 2 then 1 else if transit > period / 2 then -1 else 0

/-- `checkSinglePass`: the transit time when it is inside one period, `none` otherwise (a non-positive transit raises) -/
def singlePass (transit period : Rat) : Option (Option Rat) :=
  if transit ≥ period then some none else if transit ≤ 0 then none else some (some transit)

/-- which stored observation the IOD starts from: the latest one inside the window (the query is ordered by epoch) -/
def previousObservation (stored : List (Rat × Nat)) (lo hi : Rat) : Option (Rat × Nat) :=
  (stored.filter fun o => decide (lo ≤ o.1) && decide (o.1 ≤ hi)).getLast?

end RV.Lambert
