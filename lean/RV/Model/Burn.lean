/-
Model of finite-thrust switching across propagation calls (C15): `Celestial._prepEvents` (re-arm
rule), `ScheduledFiniteThrust.__call__` (the phase-dependent event function), `getStateChangeCallback`
(on/off decision), over an abstract integrator in which a terminal event fires at its root.

A run is a list of propagate calls `[t 0, t 1], [t 1, t 2], …` (one per scenario step).  For each call
the model returns the sub-interval on which the thrust acceleration is applied.
-/
import RV.Num.Parse
namespace RV.Burn

/-- how the event function is formed -/
inductive EventShape
  | phaseSwitch     -- repaired: `end - t` while the thrust is active, `start - t` otherwise
  | startRootOnly   -- unrepaired: always `start - t` (no root at the end of the thrust)
deriving Repr, DecidableEq

/-- the tolerance of `getStateChangeCallback`: the thrust is switched off when `end - t < tol` -/
def tol : Rat := 1 / 1000000000

/-- the sub-interval `[a, b]` of the call `[t0, t1]` with thrust on (`none` = never on).
`s`, `e` are the configured start and end of the thrust, `s < e`. -/
def callOn (sh : EventShape) (s e t0 t1 : Rat) : Option (Rat × Rat) :=
  -- `_prepEvents`: a thrust already under way is re-armed (callback at `t0`)
  let armed := decide (s < t0) && decide (t0 < e) && !(decide (e - t0 < tol))
  if armed then
    match sh with
    | .phaseSwitch => some (t0, if e ≤ t1 then e else t1)      -- the active event function has its root at `e`
    | .startRootOnly => some (t0, t1)                          -- `start - t` has no root: thrust to the end of the call
  else if t0 ≤ s ∧ s ≤ t1 then
    -- the inactive event function `start - t` has its root at `s`: callback at `s`
    if e - s < tol then none
    else match sh with
      | .phaseSwitch => some (s, if e ≤ t1 then e else t1)
      | .startRootOnly => some (s, t1)
  else none

def duration : Option (Rat × Rat) → Rat
  | none => 0
  | some (a, b) => b - a

/-- total time with thrust on over the calls `[t 0,t 1] … [t (N-1), t N]` -/
def totalOn (sh : EventShape) (s e : Rat) (t : Nat → Rat) : Nat → Rat
  | 0 => 0
  | k + 1 => totalOn sh s e t k + duration (callOn sh s e (t k) (t (k + 1)))

/-! ### several burns of one agent, one thrust slot

`Celestial.finite_thrust` is a single slot.  `_prepEvents` resets it and lets every queued burn that
is under way at the start of the call install its thrust (in queue order).  During the call every root
of a burn's event function is a callback: the start of the burn installs its thrust function; its end
empties the slot - in the repaired code only if the slot still holds that burn's thrust
(`OffShape.ownOnly`), so that the end of one burn cannot switch off another that begins at the same
instant.  Callbacks happen in time order; roots that share an instant all fire, in queue order, in the
repaired code (`TieShape.all`), while the unrepaired code lost all but the first (`TieShape.firstOnly`:
the solver reports one terminal event per stop and the restart one ulp later is already past the
others). -/

abbrev BurnIv := Rat × Rat

structure Change where
  time : Rat
  burn : BurnIv
  on : Bool
deriving Repr, DecidableEq

/-- how `_prepEvents` treats a burn that is *not* under way at the start of the call -/
inductive PrepShape
  | keep      -- the code: the slot is left alone
  | clobber   -- a seeded variant: the slot is set to `None` (a later burn switches an active one off)
deriving Repr, DecidableEq

/-- `_applyEvents` at the end of a burn -/
inductive OffShape
  | ownOnly   -- repaired: the slot is emptied only if it holds this burn's thrust
  | clobber   -- unrepaired: the slot is emptied
deriving Repr, DecidableEq

/-- roots that share an instant -/
inductive TieShape
  | all         -- repaired: all fire, in queue order
  | firstOnly   -- unrepaired: only the first in queue order fires, the others are lost for this call
deriving Repr, DecidableEq

def prepSlotWith (ps : PrepShape) (burns : List BurnIv) (t0 : Rat) : Option BurnIv :=
  burns.foldl (fun slot b =>
    if b.1 < t0 ∧ t0 < b.2 then (if b.2 - t0 < tol then none else some b)
    else match ps with
      | .keep => slot
      | .clobber => none) none

def prepSlot (burns : List BurnIv) (t0 : Rat) : Option BurnIv := prepSlotWith .keep burns t0

/-- the burn's event is `active` after `_prepEvents` -/
def armedAfterPrep (b : BurnIv) (t0 : Rat) : Bool :=
  decide (b.1 < t0) && decide (t0 < b.2) && !(decide (b.2 - t0 < tol))

/-- the roots of one burn's event function inside the call `[t0, t1]`, in time order -/
def rootsOf (b : BurnIv) (t0 t1 : Rat) : List Change :=
  if armedAfterPrep b t0 then (if b.2 ≤ t1 then [⟨b.2, b, false⟩] else [])
  else if t0 ≤ b.1 ∧ b.1 ≤ t1 then
    (if b.2 - b.1 < tol then [⟨b.1, b, false⟩]
     else ⟨b.1, b, true⟩ :: (if b.2 ≤ t1 then [⟨b.2, b, false⟩] else []))
  else []

def allRoots (burns : List BurnIv) (t0 t1 : Rat) : List Change := burns.flatMap (rootsOf · t0 t1)

/-- insert before the first callback that is not earlier (so that what stood earlier in the queue stays earlier among equal times) -/
def insertChange (c : Change) : List Change → List Change
  | [] => [c]
  | d :: l => if c.time ≤ d.time then c :: d :: l else d :: insertChange c l

/-- stable insertion sort by time -/
def sortChanges : List Change → List Change
  | [] => []
  | c :: l => insertChange c (sortChanges l)

/-- the callbacks of the call in the order in which they happen: by time, equal times in queue order -/
def sortedRoots (burns : List BurnIv) (t0 t1 : Rat) : List Change := sortChanges (allRoots burns t0 t1)

/-- keep only the first of every run of equal times -/
def dedupFrom (last : Option Rat) : List Change → List Change
  | [] => []
  | c :: l => if last = some c.time then dedupFrom last l else c :: dedupFrom (some c.time) l

def firedRoots (tie : TieShape) (burns : List BurnIv) (t0 t1 : Rat) : List Change :=
  match tie with
  | .all => sortedRoots burns t0 t1
  | .firstOnly => dedupFrom none (sortedRoots burns t0 t1)

def applyChange (off : OffShape) (slot : Option BurnIv) (c : Change) : Option BurnIv :=
  if c.on then some c.burn
  else match off with
    | .clobber => none
    | .ownOnly => if slot = some c.burn then none else slot

/-- the thrust slot at time `t` of the call `[t0, t1]` -/
def slotAtG (ps : PrepShape) (tie : TieShape) (off : OffShape) (burns : List BurnIv) (t0 t1 t : Rat) : Option BurnIv :=
  ((firedRoots tie burns t0 t1).filter (fun c => decide (c.time ≤ t))).foldl (applyChange off) (prepSlotWith ps burns t0)

def slotAt (burns : List BurnIv) (t0 t1 t : Rat) : Option BurnIv := slotAtG .keep .all .ownOnly burns t0 t1 t

/-- the callbacks made by `_prepEvents` (queue order): the burns under way -/
def prepCallbacks (burns : List BurnIv) (t0 : Rat) : List Change :=
  burns.filterMap fun b =>
    if b.1 < t0 ∧ t0 < b.2 then some ⟨t0, b, !(decide (b.2 - t0 < tol))⟩ else none

/-- the slot at the end of the call -/
def slotEnd (burns : List BurnIv) (t0 t1 : Rat) : Option BurnIv :=
  (sortedRoots burns t0 t1).foldl (applyChange .ownOnly) (prepSlot burns t0)

end RV.Burn
