/-
Model of finite-thrust switching across propagation calls (C15): `Celestial._prepEvents` (re-arm
rule), `ScheduledFiniteThrust.__call__` (the phase-dependent event function), `getStateChangeCallback`
(on/off decision), over an abstract integrator in which a terminal event fires at its root.

A run is a list of propagate calls `[t 0, t 1], [t 1, t 2], …` (one per scenario step).  For each call
the model returns the sub-interval on which the thrust acceleration is applied.
-/
import RV.Num.Parse
namespace RV.Burn

/-- how the event function is formed -/
inductive EventShape
  | phaseSwitch     -- repaired: `end - t` while the thrust is active, `start - t` otherwise
  | startRootOnly   -- unrepaired: always `start - t` (no root at the end of the thrust)
deriving Repr, DecidableEq

/-- the tolerance of `getStateChangeCallback`: the thrust is switched off when `end - t < tol` -/
def tol : Rat := 1 / 1000000000

/-- the sub-interval `[a, b]` of the call `[t0, t1]` with thrust on (`none` = never on).
`s`, `e` are the configured start and end of the thrust, `s < e`. -/
def callOn (sh : EventShape) (s e t0 t1 : Rat) : Option (Rat × Rat) :=
  -- `_prepEvents`: a thrust already under way is re-armed (callback at `t0`)
  let armed := decide (s < t0) && decide (t0 < e) && !(decide (e - t0 < tol))
  if armed then
    match sh with
    | .phaseSwitch => some (t0, if e ≤ t1 then e else t1)      -- the active event function has its root at `e`
    | .startRootOnly => some (t0, t1)                          -- `start - t` has no root: thrust to the end of the call
  else if t0 ≤ s ∧ s ≤ t1 then
    -- the inactive event function `start - t` has its root at `s`: callback at `s`
    if e - s < tol then none
    else match sh with
      | .phaseSwitch => some (s, if e ≤ t1 then e else t1)
      | .startRootOnly => some (s, t1)
  else none

def duration : Option (Rat × Rat) → Rat
  | none => 0
  | some (a, b) => b - a

/-- total time with thrust on over the calls `[t 0,t 1] … [t (N-1), t N]` -/
def totalOn (sh : EventShape) (s e : Rat) (t : Nat → Rat) : Nat → Rat
  | 0 => 0
  | k + 1 => totalOn sh s e t k + duration (callOn sh s e (t k) (t (k + 1)))

/-! ### several burns of one agent, one thrust slot

`Celestial.finite_thrust` is a single slot.  `_prepEvents` resets it and lets every queued burn that
is under way at the start of the call install its thrust (in queue order); during the call every
root of a burn's event function installs that burn's callback result: the thrust function at the
start of the burn, `None` at its end.  The slot at a time `t` of the call is the value installed by
the latest root not after `t` (roots at equal times fire in queue order, the later one wins), or
the value left by `_prepEvents` when no root has fired yet. -/

abbrev BurnIv := Rat × Rat

structure Change where
  time : Rat
  val : Option BurnIv
deriving Repr, DecidableEq

/-- how `_prepEvents` treats a burn that is *not* under way at the start of the call -/
inductive PrepShape
  | keep      -- the code: the slot is left alone
  | clobber   -- a seeded variant: the slot is set to `None` (a later burn switches an active one off)
deriving Repr, DecidableEq

def prepSlotWith (ps : PrepShape) (burns : List BurnIv) (t0 : Rat) : Option BurnIv :=
  burns.foldl (fun slot b =>
    if b.1 < t0 ∧ t0 < b.2 then (if b.2 - t0 < tol then none else some b)
    else match ps with
      | .keep => slot
      | .clobber => none) none

def prepSlot (burns : List BurnIv) (t0 : Rat) : Option BurnIv := prepSlotWith .keep burns t0

/-- the burn's event is `active` after `_prepEvents` -/
def armedAfterPrep (b : BurnIv) (t0 : Rat) : Bool :=
  decide (b.1 < t0) && decide (t0 < b.2) && !(decide (b.2 - t0 < tol))

/-- the roots of one burn's event function inside the call `[t0, t1]`, in time order, with the value
its callback installs -/
def rootsOf (b : BurnIv) (t0 t1 : Rat) : List Change :=
  if armedAfterPrep b t0 then (if b.2 ≤ t1 then [⟨b.2, none⟩] else [])
  else if t0 ≤ b.1 ∧ b.1 ≤ t1 then
    (if b.2 - b.1 < tol then [⟨b.1, none⟩]
     else ⟨b.1, some b⟩ :: (if b.2 ≤ t1 then [⟨b.2, none⟩] else []))
  else []

def allRoots (burns : List BurnIv) (t0 t1 : Rat) : List Change := burns.flatMap (rootsOf · t0 t1)

/-- the latest change not after `t`; among equal times the one later in the list -/
def latest : List Change → Rat → Option Change
  | [], _ => none
  | c :: l, t =>
    match latest l t with
    | some d => if c.time ≤ t ∧ d.time < c.time then some c else some d
    | none => if c.time ≤ t then some c else none

/-- the thrust slot at time `t` of the call `[t0, t1]` -/
def slotAtWith (ps : PrepShape) (burns : List BurnIv) (t0 t1 t : Rat) : Option BurnIv :=
  match latest (allRoots burns t0 t1) t with
  | none => prepSlotWith ps burns t0
  | some c => c.val

def slotAt (burns : List BurnIv) (t0 t1 t : Rat) : Option BurnIv := slotAtWith .keep burns t0 t1 t

/-- the callbacks of one call in the order in which they happen: `_prepEvents` first (queue order), then the
roots by time (equal times in queue order) -/
def insertChange (c : Change) : List Change → List Change
  | [] => [c]
  | d :: l => if c.time < d.time then c :: d :: l else d :: insertChange c l

def timeline (burns : List BurnIv) (t0 t1 : Rat) : List Change :=
  let prep := burns.filterMap fun b =>
    if b.1 < t0 ∧ t0 < b.2 then some ⟨t0, if b.2 - t0 < tol then none else some b⟩ else none
  prep ++ (allRoots burns t0 t1).foldl (fun acc c => insertChange c acc) []

end RV.Burn
