/-
Model of finite-thrust switching across propagation calls (C15): `Celestial._prepEvents` (re-arm
rule), `ScheduledFiniteThrust.__call__` (the phase-dependent event function), `getStateChangeCallback`
(on/off decision), over an abstract integrator in which a terminal event fires at its root.

A run is a list of propagate calls `[t 0, t 1], [t 1, t 2], …` (one per scenario step).  For each call
the model returns the sub-interval on which the thrust acceleration is applied.
-/
import RV.Num.Parse
namespace RV.Burn

/-- how the event function is formed -/
inductive EventShape
  | phaseSwitch     -- repaired: `end - t` while the thrust is active, `start - t` otherwise
  | startRootOnly   -- unrepaired: always `start - t` (no root at the end of the thrust)
deriving Repr, DecidableEq

/-- the tolerance of `getStateChangeCallback`: the thrust is switched off when `end - t < tol` -/
def tol : Rat := 1 / 1000000000

/-- the sub-interval `[a, b]` of the call `[t0, t1]` with thrust on (`none` = never on).
`s`, `e` are the configured start and end of the thrust, `s < e`. -/
def callOn (sh : EventShape) (s e t0 t1 : Rat) : Option (Rat × Rat) :=
  -- `_prepEvents`: a thrust already under way is re-armed (callback at `t0`)
  let armed := decide (s < t0) && decide (t0 < e) && !(decide (e - t0 < tol))
  if armed then
    match sh with
    | .phaseSwitch => some (t0, if e ≤ t1 then e else t1)      -- the active event function has its root at `e`
    | .startRootOnly => some (t0, t1)                          -- `start - t` has no root: thrust to the end of the call
  else if t0 ≤ s ∧ s ≤ t1 then
    -- the inactive event function `start - t` has its root at `s`: callback at `s`
    if e - s < tol then none
    else match sh with
      | .phaseSwitch => some (s, if e ≤ t1 then e else t1)
      | .startRootOnly => some (s, t1)
  else none

def duration : Option (Rat × Rat) → Rat
  | none => 0
  | some (a, b) => b - a

/-- total time with thrust on over the calls `[t 0,t 1] … [t (N-1), t N]` -/
def totalOn (sh : EventShape) (s e : Rat) (t : Nat → Rat) : Nat → Rat
  | 0 => 0
  | k + 1 => totalOn sh s e t k + duration (callOn sh s e (t k) (t (k + 1)))

end RV.Burn
