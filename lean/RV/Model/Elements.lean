/-
Model of `resonaate.physics.orbits` (C12): `coe2eci`, the pieces of `eci2coe`, `coe2eqe`, `eqe2eci`,
the pieces of `eci2eqe`, `getEquinoctialBasisVectors`, `singularityCheck`, `isInclined`,
`isEccentric`, the anomaly maps.

Transcendental values enter as parameters: an angle is the pair (cos, sin); `sqrt`/`norm` results are
oracles named after what they are (`sq = sqrt(mu/p)`, `beta = sqrt(1-h²-k²)`, `rn = ‖r‖`, …).  The
theorems constrain them only by their defining relations, so they hold for the real values.
-/
import RV.Num.Vec3
import RV.Model.Frames
import RV.Model.Angles
namespace RV.Elements
open RV RV.Frames

/-- `rot3(-raan) · rot1(-inc) · rot3(-argp)` : perifocal → inertial -/
def pqw2eci (cO sO ci si cw sw : Rat) : M3 :=
  (rot3 cO (-sO)).mul ((rot1 ci (-si)).mul (rot3 cw (-sw)))

/-- `coe2eci`; `sq = sqrt(mu / p)` -/
def coe2eci (sma ecc cO sO ci si cw sw cv sv sq : Rat) : State :=
  let p := sma * (1 - ecc * ecc)
  let rp : V3 := V3.smul (p / (1 + ecc * cv)) ⟨cv, sv, 0⟩
  let vp : V3 := V3.smul sq ⟨-sv, ecc + cv, 0⟩
  let m := pqw2eci cO sO ci si cw sw
  ⟨m.mulVec rp, m.mulVec vp⟩

/-! ### pieces of `eci2coe` (norms are oracles) -/
def orbitalEnergy (mu rn vn : Rat) : Rat := (1 / 2) * (vn * vn) - mu / rn
def semiMajorAxis (mu rn vn : Rat) : Rat := -(1 / 2) * mu / orbitalEnergy mu rn vn
def angMomentum (x : State) : V3 := x.r.cross x.v
def lineOfNodes (h : V3) : V3 := V3.cross ⟨0, 0, 1⟩ h
/-- the (unnormalised) eccentricity vector -/
def eccVector (mu : Rat) (x : State) (rn vn : Rat) : V3 :=
  V3.smul (1 / mu) ((V3.smul (vn * vn - mu / rn) x.r).sub (V3.smul (x.r.dot x.v) x.v))

/-- `isInclined(inc)`: `none` where the code raises -/
def isInclined (piC limI inc : Rat) : Option Bool :=
  if inc < 0 ∨ inc > piC then none else some (decide (limI ≤ inc) && decide (inc ≤ piC - limI))
/-- `isEccentric(ecc)` -/
def isEccentric (limE ecc : Rat) : Option Bool :=
  if ecc < 0 ∨ ecc > 1 - limE then none else some (decide (limE ≤ ecc))

inductive Branch | generic | equatorial | circular | circularEquatorial
deriving Repr, DecidableEq

def branch (inclined eccentric : Bool) : Branch :=
  match inclined, eccentric with
  | true, true => .generic
  | false, true => .equatorial
  | true, false => .circular
  | false, false => .circularEquatorial

/-- `fixAngleQuadrant` -/
def fixQuadrant (τ angle check : Rat) : Rat := if check < 0 then τ - angle else angle

/-- the sign with which the node angle enters a longitude: an equatorial orbit with `inc > π/2` runs clockwise
about +z, so longitudes measured along the motion count backwards -/
def nodeSign (piC inc : Rat) : Rat := if inc > (1 / 2) * piC then -1 else 1

/-- `singularityCheck(ecc, inc, raan, argp, anomaly)` with the flags already decided -/
def singularityCheck (τ piC inc : Rat) (inclined eccentric : Bool) (raan argp anom : Rat) : Rat × Rat × Rat :=
  match branch inclined eccentric with
  | .generic => (Angles.wrap2Pi τ raan, Angles.wrap2Pi τ argp, Angles.wrap2Pi τ anom)
  | .equatorial => (0, Angles.wrap2Pi τ (argp + nodeSign piC inc * raan), Angles.wrap2Pi τ anom)
  | .circular => (Angles.wrap2Pi τ raan, 0, Angles.wrap2Pi τ (anom + argp))
  | .circularEquatorial => (0, 0, Angles.wrap2Pi τ (anom + argp + nodeSign piC inc * raan))

/-- the code before the repair: the node angle always added -/
def singularityCheckUnrepaired (τ : Rat) (inclined eccentric : Bool) (raan argp anom : Rat) : Rat × Rat × Rat :=
  match branch inclined eccentric with
  | .generic => (Angles.wrap2Pi τ raan, Angles.wrap2Pi τ argp, Angles.wrap2Pi τ anom)
  | .equatorial => (0, Angles.wrap2Pi τ (raan + argp), Angles.wrap2Pi τ anom)
  | .circular => (Angles.wrap2Pi τ raan, 0, Angles.wrap2Pi τ (anom + argp))
  | .circularEquatorial => (0, 0, Angles.wrap2Pi τ (anom + argp + raan))

/-- the angles `eci2coe` returns in each branch, from the angles the helper functions measured
(`lonPer` = true longitude of periapsis, `argLat`, `trueLon`: all measured counter-clockwise from +x or the node) -/
def eci2coeAngles (τ piC inc : Rat) (inclined eccentric : Bool) (raan argp anom lonPer argLat trueLon : Rat) : Rat × Rat × Rat :=
  let w := Angles.wrap2Pi τ
  match branch inclined eccentric with
  | .generic => (w raan, w argp, w anom)
  | .equatorial => (0, w (nodeSign piC inc * lonPer), w anom)
  | .circular => (w raan, 0, w argLat)
  | .circularEquatorial => (0, 0, w (nodeSign piC inc * trueLon))

/-! ### equinoctial elements -/
def retroFactor (retro : Bool) : Rat := if retro then -1 else 1

/-- `getEquinoctialBasisVectors` -/
def eqeBasis (p q : Rat) (retro : Bool) : V3 × V3 :=
  let II := retroFactor retro
  let nt := 1 / (1 + p * p + q * q)
  (V3.smul nt ⟨1 - p * p + q * q, 2 * p * q, -2 * II * p⟩,
   V3.smul nt ⟨2 * II * p * q, (1 + p * p - q * q) * II, 2 * q⟩)

/-- `getAngularMomentumFromEQE` (unit vector) -/
def eqeW (p q : Rat) (retro : Bool) : V3 :=
  V3.smul (1 / (1 + p * p + q * q)) ⟨2 * p, -2 * q, (1 - p * p - q * q) * retroFactor retro⟩

/-- `p, q` of `eci2eqe` from the unit angular momentum -/
def eqePQ (w : V3) (retro : Bool) : Rat × Rat :=
  let II := retroFactor retro
  (w.x / (1 + II * w.z), -w.y / (1 + II * w.z))

/-- `coe2eqe` (the eccentricity and inclination terms); `t = tan(inc/2) ** II`; `(cs, ss)` = cos/sin of `argp + II·raan` -/
def coe2eqeHKPQ (ecc t cs ss cO sO : Rat) : Rat × Rat × Rat × Rat := (ecc * ss, ecc * cs, t * sO, t * cO)

/-- `eqe2eci`; `n = sqrt(mu/a³)`, `beta = sqrt(1 - h² - k²)`, `(cF, sF)` the eccentric longitude -/
def eqe2eci (sma h k p q : Rat) (retro : Bool) (n beta cF sF : Rat) : State :=
  let b := 1 / (1 + beta)
  let hkb := h * k * b
  let r := sma * (1 - h * sF - k * cF)
  let vt := n * (sma * sma) / r
  let x := sma * ((1 - h * h * b) * cF + hkb * sF - k)
  let y := sma * ((1 - k * k * b) * sF + hkb * cF - h)
  let xd := vt * (hkb * cF - (1 - h * h * b) * sF)
  let yd := vt * ((1 - k * k * b) * cF - hkb * sF)
  let fg := eqeBasis p q retro
  ⟨(V3.smul x fg.1).add (V3.smul y fg.2), (V3.smul xd fg.1).add (V3.smul yd fg.2)⟩

/-- the arguments of the `arctan2` that gives the eccentric longitude in `eci2eqe` (sin-like, cos-like) -/
def eci2eqeF (sma h k X Y beta : Rat) : Rat × Rat :=
  let b := 1 / (1 + beta)
  let denom := sma * beta
  (h + ((1 - h * h * b) * Y - h * k * b * X) / denom, k + ((1 - k * k * b) * X - h * k * b * Y) / denom)

/-! ### anomalies -/
/-- `eccAnom2MeanAnom` before wrapping: Kepler's equation -/
def keplerM (E ecc sE : Rat) : Rat := E - ecc * sE
/-- `eccLong2MeanLong` before wrapping -/
def keplerLam (F h k cF sF : Rat) : Rat := F + h * cF - k * sF
/-- arguments of the `arctan2` of `trueAnom2EccAnom` (sin-like, cos-like); `be = sqrt(1-e²)` -/
def nu2E (ecc be cv sv : Rat) : Rat × Rat := (sv * be, ecc + cv)
/-- arguments of the `arctan2` of `eccAnom2TrueAnom` -/
def E2nu (ecc be cE sE : Rat) : Rat × Rat := (sE * be, cE - ecc)

end RV.Elements
