/-
Model of the perturbed force model (C13): `SpecialPerturbations._differentialEquation` and its terms.

* `thirdBody`: the third-body term in the form the code evaluates (Battin's `q`), with the three norms
  as oracles.
* `grAcc`: `_getGeneralRelativityAcceleration`; `srpAcc`: `_getSolarRadiationPressureAcceleration`
  (the visible fraction of the Sun is an input).
* `harmV/harmW`: the Cunningham functions `V[n,m]`, `W[n,m]` that `getNonSphericalHarmonics` tabulates,
  as pure functions (each column by a two-term recursion from the diagonal); `nonSpherical`:
  `nonSphericalAcceleration`.
* `total`: the sum with its switches.
-/
import RV.Num.Vec3
namespace RV.Forces
open RV

/-- `_getThirdBodyAcceleration(r, r3)`; `rn = ‖r‖`, `R = ‖r3‖`, `d = ‖r3 - r‖` -/
def thirdBody (r r3 : V3) (rn R d : Rat) : V3 :=
  let rs3 := r3.sub r
  let denominator := (rn * rn + 2 * r.dot rs3) * (R * R + R * d + d * d)
  let q3 := denominator / (R * R * R * (d * d * d) * (R + d))
  (V3.smul q3 rs3).sub (V3.smul (1 / (R * R * R)) r)

/-- the direct formula: `(r3 - r)/d³ - r3/R³` -/
def thirdBodyDirect (r r3 : V3) (R d : Rat) : V3 :=
  (V3.smul (1 / (d * d * d)) (r3.sub r)).sub (V3.smul (1 / (R * R * R)) r3)

/-- `_getGeneralRelativityAcceleration(r, v)`; `rn = ‖r‖`, `vn = ‖v‖`, `cSq = c²` -/
def grAcc (mu cSq : Rat) (r v : V3) (rn vn : Rat) : V3 :=
  let er := V3.smul (1 / rn) r
  let ev := V3.smul (1 / vn) v
  let tmp := vn * vn / cSq
  V3.smul (mu / (rn * rn)) ((V3.smul ((4 * mu) / (cSq * rn) - tmp) er).add (V3.smul (4 * tmp) (V3.smul (er.dot ev) ev)))

/-- the Schwarzschild term of the IERS conventions: `mu/(c² r³) ((4 mu/r - v²) r + 4 (r·v) v)` -/
def grReference (mu cSq : Rat) (r v : V3) (rn : Rat) : V3 :=
  V3.smul (mu / (cSq * (rn * rn * rn))) ((V3.smul (4 * mu / rn - v.dot v) r).add (V3.smul (4 * r.dot v) v))

/-- `_getSolarRadiationPressureAcceleration`: `P` solar pressure, `ratio = C_R A/m`, `au`, `d = ‖sun - sat‖`, `frac` the
visible fraction of the Sun -/
def srpAcc (P ratio au : Rat) (sat sun : V3) (d frac : Rat) : V3 :=
  let position := sun.sub sat
  V3.smul (frac / 1000) (V3.smul (1 / d) (V3.smul (-P * ratio * ((au / d) * (au / d))) position))

/-! ### spherical harmonics -/

/-- `(V[m,m], W[m,m])` -/
def diagVW (xb yb rho : Rat) : Nat → Rat × Rat
  | 0 => (rho, 0)
  | m + 1 =>
    let p := diagVW xb yb rho m
    ((2 * (m + 1 : Nat) - 1 : Rat) * (xb * p.1 - yb * p.2), (2 * (m + 1 : Nat) - 1 : Rat) * (xb * p.2 + yb * p.1))

/-- `((V[m+k, m], W[m+k, m]), (V[m+k-1, m], W[m+k-1, m]))` -/
def colVW (xb yb zb rho rhoSq : Rat) (m : Nat) : Nat → (Rat × Rat) × (Rat × Rat)
  | 0 => (diagVW xb yb rho m, (0, 0))
  | k + 1 =>
    let p := colVW xb yb zb rho rhoSq m k
    let n : Rat := ((m + k + 1 : Nat) : Rat)
    let a := (2 * n - 1) * zb
    let b := (n + (m : Rat) - 1) * rhoSq
    (((a * p.1.1 - b * p.2.1) / (n - m), (a * p.1.2 - b * p.2.2) / (n - m)), p.1)

/-- `V[n, m]` and `W[n, m]` (zero above the diagonal, as in the zero-initialised arrays) -/
def harmV (xb yb zb rho rhoSq : Rat) (n m : Nat) : Rat := if m ≤ n then (colVW xb yb zb rho rhoSq m (n - m)).1.1 else 0
def harmW (xb yb zb rho rhoSq : Rat) (n m : Nat) : Rat := if m ≤ n then (colVW xb yb zb rho rhoSq m (n - m)).1.2 else 0

/-- one `(n, m)` term of `nonSphericalAcceleration` -/
def harmTerm (V W : Nat → Nat → Rat) (c s : Nat → Nat → Rat) (n m : Nat) : V3 :=
  let z := ((n - m + 1 : Nat) : Rat) * (-(c n m) * V (n + 1) m - s n m * W (n + 1) m)
  if m = 0 then ⟨-(c n 0) * V (n + 1) 1, -(c n 0) * W (n + 1) 1, z⟩
  else
    let f : Rat := (((n - m + 1) * (n - m + 2) : Nat) : Rat)
    ⟨(1 / 2) * (-(c n m) * V (n + 1) (m + 1) - s n m * W (n + 1) (m + 1) + f * (c n m * V (n + 1) (m - 1) + s n m * W (n + 1) (m - 1))),
     (1 / 2) * (-(c n m) * W (n + 1) (m + 1) + s n m * V (n + 1) (m + 1) + f * (-(c n m) * W (n + 1) (m - 1) + s n m * V (n + 1) (m - 1))),
     z⟩

/-- `nonSphericalAcceleration(ecef_pos, mu, R, c, s, maxDegree, maxOrder)`; `rn = ‖ecef_pos‖` -/
def nonSpherical (mu R : Rat) (c s : Nat → Nat → Rat) (maxDegree maxOrder : Nat) (pos : V3) (rn : Rat) : V3 :=
  let rho := R / rn
  let xb := pos.x * rho / rn
  let yb := pos.y * rho / rn
  let zb := pos.z * rho / rn
  let V := harmV xb yb zb rho (rho * rho)
  let W := harmW xb yb zb rho (rho * rho)
  let terms := (List.range (maxDegree + 1)).flatMap fun n =>
    if n < 2 then [] else ((List.range (maxOrder + 1)).filter (· ≤ n)).map fun m => harmTerm V W c s n m
  V3.smul (mu / (R * R)) (terms.foldl V3.add V3.zero)

/-! ### the sum -/

structure Switches where
  srp : Bool
  gr : Bool
  thrust : Bool
deriving Repr, DecidableEq

/-- acceleration of one column: point mass + geopotential + third bodies + (SRP) + (GR) + (thrust) -/
def total (sw : Switches) (pointMass nonsph : V3) (thirdBodies : List V3) (aSrp aGr aThrust : V3) : V3 :=
  let pert := (nonsph.add (thirdBodies.foldl V3.add V3.zero)).add
    ((if sw.srp then aSrp else V3.zero).add (if sw.gr then aGr else V3.zero))
  pointMass.add (if sw.thrust then pert.add aThrust else pert)

end RV.Forces

namespace RV.Forces
/-! ### Chebyshev ephemeris segments -/

/-- Clenshaw's recurrence over the coefficients `[c_k, c_{k+1}, …]`: `(b_k, b_{k+1})` -/
def clenshawB (x : Rat) : List Rat → Rat × Rat
  | [] => (0, 0)
  | c :: cs => let p := clenshawB x cs; (c + 2 * x * p.1 - p.2, p.1)

/-- `numpy.polynomial.chebyshev.chebval(x, c)` for a coefficient list -/
def chebval (x : Rat) (cs : List Rat) : Rat :=
  let p := clenshawB x cs
  p.1 - x * p.2

/-- Chebyshev polynomial of the first kind -/
def chebT (x : Rat) : Nat → Rat
  | 0 => 1
  | 1 => x
  | n + 2 => 2 * x * chebT x (n + 1) - chebT x n

/-- `Σ_j c_j T_{j+k}(x)` -/
def chebSumFrom (x : Rat) : List Rat → Nat → Rat
  | [], _ => 0
  | c :: cs, k => c * chebT x k + chebSumFrom x cs (k + 1)

/-- `_scaleChebyshevInputs`: index of the segment interval and the argument scaled to [-1, 1] -/
def scaleCheb (jd init len : Rat) : Rat × Int :=
  let val := (jd - init) / len
  let idx : Int := if 0 ≤ val then val.floor else -((-val).floor)   -- `array(val, dtype=int)` truncates toward zero
  (2 * (val - idx - 1 / 2), idx)
end RV.Forces
