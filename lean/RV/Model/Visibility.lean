/-
Model of the visibility predicates (C14, reused by C02): `lineOfSight`, conic and rectangular
field of view, azimuth/elevation masks, Earth-limb obscuration, the branch structure of
`calculateSunVizFraction`.

Vectors are triples of rationals.  `sqrt`, `arccos`, `arcsin`, `arctan2` are library calls: the
predicates are modelled in the algebraic form that is equivalent to the code's trigonometric form
(the equivalences that need analysis are proved over ℝ in `RV.Props.C14`), and where the code
compares angles the model takes the angle values as inputs.
-/
import RV.Num.Parse
import RV.Model.Angles
import RV.Num.Vec3
namespace RV.Visibility
open RV

/-- `lineOfSight(r1, r2)` with squared body radius `R2` (Vallado Alg. 35).  The code divides by
`|r1 - r2|²`; for `r1 = r2` it produces NaN, the model is only used for `r1 ≠ r2`. -/
def lineOfSight (R2 : Rat) (r1 r2 : V3) : Bool :=
  let d12 := r1.dot r2
  let tau := (r1.nsq - d12) / (r1.nsq + r2.nsq - 2 * d12)
  if tau < 0 ∨ tau > 1 then true
  else decide ((1 - tau) * r1.nsq + d12 * tau ≥ R2)

/-- `ConicFoV.inFieldOfView`: `arccos(a·b/(|a||b|)) ≤ cone/2`, in cosine form with
`c = cos(cone/2) ≥ 0` (cone ≤ 180°): `a·b ≥ 0 ∧ (a·b)² ≥ c²|a|²|b|²`. -/
def conicIn (c : Rat) (a b : V3) : Bool :=
  decide (0 ≤ a.dot b) && decide (c * c * (a.nsq * b.nsq) ≤ a.dot b * a.dot b)

/-- `RectangularFoV.inFieldOfView` on the azimuth/elevation values the code computed. -/
def rectIn (π τ : Rat) (azHalf elHalf : Rat) (azP elP azB elB : Rat) : Bool :=
  decide (RV.Angles.absQ (RV.Angles.wrapNegPiPi π τ (azP - azB)) ≤ azHalf)
  && decide (RV.Angles.absQ (elP - elB) ≤ elHalf)

/-- the unrepaired form: `abs(az_p - az_b)` without wrapping (kept to document the defect) -/
def rectInUnwrapped (azHalf elHalf : Rat) (azP elP azB elB : Rat) : Bool :=
  decide (RV.Angles.absQ (azP - azB) ≤ azHalf) && decide (RV.Angles.absQ (elP - elB) ≤ elHalf)

/-- the azimuth-mask test of `Sensor.isVisible` (two branches) -/
def azMaskIn (a0 a1 az : Rat) : Bool :=
  if a0 ≤ a1 ∧ a0 ≤ az ∧ az ≤ a1 then true
  else if a0 > a1 ∧ (az ≥ a0 ∨ az ≤ a1) then true
  else false

/-- the elevation-mask test -/
def elMaskIn (e0 e1 el : Rat) : Bool := !(decide (el < e0) || decide (el > e1))

/-- `checkSpaceSensorEarthLimbObscuration` in algebraic form: the target (slant vector with SEZ
z-component `z`, range² `ρ2`) is below the tangent cone of a sphere of radius² `Rl2` seen from
distance² `d2`:  `z < 0 ∧ z² d² > ρ² (d² - Rl²)`. -/
def limbObscured (Rl2 d2 : Rat) (z ρ2 : Rat) : Bool :=
  decide (z < 0) && decide (ρ2 * (d2 - Rl2) < z * z * d2)

/-- which branch `calculateSunVizFraction` takes, from the three angles it computed and the two
distances it compares: 0 = sunward side (returns 1), 1 = full occultation (returns 0),
2 = partial, 3 = no overlap (returns 1). -/
def sunBranch (a b c sunDist satSunDist : Rat) : Nat :=
  if sunDist ≥ satSunDist then 0
  else if c < RV.Angles.absQ (b - a) then 1
  else if c < RV.Angles.absQ (a + b) then 2
  else 3

end RV.Visibility
