/-
Model of `Sensor.collectObservations` / `attemptObservation` / the `isVisible` cascades (C02).

A constraint check is a pair (holds?, the explanation reported when it does not).  `attempt` walks
the checks in the order the code performs them and reports the first one that fails; which checks
there are, and in which order, is read from the source by the extractor — the theorems hold for
any list.
-/
import RV.Num.Parse
namespace RV.Sensor

abbrev Reason := String

structure Check where
  holds : Bool
  reason : Reason
deriving Repr, DecidableEq

inductive Outcome
  | observation
  | missed (r : Reason)
deriving Repr, DecidableEq

/-- `attemptObservation`: the field-of-view test, then the sensor's visibility cascade -/
def attempt : List Check → Outcome
  | [] => .observation
  | c :: cs => if c.holds then attempt cs else .missed c.reason

/-- what one tasked sensor returns for its primary target and for the background targets.
`canSlew` decides whether anything is attempted at all; background targets are attempted (against the
same pointing) only when serendipitous observations are enabled and the sensor slewed there. -/
structure Collected where
  primary : Outcome
  background : List (Nat × Outcome)     -- (target id, outcome) — only observations are reported
deriving Repr, DecidableEq

def collect (slewReason : Reason) (canSlew : Bool) (primaryChecks : List Check) (calcBackground : Bool)
    (background : List (Nat × List Check)) : Collected :=
  let prim := if canSlew then attempt primaryChecks else .missed slewReason
  let bg := if calcBackground && canSlew then
      (background.map fun p => (p.1, attempt p.2)).filter fun p => p.2 == .observation
    else []
  ⟨prim, bg⟩

/-- the code before the repair: background targets were attempted against the commanded pointing even when the
sensor had not slewed to it -/
def collectUnrepaired (slewReason : Reason) (canSlew : Bool) (primaryChecks : List Check) (calcBackground : Bool)
    (background : List (Nat × List Check)) : Collected :=
  let prim := if canSlew then attempt primaryChecks else .missed slewReason
  let bg := if calcBackground then
      (background.map fun p => (p.1, attempt p.2)).filter fun p => p.2 == .observation
    else []
  ⟨prim, bg⟩

end RV.Sensor
