/-
Model of the reference-frame conversions (C04; reused by C11, C20, C02):
`rot1/2/3`, `skewSymmetric`, `dotRot*`, `PolarMotion.rot_w`, `eci2ecef`/`ecef2eci`,
`sez2ecef`/`ecef2sez`, `spherical2cartesian`/`cartesian2spherical`, `razel2sez`/`sez2razel`,
`rsw2eci`/`eci2rsw`/`ntw2eci`, `lla2ecef`, `dayOfYear`, `greenwichMeanTime`,
`greenwichApparentTime`.

`sin`, `cos`, `sqrt`, `arcsin`, `arctan2` are library calls: a rotation takes the pair
`(c, s) = (cos θ, sin θ)` it was given, a normalisation takes the norm it was given, and the
theorems carry the defining hypothesis (`c² + s² = 1`, `n² = v·v`).
-/
import RV.Num.Vec3
import RV.Model.Angles
namespace RV.Frames
open RV

/-! ### elementary rotations (`maths.rot1/2/3`), cross-product matrix -/
def rot1 (c s : Rat) : M3 := ⟨⟨1, 0, 0⟩, ⟨0, c, s⟩, ⟨0, -s, c⟩⟩
def rot2 (c s : Rat) : M3 := ⟨⟨c, 0, -s⟩, ⟨0, 1, 0⟩, ⟨s, 0, c⟩⟩
def rot3 (c s : Rat) : M3 := ⟨⟨c, s, 0⟩, ⟨-s, c, 0⟩, ⟨0, 0, 1⟩⟩

/-- `skewSymmetric(w)` -/
def skew (w : V3) : M3 := ⟨⟨0, -w.z, w.y⟩, ⟨w.z, 0, -w.x⟩, ⟨-w.y, w.x, 0⟩⟩
/-- the unrepaired third row `[-w[1], w[1], 0]` (kept to document the defect) -/
def skewOld (w : V3) : M3 := ⟨⟨0, -w.z, w.y⟩, ⟨w.z, 0, -w.x⟩, ⟨-w.y, w.y, 0⟩⟩

def dotRot1 (c s : Rat) (ω : V3) : M3 := (rot1 c s).mul (skew ω)
def dotRot2 (c s : Rat) (ω : V3) : M3 := (rot2 c s).mul (skew ω)
def dotRot3 (c s : Rat) (ω : V3) : M3 := (rot3 c s).mul (skew ω)

/-- `PolarMotion.rot_w` from the cosines and sines of `x_p`, `y_p` -/
def polarW (cx sx cy sy : Rat) : M3 :=
  ⟨⟨cx, 0, -sx⟩, ⟨sx * sy, cy, cx * sy⟩, ⟨sx * cy, -sy, cx * cy⟩⟩

/-! ### inertial ↔ Earth-fixed -/
structure State where
  r : V3
  v : V3
deriving Repr, DecidableEq

/-- `eci2ecef` as a function of the reduction matrices (`RNP`, `W`, `Wt`) and the Earth rate
`om = spin_rate·(1 - lod/86400)` -/
def eci2ecef (RNP W Wt : M3) (om : Rat) (x : State) : State :=
  let r := Wt.mulVec (RNP.mulVec x.r)
  let velPef := W.mulVec r
  let corr := V3.cross ⟨0, 0, om⟩ velPef
  ⟨r, Wt.mulVec ((RNP.mulVec x.v).sub corr)⟩

/-- `ecef2eci` -/
def ecef2eci (PNR W : M3) (om : Rat) (x : State) : State :=
  let velPef := W.mulVec x.r
  let corr := V3.cross ⟨0, 0, om⟩ velPef
  ⟨PNR.mulVec (W.mulVec x.r), PNR.mulVec ((W.mulVec x.v).add corr)⟩

/-! ### topocentric horizon (SEZ) -/
/-- `matmul(rot3(-lon), rot2(lat - π/2))` with `(cl, sl) = (cos lon, sin lon)` and
`(c2, s2) = (cos, sin)(lat - π/2)` -/
def sez2ecefRot (cl sl c2 s2 : Rat) : M3 := (rot3 cl (-sl)).mul (rot2 c2 s2)
/-- `matmul(rot2(π/2 - lat), rot3(lon))` — the same angle negated: cosine equal, sine negated -/
def ecef2sezRot (cl sl c2 s2 : Rat) : M3 := (rot2 c2 (-s2)).mul (rot3 cl sl)

def rotState (m : M3) (x : State) : State := ⟨m.mulVec x.r, m.mulVec x.v⟩

/-! ### spherical ↔ Cartesian (direction-cosine form) -/
structure Sph where
  rho : Rat
  cth : Rat   -- cos θ (elevation / declination)
  sth : Rat
  cph : Rat   -- cos φ (azimuthal angle)
  sph : Rat
  rhoDot : Rat
  thDot : Rat
  phDot : Rat
deriving Repr, DecidableEq

/-- `spherical2cartesian` -/
def sph2cart (p : Sph) : State :=
  ⟨⟨p.rho * p.cth * p.cph, p.rho * p.cth * p.sph, p.rho * p.sth⟩,
   ⟨p.rhoDot * p.cth * p.cph - p.rho * p.sth * p.cph * p.thDot - p.rho * p.cth * p.sph * p.phDot,
    p.rhoDot * p.cth * p.sph - p.rho * p.sth * p.sph * p.thDot + p.rho * p.cth * p.cph * p.phDot,
    p.rhoDot * p.sth + p.rho * p.cth * p.thDot⟩⟩

/-- `cartesian2spherical`, main branch (`temp1 ≠ 0`), with the two square roots supplied:
`rng = ‖r‖`, `t1 = √(r_i² + r_j²)`.  The angles the code returns are `arcsin(sth)` and
`arctan2(sph, cph)`. -/
def cart2sph (x : State) (rng t1 : Rat) : Sph :=
  let rngDot := x.r.dot x.v / rng
  let sth := x.r.z / rng
  ⟨rng, t1 / rng, sth, x.r.x / t1, x.r.y / t1, rngDot,
   (x.v.z - rngDot * sth) / t1,
   (x.v.x * x.r.y - x.v.y * x.r.x) / (-(x.r.y * x.r.y) - x.r.x * x.r.x)⟩

/-- `diagflat([-1, 1, 1, -1, 1, 1])` applied to a state -/
def flipX (x : State) : State := ⟨⟨-x.r.x, x.r.y, x.r.z⟩, ⟨-x.v.x, x.v.y, x.v.z⟩⟩
/-- `razel2sez` / `sez2razel` -/
def razel2sez (p : Sph) : State := flipX (sph2cart p)
def sez2razel (x : State) (rng t1 : Rat) : Sph := cart2sph (flipX x) rng t1

/-! ### satellite-centred frames -/
/-- rows `r̂, ŝ, ŵ` of the ECI→RSW rotation; `nr = ‖r‖`, `nh = ‖r × v‖` -/
def rswRot (x : State) (nr nh : Rat) : M3 :=
  let rh := V3.smul (1 / nr) x.r
  let wh := V3.smul (1 / nh) (x.r.cross x.v)
  ⟨rh, wh.cross rh, wh⟩
/-- rows `n̂, t̂, ŵ` of the ECI→NTW rotation; `nv = ‖v‖` -/
def ntwRot (x : State) (nv nh : Rat) : M3 :=
  let th := V3.smul (1 / nv) x.v
  let wh := V3.smul (1 / nh) (x.r.cross x.v)
  ⟨th.cross wh, th, wh⟩

def eci2rsw (target chaser : State) (nr nh : Rat) : State :=
  rotState (rswRot target nr nh) ⟨chaser.r.sub target.r, chaser.v.sub target.v⟩
def rsw2eci (x rel : State) (nr nh : Rat) : State := rotState (rswRot x nr nh).transpose rel
def ntw2eci (x rel : State) (nv nh : Rat) : State := rotState (ntwRot x nv nh).transpose rel

/-! ### geodetic → Earth-fixed -/
/-- `lla2ecef` with `(cp, sp)`, `(cl, sl)` and `N = a/√(1 - e² sp²)` supplied -/
def lla2ecef (e2 N cp sp cl sl h : Rat) : V3 :=
  let rDelta := (N + h) * cp
  let rK := ((1 - e2) * N + h) * sp
  ⟨rDelta * cl, rDelta * sl, rK⟩

/-! ### day of year, Greenwich sidereal time -/
def isLeap (y : Int) : Bool := y % 4 == 0 && !(y % 100 == 0 && y % 400 != 0)

def monthLen (leap : Bool) (m : Nat) : Int :=
  match m with
  | 1 => 31 | 2 => if leap then 29 else 28 | 3 => 31 | 4 => 30 | 5 => 31 | 6 => 30
  | 7 => 31 | 8 => 31 | 9 => 30 | 10 => 31 | 11 => 30 | _ => 31

/-- the `while (count < month) and (count < 12)` loop -/
def daysBefore (leap : Bool) : Nat → Int
  | 0 => 0
  | 1 => 0
  | m + 1 => if m < 12 then daysBefore leap m + monthLen leap m else daysBefore leap m

/-- `dayOfYear`, whole-day part (`days + day`) -/
def dayOfYearInt (y : Int) (m d : Nat) : Int := daysBefore (isLeap y) m + d
/-- `dayOfYear` -/
def dayOfYear (y : Int) (m d : Nat) (hh mi : Nat) (sec : Rat) : Rat :=
  (dayOfYearInt y m d : Rat) + (hh : Rat) / 24 + (mi : Rat) / 1440 + sec / 86400

/-- civil date → days since 1970-01-01 (the standard era/400 algorithm), used as the independent
reference calendar -/
def dayNumber (y : Int) (m d : Nat) : Int :=
  let y' := if m ≤ 2 then y - 1 else y
  let era := y' / 400
  let yoe := y' - era * 400
  let mp : Int := if m > 2 then (m : Int) - 3 else (m : Int) + 9
  let doy := (153 * mp + 2) / 5 + (d : Int) - 1
  let doe := yoe * 365 + yoe / 4 - yoe / 100 + doy
  era * 146097 + doe - 719468

/-- `JulianDate.getJulianDate(year, 1, 1, 0, 0, 0)` in exact arithmetic (valid 1901-2099) -/
def jdJan1 (y : Int) : Rat :=
  367 * (y : Rat) - (((7 * (y + (1 + 9) / 12)) / 4 : Int) : Rat) + (((275 * 1) / 9 : Int) : Rat) + 1
    + 17210135 / 10

/-- constants of the sidereal-time polynomial, passed in so that the driver can use the exact
binary64 values the code holds -/
structure GstConst where
  deg2rad : Rat
  twopi : Rat

/-- `greenwichMeanTime(jd)` -/
def gmst (k : GstConst) (jd : Rat) : Rat :=
  let t := (jd - 2451545) / 36525
  let gst := -(62 / 10000000) * t ^ 3 + (93104 / 1000000) * t ^ 2
    + (876600 * 3600 + 8640184812866 / 1000000) * t + 6731054841 / 100000
  RV.Angles.wrap2Pi k.twopi (gst * (1 / 240) * k.deg2rad)

/-- Earth's rotation rate in revolutions per day for the year (Vallado Eq. 3-40) -/
def rotRate (y : Int) : Rat :=
  let t := (jdJan1 y - 2451545) / 36525
  1002737909350795 / 1000000000000000 + (59006 / 1000000000000000) * t
    - (59 / 10000000000000000) * t ^ 2

/-- `greenwichApparentTime(year, elapsed_days, eq_equinox)` -/
def gast (k : GstConst) (y : Int) (elapsedDays eqe : Rat) : Rat :=
  RV.Angles.wrap2Pi k.twopi (gmst k (jdJan1 y) + rotRate y * elapsedDays * k.twopi + eqe)

end RV.Frames
