/-
Model of `EphemerisImporter` (register / import with the completeness test), of the position-key
de-duplication in `CentralizedTaskingEngine.loadImportedObservations`, and of the read-only
surface of `ImporterDatabase` (C19).

An agent's state is abstracted to a natural number (the identity of the database record it was
last set from; `0` = its stale pre-import state), which is all the property talks about.
-/
import RV.Num.Parse
namespace RV.Importer

/-- one `TruthEphemeris` row of the queried epoch: (agent id, record id) -/
abbrev Row := Nat × Nat

/-- the completeness test: `.idSets` compares registered and retrieved ids (repaired),
`.counts` compares how many there are (unrepaired) -/
inductive Completeness | idSets | counts
deriving Repr, DecidableEq

structure St where
  regs : List Nat                 -- `_registrants` keys
  states : List (Nat × Nat)       -- agent id ↦ record id of its current state (absent = stale)
deriving Repr, DecidableEq

inductive Res
  | ok (s : St)
  | missing (ids : List Nat)
deriving Repr, DecidableEq

/-- `registerAgent` (a dict: registering twice is one entry) -/
def register (s : St) (a : Nat) : St := if a ∈ s.regs then s else { s with regs := s.regs ++ [a] }

def setState (states : List (Nat × Nat)) (a r : Nat) : List (Nat × Nat) :=
  (states.filter (·.1 != a)) ++ [(a, r)]

def stateOf (states : List (Nat × Nat)) (a : Nat) : Nat :=
  match states.find? (·.1 == a) with
  | some p => p.2
  | none => 0

/-- the `for ephem in current_ephemerides` loop -/
def applyRows : List Row → St → St
  | [], s => s
  | (a, r) :: rows, s =>
    if a ∈ s.regs then applyRows rows ⟨s.regs.erase a, setState s.states a r⟩
    else applyRows rows s

/-- `importEphemerides(epoch)` with the rows the query returned for that epoch -/
def importStep (c : Completeness) (s : St) (rows : List Row) : Res :=
  let retrieved := rows.map (·.1)
  let missing := s.regs.filter (fun a => !retrieved.contains a)
  match c with
  | .idSets => if missing.isEmpty then .ok (applyRows rows s) else .missing missing
  | .counts => if rows.length < s.regs.length then .missing missing else .ok (applyRows rows s)

/-! ### imported observations -/

structure Obs where
  id : Nat
  key : Int × Int × Int × Nat      -- (int(x·1e6), int(y·1e6), int(z·1e6), target id)
deriving Repr, DecidableEq

/-- the de-duplication loop of `loadImportedObservations` -/
def dedup : List Obs → List (Int × Int × Int × Nat) → List Obs
  | [], _ => []
  | o :: os, seen => if seen.contains o.key then dedup os seen else o :: dedup os (o.key :: seen)

/-! ### the read-only surface -/
inductive DbOp | insertData | deleteData | bulkSave | getData
deriving Repr, DecidableEq

/-- which public operations of `ImporterDatabase` raise `NotImplementedError` -/
def rejected : DbOp → Bool
  | .getData => false
  | _ => true

end RV.Importer
