/-
Model of the probability bookkeeping of multiple-model adaptive estimation (C18):
`StaticMultipleModel.update`, `GeneralizedPseudoBayesian1.update`, `AdaptiveFilter.prune`,
`_constructMixMatrix`, `eciStack` and the moment-matched mixture covariance.

Model likelihoods (`exp(-nis/2)/sqrt((2π)^m det S)`) are library-computed numbers: they enter as a
non-negative input `L`.  Weight vectors are functions `Nat → Rat` on `0..n-1` for the updates and
lists for pruning (which deletes entries).
-/
import RV.Num.Parse
import RV.Model.Decisions
namespace RV.Mmae

/-- `finfo(float).resolution`, the tolerance of `fpe_equals` -/
def eps : Rat := 1 / 1000000000000000

def rsum (n : Nat) (f : Nat → Rat) : Rat := ((List.range n).map f).sum

def rabs (x : Rat) : Rat := if x < 0 then -x else x

/-- `fpe_equals(0.0, s)` -/
def isZero (s : Rat) : Bool := decide (rabs (0 - s) < eps)

/-- SMM: `w_i ← w_i·L_i`; reset to ones if the sum underflows; normalise. -/
def smmUpdate (n : Nat) (w L : Nat → Rat) : Nat → Rat :=
  let w1 := fun i => w i * L i
  let w2 := if isZero (rsum n w1) then fun _ => (1 : Rat) else w1
  fun i => w2 i / rsum n w2

/-- GPB1 model weights: `L_i μ_i / c`, `c = L·μ`, with `L ← 1` when `c` underflows. -/
def gpb1Weights (n : Nat) (μ L : Nat → Rat) : Nat → Rat :=
  let L2 := if isZero (rsum n fun i => L i * μ i) then fun _ => (1 : Rat) else L
  fun i => L2 i * μ i / rsum n fun j => L2 j * μ j

/-- `_constructMixMatrix`: `scale` off the diagonal, `mix_ratio·scale` on it. -/
def mixEntry (n : Nat) (r : Rat) (i j : Nat) : Rat :=
  let scale := 1 / ((n : Rat) - 1 + r)
  if i = j then r * scale else scale

/-- GPB1 mode probabilities: `mix · weights`. -/
def gpb1Modes (n : Nat) (r : Rat) (w : Nat → Rat) : Nat → Rat :=
  fun i => rsum n fun j => mixEntry n r i j * w j

/-! ### pruning (lists) -/

def wAt (w : List Rat) (i : Nat) : Rat := w.getD i 0

/-- `argwhere(model_weights < threshold)` -/
def pruneIdx (thr : Rat) (w : List Rat) : List Nat :=
  (List.range w.length).filter fun i => decide (wAt w i < thr)

/-- `numpy.argmax(model_weights)` -/
def argmaxL (w : List Rat) : Nat := RV.Decisions.argmaxFirst (wAt w) (w.length - 1)

/-- indices that survive `prune(prune_index)`: when every model is listed, the most likely one is
taken off the list first. -/
def keepIdx (thr : Rat) (w : List Rat) : List Nat :=
  let p := pruneIdx thr w
  let p' := if w.length ≤ p.length then p.filter (fun i => i != argmaxL w) else p
  (List.range w.length).filter fun i => !p'.contains i

/-- weights after `prune`: the survivors, renormalised. -/
def prune (thr : Rat) (w : List Rat) : List Rat :=
  let kept := (keepIdx thr w).map (wAt w)
  kept.map (· / kept.sum)

/-- `_prunedToSingleModel` only calls `prune` when something is below the threshold. -/
def pruneStep (thr : Rat) (w : List Rat) : List Nat × List Rat :=
  if (pruneIdx thr w).isEmpty then (List.range w.length, w) else (keepIdx thr w, prune thr w)

/-! ### one SMM update step: Bayes update, prune, convergence test, closure -/

structure SmmOut where
  kept : List Nat
  w : List Rat
  closed : Bool
deriving Repr

def dotL (a b : List Rat) : Rat := (List.zipWith (· * ·) a b).sum

/-- `argwhere(model_weights >= prune_percentage)` -/
def convIdx (pct : Rat) (w : List Rat) : List Nat :=
  (List.range w.length).filter fun i => decide (pct ≤ wAt w i)
/-- survivors of `prune(argwhere(model_weights < prune_percentage))` -/
def convKeep (pct : Rat) (w : List Rat) : List Nat :=
  (List.range w.length).filter fun i => !decide (wAt w i < pct)

/-- `StaticMultipleModel.update` on the probability side.  `B` is the chi-square bound of the
maneuver gate (`oneSidedChiSquareTest(nis, 1 - pct, dim)` ⇔ `nis < B`), `nis` the models' NIS.
`kept` lists the indices (into the input) of the models that remain. -/
def smmStep (thr pct B : Rat) (w L nis : List Rat) : SmmOut :=
  let n := w.length
  let w1 := (List.range n).map (smmUpdate n (wAt w) (wAt L))
  let k1 := (pruneStep thr w1).1
  let w2 := (pruneStep thr w1).2
  if k1.length = 1 then ⟨k1, w2, true⟩ else
  let nis2 := k1.map (wAt nis)
  if (convIdx pct w2).length = 1 ∧ dotL nis2 w2 < B then
    let k2 := convKeep pct w2
    let kv := k2.map (wAt w2)
    ⟨k2.map (fun j => k1.getD j 0), kv.map (· / kv.sum), true⟩
  else ⟨k1, w2, false⟩

/-! ### stacked estimate and moment-matched covariance (list vectors / matrices) -/

abbrev Vec := List Rat
abbrev Mat := List (List Rat)

def vadd (a b : Vec) : Vec := List.zipWith (· + ·) a b
def vsub (a b : Vec) : Vec := List.zipWith (· - ·) a b
def vscale (c : Rat) (a : Vec) : Vec := a.map (c * ·)
def madd (a b : Mat) : Mat := List.zipWith vadd a b
def mscale (c : Rat) (a : Mat) : Mat := a.map (vscale c)
def outer (a b : Vec) : Mat := a.map fun x => b.map fun y => x * y
def vzero (d : Nat) : Vec := List.replicate d 0
def mzero (d : Nat) : Mat := List.replicate d (vzero d)

/-- `eciStack`: `Σ w_i x_i` -/
def mixMean (d : Nat) (w : List Rat) (xs : List Vec) : Vec :=
  (List.zip w xs).foldl (fun acc (wi, xi) => vadd acc (vscale wi xi)) (vzero d)

/-- `Σ w_i (P_i + (x_i - x̄)(x_i - x̄)ᵀ)` -/
def mixCov (d : Nat) (w : List Rat) (xs : List Vec) (ps : List Mat) : Mat :=
  let xbar := mixMean d w xs
  (List.zip w (List.zip xs ps)).foldl
    (fun acc (wi, xi, pi) => madd acc (mscale wi (madd pi (outer (vsub xi xbar) (vsub xi xbar)))))
    (mzero d)

end RV.Mmae
