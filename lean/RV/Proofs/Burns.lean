/-
Helper lemmas for the one-slot model of several finite burns (`RV/Model/Burn.lean`).
-/
import RV.Model.Burn
import Mathlib.Algebra.Order.Field.Rat
import Mathlib.Tactic.Linarith

namespace RV.Proofs.Burns
open RV.Burn

theorem tol_pos : (0 : Rat) < tol := by unfold tol; norm_num

/-- burns of one agent that do not overlap (one may begin at the instant another ends) -/
def NonOverlapping (burns : List BurnIv) : Prop :=
  burns.Pairwise (fun a b => a.2 ≤ b.1 ∨ b.2 ≤ a.1)

theorem NonOverlapping.of_mem {burns : List BurnIv} (h : NonOverlapping burns) {a b : BurnIv} (ha : a ∈ burns) (hb : b ∈ burns)
    (hne : a ≠ b) : a.2 ≤ b.1 ∨ b.2 ≤ a.1 := by
  unfold NonOverlapping at h
  induction burns with
  | nil => cases ha
  | cons x l ih =>
    obtain ⟨hx, hl⟩ := List.pairwise_cons.mp h
    rcases List.mem_cons.mp ha with rfl | ha' <;> rcases List.mem_cons.mp hb with rfl | hb'
    · exact absurd rfl hne
    · exact hx b hb'
    · exact (hx a ha').symm
    · exact ih hl ha' hb'

/-! ### the roots of one burn -/

theorem armed_iff (b : BurnIv) (t0 : Rat) :
    armedAfterPrep b t0 = true ↔ (b.1 < t0 ∧ t0 < b.2) ∧ ¬ (b.2 - t0 < tol) := by
  unfold armedAfterPrep
  simp only [Bool.and_eq_true, decide_eq_true_eq, Bool.not_eq_true', decide_eq_false_iff_not]

theorem mem_rootsOf {b : BurnIv} {t0 t1 : Rat} {c : Change} (hlen : tol ≤ b.2 - b.1) (h : c ∈ rootsOf b t0 t1) :
    (armedAfterPrep b t0 = true ∧ b.2 ≤ t1 ∧ c = ⟨b.2, b, false⟩) ∨
    (armedAfterPrep b t0 = false ∧ t0 ≤ b.1 ∧ b.1 ≤ t1 ∧ c = ⟨b.1, b, true⟩) ∨
    (armedAfterPrep b t0 = false ∧ t0 ≤ b.1 ∧ b.2 ≤ t1 ∧ c = ⟨b.2, b, false⟩) := by
  unfold rootsOf at h
  by_cases ha : armedAfterPrep b t0 = true
  · simp only [ha, if_true] at h
    by_cases he : b.2 ≤ t1
    · simp only [he, if_true, List.mem_singleton] at h
      exact Or.inl ⟨ha, he, h⟩
    · simp only [he, if_false, List.not_mem_nil] at h
  · have ha' : armedAfterPrep b t0 = false := by simpa using ha
    simp only [ha', Bool.false_eq_true, if_false] at h
    by_cases hin : t0 ≤ b.1 ∧ b.1 ≤ t1
    · simp only [hin, and_self, if_true] at h
      have hnt : ¬ (b.2 - b.1 < tol) := not_lt.mpr hlen
      simp only [hnt, if_false] at h
      rcases List.mem_cons.mp h with h | h
      · exact Or.inr (Or.inl ⟨ha', hin.1, hin.2, h⟩)
      · by_cases he : b.2 ≤ t1
        · simp only [he, if_true, List.mem_singleton] at h
          exact Or.inr (Or.inr ⟨ha', hin.1, he, h⟩)
        · simp only [he, if_false, List.not_mem_nil] at h
    · simp only [hin, if_false, List.not_mem_nil] at h

/-- every root of a burn lies in the call and in the burn's own interval, and names that burn -/
theorem rootsOf_time {b : BurnIv} {t0 t1 : Rat} {c : Change} (hlen : tol ≤ b.2 - b.1) (h : c ∈ rootsOf b t0 t1) :
    t0 ≤ c.time ∧ c.time ≤ t1 ∧ b.1 ≤ c.time ∧ c.time ≤ b.2 ∧ c.burn = b := by
  have hp := tol_pos
  rcases mem_rootsOf hlen h with ⟨ha, he, rfl⟩ | ⟨_, h0, h1, rfl⟩ | ⟨_, h0, he, rfl⟩
  · obtain ⟨⟨h1, h2⟩, _⟩ := (armed_iff b t0).mp ha
    exact ⟨le_of_lt h2, he, by linarith, le_refl _, rfl⟩
  · exact ⟨h0, h1, le_refl _, by linarith, rfl⟩
  · exact ⟨by linarith, he, by linarith, le_refl _, rfl⟩

/-- the start callback of a burn that is not under way and starts inside the call -/
theorem on_mem_rootsOf {b : BurnIv} {t0 t1 : Rat} (hlen : tol ≤ b.2 - b.1) (hun : armedAfterPrep b t0 = false)
    (h0 : t0 ≤ b.1) (h1 : b.1 ≤ t1) : (⟨b.1, b, true⟩ : Change) ∈ rootsOf b t0 t1 := by
  unfold rootsOf
  have hnt : ¬ (b.2 - b.1 < tol) := not_lt.mpr hlen
  simp [hun, h0, h1, hnt]

/-- the end callback of a burn whose end lies in the call -/
theorem off_mem_rootsOf {b : BurnIv} {t0 t1 : Rat} (hlen : tol ≤ b.2 - b.1)
    (h : armedAfterPrep b t0 = true ∨ (t0 ≤ b.1 ∧ b.1 ≤ t1)) (he : b.2 ≤ t1) : (⟨b.2, b, false⟩ : Change) ∈ rootsOf b t0 t1 := by
  unfold rootsOf
  have hnt : ¬ (b.2 - b.1 < tol) := not_lt.mpr hlen
  by_cases ha : armedAfterPrep b t0 = true
  · simp [ha, he]
  · have ha' : armedAfterPrep b t0 = false := by simpa using ha
    rcases h with h | h
    · exact absurd h ha
    · simp [ha', h.1, h.2, hnt, he]

/-! ### `_prepEvents` -/

private theorem prep_none_under (l : List BurnIv) (t0 : Rat) (init : Option BurnIv)
    (h : ∀ a ∈ l, ¬ (a.1 < t0 ∧ t0 < a.2)) :
    l.foldl (fun slot b => if b.1 < t0 ∧ t0 < b.2 then (if b.2 - t0 < tol then none else some b)
      else match PrepShape.keep with
        | .keep => slot
        | .clobber => none) init = init := by
  induction l generalizing init with
  | nil => rfl
  | cons x l ih =>
    rw [List.foldl_cons]
    have hx := h x (by simp)
    simp only [hx, if_false]
    exact ih init (fun a ha => h a (List.mem_cons_of_mem _ ha))

private theorem prep_one_under (l : List BurnIv) (t0 : Rat) (init : Option BurnIv) (a : BurnIv) (ha : a ∈ l)
    (hau : a.1 < t0 ∧ t0 < a.2) (huniq : ∀ a' ∈ l, (a'.1 < t0 ∧ t0 < a'.2) → a' = a) :
    l.foldl (fun slot b => if b.1 < t0 ∧ t0 < b.2 then (if b.2 - t0 < tol then none else some b)
      else match PrepShape.keep with
        | .keep => slot
        | .clobber => none) init = (if a.2 - t0 < tol then none else some a) := by
  induction l generalizing init with
  | nil => cases ha
  | cons x l ih =>
    rw [List.foldl_cons]
    by_cases hx : x.1 < t0 ∧ t0 < x.2
    · have hxa : x = a := huniq x (by simp) hx
      subst hxa
      simp only [hx, and_self, if_true]
      by_cases hal : x ∈ l
      · exact ih _ hal (fun a' ha' => huniq a' (List.mem_cons_of_mem _ ha'))
      · refine prep_none_under l t0 _ ?_
        intro a' ha' hu
        exact hal (huniq a' (List.mem_cons_of_mem _ ha') hu ▸ ha')
    · simp only [hx, if_false]
      have hal : a ∈ l := by
        rcases List.mem_cons.mp ha with rfl | h
        · exact absurd hau hx
        · exact h
      exact ih _ hal (fun a' ha' => huniq a' (List.mem_cons_of_mem _ ha'))

/-- with non-overlapping burns the slot left by `_prepEvents` is the one burn under way, if any -/
theorem prepSlot_eq_some_iff {burns : List BurnIv} (hsep : NonOverlapping burns) (t0 : Rat) (b : BurnIv) :
    prepSlot burns t0 = some b ↔ b ∈ burns ∧ armedAfterPrep b t0 = true := by
  have huniq : ∀ a ∈ burns, (a.1 < t0 ∧ t0 < a.2) → ∀ a' ∈ burns, (a'.1 < t0 ∧ t0 < a'.2) → a' = a := by
    intro a ha hau a' ha' hau'
    by_contra hne
    rcases hsep.of_mem ha' ha hne with h | h <;> linarith [hau.1, hau.2, hau'.1, hau'.2]
  unfold prepSlot prepSlotWith
  by_cases hex : ∃ a ∈ burns, a.1 < t0 ∧ t0 < a.2
  · obtain ⟨a, ha, hau⟩ := hex
    rw [prep_one_under burns t0 none a ha hau (huniq a ha hau)]
    constructor
    · intro h
      by_cases htl : a.2 - t0 < tol
      · simp only [htl, if_true] at h; cases h
      · simp only [htl, if_false, Option.some.injEq] at h
        subst h
        exact ⟨ha, (armed_iff a t0).mpr ⟨hau, htl⟩⟩
    · rintro ⟨hb, hb2⟩
      obtain ⟨hbu, hbt⟩ := (armed_iff b t0).mp hb2
      have : b = a := huniq a ha hau b hb hbu
      subst this
      simp only [hbt, if_false]
  · have hnone : ∀ a ∈ burns, ¬ (a.1 < t0 ∧ t0 < a.2) := fun a ha hau => hex ⟨a, ha, hau⟩
    rw [prep_none_under burns t0 none hnone]
    constructor
    · intro h; cases h
    · rintro ⟨hb, hb2⟩
      exact absurd ((armed_iff b t0).mp hb2).1 (hnone b hb)

/-! ### folding callbacks into the slot -/

/-- after a run of end callbacks the slot is what it was, unless its own burn ended -/
theorem fold_offs_none (post : List Change) (hoff : ∀ c ∈ post, c.on = false) :
    post.foldl (applyChange .ownOnly) none = none := by
  induction post with
  | nil => rfl
  | cons x l ih =>
    rw [List.foldl_cons]
    have hx := hoff x (by simp)
    have : applyChange .ownOnly none x = none := by
      unfold applyChange; simp [hx]
    rw [this]
    exact ih (fun c hc => hoff c (List.mem_cons_of_mem _ hc))

theorem fold_offs_keep (post : List Change) (hoff : ∀ c ∈ post, c.on = false) (b : BurnIv)
    (hb : ∀ c ∈ post, c.burn ≠ b) : post.foldl (applyChange .ownOnly) (some b) = some b := by
  induction post with
  | nil => rfl
  | cons x l ih =>
    rw [List.foldl_cons]
    have hx := hoff x (by simp)
    have hxb := hb x (by simp)
    have : applyChange .ownOnly (some b) x = some b := by
      unfold applyChange
      simp only [hx, Bool.false_eq_true, if_false, Option.some.injEq]
      rw [if_neg (fun h => hxb h.symm)]
    rw [this]
    exact ih (fun c hc => hoff c (List.mem_cons_of_mem _ hc)) (fun c hc => hb c (List.mem_cons_of_mem _ hc))

theorem fold_offs_ended (post : List Change) (hoff : ∀ c ∈ post, c.on = false) (b : BurnIv)
    (hb : ∃ c ∈ post, c.burn = b) : post.foldl (applyChange .ownOnly) (some b) = none := by
  induction post with
  | nil => obtain ⟨c, hc, _⟩ := hb; cases hc
  | cons x l ih =>
    rw [List.foldl_cons]
    have hx := hoff x (by simp)
    by_cases hxb : x.burn = b
    · have : applyChange .ownOnly (some b) x = none := by
        unfold applyChange; simp [hx, hxb]
      rw [this]
      exact fold_offs_none l (fun c hc => hoff c (List.mem_cons_of_mem _ hc))
    · have : applyChange .ownOnly (some b) x = some b := by
        unfold applyChange
        simp only [hx, Bool.false_eq_true, if_false, Option.some.injEq]
        rw [if_neg (fun h => hxb h.symm)]
      rw [this]
      obtain ⟨c, hc, hcb⟩ := hb
      rcases List.mem_cons.mp hc with rfl | hc'
      · exact absurd hcb hxb
      · exact ih (fun c hc => hoff c (List.mem_cons_of_mem _ hc)) ⟨c, hc', hcb⟩

/-- the slot after a start callback -/
theorem fold_through_on (pre post : List Change) (x : Change) (hx : x.on = true) (init : Option BurnIv) :
    (pre ++ x :: post).foldl (applyChange .ownOnly) init = post.foldl (applyChange .ownOnly) (some x.burn) := by
  rw [List.foldl_append, List.foldl_cons]
  congr 1
  unfold applyChange; simp [hx]

/-- a list that contains a start callback splits at its last one -/
theorem exists_last_on (l : List Change) (h : ∃ c ∈ l, c.on = true) :
    ∃ pre x post, l = pre ++ x :: post ∧ x.on = true ∧ ∀ c ∈ post, c.on = false := by
  induction l with
  | nil => obtain ⟨c, hc, _⟩ := h; cases hc
  | cons y l ih =>
    by_cases hl : ∃ c ∈ l, c.on = true
    · obtain ⟨pre, x, post, rfl, hx, hpost⟩ := ih hl
      exact ⟨y :: pre, x, post, rfl, hx, hpost⟩
    · have hy : y.on = true := by
        obtain ⟨c, hc, hon⟩ := h
        rcases List.mem_cons.mp hc with rfl | hc'
        · exact hon
        · exact absurd ⟨c, hc', hon⟩ hl
      refine ⟨[], y, l, rfl, hy, ?_⟩
      intro c hc
      by_contra hcon
      exact hl ⟨c, hc, by simpa using hcon⟩

/-! ### the sorted callbacks -/

theorem mem_insertChange {c x : Change} {l : List Change} : x ∈ insertChange c l ↔ x = c ∨ x ∈ l := by
  induction l with
  | nil => simp [insertChange]
  | cons d l ih =>
    unfold insertChange
    by_cases h : c.time ≤ d.time
    · simp only [h, if_true, List.mem_cons]
    · simp only [h, if_false, List.mem_cons, ih]
      constructor
      · rintro (h1 | h1 | h1)
        · exact Or.inr (Or.inl h1)
        · exact Or.inl h1
        · exact Or.inr (Or.inr h1)
      · rintro (h1 | h1 | h1)
        · exact Or.inr (Or.inl h1)
        · exact Or.inl h1
        · exact Or.inr (Or.inr h1)

theorem mem_sortChanges {x : Change} {l : List Change} : x ∈ sortChanges l ↔ x ∈ l := by
  induction l with
  | nil => simp [sortChanges]
  | cons c l ih => simp only [sortChanges, mem_insertChange, ih, List.mem_cons]

theorem insertChange_sorted (c : Change) (l : List Change) (h : l.Pairwise (fun a b => a.time ≤ b.time)) :
    (insertChange c l).Pairwise (fun a b => a.time ≤ b.time) := by
  induction l with
  | nil => simp [insertChange]
  | cons d l ih =>
    obtain ⟨hd, hl⟩ := List.pairwise_cons.mp h
    unfold insertChange
    by_cases hc : c.time ≤ d.time
    · simp only [hc, if_true]
      refine List.pairwise_cons.mpr ⟨?_, h⟩
      intro y hy
      rcases List.mem_cons.mp hy with rfl | hy'
      · exact hc
      · exact le_trans hc (hd y hy')
    · simp only [hc, if_false]
      refine List.pairwise_cons.mpr ⟨?_, ih hl⟩
      intro y hy
      rcases mem_insertChange.mp hy with rfl | hy'
      · exact le_of_lt (not_le.mp hc)
      · exact hd y hy'

theorem sortChanges_sorted (l : List Change) : (sortChanges l).Pairwise (fun a b => a.time ≤ b.time) := by
  induction l with
  | nil => simp [sortChanges]
  | cons c l ih => exact insertChange_sorted c _ ih

theorem mem_sortedRoots {burns : List BurnIv} {t0 t1 : Rat} {c : Change} :
    c ∈ sortedRoots burns t0 t1 ↔ ∃ b ∈ burns, c ∈ rootsOf b t0 t1 := by
  unfold sortedRoots allRoots
  rw [mem_sortChanges, List.mem_flatMap]

theorem sortedRoots_sorted (burns : List BurnIv) (t0 t1 : Rat) :
    (sortedRoots burns t0 t1).Pairwise (fun a b => a.time ≤ b.time) := sortChanges_sorted _

end RV.Proofs.Burns
