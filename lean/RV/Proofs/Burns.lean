/-
Helper lemmas for the one-slot model of several finite burns (`RV/Model/Burn.lean`).
-/
import RV.Model.Burn
import Mathlib.Algebra.Order.Field.Rat
import Mathlib.Tactic.Linarith

namespace RV.Proofs.Burns
open RV.Burn

theorem tol_pos : (0 : Rat) < tol := by unfold tol; norm_num

/-- burns of one agent that do not touch: one ends strictly before the other starts -/
def Separated (burns : List BurnIv) : Prop :=
  burns.Pairwise (fun a b => a.2 < b.1 ∨ b.2 < a.1)

theorem Separated.of_mem {burns : List BurnIv} (h : Separated burns) {a b : BurnIv} (ha : a ∈ burns) (hb : b ∈ burns)
    (hne : a ≠ b) : a.2 < b.1 ∨ b.2 < a.1 := by
  unfold Separated at h
  induction burns with
  | nil => cases ha
  | cons x l ih =>
    obtain ⟨hx, hl⟩ := List.pairwise_cons.mp h
    rcases List.mem_cons.mp ha with rfl | ha' <;> rcases List.mem_cons.mp hb with rfl | hb'
    · exact absurd rfl hne
    · exact hx b hb'
    · exact (hx a ha').symm
    · exact ih hl ha' hb'

/-! ### `latest` -/

theorem latest_none_iff (l : List Change) (t : Rat) : latest l t = none ↔ ∀ c ∈ l, t < c.time := by
  induction l with
  | nil => simp [latest]
  | cons c l ih =>
    rw [latest]
    cases hl : latest l t with
    | none =>
      have := ih.mp hl
      by_cases hc : c.time ≤ t
      · simp only [hc, if_true]
        constructor
        · intro h; simp at h
        · intro h; have := h c (by simp); linarith
      · simp only [hc, if_false, true_iff]
        intro d hd
        rcases List.mem_cons.mp hd with rfl | hd
        · exact not_le.mp hc
        · exact this d hd
    | some d =>
      have hne : ¬ (∀ c ∈ l, t < c.time) := fun h => by rw [ih.mpr h] at hl; cases hl
      constructor
      · intro h
        by_cases hx : c.time ≤ t ∧ d.time < c.time
        · simp only [hx, and_self, if_true] at h; cases h
        · simp only [hx, if_false] at h; cases h
      · intro h; exact absurd (fun c hc => h c (List.mem_cons_of_mem _ hc)) hne

theorem latest_some {l : List Change} {t : Rat} {c : Change} (h : latest l t = some c) :
    c ∈ l ∧ c.time ≤ t ∧ ∀ d ∈ l, d.time ≤ t → d.time ≤ c.time := by
  induction l generalizing c with
  | nil => simp [latest] at h
  | cons x l ih =>
    rw [latest] at h
    cases hl : latest l t with
    | none =>
      rw [hl] at h
      have hall := (latest_none_iff l t).mp hl
      by_cases hx : x.time ≤ t
      · simp only [hx, if_true, Option.some.injEq] at h
        subst h
        refine ⟨by simp, hx, ?_⟩
        intro d hd hdt
        rcases List.mem_cons.mp hd with rfl | hd
        · exact le_refl _
        · have := hall d hd; linarith
      · simp only [hx, if_false] at h; cases h
    | some e =>
      rw [hl] at h
      obtain ⟨he1, he2, he3⟩ := ih hl
      by_cases hx : x.time ≤ t ∧ e.time < x.time
      · simp only [hx, and_self, if_true, Option.some.injEq] at h
        subst h
        refine ⟨by simp, hx.1, ?_⟩
        intro d hd hdt
        rcases List.mem_cons.mp hd with rfl | hd
        · exact le_refl _
        · have := he3 d hd hdt; linarith
      · simp only [hx, if_false, Option.some.injEq] at h
        subst h
        refine ⟨List.mem_cons_of_mem _ he1, he2, ?_⟩
        intro d hd hdt
        rcases List.mem_cons.mp hd with rfl | hd
        · by_contra hc
          exact hx ⟨hdt, not_le.mp hc⟩
        · exact he3 d hd hdt

/-! ### the roots of one burn -/

theorem armed_iff (b : BurnIv) (t0 : Rat) :
    armedAfterPrep b t0 = true ↔ (b.1 < t0 ∧ t0 < b.2) ∧ ¬ (b.2 - t0 < tol) := by
  unfold armedAfterPrep
  simp only [Bool.and_eq_true, decide_eq_true_eq, Bool.not_eq_true', decide_eq_false_iff_not]

theorem mem_rootsOf {b : BurnIv} {t0 t1 : Rat} {c : Change} (hlen : tol ≤ b.2 - b.1) (h : c ∈ rootsOf b t0 t1) :
    (armedAfterPrep b t0 = true ∧ b.2 ≤ t1 ∧ c = ⟨b.2, none⟩) ∨
    (armedAfterPrep b t0 = false ∧ t0 ≤ b.1 ∧ b.1 ≤ t1 ∧ c = ⟨b.1, some b⟩) ∨
    (armedAfterPrep b t0 = false ∧ t0 ≤ b.1 ∧ b.2 ≤ t1 ∧ c = ⟨b.2, none⟩) := by
  unfold rootsOf at h
  by_cases ha : armedAfterPrep b t0 = true
  · simp only [ha, if_true] at h
    by_cases he : b.2 ≤ t1
    · simp only [he, if_true, List.mem_singleton] at h
      exact Or.inl ⟨ha, he, h⟩
    · simp only [he, if_false, List.not_mem_nil] at h
  · have ha' : armedAfterPrep b t0 = false := by simpa using ha
    simp only [ha', Bool.false_eq_true, if_false] at h
    by_cases hin : t0 ≤ b.1 ∧ b.1 ≤ t1
    · simp only [hin, and_self, if_true] at h
      have hnt : ¬ (b.2 - b.1 < tol) := not_lt.mpr hlen
      simp only [hnt, if_false] at h
      rcases List.mem_cons.mp h with h | h
      · exact Or.inr (Or.inl ⟨ha', hin.1, hin.2, h⟩)
      · by_cases he : b.2 ≤ t1
        · simp only [he, if_true, List.mem_singleton] at h
          exact Or.inr (Or.inr ⟨ha', hin.1, he, h⟩)
        · simp only [he, if_false, List.not_mem_nil] at h
    · simp only [hin, if_false, List.not_mem_nil] at h

/-- every root of a burn lies in the call and in the burn's own interval -/
theorem rootsOf_time {b : BurnIv} {t0 t1 : Rat} {c : Change} (hlen : tol ≤ b.2 - b.1) (h : c ∈ rootsOf b t0 t1) :
    t0 ≤ c.time ∧ c.time ≤ t1 ∧ b.1 ≤ c.time ∧ c.time ≤ b.2 ∧ (c.val = none ∨ c.val = some b) := by
  have hp := tol_pos
  rcases mem_rootsOf hlen h with ⟨ha, he, rfl⟩ | ⟨_, h0, h1, rfl⟩ | ⟨_, h0, he, rfl⟩
  · obtain ⟨⟨h1, h2⟩, _⟩ := (armed_iff b t0).mp ha
    exact ⟨le_of_lt h2, he, by linarith, le_refl _, Or.inl rfl⟩
  · exact ⟨h0, h1, le_refl _, by linarith, Or.inr rfl⟩
  · exact ⟨by linarith, he, by linarith, le_refl _, Or.inl rfl⟩

/-! ### `_prepEvents` -/

private def under (t0 : Rat) (b : BurnIv) : Prop := b.1 < t0 ∧ t0 < b.2

private theorem prep_none_under (l : List BurnIv) (t0 : Rat) (init : Option BurnIv)
    (h : ∀ a ∈ l, ¬ (a.1 < t0 ∧ t0 < a.2)) :
    l.foldl (fun slot b => if b.1 < t0 ∧ t0 < b.2 then (if b.2 - t0 < tol then none else some b)
      else match PrepShape.keep with
        | .keep => slot
        | .clobber => none) init = init := by
  induction l generalizing init with
  | nil => rfl
  | cons x l ih =>
    rw [List.foldl_cons]
    have hx := h x (by simp)
    simp only [hx, if_false]
    exact ih init (fun a ha => h a (List.mem_cons_of_mem _ ha))

private theorem prep_one_under (l : List BurnIv) (t0 : Rat) (init : Option BurnIv) (a : BurnIv) (ha : a ∈ l)
    (hau : a.1 < t0 ∧ t0 < a.2) (huniq : ∀ a' ∈ l, (a'.1 < t0 ∧ t0 < a'.2) → a' = a) :
    l.foldl (fun slot b => if b.1 < t0 ∧ t0 < b.2 then (if b.2 - t0 < tol then none else some b)
      else match PrepShape.keep with
        | .keep => slot
        | .clobber => none) init = (if a.2 - t0 < tol then none else some a) := by
  induction l generalizing init with
  | nil => cases ha
  | cons x l ih =>
    rw [List.foldl_cons]
    by_cases hx : x.1 < t0 ∧ t0 < x.2
    · have hxa : x = a := huniq x (by simp) hx
      subst hxa
      simp only [hx, and_self, if_true]
      by_cases hal : x ∈ l
      · exact ih _ hal (fun a' ha' => huniq a' (List.mem_cons_of_mem _ ha'))
      · refine prep_none_under l t0 _ ?_
        intro a' ha' hu
        exact hal (huniq a' (List.mem_cons_of_mem _ ha') hu ▸ ha')
    · simp only [hx, if_false]
      have hal : a ∈ l := by
        rcases List.mem_cons.mp ha with rfl | h
        · exact absurd hau hx
        · exact h
      exact ih _ hal (fun a' ha' => huniq a' (List.mem_cons_of_mem _ ha'))

/-- with separated burns the slot left by `_prepEvents` is the one burn under way, if any -/
theorem prepSlot_eq_some_iff {burns : List BurnIv} (hsep : Separated burns) (t0 : Rat) (b : BurnIv) :
    prepSlot burns t0 = some b ↔ b ∈ burns ∧ armedAfterPrep b t0 = true := by
  have huniq : ∀ a ∈ burns, (a.1 < t0 ∧ t0 < a.2) → ∀ a' ∈ burns, (a'.1 < t0 ∧ t0 < a'.2) → a' = a := by
    intro a ha hau a' ha' hau'
    by_contra hne
    rcases hsep.of_mem ha' ha hne with h | h <;> linarith [hau.1, hau.2, hau'.1, hau'.2]
  unfold prepSlot prepSlotWith
  by_cases hex : ∃ a ∈ burns, a.1 < t0 ∧ t0 < a.2
  · obtain ⟨a, ha, hau⟩ := hex
    rw [prep_one_under burns t0 none a ha hau (huniq a ha hau)]
    constructor
    · intro h
      by_cases htl : a.2 - t0 < tol
      · simp only [htl, if_true] at h; cases h
      · simp only [htl, if_false, Option.some.injEq] at h
        subst h
        exact ⟨ha, (armed_iff a t0).mpr ⟨hau, htl⟩⟩
    · rintro ⟨hb, hb2⟩
      obtain ⟨hbu, hbt⟩ := (armed_iff b t0).mp hb2
      have : b = a := huniq a ha hau b hb hbu
      subst this
      simp only [hbt, if_false]
  · have hnone : ∀ a ∈ burns, ¬ (a.1 < t0 ∧ t0 < a.2) := fun a ha hau => hex ⟨a, ha, hau⟩
    rw [prep_none_under burns t0 none hnone]
    constructor
    · intro h; cases h
    · rintro ⟨hb, hb2⟩
      exact absurd ((armed_iff b t0).mp hb2).1 (hnone b hb)

end RV.Proofs.Burns
