/-
Lemmas for C05: the float operations of `getJulianDate` / `getCalendarDate` / `days2mdh` are exact except for
the one quotient `S/86400` and the one sum `J + frac`, whose rounding errors are bounded; the calendar recovered
from the rounded Julian date is therefore the calendar that went in.
-/
import RV.Model.Time
import RV.Proofs.F64
import Mathlib.Tactic.IntervalCases
import Mathlib.Tactic.NormNum
import Mathlib.Tactic.Linarith
import Mathlib.Tactic.SplitIfs
import Mathlib.Tactic.Ring
import Mathlib.Tactic.FieldSimp
import Mathlib.Tactic.Positivity
import Mathlib.Algebra.Order.Floor.Ring
import Mathlib.Data.Rat.Floor

namespace RV.Proofs.Time
open RV.Time RV.F64 RV.Proofs.F64

/-! ### exactness helpers -/

theorem pow2_nat (n : Nat) : pow2 (n : Int) = (2 : Rat) ^ n := by
  rw [pow2_eq_zpow]; simp

theorem pow2_neg_nat (n : Nat) : pow2 (-(n : Int)) = 1 / (2 : Rat) ^ n := by
  rw [pow2_eq_zpow]; simp

/-- a value on the grid `2^e` below `2^(e+53)` is representable -/
theorem rn_grid (x : Rat) (e : Int) (hx : onGrid e x) (hb : |x| < pow2 (e + 53)) : rn x = x := by
  obtain ⟨m, rfl⟩ := hx
  apply rn_exact _ e m rfl
  have hp := pow2_pos e
  rw [abs_mul, abs_of_pos hp, pow2_add, mul_comm (pow2 e)] at hb
  exact lt_of_mul_lt_mul_right hb (le_of_lt hp)

theorem onGrid_intCast (n : Int) (e : Int) (he : e ≤ 0) : onGrid e (n : Rat) :=
  onGrid_mono he (onGrid_int n)

theorem rn_intB (n : Int) (h1 : -4000000000 ≤ n) (h2 : n ≤ 4000000000) : rn (n : Rat) = n := by
  apply rn_int
  have : pow2 53 = 9007199254740992 := by
    have := pow2_nat 53; simp only [Nat.cast_ofNat] at this; rw [this]; norm_num
  rw [this, abs_lt]
  constructor
  · have : (-9007199254740992 : Int) < n := by omega
    exact_mod_cast this
  · have : n < (9007199254740992 : Int) := by omega
    exact_mod_cast this

theorem abs_lt_of_bounds {x lo hi b : Rat} (h1 : lo ≤ x) (h2 : x ≤ hi) (hlo : -b < lo) (hhi : hi < b) : |x| < b :=
  abs_lt.mpr ⟨by linarith, by linarith⟩

/-- floor of an integer over a positive natural is integer division -/
theorem floor_int_div (n : Int) (d : Nat) : ((n : Rat) / (d : Rat)).floor = n / (d : Int) := by
  have : ((n : Rat) / (d : Rat)).floor = ⌊(n : Rat) / (d : Rat)⌋ := rfl
  rw [this, Rat.floor_intCast_div_natCast]

theorem floor_int_add (n : Int) (g : Rat) (h0 : 0 ≤ g) (h1 : g < 1) : ((n : Rat) + g).floor = n := by
  have : ((n : Rat) + g).floor = ⌊(n : Rat) + g⌋ := rfl
  rw [this, Int.floor_eq_iff]
  constructor <;> linarith

theorem floor_intCast (n : Int) : ((n : Rat)).floor = n := by
  have : ((n : Rat)).floor = ⌊(n : Rat)⌋ := rfl
  rw [this, Int.floor_intCast]

/-- round-half-even of an integer plus less than a half is that integer -/
theorem rheQ_int_add (n : Int) (ε : Rat) (h : |ε| < 1 / 2) : rheQ ((n : Rat) + ε) = n := by
  have e := rheQ_err ((n : Rat) + ε)
  have h1 := abs_lt.mp h
  have h2 := abs_le.mp e
  have lo : ((n : Rat) - 1) < (rheQ ((n : Rat) + ε) : Rat) := by linarith
  have hi : (rheQ ((n : Rat) + ε) : Rat) < (n : Rat) + 1 := by linarith
  have lo' : n - 1 < rheQ ((n : Rat) + ε) := by exact_mod_cast lo
  have hi' : rheQ ((n : Rat) + ε) < n + 1 := by exact_mod_cast hi
  omega

/-! ### the month-dependent floors and the month loop, by exhaustion -/

theorem mo_floors (mo : Int) (h1 : 1 ≤ mo) (h2 : mo ≤ 12) :
    ffloor (fdiv ((mo : Rat) + 9) 12) = (((mo + 9) / 12 : Int) : Rat) ∧
    ffloor (fdiv (275 * (mo : Rat)) 9) = (((275 * mo) / 9 : Int) : Rat) := by
  interval_cases mo <;> decide +kernel

/-- days before month `m` -/
def cum (leap : Bool) : Nat → Int
  | 0 => 0
  | 1 => 0
  | m + 1 => cum leap m + monthLenT leap m

theorem monthLoop_table : ∀ leap : Bool, ∀ mo : Fin 13, ∀ d : Fin 32,
    1 ≤ mo.val → 1 ≤ d.val → (d.val : Int) ≤ monthLenT leap mo.val →
    monthLoop leap (cum leap mo.val + d.val) 12 1 0 = ((mo.val : Int), cum leap mo.val) := by
  decide +kernel

/-- Vallado's day count agrees with the proleptic Gregorian day number for 1901-2099 -/
theorem vallado_dayNumber (y : Int) (mo d : Nat) (hy1 : 1901 ≤ y) (hy2 : y ≤ 2099) (h1 : 1 ≤ mo) (h2 : mo ≤ 12) :
    367 * y - (7 * (y + ((mo : Int) + 9) / 12)) / 4 + (275 * (mo : Int)) / 9 + (d : Int) + 1721013
      = RV.Frames.dayNumber y mo d + 2440587 := by
  obtain ⟨k, r, hk, hr0, hr3⟩ : ∃ k r : Int, y = 4 * k + r ∧ 0 ≤ r ∧ r ≤ 3 := ⟨y / 4, y % 4, by omega, by omega, by omega⟩
  subst hk
  unfold RV.Frames.dayNumber
  by_cases hc : 4 * k + r ≤ 2000
  · interval_cases mo <;> interval_cases r <;> (simp only []; split_ifs <;> omega)
  · interval_cases mo <;> interval_cases r <;> (simp only []; split_ifs <;> omega)



structure ValidCivil (c : Civil) : Prop where
  y1 : 1901 ≤ c.y
  y2 : c.y ≤ 2099
  mo1 : 1 ≤ c.mo
  mo2 : c.mo ≤ 12
  d1 : 1 ≤ c.d
  d2 : c.d ≤ 31
  h1 : 0 ≤ c.h
  h2 : c.h ≤ 23
  mi1 : 0 ≤ c.mi
  mi2 : c.mi ≤ 59
  s1 : 0 ≤ c.s
  s2 : c.s ≤ 59
  us : c.us = 0

/-- Vallado's whole-day count of the date -/
def dayCount (c : Civil) : Int := 367 * c.y - (7 * (c.y + (c.mo + 9) / 12)) / 4 + (275 * c.mo) / 9 + c.d
/-- seconds since midnight -/
def secOfDay (c : Civil) : Int := c.s + c.mi * 60 + c.h * 3600

theorem half_grid (n : Int) : onGrid (-1) ((n : Rat) + 17210135 / 10) := by
  refine ⟨2 * n + 3442027, ?_⟩
  have : pow2 (-1) = 1 / 2 := by have := pow2_neg_nat 1; simpa using this
  rw [this]; push_cast; ring

theorem pow2_vals : pow2 52 = 4503599627370496 ∧ pow2 22 = 4194304 ∧ pow2 21 = 2097152 ∧ pow2 0 = 1 := by
  refine ⟨?_, ?_, ?_, ?_⟩
  · have := pow2_nat 52; simp only [Nat.cast_ofNat] at this; rw [this]; norm_num
  · have := pow2_nat 22; simp only [Nat.cast_ofNat] at this; rw [this]; norm_num
  · have := pow2_nat 21; simp only [Nat.cast_ofNat] at this; rw [this]; norm_num
  · have := pow2_nat 0; simpa using this

/-- the day fraction: `0 ≤ rn(S/86400) ≤ 1` for a second of the day -/
theorem frac_bounds (S : Int) (h0 : 0 ≤ S) (h1 : S ≤ 86399) :
    0 ≤ rn ((S : Rat) / 86400) ∧ rn ((S : Rat) / 86400) ≤ 1 := by
  have x0 : (0 : Rat) ≤ (S : Rat) / 86400 := by
    have : (0 : Rat) ≤ S := by exact_mod_cast h0
    positivity
  have x1 : (S : Rat) / 86400 < 1 := by
    have : (S : Rat) ≤ 86399 := by exact_mod_cast h1
    rw [div_lt_one (by norm_num)]; linarith
  by_cases hz : (S : Rat) / 86400 = 0
  · rw [hz, rn_zero]; exact ⟨le_refl _, by norm_num⟩
  obtain ⟨s1, s2⟩ := expo_spec _ hz
  have hk : expo ((S : Rat) / 86400) < 0 := by
    have : pow2 (expo ((S : Rat) / 86400)) < pow2 0 := by
      rw [pow2_vals.2.2.2]; rw [abs_of_nonneg x0] at s1; linarith
    exact pow2_lt_iff.mp this
  constructor
  · have := rn_ge_of_onGrid _ 0 _ s1 s2 ⟨0, by simp⟩ x0
    exact this
  · have g1 : onGrid (expo ((S : Rat) / 86400) - 52) 1 := by
      have := onGrid_intCast 1 (expo ((S : Rat) / 86400) - 52) (by omega)
      simpa using this
    exact rn_le_of_onGrid _ 1 _ s1 s2 g1 (le_of_lt x1)

theorem jd_structure (c : Civil) (hv : ValidCivil c) :
    jdOf c = rn (((dayCount c : Int) : Rat) + 17210135 / 10 + rn (((secOfDay c : Int) : Rat) / 86400)) := by
  obtain ⟨y, mo, d, h, mi, s, us⟩ := c
  obtain ⟨y1, y2, mo1, mo2, d1, d2, h1, h2, mi1, mi2, s1, s2, hus⟩ := hv
  simp only at y1 y2 mo1 mo2 d1 d2 h1 h2 mi1 mi2 s1 s2 hus
  subst hus
  obtain ⟨hf1, hf2⟩ := mo_floors mo mo1 mo2
  have p52 := pow2_vals.1
  -- the second handed to getJulianDate
  have hsec : secFloat ⟨y, mo, d, h, mi, s, 0⟩ = (s : Rat) := by
    simp only [secFloat, fadd, fdiv]
    have : ((0 : Int) : Rat) / 1000000 = 0 := by norm_num
    rw [this, rn_zero, add_zero]
    exact rn_intB s (by omega) (by omega)
  -- the day part
  have hmDay : fadd (d : Rat) (17210135 / 10) = (d : Rat) + 17210135 / 10 := by
    simp only [fadd]
    apply rn_grid _ (-1) (half_grid d)
    have : pow2 (-1 + 53) = 4503599627370496 := by norm_num; exact p52
    rw [this]
    have hd1 : (1 : Rat) ≤ d := by exact_mod_cast d1
    have hd2 : (d : Rat) ≤ 31 := by exact_mod_cast d2
    exact abs_lt_of_bounds (lo := 1) (hi := 1721045) (by linarith) (by linarith) (by norm_num) (by norm_num)
  have hyc : fadd (y : Rat) (ffloor (fdiv ((mo : Rat) + 9) 12)) = ((y + (mo + 9) / 12 : Int) : Rat) := by
    rw [hf1]; simp only [fadd]
    have : (y : Rat) + (((mo + 9) / 12 : Int) : Rat) = ((y + (mo + 9) / 12 : Int) : Rat) := by push_cast; ring
    rw [this]; exact rn_intB _ (by omega) (by omega)
  have h7 : fmul 7 (((y + (mo + 9) / 12 : Int) : Rat)) = ((7 * (y + (mo + 9) / 12) : Int) : Rat) := by
    simp only [fmul]
    have : (7 : Rat) * ((y + (mo + 9) / 12 : Int) : Rat) = ((7 * (y + (mo + 9) / 12) : Int) : Rat) := by push_cast; ring
    rw [this]; exact rn_intB _ (by omega) (by omega)
  have hq : fmul (((7 * (y + (mo + 9) / 12) : Int) : Rat)) (1 / 4) = ((7 * (y + (mo + 9) / 12) : Int) : Rat) / 4 := by
    simp only [fmul]
    have e : ((7 * (y + (mo + 9) / 12) : Int) : Rat) * (1 / 4) = ((7 * (y + (mo + 9) / 12) : Int) : Rat) / 4 := by ring
    rw [e]
    apply rn_grid _ (-2)
    · refine ⟨7 * (y + (mo + 9) / 12), ?_⟩
      have : pow2 (-2) = 1 / 4 := by have := pow2_neg_nat 2; norm_num at this; simpa using this
      rw [this]; ring
    · have : pow2 (-2 + 53) = 2251799813685248 := by
        have := pow2_nat 51; simp only [Nat.cast_ofNat] at this; norm_num; rw [this]; norm_num
      rw [this]
      have b1 : (0 : Rat) ≤ ((7 * (y + (mo + 9) / 12) : Int) : Rat) := by exact_mod_cast (by omega : (0 : Int) ≤ 7 * (y + (mo + 9) / 12))
      have b2 : ((7 * (y + (mo + 9) / 12) : Int) : Rat) ≤ 20000 := by exact_mod_cast (by omega : 7 * (y + (mo + 9) / 12) ≤ (20000 : Int))
      exact abs_lt_of_bounds (lo := 0) (hi := 5000) (by positivity) (by linarith) (by norm_num) (by norm_num)
  have ha : ffloor (((7 * (y + (mo + 9) / 12) : Int) : Rat) / 4) = (((7 * (y + (mo + 9) / 12)) / 4 : Int) : Rat) := by
    simp only [ffloor]
    have := floor_int_div (7 * (y + (mo + 9) / 12)) 4
    simp only [Nat.cast_ofNat] at this
    rw [this]
  have hsub : fsub (367 * (y : Rat)) ((((7 * (y + (mo + 9) / 12)) / 4 : Int)) : Rat)
      = ((367 * y - (7 * (y + (mo + 9) / 12)) / 4 : Int) : Rat) := by
    simp only [fsub]
    have : 367 * (y : Rat) - ((((7 * (y + (mo + 9) / 12)) / 4 : Int)) : Rat) = ((367 * y - (7 * (y + (mo + 9) / 12)) / 4 : Int) : Rat) := by
      push_cast; ring
    rw [this]; exact rn_intB _ (by omega) (by omega)
  have hadd : fadd (((367 * y - (7 * (y + (mo + 9) / 12)) / 4 : Int) : Rat)) ((((275 * mo) / 9 : Int)) : Rat)
      = ((367 * y - (7 * (y + (mo + 9) / 12)) / 4 + (275 * mo) / 9 : Int) : Rat) := by
    simp only [fadd]
    have : (((367 * y - (7 * (y + (mo + 9) / 12)) / 4 : Int) : Rat)) + ((((275 * mo) / 9 : Int)) : Rat)
        = ((367 * y - (7 * (y + (mo + 9) / 12)) / 4 + (275 * mo) / 9 : Int) : Rat) := by push_cast; ring
    rw [this]; exact rn_intB _ (by omega) (by omega)
  have hj : fadd (((367 * y - (7 * (y + (mo + 9) / 12)) / 4 + (275 * mo) / 9 : Int) : Rat)) ((d : Rat) + 17210135 / 10)
      = ((367 * y - (7 * (y + (mo + 9) / 12)) / 4 + (275 * mo) / 9 + d : Int) : Rat) + 17210135 / 10 := by
    simp only [fadd]
    have : (((367 * y - (7 * (y + (mo + 9) / 12)) / 4 + (275 * mo) / 9 : Int) : Rat)) + ((d : Rat) + 17210135 / 10)
        = ((367 * y - (7 * (y + (mo + 9) / 12)) / 4 + (275 * mo) / 9 + d : Int) : Rat) + 17210135 / 10 := by push_cast; ring
    rw [this]
    apply rn_grid _ (-1) (half_grid _)
    have : pow2 (-1 + 53) = 4503599627370496 := by norm_num; exact p52
    rw [this]
    have b1 : (0 : Rat) ≤ ((367 * y - (7 * (y + (mo + 9) / 12)) / 4 + (275 * mo) / 9 + d : Int) : Rat) := by
      exact_mod_cast (by omega : (0 : Int) ≤ 367 * y - (7 * (y + (mo + 9) / 12)) / 4 + (275 * mo) / 9 + d)
    have b2 : ((367 * y - (7 * (y + (mo + 9) / 12)) / 4 + (275 * mo) / 9 + d : Int) : Rat) ≤ 1000000 := by
      exact_mod_cast (by omega : 367 * y - (7 * (y + (mo + 9) / 12)) / 4 + (275 * mo) / 9 + d ≤ (1000000 : Int))
    exact abs_lt_of_bounds (lo := 0) (hi := 3000000) (by linarith) (by linarith) (by norm_num) (by norm_num)
  have hS1 : fadd (s : Rat) ((mi : Rat) * 60) = ((s + mi * 60 : Int) : Rat) := by
    simp only [fadd]
    have : (s : Rat) + (mi : Rat) * 60 = ((s + mi * 60 : Int) : Rat) := by push_cast; ring
    rw [this]; exact rn_intB _ (by omega) (by omega)
  have hS2 : fadd (((s + mi * 60 : Int) : Rat)) ((h : Rat) * 3600) = ((s + mi * 60 + h * 3600 : Int) : Rat) := by
    simp only [fadd]
    have : ((s + mi * 60 : Int) : Rat) + (h : Rat) * 3600 = ((s + mi * 60 + h * 3600 : Int) : Rat) := by push_cast; ring
    rw [this]; exact rn_intB _ (by omega) (by omega)
  have hfr := frac_bounds (s + mi * 60 + h * 3600) (by omega) (by omega)
  simp only [jdOf, getJulianDate]
  rw [hsec, hyc, h7, hq, ha, hf2, hsub, hadd, hmDay, hj, hS1, hS2]
  simp only [fdiv, not_lt.mpr hfr.2, if_false, fadd, dayCount, secOfDay]

theorem pow2_small : pow2 (-32) = 1 / 4294967296 ∧ pow2 (-54) = 1 / 18014398509481984 ∧ pow2 (-31) = 1 / 2147483648 := by
  refine ⟨?_, ?_, ?_⟩
  · have := pow2_neg_nat 32; simp only [Nat.cast_ofNat] at this; rw [this]; norm_num
  · have := pow2_neg_nat 54; simp only [Nat.cast_ofNat] at this; rw [this]; norm_num
  · have := pow2_neg_nat 31; simp only [Nat.cast_ofNat] at this; rw [this]; norm_num

/-- the Julian date of a whole second: `jd = J + g` with `J` the (exact) date part and `g` a day fraction on the
grid `2^-31` within `2^-32 + 2^-54` of `S/86400` -/
theorem jd_facts (N S : Int) (hN1 : 690000 ≤ N) (hN2 : N ≤ 770000) (hS0 : 0 ≤ S) (hS1 : S ≤ 86399) :
    let jd := rn ((N : Rat) + 17210135 / 10 + rn ((S : Rat) / 86400))
    let g := jd - ((N : Rat) + 17210135 / 10)
    0 ≤ g ∧ g < 1 ∧ onGrid (-31) g ∧ onGrid (-31) jd ∧ |g - (S : Rat) / 86400| ≤ pow2 (-32) + pow2 (-54) := by
  intro jd g
  obtain ⟨f0, f1⟩ := frac_bounds S hS0 hS1
  have hNr1 : (690000 : Rat) ≤ N := by exact_mod_cast hN1
  have hNr2 : (N : Rat) ≤ 770000 := by exact_mod_cast hN2
  obtain ⟨_, p22, p21, p0⟩ := pow2_vals
  obtain ⟨q32, q54, _⟩ := pow2_small
  have hXpos : 0 < (N : Rat) + 17210135 / 10 + rn ((S : Rat) / 86400) := by linarith
  have h1 : pow2 21 ≤ |(N : Rat) + 17210135 / 10 + rn ((S : Rat) / 86400)| := by
    rw [abs_of_pos hXpos, p21]; linarith
  have h2 : |(N : Rat) + 17210135 / 10 + rn ((S : Rat) / 86400)| < pow2 (21 + 1) := by
    rw [abs_of_pos hXpos]; norm_num; rw [p22]; linarith
  obtain ⟨e1, gr⟩ := rn_err _ 21 h1 h2
  have gr' : onGrid (-31) jd := by simpa using gr
  have gJ : onGrid (-31) ((N : Rat) + 17210135 / 10) := onGrid_mono (by norm_num) (half_grid N)
  have gJ' : onGrid (21 - 52) ((N : Rat) + 17210135 / 10) := by simpa using gJ
  have hge : (N : Rat) + 17210135 / 10 ≤ jd := rn_ge_of_onGrid _ _ 21 h1 h2 gJ' (by linarith)
  have x0 : (0 : Rat) ≤ (S : Rat) / 86400 := by
    have : (0 : Rat) ≤ S := by exact_mod_cast hS0
    positivity
  have x1 : (S : Rat) / 86400 ≤ 86399 / 86400 := by
    have : (S : Rat) ≤ 86399 := by exact_mod_cast hS1
    rw [div_le_div_iff_of_pos_right (by norm_num)]; exact this
  have e2 : |rn ((S : Rat) / 86400) - (S : Rat) / 86400| ≤ pow2 (-54) := by
    have := rn_err_le ((S : Rat) / 86400) (-1) (by
      rw [abs_of_nonneg x0]; norm_num; rw [p0]; linarith)
    simpa using this
  have e1' : |jd - ((N : Rat) + 17210135 / 10 + rn ((S : Rat) / 86400))| ≤ pow2 (-32) := by simpa using e1
  have hdiff : |g - (S : Rat) / 86400| ≤ pow2 (-32) + pow2 (-54) := by
    have : g - (S : Rat) / 86400 = (jd - ((N : Rat) + 17210135 / 10 + rn ((S : Rat) / 86400))) + (rn ((S : Rat) / 86400) - (S : Rat) / 86400) := by
      simp only [g]; ring
    rw [this]
    exact le_trans (abs_add_le _ _) (add_le_add e1' e2)
  refine ⟨by simp only [g]; linarith, ?_, onGrid_sub gr' gJ, gr', hdiff⟩
  have := (abs_le.mp hdiff).2
  rw [q32, q54] at this
  linarith


/-- the date part in days since 1899-12-31: day of year + whole years -/
theorem dayCount_doy (y : Int) (mo : Nat) (d : Int) (leap : Bool) (hy1 : 1901 ≤ y) (hy2 : y ≤ 2099)
    (h1 : 1 ≤ mo) (h2 : mo ≤ 12) (hl : leap = true ↔ (y - 1900) % 4 = 0) :
    367 * y - (7 * (y + ((mo : Int) + 9) / 12)) / 4 + (275 * (mo : Int)) / 9 + d - 694006
      = (cum leap mo + d) + 365 * (y - 1900) + (y - 1901) / 4 := by
  obtain ⟨k, r, hk, hr0, hr3⟩ : ∃ k r : Int, y = 4 * k + r ∧ 0 ≤ r ∧ r ≤ 3 := ⟨y / 4, y % 4, by omega, by omega, by omega⟩
  subst hk
  cases leap with
  | true =>
    have hm : (4 * k + r - 1900) % 4 = 0 := hl.mp rfl
    have hr : r = 0 := by omega
    subst hr
    interval_cases mo <;> simp [cum, monthLenT] <;> omega
  | false =>
    have hm : ¬ (4 * k + r - 1900) % 4 = 0 := fun h => by simpa using hl.mpr h
    have hr : r ≠ 0 := by omega
    interval_cases mo <;> simp [cum, monthLenT] <;> omega

theorem cum_bounds (leap : Bool) (mo : Nat) (d : Int) (h1 : 1 ≤ mo) (h2 : mo ≤ 12) (hd1 : 1 ≤ d) (hd2 : d ≤ monthLenT leap mo) :
    1 ≤ cum leap mo + d ∧ cum leap mo + d ≤ 365 + (if leap then 1 else 0) := by
  cases leap <;> interval_cases mo <;> simp [cum, monthLenT] at hd2 ⊢ <;> omega


theorem pow2_more : pow2 53 = 9007199254740992 ∧ pow2 8 = 256 ∧ pow2 (-46) = 1 / 70368744177664 ∧ pow2 22 = 4194304 := by
  refine ⟨?_, ?_, ?_, pow2_vals.2.1⟩
  · have := pow2_nat 53; simp only [Nat.cast_ofNat] at this; rw [this]; norm_num
  · have := pow2_nat 8; simp only [Nat.cast_ofNat] at this; rw [this]; norm_num
  · have := pow2_neg_nat 46; simp only [Nat.cast_ofNat] at this; rw [this]; norm_num

/-- a value on the grid `2^-31` below `2^21` is representable -/
theorem rn_grid31 (x : Rat) (hx : onGrid (-31) x) (hb : |x| < 2097152) : rn x = x := by
  apply rn_grid x (-31) hx
  have : pow2 (-31 + 53) = 4194304 := by norm_num; exact pow2_vals.2.1
  rw [this]; linarith

/-- `tempVal = jd - 2415019.5` is exact -/
theorem tempVal_exact (N : Int) (g : Rat) (hN1 : 690000 ≤ N) (hN2 : N ≤ 770000) (g0 : 0 ≤ g) (g1 : g < 1) (gg : onGrid (-31) g) :
    fsub ((N : Rat) + 17210135 / 10 + g) (24150195 / 10) = ((N - 694006 : Int) : Rat) + g := by
  simp only [fsub]
  have e : (N : Rat) + 17210135 / 10 + g - 24150195 / 10 = ((N - 694006 : Int) : Rat) + g := by push_cast; ring
  rw [e]
  have hNr1 : (690000 : Rat) ≤ N := by exact_mod_cast hN1
  have hNr2 : (N : Rat) ≤ 770000 := by exact_mod_cast hN2
  apply rn_grid31
  · exact onGrid_add (onGrid_intCast _ _ (by norm_num)) gg
  · push_cast
    exact abs_lt_of_bounds (lo := -5000) (hi := 80000) (by linarith) (by linarith) (by norm_num) (by norm_num)

/-- the first guess of the year is the year or the next one -/
theorem year_guess (n k : Int) (g : Rat) (hk1 : 1 ≤ k) (hk2 : k ≤ 199) (g0 : 0 ≤ g) (g1 : g < 1)
    (hlo : 365 * k + (k - 1) / 4 + 1 ≤ n) (hhi : n ≤ 365 * k + (k - 1) / 4 + 366) :
    (fdiv ((n : Rat) + g) (36525 / 100)).floor = k ∨ (fdiv ((n : Rat) + g) (36525 / 100)).floor = k + 1 := by
  obtain ⟨_, p8, p45, _⟩ := pow2_more
  simp only [fdiv]
  have hk1r : (1 : Rat) ≤ k := by exact_mod_cast hk1
  have hk2r : (k : Rat) ≤ 199 := by exact_mod_cast hk2
  -- exact bounds on the quotient
  have hn_lo : (36525 / 100 : Rat) * k ≤ n := by
    have : 4 * n ≥ 1461 * k := by omega
    have : (4 : Rat) * n ≥ 1461 * k := by exact_mod_cast this
    linarith
  have hn_hi : (n : Rat) ≤ (36525 / 100 : Rat) * k + 366 := by
    have : 4 * n ≤ 1461 * k + 1464 := by omega
    have : (4 : Rat) * n ≤ 1461 * k + 1464 := by exact_mod_cast this
    linarith
  have hq_lo : (k : Rat) ≤ ((n : Rat) + g) / (36525 / 100) := by
    rw [le_div_iff₀ (by norm_num)]; linarith
  have hq_hi : ((n : Rat) + g) / (36525 / 100) < (k : Rat) + 1 + 1 / 100 := by
    rw [div_lt_iff₀ (by norm_num)]; linarith
  have hq_pos : 0 < ((n : Rat) + g) / (36525 / 100) := by linarith
  have hq_ne : ((n : Rat) + g) / (36525 / 100) ≠ 0 := ne_of_gt hq_pos
  obtain ⟨s1, s2⟩ := expo_spec _ hq_ne
  have hex : expo (((n : Rat) + g) / (36525 / 100)) < 8 := by
    have : pow2 (expo (((n : Rat) + g) / (36525 / 100))) < pow2 8 := by
      rw [p8]; rw [abs_of_pos hq_pos] at s1; linarith
    exact pow2_lt_iff.mp this
  have lo : (k : Rat) ≤ rn (((n : Rat) + g) / (36525 / 100)) :=
    rn_ge_of_onGrid _ _ _ s1 s2 (onGrid_intCast k _ (by omega)) hq_lo
  have err := rn_err_le (((n : Rat) + g) / (36525 / 100)) 7 (by
    rw [abs_of_pos hq_pos]; norm_num; rw [p8]; linarith)
  have err' : |rn (((n : Rat) + g) / (36525 / 100)) - ((n : Rat) + g) / (36525 / 100)| ≤ pow2 (-46) := by simpa using err
  have hi : rn (((n : Rat) + g) / (36525 / 100)) < (k : Rat) + 2 := by
    have := (abs_le.mp err').2
    rw [p45] at this; linarith
  have f1 : k ≤ (rn (((n : Rat) + g) / (36525 / 100))).floor := by
    have : (rn (((n : Rat) + g) / (36525 / 100))).floor = ⌊rn (((n : Rat) + g) / (36525 / 100))⌋ := rfl
    rw [this]; exact Int.le_floor.mpr lo
  have f2 : (rn (((n : Rat) + g) / (36525 / 100))).floor < k + 2 := by
    have : (rn (((n : Rat) + g) / (36525 / 100))).floor = ⌊rn (((n : Rat) + g) / (36525 / 100))⌋ := rfl
    rw [this]; exact Int.floor_lt.mpr (by push_cast; exact hi)
  omega

/-- the day of year for a candidate year `1900 + j` is computed exactly -/
theorem doyOf_exact (n j : Int) (g : Rat) (hj1 : 1 ≤ j) (hj2 : j ≤ 201) (hn1 : 0 ≤ n) (hn2 : n ≤ 80000)
    (g0 : 0 ≤ g) (g1 : g < 1) (gg : onGrid (-31) g) :
    fsub ((n : Rat) + g) ((((1900 + j - 1900) * 365 : Int) : Rat) + ffloor (fmul (((1900 + j : Int) : Rat) - 1901) (1 / 4)))
      = ((n - (365 * j + (j - 1) / 4) : Int) : Rat) + g := by
  have hq : fmul (((1900 + j : Int) : Rat) - 1901) (1 / 4) = ((j - 1 : Int) : Rat) / 4 := by
    simp only [fmul]
    have e : (((1900 + j : Int) : Rat) - 1901) * (1 / 4) = ((j - 1 : Int) : Rat) / 4 := by push_cast; ring
    rw [e]
    apply rn_grid _ (-2)
    · refine ⟨j - 1, ?_⟩
      have : pow2 (-2) = 1 / 4 := by have := pow2_neg_nat 2; norm_num at this; simpa using this
      rw [this]; ring
    · have : pow2 (-2 + 53) = 2251799813685248 := by
        have := pow2_nat 51; simp only [Nat.cast_ofNat] at this; norm_num; rw [this]; norm_num
      rw [this]
      have b1 : (0 : Rat) ≤ ((j - 1 : Int) : Rat) := by exact_mod_cast (by omega : (0 : Int) ≤ j - 1)
      have b2 : ((j - 1 : Int) : Rat) ≤ 200 := by exact_mod_cast (by omega : j - 1 ≤ (200 : Int))
      exact abs_lt_of_bounds (lo := 0) (hi := 50) (by positivity) (by linarith) (by norm_num) (by norm_num)
  have hfl : ffloor (((j - 1 : Int) : Rat) / 4) = (((j - 1) / 4 : Int) : Rat) := by
    simp only [ffloor]
    have := floor_int_div (j - 1) 4
    simp only [Nat.cast_ofNat] at this
    rw [this]
  rw [hq, hfl]
  simp only [fsub]
  have e : (n : Rat) + g - ((((1900 + j - 1900) * 365 : Int) : Rat) + (((j - 1) / 4 : Int) : Rat))
      = ((n - (365 * j + (j - 1) / 4) : Int) : Rat) + g := by push_cast; ring
  rw [e]
  apply rn_grid31
  · exact onGrid_add (onGrid_intCast _ _ (by norm_num)) gg
  · have b1 : (-80000 : Rat) ≤ ((n - (365 * j + (j - 1) / 4) : Int) : Rat) := by
      exact_mod_cast (by omega : (-80000 : Int) ≤ n - (365 * j + (j - 1) / 4))
    have b2 : ((n - (365 * j + (j - 1) / 4) : Int) : Rat) ≤ 80000 := by
      exact_mod_cast (by omega : n - (365 * j + (j - 1) / 4) ≤ (80000 : Int))
    exact abs_lt_of_bounds (lo := -80000) (hi := 80001) (by linarith) (by linarith) (by norm_num) (by norm_num)

end RV.Proofs.Time
