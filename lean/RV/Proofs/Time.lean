/-
Lemmas for C05: the float operations of `getJulianDate` / `getCalendarDate` / `days2mdh` are exact except for
the one quotient `S/86400` and the one sum `J + frac`, whose rounding errors are bounded; the calendar recovered
from the rounded Julian date is therefore the calendar that went in.
-/
import RV.Model.Time
import RV.Proofs.F64
import Mathlib.Tactic.IntervalCases
import Mathlib.Tactic.NormNum
import Mathlib.Tactic.Linarith
import Mathlib.Tactic.SplitIfs
import Mathlib.Tactic.Ring
import Mathlib.Tactic.FieldSimp
import Mathlib.Tactic.Positivity
import Mathlib.Algebra.Order.Floor.Ring
import Mathlib.Data.Rat.Floor

namespace RV.Proofs.Time
open RV.Time RV.F64 RV.Proofs.F64

/-! ### exactness helpers -/

theorem pow2_nat (n : Nat) : pow2 (n : Int) = (2 : Rat) ^ n := by
  rw [pow2_eq_zpow]; simp

theorem pow2_neg_nat (n : Nat) : pow2 (-(n : Int)) = 1 / (2 : Rat) ^ n := by
  rw [pow2_eq_zpow]; simp

/-- a value on the grid `2^e` below `2^(e+53)` is representable -/
theorem rn_grid (x : Rat) (e : Int) (hx : onGrid e x) (hb : |x| < pow2 (e + 53)) : rn x = x := by
  obtain ⟨m, rfl⟩ := hx
  apply rn_exact _ e m rfl
  have hp := pow2_pos e
  rw [abs_mul, abs_of_pos hp, pow2_add, mul_comm (pow2 e)] at hb
  exact lt_of_mul_lt_mul_right hb (le_of_lt hp)

theorem onGrid_intCast (n : Int) (e : Int) (he : e ≤ 0) : onGrid e (n : Rat) :=
  onGrid_mono he (onGrid_int n)

theorem rn_intB (n : Int) (h1 : -4000000000 ≤ n) (h2 : n ≤ 4000000000) : rn (n : Rat) = n := by
  apply rn_int
  have : pow2 53 = 9007199254740992 := by
    have := pow2_nat 53; simp only [Nat.cast_ofNat] at this; rw [this]; norm_num
  rw [this, abs_lt]
  constructor
  · have : (-9007199254740992 : Int) < n := by omega
    exact_mod_cast this
  · have : n < (9007199254740992 : Int) := by omega
    exact_mod_cast this

theorem abs_lt_of_bounds {x lo hi b : Rat} (h1 : lo ≤ x) (h2 : x ≤ hi) (hlo : -b < lo) (hhi : hi < b) : |x| < b :=
  abs_lt.mpr ⟨by linarith, by linarith⟩

/-- floor of an integer over a positive natural is integer division -/
theorem floor_int_div (n : Int) (d : Nat) : ((n : Rat) / (d : Rat)).floor = n / (d : Int) := by
  have : ((n : Rat) / (d : Rat)).floor = ⌊(n : Rat) / (d : Rat)⌋ := rfl
  rw [this, Rat.floor_intCast_div_natCast]

theorem floor_int_add (n : Int) (g : Rat) (h0 : 0 ≤ g) (h1 : g < 1) : ((n : Rat) + g).floor = n := by
  have : ((n : Rat) + g).floor = ⌊(n : Rat) + g⌋ := rfl
  rw [this, Int.floor_eq_iff]
  constructor <;> linarith

theorem floor_intCast (n : Int) : ((n : Rat)).floor = n := by
  have : ((n : Rat)).floor = ⌊(n : Rat)⌋ := rfl
  rw [this, Int.floor_intCast]

/-- round-half-even of an integer plus less than a half is that integer -/
theorem rheQ_int_add (n : Int) (ε : Rat) (h : |ε| < 1 / 2) : rheQ ((n : Rat) + ε) = n := by
  have e := rheQ_err ((n : Rat) + ε)
  have h1 := abs_lt.mp h
  have h2 := abs_le.mp e
  have lo : ((n : Rat) - 1) < (rheQ ((n : Rat) + ε) : Rat) := by linarith
  have hi : (rheQ ((n : Rat) + ε) : Rat) < (n : Rat) + 1 := by linarith
  have lo' : n - 1 < rheQ ((n : Rat) + ε) := by exact_mod_cast lo
  have hi' : rheQ ((n : Rat) + ε) < n + 1 := by exact_mod_cast hi
  omega

/-! ### the month-dependent floors and the month loop, by exhaustion -/

theorem mo_floors (mo : Int) (h1 : 1 ≤ mo) (h2 : mo ≤ 12) :
    ffloor (fdiv ((mo : Rat) + 9) 12) = (((mo + 9) / 12 : Int) : Rat) ∧
    ffloor (fdiv (275 * (mo : Rat)) 9) = (((275 * mo) / 9 : Int) : Rat) := by
  interval_cases mo <;> decide +kernel

/-- days before month `m` -/
def cum (leap : Bool) : Nat → Int
  | 0 => 0
  | 1 => 0
  | m + 1 => cum leap m + monthLenT leap m

theorem monthLoop_table : ∀ leap : Bool, ∀ mo : Fin 13, ∀ d : Fin 32,
    1 ≤ mo.val → 1 ≤ d.val → (d.val : Int) ≤ monthLenT leap mo.val →
    monthLoop leap (cum leap mo.val + d.val) 12 1 0 = ((mo.val : Int), cum leap mo.val) := by
  decide +kernel

/-- Vallado's day count agrees with the proleptic Gregorian day number for 1901-2099 -/
theorem vallado_dayNumber (y : Int) (mo d : Nat) (hy1 : 1901 ≤ y) (hy2 : y ≤ 2099) (h1 : 1 ≤ mo) (h2 : mo ≤ 12) :
    367 * y - (7 * (y + ((mo : Int) + 9) / 12)) / 4 + (275 * (mo : Int)) / 9 + (d : Int) + 1721013
      = RV.Frames.dayNumber y mo d + 2440587 := by
  obtain ⟨k, r, hk, hr0, hr3⟩ : ∃ k r : Int, y = 4 * k + r ∧ 0 ≤ r ∧ r ≤ 3 := ⟨y / 4, y % 4, by omega, by omega, by omega⟩
  subst hk
  unfold RV.Frames.dayNumber
  by_cases hc : 4 * k + r ≤ 2000
  · interval_cases mo <;> interval_cases r <;> (simp only []; split_ifs <;> omega)
  · interval_cases mo <;> interval_cases r <;> (simp only []; split_ifs <;> omega)

end RV.Proofs.Time
