/-
Lemmas for C05: the float operations of `getJulianDate` / `getCalendarDate` / `days2mdh` are exact except for
the one quotient `S/86400` and the one sum `J + frac`, whose rounding errors are bounded; the calendar recovered
from the rounded Julian date is therefore the calendar that went in.
-/
import RV.Model.Time
import RV.Proofs.F64
import Mathlib.Tactic.IntervalCases
import Mathlib.Tactic.NormNum
import Mathlib.Tactic.Linarith
import Mathlib.Tactic.SplitIfs
import Mathlib.Tactic.Ring
import Mathlib.Tactic.FieldSimp
import Mathlib.Tactic.Positivity
import Mathlib.Algebra.Order.Floor.Ring
import Mathlib.Data.Rat.Floor

namespace RV.Proofs.Time
open RV.Time RV.F64 RV.Proofs.F64

/-! ### exactness helpers -/

theorem pow2_nat (n : Nat) : pow2 (n : Int) = (2 : Rat) ^ n := by
  rw [pow2_eq_zpow]; simp

theorem pow2_neg_nat (n : Nat) : pow2 (-(n : Int)) = 1 / (2 : Rat) ^ n := by
  rw [pow2_eq_zpow]; simp

/-- a value on the grid `2^e` below `2^(e+53)` is representable -/
theorem rn_grid (x : Rat) (e : Int) (hx : onGrid e x) (hb : |x| < pow2 (e + 53)) : rn x = x := by
  obtain ⟨m, rfl⟩ := hx
  apply rn_exact _ e m rfl
  have hp := pow2_pos e
  rw [abs_mul, abs_of_pos hp, pow2_add, mul_comm (pow2 e)] at hb
  exact lt_of_mul_lt_mul_right hb (le_of_lt hp)

theorem onGrid_intCast (n : Int) (e : Int) (he : e ≤ 0) : onGrid e (n : Rat) :=
  onGrid_mono he (onGrid_int n)

theorem rn_intB (n : Int) (h1 : -4000000000 ≤ n) (h2 : n ≤ 4000000000) : rn (n : Rat) = n := by
  apply rn_int
  have : pow2 53 = 9007199254740992 := by
    have := pow2_nat 53; simp only [Nat.cast_ofNat] at this; rw [this]; norm_num
  rw [this, abs_lt]
  constructor
  · have : (-9007199254740992 : Int) < n := by omega
    exact_mod_cast this
  · have : n < (9007199254740992 : Int) := by omega
    exact_mod_cast this

theorem abs_lt_of_bounds {x lo hi b : Rat} (h1 : lo ≤ x) (h2 : x ≤ hi) (hlo : -b < lo) (hhi : hi < b) : |x| < b :=
  abs_lt.mpr ⟨by linarith, by linarith⟩

/-- floor of an integer over a positive natural is integer division -/
theorem floor_int_div (n : Int) (d : Nat) : ((n : Rat) / (d : Rat)).floor = n / (d : Int) := by
  have : ((n : Rat) / (d : Rat)).floor = ⌊(n : Rat) / (d : Rat)⌋ := rfl
  rw [this, Rat.floor_intCast_div_natCast]

theorem floor_int_add (n : Int) (g : Rat) (h0 : 0 ≤ g) (h1 : g < 1) : ((n : Rat) + g).floor = n := by
  have : ((n : Rat) + g).floor = ⌊(n : Rat) + g⌋ := rfl
  rw [this, Int.floor_eq_iff]
  constructor <;> linarith

theorem floor_intCast (n : Int) : ((n : Rat)).floor = n := by
  have : ((n : Rat)).floor = ⌊(n : Rat)⌋ := rfl
  rw [this, Int.floor_intCast]

/-- round-half-even of an integer plus less than a half is that integer -/
theorem rheQ_int_add (n : Int) (ε : Rat) (h : |ε| < 1 / 2) : rheQ ((n : Rat) + ε) = n := by
  have e := rheQ_err ((n : Rat) + ε)
  have h1 := abs_lt.mp h
  have h2 := abs_le.mp e
  have lo : ((n : Rat) - 1) < (rheQ ((n : Rat) + ε) : Rat) := by linarith
  have hi : (rheQ ((n : Rat) + ε) : Rat) < (n : Rat) + 1 := by linarith
  have lo' : n - 1 < rheQ ((n : Rat) + ε) := by exact_mod_cast lo
  have hi' : rheQ ((n : Rat) + ε) < n + 1 := by exact_mod_cast hi
  omega

/-! ### the month-dependent floors and the month loop, by exhaustion -/

theorem mo_floors (mo : Int) (h1 : 1 ≤ mo) (h2 : mo ≤ 12) :
    ffloor (fdiv ((mo : Rat) + 9) 12) = (((mo + 9) / 12 : Int) : Rat) ∧
    ffloor (fdiv (275 * (mo : Rat)) 9) = (((275 * mo) / 9 : Int) : Rat) := by
  interval_cases mo <;> decide +kernel

/-- days before month `m` -/
def cum (leap : Bool) : Nat → Int
  | 0 => 0
  | 1 => 0
  | m + 1 => cum leap m + monthLenT leap m

theorem monthLoop_table : ∀ leap : Bool, ∀ mo : Fin 13, ∀ d : Fin 32,
    1 ≤ mo.val → 1 ≤ d.val → (d.val : Int) ≤ monthLenT leap mo.val →
    monthLoop leap (cum leap mo.val + d.val) 12 1 0 = ((mo.val : Int), cum leap mo.val) := by
  decide +kernel

/-- Vallado's day count agrees with the proleptic Gregorian day number for 1901-2099 -/
theorem vallado_dayNumber (y : Int) (mo d : Nat) (hy1 : 1901 ≤ y) (hy2 : y ≤ 2099) (h1 : 1 ≤ mo) (h2 : mo ≤ 12) :
    367 * y - (7 * (y + ((mo : Int) + 9) / 12)) / 4 + (275 * (mo : Int)) / 9 + (d : Int) + 1721013
      = RV.Frames.dayNumber y mo d + 2440587 := by
  obtain ⟨k, r, hk, hr0, hr3⟩ : ∃ k r : Int, y = 4 * k + r ∧ 0 ≤ r ∧ r ≤ 3 := ⟨y / 4, y % 4, by omega, by omega, by omega⟩
  subst hk
  unfold RV.Frames.dayNumber
  by_cases hc : 4 * k + r ≤ 2000
  · interval_cases mo <;> interval_cases r <;> (simp only []; split_ifs <;> omega)
  · interval_cases mo <;> interval_cases r <;> (simp only []; split_ifs <;> omega)



structure ValidCivil (c : Civil) : Prop where
  y1 : 1901 ≤ c.y
  y2 : c.y ≤ 2099
  mo1 : 1 ≤ c.mo
  mo2 : c.mo ≤ 12
  d1 : 1 ≤ c.d
  d2 : c.d ≤ 31
  h1 : 0 ≤ c.h
  h2 : c.h ≤ 23
  mi1 : 0 ≤ c.mi
  mi2 : c.mi ≤ 59
  s1 : 0 ≤ c.s
  s2 : c.s ≤ 59
  us : c.us = 0

/-- Vallado's whole-day count of the date -/
def dayCount (c : Civil) : Int := 367 * c.y - (7 * (c.y + (c.mo + 9) / 12)) / 4 + (275 * c.mo) / 9 + c.d
/-- seconds since midnight -/
def secOfDay (c : Civil) : Int := c.s + c.mi * 60 + c.h * 3600

theorem half_grid (n : Int) : onGrid (-1) ((n : Rat) + 17210135 / 10) := by
  refine ⟨2 * n + 3442027, ?_⟩
  have : pow2 (-1) = 1 / 2 := by have := pow2_neg_nat 1; simpa using this
  rw [this]; push_cast; ring

theorem pow2_vals : pow2 52 = 4503599627370496 ∧ pow2 22 = 4194304 ∧ pow2 21 = 2097152 ∧ pow2 0 = 1 := by
  refine ⟨?_, ?_, ?_, ?_⟩
  · have := pow2_nat 52; simp only [Nat.cast_ofNat] at this; rw [this]; norm_num
  · have := pow2_nat 22; simp only [Nat.cast_ofNat] at this; rw [this]; norm_num
  · have := pow2_nat 21; simp only [Nat.cast_ofNat] at this; rw [this]; norm_num
  · have := pow2_nat 0; simpa using this

/-- the day fraction: `0 ≤ rn(S/86400) ≤ 1` for a second of the day -/
theorem frac_bounds (S : Int) (h0 : 0 ≤ S) (h1 : S ≤ 86399) :
    0 ≤ rn ((S : Rat) / 86400) ∧ rn ((S : Rat) / 86400) ≤ 1 := by
  have x0 : (0 : Rat) ≤ (S : Rat) / 86400 := by
    have : (0 : Rat) ≤ S := by exact_mod_cast h0
    positivity
  have x1 : (S : Rat) / 86400 < 1 := by
    have : (S : Rat) ≤ 86399 := by exact_mod_cast h1
    rw [div_lt_one (by norm_num)]; linarith
  by_cases hz : (S : Rat) / 86400 = 0
  · rw [hz, rn_zero]; exact ⟨le_refl _, by norm_num⟩
  obtain ⟨s1, s2⟩ := expo_spec _ hz
  have hk : expo ((S : Rat) / 86400) < 0 := by
    have : pow2 (expo ((S : Rat) / 86400)) < pow2 0 := by
      rw [pow2_vals.2.2.2]; rw [abs_of_nonneg x0] at s1; linarith
    exact pow2_lt_iff.mp this
  constructor
  · have := rn_ge_of_onGrid _ 0 _ s1 s2 ⟨0, by simp⟩ x0
    exact this
  · have g1 : onGrid (expo ((S : Rat) / 86400) - 52) 1 := by
      have := onGrid_intCast 1 (expo ((S : Rat) / 86400) - 52) (by omega)
      simpa using this
    exact rn_le_of_onGrid _ 1 _ s1 s2 g1 (le_of_lt x1)

theorem jd_structure (c : Civil) (hv : ValidCivil c) :
    jdOf c = rn (((dayCount c : Int) : Rat) + 17210135 / 10 + rn (((secOfDay c : Int) : Rat) / 86400)) := by
  obtain ⟨y, mo, d, h, mi, s, us⟩ := c
  obtain ⟨y1, y2, mo1, mo2, d1, d2, h1, h2, mi1, mi2, s1, s2, hus⟩ := hv
  simp only at y1 y2 mo1 mo2 d1 d2 h1 h2 mi1 mi2 s1 s2 hus
  subst hus
  obtain ⟨hf1, hf2⟩ := mo_floors mo mo1 mo2
  have p52 := pow2_vals.1
  -- the second handed to getJulianDate
  have hsec : secFloat ⟨y, mo, d, h, mi, s, 0⟩ = (s : Rat) := by
    simp only [secFloat, fadd, fdiv]
    have : ((0 : Int) : Rat) / 1000000 = 0 := by norm_num
    rw [this, rn_zero, add_zero]
    exact rn_intB s (by omega) (by omega)
  -- the day part
  have hmDay : fadd (d : Rat) (17210135 / 10) = (d : Rat) + 17210135 / 10 := by
    simp only [fadd]
    apply rn_grid _ (-1) (half_grid d)
    have : pow2 (-1 + 53) = 4503599627370496 := by norm_num; exact p52
    rw [this]
    have hd1 : (1 : Rat) ≤ d := by exact_mod_cast d1
    have hd2 : (d : Rat) ≤ 31 := by exact_mod_cast d2
    exact abs_lt_of_bounds (lo := 1) (hi := 1721045) (by linarith) (by linarith) (by norm_num) (by norm_num)
  have hyc : fadd (y : Rat) (ffloor (fdiv ((mo : Rat) + 9) 12)) = ((y + (mo + 9) / 12 : Int) : Rat) := by
    rw [hf1]; simp only [fadd]
    have : (y : Rat) + (((mo + 9) / 12 : Int) : Rat) = ((y + (mo + 9) / 12 : Int) : Rat) := by push_cast; ring
    rw [this]; exact rn_intB _ (by omega) (by omega)
  have h7 : fmul 7 (((y + (mo + 9) / 12 : Int) : Rat)) = ((7 * (y + (mo + 9) / 12) : Int) : Rat) := by
    simp only [fmul]
    have : (7 : Rat) * ((y + (mo + 9) / 12 : Int) : Rat) = ((7 * (y + (mo + 9) / 12) : Int) : Rat) := by push_cast; ring
    rw [this]; exact rn_intB _ (by omega) (by omega)
  have hq : fmul (((7 * (y + (mo + 9) / 12) : Int) : Rat)) (1 / 4) = ((7 * (y + (mo + 9) / 12) : Int) : Rat) / 4 := by
    simp only [fmul]
    have e : ((7 * (y + (mo + 9) / 12) : Int) : Rat) * (1 / 4) = ((7 * (y + (mo + 9) / 12) : Int) : Rat) / 4 := by ring
    rw [e]
    apply rn_grid _ (-2)
    · refine ⟨7 * (y + (mo + 9) / 12), ?_⟩
      have : pow2 (-2) = 1 / 4 := by have := pow2_neg_nat 2; norm_num at this; simpa using this
      rw [this]; ring
    · have : pow2 (-2 + 53) = 2251799813685248 := by
        have := pow2_nat 51; simp only [Nat.cast_ofNat] at this; norm_num; rw [this]; norm_num
      rw [this]
      have b1 : (0 : Rat) ≤ ((7 * (y + (mo + 9) / 12) : Int) : Rat) := by exact_mod_cast (by omega : (0 : Int) ≤ 7 * (y + (mo + 9) / 12))
      have b2 : ((7 * (y + (mo + 9) / 12) : Int) : Rat) ≤ 20000 := by exact_mod_cast (by omega : 7 * (y + (mo + 9) / 12) ≤ (20000 : Int))
      exact abs_lt_of_bounds (lo := 0) (hi := 5000) (by positivity) (by linarith) (by norm_num) (by norm_num)
  have ha : ffloor (((7 * (y + (mo + 9) / 12) : Int) : Rat) / 4) = (((7 * (y + (mo + 9) / 12)) / 4 : Int) : Rat) := by
    simp only [ffloor]
    have := floor_int_div (7 * (y + (mo + 9) / 12)) 4
    simp only [Nat.cast_ofNat] at this
    rw [this]
  have hsub : fsub (367 * (y : Rat)) ((((7 * (y + (mo + 9) / 12)) / 4 : Int)) : Rat)
      = ((367 * y - (7 * (y + (mo + 9) / 12)) / 4 : Int) : Rat) := by
    simp only [fsub]
    have : 367 * (y : Rat) - ((((7 * (y + (mo + 9) / 12)) / 4 : Int)) : Rat) = ((367 * y - (7 * (y + (mo + 9) / 12)) / 4 : Int) : Rat) := by
      push_cast; ring
    rw [this]; exact rn_intB _ (by omega) (by omega)
  have hadd : fadd (((367 * y - (7 * (y + (mo + 9) / 12)) / 4 : Int) : Rat)) ((((275 * mo) / 9 : Int)) : Rat)
      = ((367 * y - (7 * (y + (mo + 9) / 12)) / 4 + (275 * mo) / 9 : Int) : Rat) := by
    simp only [fadd]
    have : (((367 * y - (7 * (y + (mo + 9) / 12)) / 4 : Int) : Rat)) + ((((275 * mo) / 9 : Int)) : Rat)
        = ((367 * y - (7 * (y + (mo + 9) / 12)) / 4 + (275 * mo) / 9 : Int) : Rat) := by push_cast; ring
    rw [this]; exact rn_intB _ (by omega) (by omega)
  have hj : fadd (((367 * y - (7 * (y + (mo + 9) / 12)) / 4 + (275 * mo) / 9 : Int) : Rat)) ((d : Rat) + 17210135 / 10)
      = ((367 * y - (7 * (y + (mo + 9) / 12)) / 4 + (275 * mo) / 9 + d : Int) : Rat) + 17210135 / 10 := by
    simp only [fadd]
    have : (((367 * y - (7 * (y + (mo + 9) / 12)) / 4 + (275 * mo) / 9 : Int) : Rat)) + ((d : Rat) + 17210135 / 10)
        = ((367 * y - (7 * (y + (mo + 9) / 12)) / 4 + (275 * mo) / 9 + d : Int) : Rat) + 17210135 / 10 := by push_cast; ring
    rw [this]
    apply rn_grid _ (-1) (half_grid _)
    have : pow2 (-1 + 53) = 4503599627370496 := by norm_num; exact p52
    rw [this]
    have b1 : (0 : Rat) ≤ ((367 * y - (7 * (y + (mo + 9) / 12)) / 4 + (275 * mo) / 9 + d : Int) : Rat) := by
      exact_mod_cast (by omega : (0 : Int) ≤ 367 * y - (7 * (y + (mo + 9) / 12)) / 4 + (275 * mo) / 9 + d)
    have b2 : ((367 * y - (7 * (y + (mo + 9) / 12)) / 4 + (275 * mo) / 9 + d : Int) : Rat) ≤ 1000000 := by
      exact_mod_cast (by omega : 367 * y - (7 * (y + (mo + 9) / 12)) / 4 + (275 * mo) / 9 + d ≤ (1000000 : Int))
    exact abs_lt_of_bounds (lo := 0) (hi := 3000000) (by linarith) (by linarith) (by norm_num) (by norm_num)
  have hS1 : fadd (s : Rat) ((mi : Rat) * 60) = ((s + mi * 60 : Int) : Rat) := by
    simp only [fadd]
    have : (s : Rat) + (mi : Rat) * 60 = ((s + mi * 60 : Int) : Rat) := by push_cast; ring
    rw [this]; exact rn_intB _ (by omega) (by omega)
  have hS2 : fadd (((s + mi * 60 : Int) : Rat)) ((h : Rat) * 3600) = ((s + mi * 60 + h * 3600 : Int) : Rat) := by
    simp only [fadd]
    have : ((s + mi * 60 : Int) : Rat) + (h : Rat) * 3600 = ((s + mi * 60 + h * 3600 : Int) : Rat) := by push_cast; ring
    rw [this]; exact rn_intB _ (by omega) (by omega)
  have hfr := frac_bounds (s + mi * 60 + h * 3600) (by omega) (by omega)
  simp only [jdOf, getJulianDate]
  rw [hsec, hyc, h7, hq, ha, hf2, hsub, hadd, hmDay, hj, hS1, hS2]
  simp only [fdiv, not_lt.mpr hfr.2, if_false, fadd, dayCount, secOfDay]

theorem pow2_small : pow2 (-32) = 1 / 4294967296 ∧ pow2 (-54) = 1 / 18014398509481984 ∧ pow2 (-31) = 1 / 2147483648 := by
  refine ⟨?_, ?_, ?_⟩
  · have := pow2_neg_nat 32; simp only [Nat.cast_ofNat] at this; rw [this]; norm_num
  · have := pow2_neg_nat 54; simp only [Nat.cast_ofNat] at this; rw [this]; norm_num
  · have := pow2_neg_nat 31; simp only [Nat.cast_ofNat] at this; rw [this]; norm_num

/-- the Julian date of a whole second: `jd = J + g` with `J` the (exact) date part and `g` a day fraction on the
grid `2^-31` within `2^-32 + 2^-54` of `S/86400` -/
theorem jd_facts (N S : Int) (hN1 : 690000 ≤ N) (hN2 : N ≤ 770000) (hS0 : 0 ≤ S) (hS1 : S ≤ 86399) :
    let jd := rn ((N : Rat) + 17210135 / 10 + rn ((S : Rat) / 86400))
    let g := jd - ((N : Rat) + 17210135 / 10)
    0 ≤ g ∧ g < 1 ∧ onGrid (-31) g ∧ onGrid (-31) jd ∧ |g - (S : Rat) / 86400| ≤ pow2 (-32) + pow2 (-54) := by
  intro jd g
  obtain ⟨f0, f1⟩ := frac_bounds S hS0 hS1
  have hNr1 : (690000 : Rat) ≤ N := by exact_mod_cast hN1
  have hNr2 : (N : Rat) ≤ 770000 := by exact_mod_cast hN2
  obtain ⟨_, p22, p21, p0⟩ := pow2_vals
  obtain ⟨q32, q54, _⟩ := pow2_small
  have hXpos : 0 < (N : Rat) + 17210135 / 10 + rn ((S : Rat) / 86400) := by linarith
  have h1 : pow2 21 ≤ |(N : Rat) + 17210135 / 10 + rn ((S : Rat) / 86400)| := by
    rw [abs_of_pos hXpos, p21]; linarith
  have h2 : |(N : Rat) + 17210135 / 10 + rn ((S : Rat) / 86400)| < pow2 (21 + 1) := by
    rw [abs_of_pos hXpos]; norm_num; rw [p22]; linarith
  obtain ⟨e1, gr⟩ := rn_err _ 21 h1 h2
  have gr' : onGrid (-31) jd := by simpa using gr
  have gJ : onGrid (-31) ((N : Rat) + 17210135 / 10) := onGrid_mono (by norm_num) (half_grid N)
  have gJ' : onGrid (21 - 52) ((N : Rat) + 17210135 / 10) := by simpa using gJ
  have hge : (N : Rat) + 17210135 / 10 ≤ jd := rn_ge_of_onGrid _ _ 21 h1 h2 gJ' (by linarith)
  have x0 : (0 : Rat) ≤ (S : Rat) / 86400 := by
    have : (0 : Rat) ≤ S := by exact_mod_cast hS0
    positivity
  have x1 : (S : Rat) / 86400 ≤ 86399 / 86400 := by
    have : (S : Rat) ≤ 86399 := by exact_mod_cast hS1
    rw [div_le_div_iff_of_pos_right (by norm_num)]; exact this
  have e2 : |rn ((S : Rat) / 86400) - (S : Rat) / 86400| ≤ pow2 (-54) := by
    have := rn_err_le ((S : Rat) / 86400) (-1) (by
      rw [abs_of_nonneg x0]; norm_num; rw [p0]; linarith)
    simpa using this
  have e1' : |jd - ((N : Rat) + 17210135 / 10 + rn ((S : Rat) / 86400))| ≤ pow2 (-32) := by simpa using e1
  have hdiff : |g - (S : Rat) / 86400| ≤ pow2 (-32) + pow2 (-54) := by
    have : g - (S : Rat) / 86400 = (jd - ((N : Rat) + 17210135 / 10 + rn ((S : Rat) / 86400))) + (rn ((S : Rat) / 86400) - (S : Rat) / 86400) := by
      simp only [g]; ring
    rw [this]
    exact le_trans (abs_add_le _ _) (add_le_add e1' e2)
  refine ⟨by simp only [g]; linarith, ?_, onGrid_sub gr' gJ, gr', hdiff⟩
  have := (abs_le.mp hdiff).2
  rw [q32, q54] at this
  linarith


/-- the date part in days since 1899-12-31: day of year + whole years -/
theorem dayCount_doy (y : Int) (mo : Nat) (d : Int) (leap : Bool) (hy1 : 1901 ≤ y) (hy2 : y ≤ 2099)
    (h1 : 1 ≤ mo) (h2 : mo ≤ 12) (hl : leap = true ↔ (y - 1900) % 4 = 0) :
    367 * y - (7 * (y + ((mo : Int) + 9) / 12)) / 4 + (275 * (mo : Int)) / 9 + d - 694006
      = (cum leap mo + d) + 365 * (y - 1900) + (y - 1901) / 4 := by
  obtain ⟨k, r, hk, hr0, hr3⟩ : ∃ k r : Int, y = 4 * k + r ∧ 0 ≤ r ∧ r ≤ 3 := ⟨y / 4, y % 4, by omega, by omega, by omega⟩
  subst hk
  cases leap with
  | true =>
    have hm : (4 * k + r - 1900) % 4 = 0 := hl.mp rfl
    have hr : r = 0 := by omega
    subst hr
    interval_cases mo <;> simp [cum, monthLenT] <;> omega
  | false =>
    have hm : ¬ (4 * k + r - 1900) % 4 = 0 := fun h => by simpa using hl.mpr h
    have hr : r ≠ 0 := by omega
    interval_cases mo <;> simp [cum, monthLenT] <;> omega

theorem cum_bounds (leap : Bool) (mo : Nat) (d : Int) (h1 : 1 ≤ mo) (h2 : mo ≤ 12) (hd1 : 1 ≤ d) (hd2 : d ≤ monthLenT leap mo) :
    1 ≤ cum leap mo + d ∧ cum leap mo + d ≤ 365 + (if leap then 1 else 0) := by
  cases leap <;> interval_cases mo <;> simp [cum, monthLenT] at hd2 ⊢ <;> omega


theorem pow2_more : pow2 53 = 9007199254740992 ∧ pow2 8 = 256 ∧ pow2 (-46) = 1 / 70368744177664 ∧ pow2 22 = 4194304 := by
  refine ⟨?_, ?_, ?_, pow2_vals.2.1⟩
  · have := pow2_nat 53; simp only [Nat.cast_ofNat] at this; rw [this]; norm_num
  · have := pow2_nat 8; simp only [Nat.cast_ofNat] at this; rw [this]; norm_num
  · have := pow2_neg_nat 46; simp only [Nat.cast_ofNat] at this; rw [this]; norm_num

/-- a value on the grid `2^-31` below `2^21` is representable -/
theorem rn_grid31 (x : Rat) (hx : onGrid (-31) x) (hb : |x| < 2097152) : rn x = x := by
  apply rn_grid x (-31) hx
  have : pow2 (-31 + 53) = 4194304 := by norm_num; exact pow2_vals.2.1
  rw [this]; linarith

/-- `tempVal = jd - 2415019.5` is exact -/
theorem tempVal_exact (N : Int) (g : Rat) (hN1 : 690000 ≤ N) (hN2 : N ≤ 770000) (g0 : 0 ≤ g) (g1 : g < 1) (gg : onGrid (-31) g) :
    fsub ((N : Rat) + 17210135 / 10 + g) (24150195 / 10) = ((N - 694006 : Int) : Rat) + g := by
  simp only [fsub]
  have e : (N : Rat) + 17210135 / 10 + g - 24150195 / 10 = ((N - 694006 : Int) : Rat) + g := by push_cast; ring
  rw [e]
  have hNr1 : (690000 : Rat) ≤ N := by exact_mod_cast hN1
  have hNr2 : (N : Rat) ≤ 770000 := by exact_mod_cast hN2
  apply rn_grid31
  · exact onGrid_add (onGrid_intCast _ _ (by norm_num)) gg
  · push_cast
    exact abs_lt_of_bounds (lo := -5000) (hi := 80000) (by linarith) (by linarith) (by norm_num) (by norm_num)

/-- the first guess of the year is the year or the next one -/
theorem year_guess (n k : Int) (g : Rat) (hk1 : 1 ≤ k) (hk2 : k ≤ 199) (g0 : 0 ≤ g) (g1 : g < 1)
    (hlo : 365 * k + (k - 1) / 4 + 1 ≤ n) (hhi : n ≤ 365 * k + (k - 1) / 4 + 366) :
    (fdiv ((n : Rat) + g) (36525 / 100)).floor = k ∨ (fdiv ((n : Rat) + g) (36525 / 100)).floor = k + 1 := by
  obtain ⟨_, p8, p45, _⟩ := pow2_more
  simp only [fdiv]
  have hk1r : (1 : Rat) ≤ k := by exact_mod_cast hk1
  have hk2r : (k : Rat) ≤ 199 := by exact_mod_cast hk2
  -- exact bounds on the quotient
  have hn_lo : (36525 / 100 : Rat) * k ≤ n := by
    have : 4 * n ≥ 1461 * k := by omega
    have : (4 : Rat) * n ≥ 1461 * k := by exact_mod_cast this
    linarith
  have hn_hi : (n : Rat) ≤ (36525 / 100 : Rat) * k + 366 := by
    have : 4 * n ≤ 1461 * k + 1464 := by omega
    have : (4 : Rat) * n ≤ 1461 * k + 1464 := by exact_mod_cast this
    linarith
  have hq_lo : (k : Rat) ≤ ((n : Rat) + g) / (36525 / 100) := by
    rw [le_div_iff₀ (by norm_num)]; linarith
  have hq_hi : ((n : Rat) + g) / (36525 / 100) < (k : Rat) + 1 + 1 / 100 := by
    rw [div_lt_iff₀ (by norm_num)]; linarith
  have hq_pos : 0 < ((n : Rat) + g) / (36525 / 100) := by linarith
  have hq_ne : ((n : Rat) + g) / (36525 / 100) ≠ 0 := ne_of_gt hq_pos
  obtain ⟨s1, s2⟩ := expo_spec _ hq_ne
  have hex : expo (((n : Rat) + g) / (36525 / 100)) < 8 := by
    have : pow2 (expo (((n : Rat) + g) / (36525 / 100))) < pow2 8 := by
      rw [p8]; rw [abs_of_pos hq_pos] at s1; linarith
    exact pow2_lt_iff.mp this
  have lo : (k : Rat) ≤ rn (((n : Rat) + g) / (36525 / 100)) :=
    rn_ge_of_onGrid _ _ _ s1 s2 (onGrid_intCast k _ (by omega)) hq_lo
  have err := rn_err_le (((n : Rat) + g) / (36525 / 100)) 7 (by
    rw [abs_of_pos hq_pos]; norm_num; rw [p8]; linarith)
  have err' : |rn (((n : Rat) + g) / (36525 / 100)) - ((n : Rat) + g) / (36525 / 100)| ≤ pow2 (-46) := by simpa using err
  have hi : rn (((n : Rat) + g) / (36525 / 100)) < (k : Rat) + 2 := by
    have := (abs_le.mp err').2
    rw [p45] at this; linarith
  have f1 : k ≤ (rn (((n : Rat) + g) / (36525 / 100))).floor := by
    have : (rn (((n : Rat) + g) / (36525 / 100))).floor = ⌊rn (((n : Rat) + g) / (36525 / 100))⌋ := rfl
    rw [this]; exact Int.le_floor.mpr lo
  have f2 : (rn (((n : Rat) + g) / (36525 / 100))).floor < k + 2 := by
    have : (rn (((n : Rat) + g) / (36525 / 100))).floor = ⌊rn (((n : Rat) + g) / (36525 / 100))⌋ := rfl
    rw [this]; exact Int.floor_lt.mpr (by push_cast; exact hi)
  omega

/-- the day of year for a candidate year `1900 + j` is computed exactly -/
theorem doyOf_exact (n j : Int) (g : Rat) (hj1 : 1 ≤ j) (hj2 : j ≤ 201) (hn1 : 0 ≤ n) (hn2 : n ≤ 80000)
    (g0 : 0 ≤ g) (g1 : g < 1) (gg : onGrid (-31) g) :
    fsub ((n : Rat) + g) ((((1900 + j - 1900) * 365 : Int) : Rat) + ffloor (fmul (((1900 + j : Int) : Rat) - 1901) (1 / 4)))
      = ((n - (365 * j + (j - 1) / 4) : Int) : Rat) + g := by
  have hq : fmul (((1900 + j : Int) : Rat) - 1901) (1 / 4) = ((j - 1 : Int) : Rat) / 4 := by
    simp only [fmul]
    have e : (((1900 + j : Int) : Rat) - 1901) * (1 / 4) = ((j - 1 : Int) : Rat) / 4 := by push_cast; ring
    rw [e]
    apply rn_grid _ (-2)
    · refine ⟨j - 1, ?_⟩
      have : pow2 (-2) = 1 / 4 := by have := pow2_neg_nat 2; norm_num at this; simpa using this
      rw [this]; ring
    · have : pow2 (-2 + 53) = 2251799813685248 := by
        have := pow2_nat 51; simp only [Nat.cast_ofNat] at this; norm_num; rw [this]; norm_num
      rw [this]
      have b1 : (0 : Rat) ≤ ((j - 1 : Int) : Rat) := by exact_mod_cast (by omega : (0 : Int) ≤ j - 1)
      have b2 : ((j - 1 : Int) : Rat) ≤ 200 := by exact_mod_cast (by omega : j - 1 ≤ (200 : Int))
      exact abs_lt_of_bounds (lo := 0) (hi := 50) (by positivity) (by linarith) (by norm_num) (by norm_num)
  have hfl : ffloor (((j - 1 : Int) : Rat) / 4) = (((j - 1) / 4 : Int) : Rat) := by
    simp only [ffloor]
    have := floor_int_div (j - 1) 4
    simp only [Nat.cast_ofNat] at this
    rw [this]
  rw [hq, hfl]
  simp only [fsub]
  have e : (n : Rat) + g - ((((1900 + j - 1900) * 365 : Int) : Rat) + (((j - 1) / 4 : Int) : Rat))
      = ((n - (365 * j + (j - 1) / 4) : Int) : Rat) + g := by push_cast; ring
  rw [e]
  apply rn_grid31
  · exact onGrid_add (onGrid_intCast _ _ (by norm_num)) gg
  · have b1 : (-80000 : Rat) ≤ ((n - (365 * j + (j - 1) / 4) : Int) : Rat) := by
      exact_mod_cast (by omega : (-80000 : Int) ≤ n - (365 * j + (j - 1) / 4))
    have b2 : ((n - (365 * j + (j - 1) / 4) : Int) : Rat) ≤ 80000 := by
      exact_mod_cast (by omega : n - (365 * j + (j - 1) / 4) ≤ (80000 : Int))
    exact abs_lt_of_bounds (lo := -80000) (hi := 80001) (by linarith) (by linarith) (by norm_num) (by norm_num)


theorem pow2_ge_of (e : Int) (he : -40 ≤ e) : (8192 : Rat) ≤ pow2 (e + 53) := by
  have : pow2 13 ≤ pow2 (e + 53) := pow2_mono (by omega)
  have p13 : pow2 13 = 8192 := by
    have := pow2_nat 13; simp only [Nat.cast_ofNat] at this; rw [this]; norm_num
  rw [p13] at this; exact this

theorem rn_grid_small (x : Rat) (e : Int) (hx : onGrid e x) (he : -40 ≤ e) (hb : |x| < 8192) : rn x = x :=
  rn_grid x e hx (lt_of_lt_of_le hb (pow2_ge_of e he))

theorem onGrid_mul4 (e : Int) (x : Rat) (hx : onGrid e x) : onGrid (e + 2) (x * 4) := by
  obtain ⟨m, rfl⟩ := hx
  refine ⟨m, ?_⟩
  rw [pow2_add]
  have : pow2 2 = 4 := by have := pow2_nat 2; simp only [Nat.cast_ofNat] at this; rw [this]; norm_num
  rw [this]; ring

theorem onGrid_mul8 (e : Int) (x : Rat) (hx : onGrid e x) : onGrid (e + 3) (x * 8) := by
  obtain ⟨m, rfl⟩ := hx
  refine ⟨m, ?_⟩
  rw [pow2_add]
  have : pow2 3 = 8 := by have := pow2_nat 3; simp only [Nat.cast_ofNat] at this; rw [this]; norm_num
  rw [this]; ring

theorem floor_facts (x : Rat) : ((x.floor : Int) : Rat) ≤ x ∧ x < ((x.floor : Int) : Rat) + 1 := by
  have : x.floor = ⌊x⌋ := rfl
  rw [this]
  exact ⟨Int.floor_le x, Int.lt_floor_add_one x⟩

/-- `(x - floor x) * 60` in floats is exact for a value on a fine grid -/
theorem frac_mul60 (e : Int) (he : -40 ≤ e) (x : Rat) (hx : onGrid e x) (he0 : e ≤ 0) (x0 : 0 ≤ x) (x1 : x < 100) :
    fmul (fsub x (ffloor x)) 60 = (x - ((x.floor : Int) : Rat)) * 60 ∧ onGrid (e + 2) ((x - ((x.floor : Int) : Rat)) * 60) := by
  obtain ⟨f0, f1⟩ := floor_facts x
  have gsub : onGrid e (x - ((x.floor : Int) : Rat)) := onGrid_sub hx (onGrid_intCast _ e he0)
  have hsub : fsub x (ffloor x) = x - ((x.floor : Int) : Rat) := by
    simp only [fsub, ffloor]
    exact rn_grid_small _ e gsub he (abs_lt_of_bounds (lo := 0) (hi := 1) (by linarith) (by linarith) (by norm_num) (by norm_num))
  have g60 : onGrid (e + 2) ((x - ((x.floor : Int) : Rat)) * 60) := by
    have := onGrid_mul_int (onGrid_mul4 e _ gsub) 15
    have e' : (x - ((x.floor : Int) : Rat)) * 60 = (x - ((x.floor : Int) : Rat)) * 4 * ((15 : Int) : Rat) := by push_cast; ring
    rw [e']; exact this
  refine ⟨?_, g60⟩
  rw [hsub]; simp only [fmul]
  exact rn_grid_small _ (e + 2) g60 (by omega) (abs_lt_of_bounds (lo := 0) (hi := 60) (by nlinarith) (by nlinarith) (by norm_num) (by norm_num))

/-- `(x - floor x) * 24` likewise -/
theorem frac_mul24 (e : Int) (he : -40 ≤ e) (x : Rat) (hx : onGrid e x) (he0 : e ≤ 0) (x0 : 0 ≤ x) (x1 : x < 400) :
    fmul (fsub x (ffloor x)) 24 = (x - ((x.floor : Int) : Rat)) * 24 ∧ onGrid (e + 3) ((x - ((x.floor : Int) : Rat)) * 24) := by
  obtain ⟨f0, f1⟩ := floor_facts x
  have gsub : onGrid e (x - ((x.floor : Int) : Rat)) := onGrid_sub hx (onGrid_intCast _ e he0)
  have hsub : fsub x (ffloor x) = x - ((x.floor : Int) : Rat) := by
    simp only [fsub, ffloor]
    exact rn_grid_small _ e gsub he (abs_lt_of_bounds (lo := 0) (hi := 1) (by linarith) (by linarith) (by norm_num) (by norm_num))
  have g24 : onGrid (e + 3) ((x - ((x.floor : Int) : Rat)) * 24) := by
    have := onGrid_mul_int (onGrid_mul8 e _ gsub) 3
    have e' : (x - ((x.floor : Int) : Rat)) * 24 = (x - ((x.floor : Int) : Rat)) * 8 * ((3 : Int) : Rat) := by push_cast; ring
    rw [e']; exact this
  refine ⟨?_, g24⟩
  rw [hsub]; simp only [fmul]
  exact rn_grid_small _ (e + 3) g24 (by omega) (abs_lt_of_bounds (lo := 0) (hi := 24) (by nlinarith) (by nlinarith) (by norm_num) (by norm_num))


/-! ### `getCalendarDate` in pieces -/

def doyOfY (tempVal : Rat) (year : Int) : Rat :=
  fsub tempVal ((((year - 1900) * 365 : Int) : Rat) + ffloor (fmul ((year : Rat) - 1901) (1 / 4)))

def yearOf (tempVal : Rat) : Int :=
  let year0 : Int := 1900 + (fdiv tempVal (36525 / 100)).floor
  if doyOfY tempVal year0 < 1 then year0 - 1 else year0

theorem getCalendarDate_eq (jd : Rat) :
    getCalendarDate jd =
      (let tv := fsub jd (24150195 / 10)
       let r := days2mdh (yearOf tv) (doyOfY tv (yearOf tv))
       ⟨yearOf tv, r.1, r.2.1, r.2.2.1, r.2.2.2.1, r.2.2.2.2⟩) := rfl

theorem doyOfY_exact (n j year : Int) (g : Rat) (hy : year = 1900 + j) (hj1 : 1 ≤ j) (hj2 : j ≤ 201) (hn1 : 0 ≤ n) (hn2 : n ≤ 80000)
    (g0 : 0 ≤ g) (g1 : g < 1) (gg : onGrid (-31) g) :
    doyOfY ((n : Rat) + g) year = ((n - (365 * j + (j - 1) / 4) : Int) : Rat) + g := by
  subst hy
  exact doyOf_exact n j g hj1 hj2 hn1 hn2 g0 g1 gg

/-- the year is recovered, and with it the day of year -/
theorem year_select (n k doyI : Int) (g : Rat) (hk1 : 1 ≤ k) (hk2 : k ≤ 199) (g0 : 0 ≤ g) (g1 : g < 1) (gg : onGrid (-31) g)
    (hn : n = doyI + 365 * k + (k - 1) / 4) (hd1 : 1 ≤ doyI) (hd2 : doyI ≤ 365 + (if k % 4 = 0 then 1 else 0)) :
    yearOf ((n : Rat) + g) = 1900 + k ∧ doyOfY ((n : Rat) + g) (1900 + k) = (doyI : Rat) + g := by
  have hlo : 365 * k + (k - 1) / 4 + 1 ≤ n := by omega
  have hhi : n ≤ 365 * k + (k - 1) / 4 + 366 := by split_ifs at hd2 <;> omega
  have hn1 : 0 ≤ n := by omega
  have hn2 : n ≤ 80000 := by omega
  have ek := doyOfY_exact n k (1900 + k) g rfl hk1 (by omega) hn1 hn2 g0 g1 gg
  have ek' : doyOfY ((n : Rat) + g) (1900 + k) = (doyI : Rat) + g := by
    rw [ek]
    have : n - (365 * k + (k - 1) / 4) = doyI := by omega
    rw [this]
  refine ⟨?_, ek'⟩
  unfold yearOf
  simp only
  rcases year_guess n k g hk1 hk2 g0 g1 hlo hhi with hj | hj
  · rw [hj, ek']
    have : ¬ ((doyI : Rat) + g < 1) := by
      have : (1 : Rat) ≤ doyI := by exact_mod_cast hd1
      linarith
    simp only [this, if_false]
  · rw [hj]
    have e1 := doyOfY_exact n (k + 1) (1900 + (k + 1)) g rfl (by omega) (by omega) hn1 hn2 g0 g1 gg
    rw [e1]
    have hle : n - (365 * (k + 1) + (k + 1 - 1) / 4) ≤ 0 := by split_ifs at hd2 <;> omega
    have : ((n - (365 * (k + 1) + (k + 1 - 1) / 4) : Int) : Rat) + g < 1 := by
      have : ((n - (365 * (k + 1) + (k + 1 - 1) / 4) : Int) : Rat) ≤ 0 := by exact_mod_cast hle
      linarith
    simp only [this, if_true]
    ring

/-- hour, minute and second as `days2mdh` computes them -/
def hhOf (g : Rat) : Int := (g * 24).floor
def mmOf (g : Rat) : Int := ((g * 24 - (hhOf g : Rat)) * 60).floor
def secOf (g : Rat) : Rat := ((g * 24 - (hhOf g : Rat)) * 60 - (mmOf g : Rat)) * 60

theorem days2mdh_exact (year : Int) (mo : Nat) (d : Int) (g : Rat) (h1 : 1 ≤ mo) (h2 : mo ≤ 12) (hd1 : 1 ≤ d)
    (hd2 : d ≤ monthLenT ((year - 1900) % 4 == 0) mo) (g0 : 0 ≤ g) (g1 : g < 1) (gg : onGrid (-31) g) :
    days2mdh year ((cum ((year - 1900) % 4 == 0) mo + d : Int) + g)
      = ((mo : Int), d, ((hhOf g : Int) : Rat), ((mmOf g : Int) : Rat), secOf g) := by
  set leap := ((year - 1900) % 4 == 0) with hleap
  have hb := cum_bounds leap mo d h1 h2 hd1 hd2
  have hd31 : d ≤ 31 := by
    have : monthLenT leap mo ≤ 31 := by unfold monthLenT; split_ifs <;> omega
    omega
  have hfloor : (((cum leap mo + d : Int) : Rat) + g).floor = cum leap mo + d := floor_int_add _ g g0 g1
  -- the month loop, from the table
  have hloop : monthLoop leap (cum leap mo + d) 12 1 0 = ((mo : Int), cum leap mo) := by
    have := monthLoop_table leap ⟨mo, by omega⟩ ⟨d.toNat, by omega⟩ (by simpa using h1) (by simp; omega) (by simp; omega)
    simp only at this
    have hdn : ((d.toNat : Nat) : Int) = d := by omega
    rw [hdn] at this
    exact this
  -- hours, minutes, seconds
  have gx : onGrid (-31) (((cum leap mo + d : Int) : Rat) + g) := onGrid_add (onGrid_intCast _ _ (by norm_num)) gg
  have xb0 : (0 : Rat) ≤ ((cum leap mo + d : Int) : Rat) + g := by
    have : (1 : Rat) ≤ ((cum leap mo + d : Int) : Rat) := by exact_mod_cast hb.1
    linarith
  have xb1 : ((cum leap mo + d : Int) : Rat) + g < 400 := by
    have : ((cum leap mo + d : Int) : Rat) ≤ 366 := by
      have : cum leap mo + d ≤ 366 := by have := hb.2; split_ifs at this <;> omega
      exact_mod_cast this
    linarith
  obtain ⟨e24, g24⟩ := frac_mul24 (-31) (by norm_num) _ gx (by norm_num) xb0 xb1
  rw [hfloor] at e24 g24
  have eg : ((cum leap mo + d : Int) : Rat) + g - ((cum leap mo + d : Int) : Rat) = g := by ring
  rw [eg] at e24 g24
  have g24' : onGrid (-28) (g * 24) := by simpa using g24
  have hr0 : 0 ≤ g * 24 := by positivity
  have hr1 : g * 24 < 100 := by linarith
  obtain ⟨e60, g60⟩ := frac_mul60 (-28) (by norm_num) _ g24' (by norm_num) hr0 hr1
  have g60' : onGrid (-26) ((g * 24 - ((g * 24).floor : Int)) * 60) := by simpa using g60
  obtain ⟨ff0, ff1⟩ := floor_facts (g * 24)
  have hm0 : 0 ≤ (g * 24 - ((g * 24).floor : Int)) * 60 := by nlinarith
  have hm1 : (g * 24 - ((g * 24).floor : Int)) * 60 < 100 := by nlinarith
  obtain ⟨e60b, _⟩ := frac_mul60 (-26) (by norm_num) _ g60' (by norm_num) hm0 hm1
  unfold days2mdh
  simp only [← hleap, hfloor, hloop]
  have e24' : fmul (fsub (((cum leap mo + d : Int) : Rat) + g) ((cum leap mo + d : Int) : Rat)) 24 = g * 24 := by
    have hfl : ffloor (((cum leap mo + d : Int) : Rat) + g) = ((cum leap mo + d : Int) : Rat) := by simp only [ffloor, hfloor]
    rw [hfl] at e24; exact e24
  rw [e24', e60, e60b]
  simp only [ffloor, hhOf, mmOf, secOf, add_sub_cancel_left]


/-! ### the round trip -/

theorem dayCount_bounds (c : Civil) (hv : ValidCivil c) : 690000 ≤ dayCount c ∧ dayCount c ≤ 770000 := by
  obtain ⟨y1, y2, mo1, mo2, d1, d2, _, _, _, _, _, _, _⟩ := hv
  unfold dayCount
  constructor <;> omega

theorem secOfDay_bounds (c : Civil) (hv : ValidCivil c) : 0 ≤ secOfDay c ∧ secOfDay c ≤ 86399 := by
  obtain ⟨_, _, _, _, _, _, h1, h2, mi1, mi2, s1, s2, _⟩ := hv
  unfold secOfDay
  constructor <;> omega

/-- **the calendar that comes back is the calendar that went in**, with the time of day carried by a day fraction
`g` within `2^-32 + 2^-54` of `S/86400` -/
theorem calendar_recovered (c : Civil) (hv : ValidCivil c) (hd : c.d ≤ monthLenT ((c.y - 1900) % 4 == 0) c.mo) :
    ∃ g : Rat, 0 ≤ g ∧ g < 1 ∧ |g - (secOfDay c : Rat) / 86400| ≤ pow2 (-32) + pow2 (-54) ∧
      jdOf c = (dayCount c : Rat) + 17210135 / 10 + g ∧
      getCalendarDate (jdOf c) = ⟨c.y, c.mo, c.d, ((hhOf g : Int) : Rat), ((mmOf g : Int) : Rat), secOf g⟩ := by
  obtain ⟨N1, N2⟩ := dayCount_bounds c hv
  obtain ⟨S0, S1⟩ := secOfDay_bounds c hv
  have hs := jd_structure c hv
  obtain ⟨g0, g1, gg, _, hdiff⟩ := jd_facts (dayCount c) (secOfDay c) N1 N2 S0 S1
  rw [← hs] at g0 g1 gg hdiff
  refine ⟨jdOf c - ((dayCount c : Rat) + 17210135 / 10), g0, g1, hdiff, by ring, ?_⟩
  set g := jdOf c - ((dayCount c : Rat) + 17210135 / 10) with hg
  have hjd : jdOf c = (dayCount c : Rat) + 17210135 / 10 + g := by rw [hg]; ring
  obtain ⟨y1, y2, mo1, mo2, d1, d2, _, _, _, _, _, _, _⟩ := hv
  -- month as a natural number
  obtain ⟨m, hm⟩ : ∃ m : Nat, c.mo = (m : Int) := ⟨c.mo.toNat, by omega⟩
  have hm1 : 1 ≤ m := by omega
  have hm2 : m ≤ 12 := by omega
  have hleap : ((c.y - 1900) % 4 == 0) = true ↔ (c.y - 1900) % 4 = 0 := by simp
  have hcount := dayCount_doy c.y m c.d ((c.y - 1900) % 4 == 0) y1 y2 hm1 hm2 hleap
  have hd' : c.d ≤ monthLenT ((c.y - 1900) % 4 == 0) m := by rw [← hm]; exact hd
  have hcb := cum_bounds ((c.y - 1900) % 4 == 0) m c.d hm1 hm2 d1 hd'
  have hn : dayCount c - 694006 = (cum ((c.y - 1900) % 4 == 0) m + c.d) + 365 * (c.y - 1900) + (c.y - 1900 - 1) / 4 := by
    unfold dayCount; rw [hm]
    have : c.y - 1900 - 1 = c.y - 1901 := by ring
    rw [this]; exact hcount
  have hcb2 : cum ((c.y - 1900) % 4 == 0) m + c.d ≤ 365 + (if (c.y - 1900) % 4 = 0 then 1 else 0) := by
    have := hcb.2
    by_cases h4 : (c.y - 1900) % 4 = 0
    · simp only [h4, if_true]; simpa [hleap.mpr h4] using this
    · have hf : ((c.y - 1900) % 4 == 0) = false := by simpa using h4
      simp only [h4, if_false]; simpa [hf] using this
  obtain ⟨hyr, hdoy⟩ := year_select (dayCount c - 694006) (c.y - 1900) (cum ((c.y - 1900) % 4 == 0) m + c.d) g
    (by omega) (by omega) g0 g1 gg hn hcb.1 hcb2
  have hyr' : yearOf (((dayCount c - 694006 : Int) : Rat) + g) = c.y := by rw [hyr]; ring
  have hdoy' : doyOfY (((dayCount c - 694006 : Int) : Rat) + g) c.y = ((cum ((c.y - 1900) % 4 == 0) m + c.d : Int) : Rat) + g := by
    have : (1900 + (c.y - 1900) : Int) = c.y := by ring
    rw [this] at hdoy; exact hdoy
  rw [getCalendarDate_eq]
  simp only
  rw [hjd, tempVal_exact (dayCount c) g N1 N2 g0 g1 gg, hyr', hdoy',
    days2mdh_exact c.y m c.d g hm1 hm2 d1 hd' g0 g1 gg, hm]

theorem pow2_err_small : (86400 : Rat) * (pow2 (-32) + pow2 (-54)) < 1 / 2 := by
  obtain ⟨q32, q54, _⟩ := pow2_small
  rw [q32, q54]; norm_num

/-- **calendar → Julian date → calendar is the identity** on whole seconds, 1901-2099 (the repaired rule) -/
theorem civil_roundtrip (c : Civil) (hv : ValidCivil c) (hd : c.d ≤ monthLenT ((c.y - 1900) % 4 == 0) c.mo) :
    j2dSeconds .nearest (jdOf c) = civilToSeconds c := by
  obtain ⟨g, g0, g1, hdiff, _, hcal⟩ := calendar_recovered c hv hd
  unfold j2dSeconds j2dParts
  simp only [hcal, civilToSeconds, floor_intCast]
  -- the second: 86400 g = S + ε with |ε| < 1/2
  have hε : |(86400 : Rat) * g - (secOfDay c : Rat)| < 1 / 2 := by
    have : (86400 : Rat) * g - (secOfDay c : Rat) = 86400 * (g - (secOfDay c : Rat) / 86400) := by ring
    rw [this, abs_mul, abs_of_pos (by norm_num : (0 : Rat) < 86400)]
    exact lt_of_le_of_lt (mul_le_mul_of_nonneg_left hdiff (by norm_num)) pow2_err_small
  have hsec : secOf g = ((secOfDay c - 3600 * hhOf g - 60 * mmOf g : Int) : Rat) + ((86400 : Rat) * g - (secOfDay c : Rat)) := by
    unfold secOf; push_cast; ring
  have hr : fround (secOf g) = secOfDay c - 3600 * hhOf g - 60 * mmOf g := by
    unfold fround; rw [hsec]; exact rheQ_int_add _ _ hε
  rw [hr]
  unfold secOfDay
  ring


/-! ### strict monotonicity -/

theorem jd_decomp (c : Civil) (hv : ValidCivil c) :
    ∃ g : Rat, 0 ≤ g ∧ g < 1 ∧ |g - (secOfDay c : Rat) / 86400| ≤ pow2 (-32) + pow2 (-54) ∧
      jdOf c = (dayCount c : Rat) + 17210135 / 10 + g := by
  obtain ⟨N1, N2⟩ := dayCount_bounds c hv
  obtain ⟨S0, S1⟩ := secOfDay_bounds c hv
  have hs := jd_structure c hv
  obtain ⟨g0, g1, _, _, hdiff⟩ := jd_facts (dayCount c) (secOfDay c) N1 N2 S0 S1
  rw [← hs] at g0 g1 hdiff
  exact ⟨jdOf c - ((dayCount c : Rat) + 17210135 / 10), g0, g1, hdiff, by ring⟩

theorem civilToSeconds_eq (c : Civil) (hv : ValidCivil c) :
    civilToSeconds c = (dayCount c + 1721013 - 2440587) * 86400 + secOfDay c := by
  obtain ⟨y1, y2, mo1, mo2, d1, d2, _, _, _, _, _, _, _⟩ := hv
  have h := vallado_dayNumber c.y c.mo.toNat c.d.toNat y1 y2 (by omega) (by omega)
  have hm : ((c.mo.toNat : Nat) : Int) = c.mo := by omega
  have hd : ((c.d.toNat : Nat) : Int) = c.d := by omega
  rw [hm, hd] at h
  unfold civilToSeconds dayCount secOfDay
  omega

/-- **Julian dates are strictly increasing in civil time** (whole seconds, 1901-2099): two different instants never
share a Julian date and their order is preserved -/
theorem jd_strict_mono (c1 c2 : Civil) (h1 : ValidCivil c1) (h2 : ValidCivil c2)
    (hlt : civilToSeconds c1 < civilToSeconds c2) : jdOf c1 < jdOf c2 := by
  obtain ⟨g1, _, _, e1, j1⟩ := jd_decomp c1 h1
  obtain ⟨g2, _, _, e2, j2⟩ := jd_decomp c2 h2
  rw [civilToSeconds_eq c1 h1, civilToSeconds_eq c2 h2] at hlt
  have hi : (dayCount c2 - dayCount c1) * 86400 + (secOfDay c2 - secOfDay c1) ≥ 1 := by omega
  have hr : ((dayCount c2 : Rat) - dayCount c1) * 86400 + ((secOfDay c2 : Rat) - secOfDay c1) ≥ 1 := by exact_mod_cast hi
  obtain ⟨q32, q54, _⟩ := pow2_small
  rw [q32, q54] at e1 e2
  have a1 := (abs_le.mp e1).2
  have a2 := (abs_le.mp e2).1
  rw [j1, j2]
  have : ((dayCount c2 : Rat) - dayCount c1) + ((secOfDay c2 : Rat) - secOfDay c1) / 86400 ≥ 1 / 86400 := by
    have : ((dayCount c2 : Rat) - dayCount c1) + ((secOfDay c2 : Rat) - secOfDay c1) / 86400
        = (((dayCount c2 : Rat) - dayCount c1) * 86400 + ((secOfDay c2 : Rat) - secOfDay c1)) / 86400 := by ring
    rw [this]
    exact div_le_div_of_nonneg_right hr (by norm_num)
  linarith

/-- the residual of a Julian date against the exact value is below 21 microseconds -/
theorem jd_error (c : Civil) (hv : ValidCivil c) :
    |jdOf c - ((dayCount c : Rat) + 17210135 / 10 + (secOfDay c : Rat) / 86400)| * 86400 < 21 / 1000000 := by
  obtain ⟨g, _, _, e, j⟩ := jd_decomp c hv
  obtain ⟨q32, q54, _⟩ := pow2_small
  rw [q32, q54] at e
  rw [j]
  have : (dayCount c : Rat) + 17210135 / 10 + g - ((dayCount c : Rat) + 17210135 / 10 + (secOfDay c : Rat) / 86400)
      = g - (secOfDay c : Rat) / 86400 := by ring
  rw [this]
  have : |g - (secOfDay c : Rat) / 86400| * 86400 ≤ (1 / 4294967296 + 1 / 18014398509481984) * 86400 :=
    mul_le_mul_of_nonneg_right e (by norm_num)
  have h2 : ((1 : Rat) / 4294967296 + 1 / 18014398509481984) * 86400 < 21 / 1000000 := by norm_num
  linarith


/-! ### requested durations -/

theorem jd_decomp_grid (c : Civil) (hv : ValidCivil c) :
    ∃ g : Rat, 0 ≤ g ∧ g < 1 ∧ onGrid (-31) g ∧ |g - (secOfDay c : Rat) / 86400| ≤ pow2 (-32) + pow2 (-54) ∧
      jdOf c = (dayCount c : Rat) + 17210135 / 10 + g := by
  obtain ⟨N1, N2⟩ := dayCount_bounds c hv
  obtain ⟨S0, S1⟩ := secOfDay_bounds c hv
  have hs := jd_structure c hv
  obtain ⟨g0, g1, gg, _, hdiff⟩ := jd_facts (dayCount c) (secOfDay c) N1 N2 S0 S1
  rw [← hs] at g0 g1 gg hdiff
  exact ⟨jdOf c - ((dayCount c : Rat) + 17210135 / 10), g0, g1, gg, hdiff, by ring⟩

theorem onGrid_mul16 (e : Int) (x : Rat) (hx : onGrid e x) : onGrid (e + 4) (x * 16) := by
  obtain ⟨m, rfl⟩ := hx
  refine ⟨m, ?_⟩
  rw [pow2_add]
  have : pow2 4 = 16 := by have := pow2_nat 4; simp only [Nat.cast_ofNat] at this; rw [this]; norm_num
  rw [this]; ring

/-- **scenario time between two instants is exact to 41 microseconds**: `convertToScenarioTime` of the Julian dates of two
whole-second instants at most 10⁸ s apart is their civil distance plus an error below half a second (in fact 4.1e-5 s),
with no further rounding in the subtraction and the two multiplications -/
theorem scenario_time_exact (c0 c1 : Civil) (h0 : ValidCivil c0) (h1 : ValidCivil c1)
    (hD0 : 0 ≤ civilToSeconds c1 - civilToSeconds c0) (hD1 : civilToSeconds c1 - civilToSeconds c0 ≤ 100000000) :
    ∃ η : Rat, |η| < 1 / 2 ∧ toScenario (jdOf c1) (jdOf c0) = ((civilToSeconds c1 - civilToSeconds c0 : Int) : Rat) + η ∧
      rn (toScenario (jdOf c1) (jdOf c0)) = toScenario (jdOf c1) (jdOf c0) := by
  obtain ⟨ga, a0, a1, gga, ea, ja⟩ := jd_decomp_grid c0 h0
  obtain ⟨gb, b0, b1, ggb, eb, jb⟩ := jd_decomp_grid c1 h1
  have hc0 := civilToSeconds_eq c0 h0
  have hc1 := civilToSeconds_eq c1 h1
  rw [hc0, hc1] at hD0 hD1
  obtain ⟨S00, S01⟩ := secOfDay_bounds c0 h0
  obtain ⟨S10, S11⟩ := secOfDay_bounds c1 h1
  have hNd0 : -1 ≤ dayCount c1 - dayCount c0 := by omega
  have hNd1 : dayCount c1 - dayCount c0 ≤ 1158 := by omega
  have hNr0 : (-1 : Rat) ≤ ((dayCount c1 - dayCount c0 : Int) : Rat) := by exact_mod_cast hNd0
  have hNr1 : ((dayCount c1 - dayCount c0 : Int) : Rat) ≤ 1158 := by exact_mod_cast hNd1
  -- the difference of the Julian dates, exact
  have hdiff : fsub (jdOf c1) (jdOf c0) = ((dayCount c1 - dayCount c0 : Int) : Rat) + (gb - ga) := by
    simp only [fsub]; rw [ja, jb]
    have e : (dayCount c1 : Rat) + 17210135 / 10 + gb - ((dayCount c0 : Rat) + 17210135 / 10 + ga)
        = ((dayCount c1 - dayCount c0 : Int) : Rat) + (gb - ga) := by push_cast; ring
    rw [e]
    apply rn_grid31
    · exact onGrid_add (onGrid_intCast _ _ (by norm_num)) (onGrid_sub ggb gga)
    · exact abs_lt_of_bounds (lo := -2) (hi := 1159) (by linarith) (by linarith) (by norm_num) (by norm_num)
  set x := ((dayCount c1 - dayCount c0 : Int) : Rat) + (gb - ga) with hx
  have gx : onGrid (-31) x := onGrid_add (onGrid_intCast _ _ (by norm_num)) (onGrid_sub ggb gga)
  have xb0 : -2 ≤ x := by rw [hx]; linarith
  have xb1 : x ≤ 1159 := by rw [hx]; linarith
  have g24 : onGrid (-28) (x * 24) := by
    have := onGrid_mul_int (onGrid_mul8 (-31) _ gx) 3
    have e' : x * 24 = x * 8 * ((3 : Int) : Rat) := by push_cast; ring
    rw [e']; simpa using this
  have p25 : pow2 (-28 + 53) = 33554432 := by
    have := pow2_nat 25; simp only [Nat.cast_ofNat] at this; norm_num; rw [this]; norm_num
  have h24 : fmul x 24 = x * 24 := by
    simp only [fmul]
    apply rn_grid _ (-28) g24
    rw [p25]
    exact abs_lt_of_bounds (lo := -48) (hi := 27816) (by linarith) (by linarith) (by norm_num) (by norm_num)
  have g3600 : onGrid (-24) (x * 24 * 3600) := by
    have := onGrid_mul_int (onGrid_mul16 (-28) _ g24) 225
    have e' : x * 24 * 3600 = x * 24 * 16 * ((225 : Int) : Rat) := by push_cast; ring
    rw [e']; simpa using this
  have p29 : pow2 (-24 + 53) = 536870912 := by
    have := pow2_nat 29; simp only [Nat.cast_ofNat] at this; norm_num; rw [this]; norm_num
  have hb3600 : |x * 24 * 3600| < pow2 (-24 + 53) := by
    rw [p29]
    exact abs_lt_of_bounds (lo := -172800) (hi := 100137600) (by linarith) (by linarith) (by norm_num) (by norm_num)
  have h3600 : fmul (x * 24) 3600 = x * 24 * 3600 := by
    simp only [fmul]; exact rn_grid _ (-24) g3600 hb3600
  have hts : toScenario (jdOf c1) (jdOf c0) = x * 24 * 3600 := by
    unfold toScenario; rw [hdiff, h24, h3600]
  obtain ⟨q32, q54, _⟩ := pow2_small
  rw [q32, q54] at ea eb
  refine ⟨86400 * ((gb - (secOfDay c1 : Rat) / 86400) - (ga - (secOfDay c0 : Rat) / 86400)), ?_, ?_, ?_⟩
  · have ha := abs_le.mp ea
    have hb := abs_le.mp eb
    rw [abs_lt]; constructor <;> linarith
  · rw [hts, hx, hc0, hc1]; push_cast; ring
  · rw [hts]; exact rn_grid _ (-24) g3600 hb3600

/-- **a timed run takes exactly `D / dt` steps**: with the repaired second rule, for a whole-second start in 1901-2099, a
requested duration `D` (a multiple of the step `dt`, at most 10⁸ s) whose end instant `target` is the civil instant
`D` seconds after the start -/
theorem timed_run_steps (start target : Civil) (D dt : Int) (hs : ValidCivil start) (ht : ValidCivil target)
    (hsd : start.d ≤ monthLenT ((start.y - 1900) % 4 == 0) start.mo)
    (hlabel : civilFromSeconds (civilToSeconds start + D) = target)
    (htsec : civilToSeconds target = civilToSeconds start + D)
    (hdt : 0 < dt) (hdt2 : dt ≤ 100000000) (hdiv : dt ∣ D) (hD : dt ≤ D) (hDmax : D ≤ 100000000) :
    runSteps .nearest start D dt = some (D / dt) := by
  unfold runSteps propagateSteps targetJD
  simp only
  rw [civil_roundtrip start hs hsd, hlabel]
  obtain ⟨η, hη, hts, hrep⟩ := scenario_time_exact start target hs ht (by omega) (by omega)
  have hDeq : civilToSeconds target - civilToSeconds start = D := by omega
  rw [hDeq] at hts
  have hsub0 : fsub (toScenario (jdOf target) (jdOf start)) 0 = (D : Rat) + η := by
    simp only [fsub, sub_zero]; rw [hrep, hts]
  rw [hsub0]
  have hround : fround ((D : Rat) + η) = D := by unfold fround; exact rheQ_int_add D η hη
  rw [hround]
  have hge : ((D : Int) : Rat) ≥ (dt : Rat) := by exact_mod_cast hD
  simp only [hge, if_true]
  obtain ⟨q, rfl⟩ := hdiv
  have hdt0 : (dt : Rat) ≠ 0 := by exact_mod_cast (ne_of_gt hdt)
  have hq : ((dt * q : Int) : Rat) / (dt : Rat) = (q : Rat) := by push_cast; field_simp
  have hqd : dt * q / dt = q := Int.mul_ediv_cancel_left q (ne_of_gt hdt)
  have hq0 : 0 ≤ q := by
    by_contra hn
    have : q ≤ -1 := by omega
    nlinarith
  have hq1 : q ≤ 100000000 := by nlinarith
  rw [hqd]
  simp only [fdiv, hq]
  rw [rn_intB q (by omega) (by omega)]
  unfold ftrunc
  have : (0 : Rat) ≤ (q : Rat) := by exact_mod_cast hq0
  simp only [this, if_true, floor_intCast]

end RV.Proofs.Time
