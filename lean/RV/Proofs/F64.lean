/-
Lemmas about the soft binary64 model `RV.F64` (helper file; property theorems live in RV/Props).
Everything later float proofs need is here, in four facts about `rn`:
  * `rn_exact`   — a value `m·2^j` with `|m| < 2^53` is returned unchanged ("this operation is exact"),
  * `rn_err`     — in the binade `[2^k, 2^(k+1))` the error is at most `2^(k-53)`,
  * `rn_grid`    — and the result is a multiple of `2^(k-52)`,
  * `rn_ge_of_onGrid` / `rn_le_of_onGrid` — rounding never crosses a value on the binade's grid.
-/
import RV.Num.F64
import Mathlib.Algebra.Order.Floor.Ring
import Mathlib.Data.Rat.Floor
import Mathlib.Algebra.Order.Field.Rat
import Mathlib.Algebra.Order.Field.Basic
import Mathlib.Algebra.Order.Field.Power
import Mathlib.Tactic.Linarith
import Mathlib.Tactic.Ring
import Mathlib.Tactic.FieldSimp
import Mathlib.Tactic.NormNum
import Mathlib.Tactic.Positivity
import Mathlib.Data.Nat.Log

namespace RV.Proofs.F64
open RV.F64

/-! ### powers of two -/

theorem pow2_eq_zpow (k : Int) : pow2 k = (2 : ℚ) ^ k := by
  unfold pow2
  split
  · rename_i h
    obtain ⟨n, rfl⟩ := Int.eq_ofNat_of_zero_le h
    simp
  · rename_i h
    have hk : k < 0 := not_le.mp h
    obtain ⟨n, hn⟩ := Int.exists_eq_neg_ofNat (le_of_lt hk)
    subst hn
    simp [zpow_neg]

theorem pow2_pos (k : Int) : 0 < pow2 k := by rw [pow2_eq_zpow]; positivity

theorem pow2_add (a b : Int) : pow2 (a + b) = pow2 a * pow2 b := by
  simp only [pow2_eq_zpow]; exact zpow_add₀ (by norm_num) a b

theorem pow2_succ (a : Int) : pow2 (a + 1) = 2 * pow2 a := by
  rw [pow2_add]; simp [pow2_eq_zpow]; ring

theorem pow2_mono {a b : Int} (h : a ≤ b) : pow2 a ≤ pow2 b := by
  simp only [pow2_eq_zpow]; exact zpow_le_zpow_right₀ (by norm_num) h

theorem pow2_lt {a b : Int} (h : a < b) : pow2 a < pow2 b := by
  simp only [pow2_eq_zpow]; exact zpow_lt_zpow_right₀ (by norm_num) h

theorem pow2_lt_iff {a b : Int} : pow2 a < pow2 b ↔ a < b := by
  constructor
  · intro h; by_contra hc; exact absurd (pow2_mono (not_lt.mp hc)) (not_le.mpr h)
  · exact pow2_lt

theorem pow2_nat_sub (a b : Nat) : pow2 ((a : Int) - (b : Int)) = (2 : ℚ) ^ a / (2 : ℚ) ^ b := by
  rw [pow2_eq_zpow, zpow_sub₀ (by norm_num : (2 : ℚ) ≠ 0), zpow_natCast, zpow_natCast]

/-! ### round half even to an integer -/

private theorem floor_eq (q : Rat) : (q.floor : Int) = ⌊q⌋ := rfl

theorem rheQ_err (q : Rat) : |(rheQ q : Rat) - q| ≤ 1 / 2 := by
  unfold rheQ
  simp only [floor_eq]
  have h1 : ((⌊q⌋ : Int) : Rat) ≤ q := Int.floor_le q
  have h2 : q < (⌊q⌋ : Int) + 1 := Int.lt_floor_add_one q
  rw [abs_le]
  by_cases ha : q - (⌊q⌋ : Int) < 1 / 2
  · simp only [ha, if_true]; constructor <;> linarith
  · by_cases hb : 1 / 2 < q - (⌊q⌋ : Int)
    · simp only [ha, hb, if_true, if_false]; push_cast; constructor <;> linarith
    · have : q - (⌊q⌋ : Int) = 1 / 2 := le_antisymm (not_lt.mp hb) (not_lt.mp ha)
      by_cases hc : ⌊q⌋ % 2 = 0
      · simp only [ha, hb, hc, if_true, if_false]; constructor <;> linarith
      · simp only [ha, hb, hc, if_false]; push_cast; constructor <;> linarith

theorem rheQ_int (n : Int) : rheQ (n : Rat) = n := by
  unfold rheQ
  simp only [floor_eq, Int.floor_intCast, sub_self]
  norm_num

theorem rheQ_mono {a b : Rat} (h : a ≤ b) : rheQ a ≤ rheQ b := by
  -- if ⌊a⌋ < ⌊b⌋ the results are separated by an integer; otherwise same floor, compare remainders
  have ha := rheQ_err a
  have hb := rheQ_err b
  rw [abs_le] at ha hb
  by_contra hc
  have hlt : rheQ b + 1 ≤ rheQ a := not_le.mp hc
  have hlt' : ((rheQ b : Int) : Rat) + 1 ≤ (rheQ a : Rat) := by exact_mod_cast hlt
  -- then rheQ a - rheQ b = 1 exactly, a = b + ... forces a tie on both sides with inconsistent parity
  have e1 : (rheQ a : Rat) - a ≤ 1 / 2 := ha.2
  have e2 : -(1 / 2) ≤ (rheQ b : Rat) - b := hb.1
  have hab : a = b := by linarith
  subst hab
  linarith

/-! ### rounding to a grid -/

/-- `x` is a multiple of `2^e` -/
def onGrid (e : Int) (x : Rat) : Prop := ∃ m : Int, x = m * pow2 e

theorem rnAt_onGrid (e : Int) (x : Rat) : onGrid e (rnAt e x) := ⟨rheQ (x / pow2 e), rfl⟩

theorem rnAt_err (e : Int) (x : Rat) : |rnAt e x - x| ≤ pow2 e / 2 := by
  have hp := pow2_pos e
  have := rheQ_err (x / pow2 e)
  unfold rnAt
  have e1 : (rheQ (x / pow2 e) : Rat) * pow2 e - x = ((rheQ (x / pow2 e) : Rat) - x / pow2 e) * pow2 e := by
    field_simp
  rw [e1, abs_mul, abs_of_pos hp]
  calc |(rheQ (x / pow2 e) : Rat) - x / pow2 e| * pow2 e ≤ 1 / 2 * pow2 e :=
        mul_le_mul_of_nonneg_right this (le_of_lt hp)
    _ = pow2 e / 2 := by ring

theorem rnAt_exact (e : Int) (x : Rat) (h : onGrid e x) : rnAt e x = x := by
  obtain ⟨m, rfl⟩ := h
  have hp := pow2_pos e
  unfold rnAt
  have : (m : Rat) * pow2 e / pow2 e = m := by field_simp
  rw [this, rheQ_int]

theorem rnAt_mono (e : Int) {x y : Rat} (h : x ≤ y) : rnAt e x ≤ rnAt e y := by
  have hp := pow2_pos e
  unfold rnAt
  have : x / pow2 e ≤ y / pow2 e := div_le_div_of_nonneg_right h (le_of_lt hp)
  have := rheQ_mono this
  have : (rheQ (x / pow2 e) : Rat) ≤ (rheQ (y / pow2 e) : Rat) := by exact_mod_cast this
  exact mul_le_mul_of_nonneg_right this (le_of_lt hp)

theorem onGrid_mono {e e' : Int} (h : e' ≤ e) {x : Rat} (hx : onGrid e x) : onGrid e' x := by
  obtain ⟨m, rfl⟩ := hx
  obtain ⟨n, hn⟩ := Int.eq_ofNat_of_zero_le (sub_nonneg.mpr h)
  refine ⟨m * 2 ^ n, ?_⟩
  have : pow2 e = pow2 (e - e') * pow2 e' := by rw [← pow2_add]; congr 1; ring
  rw [this, hn, pow2_eq_zpow (n : Int)]
  push_cast
  simp only [zpow_natCast]
  ring

theorem onGrid_add {e : Int} {x y : Rat} (hx : onGrid e x) (hy : onGrid e y) : onGrid e (x + y) := by
  obtain ⟨m, rfl⟩ := hx; obtain ⟨n, rfl⟩ := hy
  exact ⟨m + n, by push_cast; ring⟩

theorem onGrid_sub {e : Int} {x y : Rat} (hx : onGrid e x) (hy : onGrid e y) : onGrid e (x - y) := by
  obtain ⟨m, rfl⟩ := hx; obtain ⟨n, rfl⟩ := hy
  exact ⟨m - n, by push_cast; ring⟩

theorem onGrid_int (n : Int) : onGrid 0 (n : Rat) := ⟨n, by simp [pow2_eq_zpow]⟩

theorem onGrid_mul_int {e : Int} {x : Rat} (hx : onGrid e x) (n : Int) : onGrid e (x * n) := by
  obtain ⟨m, rfl⟩ := hx
  exact ⟨m * n, by push_cast; ring⟩

/-! ### the binade exponent -/

private theorem absQ_eq (x : Rat) : absQ x = |x| := by
  unfold absQ
  split
  · rename_i h; rw [abs_of_neg h]
  · rename_i h; rw [abs_of_nonneg (not_lt.mp h)]

private theorem natpow_le_log2 (n : Nat) (hn : n ≠ 0) : 2 ^ Nat.log2 n ≤ n ∧ n < 2 ^ (Nat.log2 n + 1) :=
  ⟨Nat.log2_self_le hn, Nat.lt_log2_self⟩

theorem expo_spec (x : Rat) (hx : x ≠ 0) : pow2 (expo x) ≤ |x| ∧ |x| < pow2 (expo x + 1) := by
  have ha : 0 < |x| := abs_pos.mpr hx
  unfold expo
  simp only [absQ_eq]
  set a := |x| with ha_def
  have hnum : 0 < a.num := Rat.num_pos.mpr ha
  have hnat : a.num.natAbs ≠ 0 := by
    intro h; have := Int.natAbs_eq_zero.mp h; omega
  have hden : a.den ≠ 0 := a.den_nz
  obtain ⟨n1, n2⟩ := natpow_le_log2 a.num.natAbs hnat
  obtain ⟨d1, d2⟩ := natpow_le_log2 a.den hden
  set ln := Nat.log2 a.num.natAbs
  set ld := Nat.log2 a.den
  have hnumQ : (a.num : ℚ) = (a.num.natAbs : ℚ) := by
    rw [← Int.cast_natCast, Int.natAbs_of_nonneg (le_of_lt hnum)]
  have haq : a = (a.num.natAbs : ℚ) / (a.den : ℚ) := by
    rw [← hnumQ]; exact (Rat.num_div_den a).symm
  have hdpos : (0 : ℚ) < a.den := by exact_mod_cast Nat.pos_of_ne_zero hden
  have n1q : ((2 : ℚ) ^ ln) ≤ (a.num.natAbs : ℚ) := by exact_mod_cast n1
  have n2q : (a.num.natAbs : ℚ) < (2 : ℚ) ^ (ln + 1) := by exact_mod_cast n2
  have d1q : ((2 : ℚ) ^ ld) ≤ (a.den : ℚ) := by exact_mod_cast d1
  have d2q : (a.den : ℚ) < (2 : ℚ) ^ (ld + 1) := by exact_mod_cast d2
  have p1 : pow2 ((ln : Int) - ld) = (2 : ℚ) ^ ln / (2 : ℚ) ^ ld := pow2_nat_sub ln ld
  have hlow : pow2 ((ln : Int) - ld - 1) < a := by
    have : pow2 ((ln : Int) - ld - 1) = (2 : ℚ) ^ ln / (2 : ℚ) ^ (ld + 1) := by
      have : ((ln : Int) - ld - 1) = (ln : Int) - ((ld + 1 : Nat) : Int) := by push_cast; ring
      rw [this, pow2_nat_sub]
    rw [this, haq, div_lt_div_iff₀ (by positivity) hdpos]
    calc (2 : ℚ) ^ ln * a.den < (2 : ℚ) ^ ln * (2 : ℚ) ^ (ld + 1) := by
          apply mul_lt_mul_of_pos_left d2q (by positivity)
      _ ≤ (a.num.natAbs : ℚ) * (2 : ℚ) ^ (ld + 1) := by
          apply mul_le_mul_of_nonneg_right n1q (by positivity)
  have hhigh : a < pow2 ((ln : Int) - ld + 1) := by
    have : pow2 ((ln : Int) - ld + 1) = (2 : ℚ) ^ (ln + 1) / (2 : ℚ) ^ ld := by
      have : ((ln : Int) - ld + 1) = ((ln + 1 : Nat) : Int) - (ld : Int) := by push_cast; ring
      rw [this, pow2_nat_sub]
    rw [this, haq, div_lt_div_iff₀ hdpos (by positivity)]
    calc (a.num.natAbs : ℚ) * (2 : ℚ) ^ ld < (2 : ℚ) ^ (ln + 1) * (2 : ℚ) ^ ld := by
          apply mul_lt_mul_of_pos_right n2q (by positivity)
      _ ≤ (2 : ℚ) ^ (ln + 1) * a.den := by
          apply mul_le_mul_of_nonneg_left d1q (by positivity)
  split
  · rename_i h; exact ⟨h, hhigh⟩
  · rename_i h
    refine ⟨le_of_lt hlow, ?_⟩
    have : (ln : Int) - ld - 1 + 1 = (ln : Int) - ld := by ring
    rw [this]; exact not_le.mp h

/-- the binade of a value is determined by its magnitude -/
theorem expo_unique (x : Rat) (k : Int) (h1 : pow2 k ≤ |x|) (h2 : |x| < pow2 (k + 1)) : expo x = k := by
  have hx : x ≠ 0 := by
    intro h; rw [h, abs_zero] at h1; exact absurd h1 (not_le.mpr (pow2_pos k))
  obtain ⟨s1, s2⟩ := expo_spec x hx
  have a1 : k < expo x + 1 := pow2_lt_iff.mp (lt_of_le_of_lt h1 s2)
  have a2 : expo x < k + 1 := pow2_lt_iff.mp (lt_of_le_of_lt s1 h2)
  omega

/-! ### binary64 rounding -/

theorem rn_zero : rn 0 = 0 := by simp [rn]

theorem rn_of_binade (x : Rat) (k : Int) (h1 : pow2 k ≤ |x|) (h2 : |x| < pow2 (k + 1)) :
    rn x = rnAt (k - 52) x := by
  have hx : x ≠ 0 := by
    intro h; rw [h, abs_zero] at h1; exact absurd h1 (not_le.mpr (pow2_pos k))
  simp only [rn, hx, if_false, expo_unique x k h1 h2]

/-- **exactness**: a value `m·2^j` with `|m| < 2^53` is representable, hence returned unchanged -/
theorem rn_exact (x : Rat) (j : Int) (m : Int) (hx : x = m * pow2 j) (hm : |(m : ℚ)| < pow2 53) : rn x = x := by
  by_cases h0 : x = 0
  · rw [h0, rn_zero]
  obtain ⟨s1, s2⟩ := expo_spec x h0
  rw [rn_of_binade x (expo x) s1 s2]
  apply rnAt_exact
  apply onGrid_mono _ ⟨m, hx⟩
  -- |x| < 2^(53+j) so expo x ≤ 52 + j
  have : |x| < pow2 (53 + j) := by
    rw [hx, abs_mul, abs_of_pos (pow2_pos j), pow2_add]
    exact mul_lt_mul_of_pos_right hm (pow2_pos j)
  have : expo x < 53 + j := pow2_lt_iff.mp (lt_of_le_of_lt s1 this)
  omega

theorem rn_int (n : Int) (h : |(n : ℚ)| < pow2 53) : rn (n : Rat) = n :=
  rn_exact n 0 n (by simp [pow2_eq_zpow]) h

/-- error bound and grid membership inside a binade -/
theorem rn_err (x : Rat) (k : Int) (h1 : pow2 k ≤ |x|) (h2 : |x| < pow2 (k + 1)) :
    |rn x - x| ≤ pow2 (k - 53) ∧ onGrid (k - 52) (rn x) := by
  rw [rn_of_binade x k h1 h2]
  refine ⟨?_, rnAt_onGrid _ _⟩
  have := rnAt_err (k - 52) x
  have e : pow2 (k - 52) / 2 = pow2 (k - 53) := by
    have : k - 52 = (k - 53) + 1 := by ring
    rw [this, pow2_succ]; ring
  rw [e] at this; exact this

/-- a coarser statement that does not need the exact binade: if `|x| < 2^(k+1)` the error is at
most `2^(k-53)` -/
theorem rn_err_le (x : Rat) (k : Int) (h2 : |x| < pow2 (k + 1)) : |rn x - x| ≤ pow2 (k - 53) := by
  by_cases h0 : x = 0
  · rw [h0, rn_zero]; simp [le_of_lt (pow2_pos _)]
  obtain ⟨s1, s2⟩ := expo_spec x h0
  have hk : expo x ≤ k := by
    have := pow2_lt_iff.mp (lt_of_le_of_lt s1 h2); omega
  exact le_trans (rn_err x (expo x) s1 s2).1 (pow2_mono (by omega))

/-- rounding cannot cross a value that is representable on the grid of the argument's binade -/
theorem rn_ge_of_onGrid (x a : Rat) (k : Int) (h1 : pow2 k ≤ |x|) (h2 : |x| < pow2 (k + 1))
    (ha : onGrid (k - 52) a) (hle : a ≤ x) : a ≤ rn x := by
  rw [rn_of_binade x k h1 h2, ← rnAt_exact (k - 52) a ha]
  exact rnAt_mono _ hle

theorem rn_le_of_onGrid (x a : Rat) (k : Int) (h1 : pow2 k ≤ |x|) (h2 : |x| < pow2 (k + 1))
    (ha : onGrid (k - 52) a) (hle : x ≤ a) : rn x ≤ a := by
  rw [rn_of_binade x k h1 h2, ← rnAt_exact (k - 52) a ha]
  exact rnAt_mono _ hle

end RV.Proofs.F64
