/-
`#audit_module M` prints, for every theorem declared in module `M`, one line
`AUDIT <name> :: <axioms separated by spaces>`.  The check counts these as the property's
obligations and rejects any axiom outside {propext, Classical.choice, Quot.sound}.
-/
import Lean
open Lean Elab Command

elab "#audit_module " modId:ident : command => do
  let env ← getEnv
  let modName := modId.getId
  let some idx := env.getModuleIdx? modName | throwError "unknown module {modName}"
  let names := env.header.moduleData[idx.toNat]!.constNames
  let mut lines : Array String := #[]
  for c in names do
    if c.isInternalDetail then continue
    if let some (ConstantInfo.thmInfo _) := env.find? c then
      let axs ← Lean.collectAxioms c
      let axs := (axs.map toString).qsort (· < ·)
      lines := lines.push s!"AUDIT {c} :: {" ".intercalate axs.toList}"
  for l in lines do
    IO.println l
  IO.println s!"AUDIT-COUNT {lines.size}"
