/-
3-vectors and 3×3 matrices over the rationals, as plain data (core Lean only).
-/
namespace RV

structure V3 where
  x : Rat
  y : Rat
  z : Rat
deriving Repr, DecidableEq

namespace V3
def dot (a b : V3) : Rat := a.x * b.x + a.y * b.y + a.z * b.z
def nsq (a : V3) : Rat := a.dot a
def add (a b : V3) : V3 := ⟨a.x + b.x, a.y + b.y, a.z + b.z⟩
def sub (a b : V3) : V3 := ⟨a.x - b.x, a.y - b.y, a.z - b.z⟩
def smul (c : Rat) (a : V3) : V3 := ⟨c * a.x, c * a.y, c * a.z⟩
def neg (a : V3) : V3 := ⟨-a.x, -a.y, -a.z⟩
def cross (a b : V3) : V3 := ⟨a.y * b.z - a.z * b.y, a.z * b.x - a.x * b.z, a.x * b.y - a.y * b.x⟩
def zero : V3 := ⟨0, 0, 0⟩
end V3

/-- a 3×3 matrix by rows -/
structure M3 where
  r1 : V3
  r2 : V3
  r3 : V3
deriving Repr, DecidableEq

namespace M3
def mulVec (m : M3) (v : V3) : V3 := ⟨m.r1.dot v, m.r2.dot v, m.r3.dot v⟩
def transpose (m : M3) : M3 :=
  ⟨⟨m.r1.x, m.r2.x, m.r3.x⟩, ⟨m.r1.y, m.r2.y, m.r3.y⟩, ⟨m.r1.z, m.r2.z, m.r3.z⟩⟩
def mul (a b : M3) : M3 :=
  let bt := b.transpose
  ⟨⟨a.r1.dot bt.r1, a.r1.dot bt.r2, a.r1.dot bt.r3⟩,
   ⟨a.r2.dot bt.r1, a.r2.dot bt.r2, a.r2.dot bt.r3⟩,
   ⟨a.r3.dot bt.r1, a.r3.dot bt.r2, a.r3.dot bt.r3⟩⟩
def one : M3 := ⟨⟨1, 0, 0⟩, ⟨0, 1, 0⟩, ⟨0, 0, 1⟩⟩
end M3

end RV
