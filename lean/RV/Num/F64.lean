/-
Software model of IEEE-754 binary64 arithmetic (round to nearest, ties to even) over exact
rationals, for the properties that are *about* rounding (C05, C01, C11).  A binary64 value is
represented by the rational it denotes; `rn` rounds an arbitrary rational to the nearest value with
a 53-bit significand.  The exponent range is not limited here: `inRange` says whether a value lies
in the normal range, and the driver answers `out-of-model` for anything that does not.
Core Lean only.
-/
namespace RV.F64

/-- `2^k` for an integer exponent -/
def pow2 (k : Int) : Rat := if 0 ≤ k then ((2 ^ k.toNat : Nat) : Rat) else 1 / ((2 ^ (-k).toNat : Nat) : Rat)

/-- round-half-even of the rational `q` to an integer -/
def rheQ (q : Rat) : Int :=
  let f := q.floor
  let r := q - (f : Rat)
  if r < 1 / 2 then f else if 1 / 2 < r then f + 1 else if f % 2 = 0 then f else f + 1

/-- round `x` to the nearest multiple of `2^e`, ties to the even multiple -/
def rnAt (e : Int) (x : Rat) : Rat := (rheQ (x / pow2 e) : Rat) * pow2 e

def absQ (x : Rat) : Rat := if x < 0 then -x else x

/-- the binade exponent of a non-zero rational: the `k` with `2^k ≤ |x| < 2^(k+1)` -/
def expo (x : Rat) : Int :=
  let a := absQ x
  let k0 : Int := (Nat.log2 a.num.natAbs : Int) - (Nat.log2 a.den : Int)
  if pow2 k0 ≤ a then k0 else k0 - 1

/-- binary64 round-to-nearest-even -/
def rn (x : Rat) : Rat := if x = 0 then 0 else rnAt (expo x - 52) x

/-- normal range of binary64 -/
def inRange (x : Rat) : Bool := x == 0 || (decide (-1022 ≤ expo x) && decide (expo x ≤ 1023))

def fadd (a b : Rat) : Rat := rn (a + b)
def fsub (a b : Rat) : Rat := rn (a - b)
def fmul (a b : Rat) : Rat := rn (a * b)
def fdiv (a b : Rat) : Rat := rn (a / b)
/-- `numpy.floor` of a float (exact) -/
def ffloor (a : Rat) : Rat := (a.floor : Rat)
/-- `numpy.around` / Python `round` of a float to an integer: half to even -/
def fround (a : Rat) : Int := rheQ a
/-- Python `int(x)`: truncation toward zero -/
def ftrunc (a : Rat) : Int := if 0 ≤ a then a.floor else -((-a).floor)
/-- conversion of an integer to a float (exact below 2^53) -/
def ofInt (n : Int) : Rat := rn (n : Rat)

end RV.F64
