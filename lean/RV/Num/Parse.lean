/-
Token-level parsing and printing for the line protocol between the Python harness and the
Lean model driver.  Numbers travel as exact rationals `p/q` (or plain integers), booleans as
`0`/`1`, lists and matrices as their dimensions followed by the entries.  Core Lean only.
-/
namespace RV

def parseRat (s : String) : Option Rat :=
  match s.splitOn "/" with
  | [n] => n.toInt?.map (fun i => (i : Rat))
  | [n, d] => do
      let n ← n.toInt?
      let d ← d.toNat?
      if d = 0 then none else some (mkRat n d)
  | _ => none

def showRat (q : Rat) : String :=
  if q.den = 1 then toString q.num else s!"{q.num}/{q.den}"

def showBool (b : Bool) : String := if b then "1" else "0"

def tokens (s : String) : List String :=
  (s.trimAscii.toString.splitOn " ").filter (· ≠ "")

/-- A parser over the remaining tokens of a line. -/
abbrev P := StateT (List String) Option

namespace P
def tok : P String := do
  match (← get) with
  | [] => failure
  | t :: ts => set ts; pure t

def rat : P Rat := do
  match parseRat (← tok) with
  | some q => pure q
  | none => failure

def int : P Int := do
  match (← tok).toInt? with
  | some q => pure q
  | none => failure

def nat : P Nat := do
  match (← tok).toNat? with
  | some q => pure q
  | none => failure

def bool : P Bool := do
  match (← tok) with
  | "0" => pure false
  | "1" => pure true
  | _ => failure

def rep {α} (p : P α) : Nat → P (List α)
  | 0 => pure []
  | n + 1 => do
      let a ← p
      let as ← rep p n
      pure (a :: as)

/-- `n x₁ … xₙ` -/
def list {α} (p : P α) : P (List α) := do
  let n ← nat
  rep p n

/-- `r c` followed by `r*c` entries, row major. -/
def mat {α} (p : P α) : P (List (List α)) := do
  let r ← nat
  let c ← nat
  rep (rep p c) r

def eol : P Unit := do
  match (← get) with
  | [] => pure ()
  | _ => failure

def run {α} (p : P α) (ts : List String) : Option α :=
  match (do let a ← p; eol; pure a : P α) ts with
  | some (a, _) => some a
  | none => none
end P

def showList {α} (f : α → String) (l : List α) : String :=
  " ".intercalate (toString l.length :: l.map f)

def showMat {α} (f : α → String) (m : List (List α)) : String :=
  let c := match m with | [] => 0 | r :: _ => r.length
  " ".intercalate (toString m.length :: toString c :: (m.flatMap id).map f)

end RV
