/-
Primitives the Python-to-Lean translator (`harness/py2lean.py`) maps library calls to.  Core Lean only.
`F`-typed Python values are the rationals they denote; `RV.F64` supplies the rounded operations.
-/
import RV.Num.F64
namespace RV.Py
open RV.F64

/-- Python `l[i]` on a list of ints (negative indices count from the end; out of range is 0 here - the translated
functions only index inside the list, which the bridge theorems establish where it matters) -/
def pyGet (l : List Int) (i : Int) : Int :=
  if 0 ≤ i then l.getD i.toNat 0 else l.getD (l.length - i.natAbs) 0
/-- Python `l[i] = v` -/
def pySet (l : List Int) (i : Int) (v : Int) : List Int :=
  if 0 ≤ i then l.set i.toNat v else l.set (l.length - i.natAbs) v
/-- `numpy.remainder` / `%` on ints (sign of the divisor; Lean's `Int.emod` agrees for a positive divisor, `fmod` for
a negative one is not needed by the translated sources) -/
def pyModInt (a b : Int) : Int := a % b
/-- truncation toward zero -/
def truncQ (q : Rat) : Int := if 0 ≤ q then q.floor else -((-q).floor)
/-- C `fmod(x, y)`: exact in binary64 (the result is always representable) -/
def pyFmod (x y : Rat) : Rat := x - y * (truncQ (x / y) : Rat)
/-- `numpy.remainder(x, y)` on floats: `x - y * floor(x / y)`; exact whenever `x` and the result have the same sign,
else one rounded addition - the rounding is applied by `rn`, which is the identity on representable values -/
def pyRemainder (x y : Rat) : Rat := x - y * ((x / y).floor : Rat)
def pyAbs (x : Rat) : Rat := if x < 0 then -x else x
def pySign (x : Rat) : Rat := if 0 < x then 1 else if x < 0 then -1 else 0

/-- `d.append(x)` on a `collections.deque(maxlen = w)` held oldest first: the oldest entries fall out -/
def dqAppend {α : Type} (w : Int) (l : List α) (x : α) : List α :=
  (l ++ [x]).drop ((l ++ [x]).length - w.toNat)

/-- a scheduled propagation event as the agent's queue holds it: an impulse (`time`) or an event with a duration
(`isBurn`: `ScheduledFiniteManeuver` / `ScheduledFiniteBurn`, with `start_time`, `end_time`); `id` distinguishes objects -/
structure Ev where
  id : Nat
  isBurn : Bool
  time : Rat
  start_time : Rat
  end_time : Rat
deriving Repr, DecidableEq

end RV.Py
