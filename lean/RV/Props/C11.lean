/-
C11 — ground facilities stay fixed at their configured geodetic location.

`Terrestrial` keeps the Earth-fixed position computed once at construction and, at scenario time
`t`, returns `ecef2eci(x_ecef, datetime_start + t)` where `datetime_start` is
`julianDateToDatetime(jd_start)`.  The property follows from three facts proved elsewhere:
the frame conversions are mutually inverse for orthogonal reduction matrices (C04), a point at rest
in the Earth-fixed frame has the Earth-rotation velocity (C04), and `julianDateToDatetime` returns
the start instant itself (C05) — so the epoch the site is evaluated at is `start + t`, not a second
earlier.
-/
import RV.Props.C04
import RV.Props.C05

namespace RV.Props.C11
open RV RV.Frames RV.Time

/-- the site as `Terrestrial.propagate` returns it, converted back to the Earth-fixed frame with
the reduction of the *same* instant: exactly the configured position, at rest. -/
theorem site_fixed (PNR RNP W Wt : M3) (om : Rat) (r : V3)
    (hP : RNP.mul PNR = M3.one) (hW : Wt.mul W = M3.one) :
    eci2ecef RNP W Wt om (ecef2eci PNR W om ⟨r, V3.zero⟩) = ⟨r, V3.zero⟩ :=
  RV.Props.C04.ecef_eci_inverse PNR RNP W Wt om ⟨r, V3.zero⟩ hP hW

/-- the Earth-fixed anchor computed at construction, `eci2ecef(lla2eci(cfg, start), start)`, is the
configured geodetic point `lla2ecef(cfg)` -/
theorem site_anchor (PNR RNP W Wt : M3) (om : Rat) (lla : V3)
    (hP : RNP.mul PNR = M3.one) (hW : Wt.mul W = M3.one) :
    (eci2ecef RNP W Wt om (ecef2eci PNR W om ⟨lla, V3.zero⟩)).r = lla := by
  rw [site_fixed PNR RNP W Wt om lla hP hW]

/-- its inertial velocity is the Earth-rotation velocity at that point: `PNR·(ω × W r)` -/
theorem site_velocity (PNR W : M3) (om : Rat) (r : V3) :
    (ecef2eci PNR W om ⟨r, V3.zero⟩).v = PNR.mulVec (V3.cross ⟨0, 0, om⟩ (W.mulVec r)) :=
  RV.Props.C04.fixed_site_velocity PNR W om r

/-- and the speed is `ω` times the distance from the rotation axis (of the polar-motion-corrected
position), because `PNR` is orthogonal -/
theorem site_speed (PNR W : M3) (om : Rat) (r : V3) (hP : PNR.transpose.mul PNR = M3.one) :
    (ecef2eci PNR W om ⟨r, V3.zero⟩).v.nsq
      = om * om * ((W.mulVec r).x * (W.mulVec r).x + (W.mulVec r).y * (W.mulVec r).y) := by
  rw [site_velocity]
  unfold V3.nsq
  rw [RV.Props.C04.orthogonal_preserves_dot PNR hP]
  simp only [V3.dot, V3.cross]; ring

/-- the civil second at which the site is evaluated at scenario time `t` -/
def siteEpoch (rule : SecondRule) (start : Civil) (t : Int) : Int := j2dSeconds rule (jdOf start) + t

/-- whenever the Julian-date round trip returns the start instant (C05), the site is evaluated at
`start + t` -/
theorem site_epoch_exact (start : Civil) (t : Int)
    (h : j2dSeconds .nearest (jdOf start) = civilToSeconds start) :
    siteEpoch .nearest start t = civilToSeconds start + t := by
  simp [siteEpoch, h]

/-- the hypothesis is discharged by C05 for every whole-second start of 1901-2099: **the site is evaluated at
`start + t`**, for all such starts and all `t` -/
theorem site_epoch_exact_valid (start : Civil) (t : Int) (h : RV.Props.C05.Valid start) :
    siteEpoch .nearest start t = civilToSeconds start + t :=
  site_epoch_exact start t (RV.Props.C05.civil_roundtrip start h)

/-- with the unrepaired `int(second)` rule a scenario starting at 2021-03-30T16:00:01 evaluated
its ground sites one second early for the whole run (≈ 460 m at the equator) -/
theorem site_epoch_truncate_early :
    siteEpoch .truncate ⟨2021, 3, 30, 16, 0, 1, 0⟩ 600 = civilToSeconds ⟨2021, 3, 30, 16, 0, 1, 0⟩ + 600 - 1 ∧
    siteEpoch .nearest ⟨2021, 3, 30, 16, 0, 1, 0⟩ 600 = civilToSeconds ⟨2021, 3, 30, 16, 0, 1, 0⟩ + 600 := by
  decide +kernel

end RV.Props.C11
