/-
C18 — multiple-model estimation keeps valid probabilities and a moment-matched output.
-/
import RV.Model.Mmae
import Mathlib.Algebra.BigOperators.Group.Finset.Basic
import Mathlib.Algebra.Order.BigOperators.Group.Finset
import Mathlib.Algebra.BigOperators.Field
import Mathlib.Algebra.Order.Field.Rat
import Mathlib.Algebra.Order.Field.Basic
import Mathlib.Algebra.Order.BigOperators.Group.List
import Mathlib.Tactic.Linarith
import Mathlib.Tactic.Ring
import Mathlib.Tactic.FieldSimp
import Mathlib.LinearAlgebra.Matrix.PosDef
import Mathlib.Data.Rat.Star

namespace RV.Props.C18
open RV.Mmae

/-- a valid probability vector on `0..n-1` -/
def validProb (n : Nat) (w : Nat → Rat) : Prop := (∀ i, i < n → 0 ≤ w i) ∧ rsum n w = 1

/-- the same for a list of weights -/
def validProbL (w : List Rat) : Prop := (∀ x ∈ w, 0 ≤ x) ∧ w.sum = 1

private theorem rsum_eq (n : Nat) (f : Nat → Rat) : rsum n f = ∑ i ∈ Finset.range n, f i := by
  unfold rsum
  induction n with
  | zero => simp
  | succ n ih => rw [List.range_succ, List.map_append, List.sum_append, ih, Finset.sum_range_succ]; simp

private theorem rsum_div (n : Nat) (f : Nat → Rat) (s : Rat) :
    rsum n (fun i => f i / s) = rsum n f / s := by
  rw [rsum_eq, rsum_eq, Finset.sum_div]

private theorem rsum_nonneg (n : Nat) (f : Nat → Rat) (h : ∀ i, i < n → 0 ≤ f i) : 0 ≤ rsum n f := by
  rw [rsum_eq]; exact Finset.sum_nonneg fun i hi => h i (Finset.mem_range.mp hi)

private theorem rsum_one (n : Nat) : rsum n (fun _ => (1 : Rat)) = n := by
  rw [rsum_eq]; simp

private theorem not_isZero {s : Rat} (h : isZero s = false) (hs : 0 ≤ s) : 0 < s := by
  simp only [isZero, rabs, decide_eq_false_iff_not, not_lt] at h
  rcases lt_or_eq_of_le hs with h' | h'
  · exact h'
  · subst h'; simp [eps] at h

/-- normalising a non-negative vector with positive sum gives a valid probability vector -/
private theorem normalised_valid (n : Nat) (f : Nat → Rat) (hf : ∀ i, i < n → 0 ≤ f i)
    (hs : 0 < rsum n f) : validProb n (fun i => f i / rsum n f) := by
  refine ⟨fun i hi => div_nonneg (hf i hi) (le_of_lt hs), ?_⟩
  rw [rsum_div]; exact div_self (ne_of_gt hs)

/-! ### SMM -/

/-- after every SMM update the model weights are non-negative and sum to one — also when all
likelihoods underflow to zero (the reset branch). -/
theorem smm_weights_valid (n : Nat) (hn : 0 < n) (w L : Nat → Rat)
    (hw : ∀ i, i < n → 0 ≤ w i) (hL : ∀ i, i < n → 0 ≤ L i) :
    validProb n (smmUpdate n w L) := by
  unfold smmUpdate
  simp only
  cases hz : isZero (rsum n fun i => w i * L i) with
  | true =>
    simp only [if_true]
    apply normalised_valid n (fun _ => 1) (fun _ _ => by norm_num)
    rw [rsum_one]; exact_mod_cast hn
  | false =>
    simp only [Bool.false_eq_true, if_false]
    apply normalised_valid n _ (fun i hi => mul_nonneg (hw i hi) (hL i hi))
    exact not_isZero hz (rsum_nonneg n _ fun i hi => mul_nonneg (hw i hi) (hL i hi))

/-- Bayes' rule: prior times likelihood, renormalised (whenever the evidence has not underflowed) -/
theorem smm_bayes_rule (n : Nat) (w L : Nat → Rat) (i : Nat)
    (hz : isZero (rsum n fun i => w i * L i) = false) :
    smmUpdate n w L i = w i * L i / rsum n fun j => w j * L j := by
  simp [smmUpdate, hz]

/-! ### GPB1 -/

theorem gpb1_weights_valid (n : Nat) (hn : 0 < n) (μ L : Nat → Rat)
    (hμ : validProb n μ) (hL : ∀ i, i < n → 0 ≤ L i) :
    validProb n (gpb1Weights n μ L) := by
  unfold gpb1Weights
  simp only
  cases hz : isZero (rsum n fun i => L i * μ i) with
  | true =>
    simp only [if_true, one_mul]
    apply normalised_valid n μ hμ.1
    rw [hμ.2]; norm_num
  | false =>
    simp only [Bool.false_eq_true, if_false]
    apply normalised_valid n _ (fun i hi => mul_nonneg (hL i hi) (hμ.1 i hi))
    exact not_isZero hz (rsum_nonneg n _ fun i hi => mul_nonneg (hL i hi) (hμ.1 i hi))

theorem gpb1_bayes_rule (n : Nat) (μ L : Nat → Rat) (i : Nat)
    (hz : isZero (rsum n fun i => L i * μ i) = false) :
    gpb1Weights n μ L i = L i * μ i / rsum n fun j => L j * μ j := by
  simp [gpb1Weights, hz]

/-- every column of the mixing matrix sums to one -/
theorem mix_columns_sum_one (n : Nat) (r : Rat) (j : Nat) (hj : j < n)
    (hne : (n : Rat) - 1 + r ≠ 0) : rsum n (fun i => mixEntry n r i j) = 1 := by
  rw [rsum_eq]
  simp only [mixEntry]
  have : ∀ i, (if i = j then r * (1 / ((n : Rat) - 1 + r)) else 1 / ((n : Rat) - 1 + r))
      = 1 / ((n : Rat) - 1 + r) + (if i = j then (r - 1) * (1 / ((n : Rat) - 1 + r)) else 0) := by
    intro i; split <;> ring
  simp only [this, Finset.sum_add_distrib, Finset.sum_const, Finset.card_range,
    Finset.sum_ite_eq', Finset.mem_range, hj, if_true, nsmul_eq_mul]
  field_simp
  ring

/-- the mode probabilities produced by mixing are again a valid probability vector -/
theorem gpb1_modes_valid (n : Nat) (hn : 0 < n) (r : Rat) (hr : 0 < r) (w : Nat → Rat)
    (hw : validProb n w) : validProb n (gpb1Modes n r w) := by
  have hpos : (0 : Rat) < (n : Rat) - 1 + r := by
    have : (1 : Rat) ≤ n := by exact_mod_cast hn
    linarith
  constructor
  · intro i _
    apply rsum_nonneg
    intro j hj
    apply mul_nonneg _ (hw.1 j hj)
    simp only [mixEntry]
    split
    · exact mul_nonneg (le_of_lt hr) (le_of_lt (one_div_pos.mpr hpos))
    · exact le_of_lt (one_div_pos.mpr hpos)
  · unfold gpb1Modes
    rw [rsum_eq]
    simp only [rsum_eq]
    rw [Finset.sum_comm]
    have : ∀ j ∈ Finset.range n, ∑ i ∈ Finset.range n, mixEntry n r i j * w j = w j := by
      intro j hj
      rw [← Finset.sum_mul, ← rsum_eq, mix_columns_sum_one n r j (Finset.mem_range.mp hj) (ne_of_gt hpos),
        one_mul]
    rw [Finset.sum_congr rfl this, ← rsum_eq]
    exact hw.2

/-! ### pruning -/

private theorem wAt_mem (w : List Rat) (i : Nat) (hi : i < w.length) : wAt w i ∈ w := by
  simp only [wAt, List.getD_eq_getElem?_getD, List.getElem?_eq_getElem hi, Option.getD_some]
  exact List.getElem_mem hi

private theorem argmaxL_lt (w : List Rat) (hw : w ≠ []) : argmaxL w < w.length := by
  have hl : 0 < w.length := List.length_pos_iff.mpr hw
  have : ∀ (f : Nat → Rat) (n : Nat), RV.Decisions.argmaxFirst f n ≤ n := by
    intro f n
    induction n with
    | zero => simp [RV.Decisions.argmaxFirst]
    | succ n ih => simp only [RV.Decisions.argmaxFirst]; split <;> omega
  have := this (wAt w) (w.length - 1)
  unfold argmaxL; omega

private theorem argmaxL_max (w : List Rat) : ∀ i, i < w.length → wAt w i ≤ wAt w (argmaxL w) := by
  have key : ∀ (f : Nat → Rat) (n : Nat), ∀ i, i ≤ n → f i ≤ f (RV.Decisions.argmaxFirst f n) := by
    intro f n
    induction n with
    | zero => intro i hi; have : i = 0 := by omega
              subst this; simp [RV.Decisions.argmaxFirst]
    | succ n ih =>
      intro i hi
      simp only [RV.Decisions.argmaxFirst]
      split
      · rename_i hlt
        rcases Nat.lt_or_ge i (n+1) with h | h
        · exact le_of_lt (lt_of_le_of_lt (ih i (by omega)) hlt)
        · have : i = n+1 := by omega
          subst this; exact le_refl _
      · rename_i hnl
        rcases Nat.lt_or_ge i (n+1) with h | h
        · exact ih i (by omega)
        · have : i = n+1 := by omega
          subst this; exact not_lt.mp hnl
  intro i hi
  exact key (wAt w) (w.length - 1) i (by omega)

/-- the most likely model of a valid probability vector has positive probability -/
private theorem argmax_pos (w : List Rat) (hw : validProbL w) : 0 < wAt w (argmaxL w) := by
  by_contra hle
  have hle := not_lt.mp hle
  have hall : ∀ x ∈ w, x ≤ 0 := by
    intro x hx
    obtain ⟨i, hi, rfl⟩ := List.getElem_of_mem hx
    have := argmaxL_max w i hi
    have e : wAt w i = w[i] := by
      simp [wAt, List.getD_eq_getElem?_getD, List.getElem?_eq_getElem hi]
    linarith
  have hneg : ∀ x ∈ w.map (fun x => -x), 0 ≤ x := by
    intro x hx
    obtain ⟨y, hy, rfl⟩ := List.mem_map.mp hx
    linarith [hall y hy]
  have h0 := List.sum_nonneg hneg
  have hs : ∀ l : List Rat, (l.map (fun x => -x)).sum = - l.sum := by
    intro l
    induction l with
    | nil => simp
    | cons a l ih => simp only [List.map_cons, List.sum_cons, ih]; ring
  have hs := hs w
  rw [hs, hw.2] at h0; norm_num at h0

/-- a survivor with positive weight always exists: a model at or above the threshold if there is
one, the most likely model otherwise. -/
theorem prune_survivor (thr : Rat) (hthr : 0 < thr) (w : List Rat) (hw : validProbL w) :
    ∃ i ∈ keepIdx thr w, 0 < wAt w i := by
  have hne : w ≠ [] := by
    intro h; have := hw.2; rw [h] at this; simp at this
  unfold keepIdx
  simp only
  split
  · -- everything below threshold: the most likely model is kept
    refine ⟨argmaxL w, ?_, argmax_pos w hw⟩
    simp only [List.mem_filter, List.mem_range, Bool.not_eq_true', List.contains_eq_mem,
      decide_eq_false_iff_not, not_and, bne_iff_ne, ne_eq, not_not]
    refine ⟨argmaxL_lt w hne, ?_⟩
    simp
  · -- some model is not on the prune list
    rename_i hlt
    have hlt := not_le.mp hlt
    have hx : ∃ i ∈ List.range w.length, ¬ (decide (wAt w i < thr) = true) := by
      by_contra hall
      push Not at hall
      have : (pruneIdx thr w).length = (List.range w.length).length := by
        unfold pruneIdx
        rw [List.length_filter_eq_length_iff]
        exact hall
      rw [List.length_range] at this
      omega
    obtain ⟨i, hi, hnot⟩ := hx
    have hge : thr ≤ wAt w i := by simpa using hnot
    refine ⟨i, ?_, lt_of_lt_of_le hthr hge⟩
    simp only [List.mem_filter, hi, true_and, Bool.not_eq_true', List.contains_eq_mem,
      decide_eq_false_iff_not]
    intro hmem
    unfold pruneIdx at hmem
    simp only [List.mem_filter] at hmem
    exact hnot hmem.2

/-- at least one model always remains -/
theorem prune_keeps_one (thr : Rat) (hthr : 0 < thr) (w : List Rat) (hw : validProbL w) :
    prune thr w ≠ [] := by
  obtain ⟨i, hi, _⟩ := prune_survivor thr hthr w hw
  unfold prune
  simp only [ne_eq, List.map_eq_nil_iff]
  intro h; rw [h] at hi; simp at hi

/-- after pruning the weights are again non-negative and sum to one — in particular when every
model is below the threshold and model 0 has weight zero (the input on which the unrepaired code
produced NaN). -/
theorem prune_weights_valid (thr : Rat) (hthr : 0 < thr) (w : List Rat) (hw : validProbL w) :
    validProbL (prune thr w) := by
  obtain ⟨i, hi, hpos⟩ := prune_survivor thr hthr w hw
  have hnn : ∀ x ∈ (keepIdx thr w).map (wAt w), 0 ≤ x := by
    intro x hx
    obtain ⟨j, hj, rfl⟩ := List.mem_map.mp hx
    have hjl : j < w.length := by
      unfold keepIdx at hj
      simp only [List.mem_filter, List.mem_range] at hj
      exact hj.1
    exact hw.1 _ (wAt_mem w j hjl)
  have hsum : 0 < ((keepIdx thr w).map (wAt w)).sum := by
    have hm : wAt w i ∈ (keepIdx thr w).map (wAt w) := List.mem_map.mpr ⟨i, hi, rfl⟩
    exact lt_of_lt_of_le hpos (List.single_le_sum hnn _ hm)
  unfold prune
  simp only
  constructor
  · intro x hx
    obtain ⟨y, hy, rfl⟩ := List.mem_map.mp hx
    exact div_nonneg (hnn y hy) (le_of_lt hsum)
  · have : ∀ (l : List Rat) (s : Rat), (l.map (· / s)).sum = l.sum / s := by
      intro l s
      induction l with
      | nil => simp
      | cons a l ih => simp only [List.map_cons, List.sum_cons, ih]; ring
    rw [this]; exact div_self (ne_of_gt hsum)

/-- when some model reaches the threshold, exactly the models below it are pruned -/
theorem prune_exact (thr : Rat) (w : List Rat) (h : (pruneIdx thr w).length < w.length) (i : Nat) :
    i ∈ keepIdx thr w ↔ i < w.length ∧ thr ≤ wAt w i := by
  unfold keepIdx
  simp only [not_le.mpr h, if_false, List.mem_filter, List.mem_range, Bool.not_eq_true',
    List.contains_eq_mem, decide_eq_false_iff_not]
  unfold pruneIdx
  simp only [List.mem_filter, List.mem_range, decide_eq_true_eq, not_and, not_lt]
  constructor
  · rintro ⟨hi, h2⟩; exact ⟨hi, h2 hi⟩
  · rintro ⟨hi, h2⟩; exact ⟨hi, fun _ => h2⟩

/-- **closure**: whenever an SMM step closes adaptive estimation, exactly one model remains — the
filter handed back is a single surviving model, never a blend. -/
theorem smm_close_single (thr pct B : Rat) (w L nis : List Rat)
    (h : (smmStep thr pct B w L nis).closed = true) :
    (smmStep thr pct B w L nis).kept.length = 1 := by
  unfold smmStep at h ⊢
  simp only at h ⊢
  split
  · rename_i h1; exact h1
  · rename_i h1
    simp only [h1, if_false] at h
    split
    · rename_i h2
      have e : ∀ w2 : List Rat, convKeep pct w2 = convIdx pct w2 := by
        intro w2
        unfold convKeep convIdx
        apply List.filter_congr
        intro i _
        by_cases hc : pct ≤ wAt w2 i
        · simp [hc, not_lt.mpr hc]
        · simp [hc, not_le.mp hc]
      simp only [List.length_map, e]
      exact h2.1
    · rename_i h2
      simp only [h2, if_false] at h
      exact absurd h (by simp)

/-! ### combined estimate: probability-weighted mean and moment-matched covariance -/

open Matrix in
/-- the mixture covariance `Σ wᵢ (Pᵢ + (xᵢ - x̄)(xᵢ - x̄)ᵀ)` is symmetric positive semi-definite
for non-negative weights and positive semi-definite model covariances, whatever `x̄` is. -/
theorem mixture_cov_psd {n d : Nat} (w : Fin n → ℚ) (hw : ∀ i, 0 ≤ w i)
    (x : Fin n → Fin d → ℚ) (xbar : Fin d → ℚ) (P : Fin n → Matrix (Fin d) (Fin d) ℚ)
    (hP : ∀ i, (P i).PosSemidef) :
    (∑ i, w i • (P i + vecMulVec (x i - xbar) (x i - xbar))).PosSemidef := by
  apply Matrix.posSemidef_sum
  intro i _
  apply Matrix.PosSemidef.smul _ (hw i)
  apply Matrix.PosSemidef.add (hP i)
  have := Matrix.posSemidef_vecMulVec_self_star (x i - xbar)
  simpa using this

open Matrix in
theorem mixture_cov_symm {n d : Nat} (w : Fin n → ℚ) (hw : ∀ i, 0 ≤ w i)
    (x : Fin n → Fin d → ℚ) (xbar : Fin d → ℚ) (P : Fin n → Matrix (Fin d) (Fin d) ℚ)
    (hP : ∀ i, (P i).PosSemidef) :
    (∑ i, w i • (P i + vecMulVec (x i - xbar) (x i - xbar)))ᵀ
      = ∑ i, w i • (P i + vecMulVec (x i - xbar) (x i - xbar)) := by
  have h := (mixture_cov_psd w hw x xbar P hP).1
  have : (∑ i, w i • (P i + vecMulVec (x i - xbar) (x i - xbar)))ᴴ
      = (∑ i, w i • (P i + vecMulVec (x i - xbar) (x i - xbar)))ᵀ := by
    ext i j; simp [Matrix.conjTranspose_apply]
  rw [← this]; exact h

open Matrix in
/-- hand-back: with a single surviving model (weight one) the combined estimate and covariance are
that model's own. -/
theorem handback_is_survivor {d : Nat} (x : Fin d → ℚ) (P : Matrix (Fin d) (Fin d) ℚ) :
    (∑ _i : Fin 1, (1 : ℚ) • x) = x ∧
    (∑ _i : Fin 1, (1 : ℚ) • (P + vecMulVec (x - x) (x - x))) = P := by
  constructor
  · simp
  · simp only [sub_self, Finset.univ_unique, Finset.sum_const, Finset.card_singleton, one_smul]
    ext i j; simp [vecMulVec]

/-! ### non-vacuity -/
example : validProbL [0, 1/2, 1/2] := by
  refine ⟨?_, by norm_num⟩
  intro x hx; simp at hx; rcases hx with rfl | rfl | rfl <;> norm_num
/-- the input that broke the unrepaired code (scaled down): every weight below the threshold and
model 0 at exactly zero — the most likely model survives with weight one. -/
example : prune (3/5) [0, 1/2, 1/2] = [1] := by decide +kernel
example : prune (1/5) [1/10, 1/2, 2/5] = [5/9, 4/9] := by decide +kernel
/-- the executable list model of the stacked estimate on a one-model input -/
example : mixMean 2 [1] [[1, 2]] = [1, 2] ∧ mixCov 2 [1] [[1, 2]] [[[2, 1], [1, 3]]] = [[2, 1], [1, 3]] := by
  decide +kernel

end RV.Props.C18
