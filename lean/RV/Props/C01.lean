/-
C01 — every scheduled event takes effect exactly once, at its configured time.
-/
import RV.Model.Events
import RV.Generated.Constants
import Mathlib.Algebra.Order.Field.Rat
import Mathlib.Tactic.Linarith
import Mathlib.Tactic.Ring
import Mathlib.Tactic.NormNum
import RV.Props.C05

namespace RV.Props.C01
open RV.Events

/-- `jd` is strictly increasing on the civil seconds `lo..hi` (C05: `jd_strict_mono`) -/
def MonoOn (jd : Int → Rat) (lo hi : Int) : Prop :=
  ∀ a b, lo ≤ a → b ≤ hi → a < b → jd a < jd b

private theorem mono_le_iff {jd : Int → Rat} {lo hi : Int} (h : MonoOn jd lo hi) {a b : Int}
    (ha : lo ≤ a) (ha' : a ≤ hi) (hb : lo ≤ b) (hb' : b ≤ hi) : jd a ≤ jd b ↔ a ≤ b := by
  constructor
  · intro hle; by_contra hc
    exact absurd (h b a hb ha' (not_le.mp hc)) (not_lt.mpr hle)
  · intro hle
    rcases lt_or_eq_of_le hle with hlt | rfl
    · exact le_of_lt (h a b ha hb' hlt)
    · exact le_refl _

private theorem mono_lt_iff {jd : Int → Rat} {lo hi : Int} (h : MonoOn jd lo hi) {a b : Int}
    (ha : lo ≤ a) (ha' : a ≤ hi) (hb : lo ≤ b) (hb' : b ≤ hi) : jd a < jd b ↔ a < b := by
  constructor
  · intro hlt; by_contra hc
    have := (mono_le_iff h hb hb' ha ha').mpr (not_lt.mp hc)
    exact absurd hlt (not_lt.mpr this)
  · exact h a b ha hb'

/-- **the monotonicity hypothesis holds for the real Julian-date function** (C05): for any labelling `civ` of the civil
time line by valid whole-second instants (what `datetime + timedelta` produces), `t ↦ datetimeToJulianDate (civ t)` is
strictly increasing, so the theorems below apply to the implementation's `jd` and not merely to an ideal one -/
theorem jd_monoOn_of_civil (civ : Int → RV.Time.Civil) (lo hi : Int)
    (h : ∀ t, lo ≤ t → t ≤ hi → RV.Proofs.Time.ValidCivil (civ t) ∧ RV.Time.civilToSeconds (civ t) = t) :
    MonoOn (fun t => RV.Time.jdOf (civ t)) lo hi := by
  intro a b ha hb hab
  obtain ⟨va, sa⟩ := h a ha (by omega)
  obtain ⟨vb, sb⟩ := h b (by omega) hb
  exact RV.Props.C05.jd_strict_mono (civ a) (civ b) va vb (by rw [sa, sb]; exact hab)

/-! ### the step windows tile the time axis -/

/-- consecutive windows share their boundary bit for bit: the upper bound of step `k` *is* the
lower bound of step `k+1` (same function, same argument) -/
theorem windows_tile (jd : Int → Rat) (s2d : Rat) (start dt : Int) (k : Nat) :
    (stepWindow .datetimeBased jd s2d start dt (k + 1)).1 = (stepWindow .datetimeBased jd s2d start dt k).2 := by
  simp only [stepWindow]; congr 1; push_cast; ring

/-- an event is relevant in step `k` exactly when its interval `[startSec, endSec]` meets the
step's interval `(start + (k-1)dt, start + k dt]` — in civil seconds, independent of rounding. -/
theorem relevant_iff (jd : Int → Rat) (s2d : Rat) (lo hi start dt : Int) (k : Nat)
    (hmono : MonoOn jd lo hi) (scope : Scope) (inst : Option Int) (e : EventRow)
    (h1 : lo ≤ start + ((k : Int) - 1) * dt) (h2 : start + (k : Int) * dt ≤ hi)
    (h1' : start + ((k : Int) - 1) * dt ≤ hi) (h2' : lo ≤ start + (k : Int) * dt)
    (hs : lo ≤ e.startSec ∧ e.startSec ≤ hi) (he : lo ≤ e.endSec ∧ e.endSec ≤ hi) :
    relevant true jd scope (stepWindow .datetimeBased jd s2d start dt k).1
        (stepWindow .datetimeBased jd s2d start dt k).2 inst e = true ↔
      (e.scope = scope ∧ e.startSec ≤ start + (k : Int) * dt ∧ start + ((k : Int) - 1) * dt < e.endSec
        ∧ (∀ i, inst = some i → e.instanceId = i)) := by
  have e1 := mono_le_iff hmono hs.1 hs.2 h2' h2
  have e2 := mono_lt_iff hmono h1 h1' he.1 he.2
  cases inst with
  | none => simp [relevant, stepWindow, e1, e2, and_assoc]
  | some i => simp [relevant, stepWindow, e1, e2, and_assoc]

/-- **exactly one step** for an instantaneous event: at most one step is relevant … -/
theorem instant_event_unique (start dt τ : Int) (hdt : 0 < dt) (k k' : Int)
    (hk : τ ≤ start + k * dt ∧ start + (k - 1) * dt < τ)
    (hk' : τ ≤ start + k' * dt ∧ start + (k' - 1) * dt < τ) : k = k' := by
  by_contra hne
  rcases lt_or_gt_of_ne hne with h | h
  · have : k * dt ≤ (k' - 1) * dt := mul_le_mul_of_nonneg_right (by omega) (le_of_lt hdt)
    linarith [hk.1, hk'.2]
  · have : k' * dt ≤ (k - 1) * dt := mul_le_mul_of_nonneg_right (by omega) (le_of_lt hdt)
    linarith [hk'.1, hk.2]

/-- … and the step `⌈(τ - start)/dt⌉` is: the one whose interval `(previous epoch, new epoch]`
contains `τ`, also when `τ` coincides with a step boundary. -/
theorem instant_event_exists (start dt τ : Int) (hdt : 0 < dt) (hτ : start < τ) :
    let k := (τ - start - 1) / dt + 1
    1 ≤ k ∧ τ ≤ start + k * dt ∧ start + (k - 1) * dt < τ := by
  intro k
  have hx : 0 ≤ τ - start - 1 := by omega
  have h1 := Int.ediv_mul_le (τ - start - 1) (ne_of_gt hdt)
  have h2 := Int.lt_ediv_add_one_mul_self (τ - start - 1) hdt
  have h0 : 0 ≤ (τ - start - 1) / dt := Int.ediv_nonneg hx (le_of_lt hdt)
  refine ⟨by omega, ?_, ?_⟩
  · have : ((τ - start - 1) / dt + 1) * dt = (τ - start - 1) / dt * dt + dt := by ring
    show τ ≤ start + ((τ - start - 1) / dt + 1) * dt
    linarith
  · show start + ((τ - start - 1) / dt + 1 - 1) * dt < τ
    have : ((τ - start - 1) / dt + 1 - 1) * dt = (τ - start - 1) / dt * dt := by ring
    linarith

/-- events with a duration are active in exactly the steps their interval overlaps -/
theorem interval_overlap_iff (a b lo' hi' : Int) (hab : a ≤ b) (hw : lo' < hi') :
    (a ≤ hi' ∧ lo' < b) ↔ ∃ x, a ≤ x ∧ x ≤ b ∧ lo' < x ∧ x ≤ hi' := by
  constructor
  · rintro ⟨h1, h2⟩
    refine ⟨min b hi', ?_, min_le_left _ _, ?_, min_le_right _ _⟩
    · exact le_min hab h1
    · rcases le_total b hi' with h | h
      · rw [min_eq_left h]; exact h2
      · rw [min_eq_right h]; omega
  · rintro ⟨x, h1, h2, h3, h4⟩; constructor <;> omega

/-- … and only for the engine or sensor they name -/
theorem instance_filter (jd : Int → Rat) (scope : Scope) (lb ub : Rat) (i : Int) (e : EventRow)
    (h : relevant true jd scope lb ub (some i) e = true) : e.instanceId = i := by
  simp only [relevant, Bool.and_eq_true, decide_eq_true_eq, if_true] at h
  exact h.2

/-- the unrepaired query ignored the instance: an event for engine 1 was handed to engine 2 -/
theorem instance_filter_unrepaired_fails :
    relevant false (fun t => (t : Rat)) .taskRewardGeneration 0 10 (some 2)
      ⟨7, .taskRewardGeneration, 1, 5, 8⟩ = true := by decide +kernel

/-- the Julian date of a civil second count, as the code computes it -/
def jdSec (t : Int) : Rat := RV.Time.jdOf (RV.Time.civilFromSeconds t)

/-- the unrepaired window (clock Julian date, that plus `dt·SEC2DAYS`] did not tile: from
2021-03-30T16:00:00 with a 60 s step, an event at +6 min fell into no step; the repaired,
datetime-based window delivers it in step 6 and only there. -/
theorem windows_gap_unrepaired :
    deliverySteps .clockPlusDelta true jdSec RV.Generated.SEC2DAYS 1617120000 60 10 .scenarioStep none
      ⟨1, .scenarioStep, 0, 1617120360, 1617120360⟩ = [] ∧
    deliverySteps .datetimeBased true jdSec RV.Generated.SEC2DAYS 1617120000 60 10 .scenarioStep none
      ⟨1, .scenarioStep, 0, 1617120360, 1617120360⟩ = [6] := by
  decide +kernel

/-! ### the agent's event queue: an impulse is applied exactly once -/

/-- number of times impulse `id` has been applied after `n` steps -/
def appliedCount (rule : PruneRule) (t : Nat → Rat) (d : Nat → List Imp) (n id : Nat) (tie : TieRule := .all) : Nat :=
  ((runAgent rule t d n tie).fired.filter (· == id)).length

/-- everything the run ever queues comes from a delivery -/
private theorem mem_queue_of_run (rule : PruneRule) (t : Nat → Rat) (d : Nat → List Imp) (n : Nat) (x : Imp)
    (hx : x ∈ (runAgent rule t d n).queue) : ∃ k, 1 ≤ k ∧ k ≤ n ∧ x ∈ d k := by
  induction n with
  | zero => simp [runAgent] at hx
  | succ n ih =>
    simp only [runAgent, stepAgent, prune, List.mem_filter, List.mem_append] at hx
    rcases hx.1 with h | h
    · obtain ⟨k, h1, h2, h3⟩ := ih h; exact ⟨k, h1, by omega, h3⟩
    · exact ⟨n + 1, by omega, le_refl _, h⟩

private theorem countP_and_eq (q : List Imp) (P : Imp → Bool) (I : Imp)
    (hid : ∀ j ∈ q, j.id = I.id → j = I) :
    q.countP (fun j => P j && (j.id == I.id)) = if P I then q.count I else 0 := by
  induction q with
  | nil => simp
  | cons a q ih =>
    have ih' := ih (fun j hj => hid j (List.mem_cons_of_mem a hj))
    rw [List.countP_cons, ih', List.count_cons]
    by_cases ha : a = I
    · subst ha; cases hP : P a <;> simp [hP]
    · have : (a.id == I.id) = false := by
        rw [beq_eq_false_iff_ne]; intro h; exact ha (hid a (List.mem_cons_self) h)
      have hne : (a == I) = false := by rw [beq_eq_false_iff_ne]; exact ha
      cases hP : P I <;> simp [this, hne]

private theorem fired_count (t0 t1 : Rat) (q : List Imp) (I : Imp)
    (hid : ∀ j ∈ q, j.id = I.id → j = I) :
    ((fire t0 t1 q).filter (· == I.id)).length
      = if ((decide (t0 < I.time) || fpeEq I.time t0) && decide (I.time ≤ t1)) then q.count I else 0 := by
  unfold fire
  rw [List.filter_map, List.length_map, ← List.countP_eq_length_filter, List.countP_filter]
  have := countP_and_eq q (fun i => (decide (t0 < i.time) || fpeEq i.time t0) && decide (i.time ≤ t1)) I hid
  simp only [Function.comp] at this ⊢
  rw [← this]
  apply List.countP_congr
  intro j _
  simp [Bool.and_comm]

/-- **an impulsive maneuver changes the velocity exactly once.**  Impulse `I` is handed to the
agent in step `j` only (which is what `instant_event_*` guarantee for its event row), no other
queued impulse shares its identifier (others may share its instant), and its time `T` falls in the step
`(t (m-1), t m]` with `j ≤ m ≤ N`.  Then after `N` steps it has been applied exactly once —
for a time strictly inside a step, on a step boundary, or a hair before/after one. -/
theorem impulse_once (t : Nat → Rat) (d : Nat → List Imp) (I : Imp) (j m N : Nat)
    (ht : ∀ a b, a < b → t a < t b)
    (hj : 1 ≤ j) (hjm : j ≤ m) (hmN : m ≤ N)
    (hdel : (d j).count I = 1) (hdel' : ∀ k, k ≠ j → I ∉ d k)
    (hid : ∀ k, ∀ x ∈ d k, x.id = I.id → x = I)
    (hT1 : t (m - 1) < I.time) (hT2 : I.time ≤ t m) :
    appliedCount .strict t d N I.id = 1 := by
  -- invariant over the number of completed steps
  have key : ∀ n, n ≤ N →
      ((runAgent .strict t d n).queue.count I = (if j ≤ n ∧ n ≤ m then 1 else 0)) ∧
      (appliedCount .strict t d n I.id = (if m ≤ n then 1 else 0)) := by
    intro n
    induction n with
    | zero =>
      intro _
      have : ¬ (j ≤ 0 ∧ 0 ≤ m) := by omega
      have hm : ¬ (m ≤ 0) := by omega
      have hj0 : j ≠ 0 := by omega
      have hm0 : m ≠ 0 := by omega
      simp [runAgent, appliedCount, hj0, hm0]
    | succ n ih =>
      intro hn
      obtain ⟨ihq, ihc⟩ := ih (by omega)
      -- facts about the queue handed to the propagator in step n+1
      set a := runAgent .strict t d n with ha
      have hqid : ∀ x ∈ a.queue ++ d (n + 1), x.id = I.id → x = I := by
        intro x hx hxid
        rcases List.mem_append.mp hx with h | h
        · obtain ⟨k, _, _, hk⟩ := mem_queue_of_run .strict t d n x h; exact hid k x hk hxid
        · exact hid (n + 1) x h hxid
      have hcnt_app : (a.queue ++ d (n + 1)).count I = (if j ≤ n ∧ n ≤ m then 1 else 0) + (if n + 1 = j then 1 else 0) := by
        rw [List.count_append, ihq]
        congr 1
        by_cases h : n + 1 = j
        · subst h; simp [hdel]
        · simp [h, List.count_eq_zero.mpr (hdel' (n + 1) h)]
      -- the pruned queue
      have hprune : (prune .strict (t n) (a.queue ++ d (n + 1))).count I
          = if t n < I.time then (a.queue ++ d (n + 1)).count I else 0 := by
        by_cases h : t n < I.time
        · have hp : (fun i : Imp => decide (t n < i.time) || (PruneRule.strict == PruneRule.keepIfEqual && fpeEq i.time (t n))) I = true := by
            simp [h]
          simp only [h, if_true]; unfold prune; exact List.count_filter hp
        · simp only [h, if_false]
          apply List.count_eq_zero.mpr
          intro hmem
          have := (List.mem_filter.mp hmem).2
          have hne : (PruneRule.strict == PruneRule.keepIfEqual) = false := by decide
          simp [h, hne] at this
      have hq' : (runAgent .strict t d (n + 1)).queue = prune .strict (t n) (a.queue ++ d (n + 1)) := by
        simp [runAgent, stepAgent, ha]
      have hf' : (runAgent .strict t d (n + 1)).fired
          = a.fired ++ fire (t n) (t (n + 1)) (prune .strict (t n) (a.queue ++ d (n + 1))) := by
        simp [runAgent, stepAgent, ha]
      have hpid : ∀ x ∈ prune .strict (t n) (a.queue ++ d (n + 1)), x.id = I.id → x = I := by
        intro x hx; exact hqid x (List.mem_filter.mp hx).1
      -- is T after the start of this step?
      have hlt_iff : t n < I.time ↔ n ≤ m - 1 := by
        constructor
        · intro h; by_contra hc
          have : m - 1 < n := by omega
          have := ht (m - 1) n this
          have h3 : I.time ≤ t m := hT2
          rcases Nat.lt_or_ge m (n + 1) with h4 | h4
          · have : t m ≤ t n := by
              rcases Nat.lt_or_ge m n with h5 | h5
              · exact le_of_lt (ht m n h5)
              · have : m = n := by omega
                subst this; exact le_refl _
            linarith
          · omega
        · intro h
          rcases Nat.lt_or_ge n (m - 1) with h5 | h5
          · exact lt_trans (ht n (m - 1) h5) hT1
          · have : n = m - 1 := by omega
            subst this; exact hT1
      have hle_iff : I.time ≤ t (n + 1) ↔ m ≤ n + 1 := by
        constructor
        · intro h; by_contra hc
          have : n + 1 ≤ m - 1 := by omega
          have h2 : t (n + 1) ≤ t (m - 1) := by
            rcases Nat.lt_or_ge (n + 1) (m - 1) with h5 | h5
            · exact le_of_lt (ht _ _ h5)
            · have : n + 1 = m - 1 := by omega
              rw [this]
          linarith
        · intro h
          rcases Nat.lt_or_ge m (n + 1) with h5 | h5
          · exact le_trans hT2 (le_of_lt (ht _ _ h5))
          · have : m = n + 1 := by omega
            subst this; exact hT2
      constructor
      · -- queue count
        rw [hq', hprune, hcnt_app]
        by_cases h : t n < I.time
        · have h' := hlt_iff.mp h
          simp only [h, if_true]
          by_cases h1 : n + 1 = j
          · have : ¬ (j ≤ n ∧ n ≤ m) := by omega
            have h2 : j ≤ n + 1 ∧ n + 1 ≤ m := by omega
            rw [if_neg this, if_pos h1, if_pos h2]
          · by_cases h2 : j ≤ n ∧ n ≤ m
            · have : j ≤ n + 1 ∧ n + 1 ≤ m := by omega
              simp [h1, h2, this]
            · have : ¬ (j ≤ n + 1 ∧ n + 1 ≤ m) := by omega
              simp [h1, h2, this]
        · have h' : ¬ (n ≤ m - 1) := fun hc => h (hlt_iff.mpr hc)
          have : ¬ (j ≤ n + 1 ∧ n + 1 ≤ m) := by omega
          simp [h, this]
      · -- applied count
        unfold appliedCount at ihc ⊢
        rw [hf', List.filter_append, List.length_append, ihc,
          fired_count (t n) (t (n + 1)) _ I hpid]
        by_cases hmem : I ∈ prune .strict (t n) (a.queue ++ d (n + 1))
        · have hcntpos : (prune .strict (t n) (a.queue ++ d (n + 1))).count I = 1 := by
            have hpos := List.count_pos_iff.mpr hmem
            rw [hprune, hcnt_app] at hpos ⊢
            by_cases h : t n < I.time
            · simp only [h, if_true] at hpos ⊢
              by_cases h1 : n + 1 = j
              · have : ¬ (j ≤ n ∧ n ≤ m) := by omega
                simp [h1, this]
              · by_cases h2 : j ≤ n ∧ n ≤ m
                · simp [h1, h2]
                · simp [h1, h2] at hpos
            · simp [h] at hpos
          have hlt : t n < I.time := by
            have := List.mem_filter.mp hmem
            simpa [prune] using this.2
          rw [hcntpos]
          have h' := hlt_iff.mp hlt
          by_cases h2 : I.time ≤ t (n + 1)
          · have := hle_iff.mp h2
            have e1 : ¬ (m ≤ n) := by omega
            have e2 : m ≤ n + 1 := this
            simp [hlt, h2, e1, e2]
          · have : ¬ (m ≤ n + 1) := fun hc => h2 (hle_iff.mpr hc)
            have e1 : ¬ (m ≤ n) := by omega
            simp [hlt, h2, e1, this]
        · have hz : (prune .strict (t n) (a.queue ++ d (n + 1))).count I = 0 := List.count_eq_zero.mpr hmem
          rw [hz]
          simp only [ite_self, add_zero]
          -- not in the queue handed over: either already applied (n ≥ m) or not yet delivered (n+1 < j)
          rw [hprune, hcnt_app] at hz
          by_cases h : t n < I.time
          · have h' := hlt_iff.mp h
            simp only [h, if_true] at hz
            have hnj : n + 1 < j := by
              by_contra hc
              by_cases h1 : n + 1 = j
              · simp [h1] at hz
              · have : j ≤ n ∧ n ≤ m := by omega
                simp [this] at hz
            have e1 : ¬ (m ≤ n) := by omega
            have e2 : ¬ (m ≤ n + 1) := by omega
            simp [e1, e2]
          · have h' : ¬ (n ≤ m - 1) := fun hc => h (hlt_iff.mpr hc)
            have e1 : m ≤ n := by omega
            have e2 : m ≤ n + 1 := by omega
            simp [e1, e2]
  have := (key N (le_refl N)).2
  simpa [hmN] using this

/-- the unrepaired prune rule kept an impulse whose time equals the step boundary, and it was
applied a second time at the start of the next step -/
theorem impulse_twice_unrepaired :
    appliedCount .keepIfEqual (fun k => (k : Rat) * 60) (fun k => if k = 1 then [⟨7, 60⟩] else []) 3 7 = 2 ∧
    appliedCount .strict (fun k => (k : Rat) * 60) (fun k => if k = 1 then [⟨7, 60⟩] else []) 3 7 = 1 := by
  decide +kernel

/-- impulses of one agent at the same instant: the unrepaired propagator applied only the first (scipy records one
terminal event per stop, the restart is past the others); the repaired one applies both -/
theorem coincident_impulses :
    appliedCount .strict (fun k => (k : Rat) * 60) (fun k => if k = 1 then [⟨7, 45⟩, ⟨8, 45⟩] else []) 2 8 .firstOnly = 0 ∧
    appliedCount .strict (fun k => (k : Rat) * 60) (fun k => if k = 1 then [⟨7, 45⟩, ⟨8, 45⟩] else []) 2 8 = 1 ∧
    appliedCount .strict (fun k => (k : Rat) * 60) (fun k => if k = 1 then [⟨7, 45⟩, ⟨8, 45⟩] else []) 2 7 = 1 := by
  decide +kernel

/-! ### non-vacuity -/
example : appliedCount .strict (fun k => (k : Rat) * 60) (fun k => if k = 1 then [⟨7, 120 + 1/50000⟩] else []) 4 7 = 1 := by
  decide +kernel

end RV.Props.C01
