/-
C16 — filter updates are invariant to angle representation and observation order.
-/
import RV.Model.Angles
import RV.Generated.Constants
import Mathlib.Algebra.Order.Floor.Ring
import Mathlib.Data.Rat.Floor
import Mathlib.Algebra.Order.Field.Rat
import Mathlib.Tactic.Linarith
import Mathlib.Tactic.Ring
import Mathlib.Tactic.FieldSimp
import Mathlib.Tactic.NormNum
import Mathlib.Data.Matrix.Mul
import Mathlib.LinearAlgebra.Matrix.NonsingularInverse

namespace RV.Props.C16
open RV.Angles

/-- the constants the code actually uses satisfy the only facts the theorems need -/
theorem generated_constants : RV.Generated.TWOPI = 2 * RV.Generated.PI ∧ 0 < RV.Generated.PI := by
  unfold RV.Generated.TWOPI RV.Generated.PI
  constructor <;> norm_num

/-! ### `numpy.remainder` and C `fmod` -/

private theorem floor_eq (q : Rat) : (q.floor : Int) = ⌊q⌋ := rfl

theorem remQ_range (τ : Rat) (hτ : 0 < τ) (x : Rat) : 0 ≤ remQ x τ ∧ remQ x τ < τ := by
  unfold remQ
  rw [floor_eq]
  have h1 : ((⌊x / τ⌋ : Int) : Rat) ≤ x / τ := Int.floor_le _
  have h2 : x / τ < (⌊x / τ⌋ : Int) + 1 := Int.lt_floor_add_one _
  have e : x = τ * (x / τ) := by field_simp
  constructor
  · nlinarith
  · nlinarith

theorem remQ_add_turns (τ : Rat) (hτ : 0 < τ) (x : Rat) (k : Int) :
    remQ (x + k * τ) τ = remQ x τ := by
  unfold remQ
  rw [floor_eq, floor_eq]
  have : (x + k * τ) / τ = x / τ + k := by field_simp
  rw [this, Int.floor_add_intCast]
  push_cast; ring

/-- `wrapAngle2Pi` (built on `fmod`) computes the same value as the floor-mod -/
theorem wrap2Pi_eq_rem (τ : Rat) (hτ : 0 < τ) (x : Rat) : wrap2Pi τ x = remQ x τ := by
  have hr := remQ_range τ hτ x
  unfold wrap2Pi fmodQ truncQ
  simp only
  split
  · -- quotient ≥ 0: truncation is the floor
    rename_i hq
    have : ¬ (x - τ * ((x / τ).floor : Rat) < 0) := not_lt.mpr hr.1
    simp only [this, if_false]; rfl
  · -- quotient < 0: truncation is the ceiling
    rename_i hq
    rw [floor_eq, Int.floor_neg, neg_neg]
    rcases Int.ceil_le_floor_add_one (x / τ) |>.lt_or_eq with hlt | heq
    · have hle : ⌊x / τ⌋ ≤ ⌈x / τ⌉ := Int.floor_le_ceil _
      have e : ⌈x / τ⌉ = ⌊x / τ⌋ := by omega
      rw [e]
      have : ¬ (x - τ * ((⌊x / τ⌋ : Int) : Rat) < 0) := not_lt.mpr hr.1
      simp only [this, if_false]; rfl
    · rw [heq]
      have hlt : x - τ * (((⌊x / τ⌋ + 1 : Int)) : Rat) < 0 := by
        have := hr.2; unfold remQ at this; rw [floor_eq] at this
        push_cast; linarith
      simp only [hlt, if_true]
      unfold remQ; rw [floor_eq]; push_cast; ring

theorem wrap2Pi_range (τ : Rat) (hτ : 0 < τ) (x : Rat) : 0 ≤ wrap2Pi τ x ∧ wrap2Pi τ x < τ := by
  rw [wrap2Pi_eq_rem τ hτ]; exact remQ_range τ hτ x

theorem wrap2Pi_turns (τ : Rat) (hτ : 0 < τ) (x : Rat) (k : Int) :
    wrap2Pi τ (x + k * τ) = wrap2Pi τ x := by
  rw [wrap2Pi_eq_rem τ hτ, wrap2Pi_eq_rem τ hτ, remQ_add_turns τ hτ]

/-! ### `wrapAngleNegPiPi` -/

theorem wrapNegPiPi_range (π τ : Rat) (hπ : 0 < π) (hτ : τ = 2 * π) (x : Rat) :
    -π < wrapNegPiPi π τ x ∧ wrapNegPiPi π τ x ≤ π := by
  have hτ0 : 0 < τ := by linarith
  obtain ⟨h0, h1⟩ := remQ_range τ hτ0 x
  unfold wrapNegPiPi
  simp only
  have habs : absQ (remQ x τ) = remQ x τ := by
    unfold absQ; simp [not_lt.mpr h0]
  rw [habs]
  split
  · rename_i hgt
    have : sgn (remQ x τ) = 1 := by unfold sgn; simp [lt_trans hπ hgt]
    rw [this]; constructor <;> linarith
  · rename_i hle
    constructor <;> linarith [not_lt.mp hle]

theorem wrapNegPiPi_turns (π τ : Rat) (hτ : 0 < τ) (x : Rat) (k : Int) :
    wrapNegPiPi π τ (x + k * τ) = wrapNegPiPi π τ x := by
  unfold wrapNegPiPi; rw [remQ_add_turns τ hτ]

/-- the wrapped value differs from the input by a whole number of turns -/
theorem wrapNegPiPi_congr (π τ : Rat) (hπ : 0 < π) (hτ : τ = 2 * π) (x : Rat) :
    ∃ k : Int, wrapNegPiPi π τ x = x + k * τ := by
  have hτ0 : 0 < τ := by linarith
  obtain ⟨h0, _⟩ := remQ_range τ hτ0 x
  unfold wrapNegPiPi
  simp only
  split
  · rename_i hgt
    have habs : absQ (remQ x τ) = remQ x τ := by unfold absQ; simp [not_lt.mpr h0]
    rw [habs] at hgt
    have : sgn (remQ x τ) = 1 := by unfold sgn; simp [lt_trans hπ hgt]
    rw [this]
    refine ⟨-⌊x / τ⌋ - 1, ?_⟩
    unfold remQ; rw [floor_eq]; push_cast; ring
  · refine ⟨-⌊x / τ⌋, ?_⟩
    unfold remQ; rw [floor_eq]; push_cast; ring

theorem wrap2Pi_congr (τ : Rat) (hτ : 0 < τ) (x : Rat) : ∃ k : Int, wrap2Pi τ x = x + k * τ := by
  rw [wrap2Pi_eq_rem τ hτ]
  exact ⟨-⌊x / τ⌋, by unfold remQ; rw [floor_eq]; push_cast; ring⟩

/-! ### `residual` -/

/-- angular innovations always lie in `(-π, π]` -/
theorem residual_range (π τ : Rat) (hπ : 0 < π) (hτ : τ = 2 * π) (a b : Rat) :
    -π < residual π τ a b true ∧ residual π τ a b true ≤ π := by
  simp only [residual, if_true]; exact wrapNegPiPi_range π τ hπ hτ _

/-- adding any whole number of turns to either angle leaves the residual unchanged -/
theorem residual_turns (π τ : Rat) (hπ : 0 < π) (hτ : τ = 2 * π) (a b : Rat) (k m : Int) :
    residual π τ (a + k * τ) (b + m * τ) true = residual π τ a b true := by
  have hτ0 : 0 < τ := by linarith
  simp only [residual, if_true, wrap2Pi_turns τ hτ0]

/-- the residual is congruent to `a - b` modulo a turn … -/
theorem residual_congr (π τ : Rat) (hπ : 0 < π) (hτ : τ = 2 * π) (a b : Rat) :
    ∃ k : Int, residual π τ a b true = a - b + k * τ := by
  have hτ0 : 0 < τ := by linarith
  simp only [residual, if_true]
  obtain ⟨k1, h1⟩ := wrap2Pi_congr τ hτ0 a
  obtain ⟨k2, h2⟩ := wrap2Pi_congr τ hτ0 b
  obtain ⟨k3, h3⟩ := wrapNegPiPi_congr π τ hπ hτ (wrap2Pi τ a - wrap2Pi τ b)
  refine ⟨k1 - k2 + k3, ?_⟩
  rw [h3, h1, h2]; push_cast; ring

/-- … and the representative in `(-π, π]` is unique: the residual does not depend on where either
angle's wrap point is put (0/360 or ±180). -/
theorem residual_unique (π τ : Rat) (hπ : 0 < π) (hτ : τ = 2 * π) (a b r : Rat)
    (hr : -π < r ∧ r ≤ π) (hk : ∃ k : Int, r = a - b + k * τ) : residual π τ a b true = r := by
  obtain ⟨k, hk⟩ := hk
  obtain ⟨k', hk'⟩ := residual_congr π τ hπ hτ a b
  obtain ⟨l1, l2⟩ := residual_range π τ hπ hτ a b
  have hd : residual π τ a b true - r = ((k' - k : Int) : Rat) * τ := by
    rw [hk', hk]; push_cast; ring
  have hz : (k' - k : Int) = 0 := by
    by_contra hne
    rcases lt_or_gt_of_ne hne with hlt | hgt
    · have : ((k' - k : Int) : Rat) ≤ -1 := by exact_mod_cast Int.le_sub_one_of_lt hlt
      nlinarith
    · have : (1 : Rat) ≤ ((k' - k : Int) : Rat) := by exact_mod_cast hgt
      nlinarith
  rw [hz] at hd; simp at hd; linarith

/-- linear components are plain differences -/
theorem residual_linear (π τ a b : Rat) : residual π τ a b false = a - b := rfl

/-! ### the vectorised helpers (used by the particle filter) -/

/-- `vecWrapAngleNeg` has range `[-π, π)` (its docstring says `(-π, π]`; the code is what is
modelled) -/
theorem vecWrapNeg_range (π τ : Rat) (hπ : 0 < π) (hτ : τ = 2 * π) (x : Rat) :
    -π ≤ vecWrapNeg π τ x ∧ vecWrapNeg π τ x < π := by
  have hτ0 : 0 < τ := by linarith
  obtain ⟨h0, h1⟩ := remQ_range τ hτ0 (x + π)
  unfold vecWrapNeg; constructor <;> linarith

theorem vecResidual_eq (π τ : Rat) (hπ : 0 < π) (hτ : τ = 2 * π) (a b : Rat) :
    vecResidual π τ a b true = vecWrapNeg π τ (a - b) := by
  have hτ0 : 0 < τ := by linarith
  have key : ∀ x : Rat, ∃ j : Int, vecWrap2Pi τ x = x + j * τ := by
    intro x; unfold vecWrap2Pi
    split
    · exact ⟨1, by push_cast; ring⟩
    · exact ⟨0, by push_cast; ring⟩
  obtain ⟨j1, e1⟩ := key a
  obtain ⟨j2, e2⟩ := key b
  simp only [vecResidual, if_true, e1, e2]
  unfold vecWrapNeg
  have : a + j1 * τ - (b + j2 * τ) + π = (a - b + π) + ((j1 - j2 : Int) : Rat) * τ := by
    push_cast; ring
  rw [this, remQ_add_turns τ hτ0]

theorem vecResidual_turns (π τ : Rat) (hπ : 0 < π) (hτ : τ = 2 * π) (a b : Rat) (k m : Int) :
    vecResidual π τ (a + k * τ) (b + m * τ) true = vecResidual π τ a b true := by
  have hτ0 : 0 < τ := by linarith
  rw [vecResidual_eq π τ hπ hτ, vecResidual_eq π τ hπ hτ]
  unfold vecWrapNeg
  have : a + k * τ - (b + m * τ) + π = (a - b + π) + ((k - m : Int) : Rat) * τ := by
    push_cast; ring
  rw [this, remQ_add_turns τ hτ0]

/-! ### the measurement update -/

section update
open Matrix
variable {n m : Nat}

/-- the UKF measurement update as a function of the prior, the cross covariance `C`, the
innovation covariance `S` with inverse `Sinv`, and the innovation `ν` -/
def postMean (xm : Fin n → ℚ) (C : Matrix (Fin n) (Fin m) ℚ) (Sinv : Matrix (Fin m) (Fin m) ℚ)
    (ν : Fin m → ℚ) : Fin n → ℚ := xm + (C * Sinv) *ᵥ ν
def postCov (Pm : Matrix (Fin n) (Fin n) ℚ) (C : Matrix (Fin n) (Fin m) ℚ)
    (S Sinv : Matrix (Fin m) (Fin m) ℚ) : Matrix (Fin n) (Fin n) ℚ :=
  Pm - (C * Sinv) * S * (C * Sinv)ᵀ

/-- the posterior depends on the measurement only through the innovation, and the innovation's
angular entries are `residual`s: adding whole turns to any angular measurement (or moving its wrap
point) changes nothing. -/
theorem update_turn_invariant (π τ : Rat) (hπ : 0 < π) (hτ : τ = 2 * π)
    (xm : Fin n → ℚ) (C : Matrix (Fin n) (Fin m) ℚ) (Sinv : Matrix (Fin m) (Fin m) ℚ)
    (y ybar : Fin m → ℚ) (ang : Fin m → Bool) (k : Fin m → Int) :
    postMean xm C Sinv (fun i => residual π τ (y i + (if ang i then (k i : ℚ) * τ else 0)) (ybar i) (ang i))
      = postMean xm C Sinv (fun i => residual π τ (y i) (ybar i) (ang i)) := by
  congr 1; congr 1
  funext i
  cases h : ang i with
  | false => simp [residual]
  | true =>
    simp only [if_true]
    have := residual_turns π τ hπ hτ (y i) (ybar i) (k i) 0
    simpa using this

/-- reordering simultaneous observations (a permutation matrix `Q`, `Qᵀ Q = Q Qᵀ = 1`, acting on
the measurement space) leaves the posterior mean and covariance unchanged. -/
theorem update_perm_invariant (xm : Fin n → ℚ) (Pm : Matrix (Fin n) (Fin n) ℚ)
    (C : Matrix (Fin n) (Fin m) ℚ) (S Sinv Q : Matrix (Fin m) (Fin m) ℚ) (ν : Fin m → ℚ)
    (h1 : Qᵀ * Q = 1) :
    postMean xm (C * Qᵀ) (Q * Sinv * Qᵀ) (Q *ᵥ ν) = postMean xm C Sinv ν ∧
    postCov Pm (C * Qᵀ) (Q * S * Qᵀ) (Q * Sinv * Qᵀ) = postCov Pm C S Sinv := by
  have hK : C * Qᵀ * (Q * Sinv * Qᵀ) = C * Sinv * Qᵀ := by
    calc C * Qᵀ * (Q * Sinv * Qᵀ) = C * (Qᵀ * Q) * Sinv * Qᵀ := by simp only [Matrix.mul_assoc]
      _ = C * Sinv * Qᵀ := by rw [h1, Matrix.mul_one]
  constructor
  · unfold postMean
    rw [hK, Matrix.mulVec_mulVec, Matrix.mul_assoc (C * Sinv), h1, Matrix.mul_one]
  · unfold postCov
    rw [hK]
    congr 1
    rw [Matrix.transpose_mul (C * Sinv) Qᵀ, Matrix.transpose_transpose]
    calc C * Sinv * Qᵀ * (Q * S * Qᵀ) * (Q * (C * Sinv)ᵀ)
        = C * Sinv * (Qᵀ * Q) * S * (Qᵀ * Q) * (C * Sinv)ᵀ := by simp only [Matrix.mul_assoc]
      _ = C * Sinv * S * (C * Sinv)ᵀ := by rw [h1, Matrix.mul_one, Matrix.mul_one]

/-- and `Q Sinv Qᵀ` is indeed the inverse of the permuted innovation covariance -/
theorem perm_inverse (S Sinv Q : Matrix (Fin m) (Fin m) ℚ) (h1 : Qᵀ * Q = 1) (hS : S * Sinv = 1)
    (h2 : Q * Qᵀ = 1) : (Q * S * Qᵀ) * (Q * Sinv * Qᵀ) = 1 := by
  calc Q * S * Qᵀ * (Q * Sinv * Qᵀ) = Q * (S * ((Qᵀ * Q) * Sinv)) * Qᵀ := by
        simp only [Matrix.mul_assoc]
    _ = 1 := by rw [h1, Matrix.one_mul, hS, Matrix.mul_one, h2]
end update

/-! ### non-vacuity -/
example : wrap2Pi 8 (-3) = 5 ∧ wrap2Pi 8 19 = 3 ∧ wrapNegPiPi 4 8 5 = -3 ∧ wrapNegPiPi 4 8 4 = 4 := by
  decide +kernel
example : residual 4 8 1 7 true = 2 ∧ residual 4 8 (1 + 3 * 8) (7 - 8) true = 2 := by decide +kernel
example : vecResidual 4 8 5 1 true = -4 := by decide +kernel

end RV.Props.C16
