/-
C15 — finite burns thrust for exactly their configured interval.
-/
import RV.Model.Burn
import RV.Proofs.Burns
import Mathlib.Algebra.Order.Field.Rat
import Mathlib.Order.Lattice
import Mathlib.Tactic.Linarith
import Mathlib.Tactic.Ring
import Mathlib.Tactic.NormNum

namespace RV.Props.C15
open RV.Burn RV.Proofs.Burns

/-- position of `x` clipped into `[s, e]` -/
def clip (s e x : Rat) : Rat := min (max x s) e

/-- in every propagation call the thrust is on exactly on the part of `[s, e]` that lies in the
call — for a call that contains the start, the end, both, or neither — provided no call boundary
falls in the last nanosecond before the end (the callback's tolerance). -/
theorem callOn_is_overlap (s e t0 t1 : Rat) (hse : tol ≤ e - s) (ht : t0 < t1)
    (htol : ¬ (0 < e - t0 ∧ e - t0 < tol)) :
    duration (callOn .phaseSwitch s e t0 t1) = clip s e t1 - clip s e t0 ∧
    (∀ a b, callOn .phaseSwitch s e t0 t1 = some (a, b) → s ≤ a ∧ b ≤ e ∧ t0 ≤ a ∧ b ≤ t1 ∧ a ≤ b) := by
  have htolpos : (0 : Rat) < tol := by unfold tol; norm_num
  have hs_lt_e : s < e := by linarith
  unfold callOn clip duration
  simp only [Bool.and_eq_true, decide_eq_true_eq, Bool.not_eq_true', decide_eq_false_iff_not, not_lt]
  by_cases harm : (s < t0 ∧ t0 < e) ∧ tol ≤ e - t0
  · simp only [harm, and_self, if_true]
    obtain ⟨⟨h1, h2⟩, h3⟩ := harm
    constructor
    · by_cases he : e ≤ t1
      · simp only [he, if_true]
        rw [max_eq_left (by linarith : s ≤ t1), min_eq_right he, max_eq_left (le_of_lt h1), min_eq_left (le_of_lt h2)]
      · simp only [he, if_false]
        have : t1 < e := not_le.mp he
        rw [max_eq_left (by linarith : s ≤ t1), min_eq_left (le_of_lt this), max_eq_left (le_of_lt h1), min_eq_left (le_of_lt h2)]
    · intro a b hab
      by_cases he : e ≤ t1
      · simp only [he, if_true, Option.some.injEq, Prod.mk.injEq] at hab
        obtain ⟨rfl, rfl⟩ := hab
        exact ⟨le_of_lt h1, le_refl _, le_refl _, he, le_of_lt h2⟩
      · simp only [he, if_false, Option.some.injEq, Prod.mk.injEq] at hab
        obtain ⟨rfl, rfl⟩ := hab
        exact ⟨le_of_lt h1, le_of_lt (not_le.mp he), le_refl _, le_refl _, le_of_lt ht⟩
  · simp only [harm, if_false]
    by_cases hin : t0 ≤ s ∧ s ≤ t1
    · simp only [hin, and_self, if_true]
      have hnt : ¬ (e - s < tol) := not_lt.mpr hse
      simp only [hnt, if_false]
      obtain ⟨h1, h2⟩ := hin
      constructor
      · by_cases he : e ≤ t1
        · simp only [he, if_true]
          rw [max_eq_left h2, min_eq_right he, max_eq_right h1, min_eq_left (le_of_lt hs_lt_e)]
        · simp only [he, if_false]
          have : t1 < e := not_le.mp he
          rw [max_eq_left h2, min_eq_left (le_of_lt this), max_eq_right h1, min_eq_left (le_of_lt hs_lt_e)]
      · intro a b hab
        by_cases he : e ≤ t1
        · simp only [he, if_true, Option.some.injEq, Prod.mk.injEq] at hab
          obtain ⟨rfl, rfl⟩ := hab
          exact ⟨le_refl _, le_refl _, h1, he, le_of_lt hs_lt_e⟩
        · simp only [he, if_false, Option.some.injEq, Prod.mk.injEq] at hab
          obtain ⟨rfl, rfl⟩ := hab
          exact ⟨le_refl _, le_of_lt (not_le.mp he), h1, le_refl _, h2⟩
    · simp only [hin, if_false]
      refine ⟨?_, fun a b h => by cases h⟩
      -- not armed and the start is not in the call: the call lies before the start or at/after the end
      rcases not_and_or.mp hin with hn | hn
      · -- s < t0
        have hst : s < t0 := not_le.mp hn
        have : e ≤ t0 := by
          by_contra hc
          have hlt : t0 < e := not_le.mp hc
          have : ¬ (tol ≤ e - t0) := fun h => harm ⟨⟨hst, hlt⟩, h⟩
          exact htol ⟨by linarith, not_le.mp this⟩
        rw [max_eq_left (by linarith : s ≤ t1), min_eq_right (by linarith : e ≤ t1), max_eq_left (le_of_lt hst), min_eq_right this]
        ring
      · -- t1 < s
        have h1 : t1 < s := not_le.mp hn
        rw [max_eq_right (le_of_lt h1), min_eq_left (le_of_lt hs_lt_e), max_eq_right (by linarith : t0 ≤ s), min_eq_left (le_of_lt hs_lt_e)]
        ring

private theorem clip_mono (s e : Rat) {x y : Rat} (h : x ≤ y) : clip s e x ≤ clip s e y := by
  unfold clip; exact min_le_min (max_le_max h (le_refl _)) (le_refl _)

/-- **the thrust is on for exactly `end - start`**: over any division of the run into propagation
calls (any step size, aligned with the burn or not), the total time with thrust on is `e - s`, so
a constant acceleration `a` delivers `a·(e - s)`. -/
theorem burn_duration (s e : Rat) (t : Nat → Rat) (N : Nat) (hse : tol ≤ e - s)
    (ht : ∀ k, k < N → t k < t (k + 1)) (h0 : t 0 ≤ s) (hN : e ≤ t N)
    (htol : ∀ k, k < N → ¬ (0 < e - t k ∧ e - t k < tol)) :
    totalOn .phaseSwitch s e t N = e - s := by
  have hs_lt_e : s < e := by have : (0 : Rat) < tol := by unfold tol; norm_num
                             linarith
  have key : ∀ n, n ≤ N → totalOn .phaseSwitch s e t n = clip s e (t n) - clip s e (t 0) := by
    intro n
    induction n with
    | zero => intro _; simp [totalOn]
    | succ n ih =>
      intro hn
      have := (callOn_is_overlap s e (t n) (t (n + 1)) hse (ht n (by omega)) (htol n (by omega))).1
      rw [totalOn, ih (by omega), this]; ring
  rw [key N (le_refl N)]
  unfold clip
  rw [max_eq_left (by linarith : s ≤ t N), min_eq_right hN, max_eq_right h0, min_eq_left (le_of_lt hs_lt_e)]

/-- the unrepaired event function had no root at the end of the thrust: a burn from 60 s to 150 s
with 60 s steps thrust until 180 s (120 s instead of 90 s); the repaired one stops at 150 s. -/
theorem burn_overrun_unrepaired :
    totalOn .startRootOnly 60 150 (fun k => (k : Rat) * 60) 4 = 120 ∧
    totalOn .phaseSwitch 60 150 (fun k => (k : Rat) * 60) 4 = 90 := by
  decide +kernel

/-! ### several burns of one agent share one thrust slot -/

/-- **each burn thrusts on its own interval whatever else is queued**: when the burns of an agent do not overlap
(one may begin at the very instant another ends, in either queue order), then at every instant `t` of every
propagation call the thrust slot holds burn `b` exactly when `t` lies in the interval on which the one-burn model
has `b` on - the other queued burns neither switch it off nor replace it. -/
theorem slot_is_own_interval (burns : List BurnIv) (hsep : NonOverlapping burns) (hlen : ∀ b ∈ burns, tol ≤ b.2 - b.1)
    (t0 t1 t : Rat) (h0 : t0 ≤ t) (h1 : t < t1) (b : BurnIv) :
    slotAt burns t0 t1 t = some b ↔
      b ∈ burns ∧ ∃ lo hi, callOn .phaseSwitch b.1 b.2 t0 t1 = some (lo, hi) ∧ lo ≤ t ∧ t < hi := by
  have hp := tol_pos
  have hcall_armed : ∀ b : BurnIv, armedAfterPrep b t0 = true →
      callOn .phaseSwitch b.1 b.2 t0 t1 = some (t0, if b.2 ≤ t1 then b.2 else t1) := by
    intro b hb
    have := hb
    unfold armedAfterPrep at this
    unfold callOn
    simp only [this, if_true]
  have hcall_un : ∀ b : BurnIv, armedAfterPrep b t0 = false →
      callOn .phaseSwitch b.1 b.2 t0 t1 =
        if t0 ≤ b.1 ∧ b.1 ≤ t1 then (if b.2 - b.1 < tol then none else some (b.1, if b.2 ≤ t1 then b.2 else t1)) else none := by
    intro b hb
    have := hb
    unfold armedAfterPrep at this
    unfold callOn
    simp only [this, Bool.false_eq_true, if_false]
  -- the callbacks that have happened by `t`, in order
  set P := (sortedRoots burns t0 t1).filter (fun c => decide (c.time ≤ t)) with hP
  have hmemP : ∀ c, c ∈ P ↔ (∃ b' ∈ burns, c ∈ rootsOf b' t0 t1) ∧ c.time ≤ t := by
    intro c
    rw [hP, List.mem_filter, mem_sortedRoots]
    simp only [decide_eq_true_eq]
  have hsortP : P.Pairwise (fun a b => a.time ≤ b.time) := (sortedRoots_sorted burns t0 t1).filter _
  have hslot : slotAt burns t0 t1 t = P.foldl (applyChange .ownOnly) (prepSlot burns t0) := by
    unfold slotAt slotAtG firedRoots prepSlot
    rfl
  rw [hslot]
  -- a start callback of another burn cannot lie inside this burn's interval
  have hforeign_on : ∀ b ∈ burns, ∀ a ∈ burns, a ≠ b → ∀ x : Change, x ∈ rootsOf a t0 t1 → x.on = true →
      b.1 < b.2 → x.time < b.2 → x.time < b.1 := by
    intro b hb a ha hne x hx hon hbl hlt
    rcases mem_rootsOf (hlen a ha) hx with ⟨_, _, rfl⟩ | ⟨_, _, _, rfl⟩ | ⟨_, _, _, rfl⟩
    · simp at hon
    · simp only at hlt ⊢
      rcases hsep.of_mem ha hb hne with h | h
      · linarith [hlen a ha]
      · linarith
    · simp at hon
  constructor
  · intro h
    by_cases hex : ∃ c ∈ P, c.on = true
    · -- the last start callback decides
      obtain ⟨pre, x, post, hPeq, hxon, hpost⟩ := exists_last_on P hex
      rw [hPeq, fold_through_on pre post x hxon] at h
      have hxP : x ∈ P := by rw [hPeq]; simp
      obtain ⟨⟨a, ha, hxa⟩, hxt⟩ := (hmemP x).mp hxP
      rcases mem_rootsOf (hlen a ha) hxa with ⟨_, _, rfl⟩ | ⟨hun, hs0, hs1, rfl⟩ | ⟨_, _, _, rfl⟩
      · simp at hxon
      · simp only at h hxt
        -- the slot after the remaining end callbacks is `a` unless `a` itself ended
        by_cases hended : ∃ c ∈ post, c.burn = a
        · rw [fold_offs_ended post hpost a hended] at h; cases h
        · have hkeep : ∀ c ∈ post, c.burn ≠ a := fun c hc hcb => hended ⟨c, hc, hcb⟩
          rw [fold_offs_keep post hpost a hkeep] at h
          simp only [Option.some.injEq] at h
          subst h
          have hnt : ¬ (a.2 - a.1 < tol) := not_lt.mpr (hlen a ha)
          refine ⟨ha, a.1, (if a.2 ≤ t1 then a.2 else t1), ?_, hxt, ?_⟩
          · rw [hcall_un a hun]; simp only [hs0, hs1, and_self, if_true, hnt, if_false]
          · by_cases het : a.2 ≤ t1
            · simp only [het, if_true]
              by_contra hc
              have hc := not_lt.mp hc
              -- the end callback of `a` has happened, and it comes after the start callback
              have hoffP : (⟨a.2, a, false⟩ : Change) ∈ P :=
                (hmemP _).mpr ⟨⟨a, ha, off_mem_rootsOf (hlen a ha) (Or.inr ⟨hs0, hs1⟩) het⟩, hc⟩
              rw [hPeq] at hoffP hsortP
              rcases List.mem_append.mp hoffP with hin | hin
              · have := (List.pairwise_append.mp hsortP).2.2 _ hin _ (List.mem_cons_self)
                simp only at this
                linarith [hlen a ha]
              · rcases List.mem_cons.mp hin with heq | hin'
                · simp at heq
                · exact hkeep _ hin' rfl
            · simp only [het, if_false]; exact h1
      · simp at hxon
    · -- no start callback yet: the slot is what `_prepEvents` left, unless that burn has ended
      have hoffs : ∀ c ∈ P, c.on = false := by
        intro c hc
        by_contra hcon
        exact hex ⟨c, hc, by simpa using hcon⟩
      cases hprep : prepSlot burns t0 with
      | none => rw [hprep, fold_offs_none P hoffs] at h; cases h
      | some a =>
        rw [hprep] at h
        by_cases hended : ∃ c ∈ P, c.burn = a
        · rw [fold_offs_ended P hoffs a hended] at h; cases h
        · have hkeep : ∀ c ∈ P, c.burn ≠ a := fun c hc hcb => hended ⟨c, hc, hcb⟩
          rw [fold_offs_keep P hoffs a hkeep] at h
          simp only [Option.some.injEq] at h
          subst h
          obtain ⟨ha, harm⟩ := (prepSlot_eq_some_iff hsep t0 a).mp hprep
          refine ⟨ha, t0, (if a.2 ≤ t1 then a.2 else t1), hcall_armed a harm, h0, ?_⟩
          by_cases het : a.2 ≤ t1
          · simp only [het, if_true]
            by_contra hc
            have hc := not_lt.mp hc
            have hoffP : (⟨a.2, a, false⟩ : Change) ∈ P :=
              (hmemP _).mpr ⟨⟨a, ha, off_mem_rootsOf (hlen a ha) (Or.inl harm) het⟩, hc⟩
            exact hkeep _ hoffP rfl
          · simp only [het, if_false]; exact h1
  · rintro ⟨hb, lo, hi, hcall, hlo, hhi⟩
    have hse : b.1 < b.2 := by linarith [hlen b hb]
    by_cases harm : armedAfterPrep b t0 = true
    · rw [hcall_armed b harm] at hcall
      simp only [Option.some.injEq, Prod.mk.injEq] at hcall
      obtain ⟨rfl, rfl⟩ := hcall
      obtain ⟨⟨hs, he⟩, _⟩ := (armed_iff b t0).mp harm
      have hte : t < b.2 := by
        by_cases het : b.2 ≤ t1
        · simpa only [het, if_true] using hhi
        · linarith [not_le.mp het]
      have hprep : prepSlot burns t0 = some b := (prepSlot_eq_some_iff hsep t0 b).mpr ⟨hb, harm⟩
      rw [hprep]
      -- nothing that has happened by `t` starts another burn or ends this one
      have hoffs : ∀ c ∈ P, c.on = false := by
        intro c hc
        by_contra hcon
        have hcon : c.on = true := by simpa using hcon
        obtain ⟨⟨a, ha, hca⟩, hct⟩ := (hmemP c).mp hc
        by_cases hab : a = b
        · subst hab
          rcases mem_rootsOf (hlen a ha) hca with ⟨_, _, rfl⟩ | ⟨hun, _, _, _⟩ | ⟨hun, _, _, _⟩
          · simp at hcon
          · rw [harm] at hun; cases hun
          · rw [harm] at hun; cases hun
        · have := hforeign_on b hb a ha hab c hca hcon hse (by linarith)
          obtain ⟨hc0, _, _, _, _⟩ := rootsOf_time (hlen a ha) hca
          linarith
      have hkeep : ∀ c ∈ P, c.burn ≠ b := by
        intro c hc hcb
        obtain ⟨⟨a, ha, hca⟩, hct⟩ := (hmemP c).mp hc
        obtain ⟨_, _, _, _, hcburn⟩ := rootsOf_time (hlen a ha) hca
        have hab : a = b := hcburn ▸ hcb
        subst hab
        rcases mem_rootsOf (hlen a ha) hca with ⟨_, _, rfl⟩ | ⟨hun, _, _, _⟩ | ⟨hun, _, _, _⟩
        · simp only at hct; linarith
        · rw [harm] at hun; cases hun
        · rw [harm] at hun; cases hun
      exact fold_offs_keep P hoffs b hkeep
    · have hun : armedAfterPrep b t0 = false := by simpa using harm
      rw [hcall_un b hun] at hcall
      by_cases hin : t0 ≤ b.1 ∧ b.1 ≤ t1
      · have hnt : ¬ (b.2 - b.1 < tol) := not_lt.mpr (hlen b hb)
        simp only [hin, and_self, if_true, hnt, if_false, Option.some.injEq, Prod.mk.injEq] at hcall
        obtain ⟨rfl, rfl⟩ := hcall
        have hte : t < b.2 := by
          by_cases het : b.2 ≤ t1
          · simpa only [het, if_true] using hhi
          · linarith [not_le.mp het]
        have honP : (⟨b.1, b, true⟩ : Change) ∈ P :=
          (hmemP _).mpr ⟨⟨b, hb, on_mem_rootsOf (hlen b hb) hun hin.1 hin.2⟩, hlo⟩
        obtain ⟨pre, x, post, hPeq, hxon, hpost⟩ := exists_last_on P ⟨_, honP, rfl⟩
        rw [hPeq, fold_through_on pre post x hxon]
        have hxP : x ∈ P := by rw [hPeq]; simp
        obtain ⟨⟨a, ha, hxa⟩, hxt⟩ := (hmemP x).mp hxP
        -- the last start callback is this burn's
        have hab : a = b := by
          by_contra hne
          have hlt := hforeign_on b hb a ha hne x hxa hxon hse (by linarith)
          -- then this burn's start callback, which is later, would come after `x` and be a start callback in `post`
          rw [hPeq] at honP hsortP
          rcases List.mem_append.mp honP with hin' | hin'
          · have := (List.pairwise_append.mp hsortP).2.2 _ hin' _ (List.mem_cons_self)
            simp only at this
            linarith
          · rcases List.mem_cons.mp hin' with heq | hin''
            · rw [← heq] at hlt; simp only at hlt; linarith
            · have := hpost _ hin''
              simp at this
        subst hab
        have hxeq : x = ⟨a.1, a, true⟩ := by
          rcases mem_rootsOf (hlen a ha) hxa with ⟨_, _, rfl⟩ | ⟨_, _, _, rfl⟩ | ⟨_, _, _, rfl⟩
          · simp at hxon
          · rfl
          · simp at hxon
        subst hxeq
        simp only
        refine fold_offs_keep post hpost a ?_
        intro c hc hcb
        have hcP : c ∈ P := by rw [hPeq]; simp [hc]
        obtain ⟨⟨a', ha', hca'⟩, hct⟩ := (hmemP c).mp hcP
        obtain ⟨_, _, _, _, hcburn⟩ := rootsOf_time (hlen a' ha') hca'
        have : a' = a := hcburn ▸ hcb
        subst this
        rcases mem_rootsOf (hlen a' ha') hca' with ⟨harm', _, _⟩ | ⟨_, _, _, rfl⟩ | ⟨_, _, _, rfl⟩
        · rw [harm'] at hun; cases hun
        · have := hpost _ hc; simp at this
        · simp only at hct; linarith
      · simp only [hin, if_false] at hcall; cases hcall

/-- hence every one of several non-overlapping burns is on for exactly its own `end - start`, over any division into
calls (`burn_duration` applies to each, the slot being that burn's exactly on its own intervals). -/
theorem each_burn_own_duration (burns : List BurnIv) (hsep : NonOverlapping burns) (hlen : ∀ b ∈ burns, tol ≤ b.2 - b.1)
    (t : Nat → Rat) (N : Nat) (ht : ∀ k, k < N → t k < t (k + 1)) (b : BurnIv) (hb : b ∈ burns)
    (h0 : t 0 ≤ b.1) (hN : b.2 ≤ t N) (htol : ∀ k, k < N → ¬ (0 < b.2 - t k ∧ b.2 - t k < tol)) :
    totalOn .phaseSwitch b.1 b.2 t N = b.2 - b.1 ∧
    ∀ k, k < N → ∀ x, t k ≤ x → x < t (k + 1) →
      (slotAt burns (t k) (t (k + 1)) x = some b ↔
        ∃ lo hi, callOn .phaseSwitch b.1 b.2 (t k) (t (k + 1)) = some (lo, hi) ∧ lo ≤ x ∧ x < hi) := by
  refine ⟨burn_duration b.1 b.2 t N (hlen b hb) ht h0 hN htol, ?_⟩
  intro k _ x hx0 hx1
  rw [slot_is_own_interval burns hsep hlen (t k) (t (k + 1)) x hx0 hx1 b]
  exact ⟨fun h => h.2, fun h => ⟨hb, h⟩⟩

/-- what the single slot did before the repair, and what still lies outside the theorem:
(1, 2) a burn that begins at the instant another ends was lost in one queue order - the solver reports one terminal
event per stop and the restart is already past the other root - and in the other order survived only because the
lost callback was the end of the first burn; with both callbacks delivered but an unconditional switch-off it is lost
in the other order; the repaired shape has it on in both.  (3) a `_prepEvents` that writes `None` for every burn not
under way lets a later queued burn switch off the one that is (a seeded change).  (4) *overlapping* burns still
share the slot: the inner one replaces the outer, whose thrust does not resume (outside the property: it speaks of a
burn, not of simultaneous ones). -/
theorem slot_witnesses :
    slotAtG .keep .firstOnly .clobber [(60, 150), (150, 200)] 120 180 160 = none ∧
    slotAtG .keep .all .clobber [(150, 200), (60, 150)] 120 180 160 = none ∧
    slotAt [(60, 150), (150, 200)] 120 180 160 = some (150, 200) ∧
    slotAt [(150, 200), (60, 150)] 120 180 160 = some (150, 200) ∧
    slotAtG .clobber .all .ownOnly [(10, 100), (120, 130)] 60 120 70 = none ∧
    slotAt [(10, 100), (120, 130)] 60 120 70 = some (10, 100) ∧
    slotAt [(10, 100), (20, 30)] 0 60 40 = none := by
  decide +kernel

example : NonOverlapping [(60, 150), (150, 200)] ∧ (∀ b ∈ [((60 : Rat), (150 : Rat)), (150, 200)], tol ≤ b.2 - b.1) := by
  refine ⟨by unfold NonOverlapping; simp, ?_⟩
  intro b hb
  simp only [List.mem_cons, List.not_mem_nil, or_false] at hb
  rcases hb with rfl | rfl <;> (unfold tol; norm_num)

/-! ### non-vacuity -/
example : totalOn .phaseSwitch 70 130 (fun k => (k : Rat) * 60) 4 = 60 ∧
          totalOn .phaseSwitch 61 (125/2) (fun k => (k : Rat) * 60) 3 = 3/2 ∧
          totalOn .phaseSwitch 645 735 (fun k => (k : Rat) * 60) 14 = 90 := by decide +kernel

end RV.Props.C15
