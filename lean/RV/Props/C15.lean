/-
C15 — finite burns thrust for exactly their configured interval.
-/
import RV.Model.Burn
import Mathlib.Algebra.Order.Field.Rat
import Mathlib.Order.Lattice
import Mathlib.Tactic.Linarith
import Mathlib.Tactic.Ring
import Mathlib.Tactic.NormNum

namespace RV.Props.C15
open RV.Burn

/-- position of `x` clipped into `[s, e]` -/
def clip (s e x : Rat) : Rat := min (max x s) e

/-- in every propagation call the thrust is on exactly on the part of `[s, e]` that lies in the
call — for a call that contains the start, the end, both, or neither — provided no call boundary
falls in the last nanosecond before the end (the callback's tolerance). -/
theorem callOn_is_overlap (s e t0 t1 : Rat) (hse : tol ≤ e - s) (ht : t0 < t1)
    (htol : ¬ (0 < e - t0 ∧ e - t0 < tol)) :
    duration (callOn .phaseSwitch s e t0 t1) = clip s e t1 - clip s e t0 ∧
    (∀ a b, callOn .phaseSwitch s e t0 t1 = some (a, b) → s ≤ a ∧ b ≤ e ∧ t0 ≤ a ∧ b ≤ t1 ∧ a ≤ b) := by
  have htolpos : (0 : Rat) < tol := by unfold tol; norm_num
  have hs_lt_e : s < e := by linarith
  unfold callOn clip duration
  simp only [Bool.and_eq_true, decide_eq_true_eq, Bool.not_eq_true', decide_eq_false_iff_not, not_lt]
  by_cases harm : (s < t0 ∧ t0 < e) ∧ tol ≤ e - t0
  · simp only [harm, and_self, if_true]
    obtain ⟨⟨h1, h2⟩, h3⟩ := harm
    constructor
    · by_cases he : e ≤ t1
      · simp only [he, if_true]
        rw [max_eq_left (by linarith : s ≤ t1), min_eq_right he, max_eq_left (le_of_lt h1), min_eq_left (le_of_lt h2)]
      · simp only [he, if_false]
        have : t1 < e := not_le.mp he
        rw [max_eq_left (by linarith : s ≤ t1), min_eq_left (le_of_lt this), max_eq_left (le_of_lt h1), min_eq_left (le_of_lt h2)]
    · intro a b hab
      by_cases he : e ≤ t1
      · simp only [he, if_true, Option.some.injEq, Prod.mk.injEq] at hab
        obtain ⟨rfl, rfl⟩ := hab
        exact ⟨le_of_lt h1, le_refl _, le_refl _, he, le_of_lt h2⟩
      · simp only [he, if_false, Option.some.injEq, Prod.mk.injEq] at hab
        obtain ⟨rfl, rfl⟩ := hab
        exact ⟨le_of_lt h1, le_of_lt (not_le.mp he), le_refl _, le_refl _, le_of_lt ht⟩
  · simp only [harm, if_false]
    by_cases hin : t0 ≤ s ∧ s ≤ t1
    · simp only [hin, and_self, if_true]
      have hnt : ¬ (e - s < tol) := not_lt.mpr hse
      simp only [hnt, if_false]
      obtain ⟨h1, h2⟩ := hin
      constructor
      · by_cases he : e ≤ t1
        · simp only [he, if_true]
          rw [max_eq_left h2, min_eq_right he, max_eq_right h1, min_eq_left (le_of_lt hs_lt_e)]
        · simp only [he, if_false]
          have : t1 < e := not_le.mp he
          rw [max_eq_left h2, min_eq_left (le_of_lt this), max_eq_right h1, min_eq_left (le_of_lt hs_lt_e)]
      · intro a b hab
        by_cases he : e ≤ t1
        · simp only [he, if_true, Option.some.injEq, Prod.mk.injEq] at hab
          obtain ⟨rfl, rfl⟩ := hab
          exact ⟨le_refl _, le_refl _, h1, he, le_of_lt hs_lt_e⟩
        · simp only [he, if_false, Option.some.injEq, Prod.mk.injEq] at hab
          obtain ⟨rfl, rfl⟩ := hab
          exact ⟨le_refl _, le_of_lt (not_le.mp he), h1, le_refl _, h2⟩
    · simp only [hin, if_false]
      refine ⟨?_, fun a b h => by cases h⟩
      -- not armed and the start is not in the call: the call lies before the start or at/after the end
      rcases not_and_or.mp hin with hn | hn
      · -- s < t0
        have hst : s < t0 := not_le.mp hn
        have : e ≤ t0 := by
          by_contra hc
          have hlt : t0 < e := not_le.mp hc
          have : ¬ (tol ≤ e - t0) := fun h => harm ⟨⟨hst, hlt⟩, h⟩
          exact htol ⟨by linarith, not_le.mp this⟩
        rw [max_eq_left (by linarith : s ≤ t1), min_eq_right (by linarith : e ≤ t1), max_eq_left (le_of_lt hst), min_eq_right this]
        ring
      · -- t1 < s
        have h1 : t1 < s := not_le.mp hn
        rw [max_eq_right (le_of_lt h1), min_eq_left (le_of_lt hs_lt_e), max_eq_right (by linarith : t0 ≤ s), min_eq_left (le_of_lt hs_lt_e)]
        ring

private theorem clip_mono (s e : Rat) {x y : Rat} (h : x ≤ y) : clip s e x ≤ clip s e y := by
  unfold clip; exact min_le_min (max_le_max h (le_refl _)) (le_refl _)

/-- **the thrust is on for exactly `end - start`**: over any division of the run into propagation
calls (any step size, aligned with the burn or not), the total time with thrust on is `e - s`, so
a constant acceleration `a` delivers `a·(e - s)`. -/
theorem burn_duration (s e : Rat) (t : Nat → Rat) (N : Nat) (hse : tol ≤ e - s)
    (ht : ∀ k, k < N → t k < t (k + 1)) (h0 : t 0 ≤ s) (hN : e ≤ t N)
    (htol : ∀ k, k < N → ¬ (0 < e - t k ∧ e - t k < tol)) :
    totalOn .phaseSwitch s e t N = e - s := by
  have hs_lt_e : s < e := by have : (0 : Rat) < tol := by unfold tol; norm_num
                             linarith
  have key : ∀ n, n ≤ N → totalOn .phaseSwitch s e t n = clip s e (t n) - clip s e (t 0) := by
    intro n
    induction n with
    | zero => intro _; simp [totalOn]
    | succ n ih =>
      intro hn
      have := (callOn_is_overlap s e (t n) (t (n + 1)) hse (ht n (by omega)) (htol n (by omega))).1
      rw [totalOn, ih (by omega), this]; ring
  rw [key N (le_refl N)]
  unfold clip
  rw [max_eq_left (by linarith : s ≤ t N), min_eq_right hN, max_eq_right h0, min_eq_left (le_of_lt hs_lt_e)]

/-- the unrepaired event function had no root at the end of the thrust: a burn from 60 s to 150 s
with 60 s steps thrust until 180 s (120 s instead of 90 s); the repaired one stops at 150 s. -/
theorem burn_overrun_unrepaired :
    totalOn .startRootOnly 60 150 (fun k => (k : Rat) * 60) 4 = 120 ∧
    totalOn .phaseSwitch 60 150 (fun k => (k : Rat) * 60) 4 = 90 := by
  decide +kernel

/-! ### non-vacuity -/
example : totalOn .phaseSwitch 70 130 (fun k => (k : Rat) * 60) 4 = 60 ∧
          totalOn .phaseSwitch 61 (125/2) (fun k => (k : Rat) * 60) 3 = 3/2 ∧
          totalOn .phaseSwitch 645 735 (fun k => (k : Rat) * 60) 14 = 90 := by decide +kernel

end RV.Props.C15
