/-
C15 — finite burns thrust for exactly their configured interval.
-/
import RV.Model.Burn
import RV.Proofs.Burns
import Mathlib.Algebra.Order.Field.Rat
import Mathlib.Order.Lattice
import Mathlib.Tactic.Linarith
import Mathlib.Tactic.Ring
import Mathlib.Tactic.NormNum

namespace RV.Props.C15
open RV.Burn RV.Proofs.Burns

/-- position of `x` clipped into `[s, e]` -/
def clip (s e x : Rat) : Rat := min (max x s) e

/-- in every propagation call the thrust is on exactly on the part of `[s, e]` that lies in the
call — for a call that contains the start, the end, both, or neither — provided no call boundary
falls in the last nanosecond before the end (the callback's tolerance). -/
theorem callOn_is_overlap (s e t0 t1 : Rat) (hse : tol ≤ e - s) (ht : t0 < t1)
    (htol : ¬ (0 < e - t0 ∧ e - t0 < tol)) :
    duration (callOn .phaseSwitch s e t0 t1) = clip s e t1 - clip s e t0 ∧
    (∀ a b, callOn .phaseSwitch s e t0 t1 = some (a, b) → s ≤ a ∧ b ≤ e ∧ t0 ≤ a ∧ b ≤ t1 ∧ a ≤ b) := by
  have htolpos : (0 : Rat) < tol := by unfold tol; norm_num
  have hs_lt_e : s < e := by linarith
  unfold callOn clip duration
  simp only [Bool.and_eq_true, decide_eq_true_eq, Bool.not_eq_true', decide_eq_false_iff_not, not_lt]
  by_cases harm : (s < t0 ∧ t0 < e) ∧ tol ≤ e - t0
  · simp only [harm, and_self, if_true]
    obtain ⟨⟨h1, h2⟩, h3⟩ := harm
    constructor
    · by_cases he : e ≤ t1
      · simp only [he, if_true]
        rw [max_eq_left (by linarith : s ≤ t1), min_eq_right he, max_eq_left (le_of_lt h1), min_eq_left (le_of_lt h2)]
      · simp only [he, if_false]
        have : t1 < e := not_le.mp he
        rw [max_eq_left (by linarith : s ≤ t1), min_eq_left (le_of_lt this), max_eq_left (le_of_lt h1), min_eq_left (le_of_lt h2)]
    · intro a b hab
      by_cases he : e ≤ t1
      · simp only [he, if_true, Option.some.injEq, Prod.mk.injEq] at hab
        obtain ⟨rfl, rfl⟩ := hab
        exact ⟨le_of_lt h1, le_refl _, le_refl _, he, le_of_lt h2⟩
      · simp only [he, if_false, Option.some.injEq, Prod.mk.injEq] at hab
        obtain ⟨rfl, rfl⟩ := hab
        exact ⟨le_of_lt h1, le_of_lt (not_le.mp he), le_refl _, le_refl _, le_of_lt ht⟩
  · simp only [harm, if_false]
    by_cases hin : t0 ≤ s ∧ s ≤ t1
    · simp only [hin, and_self, if_true]
      have hnt : ¬ (e - s < tol) := not_lt.mpr hse
      simp only [hnt, if_false]
      obtain ⟨h1, h2⟩ := hin
      constructor
      · by_cases he : e ≤ t1
        · simp only [he, if_true]
          rw [max_eq_left h2, min_eq_right he, max_eq_right h1, min_eq_left (le_of_lt hs_lt_e)]
        · simp only [he, if_false]
          have : t1 < e := not_le.mp he
          rw [max_eq_left h2, min_eq_left (le_of_lt this), max_eq_right h1, min_eq_left (le_of_lt hs_lt_e)]
      · intro a b hab
        by_cases he : e ≤ t1
        · simp only [he, if_true, Option.some.injEq, Prod.mk.injEq] at hab
          obtain ⟨rfl, rfl⟩ := hab
          exact ⟨le_refl _, le_refl _, h1, he, le_of_lt hs_lt_e⟩
        · simp only [he, if_false, Option.some.injEq, Prod.mk.injEq] at hab
          obtain ⟨rfl, rfl⟩ := hab
          exact ⟨le_refl _, le_of_lt (not_le.mp he), h1, le_refl _, h2⟩
    · simp only [hin, if_false]
      refine ⟨?_, fun a b h => by cases h⟩
      -- not armed and the start is not in the call: the call lies before the start or at/after the end
      rcases not_and_or.mp hin with hn | hn
      · -- s < t0
        have hst : s < t0 := not_le.mp hn
        have : e ≤ t0 := by
          by_contra hc
          have hlt : t0 < e := not_le.mp hc
          have : ¬ (tol ≤ e - t0) := fun h => harm ⟨⟨hst, hlt⟩, h⟩
          exact htol ⟨by linarith, not_le.mp this⟩
        rw [max_eq_left (by linarith : s ≤ t1), min_eq_right (by linarith : e ≤ t1), max_eq_left (le_of_lt hst), min_eq_right this]
        ring
      · -- t1 < s
        have h1 : t1 < s := not_le.mp hn
        rw [max_eq_right (le_of_lt h1), min_eq_left (le_of_lt hs_lt_e), max_eq_right (by linarith : t0 ≤ s), min_eq_left (le_of_lt hs_lt_e)]
        ring

private theorem clip_mono (s e : Rat) {x y : Rat} (h : x ≤ y) : clip s e x ≤ clip s e y := by
  unfold clip; exact min_le_min (max_le_max h (le_refl _)) (le_refl _)

/-- **the thrust is on for exactly `end - start`**: over any division of the run into propagation
calls (any step size, aligned with the burn or not), the total time with thrust on is `e - s`, so
a constant acceleration `a` delivers `a·(e - s)`. -/
theorem burn_duration (s e : Rat) (t : Nat → Rat) (N : Nat) (hse : tol ≤ e - s)
    (ht : ∀ k, k < N → t k < t (k + 1)) (h0 : t 0 ≤ s) (hN : e ≤ t N)
    (htol : ∀ k, k < N → ¬ (0 < e - t k ∧ e - t k < tol)) :
    totalOn .phaseSwitch s e t N = e - s := by
  have hs_lt_e : s < e := by have : (0 : Rat) < tol := by unfold tol; norm_num
                             linarith
  have key : ∀ n, n ≤ N → totalOn .phaseSwitch s e t n = clip s e (t n) - clip s e (t 0) := by
    intro n
    induction n with
    | zero => intro _; simp [totalOn]
    | succ n ih =>
      intro hn
      have := (callOn_is_overlap s e (t n) (t (n + 1)) hse (ht n (by omega)) (htol n (by omega))).1
      rw [totalOn, ih (by omega), this]; ring
  rw [key N (le_refl N)]
  unfold clip
  rw [max_eq_left (by linarith : s ≤ t N), min_eq_right hN, max_eq_right h0, min_eq_left (le_of_lt hs_lt_e)]

/-- the unrepaired event function had no root at the end of the thrust: a burn from 60 s to 150 s
with 60 s steps thrust until 180 s (120 s instead of 90 s); the repaired one stops at 150 s. -/
theorem burn_overrun_unrepaired :
    totalOn .startRootOnly 60 150 (fun k => (k : Rat) * 60) 4 = 120 ∧
    totalOn .phaseSwitch 60 150 (fun k => (k : Rat) * 60) 4 = 90 := by
  decide +kernel

/-! ### several burns of one agent share one thrust slot -/

/-- **each burn thrusts on its own interval whatever else is queued**: when the burns of an agent do not touch,
then at every instant `t` of every propagation call the thrust slot holds burn `b` exactly when `t` lies in the
interval on which the one-burn model has `b` on - the other queued burns neither switch it off nor replace it. -/
theorem slot_is_own_interval (burns : List BurnIv) (hsep : Separated burns) (hlen : ∀ b ∈ burns, tol ≤ b.2 - b.1)
    (t0 t1 t : Rat) (h0 : t0 ≤ t) (h1 : t < t1) (b : BurnIv) :
    slotAt burns t0 t1 t = some b ↔
      b ∈ burns ∧ ∃ lo hi, callOn .phaseSwitch b.1 b.2 t0 t1 = some (lo, hi) ∧ lo ≤ t ∧ t < hi := by
  have hp := tol_pos
  -- the shape of `callOn` in terms of `armedAfterPrep`
  have hcall_armed : ∀ b : BurnIv, armedAfterPrep b t0 = true →
      callOn .phaseSwitch b.1 b.2 t0 t1 = some (t0, if b.2 ≤ t1 then b.2 else t1) := by
    intro b hb
    have := hb
    unfold armedAfterPrep at this
    unfold callOn
    simp only [this, if_true]
  have hcall_un : ∀ b : BurnIv, armedAfterPrep b t0 = false →
      callOn .phaseSwitch b.1 b.2 t0 t1 =
        if t0 ≤ b.1 ∧ b.1 ≤ t1 then (if b.2 - b.1 < tol then none else some (b.1, if b.2 ≤ t1 then b.2 else t1)) else none := by
    intro b hb
    have := hb
    unfold armedAfterPrep at this
    unfold callOn
    simp only [this, Bool.false_eq_true, if_false]
  -- a root of another burn cannot lie inside this burn's interval
  have hforeign : ∀ b ∈ burns, ∀ b' ∈ burns, ∀ c ∈ rootsOf b' t0 t1, b.1 ≤ c.time → c.time ≤ b.2 → b' = b := by
    intro b hb b' hb' c hc hlo hhi
    by_contra hne
    obtain ⟨_, _, h3, h4, _⟩ := rootsOf_time (hlen b' hb') hc
    rcases hsep.of_mem hb' hb hne with h | h <;> linarith
  unfold slotAt slotAtWith
  constructor
  · intro h
    cases hl : latest (allRoots burns t0 t1) t with
    | none =>
      rw [hl] at h
      have hall := (latest_none_iff _ _).mp hl
      obtain ⟨hb, harm⟩ := (prepSlot_eq_some_iff hsep t0 b).mp h
      obtain ⟨⟨hs, he⟩, _⟩ := (armed_iff b t0).mp harm
      refine ⟨hb, t0, (if b.2 ≤ t1 then b.2 else t1), hcall_armed b harm, h0, ?_⟩
      by_cases het : b.2 ≤ t1
      · simp only [het, if_true]
        by_contra hc
        have hmem : (⟨b.2, none⟩ : Change) ∈ allRoots burns t0 t1 := by
          unfold allRoots
          refine List.mem_flatMap.mpr ⟨b, hb, ?_⟩
          unfold rootsOf
          simp only [harm, if_true, het, List.mem_singleton]
        have := hall _ hmem
        simp only at this
        linarith [not_lt.mp hc]
      · simp only [het, if_false]; exact h1
    | some c =>
      rw [hl] at h
      simp only at h
      obtain ⟨hc1, hc2, hc3⟩ := latest_some hl
      unfold allRoots at hc1
      obtain ⟨b', hb', hcb'⟩ := List.mem_flatMap.mp hc1
      rcases mem_rootsOf (hlen b' hb') hcb' with ⟨_, _, rfl⟩ | ⟨hun, hs0, hs1, rfl⟩ | ⟨_, _, _, rfl⟩
      · simp only at h; cases h
      · simp only [Option.some.injEq] at h
        subst h
        have hnt : ¬ (b'.2 - b'.1 < tol) := not_lt.mpr (hlen b' hb')
        refine ⟨hb', b'.1, (if b'.2 ≤ t1 then b'.2 else t1), ?_, hc2, ?_⟩
        · rw [hcall_un b' hun]; simp only [hs0, hs1, and_self, if_true, hnt, if_false]
        · by_cases het : b'.2 ≤ t1
          · simp only [het, if_true]
            by_contra hc
            have hmem : (⟨b'.2, none⟩ : Change) ∈ allRoots burns t0 t1 := by
              unfold allRoots
              refine List.mem_flatMap.mpr ⟨b', hb', ?_⟩
              unfold rootsOf
              simp [hun, hs0, hs1, hnt, het]
            have := hc3 _ hmem (by simpa using not_lt.mp hc)
            simp only at this
            linarith [hlen b' hb']
          · simp only [het, if_false]; exact h1
      · simp only at h; cases h
  · rintro ⟨hb, lo, hi, hcall, hlo, hhi⟩
    have hse : b.1 < b.2 := by linarith [hlen b hb]
    by_cases harm : armedAfterPrep b t0 = true
    · rw [hcall_armed b harm] at hcall
      simp only [Option.some.injEq, Prod.mk.injEq] at hcall
      obtain ⟨rfl, rfl⟩ := hcall
      obtain ⟨⟨hs, he⟩, _⟩ := (armed_iff b t0).mp harm
      have hte : t < b.2 := by
        by_cases het : b.2 ≤ t1
        · simpa only [het, if_true] using hhi
        · linarith [not_le.mp het]
      -- no root has fired yet
      have hnone : latest (allRoots burns t0 t1) t = none := by
        rw [latest_none_iff]
        intro c hc
        unfold allRoots at hc
        obtain ⟨b', hb', hcb'⟩ := List.mem_flatMap.mp hc
        by_contra hct
        have hct := not_lt.mp hct
        obtain ⟨hc0, _, _, _, _⟩ := rootsOf_time (hlen b' hb') hcb'
        have hbb : b' = b := hforeign b hb b' hb' c hcb' (by linarith) (by linarith)
        subst hbb
        unfold rootsOf at hcb'
        simp only [harm, if_true] at hcb'
        by_cases het : b'.2 ≤ t1
        · simp only [het, if_true, List.mem_singleton] at hcb'
          subst hcb'
          simp only at hct
          linarith
        · simp only [het, if_false, List.not_mem_nil] at hcb'
      rw [hnone]
      exact (prepSlot_eq_some_iff hsep t0 b).mpr ⟨hb, harm⟩
    · have hun : armedAfterPrep b t0 = false := by simpa using harm
      rw [hcall_un b hun] at hcall
      by_cases hin : t0 ≤ b.1 ∧ b.1 ≤ t1
      · have hnt : ¬ (b.2 - b.1 < tol) := not_lt.mpr (hlen b hb)
        simp only [hin, and_self, if_true, hnt, if_false, Option.some.injEq, Prod.mk.injEq] at hcall
        obtain ⟨rfl, rfl⟩ := hcall
        have hte : t < b.2 := by
          by_cases het : b.2 ≤ t1
          · simpa only [het, if_true] using hhi
          · linarith [not_le.mp het]
        have hon : (⟨b.1, some b⟩ : Change) ∈ allRoots burns t0 t1 := by
          unfold allRoots
          refine List.mem_flatMap.mpr ⟨b, hb, ?_⟩
          unfold rootsOf
          simp only [hun, Bool.false_eq_true, if_false, hin, and_self, if_true, hnt, List.mem_cons, true_or]
        cases hl : latest (allRoots burns t0 t1) t with
        | none =>
          have := (latest_none_iff _ _).mp hl _ hon
          simp only at this
          linarith
        | some c =>
          simp only
          obtain ⟨hc1, hc2, hc3⟩ := latest_some hl
          have hge := hc3 _ hon hlo
          simp only at hge
          unfold allRoots at hc1
          obtain ⟨b', hb', hcb'⟩ := List.mem_flatMap.mp hc1
          have hbb : b' = b := hforeign b hb b' hb' c hcb' hge (by linarith)
          subst hbb
          rcases mem_rootsOf (hlen b' hb') hcb' with ⟨ha, _, _⟩ | ⟨_, _, _, rfl⟩ | ⟨_, _, _, rfl⟩
          · rw [ha] at hun; cases hun
          · rfl
          · simp only at hc2; linarith
      · simp only [hin, if_false] at hcall; cases hcall

/-- hence every one of several separated burns is on for exactly its own `end - start`, over any division into calls
(`burn_duration` applies to each, the slot being that burn's exactly on its own intervals). -/
theorem each_burn_own_duration (burns : List BurnIv) (hsep : Separated burns) (hlen : ∀ b ∈ burns, tol ≤ b.2 - b.1)
    (t : Nat → Rat) (N : Nat) (ht : ∀ k, k < N → t k < t (k + 1)) (b : BurnIv) (hb : b ∈ burns)
    (h0 : t 0 ≤ b.1) (hN : b.2 ≤ t N) (htol : ∀ k, k < N → ¬ (0 < b.2 - t k ∧ b.2 - t k < tol)) :
    totalOn .phaseSwitch b.1 b.2 t N = b.2 - b.1 ∧
    ∀ k, k < N → ∀ x, t k ≤ x → x < t (k + 1) →
      (slotAt burns (t k) (t (k + 1)) x = some b ↔
        ∃ lo hi, callOn .phaseSwitch b.1 b.2 (t k) (t (k + 1)) = some (lo, hi) ∧ lo ≤ x ∧ x < hi) := by
  refine ⟨burn_duration b.1 b.2 t N (hlen b hb) ht h0 hN htol, ?_⟩
  intro k _ x hx0 hx1
  rw [slot_is_own_interval burns hsep hlen (t k) (t (k + 1)) x hx0 hx1 b]
  exact ⟨fun h => h.2, fun h => ⟨hb, h⟩⟩

/-- the single slot is why the hypothesis is needed, and why `_prepEvents` must leave the slot alone for burns that
are not under way: (1) with *overlapping* burns the end of the inner one empties the slot while the outer one should
still thrust (outside the property: it speaks of a burn, not of simultaneous ones); (2) a `_prepEvents` that writes
`None` for every burn not under way lets a later queued burn switch off the one that is (a seeded change). -/
theorem slot_witnesses :
    slotAt [(10, 100), (20, 30)] 0 60 40 = none ∧
    slotAt [(10, 100), (120, 130)] 60 120 70 = some (10, 100) ∧
    slotAtWith .clobber [(10, 100), (120, 130)] 60 120 70 = none ∧
    slotAtWith .clobber [(120, 130), (10, 100)] 60 120 70 = some (10, 100) := by
  decide +kernel

example : Separated [(10, 100), (120, 130)] ∧ (∀ b ∈ [((10 : Rat), (100 : Rat)), (120, 130)], tol ≤ b.2 - b.1) := by
  refine ⟨by unfold Separated; simp; norm_num, ?_⟩
  intro b hb
  simp only [List.mem_cons, List.not_mem_nil, or_false] at hb
  rcases hb with rfl | rfl <;> (unfold tol; norm_num)

/-! ### non-vacuity -/
example : totalOn .phaseSwitch 70 130 (fun k => (k : Rat) * 60) 4 = 60 ∧
          totalOn .phaseSwitch 61 (125/2) (fun k => (k : Rat) * 60) 3 = 3/2 ∧
          totalOn .phaseSwitch 645 735 (fun k => (k : Rat) * 60) 14 = 90 := by decide +kernel

end RV.Props.C15
