/-
C03 — orbit propagation is composable, batch-consistent, Kepler-exact and conservative.

The integrator is an abstract lawful flow; the theorems are about what the code builds around it.
-/
import RV.Model.Propagate
import RV.Proofs.F64
import Mathlib.Tactic.Ring
import Mathlib.Tactic.Linarith
import Mathlib.Tactic.LinearCombination
import Mathlib.Algebra.Order.Field.Rat
import Mathlib.Algebra.Order.Field.Basic
import Mathlib.Data.List.Basic

namespace RV.Props.C03
open RV RV.Propagate

/-! ### batch layout -/

theorem flat_index (K i j : Nat) (hj : j < K) : flatIdx K i j / K = i ∧ flatIdx K i j % K = j := by
  unfold flatIdx
  have hK : 0 < K := Nat.lt_of_le_of_lt (Nat.zero_le _) hj
  constructor
  · rw [Nat.add_comm, Nat.add_mul_div_right _ _ hK, Nat.div_eq_of_lt hj, Nat.zero_add]
  · rw [Nat.add_comm, Nat.add_mul_mod_self_right, Nat.mod_eq_of_lt hj]

/-- **the position slice** `state[jj : jj+half : step]` touches exactly rows 0,1,2 of column `jj` -/
theorem pos_slice (K jj : Nat) (hK : 0 < K) :
    posSlice K jj = [flatIdx K 0 jj, flatIdx K 1 jj, flatIdx K 2 jj] := by
  unfold posSlice sliceIdx flatIdx
  have h : (jj + 3 * K - jj + K - 1) / K = 3 := by
    apply Nat.div_eq_of_lt_le <;> omega
  rw [h]
  simp [List.range, List.range.loop]
  omega

/-- **the velocity slice** `state[jj+half :: step]` touches exactly rows 3,4,5 of column `jj` -/
theorem vel_slice (K jj : Nat) (hjj : jj < K) :
    velSlice K jj = [flatIdx K 3 jj, flatIdx K 4 jj, flatIdx K 5 jj] := by
  unfold velSlice sliceIdx flatIdx
  have h : (6 * K - (jj + 3 * K) + K - 1) / K = 3 := by
    apply Nat.div_eq_of_lt_le <;> omega
  rw [h]
  simp [List.range, List.range.loop]
  omega

/-- reading a column back out of the flattened batch through the code's two strided views -/
theorem column_read (X : Nat → Nat → Rat) (K jj : Nat) (hjj : jj < K) :
    (fun r => if r < 3 then sliceGet (flatOf X K) jj K r else sliceGet (flatOf X K) (jj + 3 * K) K (r - 3))
      = fun r => X r jj := by
  funext r
  have key : ∀ n, flatOf X K (jj + n * K) = X n jj := by
    intro n
    have := flat_index K n jj hjj
    unfold flatIdx at this
    unfold flatOf
    rw [Nat.add_comm jj (n * K), this.1, this.2]
  by_cases h : r < 3
  · simp only [h, if_true, sliceGet]; exact key r
  · simp only [h, if_false, sliceGet]
    have : jj + 3 * K + (r - 3) * K = jj + r * K := by
      have : r = 3 + (r - 3) := by omega
      conv_rhs => rw [this]
      ring
    rw [this]; exact key r

/-- **batch consistency**: the derivative of a flattened batch is the flattened batch of the per-column
derivatives — each column is advanced by its own state only, whatever the batch size -/
theorem batch_deriv (acc : (Nat → Rat) → Nat → Rat) (X : Nat → Nat → Rat) (K : Nat) (idx : Nat) (hK : 0 < K) :
    batchDeriv acc K (flatOf X K) idx = flatOf (fun i j => colDeriv acc (fun r => X r j) i) K idx := by
  unfold batchDeriv
  simp only
  rw [column_read X K (idx % K) (Nat.mod_lt _ hK)]
  rfl

/-- a column's derivative does not depend on the other columns of the batch -/
theorem batch_noninterference (acc : (Nat → Rat) → Nat → Rat) (X Y : Nat → Nat → Rat) (K j : Nat) (hj : j < K)
    (h : ∀ r, X r j = Y r j) (i : Nat) :
    batchDeriv acc K (flatOf X K) (flatIdx K i j) = batchDeriv acc K (flatOf Y K) (flatIdx K i j) := by
  have hK : 0 < K := Nat.lt_of_le_of_lt (Nat.zero_le _) hj
  rw [batch_deriv acc X K _ hK, batch_deriv acc Y K _ hK]
  unfold flatOf
  rw [(flat_index K i j hj).1, (flat_index K i j hj).2]
  have : (fun r => X r j) = fun r => Y r j := funext h
  simp only [this]

/-! ### the restart loop -/

section loop
variable {S : Type}

/-- a lawful flow: staying put does nothing, and going on from an intermediate time is the same as going straight -/
structure Lawful (Φ : Rat → Rat → S → S) : Prop where
  id : ∀ t x, Φ t t x = x
  comp : ∀ a b c x, a ≤ b → b ≤ c → Φ b c (Φ a b x) = Φ a c x

/-- events in time order, none before `t` -/
def Ordered (es : List (Rat × (S → S))) (t : Rat) : Prop :=
  es.Pairwise (fun a b => a.1 ≤ b.1) ∧ ∀ e ∈ es, t ≤ e.1

theorem ordered_tail {e : Rat × (S → S)} {es : List (Rat × (S → S))} {t : Rat} (h : Ordered (e :: es) t) :
    Ordered es e.1 := by
  obtain ⟨hp, _⟩ := h
  rw [List.pairwise_cons] at hp
  exact ⟨hp.2, fun x hx => hp.1 x hx⟩

/-- with no event in the span the loop is the flow -/
theorem run_no_events (Φ : Rat → Rat → S → S) (t0 t1 : Rat) (x : S) : run Φ [] t0 t1 x = Φ t0 t1 x := rfl

theorem run_all_late (Φ : Rat → Rat → S → S) (es : List (Rat × (S → S))) (t0 t1 : Rat) (x : S)
    (h : ∀ e ∈ es, t1 < e.1) : run Φ es t0 t1 x = Φ t0 t1 x := by
  cases es with
  | nil => rfl
  | cons e rest =>
    have := h e List.mem_cons_self
    simp only [run, not_le.mpr this, if_false]

/-- **composability**: propagating to `tm` and then on to `t1` equals propagating straight to `t1`, for every
intermediate `tm`, with any sequence of state-jump events (each applied once, in the half it falls in) -/
theorem run_compose (Φ : Rat → Rat → S → S) (hΦ : Lawful Φ) (es : List (Rat × (S → S))) (t0 tm t1 : Rat) (x : S)
    (h0 : t0 ≤ tm) (h1 : tm ≤ t1) (ho : Ordered es t0) :
    run Φ es t0 t1 x
      = run Φ (es.filter fun e => decide (tm < e.1)) tm t1 (run Φ (es.filter fun e => decide (e.1 ≤ tm)) t0 tm x) := by
  induction es generalizing t0 x with
  | nil => simp only [List.filter_nil, run]; exact (hΦ.comp t0 tm t1 x h0 h1).symm
  | cons e rest ih =>
    obtain ⟨te, j⟩ := e
    have hte : t0 ≤ te := ho.2 _ List.mem_cons_self
    have hrest := ordered_tail ho
    by_cases hm : te ≤ tm
    · have hl : te ≤ t1 := le_trans hm h1
      have f1 : ((te, j) :: rest).filter (fun e => decide (e.1 ≤ tm)) = (te, j) :: rest.filter (fun e => decide (e.1 ≤ tm)) := by
        simp [List.filter_cons, hm]
      have f2 : ((te, j) :: rest).filter (fun e => decide (tm < e.1)) = rest.filter (fun e => decide (tm < e.1)) := by
        simp [List.filter_cons, not_lt.mpr hm]
      rw [f1, f2]
      simp only [run, hl, hm, if_true]
      exact ih te (j (Φ t0 te x)) hm hrest
    · have hm' : tm < te := not_le.mp hm
      have hall : ∀ e ∈ rest, tm < e.1 := fun e he => lt_of_lt_of_le hm' (hrest.2 e he)
      have f1 : ((te, j) :: rest).filter (fun e => decide (e.1 ≤ tm)) = [] := by
        rw [List.filter_eq_nil_iff]
        intro e he
        rcases List.mem_cons.mp he with rfl | he'
        · simpa using hm'
        · simpa using hall e he'
      have f2 : ((te, j) :: rest).filter (fun e => decide (tm < e.1)) = (te, j) :: rest := by
        rw [List.filter_eq_self]
        intro e he
        rcases List.mem_cons.mp he with rfl | he'
        · simpa using hm'
        · simpa using hall e he'
      rw [f1, f2]
      simp only [run]
      by_cases hl : te ≤ t1
      · simp only [hl, if_true]
        rw [hΦ.comp t0 tm te x h0 (le_of_lt hm')]
      · simp only [hl, if_false]
        exact (hΦ.comp t0 tm t1 x h0 h1).symm

/-- events of `(t0, t1]` split at `tm` -/
theorem run_compose_window (Φ : Rat → Rat → S → S) (hΦ : Lawful Φ) (es : List (Rat × (S → S))) (t0 tm t1 : Rat) (x : S)
    (h0 : t0 ≤ tm) (h1 : tm ≤ t1) (hs : es.Pairwise (fun a b => a.1 ≤ b.1)) :
    run Φ (es.filter fun e => decide (t0 < e.1) && decide (e.1 ≤ t1)) t0 t1 x
      = run Φ (es.filter fun e => decide (tm < e.1) && decide (e.1 ≤ t1)) tm t1
          (run Φ (es.filter fun e => decide (t0 < e.1) && decide (e.1 ≤ tm)) t0 tm x) := by
  have ho : Ordered (es.filter fun e => decide (t0 < e.1) && decide (e.1 ≤ t1)) t0 := by
    refine ⟨hs.sublist List.filter_sublist, ?_⟩
    intro e he
    have := (List.mem_filter.mp he).2
    simp only [Bool.and_eq_true, decide_eq_true_eq] at this
    exact le_of_lt this.1
  rw [run_compose Φ hΦ _ t0 tm t1 x h0 h1 ho, List.filter_filter, List.filter_filter]
  have e1 : (fun e : Rat × (S → S) => decide (tm < e.1) && (decide (t0 < e.1) && decide (e.1 ≤ t1)))
      = fun e => decide (tm < e.1) && decide (e.1 ≤ t1) := by
    funext e
    by_cases a : tm < e.1
    · have : t0 < e.1 := lt_of_le_of_lt h0 a
      simp [a, this]
    · simp [a]
  have e2 : (fun e : Rat × (S → S) => decide (e.1 ≤ tm) && (decide (t0 < e.1) && decide (e.1 ≤ t1)))
      = fun e => decide (t0 < e.1) && decide (e.1 ≤ tm) := by
    funext e
    by_cases a : e.1 ≤ tm
    · have : e.1 ≤ t1 := le_trans a h1
      simp [a, this]
    · simp [a]
  rw [e1, e2]

/-- **bulk output equals separate calls**: the `n`-th state `propagateBulk` returns is the state a single
`propagate` from the start to the `n`-th requested time returns -/
theorem bulk_eq_sequence (Φ : Rat → Rat → S → S) (hΦ : Lawful Φ) (es : List (Rat × (S → S)))
    (hs : es.Pairwise (fun a b => a.1 ≤ b.1)) (ts : List Rat) (t0 : Rat) (x : S)
    (hts : (t0 :: ts).Pairwise (· ≤ ·)) (n : Nat) :
    (bulk Φ es t0 ts x)[n]? = (ts[n]?).map fun tn =>
      run Φ (es.filter fun e => decide (t0 < e.1) && decide (e.1 ≤ tn)) t0 tn x := by
  induction ts generalizing t0 x n with
  | nil => simp [bulk]
  | cons tk rest ih =>
    rw [List.pairwise_cons] at hts
    have h0k : t0 ≤ tk := hts.1 tk List.mem_cons_self
    cases n with
    | zero => simp [bulk]
    | succ n =>
      simp only [bulk, List.getElem?_cons_succ]
      rw [ih tk _ hts.2 n]
      cases hn : rest[n]? with
      | none => rfl
      | some tn =>
        simp only [Option.map_some]
        have hk : tk ≤ tn := by
          have hmem : tn ∈ rest := List.mem_of_getElem? hn
          have := hts.2
          rw [List.pairwise_cons] at this
          exact this.1 tn hmem
        rw [run_compose_window Φ hΦ es t0 tk tn x h0k hk hs]

end loop

/-! ### closed-form two-body solution -/

/-- **angular momentum**: `(f r₀ + g v₀) × (ḟ r₀ + ġ v₀) = (f ġ − ḟ g) (r₀ × v₀)`: the solver's own acceptance
test `f ġ − ḟ g = 1` is exactly conservation of the angular momentum vector -/
theorem fg_angular_momentum (f g fd gd : Rat) (r0 v0 : V3) :
    (lagrange f g fd gd r0 v0).1.cross (lagrange f g fd gd r0 v0).2 = V3.smul (f * gd - fd * g) (r0.cross v0) := by
  obtain ⟨a, b, c⟩ := r0
  obtain ⟨d, e, h⟩ := v0
  simp only [lagrange, V3.cross, V3.add, V3.smul, V3.mk.injEq]
  refine ⟨by ring, by ring, by ring⟩

theorem kepler_conserves_h (f g fd gd : Rat) (r0 v0 : V3) (h : f * gd - fd * g = 1) :
    (lagrange f g fd gd r0 v0).1.cross (lagrange f g fd gd r0 v0).2 = r0.cross v0 := by
  rw [fg_angular_momentum, h]
  obtain ⟨a, b, c⟩ := r0.cross v0
  simp [V3.smul]

/-- two Kepler steps compose to a map of the same form whose determinant is the product: a split propagation
that passes the test in each half passes it as a whole -/
theorem lagrange_compose (f1 g1 fd1 gd1 f2 g2 fd2 gd2 : Rat) (r0 v0 : V3) :
    lagrange f2 g2 fd2 gd2 (lagrange f1 g1 fd1 gd1 r0 v0).1 (lagrange f1 g1 fd1 gd1 r0 v0).2
      = lagrange (f2 * f1 + g2 * fd1) (f2 * g1 + g2 * gd1) (fd2 * f1 + gd2 * fd1) (fd2 * g1 + gd2 * gd1) r0 v0 ∧
    (f2 * f1 + g2 * fd1) * (fd2 * g1 + gd2 * gd1) - (fd2 * f1 + gd2 * fd1) * (f2 * g1 + g2 * gd1)
      = (f2 * gd2 - fd2 * g2) * (f1 * gd1 - fd1 * g1) := by
  obtain ⟨a, b, c⟩ := r0
  obtain ⟨d, e, h⟩ := v0
  refine ⟨?_, by ring⟩
  simp only [lagrange, V3.add, V3.smul, Prod.mk.injEq, V3.mk.injEq]
  refine ⟨⟨by ring, by ring, by ring⟩, ⟨by ring, by ring, by ring⟩⟩

/-! ### epoch arithmetic -/

open RV.F64 RV.Proofs.F64 in
/-- **the epoch does not depend on how it is split** between start date and elapsed seconds beyond rounding:
moving `δ` seconds from the elapsed time into the start epoch changes the Julian date the force model sees by at
most three units in the last place of a present-day Julian date (`3·2⁻³² d ≈ 6e-5 s`) -/
theorem epoch_split (jd0 δ t : Rat)
    (h1 : |jd0 + fdiv δ 86400| < pow2 22) (h2 : |epoch jd0 δ + fdiv (t - δ) 86400| < pow2 22)
    (h3 : |jd0 + fdiv t 86400| < pow2 22)
    (hδ : |δ / 86400| < pow2 10) (htδ : |(t - δ) / 86400| < pow2 10) (ht : |t / 86400| < pow2 10) :
    |epoch (epoch jd0 δ) (t - δ) - epoch jd0 t| ≤ 3 * pow2 (-32) + 3 * pow2 (-44) := by
  have e1 := abs_le.mp (rn_err_le (δ / 86400) 9 (by simpa using hδ))
  have e2 := abs_le.mp (rn_err_le ((t - δ) / 86400) 9 (by simpa using htδ))
  have e3 := abs_le.mp (rn_err_le (t / 86400) 9 (by simpa using ht))
  have e4 := abs_le.mp (rn_err_le (jd0 + fdiv δ 86400) 21 (by simpa using h1))
  have e5 := abs_le.mp (rn_err_le (epoch jd0 δ + fdiv (t - δ) 86400) 21 (by simpa using h2))
  have e6 := abs_le.mp (rn_err_le (jd0 + fdiv t 86400) 21 (by simpa using h3))
  have p1 : pow2 (9 - 53) = pow2 (-44) := by norm_num
  have p2 : pow2 (21 - 53) = pow2 (-32) := by norm_num
  rw [p1] at e1 e2 e3
  rw [p2] at e4 e5 e6
  have hz : δ / 86400 + (t - δ) / 86400 - t / 86400 = 0 := by ring
  simp only [epoch, fadd, fdiv] at *
  rw [abs_le]
  constructor <;> linarith

end RV.Props.C03
