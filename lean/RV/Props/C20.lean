/-
C20 — Lambert solutions and orbit determination reproduce the arc they were given.
-/
import RV.Model.Lambert
import RV.Props.C04
import RV.Props.C03
import Mathlib.Tactic.Ring
import Mathlib.Tactic.FieldSimp
import Mathlib.Tactic.Linarith
import Mathlib.Tactic.LinearCombination
import Mathlib.Tactic.NormNum

namespace RV.Props.C20
open RV RV.Frames RV.Lambert RV.Propagate RV.Props.C04

/-- **the returned velocities close the arc**: for any Lagrange coefficients `f, g, ġ` with `g ≠ 0` that the
iteration ends with, propagating `(r₁, v₁)` with the coefficient set completed by `ḟ = (f ġ − 1)/g` (i.e.
`f ġ − ḟ g = 1`) arrives exactly at `r₂` with exactly the returned final velocity `v₂` -/
theorem lambert_arc_closed (f g gd : Rat) (r1 r2 : V3) (hg : g ≠ 0) :
    let v := calcVelocities f g gd r1 r2
    lagrange f g ((f * gd - 1) / g) gd r1 v.1 = (r2, v.2) := by
  obtain ⟨a, b, c⟩ := r1
  obtain ⟨p, q, s⟩ := r2
  simp only [calcVelocities, lagrange, V3.smul, V3.sub, V3.add, Prod.mk.injEq, V3.mk.injEq]
  refine ⟨⟨?_, ?_, ?_⟩, ⟨?_, ?_, ?_⟩⟩ <;> field_simp <;> ring

/-- the completed coefficient set satisfies the Kepler solver's own acceptance test -/
theorem lambert_det (f g gd : Rat) (hg : g ≠ 0) : f * gd - ((f * gd - 1) / g) * g = 1 := by
  field_simp; ring

/-- both ends of the returned arc carry the same angular momentum, `(r₁ × r₂)/g` -/
theorem lambert_h (f g gd : Rat) (r1 r2 : V3) (hg : g ≠ 0) :
    let v := calcVelocities f g gd r1 r2
    r1.cross v.1 = V3.smul (1 / g) (r1.cross r2) ∧ r2.cross v.2 = V3.smul (1 / g) (r1.cross r2) := by
  obtain ⟨a, b, c⟩ := r1
  obtain ⟨p, q, s⟩ := r2
  simp only [calcVelocities, V3.smul, V3.sub, V3.cross, V3.mk.injEq]
  refine ⟨⟨?_, ?_, ?_⟩, ⟨?_, ?_, ?_⟩⟩ <;> field_simp <;> ring

/-- the transfer plane: both returned velocities lie in the plane of `r₁` and `r₂` -/
theorem lambert_in_plane (f g gd : Rat) (r1 r2 : V3) :
    let v := calcVelocities f g gd r1 r2
    v.1.dot (r1.cross r2) = 0 ∧ v.2.dot (r1.cross r2) = 0 := by
  obtain ⟨a, b, c⟩ := r1
  obtain ⟨p, q, s⟩ := r2
  simp only [calcVelocities, V3.smul, V3.sub, V3.cross, V3.dot]
  constructor <;> ring

/-! ### observation inversion -/

/-- **`radarObs2eciPosition` inverts the measurement model**: with orthogonal frame matrices (and their transposes
used on the way back) the recovered position is the target's, for every site and target -/
theorem radar_inversion (E S : M3) (hE : E.transpose.mul E = M3.one) (hS : S.transpose.mul S = M3.one) (sensor target : V3) :
    radarObs2eci E.transpose S.transpose sensor (slantSez E S sensor target) = target := by
  unfold radarObs2eci slantSez
  rw [← mulVec_mul S.transpose S, hS, mulVec_one, ← mulVec_mul E.transpose E, hE, mulVec_one]
  obtain ⟨a, b, c⟩ := sensor
  obtain ⟨p, q, s⟩ := target
  simp only [V3.add, V3.sub, V3.mk.injEq]
  refine ⟨by ring, by ring, by ring⟩

/-- the spherical part: range/azimuth/elevation → SEZ → back is the identity (C04), so the whole chain
observation → position is the inverse of position → observation -/
theorem razel_roundtrip (p : Sph) (hρ : 0 < p.rho) (hc : 0 < p.cth)
    (hth : p.cth * p.cth + p.sth * p.sth = 1) (hph : p.cph * p.cph + p.sph * p.sph = 1) :
    sez2razel (razel2sez p) p.rho (p.rho * p.cth) = p := razel_sez_inverse p hρ hc hth hph

/-- a wrong frame matrix on the way back (here: not transposed) does not invert: witness -/
theorem radar_inversion_needs_transpose :
    radarObs2eci (rot3 (3/5) (4/5)) M3.one ⟨0, 0, 0⟩ (slantSez (rot3 (3/5) (4/5)) M3.one ⟨0, 0, 0⟩ ⟨1, 0, 0⟩) ≠ ⟨1, 0, 0⟩ := by
  simp only [radarObs2eci, slantSez, rot3, M3.one, M3.mulVec, V3.dot, V3.sub, V3.add]
  intro h
  simp only [V3.mk.injEq] at h
  norm_num at h

/-! ### selection logic -/

theorem direction_short_iff (transit period : Rat) :
    (transferDirection transit period = 1 ↔ transit < period / 2) ∧
    (transferDirection transit period = -1 ↔ transit > period / 2) := by
  unfold transferDirection
  constructor
  · constructor
    · intro h; by_contra hn; simp only [hn, if_false] at h; split_ifs at h <;> simp at h
    · intro h; simp [h]
  · constructor
    · intro h; by_cases h1 : transit < period / 2
      · simp [h1] at h
      · simp only [h1, if_false] at h; by_contra hn; simp [hn] at h
    · intro h
      have : ¬ transit < period / 2 := not_lt.mpr (le_of_lt h)
      simp [this, h]

theorem single_pass_iff (transit period : Rat) (h0 : 0 < transit) :
    singlePass transit period = some (some transit) ↔ transit < period := by
  unfold singlePass
  constructor
  · intro h; by_contra hn
    have : transit ≥ period := not_lt.mp hn
    simp [this] at h
  · intro h
    have h1 : ¬ transit ≥ period := not_le.mpr h
    have h2 : ¬ transit ≤ 0 := not_le.mpr h0
    simp [h1, h2]

/-- the IOD starts from a stored observation that lies inside the window, and no later one inside the window exists after it in the ordered result -/
theorem previous_in_window (stored : List (Rat × Nat)) (lo hi : Rat) (o : Rat × Nat)
    (h : previousObservation stored lo hi = some o) : o ∈ stored ∧ lo ≤ o.1 ∧ o.1 ≤ hi := by
  unfold previousObservation at h
  have hm := List.mem_of_getLast? h
  have := List.mem_filter.mp hm
  simp only [Bool.and_eq_true, decide_eq_true_eq] at this
  exact ⟨this.1, this.2.1, this.2.2⟩

/-! ### non-vacuity -/
example : (2 : Rat) ≠ 0 ∧ transferDirection 10 100 = 1 ∧ transferDirection 60 100 = -1 := by
  refine ⟨by norm_num, ?_, ?_⟩
  · exact (direction_short_iff 10 100).1.2 (by norm_num)
  · exact (direction_short_iff 60 100).2.2 (by norm_num)

end RV.Props.C20
