/-
C09 — the output database is complete, duplicate-free and referentially consistent.
-/
import RV.Model.Database
import Mathlib.Data.List.Basic
import Mathlib.Data.List.Nodup
import Mathlib.Tactic.Linarith
import Mathlib.Tactic.Ring

namespace RV.Props.C09
open RV.Database

/-- referential consistency of a simulation state: every stored row refers to a stored epoch,
epochs are unique, and every row still waiting to be saved refers to an epoch that is either
stored already or waiting to be inserted with it. -/
structure Inv (s : Sim) : Prop where
  nodup : s.db.epochs.Nodup
  truth : ∀ r ∈ s.db.truth, r.2 ∈ s.db.epochs
  est : ∀ r ∈ s.db.est, r.2 ∈ s.db.epochs
  trans : ∀ r ∈ s.db.trans, r.2 ∈ s.db.epochs
  pending : ∀ r ∈ s.pendingTrans, r.2 ∈ s.db.epochs ∨ r.2 ∈ s.pendingEpochs

private theorem insertMissing_spec (es : List Nat) : ∀ (epochs : List Nat), epochs.Nodup →
    (insertMissing epochs es).Nodup ∧ (∀ x, x ∈ insertMissing epochs es ↔ x ∈ epochs ∨ x ∈ es) := by
  induction es with
  | nil => intro epochs h; exact ⟨h, fun x => by simp [insertMissing]⟩
  | cons e es ih =>
    intro epochs h
    simp only [insertMissing]
    split
    · rename_i hmem
      obtain ⟨h1, h2⟩ := ih epochs h
      refine ⟨h1, fun x => ?_⟩
      rw [h2 x]; simp only [List.mem_cons]
      constructor
      · rintro (h | h); exact Or.inl h; exact Or.inr (Or.inr h)
      · rintro (h | h | h); exact Or.inl h; exact Or.inl (h ▸ hmem); exact Or.inr h
    · rename_i hmem
      have hnd : (epochs ++ [e]).Nodup := by
        rw [List.nodup_append]
        exact ⟨h, by simp, fun a ha b hb => by simp at hb; subst hb; exact fun hab => hmem (hab ▸ ha)⟩
      obtain ⟨h1, h2⟩ := ih (epochs ++ [e]) hnd
      refine ⟨h1, fun x => ?_⟩
      rw [h2 x]; simp only [List.mem_append, List.mem_cons, List.mem_singleton, List.not_mem_nil, or_false]
      constructor
      · rintro ((h | h) | h); exact Or.inl h; exact Or.inr (Or.inl h); exact Or.inr (Or.inr h)
      · rintro (h | h | h); exact Or.inl (Or.inl h); exact Or.inl (Or.inr h); exact Or.inr h

/-- saving keeps the database referentially consistent -/
theorem save_inv (s : Sim) (h : Inv s) : Inv (save .recordStepped s) := by
  obtain ⟨hn, ht, he, htr, hp⟩ := h
  obtain ⟨h1, h2⟩ := insertMissing_spec (s.pendingEpochs ++ [s.time]) s.db.epochs hn
  refine ⟨h1, ?_, ?_, ?_, ?_⟩
  · intro r hr
    simp only [save, List.mem_append, List.mem_map] at hr ⊢
    rw [h2]
    rcases hr with hr | ⟨a, _, rfl⟩
    · exact Or.inl (ht r hr)
    · right; simp
  · intro r hr
    simp only [save, List.mem_append, List.mem_map] at hr ⊢
    rw [h2]
    rcases hr with hr | ⟨a, _, rfl⟩
    · exact Or.inl (he r hr)
    · right; simp
  · intro r hr
    simp only [save, List.mem_append] at hr ⊢
    rw [h2]
    rcases hr with hr | hr
    · exact Or.inl (htr r hr)
    · rcases hp r hr with h | h
      · exact Or.inl h
      · right; simp [h]
  · intro r hr; simp [save] at hr

/-- every step keeps it consistent: rows produced at an epoch beyond the pre-inserted span wait
together with that epoch -/
theorem step_inv (dt out : Nat) (s : Sim) (rows : StepIn) (h : Inv s) :
    Inv (step .recordStepped dt out s rows) := by
  have h1 : Inv { s with time := s.time + dt, pendingEpochs := s.pendingEpochs ++ [s.time + dt],
                         pendingTrans := s.pendingTrans ++ rows.rows.map (·, s.time + dt),
                         agents := rows.agents, tracked := rows.tracked } := by
    obtain ⟨hn, ht, he, htr, hp⟩ := h
    refine ⟨hn, ht, he, htr, ?_⟩
    intro r hr
    simp only [List.mem_append, List.mem_map] at hr
    rcases hr with hr | ⟨a, _, rfl⟩
    · rcases hp r hr with h | h
      · exact Or.inl h
      · right; simp [h]
    · right; simp
  unfold step
  simp only
  split
  · exact save_inv _ h1
  · exact h1

theorem init_inv (dt span : Nat) (hdt : 0 < dt) (agents tracked : List Nat) :
    Inv (init .recordStepped dt span agents tracked) := by
  apply save_inv
  refine ⟨?_, by simp, by simp, by simp, by simp⟩
  unfold clockEpochs
  apply List.Nodup.map
  · intro a b hab; exact Nat.eq_of_mul_eq_mul_right hdt hab
  · exact List.nodup_range

/-- **referential consistency after any run**: every truth, estimate and transient row refers to
an existing epoch and epochs are unique — for any step, output step, span (also runs that go past
the configured stop time) and any rows produced along the way. -/
theorem fk_closed (dt out span : Nat) (hdt : 0 < dt) (agents tracked : List Nat) (rows : List StepIn) :
    Inv (run .recordStepped dt out (init .recordStepped dt span agents tracked) rows) := by
  unfold run
  have : ∀ (rows : List StepIn) (s : Sim), Inv s → Inv (rows.foldl (step .recordStepped dt out) s) := by
    intro rows
    induction rows with
    | nil => intro s h; exact h
    | cons r rs ih => intro s h; exact ih _ (step_inv dt out s r h)
  exact this rows _ (init_inv dt span hdt agents tracked)

/-- one call or several consecutive calls: the same database (the output test looks at the clock,
not at the call) -/
theorem split_run_same (dt out : Nat) (s : Sim) (r1 r2 : List StepIn) :
    run .recordStepped dt out (run .recordStepped dt out s r1) r2 = run .recordStepped dt out s (r1 ++ r2) := by
  simp [run, List.foldl_append]

/-- the unrepaired save inserted only the current epoch: running past the configured span with
`output_step = 2·dt`, a row produced at the intermediate step referred to an epoch that was never
stored (span 120 s, dt 60, output 120, three steps past the span). -/
theorem fk_beyond_span_unrepaired :
    let s := run .currentOnly 60 120 (init .currentOnly 60 120 [1] [1]) (constSteps [1] [1] [[7], [8], [9], [10]])
    (9, 180) ∈ s.db.trans ∧ 180 ∉ s.db.epochs ∧
    (let s' := run .recordStepped 60 120 (init .recordStepped 60 120 [1] [1]) (constSteps [1] [1] [[7], [8], [9], [10]])
     (9, 180) ∈ s'.db.trans ∧ 180 ∈ s'.db.epochs) := by
  decide +kernel

/-- the output epochs among the first `n` steps after time `t0`, with the step that reaches them -/
def outputSteps (dt out t0 : Nat) (steps : List StepIn) : List (StepIn × Nat) :=
  (steps.zipIdx.map fun p => (p.1, t0 + (p.2 + 1) * dt)).filter fun p => p.2 % out = 0

/-- **truth and estimate rows, with agents joining and leaving**: the initial state, plus for every output epoch exactly
one truth row per agent the scenario holds at that epoch and one estimate row per tracked target - no row for an agent
before it joined or after it left, none twice -/
theorem rows_exact (dt out : Nat) (agents tracked : List Nat) (span : Nat) (steps : List StepIn) :
    (run .recordStepped dt out (init .recordStepped dt span agents tracked) steps).db.truth
      = agents.map (·, 0) ++ (outputSteps dt out 0 steps).flatMap (fun p => p.1.agents.map (·, p.2)) ∧
    (run .recordStepped dt out (init .recordStepped dt span agents tracked) steps).db.est
      = tracked.map (·, 0) ++ (outputSteps dt out 0 steps).flatMap (fun p => p.1.tracked.map (·, p.2)) := by
  have key : ∀ (steps : List StepIn) (s : Sim),
      (run .recordStepped dt out s steps).db.truth
        = s.db.truth ++ (outputSteps dt out s.time steps).flatMap (fun p => p.1.agents.map (·, p.2)) ∧
      (run .recordStepped dt out s steps).db.est
        = s.db.est ++ (outputSteps dt out s.time steps).flatMap (fun p => p.1.tracked.map (·, p.2)) := by
    intro steps
    induction steps with
    | nil => intro s; simp [run, outputSteps]
    | cons r rs ih =>
      intro s
      have htime : (step .recordStepped dt out s r).time = s.time + dt := by
        unfold step; simp only; split <;> simp [save]
      have htr : (step .recordStepped dt out s r).db.truth
          = s.db.truth ++ (if (s.time + dt) % out = 0 then r.agents.map (·, s.time + dt) else []) := by
        unfold step; simp only; split <;> simp [save]
      have hes : (step .recordStepped dt out s r).db.est
          = s.db.est ++ (if (s.time + dt) % out = 0 then r.tracked.map (·, s.time + dt) else []) := by
        unfold step; simp only; split <;> simp [save]
      obtain ⟨i1, i2⟩ := ih (step .recordStepped dt out s r)
      have hshift : outputSteps dt out s.time (r :: rs)
          = (if (s.time + dt) % out = 0 then [(r, s.time + dt)] else []) ++ outputSteps dt out (s.time + dt) rs := by
        unfold outputSteps
        rw [List.zipIdx_cons, List.map_cons, List.filter_cons]
        have e0 : s.time + (0 + 1) * dt = s.time + dt := by ring
        have etail : (rs.zipIdx (0 + 1)).map (fun p => (p.1, s.time + (p.2 + 1) * dt))
            = (rs.zipIdx).map (fun p => (p.1, s.time + dt + (p.2 + 1) * dt)) := by
          rw [List.zipIdx_succ]
          rw [List.map_map]
          apply List.map_congr_left
          intro p _
          simp only [Function.comp, Prod.map, id]
          congr 1
          ring
        simp only [e0]
        rw [etail]
        by_cases hc : (s.time + dt) % out = 0 <;> simp [hc]
      constructor
      · show (run .recordStepped dt out (step .recordStepped dt out s r) rs).db.truth = _
        rw [i1, htime, htr, hshift]
        by_cases hc : (s.time + dt) % out = 0 <;> simp [hc, List.flatMap_append, List.append_assoc]
      · show (run .recordStepped dt out (step .recordStepped dt out s r) rs).db.est = _
        rw [i2, htime, hes, hshift]
        by_cases hc : (s.time + dt) % out = 0 <;> simp [hc, List.flatMap_append, List.append_assoc]
  obtain ⟨h1, h2⟩ := key steps (init .recordStepped dt span agents tracked)
  have ht0 : (init .recordStepped dt span agents tracked).time = 0 := by simp [init, save]
  have htr0 : (init .recordStepped dt span agents tracked).db.truth = agents.map (·, 0) := by simp [init, save]
  have hes0 : (init .recordStepped dt span agents tracked).db.est = tracked.map (·, 0) := by simp [init, save]
  rw [h1, h2, ht0, htr0, hes0]
  exact ⟨rfl, rfl⟩

/-- with a fixed set of agents: one truth row per agent for the start and for every output epoch -/
theorem truth_rows_exact (dt out : Nat) (agents tracked : List Nat) (span : Nat) (rows : List (List Nat)) :
    (run .recordStepped dt out (init .recordStepped dt span agents tracked) (constSteps agents tracked rows)).db.truth
      = agents.map (·, 0) ++ (outputSteps dt out 0 (constSteps agents tracked rows)).flatMap (fun p => agents.map (·, p.2)) := by
  rw [(rows_exact dt out agents tracked span _).1]
  congr 1
  apply List.flatMap_congr
  intro p hp
  have : p.1.agents = agents := by
    unfold outputSteps at hp
    obtain ⟨hm, _⟩ := List.mem_filter.mp hp
    obtain ⟨q, hq, rfl⟩ := List.mem_map.mp hm
    have hq1 : q.1 ∈ constSteps agents tracked rows := by
      have := List.mem_zipIdx' hq
      rw [this.2]
      exact List.getElem_mem _
    unfold constSteps at hq1
    obtain ⟨r, _, hr⟩ := List.mem_map.mp hq1
    rw [← hr]
  rw [this]

/-- a target that leaves is not written afterwards, one that joins is not written before: witness -/
theorem membership_witness :
    let s := run .recordStepped 60 60 (init .recordStepped 60 180 [1, 9] [1])
      [⟨[], [1, 2, 9], [1, 2]⟩, ⟨[], [2, 9], [2]⟩, ⟨[], [2, 9], [2]⟩]
    s.db.truth = [(1, 0), (9, 0), (1, 60), (2, 60), (9, 60), (2, 120), (9, 120), (2, 180), (9, 180)] ∧
    s.db.est = [(1, 0), (1, 60), (2, 60), (2, 120), (2, 180)] := by
  decide +kernel

end RV.Props.C09
