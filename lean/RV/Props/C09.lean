/-
C09 — the output database is complete, duplicate-free and referentially consistent.
-/
import RV.Model.Database
import Mathlib.Data.List.Basic
import Mathlib.Data.List.Nodup
import Mathlib.Tactic.Linarith
import Mathlib.Tactic.Ring

namespace RV.Props.C09
open RV.Database

/-- referential consistency of a simulation state: every stored row refers to a stored epoch,
epochs are unique, and every row still waiting to be saved refers to an epoch that is either
stored already or waiting to be inserted with it. -/
structure Inv (s : Sim) : Prop where
  nodup : s.db.epochs.Nodup
  truth : ∀ r ∈ s.db.truth, r.2 ∈ s.db.epochs
  est : ∀ r ∈ s.db.est, r.2 ∈ s.db.epochs
  trans : ∀ r ∈ s.db.trans, r.2 ∈ s.db.epochs
  pending : ∀ r ∈ s.pendingTrans, r.2 ∈ s.db.epochs ∨ r.2 ∈ s.pendingEpochs

private theorem insertMissing_spec (es : List Nat) : ∀ (epochs : List Nat), epochs.Nodup →
    (insertMissing epochs es).Nodup ∧ (∀ x, x ∈ insertMissing epochs es ↔ x ∈ epochs ∨ x ∈ es) := by
  induction es with
  | nil => intro epochs h; exact ⟨h, fun x => by simp [insertMissing]⟩
  | cons e es ih =>
    intro epochs h
    simp only [insertMissing]
    split
    · rename_i hmem
      obtain ⟨h1, h2⟩ := ih epochs h
      refine ⟨h1, fun x => ?_⟩
      rw [h2 x]; simp only [List.mem_cons]
      constructor
      · rintro (h | h); exact Or.inl h; exact Or.inr (Or.inr h)
      · rintro (h | h | h); exact Or.inl h; exact Or.inl (h ▸ hmem); exact Or.inr h
    · rename_i hmem
      have hnd : (epochs ++ [e]).Nodup := by
        rw [List.nodup_append]
        exact ⟨h, by simp, fun a ha b hb => by simp at hb; subst hb; exact fun hab => hmem (hab ▸ ha)⟩
      obtain ⟨h1, h2⟩ := ih (epochs ++ [e]) hnd
      refine ⟨h1, fun x => ?_⟩
      rw [h2 x]; simp only [List.mem_append, List.mem_cons, List.mem_singleton, List.not_mem_nil, or_false]
      constructor
      · rintro ((h | h) | h); exact Or.inl h; exact Or.inr (Or.inl h); exact Or.inr (Or.inr h)
      · rintro (h | h | h); exact Or.inl (Or.inl h); exact Or.inl (Or.inr h); exact Or.inr h

/-- saving keeps the database referentially consistent -/
theorem save_inv (s : Sim) (h : Inv s) : Inv (save .recordStepped s) := by
  obtain ⟨hn, ht, he, htr, hp⟩ := h
  obtain ⟨h1, h2⟩ := insertMissing_spec (s.pendingEpochs ++ [s.time]) s.db.epochs hn
  refine ⟨h1, ?_, ?_, ?_, ?_⟩
  · intro r hr
    simp only [save, List.mem_append, List.mem_map] at hr ⊢
    rw [h2]
    rcases hr with hr | ⟨a, _, rfl⟩
    · exact Or.inl (ht r hr)
    · right; simp
  · intro r hr
    simp only [save, List.mem_append, List.mem_map] at hr ⊢
    rw [h2]
    rcases hr with hr | ⟨a, _, rfl⟩
    · exact Or.inl (he r hr)
    · right; simp
  · intro r hr
    simp only [save, List.mem_append] at hr ⊢
    rw [h2]
    rcases hr with hr | hr
    · exact Or.inl (htr r hr)
    · rcases hp r hr with h | h
      · exact Or.inl h
      · right; simp [h]
  · intro r hr; simp [save] at hr

/-- every step keeps it consistent: rows produced at an epoch beyond the pre-inserted span wait
together with that epoch -/
theorem step_inv (dt out : Nat) (s : Sim) (rows : List Nat) (h : Inv s) :
    Inv (step .recordStepped dt out s rows) := by
  have h1 : Inv { s with time := s.time + dt, pendingEpochs := s.pendingEpochs ++ [s.time + dt],
                         pendingTrans := s.pendingTrans ++ rows.map (·, s.time + dt) } := by
    obtain ⟨hn, ht, he, htr, hp⟩ := h
    refine ⟨hn, ht, he, htr, ?_⟩
    intro r hr
    simp only [List.mem_append, List.mem_map] at hr
    rcases hr with hr | ⟨a, _, rfl⟩
    · rcases hp r hr with h | h
      · exact Or.inl h
      · right; simp [h]
    · right; simp
  unfold step
  simp only
  split
  · exact save_inv _ h1
  · exact h1

theorem init_inv (dt span : Nat) (hdt : 0 < dt) (agents tracked : List Nat) :
    Inv (init .recordStepped dt span agents tracked) := by
  apply save_inv
  refine ⟨?_, by simp, by simp, by simp, by simp⟩
  unfold clockEpochs
  apply List.Nodup.map
  · intro a b hab; exact Nat.eq_of_mul_eq_mul_right hdt hab
  · exact List.nodup_range

/-- **referential consistency after any run**: every truth, estimate and transient row refers to
an existing epoch and epochs are unique — for any step, output step, span (also runs that go past
the configured stop time) and any rows produced along the way. -/
theorem fk_closed (dt out span : Nat) (hdt : 0 < dt) (agents tracked : List Nat) (rows : List (List Nat)) :
    Inv (run .recordStepped dt out (init .recordStepped dt span agents tracked) rows) := by
  unfold run
  have : ∀ (rows : List (List Nat)) (s : Sim), Inv s → Inv (rows.foldl (step .recordStepped dt out) s) := by
    intro rows
    induction rows with
    | nil => intro s h; exact h
    | cons r rs ih => intro s h; exact ih _ (step_inv dt out s r h)
  exact this rows _ (init_inv dt span hdt agents tracked)

/-- one call or several consecutive calls: the same database (the output test looks at the clock,
not at the call) -/
theorem split_run_same (dt out : Nat) (s : Sim) (r1 r2 : List (List Nat)) :
    run .recordStepped dt out (run .recordStepped dt out s r1) r2 = run .recordStepped dt out s (r1 ++ r2) := by
  simp [run, List.foldl_append]

/-- the unrepaired save inserted only the current epoch: running past the configured span with
`output_step = 2·dt`, a row produced at the intermediate step referred to an epoch that was never
stored (span 120 s, dt 60, output 120, three steps past the span). -/
theorem fk_beyond_span_unrepaired :
    let s := run .currentOnly 60 120 (init .currentOnly 60 120 [1] [1]) [[7], [8], [9], [10]]
    (9, 180) ∈ s.db.trans ∧ 180 ∉ s.db.epochs ∧
    (let s' := run .recordStepped 60 120 (init .recordStepped 60 120 [1] [1]) [[7], [8], [9], [10]]
     (9, 180) ∈ s'.db.trans ∧ 180 ∈ s'.db.epochs) := by
  decide +kernel

/-- truth rows: the initial state plus exactly one row per agent for every output epoch -/
theorem truth_rows_exact (dt out : Nat) (agents tracked : List Nat) (span : Nat) :
    ∀ (rows : List (List Nat)),
      (run .recordStepped dt out (init .recordStepped dt span agents tracked) rows).db.truth
        = ((0 :: ((List.range rows.length).map fun k => (k + 1) * dt).filter fun t => t % out = 0).flatMap fun t => agents.map (·, t)) := by
  intro rows
  have key : ∀ (rows : List (List Nat)) (s : Sim), s.agents = agents →
      (run .recordStepped dt out s rows).db.truth
        = s.db.truth ++ ((((List.range rows.length).map fun k => s.time + (k + 1) * dt).filter fun t => t % out = 0).flatMap fun t => agents.map (·, t)) ∧
      (run .recordStepped dt out s rows).agents = agents := by
    intro rows
    induction rows with
    | nil => intro s hs; simp [run, hs]
    | cons r rs ih =>
      intro s hs
      have hstep : (step .recordStepped dt out s r).agents = agents := by
        unfold step; simp only; split <;> simp [save, hs]
      have htime : (step .recordStepped dt out s r).time = s.time + dt := by
        unfold step; simp only; split <;> simp [save]
      obtain ⟨i1, i2⟩ := ih (step .recordStepped dt out s r) hstep
      refine ⟨?_, ?_⟩
      · show (run .recordStepped dt out (step .recordStepped dt out s r) rs).db.truth = _
        rw [i1, htime]
        have htr : (step .recordStepped dt out s r).db.truth
            = s.db.truth ++ (if (s.time + dt) % out = 0 then agents.map (·, s.time + dt) else []) := by
          unfold step; simp only; split <;> simp [save, hs]
        rw [htr, List.length_cons, List.range_succ_eq_map, List.map_cons, List.map_map, List.filter_cons]
        have e : (fun k => s.time + dt + (k + 1) * dt) = ((fun k => s.time + (k + 1) * dt) ∘ Nat.succ) := by
          funext k; simp only [Function.comp, Nat.succ_eq_add_one]; ring
        rw [e]
        have z : s.time + (0 + 1) * dt = s.time + dt := by ring
        rw [z]
        by_cases hc : (s.time + dt) % out = 0
        · simp [hc, List.flatMap_cons, List.append_assoc]
        · simp [hc]
      · exact i2
  have hinit : (init .recordStepped dt span agents tracked).agents = agents := by simp [init, save]
  obtain ⟨h1, _⟩ := key rows _ hinit
  rw [h1]
  have ht0 : (init .recordStepped dt span agents tracked).time = 0 := by simp [init, save]
  have htr0 : (init .recordStepped dt span agents tracked).db.truth = agents.map (·, 0) := by simp [init, save]
  rw [ht0, htr0]
  simp [List.flatMap_cons]

end RV.Props.C09
