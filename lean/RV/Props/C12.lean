/-
C12 — orbital element sets, anomalies and state configurations convert consistently.

The theorems are polynomial identities over the model of `RV.Model.Elements`: angles enter as
(cos, sin) pairs constrained by `c² + s² = 1`, square roots and norms as oracles constrained by their
squares.  Together they say that the quantities `eci2coe` measures on the state `coe2eci` builds are
exactly the elements it was built from (and likewise for the equinoctial set), for every orbit.
-/
import RV.Model.Elements
import RV.Props.C04
import RV.Props.C16
import Mathlib.Tactic.Ring
import Mathlib.Tactic.FieldSimp
import Mathlib.Tactic.LinearCombination
import Mathlib.Tactic.Linarith
import Mathlib.Tactic.Positivity
import Mathlib.Tactic.NormNum

namespace RV.Props.C12
open RV RV.Frames RV.Elements RV.Props.C04

macro "ecomps" loc:(Lean.Parser.Tactic.location)? : tactic => `(tactic|
  simp only [M3.mul, M3.transpose, M3.mulVec, M3.one, V3.dot, V3.cross, V3.add, V3.sub, V3.smul,
    V3.neg, V3.nsq, V3.zero, rot1, rot3, pqw2eci, coe2eci, angMomentum, lineOfNodes, eccVector,
    orbitalEnergy, semiMajorAxis, eqeBasis, eqeW, eqePQ, retroFactor, eqe2eci, coe2eqeHKPQ,
    M3.mk.injEq, V3.mk.injEq, State.mk.injEq] $[$loc]?)

/-! ### rotations: isometries that preserve orientation -/

/-- a matrix acting as a proper rotation on vectors: preserves inner and cross products -/
def Rotation (A : M3) : Prop :=
  (∀ u v : V3, (A.mulVec u).dot (A.mulVec v) = u.dot v) ∧
  (∀ u v : V3, (A.mulVec u).cross (A.mulVec v) = A.mulVec (u.cross v))

theorem rot1_rotation (c s : Rat) (h : c * c + s * s = 1) : Rotation (rot1 c s) := by
  constructor
  · intro u v; exact orthogonal_preserves_dot _ (rot1_orthogonal c s h).1 u v
  · intro u v
    obtain ⟨ux, uy, uz⟩ := u
    obtain ⟨vx, vy, vz⟩ := v
    ecomps
    refine ⟨?_, ?_, ?_⟩
    · linear_combination (uy * vz - uz * vy) * h
    · ring
    · ring

theorem rot3_rotation (c s : Rat) (h : c * c + s * s = 1) : Rotation (rot3 c s) := by
  constructor
  · intro u v; exact orthogonal_preserves_dot _ (rot3_orthogonal c s h).1 u v
  · intro u v
    obtain ⟨ux, uy, uz⟩ := u
    obtain ⟨vx, vy, vz⟩ := v
    ecomps
    refine ⟨?_, ?_, ?_⟩
    · ring
    · ring
    · linear_combination (ux * vy - uy * vx) * h

theorem rotation_mul (A B : M3) (hA : Rotation A) (hB : Rotation B) : Rotation (A.mul B) := by
  constructor
  · intro u v; rw [mulVec_mul, mulVec_mul, hA.1, hB.1]
  · intro u v; rw [mulVec_mul, mulVec_mul, mulVec_mul, hA.2, hB.2]

theorem neg_unit (c s : Rat) (h : c * c + s * s = 1) : c * c + (-s) * (-s) = 1 := by linear_combination h

/-- the perifocal-to-inertial matrix of `coe2eci` is a proper rotation -/
theorem pqw_rotation (cO sO ci si cw sw : Rat) (hO : cO * cO + sO * sO = 1) (hi : ci * ci + si * si = 1)
    (hw : cw * cw + sw * sw = 1) : Rotation (pqw2eci cO sO ci si cw sw) :=
  rotation_mul _ _ (rot3_rotation _ _ (neg_unit _ _ hO))
    (rotation_mul _ _ (rot1_rotation _ _ (neg_unit _ _ hi)) (rot3_rotation _ _ (neg_unit _ _ hw)))

theorem mulVec_smul (A : M3) (c : Rat) (v : V3) : A.mulVec (V3.smul c v) = V3.smul c (A.mulVec v) := by
  ecomps; refine ⟨?_, ?_, ?_⟩ <;> ring

/-- the orbit normal, line of apsides: columns of the perifocal matrix -/
def pHat (cO sO ci si cw sw : Rat) : V3 := (pqw2eci cO sO ci si cw sw).mulVec ⟨1, 0, 0⟩
def wHat (cO sO ci si cw sw : Rat) : V3 := (pqw2eci cO sO ci si cw sw).mulVec ⟨0, 0, 1⟩

theorem wHat_eq (cO sO ci si cw sw : Rat) : wHat cO sO ci si cw sw = ⟨sO * si, -(cO * si), ci⟩ := by
  unfold wHat; ecomps; refine ⟨?_, ?_, ?_⟩ <;> ring

theorem pHat_eq (cO sO ci si cw sw : Rat) :
    pHat cO sO ci si cw sw = ⟨cO * cw - sO * ci * sw, sO * cw + cO * ci * sw, si * sw⟩ := by
  unfold pHat; ecomps; refine ⟨?_, ?_, ?_⟩ <;> ring

/-! ### what `eci2coe` measures on the state `coe2eci` builds -/

section forward
variable (sma ecc cO sO ci si cw sw cv sv sq : Rat)

/-- the state in perifocal coordinates -/
def rPqw : V3 := V3.smul (sma * (1 - ecc * ecc) / (1 + ecc * cv)) ⟨cv, sv, 0⟩
def vPqw : V3 := V3.smul sq ⟨-sv, ecc + cv, 0⟩

theorem coe2eci_eq : coe2eci sma ecc cO sO ci si cw sw cv sv sq =
    ⟨(pqw2eci cO sO ci si cw sw).mulVec (rPqw sma ecc cv sv), (pqw2eci cO sO ci si cw sw).mulVec (vPqw ecc cv sv sq)⟩ := rfl

variable (hO : cO * cO + sO * sO = 1) (hi : ci * ci + si * si = 1) (hw : cw * cw + sw * sw = 1)
  (hv : cv * cv + sv * sv = 1)
include hO hi hw hv

/-- **radius**: `‖r‖² = (p / (1 + e cos ν))²` -/
theorem coe2eci_radius :
    (coe2eci sma ecc cO sO ci si cw sw cv sv sq).r.nsq = (sma * (1 - ecc * ecc) / (1 + ecc * cv)) ^ 2 := by
  rw [coe2eci_eq]
  simp only [V3.nsq]
  rw [(pqw_rotation cO sO ci si cw sw hO hi hw).1]
  simp only [rPqw, V3.smul, V3.dot]
  linear_combination (sma * (1 - ecc * ecc) / (1 + ecc * cv)) ^ 2 * hv

/-- **speed**: `‖v‖² = sq² (1 + 2 e cos ν + e²)` -/
theorem coe2eci_speed :
    (coe2eci sma ecc cO sO ci si cw sw cv sv sq).v.nsq = sq * sq * (1 + 2 * ecc * cv + ecc * ecc) := by
  rw [coe2eci_eq]
  simp only [V3.nsq]
  rw [(pqw_rotation cO sO ci si cw sw hO hi hw).1]
  simp only [vPqw, V3.smul, V3.dot]
  linear_combination sq * sq * hv

/-- `r · v = ρ · sq · e sin ν`: its sign is the sign of `sin ν` (the quadrant test of `getTrueAnomaly`) -/
theorem coe2eci_rdotv :
    (coe2eci sma ecc cO sO ci si cw sw cv sv sq).r.dot (coe2eci sma ecc cO sO ci si cw sw cv sv sq).v
      = sma * (1 - ecc * ecc) / (1 + ecc * cv) * sq * (ecc * sv) := by
  rw [coe2eci_eq]
  simp only []
  rw [(pqw_rotation cO sO ci si cw sw hO hi hw).1]
  simp only [rPqw, vPqw, V3.smul, V3.dot]
  ring

/-- **angular momentum**: `r × v = (p · sq) ŵ`, `ŵ = (sin Ω sin i, −cos Ω sin i, cos i)` — so the inclination
`arccos(ĥ_z)` is the one given, and the line of nodes points along `(cos Ω, sin Ω, 0)` -/
theorem coe2eci_angmom (hd : 1 + ecc * cv ≠ 0) :
    angMomentum (coe2eci sma ecc cO sO ci si cw sw cv sv sq)
      = V3.smul (sma * (1 - ecc * ecc) * sq) ⟨sO * si, -(cO * si), ci⟩ := by
  rw [coe2eci_eq]
  simp only [angMomentum]
  rw [(pqw_rotation cO sO ci si cw sw hO hi hw).2]
  have hc : (rPqw sma ecc cv sv).cross (vPqw ecc cv sv sq) = V3.smul (sma * (1 - ecc * ecc) * sq) ⟨0, 0, 1⟩ := by
    simp only [rPqw, vPqw, V3.smul, V3.cross, V3.mk.injEq]
    refine ⟨by ring, by ring, ?_⟩
    field_simp
    linear_combination (sma * (1 - ecc * ecc) * sq) * hv
  rw [hc, mulVec_smul]
  have := wHat_eq cO sO ci si cw sw
  unfold wHat at this
  rw [this]

theorem coe2eci_nodes (hd : 1 + ecc * cv ≠ 0) :
    lineOfNodes (angMomentum (coe2eci sma ecc cO sO ci si cw sw cv sv sq))
      = V3.smul (sma * (1 - ecc * ecc) * sq * si) ⟨cO, sO, 0⟩ := by
  rw [coe2eci_angmom sma ecc cO sO ci si cw sw cv sv sq hO hi hw hv hd]
  simp only [lineOfNodes, V3.smul, V3.cross, V3.mk.injEq]
  refine ⟨by ring, by ring, by ring⟩

/-- **vis-viva**: the semi-major axis `getSemiMajorAxis` recovers is the one given -/
theorem coe2eci_sma (mu rn vn : Rat) (hmu : mu ≠ 0) (ha : sma ≠ 0) (he : 1 - ecc * ecc ≠ 0) (hd : 1 + ecc * cv ≠ 0)
    (hsq : sq * sq * (sma * (1 - ecc * ecc)) = mu)
    (hrn : rn = sma * (1 - ecc * ecc) / (1 + ecc * cv))
    (hvn : vn * vn = (coe2eci sma ecc cO sO ci si cw sw cv sv sq).v.nsq) :
    semiMajorAxis mu rn vn = sma := by
  rw [coe2eci_speed sma ecc cO sO ci si cw sw cv sv sq hO hi hw hv] at hvn
  simp only [semiMajorAxis, orbitalEnergy]
  rw [hvn, hrn]
  subst hsq
  have hs0 : sq ≠ 0 := by rintro rfl; simp at hmu
  have he2 : 1 - ecc ^ 2 ≠ 0 := by rwa [pow_two]
  have hE : 1 / 2 * (sq * sq * (1 + 2 * ecc * cv + ecc * ecc)) - sq * sq * (sma * (1 - ecc * ecc)) / (sma * (1 - ecc * ecc) / (1 + ecc * cv))
      = -(1 / 2) * (sq * sq * (sma * (1 - ecc * ecc))) / sma := by
    field_simp
    ring
  rw [hE]
  field_simp

/-- **eccentricity vector**: `e · P̂` — its length is the eccentricity given and it points to periapsis, so
`getArgumentPerigee`, `getTrueLongitudePeriapsis` and `getTrueAnomaly` measure the angles given -/
theorem coe2eci_eccvec (mu rn vn : Rat) (hmu : mu ≠ 0) (ha : sma ≠ 0) (he : 1 - ecc * ecc ≠ 0) (hd : 1 + ecc * cv ≠ 0)
    (hsq : sq * sq * (sma * (1 - ecc * ecc)) = mu)
    (hrn : rn = sma * (1 - ecc * ecc) / (1 + ecc * cv))
    (hvn : vn * vn = (coe2eci sma ecc cO sO ci si cw sw cv sv sq).v.nsq) :
    eccVector mu (coe2eci sma ecc cO sO ci si cw sw cv sv sq) rn vn = V3.smul ecc (pHat cO sO ci si cw sw) := by
  have hdot := coe2eci_rdotv sma ecc cO sO ci si cw sw cv sv sq hO hi hw hv
  rw [coe2eci_speed sma ecc cO sO ci si cw sw cv sv sq hO hi hw hv] at hvn
  simp only [eccVector]
  rw [hdot, hvn, hrn]
  rw [coe2eci_eq]
  simp only []
  rw [← mulVec_smul, ← mulVec_smul, ← mulVec_sub, ← mulVec_smul]
  unfold pHat
  rw [← mulVec_smul]
  congr 1
  simp only [rPqw, vPqw, V3.smul, V3.sub, V3.mk.injEq]
  subst hsq
  have hs0 : sq ≠ 0 := by rintro rfl; simp at hmu
  have he2 : 1 - ecc ^ 2 ≠ 0 := by rwa [pow_two]
  refine ⟨?_, ?_, by ring⟩
  · field_simp
    linear_combination ecc * hv
  · field_simp
    ring

/-- `r · P̂ = ‖r‖ cos ν`: the cosine `getTrueAnomaly` takes the arccos of -/
theorem coe2eci_cos_anomaly :
    (coe2eci sma ecc cO sO ci si cw sw cv sv sq).r.dot (pHat cO sO ci si cw sw)
      = sma * (1 - ecc * ecc) / (1 + ecc * cv) * cv := by
  rw [coe2eci_eq]
  simp only [pHat]
  rw [(pqw_rotation cO sO ci si cw sw hO hi hw).1]
  simp only [rPqw, V3.smul, V3.dot]
  ring

/-- `n̂ · P̂ = cos ω` and `P̂_z = sin i sin ω`: cosine and quadrant test of `getArgumentPerigee` -/
theorem argp_measured :
    V3.dot ⟨cO, sO, 0⟩ (pHat cO sO ci si cw sw) = cw ∧ (pHat cO sO ci si cw sw).z = si * sw := by
  rw [pHat_eq]
  simp only [V3.dot]
  refine ⟨?_, trivial⟩
  linear_combination cw * hO

/-- argument of latitude (circular inclined branch): `n̂ · r = ‖r‖ cos(ω+ν)`, `r_z = ‖r‖ sin i sin(ω+ν)` -/
theorem arglat_measured :
    V3.dot ⟨cO, sO, 0⟩ (coe2eci sma ecc cO sO ci si cw sw cv sv sq).r
        = sma * (1 - ecc * ecc) / (1 + ecc * cv) * (cw * cv - sw * sv) ∧
      (coe2eci sma ecc cO sO ci si cw sw cv sv sq).r.z
        = sma * (1 - ecc * ecc) / (1 + ecc * cv) * (si * (sw * cv + cw * sv)) := by
  ecomps
  refine ⟨?_, by ring⟩
  linear_combination (sma * (1 - ecc * ecc) / (1 + ecc * cv) * (cw * cv - sw * sv)) * hO

end forward

/-! ### equatorial orbits, prograde and retrograde -/

/-- prograde equatorial (`i = 0`, node at +x): periapsis lies at longitude `ω`, counter-clockwise -/
theorem equatorial_periapsis (cw sw : Rat) : pHat 1 0 1 0 cw sw = ⟨cw, sw, 0⟩ := by
  rw [pHat_eq]; simp

/-- **retrograde equatorial** (`i = π`, node at +x): periapsis lies at longitude `−ω` — the angle `eci2coe`
must return is the one measured along the motion, i.e. clockwise -/
theorem retrograde_equatorial_periapsis (cw sw : Rat) : pHat 1 0 (-1) 0 cw sw = ⟨cw, -sw, 0⟩ := by
  rw [pHat_eq]; simp

/-- with a node at `Ω`, a retrograde equatorial periapsis lies at longitude `Ω − ω`; a prograde one at `Ω + ω`:
the rule `singularityCheck` applies when it folds the node into the argument of periapsis -/
theorem equatorial_fold (cO sO cw sw : Rat) :
    pHat cO sO (-1) 0 cw sw = ⟨cO * cw + sO * sw, sO * cw - cO * sw, 0⟩ ∧
    pHat cO sO 1 0 cw sw = ⟨cO * cw - sO * sw, sO * cw + cO * sw, 0⟩ := by
  rw [pHat_eq, pHat_eq]
  constructor <;> (simp only [V3.mk.injEq]; refine ⟨by ring, by ring, by ring⟩)

/-- the unrepaired code returned the counter-clockwise longitude for retrograde equatorial orbits: the state
rebuilt from it is the mirror image (periapsis at (3/5, −4/5) instead of (3/5, 4/5)) -/
theorem retrograde_equatorial_unrepaired : pHat 1 0 (-1) 0 (3/5) (4/5) ≠ ⟨3/5, 4/5, 0⟩ := by
  rw [retrograde_equatorial_periapsis]
  intro h
  simp only [V3.mk.injEq] at h
  norm_num at h

/-! ### the four branches -/

theorem branch_exhaustive (inclined eccentric : Bool) :
    (branch inclined eccentric = .generic ↔ inclined = true ∧ eccentric = true) ∧
    (branch inclined eccentric = .equatorial ↔ inclined = false ∧ eccentric = true) ∧
    (branch inclined eccentric = .circular ↔ inclined = true ∧ eccentric = false) ∧
    (branch inclined eccentric = .circularEquatorial ↔ inclined = false ∧ eccentric = false) := by
  cases inclined <;> cases eccentric <;> simp [branch]

/-- the degenerate elements are returned as exactly zero -/
theorem singular_outputs (τ piC inc : Rat) (inclined eccentric : Bool) (raan argp anom : Rat) :
    (inclined = false → (singularityCheck τ piC inc inclined eccentric raan argp anom).1 = 0) ∧
    (eccentric = false → (singularityCheck τ piC inc inclined eccentric raan argp anom).2.1 = 0) := by
  cases inclined <;> cases eccentric <;> simp [singularityCheck, branch]

/-- every angle `singularityCheck` returns lies in `[0, 2π)` -/
theorem singular_ranges (τ piC inc : Rat) (hτ : 0 < τ) (inclined eccentric : Bool) (raan argp anom : Rat) :
    let o := singularityCheck τ piC inc inclined eccentric raan argp anom
    (0 ≤ o.1 ∧ o.1 < τ) ∧ (0 ≤ o.2.1 ∧ o.2.1 < τ) ∧ (0 ≤ o.2.2 ∧ o.2.2 < τ) := by
  have w := fun x => RV.Props.C16.wrap2Pi_range τ hτ x
  cases inclined <;> cases eccentric <;> simp only [singularityCheck, branch] <;>
    exact ⟨by first | exact w _ | exact ⟨le_refl _, hτ⟩, by first | exact w _ | exact ⟨le_refl _, hτ⟩, w _⟩

/-- likewise every angle `eci2coe` returns -/
theorem eci2coe_ranges (τ piC inc : Rat) (hτ : 0 < τ) (inclined eccentric : Bool) (raan argp anom lonPer argLat trueLon : Rat) :
    let o := eci2coeAngles τ piC inc inclined eccentric raan argp anom lonPer argLat trueLon
    (0 ≤ o.1 ∧ o.1 < τ) ∧ (0 ≤ o.2.1 ∧ o.2.1 < τ) ∧ (0 ≤ o.2.2 ∧ o.2.2 < τ) := by
  have w := fun x => RV.Props.C16.wrap2Pi_range τ hτ x
  cases inclined <;> cases eccentric <;> simp only [eci2coeAngles, branch] <;>
    exact ⟨by first | exact w _ | exact ⟨le_refl _, hτ⟩, by first | exact w _ | exact ⟨le_refl _, hτ⟩, w _⟩

/-- the unrepaired quadrant fix returns a full turn for an angle of exactly zero: outside `[0, 2π)` -/
theorem fixQuadrant_full_turn_unrepaired (τ : Rat) : fixQuadrant τ 0 (-1) = τ := by
  simp [fixQuadrant]

/-- **the position on the orbit is preserved** by `singularityCheck`: the signed longitude
`anomaly + argp ± raan` changes by whole turns only (and the node is untouched while the orbit is inclined) -/
theorem singular_longitude_preserved (τ piC inc : Rat) (hτ : 0 < τ) (inclined eccentric : Bool) (raan argp anom : Rat) :
    let o := singularityCheck τ piC inc inclined eccentric raan argp anom
    let σ := if inclined then 1 else nodeSign piC inc
    ∃ k : Int, o.2.2 + o.2.1 + σ * o.1 = anom + argp + σ * raan + k * τ := by
  have w := fun x => RV.Props.C16.wrap2Pi_congr τ hτ x
  cases inclined <;> cases eccentric <;> simp only [singularityCheck, branch]
  · obtain ⟨k, hk⟩ := w (anom + argp + nodeSign piC inc * raan)
    exact ⟨k, by simp only [Bool.false_eq_true, if_false]; rw [hk]; ring⟩
  · obtain ⟨k1, hk1⟩ := w (argp + nodeSign piC inc * raan)
    obtain ⟨k2, hk2⟩ := w anom
    exact ⟨k1 + k2, by simp only [Bool.false_eq_true, if_false]; rw [hk1, hk2]; push_cast; ring⟩
  · obtain ⟨k1, hk1⟩ := w raan
    obtain ⟨k2, hk2⟩ := w (anom + argp)
    exact ⟨k1 + k2, by simp only [if_true]; rw [hk1, hk2]; push_cast; ring⟩
  · obtain ⟨k1, hk1⟩ := w raan
    obtain ⟨k2, hk2⟩ := w argp
    obtain ⟨k3, hk3⟩ := w anom
    exact ⟨k1 + k2 + k3, by simp only [if_true]; rw [hk1, hk2, hk3]; push_cast; ring⟩

/-! ### equinoctial elements -/

/-- the equinoctial frame is orthonormal and right-handed: `f̂ × ĝ = ŵ` -/
theorem eqe_basis_orthonormal (p q : Rat) (retro : Bool) :
    let fg := eqeBasis p q retro
    fg.1.dot fg.1 = 1 ∧ fg.2.dot fg.2 = 1 ∧ fg.1.dot fg.2 = 0 ∧ fg.1.cross fg.2 = eqeW p q retro := by
  have hpos : (1 + p * p + q * q) ≠ 0 := by nlinarith [mul_self_nonneg p, mul_self_nonneg q]
  cases retro <;> ecomps <;> simp only [Bool.false_eq_true, if_false, if_true] <;>
    refine ⟨?_, ?_, ?_, ?_, ?_, ?_⟩ <;> field_simp <;> ring

/-- `p, q` computed from a unit angular momentum give that angular momentum back -/
theorem eqe_pq_inverse (w : V3) (retro : Bool) (hw : w.dot w = 1) (hd : 1 + retroFactor retro * w.z ≠ 0) :
    eqeW (eqePQ w retro).1 (eqePQ w retro).2 retro = w := by
  obtain ⟨x, y, z⟩ := w
  simp only [V3.dot] at hw
  cases retro
  · simp only [retroFactor, Bool.false_eq_true, if_false, one_mul] at hd
    have h2 : (1 + z) ^ 2 + x * x + y * y = 2 * (1 + z) := by linear_combination hw
    have h3 : 1 + x / (1 + z) * (x / (1 + z)) + -y / (1 + z) * (-y / (1 + z)) = 2 / (1 + z) := by
      field_simp; linear_combination h2
    simp only [eqeW, eqePQ, retroFactor, Bool.false_eq_true, if_false, one_mul, mul_one, V3.smul, V3.mk.injEq]
    rw [h3]
    refine ⟨by field_simp, by field_simp, ?_⟩
    field_simp
    linear_combination (-1 : Rat) * hw
  · simp only [retroFactor, if_true] at hd
    have hd' : 1 - z ≠ 0 := by intro h; apply hd; linear_combination h
    have h2 : (1 - z) ^ 2 + x * x + y * y = 2 * (1 - z) := by linear_combination hw
    have h3 : 1 + x / (1 + -1 * z) * (x / (1 + -1 * z)) + -y / (1 + -1 * z) * (-y / (1 + -1 * z)) = 2 / (1 - z) := by
      have : (1 + -1 * z) = 1 - z := by ring
      rw [this]; field_simp; linear_combination h2
    simp only [eqeW, eqePQ, retroFactor, if_true, V3.smul, V3.mk.injEq]
    rw [h3]
    have : (1 + -1 * z) = 1 - z := by ring
    rw [this]
    refine ⟨by field_simp, by field_simp, ?_⟩
    field_simp
    linear_combination hw

/-- `coe2eqe`: `h² + k² = e²`, `p² + q² = tan²(i/2)` -/
theorem coe_eqe_hk (ecc t cs ss cO sO : Rat) (hs : cs * cs + ss * ss = 1) (hO : cO * cO + sO * sO = 1) :
    let o := coe2eqeHKPQ ecc t cs ss cO sO
    o.1 * o.1 + o.2.1 * o.2.1 = ecc * ecc ∧ o.2.2.1 * o.2.2.1 + o.2.2.2 * o.2.2.2 = t * t := by
  simp only [coe2eqeHKPQ]
  exact ⟨by linear_combination (ecc * ecc) * hs, by linear_combination (t * t) * hO⟩

/-- **radius from equinoctial elements**: `‖r‖ = a (1 − h sin F − k cos F)` -/
theorem eqe2eci_radius (sma h k p q : Rat) (retro : Bool) (n beta cF sF : Rat)
    (hF : cF * cF + sF * sF = 1) (hb : beta * beta = 1 - h * h - k * k) (hb1 : 1 + beta ≠ 0) :
    (eqe2eci sma h k p q retro n beta cF sF).r.nsq = (sma * (1 - h * sF - k * cF)) ^ 2 := by
  have hb' := eqe_basis_orthonormal p q retro
  simp only at hb'
  obtain ⟨hff, hgg, hfg, _⟩ := hb'
  have expand : ∀ (x y : Rat) (f g : V3), ((V3.smul x f).add (V3.smul y g)).nsq
      = x * x * f.dot f + y * y * g.dot g + 2 * x * y * f.dot g := by
    intro x y f g; simp only [V3.nsq, V3.dot, V3.add, V3.smul]; ring
  simp only [eqe2eci]
  rw [expand, hff, hgg, hfg]
  have hbb : h * h + k * k = (1 - beta) * (1 + beta) := by linear_combination hb
  have hb3 : (1 / (1 + beta)) * (1 + beta) = 1 := by field_simp
  have hb4 : (1 / (1 + beta)) * (h * h + k * k) = 1 - beta := by rw [hbb]; field_simp
  generalize (1 / (1 + beta)) = b at hb3 hb4 ⊢
  linear_combination (b ^ 2 * h ^ 4 * sma ^ 2 + b ^ 2 * h ^ 2 * k ^ 2 * sma ^ 2 - 2 * b * h ^ 2 * sma ^ 2 - k ^ 2 * sma ^ 2 + sma ^ 2) * hF
    + (2 * cF * h * k * sF * sma ^ 2 + h ^ 2 * sF ^ 2 * sma ^ 2 - h ^ 2 * sma ^ 2 - k ^ 2 * sF ^ 2 * sma ^ 2) * hb3
    + (-2 * b * cF * h * k * sF * sma ^ 2 - b * h ^ 2 * sF ^ 2 * sma ^ 2 + b * h ^ 2 * sma ^ 2 + b * k ^ 2 * sF ^ 2 * sma ^ 2) * hb4



/-- **the eccentric longitude is recovered exactly**: fed with the in-plane coordinates `eqe2eci` builds from `(cos F, sin F)`,
the two arguments `eci2eqe` hands to `arctan2` are `(sin F, cos F)` themselves -/
theorem eqe_F_inverse (sma h k beta cF sF : Rat) (ha : sma ≠ 0) (hb : beta * beta = 1 - h * h - k * k) (hb0 : beta ≠ 0) (hb1 : 1 + beta ≠ 0) :
    let b := 1 / (1 + beta)
    let X := sma * ((1 - h * h * b) * cF + h * k * b * sF - k)
    let Y := sma * ((1 - k * k * b) * sF + h * k * b * cF - h)
    eci2eqeF sma h k X Y beta = (sF, cF) := by
  have hbb : h * h + k * k = (1 - beta) * (1 + beta) := by linear_combination hb
  have hb3 : (1 / (1 + beta)) * (1 + beta) = 1 := by field_simp
  have hb4 : (1 / (1 + beta)) * (h * h + k * k) = 1 - beta := by rw [hbb]; field_simp
  simp only [eci2eqeF]
  generalize (1 / (1 + beta)) = b at hb3 hb4 ⊢
  refine Prod.ext ?_ ?_
  · simp only; field_simp; linear_combination (h - sF) * hb4
  · simp only; field_simp; linear_combination (k - cF) * hb4



/-- **areal velocity from equinoctial elements**: with the in-plane coordinates and rates `eqe2eci` builds,
`x ẏ − y ẋ = n a² √(1 − h² − k²)`, i.e. `‖r × v‖ = √(μ a (1 − e²))` -/
theorem eqe2eci_areal (sma h k n beta cF sF rr : Rat) (hF : cF * cF + sF * sF = 1) (hb : beta * beta = 1 - h * h - k * k)
    (hb1 : 1 + beta ≠ 0) (hrr : rr = sma * (1 - h * sF - k * cF)) (hr0 : rr ≠ 0) :
    let b := 1 / (1 + beta)
    let vt := n * (sma * sma) / rr
    let x := sma * ((1 - h * h * b) * cF + h * k * b * sF - k)
    let y := sma * ((1 - k * k * b) * sF + h * k * b * cF - h)
    let xd := vt * (h * k * b * cF - (1 - h * h * b) * sF)
    let yd := vt * ((1 - k * k * b) * cF - h * k * b * sF)
    x * yd - y * xd = n * sma ^ 2 * beta := by
  have hbb : h * h + k * k = (1 - beta) * (1 + beta) := by linear_combination hb
  have hb3 : (1 / (1 + beta)) * (1 + beta) = 1 := by field_simp
  have hb4 : (1 / (1 + beta)) * (h * h + k * k) = 1 - beta := by rw [hbb]; field_simp
  simp only
  generalize (1 / (1 + beta)) = b at hb3 hb4 ⊢
  field_simp
  linear_combination (-beta * n * sma ^ 2) * hrr + (-b * h ^ 2 * n * sma ^ 3 - b * k ^ 2 * n * sma ^ 3 + n * sma ^ 3) * hF
    + (cF * k * n * sma ^ 3 + h * n * sF * sma ^ 3 - n * sma ^ 3) * hb4


/-! ### anomalies -/

/-- Kepler's equation is what the conversion evaluates -/
theorem kepler_eq_definitional (E ecc sE : Rat) : keplerM E ecc sE = E - ecc * sE := rfl
theorem kepler_eqe_definitional (F h k cF sF : Rat) : keplerLam F h k cF sF = F + h * cF - k * sF := rfl

/-- **true ↔ eccentric anomaly are mutually inverse**: the direction `trueAnom2EccAnom` hands to `arctan2`,
normalised, is a unit vector (cos E, sin E); feeding it to `eccAnom2TrueAnom` gives a *positive* multiple of
(cos ν, sin ν), so `arctan2` returns ν again -/
theorem anomaly_inverse (ecc be cv sv : Rat) (hv : cv * cv + sv * sv = 1) (hbe : be * be = 1 - ecc * ecc)
    (hd : 1 + ecc * cv ≠ 0) :
    let cE := (nu2E ecc be cv sv).2 / (1 + ecc * cv)
    let sE := (nu2E ecc be cv sv).1 / (1 + ecc * cv)
    cE * cE + sE * sE = 1 ∧
    (E2nu ecc be cE sE).2 = (1 - ecc * ecc) / (1 + ecc * cv) * cv ∧
    (E2nu ecc be cE sE).1 = (1 - ecc * ecc) / (1 + ecc * cv) * sv := by
  simp only [nu2E, E2nu]
  refine ⟨?_, ?_, ?_⟩
  · field_simp
    linear_combination (sv * sv) * hbe + (1 - ecc * ecc) * hv
  · field_simp; ring
  · field_simp
    linear_combination sv * hbe

/-! ### non-vacuity: a concrete inclined eccentric orbit meets every hypothesis -/
example : (3/5 : Rat) * (3/5) + (4/5) * (4/5) = 1 ∧ (1 : Rat) + (1/2) * (3/5) ≠ 0 ∧ (1 : Rat) - (1/2) * (1/2) ≠ 0 := by
  norm_num

end RV.Props.C12
