/-
C02 — reported observations satisfy all sensor constraints; misses state a true reason.
-/
import RV.Model.Sensor
import Mathlib.Data.List.Basic

namespace RV.Props.C02
open RV.Sensor

/-- **a reported observation satisfies every constraint** of the cascade -/
theorem reported_satisfies_all (cs : List Check) (h : attempt cs = .observation) : ∀ c ∈ cs, c.holds = true := by
  induction cs with
  | nil => intro c hc; cases hc
  | cons a as ih =>
    intro c hc
    simp only [attempt] at h
    by_cases ha : a.holds = true
    · simp only [ha, if_true] at h
      rcases List.mem_cons.mp hc with rfl | h'
      · exact ha
      · exact ih h c h'
    · simp [ha] at h

/-- **a miss states a true reason**: the stated reason is that of a constraint which really fails,
and every constraint checked before it holds -/
theorem miss_reason_fails (cs : List Check) (r : Reason) (h : attempt cs = .missed r) :
    ∃ pre c post, cs = pre ++ c :: post ∧ c.holds = false ∧ c.reason = r ∧ ∀ d ∈ pre, d.holds = true := by
  induction cs with
  | nil => simp [attempt] at h
  | cons a as ih =>
    simp only [attempt] at h
    by_cases ha : a.holds = true
    · simp only [ha, if_true] at h
      obtain ⟨pre, c, post, h1, h2, h3, h4⟩ := ih h
      refine ⟨a :: pre, c, post, by simp [h1], h2, h3, ?_⟩
      intro d hd
      rcases List.mem_cons.mp hd with rfl | hd'
      · exact ha
      · exact h4 d hd'
    · have ha' : a.holds = false := by simpa using ha
      simp only [ha', Bool.false_eq_true, if_false, Outcome.missed.injEq] at h
      exact ⟨[], a, as, rfl, ha', h, fun d hd => by cases hd⟩

/-- conversely, if every constraint holds the target is observed -/
theorem all_hold_observed (cs : List Check) (h : ∀ c ∈ cs, c.holds = true) : attempt cs = .observation := by
  induction cs with
  | nil => rfl
  | cons a as ih =>
    simp only [attempt, h a List.mem_cons_self, if_true]
    exact ih fun c hc => h c (List.mem_cons_of_mem _ hc)

/-- **exactly one record for the primary target**: an observation or a miss, never both, never none -/
theorem one_primary_record (sr : Reason) (canSlew : Bool) (pc : List Check) (cb : Bool) (bg : List (Nat × List Check)) :
    (collect sr canSlew pc cb bg).primary = .observation ∨ ∃ r, (collect sr canSlew pc cb bg).primary = .missed r := by
  cases h : (collect sr canSlew pc cb bg).primary with
  | observation => exact Or.inl rfl
  | missed r => exact Or.inr ⟨r, rfl⟩

/-- an attempt that cannot be slewed to yields the slew miss and nothing else for the primary target -/
theorem slew_miss (sr : Reason) (pc : List Check) (cb : Bool) (bg : List (Nat × List Check)) :
    (collect sr false pc cb bg).primary = .missed sr := rfl

/-- serendipitous observations are only ever *observations* of targets from the background list
(the primary target is not in it), each satisfying all constraints -/
theorem background_only_observations (sr : Reason) (canSlew : Bool) (pc : List Check) (cb : Bool) (bg : List (Nat × List Check)) :
    ∀ p ∈ (collect sr canSlew pc cb bg).background,
      p.2 = .observation ∧ ∃ q ∈ bg, q.1 = p.1 ∧ ∀ c ∈ q.2, c.holds = true := by
  intro p hp
  unfold collect at hp
  simp only at hp
  cases hb : (cb && canSlew) with
  | false => simp [hb] at hp
  | true =>
    simp only [hb, if_true, List.mem_filter, List.mem_map] at hp
    obtain ⟨⟨q, hq, rfl⟩, hobs⟩ := hp
    have ho : attempt q.2 = .observation := by simpa using hobs
    exact ⟨ho, q, hq, rfl, reported_satisfies_all q.2 ho⟩

/-- **slew reachability is a constraint of every reported observation**: a sensor that could not slew to the
commanded pointing reports nothing at all — one slew miss for the primary target, no serendipitous observation -/
theorem nothing_reported_without_slew (sr : Reason) (pc : List Check) (cb : Bool) (bg : List (Nat × List Check)) :
    (collect sr false pc cb bg).background = [] ∧ (collect sr false pc cb bg).primary = .missed sr := by
  simp [collect]

/-- every reported observation, tasked or serendipitous, was made by a sensor that reached the pointing -/
theorem reported_implies_slewed (sr : Reason) (canSlew : Bool) (pc : List Check) (cb : Bool) (bg : List (Nat × List Check))
    (h : (collect sr canSlew pc cb bg).primary = .observation ∨ (collect sr canSlew pc cb bg).background ≠ []) :
    canSlew = true := by
  cases canSlew with
  | true => rfl
  | false => simp [collect] at h

/-- the code before the repair reported serendipitous observations about a pointing it never reached -/
theorem background_without_slew_unrepaired :
    (collectUnrepaired "Slew Distance" false [] true [(10002, [⟨true, "Field of View"⟩])]).background = [(10002, .observation)] := by
  decide

theorem no_background_when_disabled (sr : Reason) (canSlew : Bool) (pc : List Check) (bg : List (Nat × List Check)) :
    (collect sr canSlew pc false bg).background = [] := by simp [collect]

/-! ### non-vacuity -/
example : attempt [⟨true, "Field of View"⟩, ⟨true, "Minimum Range"⟩, ⟨false, "Line of Sight"⟩, ⟨false, "Azimuth Mask"⟩]
    = .missed "Line of Sight" := by decide
example : attempt [⟨true, "Field of View"⟩, ⟨true, "Line of Sight"⟩] = .observation := by decide

end RV.Props.C02
