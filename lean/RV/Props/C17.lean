/-
C17 — maneuver detectors compute their documented statistic over any history.
-/
import RV.Model.Detectors
import Mathlib.Algebra.Order.Field.Rat
import Mathlib.Algebra.Order.Field.Basic
import Mathlib.Tactic.Linarith
import Mathlib.Tactic.Ring
import Mathlib.Tactic.Positivity
import Mathlib.LinearAlgebra.Matrix.PosDef

namespace RV.Props.C17
open RV.Detectors

/-! ### the sliding window -/

private theorem take_cons_take {α} (w : Nat) (a : α) (l : List α) :
    (a :: l.take w).take w = (a :: l).take w := by
  cases w with
  | zero => rfl
  | succ n => simp [List.take_take]

theorem slidingState_snoc (w : Nat) (h : List Obs) (o : Obs) :
    slidingState w (h ++ [o]) = ((slidingState w h).step o).1 := by simp [slidingState]
theorem fadingState_snoc (δ : Rat) (h : List Obs) (o : Obs) :
    fadingState δ (h ++ [o]) = ((fadingState δ h).step o).1 := by simp [fadingState]

/-- state invariant: the two deques hold the last `w` entries of the history, newest first -/
theorem sliding_state (w : Nat) (h : List Obs) :
    (slidingState w h).w = w ∧
    (slidingState w h).qs = (h.reverse.map (·.q)).take w ∧
    (slidingState w h).dims = (h.reverse.map (·.dim)).take w := by
  induction h using List.reverseRecOn with
  | nil => simp [slidingState, Sliding.init]
  | append_singleton h o ih =>
    rw [slidingState_snoc]
    generalize slidingState w h = s at *
    obtain ⟨hw, hq, hd⟩ := ih
    simp only [Sliding.step, hw, hq, hd, List.reverse_append, List.reverse_singleton,
      List.singleton_append, List.map_cons, take_cons_take, and_self]

/-- **sliding statistic**: after any history `h` followed by the step `o`, the reported metric is
the sum of the NIS values of the last `min w (|h|+1)` steps and the degrees of freedom are the sum
of the measurement dimensions of those same steps. -/
theorem sliding_metric (w : Nat) (h : List Obs) (o : Obs) :
    (slidingOut w h o).metric = (((h ++ [o]).reverse.map (·.q)).take w).sum ∧
    (slidingOut w h o).dof = ((((h ++ [o]).reverse.map (·.dim)).take w).sum : Nat) := by
  obtain ⟨hw, hq, hd⟩ := sliding_state w h
  unfold slidingOut
  generalize slidingState w h = s at *
  simp only [Sliding.step, hw, hq, hd, List.reverse_append, List.reverse_singleton,
    List.singleton_append, List.map_cons, take_cons_take, and_self]

theorem sliding_window_bound (w : Nat) (h : List Obs) :
    (slidingState w h).qs.length = min w h.length := by
  rw [(sliding_state w h).2.1]; simp

/-! ### the fading memory -/

theorem fading_state (δ : Rat) (h : List Obs) :
    (fadingState δ h).δ = δ ∧
    (fadingState δ h).prior = fadedSum δ (h.reverse.map (·.q)) ∧
    (fadingState δ h).total = h.length ∧
    (fadingState δ h).totalDim = (h.map (·.dim)).sum := by
  induction h using List.reverseRecOn with
  | nil => simp [fadingState, Fading.init, fadedSum]
  | append_singleton h o ih =>
    rw [fadingState_snoc]
    generalize fadingState δ h = s at *
    obtain ⟨h1, h2, h3, h4⟩ := ih
    simp only [Fading.step, h1, h2, h3, h4, List.reverse_append, List.reverse_singleton,
      List.singleton_append, List.map_cons, fadedSum, List.length_append, List.length_singleton,
      List.map_append, List.sum_append, List.sum_cons, List.sum_nil, List.map_nil, true_and]
    refine ⟨by ring, by simp⟩

/-- **fading statistic**: the metric is `(1+δ)·Σ_j δ^j q_{k-j}` and the degrees of freedom are the
running mean of the measurement dimensions times `(1+δ)/(1-δ)`. -/
theorem fading_metric (δ : Rat) (h : List Obs) (o : Obs) :
    (fadingOut δ h o).metric = (1 + δ) * fadedSum δ ((h ++ [o]).reverse.map (·.q)) ∧
    (fadingOut δ h o).dof =
      (((((h ++ [o]).map (·.dim)).sum : Nat) : Rat) / (((h ++ [o]).length : Nat) : Rat))
        * (1 + δ) / (1 - δ) := by
  obtain ⟨h1, h2, h3, h4⟩ := fading_state δ h
  unfold fadingOut
  generalize fadingState δ h = s at *
  simp only [Fading.step, h1, h2, h3, h4, List.reverse_append, List.reverse_singleton,
    List.singleton_append, List.map_cons, fadedSum, List.length_append, List.length_singleton,
    List.map_append, List.sum_append, List.sum_cons, List.sum_nil, List.map_nil]
  refine ⟨by ring, by simp⟩

/-- the recursive faded sum is the documented closed form `Σ_{j<n} δ^j · q_j` (newest first) -/
theorem fadedSum_closed (δ : Rat) (l : List Rat) :
    fadedSum δ l = ((List.range l.length).map fun j => δ ^ j * l.getD j 0).sum := by
  induction l with
  | nil => simp [fadedSum]
  | cons a l ih =>
    rw [fadedSum, ih, List.length_cons, List.range_succ_eq_map, List.map_cons, List.sum_cons,
      List.map_map]
    simp only [pow_zero, one_mul, List.getD_cons_zero]
    congr 1
    rw [← List.sum_map_mul_left]
    congr 1
    apply List.map_congr_left
    intro j _
    simp only [Function.comp, List.getD_cons_succ, pow_succ]
    ring

/-- standard NIS: the metric is the current step's NIS, the dof its dimension -/
theorem standard_metric (o : Obs) : (standardStep o).metric = o.q ∧ (standardStep o).dof = o.dim :=
  ⟨rfl, rfl⟩

/-! ### the decision -/

/-- a maneuver is declared exactly when the metric reaches the chi-square bound for the dof -/
theorem detect_iff (B : Rat → Rat) (o : Out) : detect B o = true ↔ B o.dof ≤ o.metric := by
  simp [detect, not_lt]

/-! ### scaling the latest innovation -/

open Matrix in
/-- `nis (c•ν) = c²·nis ν` for any covariance inverse -/
theorem nis_scale {n : Nat} (c : ℚ) (ν : Fin n → ℚ) (Sinv : Matrix (Fin n) (Fin n) ℚ) :
    (c • ν) ⬝ᵥ (Sinv *ᵥ (c • ν)) = c ^ 2 * (ν ⬝ᵥ (Sinv *ᵥ ν)) := by
  rw [Matrix.mulVec_smul, smul_dotProduct, dotProduct_smul]
  simp only [smul_eq_mul]; ring

open Matrix in
/-- the NIS is non-negative when the inverse innovation covariance is positive semi-definite -/
theorem nis_nonneg {n : Nat} (ν : Fin n → ℚ) (Sinv : Matrix (Fin n) (Fin n) ℚ)
    (h : Sinv.PosSemidef) : 0 ≤ ν ⬝ᵥ (Sinv *ᵥ ν) := by
  have := h.dotProduct_mulVec_nonneg ν
  simpa using this

private theorem scaled_ge (c q : Rat) (hc : 1 ≤ c) (hq : 0 ≤ q) : q ≤ c ^ 2 * q := by
  have : 1 ≤ c ^ 2 := by nlinarith
  nlinarith

/-- **monotonicity**: scaling the latest innovation by `c ≥ 1` (so its NIS becomes `c²q`) never
turns a detection into a non-detection — for each of the three detectors, after any history. -/
theorem scale_keeps_detection_standard (B : Rat → Rat) (o : Obs) (c : Rat) (hc : 1 ≤ c)
    (hq : 0 ≤ o.q) (hdet : detect B (standardStep o) = true) :
    detect B (standardStep ⟨c ^ 2 * o.q, o.dim⟩) = true := by
  rw [detect_iff] at *
  simp only [standardStep] at *
  exact le_trans hdet (scaled_ge c o.q hc hq)

theorem scale_keeps_detection_sliding (B : Rat → Rat) (w : Nat) (h : List Obs) (o : Obs) (c : Rat)
    (hc : 1 ≤ c) (hq : 0 ≤ o.q) (hw : 0 < w)
    (hdet : detect B (slidingOut w h o) = true) :
    detect B (slidingOut w h ⟨c ^ 2 * o.q, o.dim⟩) = true := by
  rw [detect_iff] at *
  obtain ⟨m1, d1⟩ := sliding_metric w h o
  obtain ⟨m2, d2⟩ := sliding_metric w h ⟨c ^ 2 * o.q, o.dim⟩
  rw [m1, d1] at hdet
  rw [m2, d2]
  simp only [List.reverse_append, List.reverse_singleton, List.singleton_append, List.map_cons] at *
  obtain ⟨n, rfl⟩ : ∃ n, w = n + 1 := ⟨w - 1, by omega⟩
  simp only [List.take_succ_cons, List.sum_cons] at *
  linarith [scaled_ge c o.q hc hq]

theorem scale_keeps_detection_fading (B : Rat → Rat) (δ : Rat) (h : List Obs) (o : Obs) (c : Rat)
    (hc : 1 ≤ c) (hq : 0 ≤ o.q) (hδ : 0 < δ)
    (hdet : detect B (fadingOut δ h o) = true) :
    detect B (fadingOut δ h ⟨c ^ 2 * o.q, o.dim⟩) = true := by
  rw [detect_iff] at *
  obtain ⟨m1, d1⟩ := fading_metric δ h o
  obtain ⟨m2, d2⟩ := fading_metric δ h ⟨c ^ 2 * o.q, o.dim⟩
  rw [m1, d1] at hdet
  rw [m2, d2]
  simp only [List.reverse_append, List.reverse_singleton, List.singleton_append, List.map_cons,
    fadedSum, List.map_append, List.length_append, List.length_singleton, List.map_nil] at *
  have := scaled_ge c o.q hc hq
  nlinarith

/-! ### non-vacuity -/
example : (slidingOut 2 [⟨1, 2⟩, ⟨3, 1⟩] ⟨5, 3⟩).metric = 8 ∧
          (slidingOut 2 [⟨1, 2⟩, ⟨3, 1⟩] ⟨5, 3⟩).dof = 4 := by decide +kernel
example : (fadingOut (1/2) [⟨4, 2⟩] ⟨2, 4⟩).metric = 6 ∧
          (fadingOut (1/2) [⟨4, 2⟩] ⟨2, 4⟩).dof = 9 := by decide +kernel
example : detect (fun d => 2 * d) ⟨8, 4⟩ = true ∧ detect (fun d => 2 * d) ⟨7, 4⟩ = false := by
  decide +kernel

end RV.Props.C17
