/-
C07 — tasking decisions are feasible and optimal in the sense each policy documents.
Property theorems only (helper lemmas are local and marked `private`).
-/
import RV.Model.Decisions
import Mathlib.Algebra.BigOperators.Group.Finset.Basic
import Mathlib.Algebra.Order.BigOperators.Group.Finset
import Mathlib.Algebra.Order.Field.Rat
import Mathlib.Algebra.Order.Field.Basic
import Mathlib.Tactic.Linarith
import Mathlib.Tactic.FieldSimp

namespace RV.Props.C07
open RV.Decisions

/-! ### bridge: tabulated list matrices read back as the function they tabulate -/

theorem build_entry (T S : Nat) (f : Nat → Nat → Rat) (t s : Nat) (ht : t < T) (hs : s < S) :
    entry (build T S f) t s = f t s := by
  simp [entry, build, List.getD, ht, hs]

theorem build_bentry (T S : Nat) (f : Nat → Nat → Bool) (t s : Nat) (ht : t < T) (hs : s < S) :
    bentry (build T S f) t s = f t s := by
  simp [bentry, build, List.getD, ht, hs]

/-! ### every policy: a sensor is only tasked to a target it can see -/

theorem decision_subset_vis (sel vis : Nat → Nat → Bool) (t s : Nat)
    (h : calcD sel vis t s = true) : vis t s = true := by
  simp [calcD] at h; exact h.2

/-! ### greedy -/

private theorem argmaxFirst_le (f : Nat → Rat) (n : Nat) : argmaxFirst f n ≤ n := by
  induction n with
  | zero => simp [argmaxFirst]
  | succ n ih => simp only [argmaxFirst]; split <;> omega

private theorem argmaxFirst_max (f : Nat → Rat) (n : Nat) :
    ∀ i, i ≤ n → f i ≤ f (argmaxFirst f n) := by
  induction n with
  | zero => intro i hi; have : i = 0 := by omega
            subst this; simp [argmaxFirst]
  | succ n ih =>
    intro i hi
    simp only [argmaxFirst]
    split
    · rename_i hlt
      rcases Nat.lt_or_ge i (n+1) with h | h
      · exact le_of_lt (lt_of_le_of_lt (ih i (by omega)) hlt)
      · have : i = n+1 := by omega
        subst this; exact le_refl _
    · rename_i hnl
      rcases Nat.lt_or_ge i (n+1) with h | h
      · exact ih i (by omega)
      · have : i = n+1 := by omega
        subst this; exact not_lt.mp hnl

private theorem argmaxFirst_first (f : Nat → Rat) (n : Nat) :
    ∀ i, i < argmaxFirst f n → f i < f (argmaxFirst f n) := by
  induction n with
  | zero => intro i hi; simp [argmaxFirst] at hi
  | succ n ih =>
    intro i hi
    simp only [argmaxFirst] at hi ⊢
    split
    · rename_i hlt
      simp only [hlt, if_true] at hi
      exact lt_of_le_of_lt (argmaxFirst_max f n i (by omega)) hlt
    · rename_i hnl
      simp only [hnl, if_false] at hi
      exact ih i hi

/-- at most one target per sensor -/
theorem greedy_one_per_sensor (R : Nat → Nat → Rat) (vis : Nat → Nat → Bool) (T t t' s : Nat)
    (h : calcD (greedySel R T) vis t s = true) (h' : calcD (greedySel R T) vis t' s = true) :
    t = t' := by
  simp [calcD, greedySel] at h h'; omega

/-- the target a sensor is tasked to attains the maximum reward of that sensor's column, and
is the first index doing so (numpy's `argmax`). -/
theorem greedy_column_max (R : Nat → Nat → Rat) (vis : Nat → Nat → Bool) (T t s : Nat) (hT : 0 < T)
    (h : calcD (greedySel R T) vis t s = true) :
    t < T ∧ (∀ t', t' < T → R t' s ≤ R t s) ∧ (∀ t', t' < t → R t' s < R t s) := by
  simp [calcD, greedySel] at h
  obtain ⟨rfl, _⟩ := h
  refine ⟨?_, ?_, ?_⟩
  · have := argmaxFirst_le (fun t' => R t' s) (T-1); omega
  · intro t' ht'; exact argmaxFirst_max (fun t' => R t' s) (T-1) t' (by omega)
  · intro t' ht'; exact argmaxFirst_first (fun t' => R t' s) (T-1) t' ht'

/-- every sensor whose best target is visible is tasked to it -/
theorem greedy_tasks_best (R : Nat → Nat → Rat) (vis : Nat → Nat → Bool) (T s : Nat)
    (hv : vis (argmaxFirst (fun t' => R t' s) (T - 1)) s = true) :
    calcD (greedySel R T) vis (argmaxFirst (fun t' => R t' s) (T - 1)) s = true := by
  simp [calcD, greedySel, hv]

private theorem argmaxFirst_unique (f : Nat → Rat) (n b : Nat) (hb : b ≤ n)
    (hu : ∀ i, i ≤ n → i ≠ b → f i < f b) : argmaxFirst f n = b := by
  by_contra hne
  have h1 := argmaxFirst_max f n b hb
  have h2 := hu (argmaxFirst f n) (argmaxFirst_le f n) hne
  exact absurd h1 (not_le.mpr h2)

/-- relabelling sensors relabels the greedy decision (no tie condition needed). -/
theorem greedy_perm_sensors (R : Nat → Nat → Rat) (vis : Nat → Nat → Bool) (π : Nat → Nat)
    (T t s : Nat) :
    calcD (greedySel (fun t s => R t (π s)) T) (fun t s => vis t (π s)) t s
      = calcD (greedySel R T) vis t (π s) := rfl

/-- relabelling targets by a bijection `τ` of `0..T-1` relabels the greedy decision whenever the
column maximum is unique (with ties `argmax` picks the lowest index, which no relabelling can
respect). -/
theorem greedy_perm_targets (R : Nat → Nat → Rat) (vis : Nat → Nat → Bool) (τ : Nat → Nat)
    (T s b : Nat) (hT : 0 < T) (hb : b < T)
    (hτ : ∀ i, i < T → τ i < T) (hinj : ∀ i j, i < T → j < T → τ i = τ j → i = j)
    (huniq : ∀ i, i < T → i ≠ τ b → R i s < R (τ b) s) :
    ∀ t, t < T →
      calcD (greedySel (fun t s => R (τ t) s) T) (fun t s => vis (τ t) s) t s
        = calcD (greedySel R T) vis (τ t) s := by
  intro t ht
  have h1 : argmaxFirst (fun t' => R (τ t') s) (T-1) = b := by
    apply argmaxFirst_unique _ _ _ (by omega)
    intro i hi hne
    apply huniq (τ i) (hτ i (by omega))
    intro h; exact hne (hinj i b (by omega) hb h)
  have h2 : argmaxFirst (fun t' => R t' s) (T-1) = τ b := by
    apply argmaxFirst_unique _ _ _ (by have := hτ b hb; omega)
    intro i hi hne
    exact huniq i (by omega) hne
  simp only [calcD, greedySel, h1, h2]
  by_cases hbt : t = b
  · subst hbt; simp only [beq_self_eq_true]
  · have hne : τ t ≠ τ b := fun h => hbt (hinj t b ht hb h)
    have e1 : (t == b) = false := by simpa using hbt
    have e2 : (τ t == τ b) = false := by simpa using hne
    rw [e1, e2]

/-! ### all-visible and random -/

theorem allVisible_exact (vis : Nat → Nat → Bool) (t s : Nat) :
    calcD (allVisSel vis) vis t s = vis t s := by
  simp [calcD, allVisSel]

theorem random_one_per_sensor (vis : Nat → Nat → Bool) (T : Nat) (choice : Nat → Nat) (t t' s : Nat)
    (h : calcD (randomSel vis T choice) vis t s = true)
    (h' : calcD (randomSel vis T choice) vis t' s = true) : t = t' := by
  simp [calcD, randomSel] at h h'; omega

/-- a sensor that sees something is tasked (the generator draws among its visible targets). -/
theorem random_tasks_if_visible (vis : Nat → Nat → Bool) (T : Nat) (choice : Nat → Nat) (s : Nat)
    (hc : vis (choice s) s = true) (hT : choice s < T) :
    calcD (randomSel vis T choice) vis (choice s) s = true := by
  simp only [calcD, randomSel, anyVis, hc, Bool.and_true, beq_self_eq_true]
  simp only [List.any_eq_true, List.mem_range]
  exact ⟨choice s, hT, hc⟩

/-! ### assignment (Munkres) -/

/-- the solver's pairs are one-to-one ⇒ so is the decision (both directions). -/
theorem assign_one_one (pairs : List (Nat × Nat)) (vis : Nat → Nat → Bool)
    (hrow : ∀ p ∈ pairs, ∀ q ∈ pairs, p.1 = q.1 → p = q)
    (hcol : ∀ p ∈ pairs, ∀ q ∈ pairs, p.2 = q.2 → p = q) (t t' s s' : Nat) :
    (calcD (pairsSel pairs) vis t s = true → calcD (pairsSel pairs) vis t s' = true → s = s') ∧
    (calcD (pairsSel pairs) vis t s = true → calcD (pairsSel pairs) vis t' s = true → t = t') := by
  constructor
  · intro h h'
    simp [calcD, pairsSel] at h h'
    have := hrow _ h.1 _ h'.1 rfl
    exact (Prod.mk.inj this).2
  · intro h h'
    simp [calcD, pairsSel] at h h'
    have := hcol _ h.1 _ h'.1 rfl
    exact (Prod.mk.inj this).1

/-- ANDing with visibility does not change the masked total: dropped pairs are worth 0 there. -/
theorem masked_total_and_vis (R : Nat → Nat → Rat) (vis sel : Nat → Nat → Bool) (T S : Nat) :
    total (mask R vis) (calcD sel vis) T S = total (mask R vis) sel T S := by
  unfold total
  congr 1
  apply List.map_congr_left
  intro t _
  congr 1
  apply List.map_congr_left
  intro s _
  simp only [calcD, mask]
  rcases Bool.eq_false_or_eq_true (sel t s) with h1 | h1 <;>
    rcases Bool.eq_false_or_eq_true (vis t s) with h2 | h2 <;> simp [h1, h2]

private theorem listsum_range (f : Nat → Rat) (n : Nat) :
    ((List.range n).map f).sum = ∑ i ∈ Finset.range n, f i := by
  induction n with
  | zero => simp
  | succ n ih => rw [List.range_succ, List.map_append, List.sum_append, ih, Finset.sum_range_succ]; simp

/-- **weak duality**: an assignment accepted by `checkDual` has maximum total among all complete
one-to-one assignments of the `T ≤ S` targets, for matrices of any size. -/
theorem checkDual_sound (R : Nat → Nat → Rat) (T S : Nat) (u v : Nat → Rat) (σ σ' : Nat → Nat)
    (h : checkDual R T S u v σ = true)
    (hmap : ∀ t, t < T → σ' t < S)
    (hinj : ∀ i j, i < T → j < T → σ' i = σ' j → i = j) :
    totalOf R σ' T ≤ totalOf R σ T := by
  simp only [checkDual, Bool.and_eq_true, List.all_eq_true, List.mem_range, decide_eq_true_eq] at h
  obtain ⟨⟨hfeas, hv⟩, htight⟩ := h
  rw [← htight]
  simp only [totalOf, listsum_range]
  have h1 : ∑ t ∈ Finset.range T, R t (σ' t) ≤ ∑ t ∈ Finset.range T, (u t + v (σ' t)) := by
    apply Finset.sum_le_sum
    intro t ht
    exact hfeas t (Finset.mem_range.mp ht) (σ' t) (hmap t (Finset.mem_range.mp ht))
  have h2 : ∑ t ∈ Finset.range T, v (σ' t) = ∑ s ∈ (Finset.range T).image σ', v s := by
    rw [Finset.sum_image]
    intro i hi j hj hij
    exact hinj i j (Finset.mem_range.mp hi) (Finset.mem_range.mp hj) hij
  have h3 : ∑ s ∈ (Finset.range T).image σ', v s ≤ ∑ s ∈ Finset.range S, v s := by
    apply Finset.sum_le_sum_of_subset_of_nonneg
    · intro s hs
      obtain ⟨t, ht, rfl⟩ := Finset.mem_image.mp hs
      exact Finset.mem_range.mpr (hmap t (Finset.mem_range.mp ht))
    · intro s hs _
      exact hv s (Finset.mem_range.mp hs)
  rw [Finset.sum_add_distrib] at h1
  linarith

/-! ### rewards -/

private theorem listMax_ge : ∀ (l : List Rat) (m : Rat), listMax l = some m → ∀ x ∈ l, x ≤ m := by
  intro l
  induction l with
  | nil => intro m h; simp [listMax] at h
  | cons a as ih =>
    intro m h x hx
    simp only [listMax] at h
    cases hm : listMax as with
    | none =>
      simp only [hm] at h
      have has : as = [] := by
        cases as with
        | nil => rfl
        | cons b bs => simp only [listMax] at hm; split at hm <;> simp at hm
      subst has
      simp at hx; subst hx
      simp at h; exact le_of_eq h
    | some m' =>
      simp only [hm] at h
      have hm'' : m = if m' < a then a else m' := by simpa using h.symm
      rcases List.mem_cons.mp hx with rfl | hx
      · rw [hm'']; split <;> [exact le_refl _; exact not_lt.mp ‹_›]
      · have := ih m' hm x hx
        rw [hm'']; split <;> [exact le_trans this (le_of_lt ‹_›); exact this]

/-- each normalised metric is at most one (whenever the slice has a positive maximum; otherwise
the code leaves the slice as it is, and then every entry is ≤ 0). -/
theorem normalize_le_one (m : List Rat) : ∀ x ∈ normalize m, x ≤ 1 := by
  intro x hx
  unfold normalize at hx
  cases hm : listMax m with
  | none =>
    have : m = [] := by
      cases m with
      | nil => rfl
      | cons b bs => simp only [listMax] at hm; split at hm <;> simp at hm
    subst this; simp [listMax] at hx
  | some mx =>
    simp only [hm] at hx
    split at hx
    · rename_i hpos
      obtain ⟨y, hy, rfl⟩ := List.mem_map.mp hx
      have := listMax_ge m mx hm y hy
      rw [div_le_one hpos]; exact this
    · rename_i hnp
      have := listMax_ge m mx hm x hx
      linarith [not_lt.mp hnp]

/-- the three documented reward formulas -/
theorem costConstrained_formula (δ stab info sens : Rat) :
    costConstrained δ stab info sens = δ * (sign stab + info) - (1 - δ) * sens := rfl
theorem combined_formula (δ stab info sens beh : Rat) :
    combined δ stab info sens beh = δ * (sign stab + info) - (1 - δ) * sens + beh := rfl
/-- a pair whose metrics are all zero (an invisible pair inside the engine) earns reward zero, so
masking is a no-op on engine-built matrices. -/
theorem zero_metrics_zero_reward (δ : Rat) :
    costConstrained δ 0 0 0 = 0 ∧ combined δ 0 0 0 0 = 0 ∧ summation [0, 0, 0] = 0 := by
  simp [costConstrained, combined, summation, sign]

/-! ### non-vacuity: concrete instances meeting the hypotheses -/

/-- `R = [[5,1],[1,0]]`, `vis = [[F,T],[T,T]]` (the matrix on which the unmasked solver went
wrong before the repair): the masked optimum 2 is certified by `u = (1,1)`, `v = (0,0)`. -/
example : checkDual (mask (fun t s => entry [[5,1],[1,0]] t s)
      (fun t s => bentry [[false,true],[true,true]] t s)) 2 2
      (fun _ => 1) (fun _ => 0) (fun t => if t = 0 then 1 else 0) = true := by decide +kernel
example : bestTotal (mask (fun t s => entry [[5,1],[1,0]] t s)
      (fun t s => bentry [[false,true],[true,true]] t s)) 2 2 = some 2 := by decide +kernel
example : calcD (greedySel (fun t s => entry [[1,7],[3,7]] t s) 2) (fun _ _ => true) 0 1 = true := by
  decide +kernel

end RV.Props.C07
