/-
C04 — reference-frame conversions are exact inverses, rigid, and continuous in time.
-/
import RV.Model.Frames
import RV.Generated.Constants
import RV.Props.C16
import Mathlib.Algebra.Order.Field.Rat
import Mathlib.Algebra.Order.Field.Basic
import Mathlib.Tactic.Linarith
import Mathlib.Tactic.LinearCombination
import Mathlib.Tactic.Ring
import Mathlib.Tactic.FieldSimp
import Mathlib.Tactic.IntervalCases
import Mathlib.Tactic.NormNum

namespace RV.Props.C04
open RV RV.Frames

/-- unfold every vector/matrix operation down to components -/
macro "comps" loc:(Lean.Parser.Tactic.location)? : tactic => `(tactic|
  simp only [M3.mul, M3.transpose, M3.mulVec, M3.one, V3.dot, V3.cross, V3.add, V3.sub, V3.smul,
    V3.neg, V3.nsq, V3.zero, rot1, rot2, rot3, skew, skewOld, dotRot1, dotRot2, dotRot3, polarW, rotState,
    sez2ecefRot, ecef2sezRot, eci2ecef, ecef2eci, flipX, sph2cart, cart2sph, razel2sez, sez2razel,
    rswRot, ntwRot, eci2rsw, rsw2eci, ntw2eci, lla2ecef,
    M3.mk.injEq, V3.mk.injEq, State.mk.injEq, Sph.mk.injEq] $[$loc]?)

/-! ### generic facts about 3×3 matrices as data -/

theorem mulVec_mul (A B : M3) (v : V3) : (A.mul B).mulVec v = A.mulVec (B.mulVec v) := by
  comps; refine ⟨?_, ?_, ?_⟩ <;> ring

theorem mulVec_one (v : V3) : M3.one.mulVec v = v := by
  cases v; comps; refine ⟨?_, ?_, ?_⟩ <;> ring

theorem mulVec_add (A : M3) (u v : V3) : A.mulVec (u.add v) = (A.mulVec u).add (A.mulVec v) := by
  comps; refine ⟨?_, ?_, ?_⟩ <;> ring

theorem mulVec_sub (A : M3) (u v : V3) : A.mulVec (u.sub v) = (A.mulVec u).sub (A.mulVec v) := by
  comps; refine ⟨?_, ?_, ?_⟩ <;> ring

/-- an orthogonal matrix preserves inner products (lengths and relative geometry) -/
theorem orthogonal_preserves_dot (A : M3) (h : A.transpose.mul A = M3.one) (u v : V3) :
    (A.mulVec u).dot (A.mulVec v) = u.dot v := by
  obtain ⟨⟨a11, a12, a13⟩, ⟨a21, a22, a23⟩, ⟨a31, a32, a33⟩⟩ := A
  obtain ⟨ux, uy, uz⟩ := u
  obtain ⟨vx, vy, vz⟩ := v
  simp only [M3.mul, M3.transpose, M3.one, V3.dot, M3.mk.injEq, V3.mk.injEq] at h
  obtain ⟨⟨h11, h12, h13⟩, ⟨h21, h22, h23⟩, ⟨h31, h32, h33⟩⟩ := h
  simp only [M3.mulVec, V3.dot]
  linear_combination (ux * vx) * h11 + (ux * vy) * h12 + (ux * vz) * h13 + (uy * vx) * h21
    + (uy * vy) * h22 + (uy * vz) * h23 + (uz * vx) * h31 + (uz * vy) * h32 + (uz * vz) * h33

/-! ### elementary rotations and the cross-product matrix -/

theorem rot1_orthogonal (c s : Rat) (h : c * c + s * s = 1) :
    (rot1 c s).transpose.mul (rot1 c s) = M3.one ∧ (rot1 c s).mul (rot1 c s).transpose = M3.one := by
  comps; refine ⟨⟨⟨?_, ?_, ?_⟩, ⟨?_, ?_, ?_⟩, ⟨?_, ?_, ?_⟩⟩, ⟨⟨?_, ?_, ?_⟩, ⟨?_, ?_, ?_⟩, ⟨?_, ?_, ?_⟩⟩⟩ <;>
    first | ring1 | linear_combination h
theorem rot2_orthogonal (c s : Rat) (h : c * c + s * s = 1) :
    (rot2 c s).transpose.mul (rot2 c s) = M3.one ∧ (rot2 c s).mul (rot2 c s).transpose = M3.one := by
  comps; refine ⟨⟨⟨?_, ?_, ?_⟩, ⟨?_, ?_, ?_⟩, ⟨?_, ?_, ?_⟩⟩, ⟨⟨?_, ?_, ?_⟩, ⟨?_, ?_, ?_⟩, ⟨?_, ?_, ?_⟩⟩⟩ <;>
    first | ring1 | linear_combination h
theorem rot3_orthogonal (c s : Rat) (h : c * c + s * s = 1) :
    (rot3 c s).transpose.mul (rot3 c s) = M3.one ∧ (rot3 c s).mul (rot3 c s).transpose = M3.one := by
  comps; refine ⟨⟨⟨?_, ?_, ?_⟩, ⟨?_, ?_, ?_⟩, ⟨?_, ?_, ?_⟩⟩, ⟨⟨?_, ?_, ?_⟩, ⟨?_, ?_, ?_⟩, ⟨?_, ?_, ?_⟩⟩⟩ <;>
    first | ring1 | linear_combination h

/-- rotating by `-θ` is the transpose (`cos` even, `sin` odd) -/
theorem rot_neg_is_transpose (c s : Rat) :
    rot1 c (-s) = (rot1 c s).transpose ∧ rot2 c (-s) = (rot2 c s).transpose
      ∧ rot3 c (-s) = (rot3 c s).transpose := by
  comps; simp

/-- `skewSymmetric(w) · v = w × v` for all `w`, `v` -/
theorem skew_is_cross (w v : V3) : (skew w).mulVec v = w.cross v := by
  comps; refine ⟨?_, ?_, ?_⟩ <;> ring
/-- and it is antisymmetric -/
theorem skew_antisymm (w : V3) : (skew w).transpose = skew (w.neg) := by
  comps; simp
/-- the unrepaired matrix was neither (witness `w = (1,2,3)`) -/
theorem skewOld_not_cross :
    ((skewOld ⟨1, 2, 3⟩).mulVec ⟨0, 1, 0⟩).z ≠ (V3.cross ⟨1, 2, 3⟩ ⟨0, 1, 0⟩).z := by
  comps; norm_num

theorem dotRot_def (c s : Rat) (ω v : V3) :
    (dotRot1 c s ω).mulVec v = (rot1 c s).mulVec (ω.cross v) ∧
    (dotRot2 c s ω).mulVec v = (rot2 c s).mulVec (ω.cross v) ∧
    (dotRot3 c s ω).mulVec v = (rot3 c s).mulVec (ω.cross v) := by
  simp only [dotRot1, dotRot2, dotRot3, mulVec_mul, skew_is_cross, and_self]

/-- the polar-motion matrix is orthogonal -/
theorem polarW_orthogonal (cx sx cy sy : Rat) (hx : cx * cx + sx * sx = 1) (hy : cy * cy + sy * sy = 1) :
    (polarW cx sx cy sy).transpose.mul (polarW cx sx cy sy) = M3.one := by
  comps
  refine ⟨⟨?_, ?_, ?_⟩, ⟨?_, ?_, ?_⟩, ⟨?_, ?_, ?_⟩⟩
  · linear_combination hx + (sx * sx) * hy
  · linear_combination (0 : Rat)
  · linear_combination (sx * cx) * hy
  · linear_combination (0 : Rat)
  · linear_combination hy
  · linear_combination (0 : Rat)
  · linear_combination (sx * cx) * hy
  · linear_combination (0 : Rat)
  · linear_combination hx + (cx * cx) * hy

/-! ### inertial ↔ Earth-fixed -/

/-- `ecef2eci ∘ eci2ecef = id` on position and velocity, for any orthogonal reduction matrices -/
theorem eci_ecef_inverse (PNR RNP W Wt : M3) (om : Rat) (x : State)
    (hP : PNR.mul RNP = M3.one) (hW : W.mul Wt = M3.one) :
    ecef2eci PNR W om (eci2ecef RNP W Wt om x) = x := by
  obtain ⟨r, v⟩ := x
  simp only [ecef2eci, eci2ecef, State.mk.injEq]
  have hWW : ∀ u, W.mulVec (Wt.mulVec u) = u := by
    intro u; rw [← mulVec_mul, hW, mulVec_one]
  have hPP : ∀ u, PNR.mulVec (RNP.mulVec u) = u := by
    intro u; rw [← mulVec_mul, hP, mulVec_one]
  constructor
  · rw [hWW, hPP]
  · rw [hWW, hWW]
    have : ((RNP.mulVec v).sub (V3.cross ⟨0, 0, om⟩ (RNP.mulVec r))).add (V3.cross ⟨0, 0, om⟩ (RNP.mulVec r))
        = RNP.mulVec v := by
      comps; refine ⟨?_, ?_, ?_⟩ <;> ring
    rw [this, hPP]

/-- `eci2ecef ∘ ecef2eci = id` -/
theorem ecef_eci_inverse (PNR RNP W Wt : M3) (om : Rat) (x : State)
    (hP : RNP.mul PNR = M3.one) (hW : Wt.mul W = M3.one) :
    eci2ecef RNP W Wt om (ecef2eci PNR W om x) = x := by
  obtain ⟨r, v⟩ := x
  simp only [ecef2eci, eci2ecef, State.mk.injEq]
  have hWW : ∀ u, Wt.mulVec (W.mulVec u) = u := by
    intro u; rw [← mulVec_mul, hW, mulVec_one]
  have hPP : ∀ u, RNP.mulVec (PNR.mulVec u) = u := by
    intro u; rw [← mulVec_mul, hP, mulVec_one]
  constructor
  · rw [hPP, hWW]
  · rw [hPP, hPP, hWW]
    have : ((W.mulVec v).add (V3.cross ⟨0, 0, om⟩ (W.mulVec r))).sub (V3.cross ⟨0, 0, om⟩ (W.mulVec r))
        = W.mulVec v := by
      comps; refine ⟨?_, ?_, ?_⟩ <;> ring
    rw [this, hWW]

/-- rigidity: positions keep their length and the relative geometry of any two states at the same
instant is preserved (the map on positions is the orthogonal matrix `Wᵀ·RNP`). -/
theorem eci_ecef_rigid (RNP W Wt : M3) (om : Rat) (x y : State)
    (hP : RNP.transpose.mul RNP = M3.one) (hW : Wt.transpose.mul Wt = M3.one) :
    (eci2ecef RNP W Wt om x).r.dot (eci2ecef RNP W Wt om y).r = x.r.dot y.r ∧
    ((eci2ecef RNP W Wt om x).r.sub (eci2ecef RNP W Wt om y).r).nsq = (x.r.sub y.r).nsq := by
  simp only [eci2ecef]
  constructor
  · rw [orthogonal_preserves_dot Wt hW, orthogonal_preserves_dot RNP hP]
  · unfold V3.nsq
    rw [← mulVec_sub, ← mulVec_sub, orthogonal_preserves_dot Wt hW, orthogonal_preserves_dot RNP hP]

/-- a site at rest in the Earth-fixed frame has inertial velocity `PNR·(ω × W r)` — the
Earth-rotation velocity at that point (used by C11) -/
theorem fixed_site_velocity (PNR W : M3) (om : Rat) (r : V3) :
    (ecef2eci PNR W om ⟨r, V3.zero⟩).v = PNR.mulVec (V3.cross ⟨0, 0, om⟩ (W.mulVec r)) := by
  comps; refine ⟨?_, ?_, ?_⟩ <;> ring

/-! ### topocentric horizon -/

theorem sez_inverse (cl sl c2 s2 : Rat) (hl : cl * cl + sl * sl = 1) (h2 : c2 * c2 + s2 * s2 = 1) :
    (ecef2sezRot cl sl c2 s2).mul (sez2ecefRot cl sl c2 s2) = M3.one ∧
    (sez2ecefRot cl sl c2 s2).mul (ecef2sezRot cl sl c2 s2) = M3.one := by
  comps
  refine ⟨⟨⟨?_, ?_, ?_⟩, ⟨?_, ?_, ?_⟩, ⟨?_, ?_, ?_⟩⟩, ⟨⟨?_, ?_, ?_⟩, ⟨?_, ?_, ?_⟩, ⟨?_, ?_, ?_⟩⟩⟩
  all_goals first
    | ring1
    | linear_combination hl
    | linear_combination h2
    | linear_combination (c2 * c2) * hl + h2
    | linear_combination (s2 * s2) * hl + h2
    | linear_combination (c2 * s2) * hl
    | linear_combination (-(c2 * s2)) * hl
    | linear_combination (cl * cl) * h2 + hl
    | linear_combination (sl * sl) * h2 + hl
    | linear_combination (cl * sl) * h2
    | linear_combination (-(cl * sl)) * h2

theorem sez_rigid (cl sl c2 s2 : Rat) (hl : cl * cl + sl * sl = 1) (h2 : c2 * c2 + s2 * s2 = 1)
    (u v : V3) :
    ((ecef2sezRot cl sl c2 s2).mulVec u).dot ((ecef2sezRot cl sl c2 s2).mulVec v) = u.dot v := by
  apply orthogonal_preserves_dot
  have := (sez_inverse cl sl c2 s2 hl h2).2
  have e : (ecef2sezRot cl sl c2 s2).transpose = sez2ecefRot cl sl c2 s2 := by
    comps; refine ⟨⟨?_, ?_, ?_⟩, ⟨?_, ?_, ?_⟩, ⟨?_, ?_, ?_⟩⟩ <;> ring
  rw [e]; exact this

/-! ### spherical ↔ Cartesian, range-azimuth-elevation -/

/-- `cartesian2spherical ∘ spherical2cartesian = id` on range, direction cosines and rates
(ρ > 0, cos θ > 0: away from the poles, the branch the code takes whenever `temp1 ≠ 0`) -/
theorem sph_cart_inverse (p : Sph) (hρ : 0 < p.rho) (hc : 0 < p.cth)
    (hth : p.cth * p.cth + p.sth * p.sth = 1) (hph : p.cph * p.cph + p.sph * p.sph = 1) :
    cart2sph (sph2cart p) p.rho (p.rho * p.cth) = p := by
  obtain ⟨ρ, cθ, sθ, cφ, sφ, ρd, θd, φd⟩ := p
  simp only at hρ hc hth hph
  have hρ' : ρ ≠ 0 := ne_of_gt hρ
  have hc' : cθ ≠ 0 := ne_of_gt hc
  comps
  refine ⟨trivial, ?_, ?_, ?_, ?_, ?_, ?_, ?_⟩
  · field_simp
  · field_simp
  · field_simp
  · field_simp
  · field_simp
    linear_combination (cθ ^ 2 * ρd - cθ * ρ * sθ * θd) * hph + ρd * hth
  · field_simp
    linear_combination (sθ ^ 2 * ρ * cθ * θd - ρd * sθ * cθ ^ 2) * hph + (-(ρd * sθ)) * hth
  · have hden : -(ρ * cθ * sφ * (ρ * cθ * sφ)) - ρ * cθ * cφ * (ρ * cθ * cφ) ≠ 0 := by
      have : -(ρ * cθ * sφ * (ρ * cθ * sφ)) - ρ * cθ * cφ * (ρ * cθ * cφ) = -(ρ * cθ) ^ 2 := by
        linear_combination (-(ρ * cθ) ^ 2) * hph
      rw [this]; exact neg_ne_zero.mpr (pow_ne_zero 2 (mul_ne_zero hρ' hc'))
    rw [div_eq_iff hden]
    ring

/-- `sez2razel ∘ razel2sez = id` -/
theorem razel_sez_inverse (p : Sph) (hρ : 0 < p.rho) (hc : 0 < p.cth)
    (hth : p.cth * p.cth + p.sth * p.sth = 1) (hph : p.cph * p.cph + p.sph * p.sph = 1) :
    sez2razel (razel2sez p) p.rho (p.rho * p.cth) = p := by
  have : flipX (razel2sez p) = sph2cart p := by
    simp only [razel2sez, flipX, neg_neg]
  rw [sez2razel, this]; exact sph_cart_inverse p hρ hc hth hph

/-- the spherical position has the stated range: `‖sph2cart p‖² = ρ²` -/
theorem sph2cart_range (p : Sph) (hth : p.cth * p.cth + p.sth * p.sth = 1)
    (hph : p.cph * p.cph + p.sph * p.sph = 1) : (sph2cart p).r.nsq = p.rho * p.rho := by
  comps
  linear_combination (p.rho ^ 2 * p.cth ^ 2) * hph + (p.rho ^ 2) * hth

/-! ### satellite RSW / NTW frames -/

private theorem lagrange (r v : V3) : (r.cross v).nsq = r.nsq * v.nsq - r.dot v * r.dot v := by
  comps; ring

/-- the RSW rows are orthonormal, so `rsw2eci` (the transpose) inverts `eci2rsw` -/
theorem rsw_orthonormal (x : State) (nr nh : Rat) (hr : nr * nr = x.r.nsq) (hh : nh * nh = (x.r.cross x.v).nsq)
    (hr0 : nr ≠ 0) (hh0 : nh ≠ 0) :
    (rswRot x nr nh).mul (rswRot x nr nh).transpose = M3.one := by
  obtain ⟨⟨rx, ry, rz⟩, ⟨vx, vy, vz⟩⟩ := x
  comps at hr hh ⊢
  have e1 : (1 / nr) * (1 / nr) * (rx * rx + ry * ry + rz * rz) = 1 := by rw [← hr]; field_simp
  have e2 : (1 / nh) * (1 / nh) * ((ry * vz - rz * vy) * (ry * vz - rz * vy) + (rz * vx - rx * vz) * (rz * vx - rx * vz)
      + (rx * vy - ry * vx) * (rx * vy - ry * vx)) = 1 := by rw [← hh]; field_simp
  refine ⟨⟨?_, ?_, ?_⟩, ⟨?_, ?_, ?_⟩, ⟨?_, ?_, ?_⟩⟩
  · linear_combination e1
  · ring
  · ring
  · ring
  · linear_combination ((1 / nh) * (1 / nh) * ((ry * vz - rz * vy) * (ry * vz - rz * vy) + (rz * vx - rx * vz) * (rz * vx - rx * vz)
      + (rx * vy - ry * vx) * (rx * vy - ry * vx))) * e1 + e2
  · ring
  · ring
  · ring
  · linear_combination e2

theorem rsw_inverse (target rel : State) (nr nh : Rat) (hr : nr * nr = target.r.nsq)
    (hh : nh * nh = (target.r.cross target.v).nsq) (hr0 : nr ≠ 0) (hh0 : nh ≠ 0) :
    rotState (rswRot target nr nh) (rsw2eci target rel nr nh) = rel := by
  have h := rsw_orthonormal target nr nh hr hh hr0 hh0
  obtain ⟨r, v⟩ := rel
  simp only [rsw2eci, rotState, State.mk.injEq, ← mulVec_mul, h, mulVec_one, and_self]

/-- the NTW rows are orthonormal -/
theorem ntw_orthonormal (x : State) (nv nh : Rat) (hv : nv * nv = x.v.nsq) (hh : nh * nh = (x.r.cross x.v).nsq)
    (hv0 : nv ≠ 0) (hh0 : nh ≠ 0) :
    (ntwRot x nv nh).mul (ntwRot x nv nh).transpose = M3.one := by
  obtain ⟨⟨rx, ry, rz⟩, ⟨vx, vy, vz⟩⟩ := x
  comps at hv hh ⊢
  have e1 : (1 / nv) * (1 / nv) * (vx * vx + vy * vy + vz * vz) = 1 := by rw [← hv]; field_simp
  have e2 : (1 / nh) * (1 / nh) * ((ry * vz - rz * vy) * (ry * vz - rz * vy) + (rz * vx - rx * vz) * (rz * vx - rx * vz)
      + (rx * vy - ry * vx) * (rx * vy - ry * vx)) = 1 := by rw [← hh]; field_simp
  refine ⟨⟨?_, ?_, ?_⟩, ⟨?_, ?_, ?_⟩, ⟨?_, ?_, ?_⟩⟩
  · linear_combination ((1 / nh) * (1 / nh) * ((ry * vz - rz * vy) * (ry * vz - rz * vy) + (rz * vx - rx * vz) * (rz * vx - rx * vz)
      + (rx * vy - ry * vx) * (rx * vy - ry * vx))) * e1 + e2
  · ring
  · ring
  · ring
  · linear_combination e1
  · ring
  · ring
  · ring
  · linear_combination e2

/-! ### geodetic → Earth-fixed -/

/-- at zero altitude the point lies on the reference ellipsoid `(x²+y²)/a² + z²/b² = 1`,
`b² = a²(1-e²)`, and altitude is measured along the ellipsoid normal `(cφcλ, cφsλ, sφ)`. -/
theorem lla_on_ellipsoid (a e2 N cp sp cl sl : Rat) (ha : a ≠ 0) (he : 1 - e2 ≠ 0)
    (hN : N * N * (1 - e2 * sp * sp) = a * a)
    (hp : cp * cp + sp * sp = 1) (hl : cl * cl + sl * sl = 1) :
    let p := lla2ecef e2 N cp sp cl sl 0
    (p.x * p.x + p.y * p.y) / (a * a) + p.z * p.z / (a * a * (1 - e2)) = 1 := by
  comps
  have ha2 : a * a ≠ 0 := mul_ne_zero ha ha
  rw [div_add_div _ _ ha2 (mul_ne_zero ha2 he), div_eq_one_iff_eq (mul_ne_zero ha2 (mul_ne_zero ha2 he))]
  linear_combination (a * a * (1 - e2) * N * N * cp * cp) * hl + (a * a * (1 - e2) * N * N) * hp
    + (a * a * (1 - e2)) * hN

theorem lla_altitude_along_normal (e2 N cp sp cl sl h : Rat) :
    lla2ecef e2 N cp sp cl sl h
      = (lla2ecef e2 N cp sp cl sl 0).add (V3.smul h ⟨cp * cl, cp * sl, sp⟩) := by
  comps; refine ⟨?_, ?_, ?_⟩ <;> ring

/-! ### day of year: continuity across month, leap-day and year boundaries -/

def validDate (y : Int) (m d : Nat) : Prop :=
  1 ≤ m ∧ m ≤ 12 ∧ 1 ≤ d ∧ (d : Int) ≤ monthLen (isLeap y) m

private theorem isLeap_iff (y : Int) :
    isLeap y = true ↔ (y % 4 = 0 ∧ ¬ (y % 100 = 0 ∧ y % 400 ≠ 0)) := by
  unfold isLeap
  by_cases h4 : y % 4 = 0 <;> by_cases h100 : y % 100 = 0 <;> by_cases h400 : y % 400 = 0 <;>
    simp [h4, h100, h400]

/-- `dayOfYear` agrees with the independent civil calendar for **every** Gregorian date:
the day number within the year is the difference of absolute day numbers. -/
theorem dayOfYear_eq_dayNumber (y : Int) (m d : Nat) (h : validDate y m d) :
    dayOfYearInt y m d = dayNumber y m d - dayNumber y 1 1 + 1 := by
  obtain ⟨h1, h2, h3, h4⟩ := h
  unfold dayOfYearInt dayNumber
  have hcases : isLeap y = true ∨ isLeap y = false := by cases isLeap y <;> simp
  rcases hcases with hl | hl
  · have := (isLeap_iff y).mp hl
    rw [hl] at h4 ⊢
    interval_cases m <;> simp [daysBefore, monthLen] at h4 ⊢ <;> omega
  · have : ¬ (y % 4 = 0 ∧ ¬ (y % 100 = 0 ∧ y % 400 ≠ 0)) := by
      intro hc; rw [(isLeap_iff y).mpr hc] at hl; exact absurd hl (by simp)
    rw [hl] at h4 ⊢
    interval_cases m <;> simp [daysBefore, monthLen] at h4 ⊢ <;> omega

/-- consecutive calendar days — across month ends, 28/29 February and 31 December / 1 January —
are consecutive absolute days, hence `dayOfYear` advances by exactly one (or restarts at 1). -/
theorem dayNumber_next_day (y : Int) (m d : Nat) (h : validDate y m d) :
    (if (d : Int) < monthLen (isLeap y) m then dayNumber y m (d + 1)
     else if m < 12 then dayNumber y (m + 1) 1 else dayNumber (y + 1) 1 1) = dayNumber y m d + 1 := by
  obtain ⟨h1, h2, h3, h4⟩ := h
  unfold dayNumber
  have hcases : isLeap y = true ∨ isLeap y = false := by cases isLeap y <;> simp
  rcases hcases with hl | hl
  · have := (isLeap_iff y).mp hl
    rw [hl] at h4 ⊢
    interval_cases m <;> simp [monthLen] at h4 ⊢ <;> split <;> omega
  · have : ¬ (y % 4 = 0 ∧ ¬ (y % 100 = 0 ∧ y % 400 ≠ 0)) := by
      intro hc; rw [(isLeap_iff y).mpr hc] at hl; exact absurd hl (by simp)
    rw [hl] at h4 ⊢
    interval_cases m <;> simp [monthLen] at h4 ⊢ <;> split <;> omega

/-- within a day the fractional day of year is linear in the time of day -/
theorem dayOfYear_linear (y : Int) (m d hh mi : Nat) (sec δ : Rat) :
    dayOfYear y m d hh mi (sec + δ) = dayOfYear y m d hh mi sec + δ / 86400 := by
  unfold dayOfYear; ring

/-! ### Greenwich sidereal angle -/

/-- within a year the sidereal angle (before wrapping) advances by exactly
`rate(year)·2π` per elapsed day: no jump at minute, day, month or leap-day boundaries. -/
theorem gast_rate (k : GstConst) (y : Int) (t δ eqe : Rat) (hτ : 0 < k.twopi) :
    ∃ n : Int, gast k y (t + δ) eqe = gast k y t eqe + rotRate y * δ * k.twopi + n * k.twopi := by
  unfold gast
  obtain ⟨n1, h1⟩ := RV.Props.C16.wrap2Pi_congr k.twopi hτ (gmst k (jdJan1 y) + rotRate y * (t + δ) * k.twopi + eqe)
  obtain ⟨n2, h2⟩ := RV.Props.C16.wrap2Pi_congr k.twopi hτ (gmst k (jdJan1 y) + rotRate y * t * k.twopi + eqe)
  refine ⟨n1 - n2, ?_⟩
  rw [h1, h2]; push_cast; ring

/-- the code's constants, as extracted on this run -/
def kGen : GstConst := ⟨RV.Generated.DEG2RAD, RV.Generated.TWOPI⟩

/-- size of the jump of the sidereal angle when the year changes: the angle computed from year `y`
at the end of its last day minus the angle computed from year `y+1` at day 0, reduced to (-π, π] -/
def yearJump (k : GstConst) (y : Int) : Rat :=
  let days : Rat := if isLeap y then 366 else 365
  RV.Angles.wrapNegPiPi (k.twopi / 2) k.twopi (gast k y days 0 - gast k (y + 1) 0 0)

def allYears (lo n : Nat) (p : Int → Bool) : Bool := (List.range n).all fun i => p ((lo + i : Nat) : Int)

/-- **year boundary**: for every year 1990 … 2059 the sidereal angle is continuous across
31 December → 1 January to better than 1e-9 rad (a finite table, checked by kernel evaluation in
exact rational arithmetic on the extracted constants). -/
theorem gast_year_continuity :
    allYears 1990 70 (fun y => decide (RV.Angles.absQ (yearJump kGen y) < 1 / 1000000000)) = true := by
  decide +kernel

/-! ### non-vacuity -/
example : (3 / 5 : Rat) * (3 / 5) + (4 / 5) * (4 / 5) = 1 := by norm_num
example : validDate 2024 2 29 ∧ ¬ validDate 2023 2 29 ∧ validDate 2100 2 28 ∧ ¬ validDate 2100 2 29 := by
  unfold validDate; decide
example : dayOfYearInt 2024 12 31 = 366 ∧ dayOfYearInt 2023 12 31 = 365 ∧ dayOfYearInt 2024 3 1 = 61 := by
  decide +kernel
example : cart2sph (sph2cart ⟨10, 3/5, 4/5, 4/5, 3/5, 1, 2, 3⟩) 10 6 = ⟨10, 3/5, 4/5, 4/5, 3/5, 1, 2, 3⟩ := by
  decide +kernel

end RV.Props.C04
