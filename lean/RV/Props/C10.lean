/-
C10 — truth trajectories depend only on dynamics and initial states.
-/
import RV.Model.Truth
import Mathlib.Data.List.Perm.Basic
import Mathlib.Data.List.Nodup
import Mathlib.Tactic.Linarith

namespace RV.Props.C10
open RV.Truth

variable {σ R R' : Type}

private theorem applyJobs_apply (rs : List (JobResult σ)) : ∀ (m : TruthMap σ) (k : Nat),
    (∀ r ∈ rs, r.agent ≠ k) → applyJobs m rs k = m k := by
  induction rs with
  | nil => intro m k _; rfl
  | cons r rs ih =>
    intro m k h
    simp only [applyJobs, List.foldl_cons]
    have := ih (upd m r.agent r.final) k (fun r' hr' => h r' (List.mem_cons_of_mem _ hr'))
    simp only [applyJobs] at this
    rw [this]
    have hne : r.agent ≠ k := h r List.mem_cons_self
    simp [upd, Ne.symm hne]

/-- the truth state of agent `a` after a step is the propagation of its own previous state:
whatever the other agents are, and whatever order the jobs complete in (each agent has one job). -/
theorem step_truth_own (prop : Nat → σ → σ) (m : TruthMap σ) (order : List Nat) (hn : order.Nodup)
    (a : Nat) (ha : a ∈ order) :
    applyJobs m (jobsOf prop m order) a = (m a).map (prop a) := by
  induction order with
  | nil => cases ha
  | cons b bs ih =>
    rw [List.nodup_cons] at hn
    unfold jobsOf at ih ⊢
    rcases List.mem_cons.mp ha with rfl | hab
    · -- a is the first job: later jobs belong to other agents and do not touch it
      cases hm : m a with
      | none =>
        simp only [List.filterMap_cons, hm, Option.map_none]
        rw [applyJobs_apply _ _ _ (by
          intro r hr
          obtain ⟨c, hc, hcr⟩ := List.mem_filterMap.mp hr
          cases hmc : m c with
          | none => simp [hmc] at hcr
          | some x => simp [hmc] at hcr; subst hcr; exact fun h => hn.1 (h ▸ hc))]
        exact hm
      | some x =>
        simp only [List.filterMap_cons, hm, Option.map_some, applyJobs, List.foldl_cons]
        have := applyJobs_apply (bs.filterMap fun c => (m c).map fun y => (⟨c, prop c y⟩ : JobResult σ)) (upd m a (prop a x)) a (by
          intro r hr
          obtain ⟨c, hc, hcr⟩ := List.mem_filterMap.mp hr
          cases hmc : m c with
          | none => simp [hmc] at hcr
          | some y => simp [hmc] at hcr; subst hcr; exact fun h => hn.1 (h ▸ hc))
        simp only [applyJobs] at this
        rw [this]; simp [upd]
    · have hne : b ≠ a := fun h => hn.1 (h ▸ hab)
      cases hm : m b with
      | none =>
        simp only [List.filterMap_cons, hm, Option.map_none]
        exact ih hn.2 hab
      | some x =>
        simp only [List.filterMap_cons, hm, Option.map_some, applyJobs, List.foldl_cons]
        -- after b's write the rest of the jobs read the *submitted* states (m), and a's own state is unchanged by b
        have key : ∀ (rs : List (JobResult σ)) (m1 m2 : TruthMap σ), (∀ k, k ≠ b → m1 k = m2 k) →
            ∀ k, k ≠ b → (rs.foldl (fun m r => upd m r.agent r.final) m1) k = (rs.foldl (fun m r => upd m r.agent r.final) m2) k := by
          intro rs
          induction rs with
          | nil => intro m1 m2 h k hk; exact h k hk
          | cons r rs ih2 =>
            intro m1 m2 h k hk
            simp only [List.foldl_cons]
            apply ih2 _ _ _ k hk
            intro j hj; simp only [upd]; split
            · rfl
            · exact h j hj
        have := key (bs.filterMap fun c => (m c).map fun y => (⟨c, prop c y⟩ : JobResult σ)) (upd m b (prop b x)) m
          (by intro k hk; simp [upd, hk]) a (Ne.symm hne)
        rw [this]
        exact ih hn.2 hab

/-- agents without a job keep their state -/
theorem step_truth_untouched (prop : Nat → σ → σ) (m : TruthMap σ) (order : List Nat) (a : Nat) (ha : a ∉ order) :
    applyJobs m (jobsOf prop m order) a = m a := by
  apply applyJobs_apply
  intro r hr
  unfold jobsOf at hr
  obtain ⟨c, hc, hcr⟩ := List.mem_filterMap.mp hr
  cases hmc : m c with
  | none => simp [hmc] at hcr
  | some y => simp [hmc] at hcr; subst hcr; exact fun h => ha (h ▸ hc)

/-- **completion order is irrelevant**: two orders of the same set of jobs give the same truth -/
theorem step_order_independent (prop : Nat → σ → σ) (m : TruthMap σ) (o1 o2 : List Nat) (h1 : o1.Nodup)
    (hp : o1.Perm o2) : applyJobs m (jobsOf prop m o1) = applyJobs m (jobsOf prop m o2) := by
  funext a
  have h2 : o2.Nodup := hp.nodup_iff.mp h1
  by_cases ha : a ∈ o1
  · rw [step_truth_own prop m o1 h1 a ha, step_truth_own prop m o2 h2 a (hp.mem_iff.mp ha)]
  · rw [step_truth_untouched prop m o1 a ha, step_truth_untouched prop m o2 a (fun h => ha (hp.mem_iff.mpr h))]

/-- **non-interference**: two runs that share the dynamics (`prop`), the initial truth and the
agents' propagation events have the same truth at every step — whatever the rest of the system is
(estimation on or off, filters, rewards, decisions, sensors, noise, output cadence: all of that lives
in `R`, `R'` and the `restStep`s), and whatever order the jobs complete in. -/
theorem truth_noninterference (prop : Nat → Nat → σ → σ)
    (rest1 : Nat → TruthMap σ → R → R) (rest2 : Nat → TruthMap σ → R' → R')
    (ord1 ord2 : Nat → List Nat) (hnd : ∀ k, (ord1 k).Nodup) (hperm : ∀ k, (ord1 k).Perm (ord2 k))
    (w1 : World σ R) (w2 : World σ R') (h0 : w1.truth = w2.truth) :
    ∀ n, ((List.range n).foldl (fun w k => stepWorld (prop k) (rest1 k) (ord1 k) w) w1).truth
       = ((List.range n).foldl (fun w k => stepWorld (prop k) (rest2 k) (ord2 k) w) w2).truth := by
  intro n
  induction n with
  | zero => simpa using h0
  | succ n ih =>
    have st : ∀ {Q : Type} (p : Nat → σ → σ) (r : TruthMap σ → Q → Q) (o : List Nat) (w : World σ Q),
        (stepWorld p r o w).truth = applyJobs w.truth (jobsOf p w.truth o) := fun _ _ _ _ => rfl
    rw [List.range_succ, List.foldl_append, List.foldl_append]
    simp only [List.foldl_cons, List.foldl_nil]
    rw [st, st, ih]
    exact step_order_independent (prop n) _ (ord1 n) (ord2 n) (hnd n) (hperm n)

/-- adding or removing *other* agents does not alter the trajectory of the remaining ones: agent
`a`'s state after a step is `prop a` of its own state in both worlds. -/
theorem other_agents_irrelevant (prop : Nat → σ → σ) (m1 m2 : TruthMap σ) (o1 o2 : List Nat)
    (h1 : o1.Nodup) (h2 : o2.Nodup) (a : Nat) (ha1 : a ∈ o1) (ha2 : a ∈ o2) (hsame : m1 a = m2 a) :
    applyJobs m1 (jobsOf prop m1 o1) a = applyJobs m2 (jobsOf prop m2 o2) a := by
  rw [step_truth_own prop m1 o1 h1 a ha1, step_truth_own prop m2 o2 h2 a ha2, hsame]

/-- a run performed in one call or split into consecutive calls is the same fold over the steps -/
theorem split_calls (f : World σ R → Nat → World σ R) (w : World σ R) (n m : Nat) :
    ((List.range' n m).foldl f ((List.range n).foldl f w)) = (List.range (n + m)).foldl f w := by
  rw [List.range_eq_range', List.range_eq_range', ← List.foldl_append]
  congr 1
  have := List.range'_append (s := 0) (m := n) (n := m) (step := 1)
  simpa using this

/-! ### non-vacuity -/
example : applyJobs (fun i => if i = 1 then some 10 else if i = 2 then some 20 else none)
    (jobsOf (fun a x => x + a) (fun i => if i = 1 then some 10 else if i = 2 then some 20 else none) [2, 1]) 1 = some 11 := by
  decide

end RV.Props.C10
