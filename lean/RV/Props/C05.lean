/-
C05 — calendar, Julian-date and scenario times agree; requested durations are honoured.

The float operations are modelled bit for bit (`RV.Num.F64`, `RV.Model.Time`); the lemmas behind these theorems are
in `RV/Proofs/Time.lean`: every operation of `getJulianDate`, `getCalendarDate` and `days2mdh` is exact on whole
seconds except the quotient `S/86400` and the sum `J + frac`, whose errors are bounded by `2^-54` and `2^-32` day.
-/
import RV.Model.Time
import RV.Proofs.F64
import RV.Proofs.Time

namespace RV.Props.C05
open RV.Time RV.F64 RV.Proofs.Time

/-- a whole-second civil instant of the years 1901-2099 (the range of the conversion formula) -/
abbrev Valid (c : Civil) : Prop := ValidCivil c ∧ c.d ≤ monthLenT ((c.y - 1900) % 4 == 0) c.mo

/-- **calendar → Julian date → calendar is the identity** for every whole second of 1901-2099 -/
theorem civil_roundtrip (c : Civil) (h : Valid c) : j2dSeconds .nearest (jdOf c) = civilToSeconds c :=
  RV.Proofs.Time.civil_roundtrip c h.1 h.2

/-- the date fields come back exactly; the time of day comes back as the sexagesimal digits of a day fraction within
`2^-32 + 2^-54` day (20 microseconds) of the true one -/
theorem calendar_fields_recovered (c : Civil) (h : Valid c) :
    (getCalendarDate (jdOf c)).y = c.y ∧ (getCalendarDate (jdOf c)).mo = c.mo ∧ (getCalendarDate (jdOf c)).d = c.d := by
  obtain ⟨g, _, _, _, _, hcal⟩ := calendar_recovered c h.1 h.2
  rw [hcal]; exact ⟨rfl, rfl, rfl⟩

/-- **Julian dates are strictly increasing in civil time**: distinct instants have distinct, equally ordered Julian dates -/
theorem jd_strict_mono (c1 c2 : Civil) (h1 : ValidCivil c1) (h2 : ValidCivil c2)
    (hlt : civilToSeconds c1 < civilToSeconds c2) : jdOf c1 < jdOf c2 :=
  RV.Proofs.Time.jd_strict_mono c1 c2 h1 h2 hlt

theorem jd_injective (c1 c2 : Civil) (h1 : ValidCivil c1) (h2 : ValidCivil c2) (h : jdOf c1 = jdOf c2) :
    civilToSeconds c1 = civilToSeconds c2 := by
  rcases lt_trichotomy (civilToSeconds c1) (civilToSeconds c2) with hlt | heq | hgt
  · exact absurd h (ne_of_lt (jd_strict_mono c1 c2 h1 h2 hlt))
  · exact heq
  · exact absurd h.symm (ne_of_lt (jd_strict_mono c2 c1 h2 h1 hgt))

/-- the Julian date of an instant is within 21 microseconds of its exact value -/
theorem jd_accuracy (c : Civil) (hv : ValidCivil c) :
    |jdOf c - ((dayCount c : Rat) + 17210135 / 10 + (secOfDay c : Rat) / 86400)| * 86400 < 21 / 1000000 :=
  jd_error c hv

/-- **scenario time between two instants** (`convertToScenarioTime`) is their civil distance to within half a second
(in fact 4.1e-5 s), the subtraction and both multiplications being exact -/
theorem scenario_time (c0 c1 : Civil) (h0 : ValidCivil c0) (h1 : ValidCivil c1)
    (hD0 : 0 ≤ civilToSeconds c1 - civilToSeconds c0) (hD1 : civilToSeconds c1 - civilToSeconds c0 ≤ 100000000) :
    ∃ η : Rat, |η| < 1 / 2 ∧ toScenario (jdOf c1) (jdOf c0) = ((civilToSeconds c1 - civilToSeconds c0 : Int) : Rat) + η :=
  let ⟨η, a, b, _⟩ := scenario_time_exact c0 c1 h0 h1 hD0 hD1
  ⟨η, a, b⟩

/-- **requested durations are honoured**: a timed run of `D` seconds (a multiple of the step) takes exactly `D / dt`
steps. `target` is the civil instant `D` seconds after the start as `datetime + timedelta` labels it (that labelling is
integer calendar arithmetic, tied to CPython by the bit-exact comparison of `getTargetJulianDate`). -/
theorem timed_run_steps (start target : Civil) (D dt : Int) (hs : Valid start) (ht : ValidCivil target)
    (hlabel : civilFromSeconds (civilToSeconds start + D) = target)
    (htsec : civilToSeconds target = civilToSeconds start + D)
    (hdt : 0 < dt) (hdt2 : dt ≤ 100000000) (hdiv : dt ∣ D) (hD : dt ≤ D) (hDmax : D ≤ 100000000) :
    runSteps .nearest start D dt = some (D / dt) :=
  RV.Proofs.Time.timed_run_steps start target D dt hs.1 ht hs.2 hlabel htsec hdt hdt2 hdiv hD hDmax

/-! ### records of the defect that was repaired, and non-vacuity -/

/-- the unrepaired `int(second)` rule returned 2021-03-30T16:00:01 one second early, and a timed
run from that instant lost its last step (kept as the machine-checked record of the defect) -/
theorem civil_roundtrip_truncate_fails :
    j2dSeconds .truncate (jdOf ⟨2021, 3, 30, 16, 0, 1, 0⟩) = civilToSeconds ⟨2021, 3, 30, 16, 0, 1, 0⟩ - 1 ∧
    runSteps .truncate ⟨2021, 3, 30, 16, 0, 1, 0⟩ 3600 60 = some 59 := by
  decide +kernel

/-- with the repaired rule the same instant round-trips and the run takes all 60 steps -/
theorem civil_roundtrip_witness :
    j2dSeconds .nearest (jdOf ⟨2021, 3, 30, 16, 0, 1, 0⟩) = civilToSeconds ⟨2021, 3, 30, 16, 0, 1, 0⟩ ∧
    runSteps .nearest ⟨2021, 3, 30, 16, 0, 1, 0⟩ 3600 60 = some 60 := by
  decide +kernel

/-- the hypotheses are satisfiable: the instant of the witness is `Valid`, and the labelling hypotheses of
`timed_run_steps` hold for it -/
example : Valid ⟨2021, 3, 30, 16, 0, 1, 0⟩ ∧
    civilFromSeconds (civilToSeconds ⟨2021, 3, 30, 16, 0, 1, 0⟩ + 3600) = ⟨2021, 3, 30, 17, 0, 1, 0⟩ ∧
    civilToSeconds ⟨2021, 3, 30, 17, 0, 1, 0⟩ = civilToSeconds ⟨2021, 3, 30, 16, 0, 1, 0⟩ + 3600 := by
  refine ⟨⟨⟨by decide, by decide, by decide, by decide, by decide, by decide, by decide, by decide, by decide, by decide,
    by decide, by decide, rfl⟩, by decide⟩, by decide +kernel, by decide +kernel⟩

end RV.Props.C05
