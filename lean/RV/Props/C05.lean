/-
C05 — calendar, Julian-date and scenario times agree; requested durations are honoured.
-/
import RV.Model.Time
import RV.Proofs.F64

namespace RV.Props.C05
open RV.Time RV.F64

/-- the unrepaired `int(second)` rule returned 2021-03-30T16:00:01 one second early, and a timed
run from that instant lost its last step (kept as the machine-checked record of the defect) -/
theorem civil_roundtrip_truncate_fails :
    j2dSeconds .truncate (jdOf ⟨2021, 3, 30, 16, 0, 1, 0⟩) = civilToSeconds ⟨2021, 3, 30, 16, 0, 1, 0⟩ - 1 ∧
    runSteps .truncate ⟨2021, 3, 30, 16, 0, 1, 0⟩ 3600 60 = some 59 := by
  decide +kernel

/-- with the repaired rule the same instant round-trips and the run takes all 60 steps -/
theorem civil_roundtrip_witness :
    j2dSeconds .nearest (jdOf ⟨2021, 3, 30, 16, 0, 1, 0⟩) = civilToSeconds ⟨2021, 3, 30, 16, 0, 1, 0⟩ ∧
    runSteps .nearest ⟨2021, 3, 30, 16, 0, 1, 0⟩ 3600 60 = some 60 := by
  decide +kernel

end RV.Props.C05
