/-
C19 — imported ephemerides/observations are used faithfully; the importer stays read-only.
-/
import RV.Model.Importer
import Mathlib.Data.List.Basic
import Mathlib.Tactic.Linarith

namespace RV.Props.C19
open RV.Importer

/-- **completeness**: if any registered agent has no record for the epoch the run stops with a
missing-ephemeris error naming it — however many unrelated agents the database also contains. -/
theorem import_complete (s : St) (rows : List Row) (a : Nat) (ha : a ∈ s.regs)
    (hmiss : a ∉ rows.map (·.1)) :
    ∃ ids, importStep .idSets s rows = .missing ids ∧ a ∈ ids := by
  unfold importStep
  simp only
  have hm : a ∈ s.regs.filter (fun a => !(rows.map (·.1)).contains a) := by
    simp only [List.mem_filter, ha, true_and, Bool.not_eq_true', List.contains_eq_mem, decide_eq_false_iff_not]
    exact hmiss
  have hne : (s.regs.filter (fun a => !(rows.map (·.1)).contains a)).isEmpty = false := by
    cases h : s.regs.filter (fun a => !(rows.map (·.1)).contains a) with
    | nil => rw [h] at hm; simp at hm
    | cons x xs => rfl
  rw [hne]
  exact ⟨_, rfl, hm⟩

/-- conversely an import that succeeds found a record for every registered agent -/
theorem import_ok_all_present (s : St) (rows : List Row) (s' : St)
    (h : importStep .idSets s rows = .ok s') : ∀ a ∈ s.regs, a ∈ rows.map (·.1) := by
  intro a ha
  by_contra hc
  obtain ⟨ids, hm, _⟩ := import_complete s rows a ha hc
  rw [hm] at h; cases h

/-! ### faithfulness -/

def lookup (rows : List Row) (a : Nat) : Option Nat := (rows.find? (·.1 == a)).map (·.2)

private theorem stateOf_set_same (st : List (Nat × Nat)) (a r : Nat) : stateOf (setState st a r) a = r := by
  unfold stateOf setState
  have h1 : (st.filter (·.1 != a)).find? (·.1 == a) = none := by
    rw [List.find?_eq_none]
    intro x hx
    have := (List.mem_filter.mp hx).2
    simpa using this
  rw [List.find?_append, h1]
  simp

private theorem stateOf_set_other (st : List (Nat × Nat)) (a b r : Nat) (h : b ≠ a) :
    stateOf (setState st a r) b = stateOf st b := by
  unfold stateOf setState
  have h1 : (st.filter (·.1 != a)).find? (·.1 == b) = st.find? (·.1 == b) := by
    induction st with
    | nil => rfl
    | cons x xs ih =>
      by_cases hx : x.1 = a
      · have hxb : (x.1 == b) = false := by
          rw [beq_eq_false_iff_ne]; intro hc; exact h (hc.symm.trans hx)
        have hab : (a == b) = false := by rw [beq_eq_false_iff_ne]; exact fun hc => h hc.symm
        simp [List.filter_cons, hx, List.find?_cons, hab, ih]
      · simp only [List.filter_cons, bne_iff_ne, ne_eq, hx, not_false_eq_true, decide_true, if_true, List.find?_cons]
        cases hxb : (x.1 == b) <;> simp [ih]
  rw [List.find?_append, h1]
  cases hf : st.find? (·.1 == b) with
  | some p => simp
  | none =>
    have : ((a, r).1 == b) = false := by rw [beq_eq_false_iff_ne]; exact fun hc => h hc.symm
    simp [List.find?_cons, this]

/-- what the import loop does, for every agent: a registered agent with a record takes the state
of its (first) record and is unregistered; everything else is untouched. -/
theorem applyRows_spec (rows : List Row) : ∀ (s : St), s.regs.Nodup →
    (∀ a, a ∈ (applyRows rows s).regs ↔ (a ∈ s.regs ∧ a ∉ rows.map (·.1))) ∧
    (∀ a, a ∈ s.regs → ∀ r, lookup rows a = some r → stateOf (applyRows rows s).states a = r) ∧
    (∀ a, a ∉ s.regs → stateOf (applyRows rows s).states a = stateOf s.states a) ∧
    (applyRows rows s).regs.Nodup := by
  induction rows with
  | nil =>
    intro s hs
    refine ⟨fun a => by simp [applyRows], ?_, fun a _ => rfl, hs⟩
    intro a _ r hr; simp [lookup] at hr
  | cons p rows ih =>
    intro s hs
    obtain ⟨b, rb⟩ := p
    simp only [applyRows]
    by_cases hb : b ∈ s.regs
    · simp only [hb, if_true]
      have hs' : (s.regs.erase b).Nodup := hs.erase b
      obtain ⟨i1, i2, i3, i4⟩ := ih ⟨s.regs.erase b, setState s.states b rb⟩ hs'
      refine ⟨?_, ?_, ?_, i4⟩
      · intro a
        rw [i1 a]
        simp only [List.map_cons, List.mem_cons, not_or]
        constructor
        · rintro ⟨h1, h2⟩
          have := (List.Nodup.mem_erase_iff hs).mp h1
          exact ⟨this.2, this.1, h2⟩
        · rintro ⟨h1, h2, h3⟩
          exact ⟨(List.Nodup.mem_erase_iff hs).mpr ⟨h2, h1⟩, h3⟩
      · intro a ha r hr
        by_cases hab : a = b
        · subst hab
          have : lookup ((a, rb) :: rows) a = some rb := by simp [lookup, List.find?_cons]
          rw [this] at hr
          have hr' : rb = r := Option.some.inj hr
          subst hr'
          have hnot : a ∉ s.regs.erase a := fun hc => ((List.Nodup.mem_erase_iff hs).mp hc).1 rfl
          rw [i3 a hnot]
          exact stateOf_set_same _ _ _
        · have hl : lookup ((b, rb) :: rows) a = lookup rows a := by
            have : ((b, rb).1 == a) = false := by rw [beq_eq_false_iff_ne]; exact fun hc => hab hc.symm
            simp [lookup, List.find?_cons, this]
          rw [hl] at hr
          exact i2 a ((List.Nodup.mem_erase_iff hs).mpr ⟨hab, ha⟩) r hr
      · intro a ha
        have hab : a ≠ b := fun hc => ha (hc ▸ hb)
        have hnot : a ∉ s.regs.erase b := fun hc => ha (List.mem_of_mem_erase hc)
        rw [i3 a hnot]
        exact stateOf_set_other _ _ _ _ hab
    · simp only [hb, if_false]
      obtain ⟨i1, i2, i3, i4⟩ := ih s hs
      refine ⟨?_, ?_, i3, i4⟩
      · intro a
        rw [i1 a]
        simp only [List.map_cons, List.mem_cons, not_or]
        constructor
        · rintro ⟨h1, h2⟩; exact ⟨h1, fun hab => hb (hab ▸ h1), h2⟩
        · rintro ⟨h1, _, h3⟩; exact ⟨h1, h3⟩
      · intro a ha r hr
        have hab : a ≠ b := fun hc => hb (hc ▸ ha)
        have hl : lookup ((b, rb) :: rows) a = lookup rows a := by
          have : ((b, rb).1 == a) = false := by rw [beq_eq_false_iff_ne]; exact fun hc => hab hc.symm
          simp [lookup, List.find?_cons, this]
        rw [hl] at hr
        exact i2 a ha r hr

/-- **faithfulness**: when the import succeeds, every registered agent's state is the database
record for that agent and epoch, the registrant set is empty afterwards (nobody stays registered
with a stale state), and agents that were not registered are untouched. -/
theorem import_faithful (s s' : St) (rows : List Row) (hs : s.regs.Nodup)
    (h : importStep .idSets s rows = .ok s') :
    s'.regs = [] ∧
    (∀ a ∈ s.regs, ∃ r, lookup rows a = some r ∧ stateOf s'.states a = r) ∧
    (∀ a, a ∉ s.regs → stateOf s'.states a = stateOf s.states a) := by
  have hall := import_ok_all_present s rows s' h
  unfold importStep at h
  simp only at h
  split at h
  · have hs' : s' = applyRows rows s := by cases h; rfl
    subst hs'
    obtain ⟨i1, i2, i3, _⟩ := applyRows_spec rows s hs
    refine ⟨?_, ?_, i3⟩
    · apply List.eq_nil_iff_forall_not_mem.mpr
      intro a ha
      have := (i1 a).mp ha
      exact this.2 (hall a this.1)
    · intro a ha
      have hmem := hall a ha
      obtain ⟨p, hp, hpa⟩ := List.mem_map.mp hmem
      have : ∃ q, rows.find? (·.1 == a) = some q := by
        cases hf : rows.find? (·.1 == a) with
        | some q => exact ⟨q, rfl⟩
        | none =>
          have := List.find?_eq_none.mp hf p hp
          simp [hpa] at this
      obtain ⟨q, hq⟩ := this
      refine ⟨q.2, by simp [lookup, hq], ?_⟩
      exact i2 a ha q.2 (by simp [lookup, hq])
  · cases h

/-- the unrepaired count comparison let a missing registered agent through when the database also
held an unrelated agent: registrants {1,2}, rows for {1,3} — no error, agent 2 keeps its stale
state and stays registered. -/
theorem import_unrepaired_misses :
    importStep .counts ⟨[1, 2], []⟩ [(1, 11), (3, 33)] = .ok ⟨[2], [(1, 11)]⟩ ∧
    importStep .idSets ⟨[1, 2], []⟩ [(1, 11), (3, 33)] = .missing [2] := by
  decide +kernel

/-- registering keeps the registrant keys duplicate-free -/
theorem register_nodup (s : St) (a : Nat) (h : s.regs.Nodup) : (register s a).regs.Nodup := by
  unfold register
  split
  · exact h
  · rename_i ha
    simp only
    rw [List.nodup_append]
    refine ⟨h, by simp, ?_⟩
    intro x hx y hy hxy
    simp at hy; subst hy; subst hxy; exact ha hx

/-! ### imported observations -/

private theorem dedup_spec : ∀ (os : List Obs) (seen : List (Int × Int × Int × Nat)),
    (∀ o ∈ dedup os seen, o ∈ os ∧ o.key ∉ seen) ∧
    (∀ o ∈ os, o.key ∉ seen → ∃ o' ∈ dedup os seen, o'.key = o.key) ∧
    ((dedup os seen).map (·.key)).Nodup := by
  intro os
  induction os with
  | nil => intro seen; simp [dedup]
  | cons o os ih =>
    intro seen
    simp only [dedup]
    by_cases h : seen.contains o.key = true
    · simp only [h, if_true]
      obtain ⟨i1, i2, i3⟩ := ih seen
      refine ⟨fun x hx => ⟨List.mem_cons_of_mem _ (i1 x hx).1, (i1 x hx).2⟩, ?_, i3⟩
      intro x hx hk
      rcases List.mem_cons.mp hx with rfl | hx'
      · exact absurd (by simpa using h) hk
      · exact i2 x hx' hk
    · simp only [h, if_false]
      have hns : o.key ∉ seen := by simpa using h
      obtain ⟨i1, i2, i3⟩ := ih (o.key :: seen)
      refine ⟨?_, ?_, ?_⟩
      · intro x hx
        rcases List.mem_cons.mp hx with rfl | hx'
        · exact ⟨List.mem_cons_self, hns⟩
        · have := i1 x hx'
          exact ⟨List.mem_cons_of_mem _ this.1, fun hc => this.2 (List.mem_cons_of_mem _ hc)⟩
      · intro x hx hk
        rcases List.mem_cons.mp hx with rfl | hx'
        · exact ⟨x, List.mem_cons_self, rfl⟩
        · by_cases hxo : x.key = o.key
          · exact ⟨o, List.mem_cons_self, hxo.symm⟩
          · obtain ⟨o', ho', hk'⟩ := i2 x hx' (by
              intro hc; rcases List.mem_cons.mp hc with h1 | h1
              · exact hxo h1
              · exact hk h1)
            exact ⟨o', List.mem_cons_of_mem _ ho', hk'⟩
      · show ((o :: dedup os (o.key :: seen)).map (·.key)).Nodup
        rw [List.map_cons, List.nodup_cons]
        refine ⟨?_, i3⟩
        intro hc
        obtain ⟨x, hx, hxk⟩ := List.mem_map.mp hc
        exact (i1 x hx).2 (hxk ▸ List.mem_cons_self)

/-- every stored observation of the epoch is represented exactly once in the list handed on:
nothing is invented, every position/target key that was stored is present, and no key twice. -/
theorem obs_reach_filter (os : List Obs) :
    (∀ o ∈ dedup os [], o ∈ os) ∧
    (∀ o ∈ os, ∃ o' ∈ dedup os [], o'.key = o.key) ∧
    ((dedup os []).map (·.key)).Nodup := by
  obtain ⟨i1, i2, i3⟩ := dedup_spec os []
  exact ⟨fun o ho => (i1 o ho).1, fun o ho => i2 o ho (by simp), i3⟩

/-- with pairwise distinct keys nothing is dropped -/
theorem obs_distinct_all_kept (os : List Obs) (h : (os.map (·.key)).Nodup) : dedup os [] = os := by
  have key : ∀ (os : List Obs) (seen : List (Int × Int × Int × Nat)), (os.map (·.key)).Nodup →
      (∀ o ∈ os, o.key ∉ seen) → dedup os seen = os := by
    intro os
    induction os with
    | nil => intro _ _ _; rfl
    | cons o os ih =>
      intro seen hn hs
      simp only [List.map_cons, List.nodup_cons] at hn
      have h1 : seen.contains o.key = false := by
        have := hs o List.mem_cons_self; simpa using this
      simp only [dedup, h1, Bool.false_eq_true, if_false]
      congr 1
      apply ih _ hn.2
      intro x hx hc
      rcases List.mem_cons.mp hc with h2 | h2
      · exact hn.1 (List.mem_map.mpr ⟨x, hx, h2⟩)
      · exact hs x (List.mem_cons_of_mem _ hx) h2
  exact key os [] h (by simp)

/-! ### read-only -/
theorem writes_rejected : rejected .insertData = true ∧ rejected .deleteData = true ∧ rejected .bulkSave = true :=
  ⟨rfl, rfl, rfl⟩

/-! ### non-vacuity -/
example : importStep .idSets ⟨[1, 2], [(1, 5)]⟩ [(3, 33), (2, 22), (1, 11)] = .ok ⟨[], [(2, 22), (1, 11)]⟩ := by
  decide +kernel
example : (dedup [⟨1, (1, 2, 3, 7)⟩, ⟨2, (1, 2, 3, 7)⟩, ⟨3, (1, 2, 3, 8)⟩] []).map (·.id) = [1, 3] := by
  decide +kernel

end RV.Props.C19
