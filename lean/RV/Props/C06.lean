/-
C06 — the unscented filter equals the Kalman filter on linear systems; covariances stay valid.

The sigma-point constructions are written exactly as the code forms them (a centre point, `n`
points `c + γ·Lᵢ`, `n` points `c − γ·Lᵢ`, the mean weights `w₀, wᵢ`, the covariance weights
`w₀ + 1 − α² + β, wᵢ`), over Mathlib matrices with rational entries; `L` is any factor with
`L Lᵀ = P` (the code uses Cholesky) and `γ` any number with `γ² = n + λ` (the code uses `sqrt`).
-/
import Mathlib.Data.Matrix.Mul
import Mathlib.Data.Matrix.Basic
import Mathlib.LinearAlgebra.Matrix.PosDef
import Mathlib.Data.Rat.Star
import Mathlib.Algebra.Order.Field.Rat
import Mathlib.Tactic.Linarith
import Mathlib.Tactic.Ring
import Mathlib.Tactic.FieldSimp
import Mathlib.Tactic.NoncommRing

namespace RV.Props.C06
open Matrix

variable {n a b : ℕ}

/-- tuning: `λ = α²(n+κ) − n`; the weights the constructor computes -/
structure Tuning (n : ℕ) where
  lam : ℚ
  γ : ℚ
  α : ℚ
  β : ℚ
  hne : (n : ℚ) + lam ≠ 0
  hγ : γ * γ = (n : ℚ) + lam

def Tuning.w0 (t : Tuning n) : ℚ := t.lam / ((n : ℚ) + t.lam)
def Tuning.wi (t : Tuning n) : ℚ := 1 / (2 * ((n : ℚ) + t.lam))
def Tuning.wc0 (t : Tuning n) : ℚ := t.w0 + 1 - t.α ^ 2 + t.β

/-- **the sigma-point weights sum to one** -/
theorem weights_sum_one (t : Tuning n) : t.w0 + ∑ _i : Fin n, t.wi + ∑ _i : Fin n, t.wi = 1 := by
  have h := t.hne
  simp only [Tuning.w0, Tuning.wi, Finset.sum_const, Finset.card_univ, Fintype.card_fin, nsmul_eq_mul]
  field_simp
  ring

private theorem two_wi_gamma (t : Tuning n) : 2 * t.wi * (t.γ * t.γ) = 1 := by
  have h := t.hne
  rw [t.hγ]; simp only [Tuning.wi]; field_simp

/-- column `i` of a matrix -/
def col (L : Matrix (Fin n) (Fin n) ℚ) (i : Fin n) : Fin n → ℚ := fun r => L r i

/-- weighted mean of the sigma points `c, c ± γ Lᵢ` after a linear map `G` -/
def sigmaMean (t : Tuning n) (G : Matrix (Fin a) (Fin n) ℚ) (c : Fin n → ℚ) (L : Matrix (Fin n) (Fin n) ℚ) :
    Fin a → ℚ :=
  t.w0 • (G *ᵥ c) + ∑ i, t.wi • (G *ᵥ (c + t.γ • col L i)) + ∑ i, t.wi • (G *ᵥ (c - t.γ • col L i))

/-- weighted cross covariance of the sigma points mapped by `G₁` and by `G₂`, residuals taken
about the mapped centres `m₁`, `m₂` -/
def sigmaCross (t : Tuning n) (G1 : Matrix (Fin a) (Fin n) ℚ) (G2 : Matrix (Fin b) (Fin n) ℚ)
    (c : Fin n → ℚ) (L : Matrix (Fin n) (Fin n) ℚ) (m1 : Fin a → ℚ) (m2 : Fin b → ℚ) : Matrix (Fin a) (Fin b) ℚ :=
  t.wc0 • vecMulVec (G1 *ᵥ c - m1) (G2 *ᵥ c - m2)
  + ∑ i, t.wi • vecMulVec (G1 *ᵥ (c + t.γ • col L i) - m1) (G2 *ᵥ (c + t.γ • col L i) - m2)
  + ∑ i, t.wi • vecMulVec (G1 *ᵥ (c - t.γ • col L i) - m1) (G2 *ᵥ (c - t.γ • col L i) - m2)

/-- the mean of linearly mapped sigma points is the mapped centre -/
theorem sigmaMean_linear (t : Tuning n) (G : Matrix (Fin a) (Fin n) ℚ) (c : Fin n → ℚ)
    (L : Matrix (Fin n) (Fin n) ℚ) : sigmaMean t G c L = G *ᵥ c := by
  unfold sigmaMean
  have hw := weights_sum_one t
  simp only [Matrix.mulVec_add, Matrix.mulVec_sub, Matrix.mulVec_smul, smul_add, smul_sub,
    Finset.sum_add_distrib, Finset.sum_sub_distrib]
  have : ∑ _i : Fin n, t.wi • (G *ᵥ c) = (∑ _i : Fin n, t.wi) • (G *ᵥ c) := by
    rw [Finset.sum_smul]
  rw [this]
  have e : t.w0 • (G *ᵥ c) + ((∑ _i : Fin n, t.wi) • (G *ᵥ c) + ∑ x, t.wi • t.γ • G *ᵥ col L x)
      + ((∑ _i : Fin n, t.wi) • (G *ᵥ c) - ∑ x, t.wi • t.γ • G *ᵥ col L x)
      = (t.w0 + ∑ _i : Fin n, t.wi + ∑ _i : Fin n, t.wi) • (G *ᵥ c) := by
    simp only [add_smul]; abel
  rw [e, hw, one_smul]

private theorem mulVec_col (G : Matrix (Fin a) (Fin n) ℚ) (L : Matrix (Fin n) (Fin n) ℚ) (i : Fin n) :
    G *ᵥ col L i = fun r => (G * L) r i := by
  funext r; simp [col, Matrix.mulVec, dotProduct, Matrix.mul_apply]

private theorem sum_vecMulVec_cols (G1 : Matrix (Fin a) (Fin n) ℚ) (G2 : Matrix (Fin b) (Fin n) ℚ)
    (L : Matrix (Fin n) (Fin n) ℚ) :
    ∑ i, vecMulVec (G1 *ᵥ col L i) (G2 *ᵥ col L i) = (G1 * L) * (G2 * L)ᵀ := by
  ext r s
  simp only [Matrix.sum_apply, vecMulVec_apply, mulVec_col, Matrix.mul_apply, Matrix.transpose_apply]

private theorem vecMulVec_smul_smul (g : ℚ) (u : Fin a → ℚ) (v : Fin b → ℚ) :
    vecMulVec (g • u) (g • v) = (g * g) • vecMulVec u v := by
  ext r s; simp only [vecMulVec_apply, Pi.smul_apply, smul_eq_mul, Matrix.smul_apply]; ring

private theorem vecMulVec_neg_neg (u : Fin a → ℚ) (v : Fin b → ℚ) : vecMulVec (-u) (-v) = vecMulVec u v := by
  ext r s; simp only [vecMulVec_apply, Pi.neg_apply]; ring

/-- **key identity**: the weighted cross covariance of linearly mapped sigma points about the
mapped centres is `G₁ (L Lᵀ) G₂ᵀ` — the negative centre weight and `α, β` drop out because the
centre residual vanishes. -/
theorem sigmaCross_linear (t : Tuning n) (G1 : Matrix (Fin a) (Fin n) ℚ) (G2 : Matrix (Fin b) (Fin n) ℚ)
    (c : Fin n → ℚ) (L : Matrix (Fin n) (Fin n) ℚ) :
    sigmaCross t G1 G2 c L (G1 *ᵥ c) (G2 *ᵥ c) = G1 * (L * Lᵀ) * G2ᵀ := by
  unfold sigmaCross
  have h2 := two_wi_gamma t
  have e1 : ∀ {k : ℕ} (G : Matrix (Fin k) (Fin n) ℚ) (i : Fin n), G *ᵥ (c + t.γ • col L i) - G *ᵥ c = t.γ • (G *ᵥ col L i) := by
    intro k G i; rw [Matrix.mulVec_add, Matrix.mulVec_smul]; abel
  have e2 : ∀ {k : ℕ} (G : Matrix (Fin k) (Fin n) ℚ) (i : Fin n), G *ᵥ (c - t.γ • col L i) - G *ᵥ c = -(t.γ • (G *ᵥ col L i)) := by
    intro k G i; rw [Matrix.mulVec_sub, Matrix.mulVec_smul]; abel
  simp only [sub_self, e1, e2, vecMulVec_neg_neg, vecMulVec_smul_smul]
  have z : vecMulVec (0 : Fin a → ℚ) (0 : Fin b → ℚ) = 0 := by
    ext r s; simp [vecMulVec_apply]
  rw [z, smul_zero, zero_add, ← Finset.sum_add_distrib]
  have : ∀ i : Fin n, t.wi • (t.γ * t.γ) • vecMulVec (G1 *ᵥ col L i) (G2 *ᵥ col L i)
      + t.wi • (t.γ * t.γ) • vecMulVec (G1 *ᵥ col L i) (G2 *ᵥ col L i)
      = vecMulVec (G1 *ᵥ col L i) (G2 *ᵥ col L i) := by
    intro i
    rw [← add_smul, smul_smul, ← two_mul]
    have : 2 * t.wi * (t.γ * t.γ) = 1 := h2
    rw [this, one_smul]
  rw [Finset.sum_congr rfl (fun i _ => this i), sum_vecMulVec_cols, Matrix.transpose_mul]
  simp only [Matrix.mul_assoc]

/-! ### prediction -/

/-- `pred_x = F x` for every admissible tuning -/
theorem ukf_predict_mean (t : Tuning n) (F : Matrix (Fin n) (Fin n) ℚ) (x : Fin n → ℚ)
    (L : Matrix (Fin n) (Fin n) ℚ) : sigmaMean t F x L = F *ᵥ x := sigmaMean_linear t F x L

/-- `pred_p = F P Fᵀ + Q` for every factor `L Lᵀ = P` -/
theorem ukf_predict_cov (t : Tuning n) (F Q P L : Matrix (Fin n) (Fin n) ℚ) (x : Fin n → ℚ) (hL : L * Lᵀ = P) :
    sigmaCross t F F x L (sigmaMean t F x L) (sigmaMean t F x L) + Q = F * P * Fᵀ + Q := by
  rw [sigmaMean_linear, sigmaCross_linear, hL]

/-! ### measurement update -/

/-- redraw mode: sigma points are redrawn about `(x⁻, P⁻ = L' L'ᵀ)`; state residuals use the
identity map, measurement residuals the stacked linear measurement `H`.  The innovation covariance
is `H P⁻ Hᵀ + R`, the cross covariance `P⁻ Hᵀ`: the Kalman ones. -/
theorem ukf_update_redraw (t : Tuning n) (H : Matrix (Fin a) (Fin n) ℚ) (R : Matrix (Fin a) (Fin a) ℚ)
    (Pm L' : Matrix (Fin n) (Fin n) ℚ) (xm : Fin n → ℚ) (hL : L' * L'ᵀ = Pm) :
    sigmaMean t H xm L' = H *ᵥ xm ∧
    sigmaCross t H H xm L' (sigmaMean t H xm L') (sigmaMean t H xm L') + R = H * Pm * Hᵀ + R ∧
    sigmaCross t (1 : Matrix (Fin n) (Fin n) ℚ) H xm L' ((1 : Matrix (Fin n) (Fin n) ℚ) *ᵥ xm) (sigmaMean t H xm L') = Pm * Hᵀ := by
  refine ⟨sigmaMean_linear t H xm L', ?_, ?_⟩
  · rw [sigmaMean_linear, sigmaCross_linear, hL]
  · rw [sigmaMean_linear, sigmaCross_linear, hL, Matrix.one_mul]

/-- no-redraw mode (the documented variant): the propagated points `F(x ± γLᵢ)` are reused, so
`S = H A Hᵀ + R` and `C = A Hᵀ` with `A = F P Fᵀ` (the process noise is not in `A`). -/
theorem ukf_update_noredraw (t : Tuning n) (F : Matrix (Fin n) (Fin n) ℚ) (H : Matrix (Fin a) (Fin n) ℚ)
    (R : Matrix (Fin a) (Fin a) ℚ) (P L : Matrix (Fin n) (Fin n) ℚ) (x : Fin n → ℚ) (hL : L * Lᵀ = P) :
    sigmaMean t (H * F) x L = H *ᵥ (F *ᵥ x) ∧
    sigmaCross t (H * F) (H * F) x L (sigmaMean t (H * F) x L) (sigmaMean t (H * F) x L) + R
      = H * (F * P * Fᵀ) * Hᵀ + R ∧
    sigmaCross t F (H * F) x L (sigmaMean t F x L) (sigmaMean t (H * F) x L) = (F * P * Fᵀ) * Hᵀ := by
  refine ⟨?_, ?_, ?_⟩
  · rw [sigmaMean_linear, Matrix.mulVec_mulVec]
  · rw [sigmaMean_linear, sigmaCross_linear, hL, Matrix.transpose_mul]; simp only [Matrix.mul_assoc]
  · rw [sigmaMean_linear, sigmaMean_linear, sigmaCross_linear, hL, Matrix.transpose_mul]; simp only [Matrix.mul_assoc]

/-- the posterior mean and covariance from gain `K = C S⁻¹` -/
def postMean (xm : Fin n → ℚ) (K : Matrix (Fin n) (Fin a) ℚ) (ν : Fin a → ℚ) : Fin n → ℚ := xm + K *ᵥ ν
def postCov (Pm : Matrix (Fin n) (Fin n) ℚ) (K : Matrix (Fin n) (Fin a) ℚ) (S : Matrix (Fin a) (Fin a) ℚ) :
    Matrix (Fin n) (Fin n) ℚ := Pm - K * S * Kᵀ

/-- the posterior never exceeds the prior: `P⁻ − P⁺ = K S Kᵀ` is positive semi-definite -/
theorem post_le_prior (Pm : Matrix (Fin n) (Fin n) ℚ) (K : Matrix (Fin n) (Fin a) ℚ)
    (S : Matrix (Fin a) (Fin a) ℚ) (hS : S.PosSemidef) : (Pm - postCov Pm K S).PosSemidef := by
  have : Pm - postCov Pm K S = K * S * Kᴴ := by
    simp only [postCov, sub_sub_cancel]
    congr 1
  rw [this]
  exact hS.mul_mul_conjTranspose_same K

/-- the posterior covariance is symmetric when prior and innovation covariance are -/
theorem post_symm (Pm : Matrix (Fin n) (Fin n) ℚ) (K : Matrix (Fin n) (Fin a) ℚ)
    (S : Matrix (Fin a) (Fin a) ℚ) (hP : Pmᵀ = Pm) (hS : Sᵀ = S) : (postCov Pm K S)ᵀ = postCov Pm K S := by
  simp only [postCov, Matrix.transpose_sub, Matrix.transpose_mul, Matrix.transpose_transpose, hP, hS,
    Matrix.mul_assoc]

/-- **Joseph form**: with the Kalman gain `K = P⁻ Hᵀ S⁻¹`, `S = H P⁻ Hᵀ + R`, the posterior
`P⁻ − K S Kᵀ` equals `(I − K H) P⁻ (I − K H)ᵀ + K R Kᵀ` … -/
theorem joseph_form (Pm : Matrix (Fin n) (Fin n) ℚ) (H : Matrix (Fin a) (Fin n) ℚ)
    (R S Sinv : Matrix (Fin a) (Fin a) ℚ) (hP : Pmᵀ = Pm)
    (hSdef : S = H * Pm * Hᵀ + R) (hinv : Sinv * S = 1) (hinv' : S * Sinv = 1) (hSinvT : Sinvᵀ = Sinv) :
    postCov Pm (Pm * Hᵀ * Sinv) S
      = (1 - (Pm * Hᵀ * Sinv) * H) * Pm * (1 - (Pm * Hᵀ * Sinv) * H)ᵀ + (Pm * Hᵀ * Sinv) * R * (Pm * Hᵀ * Sinv)ᵀ := by
  set K := Pm * Hᵀ * Sinv with hK
  have hKt : Kᵀ = Sinv * H * Pm := by
    rw [hK, Matrix.transpose_mul, Matrix.transpose_mul, Matrix.transpose_transpose, hSinvT, hP, Matrix.mul_assoc]
  have hKS : K * S = Pm * Hᵀ := by
    rw [hK, Matrix.mul_assoc, hinv, Matrix.mul_one]
  have hSKt : S * Kᵀ = H * Pm := by
    rw [hKt, ← Matrix.mul_assoc, ← Matrix.mul_assoc, hinv', Matrix.one_mul]
  have hT : (1 - K * H)ᵀ = 1 - Hᵀ * Kᵀ := by
    rw [Matrix.transpose_sub, Matrix.transpose_one, Matrix.transpose_mul]
  rw [hT]
  unfold postCov
  have expand : (1 - K * H) * Pm * (1 - Hᵀ * Kᵀ) + K * R * Kᵀ
      = Pm - K * (H * Pm) - (Pm * Hᵀ) * Kᵀ + K * (H * Pm * Hᵀ + R) * Kᵀ := by
    simp only [Matrix.sub_mul, Matrix.mul_sub, Matrix.one_mul, Matrix.mul_one, Matrix.mul_add,
      Matrix.add_mul, Matrix.mul_assoc]
    abel
  rw [expand, ← hSdef, ← hSKt, ← hKS]
  simp only [Matrix.mul_assoc]
  abel

/-- … hence it is positive semi-definite whenever the prior and the measurement noise are: the
covariance stays valid through the update. -/
theorem post_psd (Pm : Matrix (Fin n) (Fin n) ℚ) (H : Matrix (Fin a) (Fin n) ℚ)
    (R S Sinv : Matrix (Fin a) (Fin a) ℚ) (hPm : Pm.PosSemidef) (hR : R.PosSemidef)
    (hSdef : S = H * Pm * Hᵀ + R) (hinv : Sinv * S = 1) (hinv' : S * Sinv = 1) (hSinvT : Sinvᵀ = Sinv) :
    (postCov Pm (Pm * Hᵀ * Sinv) S).PosSemidef := by
  have hP : Pmᵀ = Pm := by
    have := hPm.1; rw [Matrix.IsHermitian] at this
    have e : Pmᴴ = Pmᵀ := by ext i j; simp [Matrix.conjTranspose_apply]
    rw [← e]; exact this
  rw [joseph_form Pm H R S Sinv hP hSdef hinv hinv' hSinvT]
  apply Matrix.PosSemidef.add
  · have := hPm.mul_mul_conjTranspose_same (1 - Pm * Hᵀ * Sinv * H)
    have e : (1 - Pm * Hᵀ * Sinv * H)ᴴ = (1 - Pm * Hᵀ * Sinv * H)ᵀ := by ext i j; simp [Matrix.conjTranspose_apply]
    rw [e] at this; exact this
  · have := hR.mul_mul_conjTranspose_same (Pm * Hᵀ * Sinv)
    have e : (Pm * Hᵀ * Sinv)ᴴ = (Pm * Hᵀ * Sinv)ᵀ := by ext i j; simp [Matrix.conjTranspose_apply]
    rw [e] at this; exact this

/-- a step without observations returns the propagated mean unchanged (the code takes the centre
sigma point, which is the propagated previous estimate) and keeps the predicted covariance -/
theorem no_obs_identity (F : Matrix (Fin n) (Fin n) ℚ) (x : Fin n → ℚ) :
    F *ᵥ (x + (0 : ℚ) • x) = F *ᵥ x := by simp

/-! ### non-vacuity: a concrete tuning and factor -/
example : ∃ t : Tuning 3, t.w0 + ∑ _i : Fin 3, t.wi + ∑ _i : Fin 3, t.wi = 1 :=
  ⟨⟨1, 2, 1, 2, by norm_num, by norm_num⟩, weights_sum_one _⟩

end RV.Props.C06
