/-
C08 — tasking bookkeeping is exact and independent of the order parallel jobs finish.
-/
import RV.Model.Engine
import Mathlib.Data.List.Perm.Basic
import Mathlib.Data.List.Count
import Mathlib.Data.List.Induction
import Mathlib.Tactic.Linarith

namespace RV.Props.C08
open RV.Engine

/-- two engine states are the same for every observer: maps equal, record lists equal as
multisets (the order of a list of database rows is not observable) -/
structure Same (e1 e2 : Engine) : Prop where
  vis : e1.vis = e2.vis
  metrics : e1.metrics = e2.metrics
  obs : e1.obs.Perm e2.obs
  missed : e1.missed.Perm e2.missed
  savedObs : e1.savedObs.Perm e2.savedObs
  savedMissed : e1.savedMissed.Perm e2.savedMissed
  sc : e1.sensorChanges = e2.sensorChanges

theorem Same.refl (e : Engine) : Same e e := ⟨rfl, rfl, .refl _, .refl _, .refl _, .refl _, rfl⟩
theorem Same.trans {a b c : Engine} (h1 : Same a b) (h2 : Same b c) : Same a c :=
  ⟨h1.vis.trans h2.vis, h1.metrics.trans h2.metrics, h1.obs.trans h2.obs, h1.missed.trans h2.missed,
   h1.savedObs.trans h2.savedObs, h1.savedMissed.trans h2.savedMissed, h1.sc.trans h2.sc⟩

/-- what `assess` guarantees by construction: reward jobs address different rows (one per
target), task jobs task disjoint sets of sensors -/
def Compatible : JobResult → JobResult → Prop
  | .reward a _ _, .reward b _ _ => a ≠ b
  | .task _ _ _ i1, .task _ _ _ i2 => ∀ p ∈ i1, ∀ q ∈ i2, p.1 ≠ q.1
  | _, _ => True

private theorem upd_comm {α} (m : Nat → Option α) (a b : Nat) (x y : α) (h : a ≠ b) :
    upd (upd m a x) b y = upd (upd m b y) a x := by
  funext i; simp only [upd]
  by_cases h1 : i = b <;> by_cases h2 : i = a
  · subst h1; subst h2; exact absurd rfl h
  · subst h1; simp [h2, Ne.symm h]
  · subst h2; simp [h1, h]
  · simp [h1, h2]

/-- value written by a list of sensor reports: the last report for that sensor, if any -/
private theorem foldl_upd_apply (info : List (Nat × Pointing)) : ∀ (base : Nat → Option Pointing) (k : Nat),
    (info.foldl (fun m p => upd m p.1 p.2) base) k
      = (match (info.reverse.find? (fun p => p.1 == k)) with
         | some p => some p.2
         | none => base k) := by
  induction info using List.reverseRecOn with
  | nil => intro base k; rfl
  | append_singleton l p ih =>
    intro base k
    rw [List.foldl_append, List.reverse_append]
    simp only [List.foldl_cons, List.foldl_nil, List.reverse_singleton, List.singleton_append, List.find?_cons]
    by_cases h : p.1 = k
    · simp [upd, h]
    · have : (p.1 == k) = false := by rw [beq_eq_false_iff_ne]; exact h
      simp only [this]
      rw [← ih base k]
      simp [upd, Ne.symm h]

private theorem foldl_upd_comm (i1 i2 : List (Nat × Pointing)) (base : Nat → Option Pointing)
    (h : ∀ p ∈ i1, ∀ q ∈ i2, p.1 ≠ q.1) :
    i2.foldl (fun m p => upd m p.1 p.2) (i1.foldl (fun m p => upd m p.1 p.2) base)
      = i1.foldl (fun m p => upd m p.1 p.2) (i2.foldl (fun m p => upd m p.1 p.2) base) := by
  funext k
  rw [foldl_upd_apply, foldl_upd_apply, foldl_upd_apply, foldl_upd_apply]
  cases h1 : i1.reverse.find? (fun p => p.1 == k) with
  | none => rfl
  | some p =>
    cases h2 : i2.reverse.find? (fun p => p.1 == k) with
    | none => rfl
    | some q =>
      exfalso
      have hp := List.mem_reverse.mp (List.mem_of_find?_eq_some h1)
      have hq := List.mem_reverse.mp (List.mem_of_find?_eq_some h2)
      have e1 : p.1 = k := by simpa using List.find?_some h1
      have e2 : q.1 = k := by simpa using List.find?_some h2
      exact h p hp q hq (e1.trans e2.symm)

/-- **any two results of one batch commute** -/
theorem merge_comm (e : Engine) (r1 r2 : JobResult) (h : Compatible r1 r2) :
    Same (merge .repaired (merge .repaired e r1) r2) (merge .repaired (merge .repaired e r2) r1) := by
  cases r1 with
  | reward a v1 m1 =>
    cases r2 with
    | reward b v2 m2 =>
      have hab : a ≠ b := h
      exact ⟨upd_comm _ _ _ _ _ hab, upd_comm _ _ _ _ _ hab, .refl _, .refl _, .refl _, .refl _, rfl⟩
    | task t o ms i => exact ⟨rfl, rfl, .refl _, .refl _, .refl _, .refl _, rfl⟩
  | task t1 o1 ms1 i1 =>
    cases r2 with
    | reward b v2 m2 => exact ⟨rfl, rfl, .refl _, .refl _, .refl _, .refl _, rfl⟩
    | task t2 o2 ms2 i2 =>
      have hd : ∀ p ∈ i1, ∀ q ∈ i2, p.1 ≠ q.1 := h
      refine ⟨rfl, rfl, ?_, ?_, ?_, ?_, ?_⟩
      · simp only [merge, List.append_assoc]; exact List.Perm.append_left _ List.perm_append_comm
      · simp only [merge, List.append_assoc]; exact List.Perm.append_left _ List.perm_append_comm
      · simp only [merge, List.append_assoc]; exact List.Perm.append_left _ List.perm_append_comm
      · simp only [merge, List.append_assoc]; exact List.Perm.append_left _ List.perm_append_comm
      · simp only [merge]; exact foldl_upd_comm i1 i2 _ hd

theorem merge_congr (e e' : Engine) (r : JobResult) (h : Same e e') :
    Same (merge .repaired e r) (merge .repaired e' r) := by
  cases r with
  | reward a v m =>
    exact ⟨by simp only [merge, h.vis], by simp only [merge, h.metrics], h.obs, h.missed, h.savedObs, h.savedMissed, h.sc⟩
  | task t o ms i =>
    refine ⟨h.vis, h.metrics, ?_, ?_, ?_, ?_, ?_⟩
    · exact List.Perm.append_right _ h.obs
    · exact List.Perm.append_right _ h.missed
    · exact List.Perm.append_right _ h.savedObs
    · exact List.Perm.append_right _ h.savedMissed
    · simp only [merge, h.sc]

private theorem foldl_congr (rs : List JobResult) : ∀ (e e' : Engine), Same e e' →
    Same (rs.foldl (merge .repaired) e) (rs.foldl (merge .repaired) e') := by
  induction rs with
  | nil => intro e e' h; exact h
  | cons r rs ih => intro e e' h; exact ih _ _ (merge_congr e e' r h)

/-- **the post-step state does not depend on the order in which the worker jobs complete**: for
every permutation of every batch of pairwise compatible results. -/
theorem assess_order_independent (e : Engine) (rs1 rs2 : List JobResult) (hp : rs1.Perm rs2)
    (hc : rs1.Pairwise Compatible) (hsymm : ∀ a b, Compatible a b → Compatible b a) :
    Same (runStep .repaired e rs1) (runStep .repaired e rs2) := by
  unfold runStep
  generalize resetForStep .repaired e = e0
  induction hp generalizing e0 with
  | nil => exact Same.refl _
  | cons x _ ih =>
    rw [List.pairwise_cons] at hc
    exact ih hc.2 _
  | swap x y l =>
    simp only [List.foldl_cons]
    apply foldl_congr
    rw [List.pairwise_cons] at hc
    have hxy : Compatible y x := hc.1 x (List.mem_cons_self)
    exact merge_comm e0 y x hxy
  | trans h1 h2 ih1 ih2 =>
    have hc2 := (List.Perm.pairwise_iff (fun {a b} h => hsymm a b h) h1).mp hc
    exact Same.trans (ih1 hc e0) (ih2 hc2 e0)

theorem compatible_symm (a b : JobResult) (h : Compatible a b) : Compatible b a := by
  cases a <;> cases b <;> simp only [Compatible] at h ⊢
  · exact fun hc => h hc.symm
  · intro p hp q hq hc; exact h q hq p hp hc.symm

/-! ### nothing is duplicated or lost by the merges -/

private def recsOf : JobResult → List Rec × List Rec
  | .reward _ _ _ => ([], [])
  | .task _ o ms _ => (o, ms.filterMap id)

/-- the step's observation / miss lists contain exactly the records the jobs returned, each as
many times as it was returned (once): the engine neither duplicates nor drops records, and the
lists start empty at every step. -/
theorem records_exact (e : Engine) (rs : List JobResult) (r : Rec) :
    (runStep .repaired e rs).obs.count r = (rs.map fun j => (recsOf j).1.count r).sum ∧
    (runStep .repaired e rs).missed.count r = (rs.map fun j => (recsOf j).2.count r).sum := by
  unfold runStep
  have key : ∀ (rs : List JobResult) (e0 : Engine),
      (rs.foldl (merge .repaired) e0).obs.count r = e0.obs.count r + (rs.map fun j => (recsOf j).1.count r).sum ∧
      (rs.foldl (merge .repaired) e0).missed.count r = e0.missed.count r + (rs.map fun j => (recsOf j).2.count r).sum := by
    intro rs
    induction rs with
    | nil => intro e0; simp
    | cons j rs ih =>
      intro e0
      obtain ⟨h1, h2⟩ := ih (merge .repaired e0 j)
      simp only [List.foldl_cons, List.map_cons, List.sum_cons]
      cases j with
      | reward a v m => simp only [merge, recsOf, List.count_nil, zero_add] at h1 h2 ⊢; exact ⟨h1, h2⟩
      | task t o ms i =>
        simp only [merge, missedToAdd, recsOf, List.count_append] at h1 h2 ⊢
        constructor <;> omega
  have := key rs (resetForStep .repaired e)
  simpa [resetForStep] using this

/-- the unrepaired `saveMissedObservations` recorded `n` misses of one job `n²` times -/
theorem missed_quadratic_unrepaired :
    (missedToAdd .unrepaired [some ⟨1, 1, 1⟩, some ⟨2, 1, 2⟩]).length = 4 ∧
    (missedToAdd .repaired [some ⟨1, 1, 1⟩, some ⟨2, 1, 2⟩, none]).length = 2 := by decide

/-! ### pointing state -/

/-- after the step every sensor named in some task job's report has exactly the pointing state
that job reported (disjoint jobs: one report per tasked sensor) -/
theorem pointing_reflects_tasking (e : Engine) (rs : List JobResult) (t : Nat) (o : List Rec)
    (ms : List (Option Rec)) (info : List (Nat × Pointing)) (s : Nat) (p : Pointing)
    (hmem : JobResult.task t o ms info ∈ rs) (hp : (s, p) ∈ info)
    (huniq : ∀ q ∈ info, q.1 = s → q = (s, p))
    (hc : rs.Pairwise Compatible) (sensors : Nat → Pointing) :
    applyChanges sensors (runStep .repaired e rs) s = p := by
  -- move the job to the end: allowed by order independence; then read the last write
  obtain ⟨l1, l2, hsplit⟩ := List.append_of_mem hmem
  have hperm : rs.Perm (l1 ++ l2 ++ [JobResult.task t o ms info]) := by
    rw [hsplit]; simp only [List.append_assoc]
    exact List.Perm.append_left _ (List.perm_append_comm (l₁ := [_]) (l₂ := l2) |>.trans (by simp))
  have hsame := assess_order_independent e rs _ hperm hc compatible_symm
  unfold applyChanges
  rw [hsame.sc]
  unfold runStep
  rw [List.foldl_append]
  simp only [List.foldl_cons, List.foldl_nil, merge]
  rw [foldl_upd_apply]
  have : ∃ q, info.reverse.find? (fun q => q.1 == s) = some q := by
    cases hf : info.reverse.find? (fun q => q.1 == s) with
    | some q => exact ⟨q, rfl⟩
    | none =>
      have := List.find?_eq_none.mp hf (s, p) (List.mem_reverse.mpr hp)
      simp at this
  obtain ⟨q, hq⟩ := this
  have hqm := List.mem_reverse.mp (List.mem_of_find?_eq_some hq)
  have hqs : q.1 = s := by simpa using List.find?_some hq
  rw [hq, huniq q hqm hqs]

/-- the unrepaired `updateFromAsyncTaskExecution` reset `sensor_changes` for every job: of two task
jobs only the one processed last updated its sensors — and which one that is depends on the order. -/
theorem sensor_changes_lost_unrepaired :
    let e0 : Engine := ⟨fun _ => none, fun _ => none, [], [], [], [], fun _ => none⟩
    let j1 := JobResult.task 1 [] [] [(10, ⟨1, 60⟩)]
    let j2 := JobResult.task 2 [] [] [(20, ⟨2, 60⟩)]
    (runStep .unrepaired e0 [j1, j2]).sensorChanges 10 = none ∧
    (runStep .unrepaired e0 [j2, j1]).sensorChanges 10 = some ⟨1, 60⟩ ∧
    (runStep .repaired e0 [j1, j2]).sensorChanges 10 = some ⟨1, 60⟩ ∧
    (runStep .repaired e0 [j2, j1]).sensorChanges 10 = some ⟨1, 60⟩ := by
  decide +kernel

end RV.Props.C08
