/-
C08 — tasking bookkeeping is exact and independent of the order parallel jobs finish.
-/
import RV.Model.Engine
import Mathlib.Data.List.Perm.Basic
import Mathlib.Data.List.Count
import Mathlib.Data.List.Induction
import Mathlib.Tactic.Linarith

namespace RV.Props.C08
open RV.Engine

/-- two engine states are the same for every observer: maps equal, record lists equal as
multisets (the order of a list of database rows is not observable) -/
structure Same (e1 e2 : Engine) : Prop where
  vis : e1.vis = e2.vis
  metrics : e1.metrics = e2.metrics
  obs : e1.obs.Perm e2.obs
  missed : e1.missed.Perm e2.missed
  savedObs : e1.savedObs.Perm e2.savedObs
  savedMissed : e1.savedMissed.Perm e2.savedMissed
  sc : e1.sensorChanges = e2.sensorChanges

theorem Same.refl (e : Engine) : Same e e := ⟨rfl, rfl, .refl _, .refl _, .refl _, .refl _, rfl⟩
theorem Same.trans {a b c : Engine} (h1 : Same a b) (h2 : Same b c) : Same a c :=
  ⟨h1.vis.trans h2.vis, h1.metrics.trans h2.metrics, h1.obs.trans h2.obs, h1.missed.trans h2.missed,
   h1.savedObs.trans h2.savedObs, h1.savedMissed.trans h2.savedMissed, h1.sc.trans h2.sc⟩

/-- what `assess` guarantees by construction: reward jobs address different rows (one per target) and there is one
task job per target.  Task jobs need NOT task disjoint sets of sensors: the all-visible policy tasks one sensor to
several targets in a step. -/
def Compatible : JobResult → JobResult → Prop
  | .reward a _ _, .reward b _ _ => a ≠ b
  | .task t1 _ _ _, .task t2 _ _ _ => t1 ≠ t2
  | _, _ => True

private theorem upd_comm {α} (m : Nat → Option α) (a b : Nat) (x y : α) (h : a ≠ b) :
    upd (upd m a x) b y = upd (upd m b y) a x := by
  funext i; simp only [upd]
  by_cases h1 : i = b <;> by_cases h2 : i = a
  · subst h1; subst h2; exact absurd rfl h
  · subst h1; simp [h2, Ne.symm h]
  · subst h2; simp [h1, h]
  · simp [h1, h2]

/-- two reports from jobs of different targets commute, whether or not they concern the same sensor -/
private theorem updMax_comm (m : Nat → Option (Nat × Pointing)) (k1 k2 : Nat) (c1 c2 : Nat × Pointing) (h : c1.1 ≠ c2.1) :
    updMax (updMax m k1 c1) k2 c2 = updMax (updMax m k2 c2) k1 c1 := by
  funext i
  by_cases h12 : k1 = k2
  · subst h12
    by_cases hi : i = k1
    · subst hi
      have h21 : c2.1 > c1.1 ↔ ¬ c1.1 > c2.1 := by omega
      cases hm : m i with
      | none =>
        by_cases a3 : c1.1 > c2.1 <;> simp [updMax, hm, a3, h21]
      | some old =>
        by_cases a1 : old.1 > c1.1 <;> by_cases a2 : old.1 > c2.1 <;> by_cases a3 : c1.1 > c2.1 <;>
          simp [updMax, hm, a1, a2, a3, h21] <;> omega
    · simp only [updMax, hi, if_false]
  · by_cases hi1 : i = k1
    · subst hi1
      simp only [updMax, h12, if_true, if_false]
    · by_cases hi2 : i = k2
      · subst hi2
        have : ¬ k1 = i := fun hc => hi1 hc.symm
        simp only [updMax, if_true, hi1, if_false, Ne.symm h12, this]
      · simp only [updMax, hi1, hi2, if_false]

/-- folds of commuting updates commute -/
private theorem foldl_comm {α β} (f : β → α → β) (l1 l2 : List α)
    (h : ∀ a ∈ l1, ∀ b ∈ l2, ∀ s, f (f s a) b = f (f s b) a) (s : β) :
    l2.foldl f (l1.foldl f s) = l1.foldl f (l2.foldl f s) := by
  induction l1 generalizing s with
  | nil => rfl
  | cons a l1 ih =>
    simp only [List.foldl_cons]
    rw [ih (fun a' ha' b hb s => h a' (List.mem_cons_of_mem _ ha') b hb s)]
    congr 1
    -- move `a` through `l2`
    have : ∀ (l2 : List α) (s : β), (∀ b ∈ l2, ∀ s, f (f s a) b = f (f s b) a) → l2.foldl f (f s a) = f (l2.foldl f s) a := by
      intro l2
      induction l2 with
      | nil => intro s _; rfl
      | cons b l2 ih2 =>
        intro s hb
        simp only [List.foldl_cons]
        rw [hb b List.mem_cons_self s]
        exact ih2 (f s b) (fun b' hb' s => hb b' (List.mem_cons_of_mem _ hb') s)
    exact this l2 s (fun b hb s => h a List.mem_cons_self b hb s)

/-- **any two results of one batch commute** -/
theorem merge_comm (e : Engine) (r1 r2 : JobResult) (h : Compatible r1 r2) :
    Same (merge .repaired (merge .repaired e r1) r2) (merge .repaired (merge .repaired e r2) r1) := by
  cases r1 with
  | reward a v1 m1 =>
    cases r2 with
    | reward b v2 m2 =>
      have hab : a ≠ b := h
      exact ⟨upd_comm _ _ _ _ _ hab, upd_comm _ _ _ _ _ hab, .refl _, .refl _, .refl _, .refl _, rfl⟩
    | task t o ms i => exact ⟨rfl, rfl, .refl _, .refl _, .refl _, .refl _, rfl⟩
  | task t1 o1 ms1 i1 =>
    cases r2 with
    | reward b v2 m2 => exact ⟨rfl, rfl, .refl _, .refl _, .refl _, .refl _, rfl⟩
    | task t2 o2 ms2 i2 =>
      have hd : t1 ≠ t2 := h
      refine ⟨rfl, rfl, ?_, ?_, ?_, ?_, ?_⟩
      · simp only [merge, List.append_assoc]; exact List.Perm.append_left _ List.perm_append_comm
      · simp only [merge, List.append_assoc]; exact List.Perm.append_left _ List.perm_append_comm
      · simp only [merge, List.append_assoc]; exact List.Perm.append_left _ List.perm_append_comm
      · simp only [merge, List.append_assoc]; exact List.Perm.append_left _ List.perm_append_comm
      · simp only [merge]
        exact foldl_comm (fun m p => updMax m p.1 (t1, p.2)) i1 [] (by simp) _ |>.symm ▸ (by
          -- the two folds use different functions (different target tags): commute them pairwise
          have key : ∀ (i1 i2 : List (Nat × Pointing)) (m : Nat → Option (Nat × Pointing)),
              i2.foldl (fun m p => updMax m p.1 (t2, p.2)) (i1.foldl (fun m p => updMax m p.1 (t1, p.2)) m)
                = i1.foldl (fun m p => updMax m p.1 (t1, p.2)) (i2.foldl (fun m p => updMax m p.1 (t2, p.2)) m) := by
            intro i1
            induction i1 with
            | nil => intro i2 m; rfl
            | cons a i1 ih =>
              intro i2 m
              simp only [List.foldl_cons]
              rw [ih i2]
              congr 1
              induction i2 generalizing m with
              | nil => rfl
              | cons b i2 ih2 =>
                simp only [List.foldl_cons]
                rw [updMax_comm m a.1 b.1 (t1, a.2) (t2, b.2) hd]
                exact ih2 _
          exact key i1 i2 _)

theorem merge_congr (e e' : Engine) (r : JobResult) (h : Same e e') :
    Same (merge .repaired e r) (merge .repaired e' r) := by
  cases r with
  | reward a v m =>
    exact ⟨by simp only [merge, h.vis], by simp only [merge, h.metrics], h.obs, h.missed, h.savedObs, h.savedMissed, h.sc⟩
  | task t o ms i =>
    refine ⟨h.vis, h.metrics, ?_, ?_, ?_, ?_, ?_⟩
    · exact List.Perm.append_right _ h.obs
    · exact List.Perm.append_right _ h.missed
    · exact List.Perm.append_right _ h.savedObs
    · exact List.Perm.append_right _ h.savedMissed
    · simp only [merge, h.sc]

private theorem foldl_congr (rs : List JobResult) : ∀ (e e' : Engine), Same e e' →
    Same (rs.foldl (merge .repaired) e) (rs.foldl (merge .repaired) e') := by
  induction rs with
  | nil => intro e e' h; exact h
  | cons r rs ih => intro e e' h; exact ih _ _ (merge_congr e e' r h)

/-- **the post-step state does not depend on the order in which the worker jobs complete**: for
every permutation of every batch of pairwise compatible results. -/
theorem assess_order_independent (e : Engine) (rs1 rs2 : List JobResult) (hp : rs1.Perm rs2)
    (hc : rs1.Pairwise Compatible) (hsymm : ∀ a b, Compatible a b → Compatible b a) :
    Same (runStep .repaired e rs1) (runStep .repaired e rs2) := by
  unfold runStep
  generalize resetForStep .repaired e = e0
  induction hp generalizing e0 with
  | nil => exact Same.refl _
  | cons x _ ih =>
    rw [List.pairwise_cons] at hc
    exact ih hc.2 _
  | swap x y l =>
    simp only [List.foldl_cons]
    apply foldl_congr
    rw [List.pairwise_cons] at hc
    have hxy : Compatible y x := hc.1 x (List.mem_cons_self)
    exact merge_comm e0 y x hxy
  | trans h1 h2 ih1 ih2 =>
    have hc2 := (List.Perm.pairwise_iff (fun {a b} h => hsymm a b h) h1).mp hc
    exact Same.trans (ih1 hc e0) (ih2 hc2 e0)

theorem compatible_symm (a b : JobResult) (h : Compatible a b) : Compatible b a := by
  cases a <;> cases b <;> simp only [Compatible] at h ⊢
  · exact fun hc => h hc.symm
  · exact fun hc => h hc.symm

/-! ### nothing is duplicated or lost by the merges -/

private def recsOf : JobResult → List Rec × List Rec
  | .reward _ _ _ => ([], [])
  | .task _ o ms _ => (o, ms.filterMap id)

/-- the step's observation / miss lists contain exactly the records the jobs returned, each as
many times as it was returned (once): the engine neither duplicates nor drops records, and the
lists start empty at every step. -/
theorem records_exact (e : Engine) (rs : List JobResult) (r : Rec) :
    (runStep .repaired e rs).obs.count r = (rs.map fun j => (recsOf j).1.count r).sum ∧
    (runStep .repaired e rs).missed.count r = (rs.map fun j => (recsOf j).2.count r).sum := by
  unfold runStep
  have key : ∀ (rs : List JobResult) (e0 : Engine),
      (rs.foldl (merge .repaired) e0).obs.count r = e0.obs.count r + (rs.map fun j => (recsOf j).1.count r).sum ∧
      (rs.foldl (merge .repaired) e0).missed.count r = e0.missed.count r + (rs.map fun j => (recsOf j).2.count r).sum := by
    intro rs
    induction rs with
    | nil => intro e0; simp
    | cons j rs ih =>
      intro e0
      obtain ⟨h1, h2⟩ := ih (merge .repaired e0 j)
      simp only [List.foldl_cons, List.map_cons, List.sum_cons]
      cases j with
      | reward a v m => simp only [merge, recsOf, List.count_nil, zero_add] at h1 h2 ⊢; exact ⟨h1, h2⟩
      | task t o ms i =>
        simp only [merge, missedToAdd, recsOf, List.count_append] at h1 h2 ⊢
        constructor <;> omega
  have := key rs (resetForStep .repaired e)
  simpa [resetForStep] using this

/-- the unrepaired `saveMissedObservations` recorded `n` misses of one job `n²` times -/
theorem missed_quadratic_unrepaired :
    (missedToAdd .unrepaired [some ⟨1, 1, 1⟩, some ⟨2, 1, 2⟩]).length = 4 ∧
    (missedToAdd .repaired [some ⟨1, 1, 1⟩, some ⟨2, 1, 2⟩, none]).length = 2 := by decide

/-! ### pointing state -/

private theorem updMax_other (m : Nat → Option (Nat × Pointing)) (k s : Nat) (c : Nat × Pointing) (h : k ≠ s) :
    updMax m k c s = m s := by
  have : ¬ s = k := fun hc => h hc.symm
  simp only [updMax, this, if_false]

/-- where the value stored for sensor `s` after a job's reports comes from: it was there before, or it carries the job's target -/
private theorem fold_source (t' s : Nat) (info : List (Nat × Pointing)) :
    ∀ (base : Nat → Option (Nat × Pointing)) (c : Nat × Pointing),
      (info.foldl (fun m p => updMax m p.1 (t', p.2)) base) s = some c → base s = some c ∨ (c.1 = t' ∧ ∃ r ∈ info, r.1 = s) := by
  induction info with
  | nil => intro base c h; exact Or.inl h
  | cons r rest ih =>
    intro base c h
    simp only [List.foldl_cons] at h
    rcases ih _ c h with h1 | ⟨h2, r', hr', hs'⟩
    · by_cases hk : r.1 = s
      · -- the value written at `s` by this report
        simp only [updMax, hk, if_true] at h1
        cases hb : base s with
        | none =>
          rw [hb] at h1
          simp only [Option.some.injEq] at h1
          exact Or.inr ⟨by rw [← h1], r, List.mem_cons_self, hk⟩
        | some old =>
          rw [hb] at h1
          by_cases hgt : old.1 > t'
          · simp only [hgt, if_true, Option.some.injEq] at h1
            exact Or.inl (by rw [h1])
          · simp only [hgt, if_false, Option.some.injEq] at h1
            exact Or.inr ⟨by rw [← h1], r, List.mem_cons_self, hk⟩
      · rw [updMax_other _ _ _ _ hk] at h1
        exact Or.inl h1
    · exact Or.inr ⟨h2, r', List.mem_cons_of_mem _ hr', hs'⟩

/-- once the job's own report `(t, p)` for `s` is stored, its remaining reports leave it there -/
private theorem fold_keeps (t s : Nat) (p : Pointing) (info : List (Nat × Pointing))
    (huniq : ∀ q ∈ info, q.1 = s → q = (s, p)) :
    ∀ (m : Nat → Option (Nat × Pointing)), m s = some (t, p) →
      (info.foldl (fun m q => updMax m q.1 (t, q.2)) m) s = some (t, p) := by
  induction info with
  | nil => intro m h; exact h
  | cons r rest ih =>
    intro m h
    simp only [List.foldl_cons]
    apply ih (fun q hq => huniq q (List.mem_cons_of_mem _ hq))
    by_cases hk : r.1 = s
    · have hr := huniq r List.mem_cons_self hk
      rw [hr]
      simp only [updMax, if_true, h, gt_iff_lt, lt_self_iff_false, if_false]
    · rw [updMax_other _ _ _ _ hk]; exact h

/-- the job's own report for `s` ends up stored when nothing stored before has a higher target -/
private theorem fold_own (t s : Nat) (p : Pointing) (info : List (Nat × Pointing))
    (huniq : ∀ q ∈ info, q.1 = s → q = (s, p)) (hp : (s, p) ∈ info) :
    ∀ (m : Nat → Option (Nat × Pointing)), (∀ c, m s = some c → c.1 ≤ t) →
      (info.foldl (fun m q => updMax m q.1 (t, q.2)) m) s = some (t, p) := by
  induction info with
  | nil => cases hp
  | cons r rest ih =>
    intro m hm
    simp only [List.foldl_cons]
    by_cases hk : r.1 = s
    · have hr := huniq r List.mem_cons_self hk
      apply fold_keeps t s p rest (fun q hq => huniq q (List.mem_cons_of_mem _ hq))
      rw [hr]
      simp only [updMax, if_true]
      cases hb : m s with
      | none => rfl
      | some old =>
        have := hm old hb
        have : ¬ old.1 > t := by omega
        simp only [this, if_false]
    · have hp' : (s, p) ∈ rest := by
        rcases List.mem_cons.mp hp with h | h
        · exact absurd (by rw [← h]) hk
        · exact h
      apply ih (fun q hq => huniq q (List.mem_cons_of_mem _ hq)) hp'
      intro c hc
      rw [updMax_other _ _ _ _ hk] at hc
      exact hm c hc

/-- **after the step every tasked sensor's pointing state is the one reported by the job that tasked it** - if several
jobs tasked the same sensor (the all-visible policy), by the job of the highest target id, whatever order the jobs
completed in -/
theorem pointing_reflects_tasking (e : Engine) (rs : List JobResult) (t : Nat) (o : List Rec)
    (ms : List (Option Rec)) (info : List (Nat × Pointing)) (s : Nat) (p : Pointing)
    (hmem : JobResult.task t o ms info ∈ rs) (hp : (s, p) ∈ info)
    (huniq : ∀ q ∈ info, q.1 = s → q = (s, p))
    (hmax : ∀ t' o' ms' info', JobResult.task t' o' ms' info' ∈ rs → (∃ q ∈ info', q.1 = s) → t' ≤ t)
    (hc : rs.Pairwise Compatible) (sensors : Nat → Pointing) :
    applyChanges sensors (runStep .repaired e rs) s = p := by
  -- move the job to the end: allowed by order independence
  obtain ⟨l1, l2, hsplit⟩ := List.append_of_mem hmem
  have hperm : rs.Perm (l1 ++ l2 ++ [JobResult.task t o ms info]) := by
    rw [hsplit]; simp only [List.append_assoc]
    exact List.Perm.append_left _ (List.perm_append_comm (l₁ := [_]) (l₂ := l2) |>.trans (by simp))
  have hsame := assess_order_independent e rs _ hperm hc compatible_symm
  unfold applyChanges
  rw [hsame.sc]
  unfold runStep
  rw [List.foldl_append]
  simp only [List.foldl_cons, List.foldl_nil, merge]
  -- nothing stored by the other jobs has a higher target
  have hsub : ∀ j ∈ l1 ++ l2, j ∈ rs := by
    intro j hj; rw [hsplit]
    rcases List.mem_append.mp hj with h | h
    · exact List.mem_append_left _ h
    · exact List.mem_append_right _ (List.mem_cons_of_mem _ h)
  have inv : ∀ (js : List JobResult), (∀ j ∈ js, j ∈ rs) → ∀ (e0 : Engine), (∀ c, e0.sensorChanges s = some c → c.1 ≤ t) →
      ∀ c, (js.foldl (merge .repaired) e0).sensorChanges s = some c → c.1 ≤ t := by
    intro js
    induction js with
    | nil => intro _ e0 h0 c hc; exact h0 c hc
    | cons j js ih =>
      intro hj e0 h0
      simp only [List.foldl_cons]
      apply ih (fun j' hj' => hj j' (List.mem_cons_of_mem _ hj'))
      intro c hc
      cases j with
      | reward a v m => exact h0 c (by simpa [merge] using hc)
      | task t' o' ms' info' =>
        simp only [merge] at hc
        rcases fold_source t' s info' _ c hc with h1 | ⟨h2, hr⟩
        · exact h0 c h1
        · rw [h2]; exact hmax t' o' ms' info' (hj _ List.mem_cons_self) hr
  have hbase := inv (l1 ++ l2) hsub (resetForStep .repaired e) (by intro c hc; simp [resetForStep] at hc)
  rw [fold_own t s p info huniq hp _ hbase]

/-- the bookkeeping before the repairs: (i) `sensor_changes` reset by every job - of two task jobs only the one processed
last updated its sensors; (ii) reports accumulated but the last one processed won - a sensor tasked to two targets in one
step (all-visible policy) ended up pointing wherever the job that happened to finish last had pointed it -/
theorem sensor_changes_lost_unrepaired :
    let e0 : Engine := ⟨fun _ => none, fun _ => none, [], [], [], [], fun _ => none⟩
    let j1 := JobResult.task 1 [] [] [(10, ⟨1, 60⟩)]
    let j2 := JobResult.task 2 [] [] [(20, ⟨2, 60⟩)]
    let k1 := JobResult.task 1 [] [] [(10, ⟨1, 60⟩)]
    let k2 := JobResult.task 2 [] [] [(10, ⟨2, 60⟩)]
    (runStep .unrepaired e0 [j1, j2]).sensorChanges 10 = none ∧
    (runStep .unrepaired e0 [j2, j1]).sensorChanges 10 = some (1, ⟨1, 60⟩) ∧
    (runStep .repaired e0 [j1, j2]).sensorChanges 10 = some (1, ⟨1, 60⟩) ∧
    (runStep .repaired e0 [j2, j1]).sensorChanges 10 = some (1, ⟨1, 60⟩) ∧
    (runStep .lastWrite e0 [k1, k2]).sensorChanges 10 = some (2, ⟨2, 60⟩) ∧
    (runStep .lastWrite e0 [k2, k1]).sensorChanges 10 = some (1, ⟨1, 60⟩) ∧
    (runStep .repaired e0 [k1, k2]).sensorChanges 10 = some (2, ⟨2, 60⟩) ∧
    (runStep .repaired e0 [k2, k1]).sensorChanges 10 = some (2, ⟨2, 60⟩) := by
  decide +kernel

/-! ### the list a filter is handed does not depend on the completion order either -/

private theorem recLe_total (a b : Rec) : recLe a b ∨ recLe b a := by unfold recLe; omega
private theorem recLe_trans {a b c : Rec} (h1 : recLe a b) (h2 : recLe b c) : recLe a c := by unfold recLe at *; omega
private theorem recLe_antisymm {a b : Rec} (h1 : recLe a b) (h2 : recLe b a) : a = b := by
  unfold recLe at *
  cases a; cases b
  simp only [Rec.mk.injEq] at *
  omega

private theorem mem_insertRec {r x : Rec} {l : List Rec} : x ∈ insertRec r l ↔ x = r ∨ x ∈ l := by
  induction l with
  | nil => simp [insertRec]
  | cons d l ih =>
    unfold insertRec
    by_cases h : recLe r d
    · simp only [h, if_true, List.mem_cons]
    · simp only [h, if_false, List.mem_cons, ih]
      constructor
      · rintro (h1 | h1 | h1)
        · exact Or.inr (Or.inl h1)
        · exact Or.inl h1
        · exact Or.inr (Or.inr h1)
      · rintro (h1 | h1 | h1)
        · exact Or.inr (Or.inl h1)
        · exact Or.inl h1
        · exact Or.inr (Or.inr h1)

private theorem insertRec_perm (r : Rec) (l : List Rec) : (insertRec r l).Perm (r :: l) := by
  induction l with
  | nil => simp [insertRec]
  | cons d l ih =>
    unfold insertRec
    by_cases h : recLe r d
    · simp only [h, if_true]; exact List.Perm.refl _
    · simp only [h, if_false]
      exact (List.Perm.cons d ih).trans (List.Perm.swap r d l)

private theorem sortRecs_perm (l : List Rec) : (sortRecs l).Perm l := by
  induction l with
  | nil => simp [sortRecs]
  | cons r l ih => exact (insertRec_perm r _).trans (List.Perm.cons r ih)

private theorem insertRec_sorted (r : Rec) (l : List Rec) (h : l.Pairwise recLe) : (insertRec r l).Pairwise recLe := by
  induction l with
  | nil => simp [insertRec]
  | cons d l ih =>
    obtain ⟨hd, hl⟩ := List.pairwise_cons.mp h
    unfold insertRec
    by_cases hc : recLe r d
    · simp only [hc, if_true]
      refine List.pairwise_cons.mpr ⟨?_, h⟩
      intro y hy
      rcases List.mem_cons.mp hy with rfl | hy'
      · exact hc
      · exact recLe_trans hc (hd y hy')
    · simp only [hc, if_false]
      refine List.pairwise_cons.mpr ⟨?_, ih hl⟩
      intro y hy
      rcases mem_insertRec.mp hy with rfl | hy'
      · exact (recLe_total d y).resolve_right hc
      · exact hd y hy'

private theorem sortRecs_sorted (l : List Rec) : (sortRecs l).Pairwise recLe := by
  induction l with
  | nil => simp [sortRecs]
  | cons r l ih => exact insertRec_sorted r _ ih

/-- sorting forgets the order of arrival: two arrival orders of the same records give the same list -/
theorem sortRecs_of_perm {l1 l2 : List Rec} (h : l1.Perm l2) : sortRecs l1 = sortRecs l2 :=
  List.Perm.eq_of_pairwise (fun _ _ _ _ h1 h2 => recLe_antisymm h1 h2) (sortRecs_sorted l1) (sortRecs_sorted l2)
    ((sortRecs_perm l1).trans (h.trans (sortRecs_perm l2).symm))

/-- **every filter is handed the same list of observations whatever order the jobs complete in** (with the engine's
list kept sorted, 4ecfeb3): not merely the same records - the same records in the same places, so that the stacked
update is the same floating-point computation. -/
theorem handed_list_order_independent (e : Engine) (rs1 rs2 : List JobResult) (hp : rs1.Perm rs2)
    (hc : rs1.Pairwise Compatible) (t : Nat) :
    handedTo true (runStep .repaired e rs1) t = handedTo true (runStep .repaired e rs2) t := by
  have hs := assess_order_independent e rs1 rs2 hp hc compatible_symm
  unfold handedTo
  simp only [if_true]
  rw [sortRecs_of_perm hs.obs]

/-- in completion order the same records reach the filter in different places: one sensor reporting a target from two
of its jobs (all-visible policy, serendipitous observations on) -/
theorem handed_list_unsorted_witness :
    let j1 : JobResult := .task 1 [⟨7, 1, 100⟩, ⟨7, 2, 101⟩] [] []
    let j2 : JobResult := .task 2 [⟨7, 2, 102⟩, ⟨7, 1, 103⟩] [] []
    let e0 : Engine := ⟨fun _ => none, fun _ => none, [], [], [], [], fun _ => none⟩
    handedTo false (runStep .repaired e0 [j1, j2]) 1 ≠ handedTo false (runStep .repaired e0 [j2, j1]) 1 ∧
    handedTo true (runStep .repaired e0 [j1, j2]) 1 = handedTo true (runStep .repaired e0 [j2, j1]) 1 := by
  decide

end RV.Props.C08
