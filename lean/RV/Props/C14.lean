/-
C14 — visibility predicates match exact geometry and respect its symmetries (algebraic part; the
equivalences with the code's arcsin/arccos forms are in `RV.Props.C14Real`).
-/
import RV.Model.Visibility
import RV.Props.C16
import Mathlib.Algebra.Order.Field.Rat
import Mathlib.Algebra.Order.Field.Basic
import Mathlib.Tactic.Linarith
import Mathlib.Tactic.Ring
import Mathlib.Tactic.FieldSimp
import Mathlib.Tactic.Positivity

namespace RV.Props.C14
open RV.Visibility RV.Angles

/-! ### line of sight -/

private theorem nsq_sub (a b : V3) : (a.sub b).nsq = a.nsq + b.nsq - 2 * a.dot b := by
  simp only [V3.nsq, V3.dot, V3.sub]; ring

private theorem dot_comm (a b : V3) : a.dot b = b.dot a := by
  simp only [V3.dot]; ring

private theorem nsq_nonneg (a : V3) : 0 ≤ a.nsq := by
  simp only [V3.nsq, V3.dot]
  nlinarith [mul_self_nonneg a.x, mul_self_nonneg a.y, mul_self_nonneg a.z]

private theorem nsq_pos_of_ne (a b : V3) (h : a ≠ b) : 0 < (a.sub b).nsq := by
  rcases lt_or_eq_of_le (nsq_nonneg (a.sub b)) with h' | h'
  · exact h'
  · exfalso; apply h
    simp only [V3.nsq, V3.dot, V3.sub] at h'
    have hx : (a.x - b.x) * (a.x - b.x) = 0 := by nlinarith [mul_self_nonneg (a.x - b.x), mul_self_nonneg (a.y - b.y), mul_self_nonneg (a.z - b.z)]
    have hy : (a.y - b.y) * (a.y - b.y) = 0 := by nlinarith [mul_self_nonneg (a.x - b.x), mul_self_nonneg (a.y - b.y), mul_self_nonneg (a.z - b.z)]
    have hz : (a.z - b.z) * (a.z - b.z) = 0 := by nlinarith [mul_self_nonneg (a.x - b.x), mul_self_nonneg (a.y - b.y), mul_self_nonneg (a.z - b.z)]
    have ex := mul_self_eq_zero.mp hx
    have ey := mul_self_eq_zero.mp hy
    have ez := mul_self_eq_zero.mp hz
    cases a; cases b; simp only [V3.mk.injEq]
    exact ⟨by linarith, by linarith, by linarith⟩

/-- the squared distance from the centre to the point `r1 + t (r2 - r1)` of the segment -/
def segNsq (r1 r2 : V3) (t : Rat) : Rat := (r1.add (V3.smul t (r2.sub r1))).nsq

private theorem segNsq_expand (r1 r2 : V3) (t : Rat) :
    segNsq r1 r2 t = r1.nsq - 2 * t * (r1.nsq - r1.dot r2) + t * t * (r1.nsq + r2.nsq - 2 * r1.dot r2) := by
  simp only [segNsq, V3.nsq, V3.dot, V3.add, V3.smul, V3.sub]; ring

/-- **line of sight = exact segment-versus-sphere test**: for two distinct points outside (or on)
the sphere, `lineOfSight` holds iff every point of the segment between them is outside (or on) it. -/
theorem los_iff_segment_clear (R2 : Rat) (r1 r2 : V3) (hne : r1 ≠ r2)
    (h1 : R2 ≤ r1.nsq) (h2 : R2 ≤ r2.nsq) :
    lineOfSight R2 r1 r2 = true ↔ ∀ t : Rat, 0 ≤ t → t ≤ 1 → R2 ≤ segNsq r1 r2 t := by
  have hD : 0 < r1.nsq + r2.nsq - 2 * r1.dot r2 := by
    have := nsq_pos_of_ne r1 r2 hne; rwa [nsq_sub] at this
  unfold lineOfSight
  simp only
  set D := r1.nsq + r2.nsq - 2 * r1.dot r2 with hDdef
  set τ := (r1.nsq - r1.dot r2) / D with hτdef
  have hτ : τ * D = r1.nsq - r1.dot r2 := by rw [hτdef]; field_simp
  have hseg : ∀ t, segNsq r1 r2 t = r1.nsq - 2 * t * (τ * D) + t * t * D := by
    intro t; rw [segNsq_expand, hτ]
  have h2' : R2 ≤ r1.nsq - 2 * (τ * D) + D := by
    have : r1.nsq - 2 * (τ * D) + D = r2.nsq := by rw [hτ, hDdef]; ring
    rw [this]; exact h2
  constructor
  · intro h t ht0 ht1
    rw [hseg]
    split at h
    · rename_i hout
      rcases hout with hneg | hgt
      · -- closest approach before the first end point
        nlinarith [mul_nonneg ht0 (le_of_lt hD), mul_nonneg (mul_nonneg ht0 ht0) (le_of_lt hD),
          mul_nonneg (mul_nonneg ht0 (le_of_lt hD)) (le_of_lt (neg_pos.mpr hneg))]
      · -- closest approach after the second end point
        have e : r1.nsq - 2 * t * (τ * D) + t * t * D
            = (r1.nsq - 2 * (τ * D) + D) + D * (1 - t) * (2 * τ - 1 - t) := by ring
        rw [e]
        have : 0 ≤ D * (1 - t) * (2 * τ - 1 - t) := by
          apply mul_nonneg (mul_nonneg (le_of_lt hD) (by linarith)); linarith
        linarith
    · rename_i hin
      have hval : R2 ≤ (1 - τ) * r1.nsq + r1.dot r2 * τ := by simpa using h
      have e : r1.nsq - 2 * t * (τ * D) + t * t * D
          = ((1 - τ) * r1.nsq + r1.dot r2 * τ) + D * (t - τ) * (t - τ) := by
        have : r1.dot r2 = r1.nsq - τ * D := by linarith
        rw [this]; ring
      rw [e]
      have : 0 ≤ D * (t - τ) * (t - τ) := by
        have := mul_nonneg (le_of_lt hD) (mul_self_nonneg (t - τ)); linarith
      linarith
  · intro h
    split
    · rfl
    · rename_i hin
      have hin' : 0 ≤ τ ∧ τ ≤ 1 := by
        constructor
        · by_contra hc; exact hin (Or.inl (not_le.mp hc))
        · by_contra hc; exact hin (Or.inr (not_le.mp hc))
      have := h τ hin'.1 hin'.2
      rw [hseg] at this
      have e : (1 - τ) * r1.nsq + r1.dot r2 * τ = r1.nsq - 2 * τ * (τ * D) + τ * τ * D := by
        have : r1.dot r2 = r1.nsq - τ * D := by linarith
        rw [this]; ring
      simp only [ge_iff_le, decide_eq_true_eq]
      rw [e]; exact this

/-- line of sight is symmetric in its arguments -/
theorem los_symm (R2 : Rat) (r1 r2 : V3) (hne : r1 ≠ r2) (h1 : R2 ≤ r1.nsq) (h2 : R2 ≤ r2.nsq) :
    lineOfSight R2 r1 r2 = lineOfSight R2 r2 r1 := by
  have key : ∀ a b : V3, a ≠ b → R2 ≤ a.nsq → R2 ≤ b.nsq →
      lineOfSight R2 a b = true → lineOfSight R2 b a = true := by
    intro a b hab ha hb h
    rw [los_iff_segment_clear R2 b a (Ne.symm hab) hb ha]
    rw [los_iff_segment_clear R2 a b hab ha hb] at h
    intro t ht0 ht1
    have := h (1 - t) (by linarith) (by linarith)
    have e : segNsq b a t = segNsq a b (1 - t) := by
      simp only [segNsq, V3.nsq, V3.dot, V3.add, V3.smul, V3.sub]; ring
    rw [e]; exact this
  cases hl : lineOfSight R2 r1 r2 with
  | true => exact (key r1 r2 hne h1 h2 hl).symm
  | false =>
    cases hr : lineOfSight R2 r2 r1 with
    | false => rfl
    | true => have := key r2 r1 (Ne.symm hne) h2 h1 hr; rw [hl] at this; exact absurd this (by simp)

/-! ### conic field of view -/

/-- membership depends only on the inner products of the two directions … -/
theorem conic_depends_on_dots (c : Rat) (a b a' b' : V3)
    (h1 : a'.dot b' = a.dot b) (h2 : a'.nsq = a.nsq) (h3 : b'.nsq = b.nsq) :
    conicIn c a' b' = conicIn c a b := by
  simp only [conicIn, h1, h2, h3]

/-- … so it is unchanged when both directions undergo the same rotation about the local vertical
(`cφ² + sφ² = 1`), or any other common orthogonal map. -/
def rotZ (cφ sφ : Rat) (a : V3) : V3 := ⟨cφ * a.x - sφ * a.y, sφ * a.x + cφ * a.y, a.z⟩

theorem rotZ_dot (cφ sφ : Rat) (h : cφ * cφ + sφ * sφ = 1) (a b : V3) :
    (rotZ cφ sφ a).dot (rotZ cφ sφ b) = a.dot b := by
  simp only [rotZ, V3.dot]
  have : (cφ * a.x - sφ * a.y) * (cφ * b.x - sφ * b.y) + (sφ * a.x + cφ * a.y) * (sφ * b.x + cφ * b.y)
      = (cφ * cφ + sφ * sφ) * (a.x * b.x + a.y * b.y) := by ring
  rw [this, h]; ring

theorem conic_rotation_invariant (c cφ sφ : Rat) (h : cφ * cφ + sφ * sφ = 1) (a b : V3) :
    conicIn c (rotZ cφ sφ a) (rotZ cφ sφ b) = conicIn c a b := by
  apply conic_depends_on_dots
  · exact rotZ_dot cφ sφ h a b
  · exact rotZ_dot cφ sφ h a a
  · exact rotZ_dot cφ sφ h b b

/-- reflexive: the boresight itself is always inside the cone (`cos(cone/2) ≤ 1`) -/
theorem conic_reflexive (c : Rat) (hc0 : 0 ≤ c) (hc : c ≤ 1) (a : V3) : conicIn c a a = true := by
  have hn := nsq_nonneg a
  simp only [conicIn, Bool.and_eq_true, decide_eq_true_eq]
  refine ⟨hn, ?_⟩
  have : c * c ≤ 1 := by nlinarith
  have hh : 0 ≤ a.nsq * a.nsq := mul_nonneg hn hn
  change c * c * (a.nsq * a.nsq) ≤ a.nsq * a.nsq
  nlinarith

/-- scaling either direction by a positive factor changes nothing (only the direction matters) -/
theorem conic_scale_invariant (c k : Rat) (hk : 0 < k) (a b : V3) :
    conicIn c (V3.smul k a) b = conicIn c a b := by
  have e1 : (V3.smul k a).dot b = k * a.dot b := by simp only [V3.smul, V3.dot]; ring
  have e2 : (V3.smul k a).nsq = k * k * a.nsq := by simp only [V3.smul, V3.nsq, V3.dot]; ring
  simp only [conicIn, e1, e2]
  have hkk : 0 < k * k := mul_pos hk hk
  congr 1
  · simp only [decide_eq_decide]
    constructor
    · intro h; by_contra hc; have := mul_neg_of_pos_of_neg hk (not_le.mp hc); linarith
    · intro h; exact mul_nonneg (le_of_lt hk) h
  · simp only [decide_eq_decide]
    constructor
    · intro h
      have : k * k * (c * c * (a.nsq * b.nsq)) ≤ k * k * (a.dot b * a.dot b) := by nlinarith
      exact le_of_mul_le_mul_left this hkk
    · intro h
      have := mul_le_mul_of_nonneg_left h (le_of_lt hkk)
      nlinarith

/-! ### rectangular field of view -/

theorem rect_reflexive (π τ azHalf elHalf az el : Rat) (hπ : 0 < π) (hτ : τ = 2 * π)
    (ha : 0 ≤ azHalf) (he : 0 ≤ elHalf) : rectIn π τ azHalf elHalf az el az el = true := by
  have hw : wrapNegPiPi π τ 0 = 0 := by
    unfold wrapNegPiPi remQ
    simp only [zero_div]
    have : ((0 : Rat).floor : Rat) = 0 := by decide
    simp [this, absQ, not_lt.mpr hπ.le]
  simp only [rectIn, sub_self, hw, absQ, lt_irrefl, if_false, Bool.and_eq_true, decide_eq_true_eq]
  exact ⟨ha, he⟩

/-- rotating pointing and target by the same angle about the local vertical — each azimuth then
being re-wrapped into `[0, 2π)`, i.e. shifted by some whole number of turns — does not change
membership: in particular across the north (0/360°) seam. -/
theorem rect_vertical_rotation_invariant (π τ azHalf elHalf azP elP azB elB δ : Rat) (k m : Int)
    (hπ : 0 < π) (hτ : τ = 2 * π) :
    rectIn π τ azHalf elHalf (azP + δ + k * τ) elP (azB + δ + m * τ) elB
      = rectIn π τ azHalf elHalf azP elP azB elB := by
  have hτ0 : 0 < τ := by linarith
  have e : azP + δ + k * τ - (azB + δ + m * τ) = (azP - azB) + ((k - m : Int) : Rat) * τ := by
    push_cast; ring
  simp only [rectIn, e, RV.Props.C16.wrapNegPiPi_turns π τ hτ0]

/-- the unrepaired comparison `abs(az_p - az_b)` failed across north: boresight 359°, target 1°,
a 10° window (angles in degrees, τ = 360). -/
theorem rect_seam_unwrapped_fails :
    rectInUnwrapped 5 5 359 10 1 10 = false ∧ rectIn 180 360 5 5 359 10 1 10 = true := by
  decide +kernel

/-! ### azimuth mask -/

/-- the mask admits exactly the arc from `a0` clockwise to `a1`, wrapping through north or not -/
theorem azmask_exact (a0 a1 az : Rat) :
    azMaskIn a0 a1 az = true ↔
      (if a0 ≤ a1 then a0 ≤ az ∧ az ≤ a1 else a0 ≤ az ∨ az ≤ a1) := by
  unfold azMaskIn
  by_cases h : a0 ≤ a1
  · simp only [h, true_and, if_true]
    by_cases h2 : a0 ≤ az ∧ az ≤ a1
    · simp [h2]
    · simp [h2, not_lt.mpr h]
  · simp only [h, false_and, if_false]
    have : a0 > a1 := not_le.mp h
    by_cases h2 : az ≥ a0 ∨ az ≤ a1
    · simp [this, h2]
    · simp only [this, true_and, h2, if_false]
      simp only [ge_iff_le] at h2
      simp [h2]

/-! ### visible-Sun fraction: the branches whose value is fixed -/

theorem sun_sunward_side (a b c ds dss : Rat) (h : dss ≤ ds) : sunBranch a b c ds dss = 0 := by
  simp [sunBranch, h]

theorem sun_full_umbra (a b c ds dss : Rat) (h : ds < dss) (hc : c < absQ (b - a)) :
    sunBranch a b c ds dss = 1 := by
  simp [sunBranch, not_le.mpr h, hc]

/-! ### non-vacuity -/
example : lineOfSight 1 ⟨2, 0, 0⟩ ⟨0, 2, 0⟩ = true ∧ lineOfSight 1 ⟨2, 0, 0⟩ ⟨-2, 1, 0⟩ = false := by
  decide +kernel
example : conicIn (1/2) ⟨1, 0, 0⟩ ⟨1, 1, 0⟩ = true ∧ conicIn (9/10) ⟨1, 0, 0⟩ ⟨1, 1, 0⟩ = false := by
  decide +kernel
example : azMaskIn 350 10 5 = true ∧ azMaskIn 350 10 180 = false ∧ azMaskIn 10 350 180 = true := by
  decide +kernel

end RV.Props.C14
