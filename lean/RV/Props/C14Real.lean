/-
C14 — the two places where the code compares *angles* obtained from `arcsin`/`arccos` while the
executable model compares algebraic expressions: the equivalence of the two forms, over ℝ.
-/
import Mathlib.Analysis.SpecialFunctions.Trigonometric.Inverse
import Mathlib.Tactic.Linarith
import Mathlib.Tactic.FieldSimp
import Mathlib.Tactic.Positivity

namespace RV.Props.C14Real
open Real

/-- conic field of view: `arccos x ≤ θ ↔ cos θ ≤ x` for a cosine `x ∈ [-1,1]` and a half-angle
`θ ∈ [0, π]` — the code's `subtendedAngle ≤ cone/2` is the model's cosine comparison. -/
theorem arccos_le_iff_cos_le (x θ : ℝ) (hx1 : -1 ≤ x) (hx2 : x ≤ 1) (h0 : 0 ≤ θ) (hπ : θ ≤ π) :
    arccos x ≤ θ ↔ cos θ ≤ x := by
  constructor
  · intro h
    have := Real.strictAntiOn_cos.antitoneOn ⟨arccos_nonneg x, arccos_le_pi x⟩ ⟨h0, hπ⟩ h
    rwa [cos_arccos hx1 hx2] at this
  · intro h
    have := arccos_le_arccos h
    rwa [arccos_cos h0 hπ] at this

/-- Earth-limb obscuration: the code's `arcsin(z/ρ) < arcsin(R_l/d) - π/2` (target elevation below
the limb elevation) is exactly the tangent-cone test `z < 0 ∧ z² d² > ρ² (d² - R_l²)` of the model. -/
theorem limb_iff_tangent_cone (z ρ Rl d : ℝ) (hρ : 0 < ρ) (hz : |z| ≤ ρ) (hd : 0 < d)
    (hR : 0 ≤ Rl) (hRd : Rl ≤ d) :
    arcsin (z / ρ) < arcsin (Rl / d) - π / 2 ↔ (z < 0 ∧ ρ ^ 2 * (d ^ 2 - Rl ^ 2) < z ^ 2 * d ^ 2) := by
  have hs1 : -1 ≤ z / ρ := by
    rw [le_div_iff₀ hρ]; have := (abs_le.mp hz).1; linarith
  have hs2 : z / ρ ≤ 1 := by
    rw [div_le_one hρ]; exact (abs_le.mp hz).2
  have hu0 : 0 ≤ Rl / d := div_nonneg hR hd.le
  have hu1 : Rl / d ≤ 1 := by rw [div_le_one hd]; exact hRd
  have hL : arcsin (Rl / d) - π / 2 ∈ Set.Icc (-(π / 2)) (π / 2) := by
    have h1 := arcsin_nonneg.mpr hu0
    have h2 := arcsin_le_pi_div_two (Rl / d)
    constructor <;> linarith [pi_pos]
  rw [arcsin_lt_iff_lt_sin ⟨hs1, hs2⟩ hL, sin_sub_pi_div_two, cos_arcsin]
  have hw : 0 ≤ 1 - (Rl / d) ^ 2 := by nlinarith
  have key : z / ρ < -√(1 - (Rl / d) ^ 2) ↔ (z / ρ < 0 ∧ 1 - (Rl / d) ^ 2 < (z / ρ) ^ 2) := by
    constructor
    · intro h
      have hsq := Real.sqrt_nonneg (1 - (Rl / d) ^ 2)
      refine ⟨by linarith, ?_⟩
      have h' : √(1 - (Rl / d) ^ 2) < -(z / ρ) := by linarith
      have := Real.sqrt_lt' (by linarith : 0 < -(z / ρ)) |>.mp h'
      nlinarith
    · rintro ⟨hneg, hsq⟩
      have : √(1 - (Rl / d) ^ 2) < -(z / ρ) := by
        rw [Real.sqrt_lt' (by linarith)]; nlinarith
      linarith
  rw [key]
  have e1 : z / ρ < 0 ↔ z < 0 := by
    rw [div_lt_iff₀ hρ]; simp
  have e2 : 1 - (Rl / d) ^ 2 < (z / ρ) ^ 2 ↔ ρ ^ 2 * (d ^ 2 - Rl ^ 2) < z ^ 2 * d ^ 2 := by
    have hρ2 : 0 < ρ ^ 2 := by positivity
    have hd2 : 0 < d ^ 2 := by positivity
    rw [div_pow, div_pow, ← sub_pos]
    have : z ^ 2 / ρ ^ 2 - (1 - Rl ^ 2 / d ^ 2) = (z ^ 2 * d ^ 2 - ρ ^ 2 * (d ^ 2 - Rl ^ 2)) / (ρ ^ 2 * d ^ 2) := by
      field_simp
    rw [this, div_pos_iff_of_pos_right (by positivity), sub_pos]
  rw [e1, e2]

end RV.Props.C14Real
