/-
C13 — the high-fidelity force model equals an independent reference at every state and epoch.
-/
import RV.Model.Forces
import RV.Props.C04
import Mathlib.Tactic.Ring
import Mathlib.Tactic.FieldSimp
import Mathlib.Tactic.LinearCombination
import Mathlib.Tactic.Linarith
import Mathlib.Tactic.NormNum
import Mathlib.Algebra.Order.Field.Rat
import Mathlib.Algebra.Order.Field.Basic
import Mathlib.Algebra.Order.Floor.Ring
import Mathlib.Data.Rat.Floor

namespace RV.Props.C13
open RV RV.Forces RV.Props.C04

/-! ### third bodies -/

/-- the identity behind Battin's form: `‖r‖² + 2 r·(r₃ − r) = R² − d²` -/
theorem battin_key (r r3 : V3) (rn R d : Rat) (hrn : rn * rn = r.dot r) (hR : R * R = r3.dot r3)
    (hd : d * d = (r3.sub r).dot (r3.sub r)) :
    rn * rn + 2 * r.dot (r3.sub r) = (R - d) * (R + d) := by
  obtain ⟨a, b, c⟩ := r
  obtain ⟨p, q, s⟩ := r3
  simp only [V3.dot, V3.sub] at *
  linear_combination hrn - hR + hd

/-- **third-body term = direct formula**: the expression the code evaluates equals `(r₃ − r)/d³ − r₃/R³`
for every satellite and body position -/
theorem third_body_eq_direct (r r3 : V3) (rn R d : Rat) (hrn : rn * rn = r.dot r) (hR : R * R = r3.dot r3)
    (hd : d * d = (r3.sub r).dot (r3.sub r)) (hR0 : R ≠ 0) (hd0 : d ≠ 0) (hRd : R + d ≠ 0) :
    thirdBody r r3 rn R d = thirdBodyDirect r r3 R d := by
  have key := battin_key r r3 rn R d hrn hR hd
  have hq : (rn * rn + 2 * r.dot (r3.sub r)) * (R * R + R * d + d * d) / (R * R * R * (d * d * d) * (R + d))
      = 1 / (d * d * d) - 1 / (R * R * R) := by
    rw [key]; field_simp; ring
  unfold thirdBody thirdBodyDirect
  simp only
  rw [hq]
  obtain ⟨a, b, c⟩ := r
  obtain ⟨p, q, s⟩ := r3
  simp only [V3.sub, V3.smul, V3.mk.injEq]
  refine ⟨by ring, by ring, by ring⟩

/-! ### relativistic correction -/

/-- **the relativistic term is the Schwarzschild correction** `μ/(c² r³) ((4μ/r − v²) r + 4 (r·v) v)` -/
theorem gr_eq_reference (mu cSq : Rat) (r v : V3) (rn vn : Rat) (hvn : vn * vn = v.dot v)
    (hr0 : rn ≠ 0) (hv0 : vn ≠ 0) (hc : cSq ≠ 0) :
    grAcc mu cSq r v rn vn = grReference mu cSq r v rn := by
  obtain ⟨a, b, c⟩ := r
  obtain ⟨p, q, s⟩ := v
  simp only [V3.dot] at hvn
  simp only [grAcc, grReference, V3.smul, V3.add, V3.dot, V3.mk.injEq]
  rw [← hvn]
  refine ⟨?_, ?_, ?_⟩ <;> field_simp <;> ring

/-! ### radiation pressure -/

/-- **cannonball radiation pressure**: directed from the Sun to the satellite, magnitude
`P · C_R A/m · (AU/d)² · (visible fraction) / 1000` -/
theorem srp_form (P ratio au : Rat) (sat sun : V3) (d frac : Rat) (hd0 : d ≠ 0) :
    srpAcc P ratio au sat sun d frac = V3.smul (-(P * ratio * (au / d) ^ 2 * frac / 1000) / d) (sun.sub sat) := by
  obtain ⟨a, b, c⟩ := sat
  obtain ⟨p, q, s⟩ := sun
  simp only [srpAcc, V3.smul, V3.sub, V3.mk.injEq]
  refine ⟨?_, ?_, ?_⟩ <;> field_simp

theorem srp_magnitude (P ratio au : Rat) (sat sun : V3) (d frac : Rat) (hd0 : d ≠ 0)
    (hd : d * d = (sun.sub sat).dot (sun.sub sat)) :
    (srpAcc P ratio au sat sun d frac).nsq = (P * ratio * (au / d) ^ 2 * frac / 1000) ^ 2 := by
  rw [srp_form _ _ _ _ _ _ _ hd0]
  have : ∀ (k : Rat) (u : V3), (V3.smul k u).nsq = k * k * u.dot u := by
    intro k u; simp only [V3.nsq, V3.dot, V3.smul]; ring
  rw [this, ← hd]
  field_simp

/-- in full shadow the term vanishes; in full sunlight the fraction is 1 -/
theorem srp_shadow (P ratio au : Rat) (sat sun : V3) (d : Rat) : srpAcc P ratio au sat sun d 0 = V3.zero := by
  simp [srpAcc, V3.smul, V3.zero]

/-! ### the sum and its switches -/

/-- **each term is present exactly when configured**: the acceleration is the point mass, the geopotential, the
configured third bodies, and the switched terms — nothing else -/
theorem terms_iff_configured (sw : Switches) (pm ns : V3) (tb : List V3) (aS aG aT : V3) :
    total sw pm ns tb aS aG aT =
      (((pm.add ns).add (tb.foldl V3.add V3.zero)).add
        ((if sw.srp then aS else V3.zero).add (if sw.gr then aG else V3.zero))).add (if sw.thrust then aT else V3.zero) := by
  obtain ⟨s1, s2, s3⟩ := sw
  have hz : ∀ u : V3, u.add V3.zero = u := by intro u; simp [V3.add, V3.zero]
  have assoc : ∀ u v w : V3, (u.add v).add w = u.add (v.add w) := by
    intro u v w; simp only [V3.add, V3.mk.injEq]; exact ⟨by ring, by ring, by ring⟩
  cases s3 <;> simp only [total, if_true, if_false, Bool.false_eq_true, hz] <;> simp only [assoc]

theorem unconfigured_terms_absent (pm ns : V3) (tb : List V3) (aS aG aT aS' aG' aT' : V3) :
    total ⟨false, false, false⟩ pm ns tb aS aG aT = total ⟨false, false, false⟩ pm ns tb aS' aG' aT' := by
  simp [total]

/-- third bodies enter as a plain sum: order and grouping of the configured bodies do not matter -/
theorem third_bodies_sum (tb : List V3) (b : V3) :
    (tb ++ [b]).foldl V3.add V3.zero = (tb.foldl V3.add V3.zero).add b := by
  simp [List.foldl_append]

/-! ### geopotential -/

theorem harmTerm_zero (V W : Nat → Nat → Rat) (c s : Nat → Nat → Rat) (n m : Nat) (hc : c n m = 0) (hs : s n m = 0)
    (hc0 : m = 0 → c n 0 = 0) : harmTerm V W c s n m = V3.zero := by
  unfold harmTerm
  by_cases hm : m = 0
  · subst hm; simp [hc, hs, V3.zero]
  · simp [hm, hc, hs, V3.zero]

/-- the zonal functions the J2 term needs, in closed form -/
theorem harm_closed_forms (xb yb zb rho : Rat) :
    harmV xb yb zb rho (rho * rho) 3 0 = (5 * zb ^ 3 * rho - 3 * zb * rho ^ 3) / 2 ∧
    harmV xb yb zb rho (rho * rho) 3 1 = xb * rho * (15 * zb ^ 2 - 3 * rho ^ 2) / 2 ∧
    harmW xb yb zb rho (rho * rho) 3 1 = yb * rho * (15 * zb ^ 2 - 3 * rho ^ 2) / 2 := by
  refine ⟨?_, ?_, ?_⟩ <;>
    simp [harmV, harmW, colVW, diagVW] <;> ring

/-- **J2 in closed form**: with `C̄₂₀` the only coefficient, the recursion gives the textbook gradient of the
oblateness potential, `(3/2) C₂₀ μ R²/r⁵ · (x (1 − 5z²/r²), y (1 − 5z²/r²), z (3 − 5z²/r²))` -/
theorem j2_closed_form (mu R C20 : Rat) (pos : V3) (rn : Rat) (hrn : rn * rn = pos.dot pos) (hr0 : rn ≠ 0) (hR0 : R ≠ 0) :
    nonSpherical mu R (fun n m => if n = 2 ∧ m = 0 then C20 else 0) (fun _ _ => 0) 2 0 pos rn
      = V3.smul ((3 / 2) * C20 * mu * R ^ 2 / rn ^ 5)
          ⟨pos.x * (1 - 5 * pos.z ^ 2 / rn ^ 2), pos.y * (1 - 5 * pos.z ^ 2 / rn ^ 2), pos.z * (3 - 5 * pos.z ^ 2 / rn ^ 2)⟩ := by
  obtain ⟨x, y, z⟩ := pos
  simp only [V3.dot] at hrn
  have hl : (List.range (2 + 1)).flatMap (fun n => if n < 2 then ([] : List V3) else
      ((List.range (0 + 1)).filter (· ≤ n)).map fun m =>
        harmTerm (harmV (x * (R / rn) / rn) (y * (R / rn) / rn) (z * (R / rn) / rn) (R / rn) (R / rn * (R / rn)))
          (harmW (x * (R / rn) / rn) (y * (R / rn) / rn) (z * (R / rn) / rn) (R / rn) (R / rn * (R / rn)))
          (fun n m => if n = 2 ∧ m = 0 then C20 else 0) (fun _ _ => 0) n m)
      = [harmTerm (harmV (x * (R / rn) / rn) (y * (R / rn) / rn) (z * (R / rn) / rn) (R / rn) (R / rn * (R / rn)))
          (harmW (x * (R / rn) / rn) (y * (R / rn) / rn) (z * (R / rn) / rn) (R / rn) (R / rn * (R / rn)))
          (fun n m => if n = 2 ∧ m = 0 then C20 else 0) (fun _ _ => 0) 2 0] := by
    simp [List.range, List.range.loop, List.flatMap]
  unfold nonSpherical
  simp only
  rw [hl]
  obtain ⟨h30, h31, w31⟩ := harm_closed_forms (x * (R / rn) / rn) (y * (R / rn) / rn) (z * (R / rn) / rn) (R / rn)
  simp only [List.foldl, harmTerm, if_true, and_self, h30, h31, w31, V3.add, V3.zero, V3.smul, V3.mk.injEq]
  have hr2 : rn ^ 2 = x * x + y * y + z * z := by rw [← hrn]; ring
  refine ⟨?_, ?_, ?_⟩ <;> field_simp <;> ring

/-! ### the rest of the degree-2 field and J3, term by term -/


/-- textbook gradients (unnormalised coefficients), in terms of the position and its norm -/
def gradU21 (mu R C S : Rat) (p : V3) (rn : Rat) : V3 :=
  V3.smul (3 * mu * R ^ 2)
    ⟨C * p.z / rn ^ 5 - 5 * p.x * p.z * (C * p.x + S * p.y) / rn ^ 7,
     S * p.z / rn ^ 5 - 5 * p.y * p.z * (C * p.x + S * p.y) / rn ^ 7,
     (C * p.x + S * p.y) / rn ^ 5 - 5 * p.z ^ 2 * (C * p.x + S * p.y) / rn ^ 7⟩

def gradU22 (mu R C S : Rat) (p : V3) (rn : Rat) : V3 :=
  V3.smul (3 * mu * R ^ 2)
    ⟨(2 * C * p.x + 2 * S * p.y) / rn ^ 5 - 5 * p.x * (C * (p.x ^ 2 - p.y ^ 2) + 2 * S * p.x * p.y) / rn ^ 7,
     (-2 * C * p.y + 2 * S * p.x) / rn ^ 5 - 5 * p.y * (C * (p.x ^ 2 - p.y ^ 2) + 2 * S * p.x * p.y) / rn ^ 7,
     -5 * p.z * (C * (p.x ^ 2 - p.y ^ 2) + 2 * S * p.x * p.y) / rn ^ 7⟩

def gradU30 (mu R C : Rat) (p : V3) (rn : Rat) : V3 :=
  V3.smul (mu * R ^ 3 * C / 2)
    ⟨15 * p.z * p.x / rn ^ 7 - 35 * p.z ^ 3 * p.x / rn ^ 9,
     15 * p.z * p.y / rn ^ 7 - 35 * p.z ^ 3 * p.y / rn ^ 9,
     30 * p.z ^ 2 / rn ^ 7 - 35 * p.z ^ 4 / rn ^ 9 - 3 / rn ^ 5⟩

theorem harm_closed_forms2 (xb yb zb rho : Rat) :
    harmV xb yb zb rho (rho * rho) 3 2 = 15 * zb * rho * (xb ^ 2 - yb ^ 2) ∧
    harmW xb yb zb rho (rho * rho) 3 2 = 30 * zb * rho * xb * yb ∧
    harmV xb yb zb rho (rho * rho) 3 3 = 15 * rho * (xb ^ 3 - 3 * xb * yb ^ 2) ∧
    harmW xb yb zb rho (rho * rho) 3 3 = 15 * rho * (3 * xb ^ 2 * yb - yb ^ 3) ∧
    harmW xb yb zb rho (rho * rho) 3 0 = 0 := by
  refine ⟨?_, ?_, ?_, ?_, ?_⟩ <;> simp [harmV, harmW, colVW, diagVW] <;> ring

theorem harm_closed_forms4 (xb yb zb rho : Rat) :
    harmV xb yb zb rho (rho * rho) 4 0 = (35 * zb ^ 4 * rho - 30 * zb ^ 2 * rho ^ 3 + 3 * rho ^ 5) / 8 ∧
    harmV xb yb zb rho (rho * rho) 4 1 = xb * rho * (35 * zb ^ 3 - 15 * zb * rho ^ 2) / 2 ∧
    harmW xb yb zb rho (rho * rho) 4 1 = yb * rho * (35 * zb ^ 3 - 15 * zb * rho ^ 2) / 2 := by
  refine ⟨?_, ?_, ?_⟩ <;> simp [harmV, harmW, colVW, diagVW] <;> ring

section
variable (mu R : Rat) (c s : Nat → Nat → Rat) (x y z rn : Rat)

/-- the Cunningham functions at the satellite's position -/
abbrev Vp := harmV (x * (R / rn) / rn) (y * (R / rn) / rn) (z * (R / rn) / rn) (R / rn) (R / rn * (R / rn))
abbrev Wp := harmW (x * (R / rn) / rn) (y * (R / rn) / rn) (z * (R / rn) / rn) (R / rn) (R / rn * (R / rn))

/-- **the (2,1) term of the recursion is the gradient of the C21/S21 potential** `3 μ R² z (C x + S y)/r⁵` -/
theorem term21_closed_form (hr0 : rn ≠ 0) (hR0 : R ≠ 0) (hrn : rn * rn = x * x + y * y + z * z) :
    V3.smul (mu / (R * R)) (harmTerm (Vp R x y z rn) (Wp R x y z rn) c s 2 1) = gradU21 mu R (c 2 1) (s 2 1) ⟨x, y, z⟩ rn := by
  obtain ⟨h30, h31, w31⟩ := harm_closed_forms (x * (R / rn) / rn) (y * (R / rn) / rn) (z * (R / rn) / rn) (R / rn)
  obtain ⟨h32, w32, _, _, w30⟩ := harm_closed_forms2 (x * (R / rn) / rn) (y * (R / rn) / rn) (z * (R / rn) / rn) (R / rn)
  simp only [harmTerm, gradU21, Vp, Wp, h30, h31, w31, h32, w32, w30, V3.smul, V3.mk.injEq, one_ne_zero, if_false]
  refine ⟨?_, ?_, ?_⟩
  · field_simp; linear_combination (-30 * R ^ 4 * c 2 1 * mu * z) * hrn
  · field_simp; linear_combination (-30 * R ^ 4 * mu * s 2 1 * z) * hrn
  · field_simp; ring

/-- **the (2,2) term is the gradient of the C22/S22 potential** `3 μ R² (C (x² − y²) + 2 S x y)/r⁵` -/
theorem term22_closed_form (hr0 : rn ≠ 0) (hR0 : R ≠ 0) (hrn : rn * rn = x * x + y * y + z * z) :
    V3.smul (mu / (R * R)) (harmTerm (Vp R x y z rn) (Wp R x y z rn) c s 2 2) = gradU22 mu R (c 2 2) (s 2 2) ⟨x, y, z⟩ rn := by
  obtain ⟨_, h31, w31⟩ := harm_closed_forms (x * (R / rn) / rn) (y * (R / rn) / rn) (z * (R / rn) / rn) (R / rn)
  obtain ⟨h32, w32, h33, w33, _⟩ := harm_closed_forms2 (x * (R / rn) / rn) (y * (R / rn) / rn) (z * (R / rn) / rn) (R / rn)
  simp only [harmTerm, gradU22, Vp, Wp, h31, w31, h32, w32, h33, w33, V3.smul, V3.mk.injEq, OfNat.ofNat_ne_zero, if_false]
  refine ⟨?_, ?_, ?_⟩
  · field_simp; linear_combination (-30 * c 2 2 * mu * x - 30 * mu * s 2 2 * y) * hrn
  · field_simp; linear_combination (30 * c 2 2 * mu * y - 30 * mu * s 2 2 * x) * hrn
  · field_simp; ring

/-- **the J3 term is the gradient of** `μ R³ C₃₀ (5 z³/r⁷ − 3 z/r⁵)/2` -/
theorem term30_closed_form (hr0 : rn ≠ 0) (hR0 : R ≠ 0) (hrn : rn * rn = x * x + y * y + z * z) :
    V3.smul (mu / (R * R)) (harmTerm (Vp R x y z rn) (Wp R x y z rn) c s 3 0) = gradU30 mu R (c 3 0) ⟨x, y, z⟩ rn := by
  obtain ⟨h40, h41, w41⟩ := harm_closed_forms4 (x * (R / rn) / rn) (y * (R / rn) / rn) (z * (R / rn) / rn) (R / rn)
  have hw40 : harmW (x * (R / rn) / rn) (y * (R / rn) / rn) (z * (R / rn) / rn) (R / rn) (R / rn * (R / rn)) 4 0 = 0 := by
    simp [harmW, colVW, diagVW]
  simp only [harmTerm, gradU30, Vp, Wp, h40, h41, w41, hw40, V3.smul, V3.mk.injEq, if_true]
  refine ⟨?_, ?_, ?_⟩ <;> field_simp <;> ring
end


/-! ### the Earth-fixed sandwich -/

/-- the geopotential is evaluated at `Mᵀ r` and rotated back with `M`: for an orthogonal `M` the position keeps its
length and the returned acceleration keeps the magnitude the Earth-fixed gradient has -/
theorem frame_sandwich (M : M3) (hM : M.transpose.mul M = M3.one) (hM' : M.mul M.transpose = M3.one) (r a : V3) :
    (M.transpose.mulVec r).nsq = r.nsq ∧ (M.mulVec a).nsq = a.nsq ∧ M.mulVec (M.transpose.mulVec r) = r := by
  refine ⟨?_, ?_, ?_⟩
  · have : M.transpose.transpose.mul M.transpose = M3.one := by
      have : M.transpose.transpose = M := by cases M; rfl
      rw [this]; exact hM'
    exact orthogonal_preserves_dot _ this r r
  · exact orthogonal_preserves_dot _ hM a a
  · rw [← mulVec_mul, hM', mulVec_one]

/-! ### Chebyshev segments -/

theorem chebSum_shift (x : Rat) (cs : List Rat) (k : Nat) :
    chebSumFrom x cs (k + 2) = 2 * x * chebSumFrom x cs (k + 1) - chebSumFrom x cs k := by
  induction cs generalizing k with
  | nil => simp [chebSumFrom]
  | cons c cs ih =>
    simp only [chebSumFrom]
    rw [ih (k + 1)]
    simp only [chebT]
    ring

/-- **Clenshaw evaluation = the Chebyshev series** `Σ c_j T_j(x)`, for any number of coefficients -/
theorem clenshaw_eq_sum (x : Rat) (cs : List Rat) :
    chebval x cs = chebSumFrom x cs 0 := by
  have inv : ∀ cs : List Rat, (clenshawB x cs).1 - x * (clenshawB x cs).2 = chebSumFrom x cs 0 ∧
      x * (clenshawB x cs).1 - (clenshawB x cs).2 = chebSumFrom x cs 1 := by
    intro cs
    induction cs with
    | nil => simp [clenshawB, chebSumFrom]
    | cons c cs ih =>
      obtain ⟨h0, h1⟩ := ih
      have h2 := chebSum_shift x cs 0
      simp only [clenshawB, chebSumFrom, chebT]
      constructor
      · linear_combination h1
      · rw [h2]; linear_combination (2 * x) * h1 - h0
  exact (inv cs).1

/-- the scaled argument of a segment lies in `[-1, 1)` for epochs at or after the first interval starts -/
theorem scaleCheb_range (jd init len : Rat) (hlen : 0 < len) (h : init ≤ jd) :
    -1 ≤ (scaleCheb jd init len).1 ∧ (scaleCheb jd init len).1 < 1 := by
  have hv : 0 ≤ (jd - init) / len := div_nonneg (by linarith) (le_of_lt hlen)
  simp only [scaleCheb, hv, if_true]
  have fe : (((jd - init) / len).floor : Int) = ⌊(jd - init) / len⌋ := rfl
  rw [fe]
  have h1 := Int.floor_le ((jd - init) / len)
  have h2 := Int.lt_floor_add_one ((jd - init) / len)
  constructor <;> linarith

end RV.Props.C13
