/-
Bridge: the query `getRelevantEvents` builds (`resonaate/data/events/__init__.py`), read from /repo's working tree on every
run as a predicate on one row of the events table (`RV.Generated.EventsQuery`: the comparisons handed to `.filter(...)`; a
`filter` whose result is thrown away selects nothing), is the predicate `RV.Events.relevant true` of the C01 delivery model:
scope equal, `start_time_jd ≤ upper bound`, `end_time_jd > lower bound` - the half-open window `(lower, upper]` for an
instantaneous event - and, when an instance is named, that instance only.  The C01 theorems (`exactly one step`, `only the
engine or sensor they name`) are about that predicate; the Julian dates of the row are `jd` of the configured instants.
-/
import RV.Generated.EventsQuery
import RV.Model.Events
namespace RV.Bridge.EventsQuery
open RV.Generated RV.Events

/-- the stored value of an event scope (any injective coding does) -/
def code : Scope → Int
  | .scenarioStep => 0 | .agentPropagation => 1 | .taskRewardGeneration => 2 | .observationGeneration => 3

theorem code_inj (a b : Scope) : code a = code b ↔ a = b := by
  cases a <;> cases b <;> simp [code]

theorem getRelevantEvents_eq (jd : Int → Rat) (scope : Scope) (lb ub : Rat) (inst : Option Int) (e : EventRow) :
    EventsQuery.getRelevantEvents (code e.scope) (jd e.startSec) (jd e.endSec) e.instanceId (code scope) lb ub inst
      = relevant true jd scope lb ub inst e := by
  unfold EventsQuery.getRelevantEvents relevant
  have h : decide (code e.scope = code scope) = decide (e.scope = scope) := by
    simp only [code_inj]
  rw [h]
  cases inst <;> simp

/-- an instantaneous event (start = end) is selected exactly by the windows `(lb, ub]` that contain its Julian date -/
theorem instant_window (t : Rat) (sc : Int) (i : Int) (lb ub : Rat) :
    EventsQuery.getRelevantEvents sc t t i sc lb ub none = true ↔ (lb < t ∧ t ≤ ub) := by
  unfold EventsQuery.getRelevantEvents
  simp only [decide_true, Bool.true_and, Bool.and_true, Bool.and_eq_true, decide_eq_true_eq, gt_iff_lt]
  constructor
  · rintro ⟨a, b⟩; exact ⟨b, a⟩
  · rintro ⟨a, b⟩; exact ⟨b, a⟩

/-- an event addressed to instance `i` is not selected for a query that names another instance -/
theorem other_instance (sc : Int) (s e : Rat) (i j : Int) (lb ub : Rat) (h : i ≠ j) :
    EventsQuery.getRelevantEvents sc s e i sc lb ub (some j) = false := by
  unfold EventsQuery.getRelevantEvents
  simp [h]

example : EventsQuery.getRelevantEvents 1 5 5 7 1 4 5 (some 7) = true ∧ EventsQuery.getRelevantEvents 1 5 5 7 1 5 6 (some 7) = false
    ∧ EventsQuery.getRelevantEvents 1 5 5 7 1 4 5 (some 8) = false := by decide +kernel

end RV.Bridge.EventsQuery
