/-
Bridge: `greenwichMeanTime` and `greenwichApparentTime` (`resonaate/physics/time/conversions.py`), translated from /repo's
working tree on every run with their literals read as the decimals they are written as (`RV.Generated.Sidereal`), are the
sidereal-time functions of the C04 frame model (`RV.Frames.gmst`, `RV.Frames.gast`) at the code's own `DEG2RAD` and `TWOPI`.
The Julian date of 1 January the code asks `JulianDate.getJulianDate(year, 1, 1, 0, 0, 0)` for enters as a parameter and is
instantiated with the model's `jdJan1` (a half-integer, exactly representable; `getJulianDate` itself is tied by
`RV.Bridge.Time.getJulianDate_eq`).  The C04 theorems on the continuity of the sidereal angle across year boundaries are about
`RV.Frames.gast`; with `RV.Bridge.Conversions.dayOfYear_eq` the whole day-count -> sidereal-angle chain is now read from the code.
-/
import RV.Generated.Sidereal
import RV.Model.Frames
import RV.Bridge.Maths
import Mathlib.Tactic.Ring
namespace RV.Bridge.Sidereal
open RV.Generated RV.Py RV.Frames

/-- the constants the code holds -/
def k : GstConst := ⟨DEG2RAD, TWOPI⟩

theorem greenwichMeanTime_eq (jd : Rat) : Sidereal.greenwichMeanTime jd = gmst k jd := by
  unfold Sidereal.greenwichMeanTime gmst k
  rw [RV.Bridge.Maths.wrapAngle2Pi_eq]
  congr 1
  push_cast
  ring

theorem greenwichApparentTime_eq (y : Int) (days eqe : Rat) :
    Sidereal.greenwichApparentTime y days eqe (jdJan1 y) = gast k y days eqe := by
  unfold Sidereal.greenwichApparentTime gast rotRate
  simp only [greenwichMeanTime_eq]
  rw [RV.Bridge.Maths.wrapAngle2Pi_eq]
  congr 1
  simp only [k]
  ring

/-- the polynomial at J2000.0 itself: 67310.54841 s of sidereal time, i.e. 280.46 degrees -/
example : Sidereal.greenwichMeanTime 2451545 = RV.Angles.wrap2Pi TWOPI ((6731054841 : Rat) / 100000 * (1 / 240) * DEG2RAD) := by
  rw [greenwichMeanTime_eq]; unfold gmst k; norm_num

end RV.Bridge.Sidereal
