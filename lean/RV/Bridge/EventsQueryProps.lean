/-
The C01 delivery theorems carried over to the TRANSLATED query (`RV.Generated.EventsQuery.getRelevantEvents`, read from /repo on
every run): on the step windows `Scenario.stepForward` forms from the clock's datetimes, the query selects an event row exactly
when the row's civil interval meets the step's interval `(start + (k-1) dt, start + k dt]` - independently of how the Julian
dates round, given only that the date conversion is strictly increasing on the span (C05's `jd_monoOn_of_civil`) - and only for
the instance the query names.  With `instant_event_unique` / `instant_event_exists` this is "delivered in exactly one step, the one
whose interval contains its time, also on a step boundary" about the query as it reads now.
-/
import RV.Bridge.EventsQuery
import RV.Props.C01
namespace RV.Bridge.EventsQueryProps
open RV.Generated RV.Events RV.Bridge.EventsQuery RV.Props.C01

theorem code_relevant_iff (jd : Int → Rat) (s2d : Rat) (lo hi start dt : Int) (k : Nat)
    (hmono : MonoOn jd lo hi) (scope : Scope) (inst : Option Int) (e : EventRow)
    (h1 : lo ≤ start + ((k : Int) - 1) * dt) (h2 : start + (k : Int) * dt ≤ hi)
    (h1' : start + ((k : Int) - 1) * dt ≤ hi) (h2' : lo ≤ start + (k : Int) * dt)
    (hs : lo ≤ e.startSec ∧ e.startSec ≤ hi) (he : lo ≤ e.endSec ∧ e.endSec ≤ hi) :
    EventsQuery.getRelevantEvents (code e.scope) (jd e.startSec) (jd e.endSec) e.instanceId (code scope)
        (stepWindow .datetimeBased jd s2d start dt k).1 (stepWindow .datetimeBased jd s2d start dt k).2 inst = true ↔
      (e.scope = scope ∧ e.startSec ≤ start + (k : Int) * dt ∧ start + ((k : Int) - 1) * dt < e.endSec
        ∧ (∀ i, inst = some i → e.instanceId = i)) := by
  rw [getRelevantEvents_eq]
  exact relevant_iff jd s2d lo hi start dt k hmono scope inst e h1 h2 h1' h2' hs he

/-- an instantaneous event at civil second `τ` after the start is selected by the translated query in the step
`⌈(τ - start)/dt⌉` and in no other step of the span -/
theorem code_instant_exactly_one_step (jd : Int → Rat) (s2d : Rat) (lo hi start dt τ : Int) (hdt : 0 < dt) (hτ : start < τ)
    (hmono : MonoOn jd lo hi) (scope : Scope) (id : Nat) (i : Int) (k : Nat)
    (h1 : lo ≤ start + ((k : Int) - 1) * dt) (h2 : start + (k : Int) * dt ≤ hi)
    (h1' : start + ((k : Int) - 1) * dt ≤ hi) (h2' : lo ≤ start + (k : Int) * dt) (hτr : lo ≤ τ ∧ τ ≤ hi) :
    EventsQuery.getRelevantEvents (code scope) (jd τ) (jd τ) i (code scope)
        (stepWindow .datetimeBased jd s2d start dt k).1 (stepWindow .datetimeBased jd s2d start dt k).2 (some i) = true ↔
      (k : Int) = (τ - start - 1) / dt + 1 := by
  have key := code_relevant_iff jd s2d lo hi start dt k hmono scope (some i) ⟨id, scope, i, τ, τ⟩ h1 h2 h1' h2' hτr hτr
  simp only at key
  rw [key]
  have ex := instant_event_exists start dt τ hdt hτ
  constructor
  · rintro ⟨_, a, b, _⟩
    exact instant_event_unique start dt τ hdt k _ ⟨a, b⟩ ⟨ex.2.1, ex.2.2⟩
  · intro hk
    refine ⟨trivial, ?_, ?_, fun j hj => by cases hj; rfl⟩
    · rw [hk]; exact ex.2.1
    · rw [hk]; exact ex.2.2

end RV.Bridge.EventsQueryProps
