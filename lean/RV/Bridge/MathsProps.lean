/-
C16 carried to the code: the theorems about the angle model, instantiated at the code's own `PI` and `TWOPI` (for which
`TWOPI = 2 * PI` holds exactly in binary64 and is proved in `generated_constants`) and rewritten through the bridge onto
the definitions translated from `resonaate/physics/maths.py` on every run.
-/
import RV.Bridge.Maths
import RV.Props.C16
import RV.Generated.MathsF64
namespace RV.Bridge.MathsProps
open RV.Generated RV.Props.C16

theorem hPI : 0 < PI := generated_constants.2
theorem hTAU : TWOPI = 2 * PI := generated_constants.1

/-- the translated `residual` of two angles lies in (-pi, pi] -/
theorem code_residual_range (a b : Rat) : -PI < Maths.residual a b true ∧ Maths.residual a b true ≤ PI := by
  rw [RV.Bridge.Maths.residual_eq]; exact residual_range PI TWOPI hPI hTAU a b

/-- adding whole turns to either angle leaves the translated `residual` unchanged -/
theorem code_residual_turns (a b : Rat) (k m : Int) :
    Maths.residual (a + k * TWOPI) (b + m * TWOPI) true = Maths.residual a b true := by
  simp only [RV.Bridge.Maths.residual_eq]; exact residual_turns PI TWOPI hPI hTAU a b k m

/-- the translated `wrapAngle2Pi` lands in [0, 2 pi) and ignores whole turns -/
theorem code_wrap2Pi_range (x : Rat) : 0 ≤ Maths.wrapAngle2Pi x ∧ Maths.wrapAngle2Pi x < TWOPI := by
  rw [RV.Bridge.Maths.wrapAngle2Pi_eq]; exact wrap2Pi_range TWOPI (by rw [hTAU]; linarith [hPI]) x

/-- the translated `wrapAngleNegPiPi` lands in (-pi, pi] -/
theorem code_wrapNegPiPi_range (x : Rat) : -PI < Maths.wrapAngleNegPiPi x ∧ Maths.wrapAngleNegPiPi x ≤ PI := by
  rw [RV.Bridge.Maths.wrapAngleNegPiPi_eq]; exact wrapNegPiPi_range PI TWOPI hPI hTAU x

/-- one element of the translated `vecResiduals` ignores whole turns as well -/
theorem code_vecResiduals_turns (a b : Rat) (k m : Int) :
    Maths.vecResiduals (a + k * TWOPI) (b + m * TWOPI) true = Maths.vecResiduals a b true := by
  simp only [RV.Bridge.Maths.vecResiduals_eq]; exact vecResidual_turns PI TWOPI hPI hTAU a b k m

/-! ### the open known finding of C12, machine-checked

The theorems above are about the source read in exact arithmetic (the level of the angle model). Read in binary64 - `fmod` exact, `angle += TWOPI`
one rounded addition - the same source leaves [0, 2 pi): for `x = -2^-53` the sum `x + TWOPI` rounds to `TWOPI` itself. This is the finding the C12
check lists as known (`known_findings.json`); the witness below is its record in Lean, and `code_wrap2Pi_range` is the statement it falsifies once
rounding is taken into account. -/
theorem wrap2Pi_binary64_reaches_full_turn :
    MathsF64.wrapAngle2Pi (-(1 / 9007199254740992)) = TWOPI ∧ ¬ (MathsF64.wrapAngle2Pi (-(1 / 9007199254740992)) < TWOPI) := by
  decide +kernel

/-- an ordinary negative angle is wrapped into range by the binary64 reading as well -/
theorem wrap2Pi_binary64_ordinary : 0 ≤ MathsF64.wrapAngle2Pi (-1) ∧ MathsF64.wrapAngle2Pi (-1) < TWOPI := by
  decide +kernel

end RV.Bridge.MathsProps
