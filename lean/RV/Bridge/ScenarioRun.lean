/-
Bridge: the step count of `Scenario.propagateTo` (`resonaate/scenario/scenario.py`: the target Julian date turned into scenario
seconds, the difference to the clock rounded half-to-even, refused when below one physics step, `int(rounded / dt)` calls of
`stepForward`), translated from /repo's working tree on every run in binary64 semantics (`RV.Generated.ScenarioRun`; the loop is
read as the number of times its body runs, the refusing `else: raise` as a guard), is `RV.Time.propagateSteps` - the function C05's
`timed_run_steps` ("a run of D seconds takes exactly D / dt steps") is proved about.
-/
import RV.Generated.ScenarioRun
import RV.Model.Time
import RV.Bridge.Time
namespace RV.Bridge.ScenarioRun
open RV.Generated RV.Py RV.F64 RV.Time

theorem propagateTo_eq (targetJD jd0 clock dt : Rat) :
    propagateSteps targetJD jd0 clock dt =
      if ScenarioRun.propagateToSteps_accepts targetJD jd0 clock dt = true then some (ScenarioRun.propagateToSteps targetJD jd0 clock dt) else none := by
  unfold propagateSteps ScenarioRun.propagateToSteps_accepts ScenarioRun.propagateToSteps
  simp only [RV.Bridge.Time.convertToScenarioTime_eq]
  by_cases h : ((fround (fsub (toScenario targetJD jd0) clock) : Int) : Rat) ≥ dt <;> simp [h]

/-- one hour from the scenario start with 60 s steps: accepted, 60 steps; half a step: refused -/
example : propagateSteps (2459304 + 1 / 24) 2459304 0 60 = some 60 ∧ propagateSteps (2459304 + 1 / 2880) 2459304 0 60 = none := by
  decide +kernel

end RV.Bridge.ScenarioRun
