/-
Bridge: `determineTransferDirection` (`resonaate/physics/orbit_determination/lambert.py`) and
`InitialOrbitDetermination.checkSinglePass` (`resonaate/estimation/initial_orbit_determination.py`), translated from /repo's
working tree on every run (`RV.Generated.Lambert`), are the selection logic of the C20 model (`RV.Lambert.transferDirection`,
`RV.Lambert.singlePass`): short way below half a period, long way above; two observations belong to one pass iff they are
less than one period apart, a non-positive gap raises.  The period enters as a parameter (`keplerThirdLaw`, `getPeriod`:
defect 3de2112 was in what was handed to it, which the C20 harness exercises).
-/
import RV.Generated.Lambert
import RV.Model.Lambert
import Mathlib.Tactic.Linarith
namespace RV.Bridge.Lambert
open RV.Generated RV.Py

theorem determineTransferDirection_eq (transit period : Rat) :
    Lambert.determineTransferDirection transit period = RV.Lambert.transferDirection transit period := by
  unfold Lambert.determineTransferDirection RV.Lambert.transferDirection
  rfl

/-- `checkSinglePass`: `none` = raises, `some (false, _)` = not a single pass, `some (true, t)` = the transit time `t` -/
theorem checkSinglePass_eq (jd1 jd2 period : Rat) :
    (match Lambert.checkSinglePass jd1 jd2 period with
      | none => none
      | some (false, _) => some none
      | some (true, t) => some (some t)) = RV.Lambert.singlePass ((jd2 - jd1) * DAYS2SEC) period := by
  unfold Lambert.checkSinglePass RV.Lambert.singlePass
  simp only
  by_cases h1 : (jd2 - jd1) * DAYS2SEC ≥ period
  · simp [h1]
  · by_cases h2 : (jd2 - jd1) * DAYS2SEC ≤ 0 <;> simp [h1, h2]

/-- inside (0, period) the pass is accepted and the transit time handed on unchanged -/
theorem checkSinglePass_inside (jd1 jd2 period : Rat) (h0 : 0 < (jd2 - jd1) * DAYS2SEC) (h1 : (jd2 - jd1) * DAYS2SEC < period) :
    Lambert.checkSinglePass jd1 jd2 period = some (true, (jd2 - jd1) * DAYS2SEC) := by
  unfold Lambert.checkSinglePass
  have a : ¬ ((jd2 - jd1) * DAYS2SEC ≥ period) := by intro h; linarith
  have b : ¬ ((jd2 - jd1) * DAYS2SEC ≤ 0) := by intro h; linarith
  simp only [a, b, if_false]
  simp

/-- 0.39 of a 12-hour period is a single pass; 1.2 periods is not; the same instant twice raises -/
example : (Lambert.checkSinglePass 0 (39 / 200) 43200).map (·.1) = some true ∧ (Lambert.checkSinglePass 0 (6 / 10) 43200).map (·.1) = some false
    ∧ Lambert.checkSinglePass 5 5 43200 = none := by decide +kernel

end RV.Bridge.Lambert
