/-
Bridge: the three maneuver detectors' `__call__` methods (`resonaate/estimation/maneuver_detection.py`) and the
hypothesis test they hand their statistic to (`oneSidedChiSquareTest`, `resonaate/physics/statistics.py`), translated
from /repo's working tree on every run (`RV.Generated.Detect`), are the C17 detector model (`RV.Model.Detectors`):
the statistic, the degrees of freedom, the state carried to the next step, and "a maneuver is declared iff the
statistic is not below the bound".  `chi2.isf` enters as a function parameter, `chiSquareQuadraticForm(residual,
innov_cvr)` and `residual.shape[0]` as the scalars `q` and `dim` (the model's `Obs`).
-/
import RV.Generated.Detect
import RV.Model.Detectors
import Mathlib.Tactic.Ring
import Mathlib.Tactic.Linarith
import Mathlib.Tactic.FieldSimp
namespace RV.Bridge.Detect
open RV.Generated RV.Py RV.Detectors

/-- the test with the default `runs = 1` is `metric < chi2.isf(alpha, dof)` - strict -/
theorem oneSided_eq (isf : Rat → Rat → Rat) (m α d : Rat) :
    Detect.oneSidedChiSquareTest m α d 1 isf = decide (m < isf α d) := by
  unfold Detect.oneSidedChiSquareTest
  simp

/-- what every detector returns, `not test(metric, threshold, dof)`, is the model's `detect` at the bound `chi2.isf(threshold, ·)`:
a statistic that exactly reaches the bound IS a detection -/
theorem decision_eq (isf : Rat → Rat → Rat) (α : Rat) (o : Out) :
    (!(Detect.oneSidedChiSquareTest o.metric α o.dof 1 isf)) = detect (isf α) o := by
  rw [oneSided_eq]; rfl

theorem decision_at_bound (isf : Rat → Rat → Rat) (α : Rat) (o : Out) (h : o.metric = isf α o.dof) :
    (!(Detect.oneSidedChiSquareTest o.metric α o.dof 1 isf)) = true := by
  rw [oneSided_eq, h]; simp

/-- `StandardNis.__call__` -/
theorem standardCall_eq (o : Obs) :
    Detect.standardCall (o.dim : Int) o.q = ((standardStep o).metric, ((o.dim : Nat) : Int)) := rfl

theorem standardCall_dof (o : Obs) : (((Detect.standardCall (o.dim : Int) o.q).2 : Int) : Rat) = (standardStep o).dof := by
  simp [Detect.standardCall, standardStep]

/-- `FadingMemoryNis.__call__`: new fields, statistic and degrees of freedom are the model's `Fading.step` -/
theorem fadingCall_eq (s : Fading) (o : Obs) :
    Detect.fadingCall (o.dim : Int) o.q s.δ s.prior (s.totalDim : Int) (s.total : Int) =
      (((s.step o).1.prior, (((s.step o).1.totalDim : Nat) : Int), (((s.step o).1.total : Nat) : Int),
        (s.step o).2.metric, (s.step o).2.dof)) := by
  unfold Detect.fadingCall Fading.step
  simp only [Prod.mk.injEq]
  refine ⟨trivial, by push_cast; ring, by push_cast; ring, trivial, ?_⟩
  push_cast
  ring

theorem dq_reverse {α : Type} (w : Nat) (l : List α) (x : α) :
    dqAppend (w : Int) l.reverse x = ((x :: l).take w).reverse := by
  unfold dqAppend
  rw [List.reverse_take, List.reverse_cons]
  simp

/-- `SlidingNis.__call__` on the two deques (oldest first) is the model's `Sliding.step` (newest first) -/
theorem slidingCall_eq (s : Sliding) (o : Obs) :
    Detect.slidingCall (o.dim : Int) o.q (s.w : Int) s.qs.reverse (s.dims.map Int.ofNat).reverse =
      ((s.step o).1.qs.reverse, ((s.step o).1.dims.map Int.ofNat).reverse, (s.step o).2.metric,
        (((s.step o).1.dims.sum : Nat) : Int)) := by
  unfold Detect.slidingCall Sliding.step
  have h1 := dq_reverse s.w s.qs o.q
  have h2 : dqAppend (s.w : Int) (s.dims.map Int.ofNat).reverse (o.dim : Int)
      = (((o.dim :: s.dims).take s.w).map Int.ofNat).reverse := by
    rw [dq_reverse]; simp [List.map_take]
  simp only [h1, h2, List.sum_reverse]
  refine Prod.ext rfl (Prod.ext rfl (Prod.ext rfl ?_))
  simp only
  induction ((o.dim :: s.dims).take s.w) with
  | nil => rfl
  | cons a l ih => simp [List.sum_cons, ih]

/-- a concrete three-step history through the translated code: window 2, dimensions 2, 3, 1 -/
example : (Detect.slidingCall 1 5 2 [1, 2] [2, 3]).2.2 = (7, 4) := by decide +kernel

end RV.Bridge.Detect
