/-
The C17 statistic theorems carried over to the TRANSLATED code (`RV.Generated.Detect`, regenerated from /repo on every run): the
translated `SlidingNis.__call__` / `FadingMemoryNis.__call__` are driven over a whole history (a fold that hands each call the
fields the previous one left on the object), and the statistic the last call passes to the hypothesis test is the documented
one - for every history, every window, every delta, any per-step dimension.  Together with `decision_eq` this is the property's
sentence "declares a maneuver exactly when its documented statistic reaches the bound" about the code as it reads now.
-/
import RV.Bridge.Detect
import RV.Props.C17
namespace RV.Bridge.DetectProps
open RV.Generated RV.Py RV.Detectors RV.Bridge.Detect RV.Props.C17

/-- the two deques of a `SlidingNis(window_size = w)` object after the history `h` (oldest first), by running the translated code -/
def codeSlidingRun (w : Nat) (h : List Obs) : List Rat × List Int :=
  h.foldl (fun st o => let r := Detect.slidingCall (o.dim : Int) o.q (w : Int) st.1 st.2; (r.1, r.2.1)) ([], [])

theorem codeSlidingRun_snoc (w : Nat) (h : List Obs) (o : Obs) :
    codeSlidingRun w (h ++ [o]) =
      ((Detect.slidingCall (o.dim : Int) o.q (w : Int) (codeSlidingRun w h).1 (codeSlidingRun w h).2).1,
       (Detect.slidingCall (o.dim : Int) o.q (w : Int) (codeSlidingRun w h).1 (codeSlidingRun w h).2).2.1) := by
  simp [codeSlidingRun]

theorem codeSlidingRun_eq (w : Nat) (h : List Obs) :
    codeSlidingRun w h = ((slidingState w h).qs.reverse, ((slidingState w h).dims.map Int.ofNat).reverse) := by
  induction h using List.reverseRecOn with
  | nil => simp [codeSlidingRun, slidingState, Sliding.init]
  | append_singleton h o ih =>
    rw [codeSlidingRun_snoc, ih, slidingState_snoc]
    have hw := (sliding_state w h).1
    have e := slidingCall_eq (slidingState w h) o
    rw [hw] at e
    rw [e]

/-- **the sliding statistic, about the translated code**: what `SlidingNis.__call__` hands to the test after any history -/
theorem code_sliding_metric (w : Nat) (h : List Obs) (o : Obs) :
    (Detect.slidingCall (o.dim : Int) o.q (w : Int) (codeSlidingRun w h).1 (codeSlidingRun w h).2).2.2.1
      = (((h ++ [o]).reverse.map (·.q)).take w).sum ∧
    (Detect.slidingCall (o.dim : Int) o.q (w : Int) (codeSlidingRun w h).1 (codeSlidingRun w h).2).2.2.2
      = (((((h ++ [o]).reverse.map (·.dim)).take w).sum : Nat) : Int) := by
  rw [codeSlidingRun_eq]
  have hw := (sliding_state w h).1
  have e := slidingCall_eq (slidingState w h) o
  rw [hw] at e
  rw [e]
  have m := sliding_metric w h o
  unfold slidingOut at m
  refine ⟨m.1, ?_⟩
  simp only
  have hd := (sliding_state w (h ++ [o])).2.2
  rw [slidingState_snoc] at hd
  rw [hd]

/-- the fields of a `FadingMemoryNis(delta = δ)` object after the history `h`: (prior_nis, total_dim, total) -/
def codeFadingRun (δ : Rat) (h : List Obs) : Rat × Int × Int :=
  h.foldl (fun st o => let r := Detect.fadingCall (o.dim : Int) o.q δ st.1 st.2.1 st.2.2; (r.1, r.2.1, r.2.2.1)) (0, 0, 0)

theorem codeFadingRun_eq (δ : Rat) (h : List Obs) :
    codeFadingRun δ h = ((fadingState δ h).prior, ((fadingState δ h).totalDim : Int), ((fadingState δ h).total : Int)) := by
  induction h using List.reverseRecOn with
  | nil => simp [codeFadingRun, fadingState, Fading.init]
  | append_singleton h o ih =>
    have hs : codeFadingRun δ (h ++ [o]) =
        (let st := codeFadingRun δ h; let r := Detect.fadingCall (o.dim : Int) o.q δ st.1 st.2.1 st.2.2; (r.1, r.2.1, r.2.2.1)) := by
      simp [codeFadingRun]
    rw [hs, ih, fadingState_snoc]
    have hδ := (fading_state δ h).1
    have e := fadingCall_eq (fadingState δ h) o
    rw [hδ] at e
    simp only [e]

/-- **the fading statistic, about the translated code** -/
theorem code_fading_metric (δ : Rat) (h : List Obs) (o : Obs) :
    (Detect.fadingCall (o.dim : Int) o.q δ (codeFadingRun δ h).1 (codeFadingRun δ h).2.1 (codeFadingRun δ h).2.2).2.2.2.1
      = (1 + δ) * fadedSum δ ((h ++ [o]).reverse.map (·.q)) := by
  rw [codeFadingRun_eq]
  have hδ := (fading_state δ h).1
  have e := fadingCall_eq (fadingState δ h) o
  rw [hδ] at e
  simp only [e]
  exact (fading_metric δ h o).1

/-- the standard detector and the decision, about the translated code: a maneuver is declared iff the statistic reaches the bound -/
theorem code_standard_detects_iff (isf : Rat → Rat → Rat) (α : Rat) (o : Obs) :
    (!(Detect.oneSidedChiSquareTest (Detect.standardCall (o.dim : Int) o.q).1 α (((Detect.standardCall (o.dim : Int) o.q).2 : Int) : Rat) 1 isf)) = true
      ↔ isf α (o.dim : Rat) ≤ o.q := by
  rw [oneSided_eq]
  simp [Detect.standardCall, not_lt]

example : codeSlidingRun 2 [⟨1, 2⟩, ⟨2, 3⟩, ⟨4, 1⟩] = ([2, 4], [3, 1]) := by decide +kernel

end RV.Bridge.DetectProps
