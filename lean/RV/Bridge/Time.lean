/-
Bridge: the definitions `harness/py2lean.py` generates from `resonaate/physics/time/stardate.py` on every run are
the hand-written model `RV.Model.Time` that the C05 / C01 / C11 theorems are about.

* `getJulianDate`, the `JulianDate`/`ScenarioTime` arithmetic and the two scenario-time conversions: equal outright.
* `days2mdh`, `getCalendarDate`: the Python keeps integer-valued quantities (year, leap years, day of month) in
  binary64 and the model keeps them in `Int`; they are equal wherever those integers are below 4e9 in size, which
  is stated as hypotheses on the two floors the code takes (`tempU.floor`, `doy.floor`), and discharged for a
  concrete Julian date in the non-vacuity example.
An edit of one of these functions changes the generated term; these theorems then no longer check.
-/
import RV.Generated.Stardate
import RV.Model.Time
import RV.Proofs.F64
import RV.Proofs.Time
namespace RV.Bridge.Time
open RV.Generated RV.Py RV.F64 RV.Proofs.F64 RV.Proofs.Time RV.Time

theorem lit_jd0 : ((3442027 : Rat) / 2) = 17210135 / 10 := by decide +kernel
theorem lit_1900 : ((4830039 : Rat) / 2) = 24150195 / 10 := by decide +kernel
theorem lit_year : ((1461 : Rat) / 4) = 36525 / 100 := by decide +kernel

/-- `JulianDate.getJulianDate` -/
theorem getJulianDate_eq (y mo d h mi : Int) (sec : Rat) :
    Stardate.getJulianDate y mo d h mi sec = RV.Time.getJulianDate y mo d h mi sec := by
  unfold Stardate.getJulianDate RV.Time.getJulianDate
  simp only [lit_jd0]
  split <;> simp_all

/-- the guards of `getJulianDate` accept every civil instant with month 1-12, day 1-31, hour 0-24, minute 0-60 and
second 0-60 - in particular every `ValidCivil` one -/
theorem getJulianDate_accepts_valid (y mo d h mi : Int) (sec : Rat) (h1 : 1 ≤ mo ∧ mo ≤ 12) (h2 : 1 ≤ d ∧ d ≤ 31)
    (h3 : 0 ≤ h ∧ h ≤ 24) (h4 : 0 ≤ mi ∧ mi ≤ 60) (h5 : 0 ≤ sec ∧ sec ≤ 60) :
    Stardate.getJulianDate_accepts y mo d h mi sec = true := by
  have a3 : (0 : Rat) ≤ (h : Rat) ∧ (h : Rat) ≤ 24 := ⟨by exact_mod_cast h3.1, by exact_mod_cast h3.2⟩
  have a4 : (0 : Rat) ≤ (mi : Rat) ∧ (mi : Rat) ≤ 60 := ⟨by exact_mod_cast h4.1, by exact_mod_cast h4.2⟩
  simp only [Stardate.getJulianDate_accepts, Bool.and_eq_true, decide_eq_true_eq, not_or, not_lt, gt_iff_lt]
  exact ⟨⟨⟨⟨⟨h1.2, h1.1⟩, ⟨h2.2, h2.1⟩⟩, ⟨a3.2, a3.1⟩⟩, ⟨a4.2, a4.1⟩⟩, ⟨h5.2, h5.1⟩⟩

/-- `JulianDate.convertToScenarioTime` (through the translated `JulianDate.__sub__`) -/
theorem convertToScenarioTime_eq (jd jd0 : Rat) : Stardate.convertToScenarioTime jd jd0 = RV.Time.toScenario jd jd0 := rfl

theorem day_seconds : fmul 24 3600 = 86400 := by decide +kernel

/-- `ScenarioTime.convertToJulianDate` (through the translated `ScenarioTime.__mul__` and `JulianDate.__add__`) -/
theorem convertToJulianDate_eq (t jd0 : Rat) : Stardate.convertToJulianDate t jd0 = RV.Time.toJD jd0 t := by
  unfold Stardate.convertToJulianDate RV.Time.toJD Stardate.jdAdd Stardate.stMul
  rw [day_seconds]; norm_num

/-- integers below 4e9 in size: binary64 holds them exactly -/
def Small (n : Int) : Prop := -4000000000 ≤ n ∧ n ≤ 4000000000

theorem rnI (n : Int) (h : Small n) : rn (n : Rat) = n := rn_intB n h.1 h.2

/-- the month table `days2mdh` builds (with its February store) -/
def days (leap : Bool) : List Int :=
  if leap then pySet [31, 28, 31, 30, 31, 30, 31, 31, 30, 31, 30, 31] 1 29 else [31, 28, 31, 30, 31, 30, 31, 31, 30, 31, 30, 31]

theorem days_get (leap : Bool) (item : Int) (h1 : 1 ≤ item) (h2 : item ≤ 12) :
    pyGet (days leap) (item - 1) = monthLenT leap item := by
  interval_cases item <;> cases leap <;> rfl

theorem monthLen_bounds (leap : Bool) (m : Int) : 0 ≤ monthLenT leap m ∧ monthLenT leap m ≤ 31 := by
  unfold monthLenT; split <;> [split; split] <;> omega

theorem loop_eq (leap : Bool) (D : Int) : ∀ (fuel : Nat) (item acc : Int), 1 ≤ item → item ≤ 12 →
    Stardate.days2mdh_loop1 (D : Rat) (days leap) fuel acc item =
      ((monthLoop leap D fuel item acc).2, (monthLoop leap D fuel item acc).1) := by
  intro fuel
  induction fuel with
  | zero => intro item acc _ _; rfl
  | succ n ih =>
    intro item acc h1 h2
    unfold Stardate.days2mdh_loop1 monthLoop
    rw [days_get leap item h1 h2]
    have hc : ((D : Rat) > ((acc + monthLenT leap item : Int) : Rat) ∧ item < 12) ↔ (D > acc + monthLenT leap item ∧ item < 12) := by
      constructor
      · rintro ⟨a, b⟩; exact ⟨by exact_mod_cast a, b⟩
      · rintro ⟨a, b⟩; exact ⟨by exact_mod_cast a, b⟩
    by_cases hx : (D > acc + monthLenT leap item ∧ item < 12)
    · rw [if_pos (hc.mpr hx), if_pos hx]
      exact ih (item + 1) (acc + monthLenT leap item) (by omega) (by omega)
    · rw [if_neg (fun h => hx (hc.mp h)), if_neg hx]

theorem monthLoop_acc (leap : Bool) (D : Int) : ∀ (fuel : Nat) (item acc : Int),
    acc ≤ (monthLoop leap D fuel item acc).2 ∧ (monthLoop leap D fuel item acc).2 ≤ acc + 31 * fuel := by
  intro fuel
  induction fuel with
  | zero => intro item acc; simp [monthLoop]
  | succ n ih =>
    intro item acc
    unfold monthLoop
    have hb := monthLen_bounds leap item
    split
    · have := ih (item + 1) (acc + monthLenT leap item); push_cast; omega
    · simp; omega

theorem leap_test (n : Int) (h : Small n) (y : Rat) (hy : y = (n : Rat) + 1900) :
    (pyRemainder (fsub y 1900) 4 = 0) ↔ (n % 4 == 0) = true := by
  have e1 : fsub y 1900 = (n : Rat) := by
    unfold fsub; rw [hy]; have : (n : Rat) + 1900 - 1900 = (n : Rat) := by ring
    rw [this]; exact rnI n h
  rw [e1]; unfold pyRemainder
  have := floor_int_div n 4
  simp only [Nat.cast_ofNat] at this
  rw [this]
  have hm := Int.emod_def n 4
  simp only [beq_iff_eq]
  constructor
  · intro h0
    have : ((n - 4 * (n / 4) : Int) : Rat) = 0 := by push_cast; linarith
    have : n - 4 * (n / 4) = 0 := by exact_mod_cast this
    omega
  · intro h0
    have : n - 4 * (n / 4) = 0 := by omega
    have : ((n - 4 * (n / 4) : Int) : Rat) = 0 := by exact_mod_cast this
    push_cast at this; linarith

/-- `days2mdh(year, day_of_year)` with the year held in binary64 -/
theorem days2mdh_eq (y : Int) (doy : Rat) (hy : Small (y - 1900))
    (hd : -3000000000 ≤ doy.floor ∧ doy.floor ≤ 3000000000) :
    Stardate.days2mdh (y : Rat) doy =
      ((RV.Time.days2mdh y doy).1, (((RV.Time.days2mdh y doy).2.1 : Int) : Rat), (RV.Time.days2mdh y doy).2.2.1,
        (RV.Time.days2mdh y doy).2.2.2.1, (RV.Time.days2mdh y doy).2.2.2.2) := by
  have hl := leap_test (y - 1900) hy (y : Rat) (by push_cast; ring)
  unfold Stardate.days2mdh RV.Time.days2mdh
  have hdays : (if pyRemainder (fsub (y : Rat) 1900) 4 = 0 then pySet [31, 28, 31, 30, 31, 30, 31, 31, 30, 31, 30, 31] 1 29
      else ([31, 28, 31, 30, 31, 30, 31, 31, 30, 31, 30, 31] : List Int)) = days ((y - 1900) % 4 == 0) := by
    unfold days
    by_cases hb : ((y - 1900) % 4 == 0) = true
    · rw [if_pos (hl.mpr hb), if_pos hb]
    · rw [if_neg (fun h => hb (hl.mp h)), if_neg hb]
  simp only [hdays, ffloor]
  rw [loop_eq _ doy.floor 12 1 0 (by norm_num) (by norm_num)]
  have hacc := monthLoop_acc ((y - 1900) % 4 == 0) doy.floor 12 1 0
  have hday : fsub (doy.floor : Rat) (((monthLoop ((y - 1900) % 4 == 0) doy.floor 12 1 0).2 : Int) : Rat) =
      ((doy.floor - (monthLoop ((y - 1900) % 4 == 0) doy.floor 12 1 0).2 : Int) : Rat) := by
    unfold fsub; rw [← Int.cast_sub]; exact rnI _ ⟨by omega, by omega⟩
  simp only [hday]

theorem ftrunc_int (n : Int) : ftrunc (n : Rat) = n := by
  unfold ftrunc
  split
  · exact floor_intCast n
  · have : (-(n : Rat)) = ((-n : Int) : Rat) := by push_cast; ring
    rw [this, floor_intCast]; omega

theorem pow2_m2 : pow2 (-2) = 1 / 4 := by decide +kernel

theorem quarter_exact (k : Int) (h : Small k) : fmul (k : Rat) (1 / 4) = (k : Rat) / 4 := by
  unfold fmul
  have e : (k : Rat) * (1 / 4) = (k : Rat) * pow2 (-2) := by rw [pow2_m2]
  rw [show (k : Rat) / 4 = (k : Rat) * (1 / 4) by ring]
  apply rn_exact _ (-2) k e
  have : pow2 53 = 9007199254740992 := pow2_more.1
  rw [this, abs_lt]
  constructor
  · have : (-4000000000 : Rat) ≤ (k : Rat) := by exact_mod_cast h.1
    linarith
  · have : (k : Rat) ≤ 4000000000 := by exact_mod_cast h.2
    linarith

/-- the day-of-year expression of `getCalendarDate`, with the year held in binary64, is the model's `doyOfY` -/
theorem gen_doy (tv : Rat) (Y : Int) (hY : -1000000 ≤ Y - 1900 ∧ Y - 1900 ≤ 1000000) :
    fsub tv (fadd (fmul (fsub (Y : Rat) 1900) 365) (ffloor (fmul (fsub (Y : Rat) 1901) (1 / 4)))) = doyOfY tv Y := by
  have e0 : fsub (Y : Rat) 1900 = ((Y - 1900 : Int) : Rat) := by
    unfold fsub; rw [show (Y : Rat) - 1900 = ((Y - 1900 : Int) : Rat) by push_cast; ring]
    exact rnI _ ⟨by omega, by omega⟩
  have e1 : fsub (Y : Rat) 1901 = (Y : Rat) - 1901 := by
    unfold fsub; rw [show (Y : Rat) - 1901 = ((Y - 1901 : Int) : Rat) by push_cast; ring]
    exact rnI _ ⟨by omega, by omega⟩
  have e2 : fmul ((Y - 1900 : Int) : Rat) 365 = (((Y - 1900) * 365 : Int) : Rat) := by
    unfold fmul; rw [show ((Y - 1900 : Int) : Rat) * 365 = (((Y - 1900) * 365 : Int) : Rat) by push_cast; ring]
    exact rnI _ ⟨by omega, by omega⟩
  have e3 : fmul ((Y : Rat) - 1901) (1 / 4) = ((Y - 1901 : Int) : Rat) / 4 := by
    rw [show (Y : Rat) - 1901 = ((Y - 1901 : Int) : Rat) by push_cast; ring]
    exact quarter_exact _ ⟨by omega, by omega⟩
  have e4 : (((Y - 1901 : Int) : Rat) / 4).floor = (Y - 1901) / 4 := by
    have := floor_int_div (Y - 1901) 4
    simpa using this
  unfold doyOfY
  rw [e0, e1, e2]
  congr 1
  unfold ffloor fadd
  rw [e3, e4, ← Int.cast_add]
  exact rnI _ ⟨by omega, by omega⟩

/-- `getCalendarDate(julian_date)`: the translated function, which keeps the year, the leap-year count and the day of
the month in binary64 as the Python does, returns the model's calendar fields -/
theorem getCalendarDate_eq (jd : Rat)
    (hF : -999999 ≤ (fdiv (fsub jd (24150195 / 10)) (36525 / 100)).floor ∧ (fdiv (fsub jd (24150195 / 10)) (36525 / 100)).floor ≤ 999999)
    (hD : ∀ Y : Int, (Y = 1900 + (fdiv (fsub jd (24150195 / 10)) (36525 / 100)).floor ∨
        Y = 1900 + (fdiv (fsub jd (24150195 / 10)) (36525 / 100)).floor - 1) →
      -3000000000 ≤ (doyOfY (fsub jd (24150195 / 10)) Y).floor ∧ (doyOfY (fsub jd (24150195 / 10)) Y).floor ≤ 3000000000) :
    Stardate.getCalendarDate jd =
      ((RV.Time.getCalendarDate jd).y, (RV.Time.getCalendarDate jd).mo, (RV.Time.getCalendarDate jd).d,
        (RV.Time.getCalendarDate jd).h, (RV.Time.getCalendarDate jd).mi, (RV.Time.getCalendarDate jd).sec) := by
  rw [RV.Proofs.Time.getCalendarDate_eq]
  unfold Stardate.getCalendarDate
  simp only [lit_1900, lit_year]
  generalize htv : fsub jd (24150195 / 10) = tv at hF hD ⊢
  generalize hFF : (fdiv tv (36525 / 100)).floor = F at hF hD
  have ey : fadd 1900 (ffloor (fdiv tv (36525 / 100))) = ((1900 + F : Int) : Rat) := by
    unfold fadd ffloor; rw [hFF, show (1900 : Rat) + (F : Rat) = ((1900 + F : Int) : Rat) by push_cast; ring]
    exact rnI _ ⟨by omega, by omega⟩
  have ey1 : fsub ((1900 + F : Int) : Rat) 1 = ((1900 + F - 1 : Int) : Rat) := by
    unfold fsub; rw [show ((1900 + F : Int) : Rat) - 1 = ((1900 + F - 1 : Int) : Rat) by push_cast; ring]
    exact rnI _ ⟨by omega, by omega⟩
  simp only [ey, ey1]
  rw [gen_doy tv (1900 + F) ⟨by omega, by omega⟩, gen_doy tv (1900 + F - 1) ⟨by omega, by omega⟩]
  have hyo : yearOf tv = if doyOfY tv (1900 + F) < 1 then 1900 + F - 1 else 1900 + F := by
    unfold yearOf; simp only [hFF]
  by_cases hc : doyOfY tv (1900 + F) < 1
  · rw [if_pos hc] at hyo
    simp only [if_pos hc, hyo]
    rw [days2mdh_eq (1900 + F - 1) _ ⟨by omega, by omega⟩ (hD _ (Or.inr rfl))]
    simp only [ftrunc_int]
  · rw [if_neg hc] at hyo
    simp only [if_neg hc, hyo]
    rw [days2mdh_eq (1900 + F) _ ⟨by omega, by omega⟩ (hD _ (Or.inl rfl))]
    simp only [ftrunc_int]


/-- non-vacuity: the hypotheses of `getCalendarDate_eq` hold at the Julian date of 2021-03-30T16:00:01 (the instant of
the C05 witness), and the translated function returns that calendar date there -/
theorem getCalendarDate_witness :
    (Stardate.getCalendarDate (Stardate.getJulianDate 2021 3 30 16 0 1)).1 = 2021 ∧
    (Stardate.getCalendarDate (Stardate.getJulianDate 2021 3 30 16 0 1)).2.1 = 3 ∧
    (Stardate.getCalendarDate (Stardate.getJulianDate 2021 3 30 16 0 1)).2.2.1 = 30 := by
  decide +kernel

example : let jd := RV.Time.getJulianDate 2021 3 30 16 0 1
    (-999999 ≤ (fdiv (fsub jd (24150195 / 10)) (36525 / 100)).floor ∧ (fdiv (fsub jd (24150195 / 10)) (36525 / 100)).floor ≤ 999999) ∧
    (∀ Y : Int, (Y = 1900 + (fdiv (fsub jd (24150195 / 10)) (36525 / 100)).floor ∨
        Y = 1900 + (fdiv (fsub jd (24150195 / 10)) (36525 / 100)).floor - 1) →
      -3000000000 ≤ (doyOfY (fsub jd (24150195 / 10)) Y).floor ∧ (doyOfY (fsub jd (24150195 / 10)) Y).floor ≤ 3000000000) := by
  refine ⟨by decide +kernel, ?_⟩
  intro Y h
  rcases h with rfl | rfl <;> decide +kernel

end RV.Bridge.Time
