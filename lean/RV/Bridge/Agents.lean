/-
Bridge: `Agent.prunePropagateEvents`, translated from `resonaate/agents/agent_base.py` on every run
(`RV.Generated.Agents`), is the prune rule of the C01 queue model (`RV.Events.prune .strict`) on impulses, and keeps an
event with a duration exactly while the agent's time is before its end (and not within rounding of it), once.
The loop (`for ... continue ... append`) is translated as a left fold over the queue.
-/
import RV.Generated.Agents
import RV.Model.Events
namespace RV.Bridge.Agents
open RV.Generated RV.Py

/-- the events `prunePropagateEvents` keeps -/
def keep (now : Rat) (e : Ev) : Bool :=
  if e.isBurn then decide (now < e.end_time) && !(Maths.fpe_equals e.end_time now) else decide (now < e.time)

/-- one pass of the loop body -/
def step (now : Rat) (acc : List Ev) (e : Ev) : List Ev :=
  if keep now e then (if e.isBurn && acc.contains e then acc else acc ++ [e]) else acc

theorem prune_is_fold (now : Rat) (q : List Ev) : Agents.prunePropagateEvents now q = q.foldl (step now) [] := by
  unfold Agents.prunePropagateEvents
  show List.foldl _ [] q = _
  congr 1
  funext acc e
  unfold step keep
  cases hb : e.isBurn <;> simp only [hb, Bool.false_eq_true, if_false, if_true, Bool.true_and, Bool.false_and]
  · by_cases h : now < e.time <;> simp [h]
  · by_cases h1 : now < e.end_time <;> by_cases h2 : Maths.fpe_equals e.end_time now = true <;>
      by_cases h3 : acc.contains e = true <;> simp [h1, h2, h3]

theorem mem_fold (now : Rat) : ∀ (q acc : List Ev) (x : Ev),
    x ∈ q.foldl (step now) acc ↔ x ∈ acc ∨ (x ∈ q ∧ keep now x = true) := by
  intro q
  induction q with
  | nil => intro acc x; simp
  | cons e q ih =>
    intro acc x
    rw [List.foldl_cons, ih]
    unfold step
    by_cases hk : keep now e = true
    · by_cases hc : (e.isBurn && acc.contains e) = true
      · simp only [hk, hc, if_true]
        have he : e ∈ acc := by
          have := (Bool.and_eq_true _ _).mp hc
          exact List.contains_iff_mem.mp this.2
        constructor
        · rintro (h | ⟨h, k⟩)
          · exact Or.inl h
          · exact Or.inr ⟨List.mem_cons_of_mem _ h, k⟩
        · rintro (h | ⟨h, k⟩)
          · exact Or.inl h
          · rcases List.mem_cons.mp h with rfl | h'
            · exact Or.inl he
            · exact Or.inr ⟨h', k⟩
      · simp only [hk, hc, if_true, Bool.false_eq_true, if_false, List.mem_append, List.mem_singleton]
        constructor
        · rintro ((h | rfl) | ⟨h, k⟩)
          · exact Or.inl h
          · exact Or.inr ⟨List.mem_cons_self, hk⟩
          · exact Or.inr ⟨List.mem_cons_of_mem _ h, k⟩
        · rintro (h | ⟨h, k⟩)
          · exact Or.inl (Or.inl h)
          · rcases List.mem_cons.mp h with rfl | h'
            · exact Or.inl (Or.inr rfl)
            · exact Or.inr ⟨h', k⟩
    · simp only [hk, Bool.false_eq_true, if_false]
      constructor
      · rintro (h | ⟨h, k⟩)
        · exact Or.inl h
        · exact Or.inr ⟨List.mem_cons_of_mem _ h, k⟩
      · rintro (h | ⟨h, k⟩)
        · exact Or.inl h
        · rcases List.mem_cons.mp h with rfl | h'
          · exact absurd k hk
          · exact Or.inr ⟨h', k⟩

/-- **what survives a prune**: exactly the queued events that are still ahead - an impulse strictly after the agent's
time, an event with a duration while the agent's time is before its end and not within rounding of it -/
theorem prune_mem (now : Rat) (q : List Ev) (x : Ev) :
    x ∈ Agents.prunePropagateEvents now q ↔ x ∈ q ∧ keep now x = true := by
  rw [prune_is_fold, mem_fold]; simp

theorem fold_impulses (now : Rat) : ∀ (q acc : List Ev), (∀ e ∈ q, e.isBurn = false) →
    q.foldl (step now) acc = acc ++ q.filter (fun e => decide (now < e.time)) := by
  intro q
  induction q with
  | nil => intro acc _; simp
  | cons e q ih =>
    intro acc h
    have he : e.isBurn = false := h e List.mem_cons_self
    rw [List.foldl_cons, ih _ (fun x hx => h x (List.mem_cons_of_mem _ hx))]
    unfold step keep
    by_cases hk : now < e.time <;> simp [he, hk]

def toImp (e : Ev) : RV.Events.Imp := ⟨e.id, e.time⟩

/-- on a queue of impulses the translated code is the C01 model's repaired prune rule, order included -/
theorem prune_impulses (now : Rat) (q : List Ev) (h : ∀ e ∈ q, e.isBurn = false) :
    (Agents.prunePropagateEvents now q).map toImp = RV.Events.prune .strict now (q.map toImp) := by
  rw [prune_is_fold, fold_impulses now q [] h]
  unfold RV.Events.prune
  have hs : (RV.Events.PruneRule.strict == RV.Events.PruneRule.keepIfEqual) = false := by decide
  simp [List.filter_map, toImp, Function.comp_def, hs]
  rfl

/-- non-vacuity: an impulse exactly at the agent's time is dropped (it was applied in the step that ended there), a later
one is kept, a burn is kept until its end and only once -/
example : Agents.prunePropagateEvents 120
    [⟨1, false, 120, 0, 0⟩, ⟨2, false, 180, 0, 0⟩, ⟨3, true, 0, 60, 200⟩, ⟨3, true, 0, 60, 200⟩, ⟨4, true, 0, 60, 120⟩] =
    [⟨2, false, 180, 0, 0⟩, ⟨3, true, 0, 60, 200⟩] := by decide +kernel

end RV.Bridge.Agents
