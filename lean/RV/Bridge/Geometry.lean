/-
Bridge: `lineOfSight` (`resonaate/physics/sensor_utils.py`) and `RectangularFoV.inFieldOfView`
(`resonaate/sensors/field_of_view.py`), translated on every run (`RV.Generated.Geometry`), are the predicates of the C14
model.  The vector primitives (`dot`, `norm(.)**2`, `getAzimuth`, `getElevation`) enter as parameters: what is proved is the
decision built on them (the `tau` test and the closest-approach comparison; the wrapped azimuth difference and the two
half-angle comparisons), which is where the C14 theorems start from.
-/
import RV.Generated.Geometry
import RV.Model.Visibility
import RV.Bridge.Maths
import Mathlib.Tactic.Linarith
namespace RV.Bridge.Geometry
open RV.Generated RV.Py RV.Visibility

/-- `lineOfSight(r1, r2)` on the vector's inner products is the model's Vallado test -/
theorem lineOfSight_eq (R2 : Rat) (r1 r2 : RV.V3) :
    Geometry.lineOfSight (r1.dot r2) r1.nsq r2.nsq R2 = RV.Visibility.lineOfSight R2 r1 r2 := by
  unfold Geometry.lineOfSight RV.Visibility.lineOfSight
  simp only []
  split <;> simp_all

/-- `RectangularFoV.inFieldOfView` on the azimuths/elevations the code computes is the model's `rectIn` at the code's own
`PI`/`TWOPI` and half the configured full angles -/
theorem rectInFieldOfView_eq (azP elP azB elB azFull elFull : Rat) :
    Geometry.rectInFieldOfView azP elP azB elB azFull elFull = rectIn PI TWOPI (azFull / 2) (elFull / 2) azP elP azB elB := by
  unfold Geometry.rectInFieldOfView rectIn
  simp only [RV.Bridge.Maths.wrapAngleNegPiPi_eq]
  have h : ∀ x : Rat, pyAbs x = RV.Angles.absQ x := fun _ => rfl
  simp only [h]
  by_cases h1 : RV.Angles.absQ (RV.Angles.wrapNegPiPi PI TWOPI (azP - azB)) ≤ azFull / 2 <;>
    by_cases h2 : RV.Angles.absQ (elP - elB) ≤ elFull / 2 <;> simp [h1, h2]

/-- `ConicFoV.inFieldOfView` on the separation angle the code computes: inside iff the angle is at most HALF the configured cone -/
theorem conicInFieldOfView_eq (angle cone : Rat) : Geometry.conicInFieldOfView angle cone = decide (angle ≤ cone / 2) := rfl

/-- the boresight itself (separation 0) is inside every cone; a wider cone admits whatever a narrower one admits -/
theorem conic_reflexive (cone : Rat) (h : 0 ≤ cone) : Geometry.conicInFieldOfView 0 cone = true := by
  rw [conicInFieldOfView_eq]; simp only [decide_eq_true_eq]; linarith

theorem conic_mono (angle c1 c2 : Rat) (h : c1 ≤ c2) (h1 : Geometry.conicInFieldOfView angle c1 = true) :
    Geometry.conicInFieldOfView angle c2 = true := by
  rw [conicInFieldOfView_eq] at *; simp only [decide_eq_true_eq] at *; linarith

/-- `Sensor.canSlew`: the target is reachable iff the mount, turning at its slew rate since it was last tasked, covers the angular
distance to it -/
theorem canSlew_eq (rate now last delta : Rat) : Geometry.canSlew rate now last delta = decide (delta ≤ rate * (now - last)) := rfl

/-- waiting longer never makes a reachable target unreachable (non-negative slew rate) -/
theorem canSlew_mono_time (rate now now' last delta : Rat) (hr : 0 ≤ rate) (ht : now ≤ now')
    (h : Geometry.canSlew rate now last delta = true) : Geometry.canSlew rate now' last delta = true := by
  rw [canSlew_eq] at *; simp only [decide_eq_true_eq] at *
  have : rate * (now - last) ≤ rate * (now' - last) := mul_le_mul_of_nonneg_left (by linarith) hr
  linarith

/-- a target further than the budget is not reachable: rate 0.05 rad/s for 60 s covers 3 rad, not 3.1 -/
example : Geometry.canSlew (1 / 20) 120 60 3 = true ∧ Geometry.canSlew (1 / 20) 120 60 (31 / 10) = false := by decide +kernel

/-- non-vacuity: a satellite straight above a site is visible from it; the antipodal pair is not -/
example : Geometry.lineOfSight (6378 * 7000) (6378 * 6378) (7000 * 7000) (6378 * 6378) = true ∧
    Geometry.lineOfSight (-(7000 * 7000)) (7000 * 7000) (7000 * 7000) (6378 * 6378) = false := by decide +kernel

end RV.Bridge.Geometry
