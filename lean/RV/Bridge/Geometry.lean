/-
Bridge: `lineOfSight` (`resonaate/physics/sensor_utils.py`) and `RectangularFoV.inFieldOfView`
(`resonaate/sensors/field_of_view.py`), translated on every run (`RV.Generated.Geometry`), are the predicates of the C14
model.  The vector primitives (`dot`, `norm(.)**2`, `getAzimuth`, `getElevation`) enter as parameters: what is proved is the
decision built on them (the `tau` test and the closest-approach comparison; the wrapped azimuth difference and the two
half-angle comparisons), which is where the C14 theorems start from.
-/
import RV.Generated.Geometry
import RV.Model.Visibility
import RV.Bridge.Maths
import Mathlib.Tactic.Linarith
namespace RV.Bridge.Geometry
open RV.Generated RV.Py RV.Visibility

/-- `lineOfSight(r1, r2)` on the vector's inner products is the model's Vallado test -/
theorem lineOfSight_eq (R2 : Rat) (r1 r2 : RV.V3) :
    Geometry.lineOfSight (r1.dot r2) r1.nsq r2.nsq R2 = RV.Visibility.lineOfSight R2 r1 r2 := by
  unfold Geometry.lineOfSight RV.Visibility.lineOfSight
  simp only []
  split <;> simp_all

/-- `RectangularFoV.inFieldOfView` on the azimuths/elevations the code computes is the model's `rectIn` at the code's own
`PI`/`TWOPI` and half the configured full angles -/
theorem rectInFieldOfView_eq (azP elP azB elB azFull elFull : Rat) :
    Geometry.rectInFieldOfView azP elP azB elB azFull elFull = rectIn PI TWOPI (azFull / 2) (elFull / 2) azP elP azB elB := by
  unfold Geometry.rectInFieldOfView rectIn
  simp only [RV.Bridge.Maths.wrapAngleNegPiPi_eq]
  have h : ∀ x : Rat, pyAbs x = RV.Angles.absQ x := fun _ => rfl
  simp only [h]
  by_cases h1 : RV.Angles.absQ (RV.Angles.wrapNegPiPi PI TWOPI (azP - azB)) ≤ azFull / 2 <;>
    by_cases h2 : RV.Angles.absQ (elP - elB) ≤ elFull / 2 <;> simp [h1, h2]

/-- `ConicFoV.inFieldOfView` on the separation angle the code computes: inside iff the angle is at most HALF the configured cone -/
theorem conicInFieldOfView_eq (angle cone : Rat) : Geometry.conicInFieldOfView angle cone = decide (angle ≤ cone / 2) := rfl

/-- the boresight itself (separation 0) is inside every cone; a wider cone admits whatever a narrower one admits -/
theorem conic_reflexive (cone : Rat) (h : 0 ≤ cone) : Geometry.conicInFieldOfView 0 cone = true := by
  rw [conicInFieldOfView_eq]; simp only [decide_eq_true_eq]; linarith

theorem conic_mono (angle c1 c2 : Rat) (h : c1 ≤ c2) (h1 : Geometry.conicInFieldOfView angle c1 = true) :
    Geometry.conicInFieldOfView angle c2 = true := by
  rw [conicInFieldOfView_eq] at *; simp only [decide_eq_true_eq] at *; linarith

/-- `Sensor.canSlew`: the target is reachable iff the mount, turning at its slew rate since it was last tasked, covers the angular
distance to it -/
theorem canSlew_eq (rate now last delta : Rat) : Geometry.canSlew rate now last delta = decide (delta ≤ rate * (now - last)) := rfl

/-- waiting longer never makes a reachable target unreachable (non-negative slew rate) -/
theorem canSlew_mono_time (rate now now' last delta : Rat) (hr : 0 ≤ rate) (ht : now ≤ now')
    (h : Geometry.canSlew rate now last delta = true) : Geometry.canSlew rate now' last delta = true := by
  rw [canSlew_eq] at *; simp only [decide_eq_true_eq] at *
  have : rate * (now - last) ≤ rate * (now' - last) := mul_le_mul_of_nonneg_left (by linarith) hr
  linarith

/-- a target further than the budget is not reachable: rate 0.05 rad/s for 60 s covers 3 rad, not 3.1 -/
example : Geometry.canSlew (1 / 20) 120 60 3 = true ∧ Geometry.canSlew (1 / 20) 120 60 (31 / 10) = false := by decide +kernel

/-- `calculateSunVizFraction` on the three angles (`a` Sun's, `b` Earth's apparent radius, `c` their separation) and the two distances it
compares: which value it returns is decided by the model's `sunBranch`; 1 on the sunward side, 0 in full occultation, 1 without overlap -/
theorem sunVizFraction_branch (a b c ds dss : Rat) (sq ac : Rat → Rat) :
    (sunBranch a b c ds dss = 0 → Geometry.sunVizFraction a b c ds dss sq ac = 1) ∧
    (sunBranch a b c ds dss = 1 → Geometry.sunVizFraction a b c ds dss sq ac = 0) ∧
    (sunBranch a b c ds dss = 3 → Geometry.sunVizFraction a b c ds dss sq ac = 1) := by
  unfold sunBranch Geometry.sunVizFraction
  have h : ∀ x : Rat, pyAbs x = RV.Angles.absQ x := fun _ => rfl
  simp only [h]
  by_cases h1 : ds ≥ dss <;> by_cases h2 : c < RV.Angles.absQ (b - a) <;> by_cases h3 : c < RV.Angles.absQ (a + b) <;> simp [h1, h2, h3]

/-- deep in the umbra (the Sun further than the satellite-Sun distance is not the case, and the separation is below the difference of the
apparent radii) the fraction is exactly 0 - whatever `sqrt` and `arccos` are -/
theorem sunVizFraction_umbra (a b c ds dss : Rat) (sq ac : Rat → Rat) (h : ds < dss) (hc : c < RV.Angles.absQ (b - a)) :
    Geometry.sunVizFraction a b c ds dss sq ac = 0 := by
  have hb : sunBranch a b c ds dss = 1 := by simp [sunBranch, not_le.mpr h, hc]
  exact (sunVizFraction_branch a b c ds dss sq ac).2.1 hb

theorem sunVizFraction_sunward (a b c ds dss : Rat) (sq ac : Rat → Rat) (h : dss ≤ ds) :
    Geometry.sunVizFraction a b c ds dss sq ac = 1 := by
  have hb : sunBranch a b c ds dss = 0 := by simp [sunBranch, h]
  exact (sunVizFraction_branch a b c ds dss sq ac).1 hb

/-- on the Earth-Sun line behind the Earth the separation is 0: full occultation as soon as the Earth looks bigger than the Sun -/
example : Geometry.sunVizFraction (1 / 200) (1 / 2) 0 150000000 150007000 id id = 0 := by decide +kernel

/-- non-vacuity: a satellite straight above a site is visible from it; the antipodal pair is not -/
example : Geometry.lineOfSight (6378 * 7000) (6378 * 6378) (7000 * 7000) (6378 * 6378) = true ∧
    Geometry.lineOfSight (-(7000 * 7000)) (7000 * 7000) (7000 * 7000) (6378 * 6378) = false := by decide +kernel

end RV.Bridge.Geometry
