/-
Bridge: `lineOfSight` (`resonaate/physics/sensor_utils.py`) and `RectangularFoV.inFieldOfView`
(`resonaate/sensors/field_of_view.py`), translated on every run (`RV.Generated.Geometry`), are the predicates of the C14
model.  The vector primitives (`dot`, `norm(.)**2`, `getAzimuth`, `getElevation`) enter as parameters: what is proved is the
decision built on them (the `tau` test and the closest-approach comparison; the wrapped azimuth difference and the two
half-angle comparisons), which is where the C14 theorems start from.
-/
import RV.Generated.Geometry
import RV.Model.Visibility
import RV.Bridge.Maths
namespace RV.Bridge.Geometry
open RV.Generated RV.Py RV.Visibility

/-- `lineOfSight(r1, r2)` on the vector's inner products is the model's Vallado test -/
theorem lineOfSight_eq (R2 : Rat) (r1 r2 : RV.V3) :
    Geometry.lineOfSight (r1.dot r2) r1.nsq r2.nsq R2 = RV.Visibility.lineOfSight R2 r1 r2 := by
  unfold Geometry.lineOfSight RV.Visibility.lineOfSight
  simp only []
  split <;> simp_all

/-- `RectangularFoV.inFieldOfView` on the azimuths/elevations the code computes is the model's `rectIn` at the code's own
`PI`/`TWOPI` and half the configured full angles -/
theorem rectInFieldOfView_eq (azP elP azB elB azFull elFull : Rat) :
    Geometry.rectInFieldOfView azP elP azB elB azFull elFull = rectIn PI TWOPI (azFull / 2) (elFull / 2) azP elP azB elB := by
  unfold Geometry.rectInFieldOfView rectIn
  simp only [RV.Bridge.Maths.wrapAngleNegPiPi_eq]
  have h : ∀ x : Rat, pyAbs x = RV.Angles.absQ x := fun _ => rfl
  simp only [h]
  by_cases h1 : RV.Angles.absQ (RV.Angles.wrapNegPiPi PI TWOPI (azP - azB)) ≤ azFull / 2 <;>
    by_cases h2 : RV.Angles.absQ (elP - elB) ≤ elFull / 2 <;> simp [h1, h2]

/-- non-vacuity: a satellite straight above a site is visible from it; the antipodal pair is not -/
example : Geometry.lineOfSight (6378 * 7000) (6378 * 6378) (7000 * 7000) (6378 * 6378) = true ∧
    Geometry.lineOfSight (-(7000 * 7000)) (7000 * 7000) (7000 * 7000) (6378 * 6378) = false := by decide +kernel

end RV.Bridge.Geometry
