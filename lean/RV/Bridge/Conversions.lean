/-
Bridge: `dayOfYear` (`resonaate/physics/time/conversions.py`: month table, leap-year stores, the `while` loop over the
months), translated from /repo's working tree on every run (`RV.Generated.Conversions`), is the day count of the C04
frame model (`RV.Frames.dayOfYear`) for every year and every month 1-12.  The C04 theorems about the model
(`dayOfYear_eq_dayNumber`: it agrees with the civil calendar for every Gregorian date; continuity of the sidereal angle
across month, leap-day and year boundaries) therefore hold for the code as it reads now; C11 relies on the same chain.
-/
import RV.Generated.Conversions
import RV.Model.Frames
import Mathlib.Tactic.IntervalCases
import Mathlib.Tactic.Ring
import Mathlib.Tactic.Linarith
import Mathlib.Data.Rat.Floor
namespace RV.Bridge.Conversions
open RV.Generated RV.Py RV.Frames

/-- the month table after the two leap-year stores -/
def table (y : Int) : List Int :=
  if isLeap y then [31, 29, 31, 30, 31, 30, 31, 31, 30, 31, 30, 31] else [31, 28, 31, 30, 31, 30, 31, 31, 30, 31, 30, 31]

/-- the loop adds up the months before `month` -/
theorem loop_eq (leap : Bool) (m : Int) (h1 : 1 ≤ m) (h2 : m ≤ 12) :
    Conversions.dayOfYear_loop1 m (if leap then [31, 29, 31, 30, 31, 30, 31, 31, 30, 31, 30, 31] else [31, 28, 31, 30, 31, 30, 31, 31, 30, 31, 30, 31]) 12 0 1
      = (daysBefore leap m.toNat, m) := by
  interval_cases m <;> cases leap <;> decide +kernel

theorem table_eq (y : Int) :
    (let t : List Int := [31, 28, 31, 30, 31, 30, 31, 31, 30, 31, 30, 31]
     if pyModInt y 4 = 0 then
       (let t := pySet t 1 29
        if pyModInt y 100 = 0 ∧ pyModInt y 400 ≠ 0 then pySet t 1 28 else t)
     else t) = table y := by
  unfold table isLeap pyModInt
  by_cases h4 : y % 4 = 0 <;> by_cases h100 : y % 100 = 0 <;> by_cases h400 : y % 400 = 0 <;>
    simp [h4, h100, h400, pySet]

/-- `dayOfYear(year, month, day, hour, minute, second)` for month 1-12 -/
theorem dayOfYear_eq (y : Int) (m d hh mi : Nat) (sec : Rat) (h1 : 1 ≤ m) (h2 : m ≤ 12) :
    Conversions.dayOfYear y m d hh mi sec = RV.Frames.dayOfYear y m d hh mi sec := by
  unfold Conversions.dayOfYear RV.Frames.dayOfYear dayOfYearInt
  have ht := table_eq y
  simp only at ht
  simp only [ht]
  unfold table
  have hl := loop_eq (isLeap y) (m : Int) (by exact_mod_cast h1) (by exact_mod_cast h2)
  simp only [hl, Int.toNat_natCast]
  push_cast
  ring

/-- `seconds2hms` (the split `utc2TerrestrialTime` hands on to `getJulianDate`): the three parts recompose the seconds exactly - the hour is
NOT wrapped to a 24-hour clock, so a Terrestrial Time past midnight carries into the next day through the Julian-date formula -/
theorem seconds2hms_recompose (t : Rat) :
    (Conversions.seconds2hms t).1 * 3600 + (Conversions.seconds2hms t).2.1 * 60 + (Conversions.seconds2hms t).2.2 = t := by
  unfold Conversions.seconds2hms
  simp only
  ring

/-- minute and second lie in [0, 60) and the hour is the whole number of hours -/
theorem seconds2hms_ranges (t : Rat) :
    (Conversions.seconds2hms t).1 = ((t / 3600).floor : Rat) ∧
    0 ≤ (Conversions.seconds2hms t).2.1 ∧ (Conversions.seconds2hms t).2.1 < 60 ∧
    0 ≤ (Conversions.seconds2hms t).2.2 ∧ (Conversions.seconds2hms t).2.2 < 60 := by
  unfold Conversions.seconds2hms RV.F64.ffloor
  simp only
  set u : Rat := t / 3600 with hu
  have h0 : ((u.floor : Int) : Rat) ≤ u := Rat.floor_le u
  have h1 : u < ((u.floor : Int) : Rat) + 1 := by have := Rat.lt_floor_add_one u; push_cast at this; exact this
  set f : Rat := (u - (u.floor : Rat)) * 60 with hf
  have f0 : 0 ≤ f := by rw [hf]; nlinarith
  have f1 : f < 60 := by rw [hf]; nlinarith
  have g0 : ((f.floor : Int) : Rat) ≤ f := Rat.floor_le f
  have g1 : f < ((f.floor : Int) : Rat) + 1 := by have := Rat.lt_floor_add_one f; push_cast at this; exact this
  have m0 : (0 : Int) ≤ f.floor := Rat.le_floor_iff.mpr (by simpa using f0)
  have m1 : f.floor < (60 : Int) := Rat.floor_lt_iff.mpr (by simpa using f1)
  have m0' : (0 : Rat) ≤ (f.floor : Rat) := by exact_mod_cast m0
  have m1' : ((f.floor : Int) : Rat) ≤ 59 := by exact_mod_cast (Int.lt_add_one_iff.mp (by simpa using m1))
  refine ⟨trivial, m0', by linarith, ?_, ?_⟩
  · have : (f.floor : Rat) / 60 ≤ u - (u.floor : Rat) := by rw [hf] at g0; linarith
    nlinarith
  · have : u - (u.floor : Rat) < ((f.floor : Rat) + 1) / 60 := by rw [hf] at g1; linarith
    nlinarith

/-- 23:59:30 plus 69.184 s (TT - UTC since 2017) is hour 24: the carry into the next day is kept -/
example : (Conversions.seconds2hms (86370 + 69184 / 1000)).1 = 24 := by decide +kernel

/-- the Julian day number at 0 h that `getJulianDate` forms from year, month and day -/
def jd0 (y mo d : Int) : Rat :=
  ((367 * y : Int) : Rat) - ((7 * ((y : Rat) + ((((mo + 9 : Int) : Rat) / 12).floor : Rat)) * (1 / 4)).floor : Rat)
    + ((((275 * mo : Int) : Rat) / 9).floor : Rat) + ((d : Rat) + 3442027 / 2)

/-- `getJulianDate` with the hour, minute and second it is handed as numbers: the day number plus the seconds over 86400 - whether or not
the day fraction exceeds one (its carry branch moves whole days from one summand to the other) -/
theorem getJulianDateF_eq (y mo d : Int) (hr mi sec : Rat) :
    Conversions.getJulianDateF y mo d hr mi sec = jd0 y mo d + (sec + mi * 60 + hr * 3600) / 86400 := by
  unfold Conversions.getJulianDateF jd0 RV.F64.ffloor
  simp only
  split <;> ring

/-- Terrestrial Time in Julian centuries is an affine function of the UTC seconds of the day: continuous through the end of the UTC day
(23:59:30 UTC is 00:00:39 TT of the NEXT day - nothing wraps), with slope 1/(86400 x 36525) -/
theorem utc2TerrestrialTime_eq (y mo d h mi : Int) (sec dat : Rat) :
    (Conversions.utc2TerrestrialTime y mo d h mi sec dat).2 =
      (jd0 y mo d + ((((h * 3600 + mi * 60 : Int) : Rat) + sec + dat + 1132373831306969 / 35184372088832) / 86400) - 2451545) / 36525 := by
  unfold Conversions.utc2TerrestrialTime
  simp only [getJulianDateF_eq]
  have hrec := seconds2hms_recompose ((((h * 3600 + mi * 60 : Int) : Rat) + sec + dat + 1132373831306969 / 35184372088832))
  set r := Conversions.seconds2hms ((((h * 3600 + mi * 60 : Int) : Rat) + sec + dat + 1132373831306969 / 35184372088832)) with hr
  have e : r.2.2 + r.2.1 * 60 + r.1 * 3600 = (((h * 3600 + mi * 60 : Int) : Rat) + sec + dat + 1132373831306969 / 35184372088832) := by
    linarith
  show (jd0 y mo d + (r.2.2 + r.2.1 * 60 + r.1 * 3600) / 86400 - 2451545) / 36525 = _
  rw [e]

theorem utc2TerrestrialTime_step (y mo d h mi : Int) (sec dat δ : Rat) :
    (Conversions.utc2TerrestrialTime y mo d h mi (sec + δ) dat).2 - (Conversions.utc2TerrestrialTime y mo d h mi sec dat).2
      = δ / (86400 * 36525) := by
  rw [utc2TerrestrialTime_eq, utc2TerrestrialTime_eq]; ring

/-- what `getJulianDate` is handed near the end of a UTC day is inside its guards: hour 24, minute 0, second 39.184 for 23:59:30 UTC -/
example : let r := Conversions.seconds2hms (86370 + 37 + 1132373831306969 / 35184372088832)
    Conversions.getJulianDateF_accepts 2021 6 30 r.1 r.2.1 r.2.2 = true ∧ r.1 = 24 := by decide +kernel

/-- the translated code on concrete dates: 1 March of a leap year is day 61, of a common and of a century year day 60 -/
example : Conversions.dayOfYear 2024 3 1 0 0 0 = 61 ∧ Conversions.dayOfYear 2023 3 1 0 0 0 = 60 ∧ Conversions.dayOfYear 1900 3 1 0 0 0 = 60
    ∧ Conversions.dayOfYear 2000 2 29 12 0 0 = 60 + 1 / 2 := by decide +kernel

end RV.Bridge.Conversions
