/-
Bridge: the definitions `harness/py2lean.py` generates from `resonaate/physics/maths.py` on every run are the
hand-written model `RV.Model.Angles` that the C16 (and C12, C04) theorems are about, at the code's own constants.
An edit of `wrapAngle2Pi`, `wrapAngleNegPiPi` or `fpe_equals` changes the generated term; these theorems then fail.
-/
import RV.Generated.Maths
import RV.Model.Angles
namespace RV.Bridge.Maths
open RV.Generated RV.Py

theorem wrapAngle2Pi_eq (x : Rat) : Maths.wrapAngle2Pi x = RV.Angles.wrap2Pi TWOPI x := rfl

theorem wrapAngleNegPiPi_eq (x : Rat) : Maths.wrapAngleNegPiPi x = RV.Angles.wrapNegPiPi PI TWOPI x := rfl

/-- `fpe_equals(value, expected)` is `|value - expected| < finfo(float).resolution` -/
theorem fpe_equals_eq (a b : Rat) : Maths.fpe_equals a b = decide (RV.Angles.absQ (a - b) < FPE_RESOLUTION) := rfl

/-- `residual(val1, val2, angular)` -/
theorem residual_eq (a b : Rat) (ang : Bool) : Maths.residual a b ang = RV.Angles.residual PI TWOPI a b ang := rfl

/-- one element of `vecWrapAngleNeg` -/
theorem vecWrapAngleNeg_eq (x : Rat) : Maths.vecWrapAngleNeg x = RV.Angles.vecWrapNeg PI TWOPI x := rfl

/-- one element of `vecWrapAngle2Pi` -/
theorem vecWrapAngle2Pi_eq (x : Rat) : Maths.vecWrapAngle2Pi x = RV.Angles.vecWrap2Pi TWOPI x := rfl

/-- one element of `vecResiduals` -/
theorem vecResiduals_eq (a b : Rat) (ang : Bool) : Maths.vecResiduals a b ang = RV.Angles.vecResidual PI TWOPI a b ang := rfl

end RV.Bridge.Maths
