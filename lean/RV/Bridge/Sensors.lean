/-
Bridge: `Sensor.isVisible` and `Radar.isVisible`, translated from `resonaate/sensors/sensor_base.py` and `radar.py`
on every run (`RV.Generated.Sensors`), ARE the first-failure cascade `RV.Sensor.attempt` of the C02 theorems over a
specific list of checks in a specific order.  What is abstracted: the geometry helpers (`getRange`, `lineOfSight`,
`getAzimuth`, `getElevation`, `maximumRangeTo`) and the sensor's attributes enter as parameters - their values are
compared with an independent evaluation by the C02/C14 harnesses; the decision structure built on them is proved here.
Reordering two tests, dropping one, changing a comparison or a reported reason changes the generated term and these
theorems no longer check.
-/
import RV.Generated.Sensors
import RV.Model.Sensor
import RV.Model.Visibility
import RV.Props.C02
namespace RV.Bridge.Sensors
open RV.Generated RV.Sensor RV.Visibility

/-- the pair `isVisible` returns for a cascade outcome -/
def toPair : Outcome → Bool × String
  | .observation => (true, "VISIBLE")
  | .missed r => (false, r)

/-- the checks of `Sensor.isVisible`, in the order the code performs them -/
def baseChecks (mn mx : Option Rat) (r : Rat) (los : Bool) (az el el0 el1 az0 az1 : Rat) : List Check :=
  [⟨!(mn.isSome && decide (r < mn.getD 0)), "MINIMUM_RANGE"⟩,
   ⟨!(mx.isSome && decide (r > mx.getD 0)), "MAXIMUM_RANGE"⟩,
   ⟨los, "LINE_OF_SIGHT"⟩,
   ⟨elMaskIn el0 el1 el, "ELEVATION_MASK"⟩,
   ⟨azMaskIn az0 az1 az, "AZIMUTH_MASK"⟩]

theorem sensorIsVisible_eq (mn mx : Option Rat) (r : Rat) (los : Bool) (az el el0 el1 az0 az1 : Rat) :
    Sensors.sensorIsVisible mn mx r los az el el0 el1 az0 az1 = toPair (attempt (baseChecks mn mx r los az el el0 el1 az0 az1)) := by
  unfold Sensors.sensorIsVisible baseChecks
  simp only [attempt, elMaskIn, azMaskIn, toPair]
  grind

/-- `Radar.isVisible`: the base cascade, then the radar-sensitivity range -/
theorem radarIsVisible_eq (cs : List Check) (r maxTo : Rat) :
    Sensors.radarIsVisible (toPair (attempt cs)).1 (toPair (attempt cs)).2 r maxTo =
      toPair (attempt (cs ++ [⟨!decide (r > maxTo), "RADAR_SENSITIVITY"⟩])) := by
  unfold Sensors.radarIsVisible
  induction cs with
  | nil => simp only [attempt, toPair, List.nil_append]; grind
  | cons c cs ih =>
    simp only [attempt, List.cons_append]
    by_cases h : c.holds = true
    · simp only [h, if_true]; exact ih
    · simp only [h]; simp [toPair]

/-- the checks `Optical.isVisible` adds behind the base cascade, in the code's order; the last ones depend on the kind of host -/
def opticalChecks (flux vismag detectable : Rat) (galacticOk isSpace spaceLit obscured groundLit : Bool) : List Check :=
  [⟨decide (0 < flux), "SOLAR_FLUX"⟩, ⟨!decide (vismag > detectable), "VIZ_MAG"⟩, ⟨galacticOk, "GALACTIC_EXCLUSION"⟩] ++
    (if isSpace then [⟨spaceLit, "SPACE_ILLUMINATION"⟩, ⟨!obscured, "LIMB_OF_EARTH"⟩] else [⟨groundLit, "GROUND_ILLUMINATION"⟩])

/-- `Optical.isVisible`: the base cascade, then solar flux, visual magnitude, galactic exclusion, and the lighting (and limb) tests of its host -/
theorem opticalIsVisible_eq (cs : List Check) (flux vismag detectable : Rat) (galacticOk isSpace spaceLit obscured groundLit : Bool) :
    Sensors.opticalIsVisible (toPair (attempt cs)).1 (toPair (attempt cs)).2 flux vismag detectable galacticOk isSpace spaceLit obscured groundLit =
      toPair (attempt (cs ++ opticalChecks flux vismag detectable galacticOk isSpace spaceLit obscured groundLit)) := by
  unfold Sensors.opticalIsVisible
  induction cs with
  | nil =>
    simp only [attempt, toPair, List.nil_append, opticalChecks]
    have e1 : (0 < flux) ↔ ¬ (flux ≤ 0) := Rat.not_le.symm
    by_cases h1 : flux ≤ 0 <;> by_cases h2 : vismag > detectable <;> cases galacticOk <;> cases isSpace <;> cases spaceLit <;>
      cases obscured <;> cases groundLit <;> simp [attempt, toPair, h1, h2, e1]
  | cons c cs ih =>
    simp only [attempt, List.cons_append]
    by_cases h : c.holds = true
    · simp only [h, if_true]; exact ih
    · simp only [h]; simp [toPair]

/-- C02 carried to the translated code: when the code's `Sensor.isVisible` answers "visible", the range limits, the
line of sight, the elevation mask and the azimuth mask all hold -/
theorem visible_satisfies_all (mn mx : Option Rat) (r : Rat) (los : Bool) (az el el0 el1 az0 az1 : Rat)
    (h : (Sensors.sensorIsVisible mn mx r los az el el0 el1 az0 az1).1 = true) :
    ∀ c ∈ baseChecks mn mx r los az el el0 el1 az0 az1, c.holds = true := by
  rw [sensorIsVisible_eq] at h
  cases ha : attempt (baseChecks mn mx r los az el el0 el1 az0 az1) with
  | observation => exact RV.Props.C02.reported_satisfies_all _ ha
  | missed x => rw [ha] at h; simp [toPair] at h

/-- C02 carried to the translated code: when it answers "not visible" with reason `x`, `x` is the reason of a check
that really fails, and every check the code performs before it holds -/
theorem miss_states_true_reason (mn mx : Option Rat) (r : Rat) (los : Bool) (az el el0 el1 az0 az1 : Rat)
    (h : (Sensors.sensorIsVisible mn mx r los az el el0 el1 az0 az1).1 = false) :
    ∃ pre c post, baseChecks mn mx r los az el el0 el1 az0 az1 = pre ++ c :: post ∧ c.holds = false ∧
      c.reason = (Sensors.sensorIsVisible mn mx r los az el el0 el1 az0 az1).2 ∧ ∀ d ∈ pre, d.holds = true := by
  rw [sensorIsVisible_eq] at h ⊢
  cases ha : attempt (baseChecks mn mx r los az el el0 el1 az0 az1) with
  | observation => rw [ha] at h; simp [toPair] at h
  | missed x => simpa [toPair] using RV.Props.C02.miss_reason_fails _ x ha

/-- non-vacuity: a target beyond the maximum range is reported as such although its line of sight is also blocked
(first failure in the code's order), and a wrapping azimuth mask admits an azimuth across north -/
example : Sensors.sensorIsVisible (some 100) (some 5000) 6000 false 1 1 0 2 0 6 = (false, "MAXIMUM_RANGE") ∧
    Sensors.sensorIsVisible none none 6000 true (1 / 10) 1 0 2 6 (1 / 2) = (true, "VISIBLE") := by
  decide +kernel

end RV.Bridge.Sensors
