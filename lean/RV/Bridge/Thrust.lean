/-
Bridge: the event functions scipy's solver watches (`ScheduledImpulse.__call__`, `ScheduledFiniteThrust.__call__`),
the on/off decision taken at a root (`ScheduledFiniteThrust.getStateChangeCallback`) and one pass of the loop in which
`Celestial._prepEvents` re-arms the burns under way - all translated from /repo's working tree on every run
(`RV.Generated.Thrust`, `RV.Generated.Prep`) - are what the C15 switching model (`RV.Model.Burn`) and the C01 impulse
model assume of them:

* the event value is the signed distance to the instant of the current phase (start while inactive, end while
  active), snapped to 0 inside `finfo(float).resolution` and nowhere else: its only root is that instant
  (`EventShape.phaseSwitch`, not `startRootOnly`), and for an impulse its own time;
* the callback switches the thrust on exactly when the end is at least the code's tolerance away, and that
  tolerance is the model's `Burn.tol` up to the rounding of the literal `1e-9`;
* the re-arm pass is the fold the model calls `prepSlotWith .keep`, and leaves `active` equal to `armedAfterPrep`.

An edit of any of these sources changes the generated term and these theorems stop building.
-/
import RV.Generated.Thrust
import RV.Generated.Prep
import RV.Model.Burn
import Mathlib.Tactic.Linarith
import Mathlib.Tactic.NormNum
namespace RV.Bridge.Thrust
open RV.Generated RV.Py

/-- the literal `1e-9` of `getStateChangeCallback` as binary64 reads it -/
def tolCode : Rat := (4835703278458517 : Rat) / 4835703278458516698824704

/-- the zero snap of the event functions -/
def snap (x : Rat) : Rat := if Maths.fpe_equals x 0 = true then 0 else x

theorem impulseEvent_eq (t τ : Rat) : Thrust.impulseEvent t τ = snap (t - τ) := rfl

theorem thrustEvent_eq (t s e : Rat) (a : Bool) :
    Thrust.thrustEvent t s e a = snap ((if a = true then e else s) - t) := rfl

theorem fpe_zero : Maths.fpe_equals 0 0 = true := by decide +kernel

theorem fpe_res_pos : (0 : Rat) < FPE_RESOLUTION := by decide +kernel

theorem fpe_iff (x : Rat) : Maths.fpe_equals x 0 = true ↔ (-FPE_RESOLUTION < x ∧ x < FPE_RESOLUTION) := by
  unfold Maths.fpe_equals pyAbs
  simp only [sub_zero, decide_eq_true_eq]
  have := fpe_res_pos
  split <;> constructor <;> intro h
  · exact ⟨by linarith, by linarith⟩
  · linarith [h.1]
  · exact ⟨by linarith, h⟩
  · exact h.2

theorem snap_pos {x : Rat} (h : 0 < snap x) : 0 < x := by
  unfold snap at h; split at h
  · exact absurd h (lt_irrefl _)
  · exact h

theorem snap_neg {x : Rat} (h : snap x < 0) : x < 0 := by
  unfold snap at h; split at h
  · exact absurd h (lt_irrefl _)
  · exact h

/-- the snap is exactly the window of `fpe_equals`: a wider one (the seeded `1e-4`) does not satisfy this -/
theorem snap_zero_iff (x : Rat) : snap x = 0 ↔ (-FPE_RESOLUTION < x ∧ x < FPE_RESOLUTION) := by
  unfold snap
  constructor
  · intro h
    split at h
    · rename_i hf; exact (fpe_iff x).mp hf
    · subst h; exact (fpe_iff 0).mp fpe_zero
  · intro h
    rw [if_pos ((fpe_iff x).mpr h)]

/-- the impulse event function changes sign at the impulse's own time and only there -/
theorem impulseEvent_sign (t τ : Rat) :
    (Thrust.impulseEvent t τ < 0 → t < τ) ∧ (0 < Thrust.impulseEvent t τ → τ < t) ∧ Thrust.impulseEvent τ τ = 0 := by
  rw [impulseEvent_eq, impulseEvent_eq]
  refine ⟨fun h => by linarith [snap_neg h], fun h => by linarith [snap_pos h], ?_⟩
  rw [sub_self]; exact (snap_zero_iff 0).mpr ((fpe_iff 0).mp fpe_zero)

theorem impulseEvent_zero_iff (t τ : Rat) :
    Thrust.impulseEvent t τ = 0 ↔ (-FPE_RESOLUTION < t - τ ∧ t - τ < FPE_RESOLUTION) := by
  rw [impulseEvent_eq]; exact snap_zero_iff _

/-- the thrust event function is positive before, negative after and zero at the instant of its current phase: the
start while the thrust is off, the END while it is on (`Burn.EventShape.phaseSwitch`) -/
theorem thrustEvent_sign (t s e : Rat) (a : Bool) :
    (0 < Thrust.thrustEvent t s e a → t < (if a = true then e else s)) ∧
    (Thrust.thrustEvent t s e a < 0 → (if a = true then e else s) < t) ∧
    Thrust.thrustEvent (if a = true then e else s) s e a = 0 := by
  rw [thrustEvent_eq, thrustEvent_eq]
  refine ⟨fun h => by linarith [snap_pos h], fun h => by linarith [snap_neg h], ?_⟩
  rw [sub_self]; exact (snap_zero_iff 0).mpr ((fpe_iff 0).mp fpe_zero)

/-- while the thrust is on the event function has no root at the start any more (witness: strictly between) -/
example : Thrust.thrustEvent 10 10 20 true = 10 ∧ Thrust.thrustEvent 20 10 20 true = 0 ∧ Thrust.thrustEvent 10 10 20 false = 0 := by
  decide +kernel

/-- `getStateChangeCallback`: the thrust is handed over, and `active` set, exactly when the end is not within the tolerance -/
theorem callback_eq (t e : Rat) (a : Bool) :
    Thrust.getStateChangeCallback t e a = (!(decide (e - t < tolCode)), !(decide (e - t < tolCode))) := by
  unfold Thrust.getStateChangeCallback tolCode
  by_cases h : e - t < (4835703278458517 : Rat) / 4835703278458516698824704 <;> simp [h]

/-- the code's tolerance is the model's `1e-9` to the rounding of the literal -/
theorem tolCode_close : RV.Burn.tol ≤ tolCode ∧ tolCode - RV.Burn.tol < 1 / 10 ^ 25 := by
  unfold tolCode RV.Burn.tol; constructor <;> norm_num

/-- outside the sliver between the two readings of `1e-9` the callback is the model's decision -/
theorem callback_model (t e : Rat) (a : Bool) (h : ¬ (RV.Burn.tol ≤ e - t ∧ e - t < tolCode)) :
    (Thrust.getStateChangeCallback t e a).2 = !(decide (e - t < RV.Burn.tol)) := by
  rw [callback_eq]
  have hc := tolCode_close.1
  by_cases h1 : e - t < RV.Burn.tol
  · have : e - t < tolCode := lt_of_lt_of_le h1 hc
    simp [h1, this]
  · have : ¬ e - t < tolCode := fun h2 => h ⟨not_lt.mp h1, h2⟩
    simp [h1, this]

/-- the interval of a queued burn -/
def iv (b : Ev) : RV.Burn.BurnIv := (b.start_time, b.end_time)

/-- one pass of the re-arm loop of `_prepEvents` -/
theorem prepOne_eq (slot : Option Ev) (a : Bool) (b : Ev) (t0 : Rat) :
    Prep.prepOne slot a b t0 =
      if b.isBurn = true then
        (if b.start_time < t0 ∧ t0 < b.end_time then
          (if b.end_time - t0 < tolCode then (none, false) else (some b, true))
         else (slot, false))
      else (slot, a) := by
  unfold Prep.prepOne
  cases hb : b.isBurn
  · cases a <;> simp
  · by_cases h1 : b.start_time < t0 ∧ t0 < b.end_time
    · simp only [callback_eq]
      by_cases h2 : b.end_time - t0 < tolCode <;> simp [h1, h2]
    · have h1' : ¬ (b.start_time < t0 ∧ t0 < b.end_time) := h1
      simp [h1']

/-- no burn's end falls in the sliver between the two readings of `1e-9` after `t0` -/
def GapFree (burns : List Ev) (t0 : Rat) : Prop :=
  ∀ b ∈ burns, ¬ (RV.Burn.tol ≤ b.end_time - t0 ∧ b.end_time - t0 < tolCode)

/-- after the pass a burn's `active` flag is the model's `armedAfterPrep` -/
theorem prepOne_armed (slot : Option Ev) (a : Bool) (b : Ev) (t0 : Rat) (hb : b.isBurn = true)
    (hg : ¬ (RV.Burn.tol ≤ b.end_time - t0 ∧ b.end_time - t0 < tolCode)) :
    (Prep.prepOne slot a b t0).2 = RV.Burn.armedAfterPrep (iv b) t0 := by
  rw [prepOne_eq]
  unfold RV.Burn.armedAfterPrep iv
  have hc := tolCode_close.1
  simp only [hb, if_true]
  by_cases h1 : b.start_time < t0 <;> by_cases h2 : t0 < b.end_time
  · by_cases h3 : b.end_time - t0 < RV.Burn.tol
    · have : b.end_time - t0 < tolCode := lt_of_lt_of_le h3 hc
      simp [h1, h2, h3, this]
    · have : ¬ b.end_time - t0 < tolCode := fun h4 => hg ⟨not_lt.mp h3, h4⟩
      simp [h1, h2, h3, this]
  · simp [h1, h2]
  · simp [h1, h2]
  · simp [h1, h2]

/-- the thrust slot after the whole loop over a queue of burns is the model's `prepSlotWith .keep` -/
theorem prep_fold_model (t0 : Rat) : ∀ (burns : List Ev) (slot : Option Ev),
    (∀ b ∈ burns, b.isBurn = true) → GapFree burns t0 →
    (burns.foldl (fun s b => (Prep.prepOne s false b t0).1) slot).map iv =
      (burns.map iv).foldl (fun slot b =>
        if b.1 < t0 ∧ t0 < b.2 then (if b.2 - t0 < RV.Burn.tol then none else some b) else slot) (slot.map iv) := by
  intro burns
  induction burns with
  | nil => intro slot _ _; rfl
  | cons b l ih =>
    intro slot hb hg
    rw [List.foldl_cons, List.map_cons, List.foldl_cons]
    rw [ih _ (fun x hx => hb x (List.mem_cons_of_mem _ hx)) (fun x hx => hg x (List.mem_cons_of_mem _ hx))]
    congr 1
    rw [prepOne_eq]
    have hbb := hb b List.mem_cons_self
    have hgb := hg b List.mem_cons_self
    have hc := tolCode_close.1
    simp only [hbb, if_true, iv]
    by_cases h1 : b.start_time < t0 ∧ t0 < b.end_time
    · by_cases h3 : b.end_time - t0 < RV.Burn.tol
      · have : b.end_time - t0 < tolCode := lt_of_lt_of_le h3 hc
        simp [h1, h3, this]
      · have : ¬ b.end_time - t0 < tolCode := fun h4 => hgb ⟨not_lt.mp h3, h4⟩
        simp [h1, h3, this, iv]
    · simp [h1]

theorem prep_is_prepSlot (t0 : Rat) (burns : List Ev) (hb : ∀ b ∈ burns, b.isBurn = true) (hg : GapFree burns t0) :
    (burns.foldl (fun s b => (Prep.prepOne s false b t0).1) none).map iv = RV.Burn.prepSlot (burns.map iv) t0 := by
  rw [prep_fold_model t0 burns none hb hg]
  rfl

/-- the hypotheses are met by a concrete queue: a burn under way and one still ahead -/
example : let q : List Ev := [⟨1, true, 0, 10, 50⟩, ⟨2, true, 0, 70, 90⟩]
    (∀ b ∈ q, b.isBurn = true) ∧ (q.foldl (fun s b => (Prep.prepOne s false b 30).1) none).map iv = some (10, 50) := by
  decide +kernel

end RV.Bridge.Thrust
