/-
Line protocol driver: one operation per input line, one output line per input line.
Run with `lake env lean --run Driver.lean < ops.txt`.  Unknown or malformed lines print `bad-op`;
the model never substitutes a default for an input the real code would reject.
-/
import RV.Drive.All

partial def loop (h : IO.FS.Stream) (out : IO.FS.Stream) : IO Unit := do
  let line ← h.getLine
  if line.isEmpty then return ()
  out.putStrLn (RV.Drive.step line)
  loop h out

def main : IO Unit := do
  let out ← IO.getStdout
  loop (← IO.getStdin) out
  out.flush
