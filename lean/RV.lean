import RV.AuditCmd
import RV.Drive.All
import RV.Props.C07
import RV.Props.C17
import RV.Props.C18
import RV.Props.C16
import RV.Props.C14
import RV.Props.C14Real
