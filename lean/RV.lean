import RV.AuditCmd
import RV.Drive.All
import RV.Props.C07
