"""C16 demo (b): the posterior must not depend on the order in which simultaneous observations are stacked.

A radar reports the target twice in one step (a tasked look and a serendipitous look made while it served another
target: same sensor, same epoch, independent noise) and an optical site reports it once.  The three observations
are handed to ``update()`` in all six orders, starting from the identical prediction every time.  Every order must
give the same innovation set, posterior state and covariance (up to rounding), and that posterior must be the
textbook stacked unscented update of all three observations, computed below with independent maths.
"""

# Standard Library Imports
import itertools
import sys

# Third Party Imports
import numpy as np
from numpy import arctan2, array, cos, diag, radians, sin
from scipy.linalg import block_diag

# RESONAATE Imports
from resonaate.data.observation import Observation
from resonaate.dynamics.two_body import TwoBody
from resonaate.estimation.kalman.unscented_kalman_filter import UnscentedKalmanFilter
from resonaate.physics.measurements import Measurement
from resonaate.physics.time.stardate import JulianDate, ScenarioTime, julianDateToDatetime

JD = 2459304.25
UTC = julianDateToDatetime(JulianDate(JD))
RADAR_LABELS = ["azimuth_rad", "elevation_rad", "range_km", "range_rate_km_p_sec"]
OPTICAL_LABELS = ["azimuth_rad", "elevation_rad"]
EARTH_RATE = array([0.0, 0.0, 7.292115e-5])


def wrapPi(angle):
    """Independent wrap onto (-pi, pi]."""
    return arctan2(sin(angle), cos(angle))


def buildFilter():
    x0 = array([4200.0, 3900.0, 4100.0, -4.9, 1.2, 3.9])
    x0[:3] *= 7078.0 / np.linalg.norm(x0[:3])
    p0 = diag([1.0, 1.0, 1.0, 1e-6, 1e-6, 1e-6])
    ukf = UnscentedKalmanFilter(
        10001, ScenarioTime(0.0), x0, p0, TwoBody(), 1e-12 * np.eye(6), None, False, False
    )
    ukf.predict(ScenarioTime(60.0))
    return ukf


def groundSite(direction):
    pos = 6378.137 * array(direction) / np.linalg.norm(direction)
    return np.concatenate([pos, np.cross(EARTH_RATE, pos)])


def makeObservation(sensor_id, sensor_type, sensor_eci, measurement, truth, noise):
    values = array(list(measurement.calculateMeasurement(sensor_eci, truth, UTC).values())) + noise
    return Observation(
        julian_date=JD,
        target_id=10001,
        sensor_id=sensor_id,
        sensor_type=sensor_type,
        sensor_eci=sensor_eci,
        measurement=measurement,
        **dict(zip(measurement.labels, map(float, values))),
    )


def referenceUpdate(ukf, observations):
    """Textbook stacked UKF measurement update with circular statistics on the angular components."""
    sig = ukf.sigma_points
    y_sig = np.vstack(
        [
            array(
                [
                    list(ob.measurement.calculateMeasurement(ob.sensor_eci, sig[:, j], UTC).values())
                    for j in range(sig.shape[1])
                ]
            ).T
            for ob in observations
        ]
    )
    angular = np.concatenate([[lab.endswith("_rad") for lab in ob.measurement.labels] for ob in observations])
    reported = np.concatenate([ob.measurement_states for ob in observations])
    r_mat = block_diag(*[ob.measurement.r_matrix for ob in observations])
    w_m, w_c = ukf.mean_weight, ukf.cvr_weight
    y_hat = np.where(angular, arctan2(sin(y_sig).dot(w_m), cos(y_sig).dot(w_m)), y_sig.dot(w_m))
    y_res = y_sig - y_hat[:, None]
    y_res[angular] = wrapPi(y_res[angular])
    x_res = sig - ukf.pred_x[:, None]
    s_mat = y_res.dot(w_c).dot(y_res.T) + r_mat
    gain = x_res.dot(w_c).dot(y_res.T).dot(np.linalg.inv(s_mat))
    innovation = reported - y_hat
    innovation[angular] = wrapPi(innovation[angular])
    return ukf.pred_x + gain.dot(innovation), ukf.pred_p - gain.dot(s_mat).dot(gain.T)


def main():
    probe = buildFilter()
    truth = probe.pred_x + array([0.4, -0.3, 0.5, 2e-4, -1e-4, 3e-4])
    up = probe.pred_x[:3] / np.linalg.norm(probe.pred_x[:3])
    radar_eci = groundSite(up + array([0.10, -0.06, 0.03]))
    optical_eci = groundSite(up + array([-0.07, 0.09, -0.05]))
    radar = Measurement.fromMeasurementLabels(RADAR_LABELS, array([radians(0.01), radians(0.01), 0.02, 1e-4]))
    optical = Measurement.fromMeasurementLabels(OPTICAL_LABELS, radians(array([0.002, 0.002])))

    # Fixed draws of the sensor noise (about one sigma each) so that the run is reproducible
    looks = {
        "radar look 1": makeObservation(
            200001, "Radar", radar_eci, radar, truth, array([radians(0.012), radians(-0.008), 0.018, -0.9e-4])
        ),
        "radar look 2": makeObservation(
            200001, "Radar", radar_eci, radar, truth, array([radians(-0.009), radians(0.011), -0.022, 1.1e-4])
        ),
        "optical look": makeObservation(
            200002, "Optical", optical_eci, optical, truth, radians(array([0.0015, -0.0021]))
        ),
    }
    for name, ob in looks.items():
        elevation = np.degrees(ob.elevation_rad)
        assert 10.0 < elevation < 89.0, f"geometry: {name} must be a plain above-horizon look ({elevation:.1f} deg)"

    x_ref, p_ref = referenceUpdate(buildFilter(), list(looks.values()))
    total_dim = sum(ob.dim for ob in looks.values())

    failures = []
    results = {}
    for order in itertools.permutations(looks):
        ukf = buildFilter()
        ukf.update([looks[name] for name in order])
        results[order] = (ukf.est_x.copy(), ukf.est_p.copy())
        miss = np.abs(ukf.est_x - x_ref).max()
        print(f"{' | '.join(order):45s} stacked dim {ukf.innovation.size:2d}   |x - x_ref| max {miss:.3e} km")
        if ukf.innovation.size != total_dim:
            failures.append(f"{order}: {ukf.innovation.size} of {total_dim} measurement components were used")
        if not np.all(np.abs(ukf.innovation[ukf.is_angular]) <= np.pi):
            failures.append(f"{order}: angular innovation outside (-180, 180] deg")
        if not np.allclose(ukf.est_x, x_ref, rtol=0.0, atol=1e-4):
            failures.append(f"{order}: posterior state is {miss:.3e} km away from the textbook stacked update")
        if not np.allclose(ukf.est_p, p_ref, rtol=1e-4, atol=1e-10):
            failures.append(f"{order}: posterior covariance differs from the textbook stacked update")

    first_order = next(iter(results))
    for order, (est_x, est_p) in results.items():
        if not np.allclose(est_x, results[first_order][0], rtol=0.0, atol=1e-6):
            failures.append(
                f"reordering {first_order} -> {order} moves the posterior by "
                f"{np.abs(est_x - results[first_order][0]).max():.3e} km"
            )
        if not np.allclose(est_p, results[first_order][1], rtol=1e-6, atol=1e-12):
            failures.append(f"reordering {first_order} -> {order} changes the posterior covariance")

    if failures:
        print("C16 VIOLATED:")
        for failure in failures:
            print("  -", failure)
    assert not failures, failures[0]
    print("OK: all six stacking orders give the textbook posterior")
    return 0


if __name__ == "__main__":
    sys.exit(main())
