"""C14 demo (change b): line of sight equals the exact segment-versus-spherical-Earth test.

Oracle (independent of the code under test): the point of the straight segment r1 -> r2 closest
to the geocentre is r1 + t (r2 - r1) with t = clamp(-r1.(r2-r1) / |r2-r1|^2, 0, 1); the two
positions see each other iff that point is not inside the sphere of radius ``Earth.radius``.

Three families of pairs, all between the surface and 10 Earth radii:
  1. random pairs (kept away from the grazing boundary by a relative margin),
  2. pairs on one radial line: a site and a satellite exactly at its zenith, or two satellites
     stacked on the same radial -- the segment is radial and never gets closer to the geocentre
     than the lower end point, so a line of sight always exists,
  3. the same pairs with the arguments swapped (symmetry).
"""
from __future__ import annotations

import sys
import warnings

import numpy as np

from resonaate.physics.bodies import Earth
from resonaate.physics.sensor_utils import lineOfSight

warnings.simplefilter("ignore")
R = Earth.radius


def oracle(r1, r2):
    """Exact segment-vs-sphere test; returns (visible, relative clearance)."""
    d = r2 - r1
    dd = float(np.dot(d, d))
    t = 0.0 if dd == 0.0 else min(1.0, max(0.0, -float(np.dot(r1, d)) / dd))
    p = r1 + t * d
    dist = float(np.sqrt(np.dot(p, p)))
    return dist >= R, (dist - R) / R


def unit(rng):
    v = rng.normal(size=3)
    return v / np.sqrt(np.dot(v, v))


def main():
    rng = np.random.default_rng(20240614)
    bad = []

    # 1. random pairs
    for _ in range(20000):
        r1 = unit(rng) * R * (1.0 + 9.0 * rng.random() ** 3)
        r2 = unit(rng) * R * (1.0 + 9.0 * rng.random() ** 3)
        expect, clearance = oracle(r1, r2)
        if abs(clearance) < 1e-9:
            continue
        for a, b, tag in ((r1, r2, "random"), (r2, r1, "random/swapped")):
            got = bool(lineOfSight(a, b))
            if got != expect:
                bad.append((tag, a, b, got, expect))

    # 2. + 3. pairs on one radial line
    for _ in range(3000):
        u = unit(rng)
        # half of the lower end points are ground sites (a few millimetres above the sphere, so that
        # rounding of the scaling cannot put them inside it), the others are satellites
        low = R * (1.0 + (1e-9 if rng.random() < 0.5 else 2.0 * rng.random()))
        high = low + R * (0.01 + 6.0 * rng.random())
        r1, r2 = u * low, u * high
        expect, clearance = oracle(r1, r2)
        assert expect and clearance >= -1e-12, "a radial segment never dips below its lower end"
        for a, b, tag in ((r1, r2, "zenith"), (r2, r1, "zenith/swapped")):
            got = bool(lineOfSight(a, b))
            if got != expect:
                bad.append((tag, a, b, got, expect))

    for tag, a, b, got, expect in bad[:10]:
        print(f"[{tag}] lineOfSight({a.tolist()}, {b.tolist()}) = {got}, exact geometry says {expect}")
    assert not bad, f"{len(bad)} line-of-sight verdicts disagree with the exact segment/sphere test"
    print("OK: lineOfSight matches the exact segment-versus-sphere test, including zenith pairs")


if __name__ == "__main__":
    main()
    sys.exit(0)
