"""C20 demo (change b): converting a radar observation to an inertial position must invert the measurement model.

Noise-free observations are produced with the repository's own measurement model (``Observation.fromMeasurement`` with
``noisy=False``) for sensor sites at several heights above the ellipsoid, and ``radarObs2eciPosition`` has to give
back the target position that was observed (the clean code does so to ~1e-10 km).  The second part runs the Lambert IOD
pipeline on two noise-free observations of a circular orbit, taken 12 % of a period apart by two elevated sites, and
compares the result with the true state obtained from independent two-body maths (numpy only).
"""
import sys
import warnings
from unittest.mock import MagicMock

import numpy as np

import resonaate.estimation.initial_orbit_determination as iod_module
from resonaate.common.labels import SensorLabel
from resonaate.data.observation import Observation
from resonaate.estimation.initial_orbit_determination import LambertIOD
from resonaate.physics.measurements import Measurement
from resonaate.physics.orbit_determination.lambert import lambertBattin
from resonaate.physics.time.stardate import JulianDate, ScenarioTime, julianDateToDatetime
from resonaate.physics.transforms.methods import ecef2eci, lla2ecef, radarObs2eciPosition

warnings.simplefilter("ignore")
MU = 398600.4418
MEAS = Measurement.fromMeasurementLabels(
    ["azimuth_rad", "elevation_rad", "range_km", "range_rate_km_p_sec"],
    np.eye(4),
)
JD0 = JulianDate(2459304.25)  # 2021-03-30 18:00:00 UTC


def siteEci(lat_deg, lon_deg, alt_km, jd):
    return ecef2eci(lla2ecef(np.array([np.radians(lat_deg), np.radians(lon_deg), alt_km])), julianDateToDatetime(jd))


def observe(jd, sensor_eci, target_eci):
    return Observation.fromMeasurement(jd, 10001, target_eci, 300000, sensor_eci, SensorLabel.ADV_RADAR, MEAS, noisy=False)


failures = 0

# ---------------------------------------------------------------- part 1: inversion of single observations
print("part 1: radarObs2eciPosition(observation of X) == X")
SITES = [
    ("sea level site (control)", 33.8, -106.7, 0.0),
    ("low site, 60 m", 70.4, 31.1, 0.06),
    ("mountain observatory, 3.05 km", 20.7, -156.3, 3.05),
    ("high plateau, 5.0 km", -23.0, -67.8, 5.0),
    ("stratospheric platform, 30 km", 45.0, 10.0, 30.0),
]
rng = np.random.default_rng(20)
for label, lat, lon, alt in SITES:
    sensor = siteEci(lat, lon, alt, JD0)
    up = sensor[:3] / np.linalg.norm(sensor[:3])
    worst = 0.0
    for rho in (1200.0, 8000.0, 38000.0):
        # a target `rho` km away, 25-75 degrees from the local vertical, random azimuth
        side = np.cross(up, rng.normal(size=3))
        side /= np.linalg.norm(side)
        tilt = np.radians(rng.uniform(25, 75))
        target = np.concatenate((sensor[:3] + rho * (np.cos(tilt) * up + np.sin(tilt) * side), np.zeros(3)))
        recovered = radarObs2eciPosition(observe(JD0, sensor, target))
        worst = max(worst, np.linalg.norm(recovered - target[:3]))
    ok = worst < 1e-6  # 1 mm
    failures += 0 if ok else 1
    print(f"  {label}: worst position error {worst:.3e} km -> {'ok' if ok else 'VIOLATION'}")

# ---------------------------------------------------------------- part 2: Lambert IOD on two noise-free observations
print("part 2: Lambert IOD of a circular orbit from two noise-free radar observations")


def circularState(radius, inc, raan, arg_lat):
    pos = radius * np.array([np.cos(arg_lat), np.sin(arg_lat), 0.0])
    vel = np.sqrt(MU / radius) * np.array([-np.sin(arg_lat), np.cos(arg_lat), 0.0])
    c, s = np.cos(inc), np.sin(inc)
    rot1 = np.array([[1, 0, 0], [0, c, -s], [0, s, c]])
    c, s = np.cos(raan), np.sin(raan)
    rot3 = np.array([[c, -s, 0], [s, c, 0], [0, 0, 1]])
    return np.concatenate((rot3 @ rot1 @ pos, rot3 @ rot1 @ vel))


radius = 26560.0
mean_motion = np.sqrt(MU / radius**3)
gap = 5160  # whole seconds, ~12 % of the 43 080 s period
t_first, t_second = 600, 600 + gap
state_first = circularState(radius, np.radians(55), np.radians(40), 0.3 + mean_motion * t_first)
state_second = circularState(radius, np.radians(55), np.radians(40), 0.3 + mean_motion * t_second)
jd_first = ScenarioTime(t_first).convertToJulianDate(JD0)
jd_second = ScenarioTime(t_second).convertToJulianDate(JD0)
ob_first = observe(jd_first, siteEci(20.7, -156.3, 3.05, jd_first), state_first)
ob_second = observe(jd_second, siteEci(-23.0, -67.8, 5.0, jd_second), state_second)

iod = LambertIOD(60, lambertBattin, 10001, JD0)
iod_module.getDBConnection = lambda: MagicMock()
iod.getPreviousObservations = lambda database, start, end: [ob_first]
solution = iod.determineNewEstimateState([ob_second], ScenarioTime(0), ScenarioTime(t_second))
assert solution.convergence, solution.message
pos_err = np.linalg.norm(solution.state_vector[:3] - state_second[:3])
vel_err = np.linalg.norm(solution.state_vector[3:] - state_second[3:])
ok = pos_err < 1e-5 and vel_err < 1e-6
failures += 0 if ok else 1
print(f"  IOD state error: position {pos_err:.3e} km, velocity {vel_err:.3e} km/s -> {'ok' if ok else 'VIOLATION'}")

assert failures == 0, f"{failures} check(s) failed: the radar observation -> ECI conversion does not invert the measurement model"
sys.exit(0)
