"""C20 demo (change a): lambertUniversal must return the velocities of the single-revolution arc it was given.

Independent maths only: arcs are built from classical elements with numpy (perifocal state + rotation, Kepler's equation
by Newton), the solver is told the true short/long-way sense, and its answer is judged
  (1) against the true end-point velocities of the arc (the single-revolution Lambert solution with a given sense is
      unique), and
  (2) by checking that the returned orbit needs more than the time of flight for one revolution, i.e. that the returned
      velocities describe an arc of less than one revolution as the property demands.
"""
import sys
import warnings

import numpy as np

from resonaate.physics.orbit_determination.lambert import lambertUniversal

warnings.simplefilter("ignore")
MU = 398600.4418


def rot(axis, ang):
    c, s = np.cos(ang), np.sin(ang)
    if axis == 3:
        return np.array([[c, -s, 0], [s, c, 0], [0, 0, 1]])
    return np.array([[1, 0, 0], [0, c, -s], [0, s, c]])


def coe2rv(a, e, inc, raan, argp, nu):
    p = a * (1 - e**2)
    r = p / (1 + e * np.cos(nu))
    rp = np.array([r * np.cos(nu), r * np.sin(nu), 0.0])
    vp = np.sqrt(MU / p) * np.array([-np.sin(nu), e + np.cos(nu), 0.0])
    R = rot(3, raan) @ rot(1, inc) @ rot(3, argp)
    return R @ rp, R @ vp


def nu2M(nu, e):
    E = 2 * np.arctan2(np.sqrt(1 - e) * np.sin(nu / 2), np.sqrt(1 + e) * np.cos(nu / 2))
    return E - e * np.sin(E)


def M2nu(M, e):
    E = M
    for _ in range(200):
        dE = (E - e * np.sin(E) - M) / (1 - e * np.cos(E))
        E -= dE
        if abs(dE) < 1e-15:
            break
    return 2 * np.arctan2(np.sqrt(1 + e) * np.sin(E / 2), np.sqrt(1 - e) * np.cos(E / 2))


def arc(a, e, inc, raan, argp, nu0, tof_frac):
    n = np.sqrt(MU / a**3)
    tof = tof_frac * 2 * np.pi / n
    nu1 = M2nu(nu2M(nu0, e) + n * tof, e)
    r1, v1 = coe2rv(a, e, inc, raan, argp, nu0)
    r2, v2 = coe2rv(a, e, inc, raan, argp, nu1)
    dnu = (nu1 - nu0) % (2 * np.pi)
    return r1, v1, r2, v2, tof, dnu, (1 if dnu < np.pi else -1)


def period(r, v):
    energy = 0.5 * v.dot(v) - MU / np.linalg.norm(r)
    if energy >= 0:
        return np.inf
    return 2 * np.pi * np.sqrt((-0.5 * MU / energy) ** 3 / MU)


d2r = np.radians
CASES = [
    # (label, a, e, inc, raan, argp, nu0, fraction of the period)
    ("control: LEO quarter period", 7000.0, 0.01, d2r(51), d2r(10), d2r(20), d2r(100), 0.25),
    ("control: MEO long way, 70% of the period", 20000.0, 0.3, d2r(40), d2r(60), d2r(30), d2r(200), 0.70),
    ("control: e=0.65 starting at apogee, 93% of the period", 20000.0, 0.65, d2r(40), d2r(60), d2r(30), d2r(180), 0.93),
    ("target: e=0.65 starting just after perigee, 93% of the period", 20000.0, 0.65, d2r(40), d2r(60), d2r(30), d2r(30), 0.93),
    ("target: e=0.60 starting at 60 deg, 95% of the period", 20000.0, 0.60, d2r(40), d2r(60), d2r(30), d2r(60), 0.95),
]

failures = 0
for label, a, e, inc, raan, argp, nu0, frac in CASES:
    r1, v1, r2, v2, tof, dnu, sense = arc(a, e, inc, raan, argp, nu0, frac)
    w1, w2 = lambertUniversal(r1.copy(), r2.copy(), tof, sense)
    err = max(np.linalg.norm(w1 - v1), np.linalg.norm(w2 - v2))
    revs = tof / period(r1, np.asarray(w1))
    ok = np.isfinite(err) and err < 1e-5 and revs < 1.0
    print(
        f"{label}: transfer angle {np.degrees(dnu):6.1f} deg, sense {sense:+d}, "
        f"velocity error {err:.3e} km/s, returned orbit completes {revs:.3f} rev in the time of flight -> "
        f"{'ok' if ok else 'VIOLATION'}",
    )
    failures += 0 if ok else 1

assert failures == 0, f"{failures} arc(s) of less than one revolution were not reproduced by lambertUniversal"
sys.exit(0)
