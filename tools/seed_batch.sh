#!/bin/sh
# usage: tools/seed_batch.sh "C07 /tmp/mut/C07/out/2 C07-normalize-negpeak" ...
cd "$(dirname "$0")/.."
for spec in "$@"; do
  set -- $spec
  echo "=== $3"
  python3 tools/seed.py "$@" 2>&1 | tail -40
done
