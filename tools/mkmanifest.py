#!/usr/bin/env python3
"""Regenerates MANIFEST.json from the table below (keeps it valid at all times)."""
import json
from pathlib import Path

VERIF = Path(__file__).resolve().parent.parent
BASE_TB = ("Trusted: Lean 4.33 kernel; axioms propext, Classical.choice, Quot.sound only (audited each run); the Lean "
           "interpreter that runs the model; the Python harness feeding both sides the same inputs. ")

CHECKS = {
    "C07": dict(
        text="Theorems (Lean 4, all matrix sizes): every policy's decision is a subset of visibility; greedy/random task at most one "
             "target per sensor and greedy's target is the first column maximum; all-visible is exactly the visibility matrix; an "
             "assignment accepted by the dual-certificate checker is optimal among all complete one-to-one assignments (weak duality); "
             "masking makes dropping invisible pairs value-neutral; normalised metrics are <= 1; reward formulas. The model is tied "
             "to the code by an exact differential run of the real Decision/Reward classes against the model on exhaustive small and "
             "random large matrices, and the optimality of the real Munkres output is decided per case by Lean brute force (<=4x4) or "
             "the Lean-checked certificate (<=40x40)."
             " Decision objects live through earlier calls with other rewards and visibility; the metric list is given in any order; the reward values are checked against the documented combination directly.",
        note=BASE_TB + "scipy.linear_sum_assignment and numpy's generator are not modelled: their outputs are judged per case. "
             "Greedy target-relabelling is claimed only for unique column maxima (argmax tie-breaking).",
        technique="Lean 4 proof over executable model + differential correspondence with the real classes + Lean-checked dual certificates",
        ref="5/C07",
    ),
    "C17": dict(
        text="Theorems (Lean 4, induction over the history, any length, any per-step dimension): the sliding detector's metric/dof are the "
             "sums of the NIS values/dimensions of the last min(w,k) steps (deque invariant); the fading detector's metric is (1+d)*sum d^j q_(k-j) "
             "(closed form proved) with dof = mean dimension*(1+d)/(1-d); a maneuver is declared iff metric >= bound(dof); nis(c*nu)=c^2 nis(nu), "
             "nis >= 0 for PSD inverse covariance, and scaling the latest innovation by c >= 1 never undoes a detection (all three detectors). "
             "Tied to the code by feeding the real detector objects random histories and capturing (metric, alpha, dof) through their test= hook."
             " Significances run from 1e-30 to 1 - 1e-9, histories are calibrated to land next to the bound, and measurements come in units from 1000 down to 1e-6 (covariance entries of 1e-12).",
        note=BASE_TB + "chi2.isf is an oracle bound; numpy inv is compared with exact rational inverses to 1e-8; decisions within 1e-7 of the bound are skipped.",
        technique="Lean 4 proof (induction over histories) + differential correspondence with the real detectors",
        ref="5/C17",
    ),
    "C18": dict(
        text="Theorems (Lean 4): SMM and GPB1 weights are non-negative and sum to one after every update including the all-underflow reset; Bayes' rule "
             "when the evidence has not underflowed; mixing-matrix columns sum to one and mode probabilities stay valid; pruning always leaves a "
             "survivor of positive weight, renormalises to a valid vector (also when every weight is below threshold and model 0 is exactly 0) and "
             "removes exactly the below-threshold models otherwise; an SMM step that closes leaves exactly one model; the mixture covariance is "
             "symmetric PSD; hand-back with one survivor is that model. Tied to the code by running the real StaticMultipleModel/GPB1 objects on "
             "scripted member filters (2-30 models, underflow patterns) against the model."
             " Cases include states at orbital magnitudes with metre-level covariances (compared on the covariance's own scale), steps without observations, and an independent check of the GPB1 mixing with the filter's own mix_ratio."
             " A second multiple-model filter is updated right after the first at every step (what the first holds must not change).",
        note=BASE_TB + "Gaussian likelihood values and the chi-square gate bound are oracle inputs computed independently by the harness; member filters are scripted stand-ins.",
        technique="Lean 4 proof over executable model + differential correspondence with the real adaptive filters",
        ref="5/C18",
    ),
    "C16": dict(
        text="Theorems (Lean 4, over the rationals with the code's extracted PI/TWOPI): wrapAngle2Pi equals floor-mod with range [0,2pi); "
             "wrapAngleNegPiPi and residual have range (-pi,pi]; residual is invariant under whole turns of either argument, congruent to a-b and "
             "the unique such representative (wrap-point independence); vecResiduals = vecWrapNeg(a-b), turn-invariant, range [-pi,pi); the "
             "measurement update is turn-invariant and invariant under any permutation of the stacked measurement (matrix algebra). Tied to the code "
             "by exact-rational differential runs of the real helpers (seams, 1e6-turn offsets) and metamorphic runs of the real UKF on multi-step, "
             "mixed radar/optical histories."
             " The circular mean is also driven with the weights an unscented filter really uses (centre weight down to -2e10 for alpha = 1e-5), sigma angles wrapped one by one. wrapAngle2Pi, wrapAngleNegPiPi and fpe_equals are translated from /repo on every run (RV/Generated/Maths.lean) and proved equal to the model at the code's own constants (RV/Bridge/Maths.lean).",
        note=BASE_TB + "sin/cos/arctan2 inside angularMean are library calls (metamorphic checks on the real function only). Float rounding at a wrap "
             "boundary may select the other representative: counted as boundary skip.",
        technique="Lean 4 proof (floor/mod algebra, matrix algebra) + exact differential correspondence + metamorphic runs of the real UKF",
        ref="5/C16",
    ),
    "C14": dict(
        text="Theorems (Lean 4): for distinct points on or outside the sphere, lineOfSight holds iff every point of the segment is on or outside "
             "it (ordered-field algebra, all rationals) and is symmetric; cone membership depends only on inner products, hence is invariant under a "
             "common rotation about the vertical and positive scaling, and reflexive; the rectangular window is reflexive and invariant under a "
             "common azimuth rotation with arbitrary re-wrapping (north seam); the azimuth mask admits exactly its arc, wrapping or not; over the "
             "reals, arccos x <= t iff cos t <= x and the limb test arcsin(z/rho) < arcsin(Rl/d) - pi/2 iff the tangent-cone inequality. Tied to the "
             "code by differential runs of the real predicates (real Radar for the masks) and an independent exact/atan2 geometric oracle."
             " Fields of view are also built through FieldOfView.fromConfig after another sensor's that shares the first angle; surface sites 1-60 km apart are among the line-of-sight pairs. lineOfSight and RectangularFoV.inFieldOfView (and Sensor.isVisible with its masks) are translated from /repo on every run (RV/Generated/Geometry.lean, Sensors.lean) and proved equal to the model's predicates on the vector primitives (RV/Bridge/Geometry.lean, Sensors.lean).",
        note=BASE_TB + "numpy norm/arccos/arcsin/arctan2 are library calls (model in algebraic form, equivalence proved over the reals); decisions "
             "within rounding of a boundary are skipped and counted. The partial-occultation lens-area value is range-checked on samples only (not proved).",
        technique="Lean 4 proof (ordered-field algebra + real analysis) + differential correspondence + independent geometric oracle",
        ref="5/C14",
    ),
    "C04": dict(
        text="Theorems (Lean 4): rot1/2/3 and the polar-motion matrix are orthogonal, rot(-t) is the transpose; skewSymmetric(w)v = w x v and is "
             "antisymmetric; eci2ecef and ecef2eci are mutually inverse on position and velocity and rigid for any orthogonal reduction matrices; "
             "SEZ rotations are mutually inverse and rigid; cartesian2spherical/spherical2cartesian and razel/sez are inverse (direction-cosine "
             "form) with the stated range; RSW/NTW bases are orthonormal so rsw2eci inverts eci2rsw; lla2ecef lies on the ellipsoid with altitude "
             "along the normal; dayOfYear equals the independent civil calendar for every Gregorian date of every year and consecutive dates "
             "(month ends, 28/29 Feb, 31 Dec/1 Jan) are consecutive days; the sidereal angle advances linearly within a year and is continuous "
             "to 1e-9 rad across every year boundary 1990-2059 (exact rational kernel evaluation on the extracted constants). Tied to the code by "
             "differential runs with the real reduction matrices as inputs, round-trip oracles (geodetic ones including the poles and their neighbourhood) and a rotation-continuity probe around boundaries.",
        note=BASE_TB + "sin/cos/sqrt/arcsin/arctan2 are oracle inputs with their identities as hypotheses; nutation/precession series and the EOP table are data; "
             "ecef2lla is covered by the round-trip oracle only; continuity allows the jump explained by the EOP table's own daily dUT1 step.",
        technique="Lean 4 proof (polynomial identities, omega over the calendar, kernel-evaluated finite table) + differential correspondence + round-trip/continuity oracles",
        ref="5/C04",
    ),
    "C05": dict(
        text="An operation-for-operation soft-binary64 model (Lean 4, exact rationals) of getJulianDate, getCalendarDate, days2mdh, julianDateToDatetime, "
             "the ScenarioTime/JulianDate conversions, getTargetJulianDate and the step count of propagateTo, tied to the code BIT FOR BIT "
             "(float.as_integer_ratio == model rational) on every generated instant, offset and timed run. Theorems, for EVERY whole-second civil instant of 1901-2099: "
             "calendar -> Julian date -> calendar is the identity (civil_roundtrip) and the date fields come back exactly; Julian dates are strictly increasing and injective "
             "in civil time; a Julian date is within 21 microseconds of its exact value; scenario time between two instants up to 1e8 s apart is their civil distance within half "
             "a second (4.1e-5 s) with exact subtraction and multiplications; a timed run of D seconds (a multiple of the step) takes exactly D/dt steps. The proofs show every "
             "float operation of the three routines to be exact except the quotient S/86400 and the sum J+frac (errors 2^-54 and 2^-32 day), the year guess to be the year or the "
             "next (corrected by the day-of-year test), and the month loop by exhaustion; plus machine-checked witnesses of the repaired and unrepaired second rules. The property "
             "itself is evaluated on the real code for every case (round trip, strict monotonicity, offset error, floor(D/step) steps, epochs)."
             " Decimal hours go through the real runResonaate, and consecutive run calls are made on a real truth-only scenario whose stored epochs are read back. The stardate.py functions themselves (getJulianDate with its guards, getCalendarDate, days2mdh with its month loop, the JulianDate/ScenarioTime arithmetic, convertToScenarioTime, convertToJulianDate) are TRANSLATED from /repo to Lean on every run (harness/py2lean.py -> RV/Generated/Stardate.lean) and RV/Bridge/Time.lean proves each translated definition equal to the model the theorems are about, so an edit of those functions breaks a proof obligation directly.",
        note=BASE_TB + "IEEE-754 binary64 round-to-nearest-even for + - * / and exact floor on the host (checked bit for bit on every case); CPython datetime arithmetic "
             "(the labelling of the civil time line by `datetime + timedelta`, an hypothesis of timed_run_steps, tied by the bit-exact comparison of getTargetJulianDate); "
             "theorems are for whole seconds (microsecond = 0), instants with microseconds are covered by the bit-exact correspondence only; "
             "propagateTo is driven on a stand-in scenario that only ticks the real ScenarioClock.",
        technique="Lean 4 soft-float model with bit-exact differential correspondence; universal round-trip, monotonicity, accuracy and step-count theorems proved over it",
        ref="5/C05",
    ),
    "C01": dict(
        text="Theorems (Lean 4): consecutive step windows share their boundary bit for bit; under strict monotonicity of the Julian-date map (proved for the real map in C05 and imported as jd_monoOn_of_civil), an event "
             "row is relevant in step k iff its civil interval meets (start+(k-1)dt, start+k dt] and its instance matches, hence an instantaneous event "
             "is delivered in exactly one step (existence at ceil((tau-start)/dt), uniqueness), also on a boundary, and interval events in exactly the "
             "overlapping steps, only for the named instance; by induction over steps of the agent's queue model (append on delivery, prune at "
             "submission, fire inside the step) an impulse with a unique instant is applied exactly once whether its scenario time falls inside a "
             "step, on a boundary or a hair beside one. Witness theorems record the unrepaired window gap, instance filter and double application, "
             "and that coincident impulses lose one. Tied to the code by bit-exact comparison of the windows the real stepForward computes, delivery "
             "runs against a real in-memory database (instance ids 0, 1, 2: id 0 is legal), an in-process pipeline of the real query/handleEvent/prune/TwoBody.propagate code, "
             "and impulses driven through a real Scenario (two targets, several impulses in different steps) against Kepler arcs joined by the impulses."
             " Two manoeuvre events of one target inside one step, an impulse right after an expired finite burn, and an impulse on a target that joins in the same step are run through real scenarios, each against the same scenario without that impulse. The scenario-time/Julian-date conversions used by the windows are translated from /repo on every run and proved equal to the model (RV/Bridge/Time.lean). Agent.prunePropagateEvents is translated from /repo on every run (RV/Generated/Agents.lean) and proved to be the model's repaired prune rule on impulses, with a membership characterisation for events with a duration (RV/Bridge/Agents.lean). One open known finding (known_findings.json, scenario-impulse:at-stop-late): an impulse exactly at the final instant of the span whose Julian-date round trip lands after it is not applied within the span; the check prints KNOWN-FINDING for exactly that case.",
        note=BASE_TB + "scipy's event location is modelled by its documented rule and exercised on every impulse case; strict monotonicity of "
             "datetimeToJulianDate is a hypothesis here (C05) and checked bit-exactly on every generated window; events at/before the start are outside the property.",
        technique="Lean 4 proof (tiling over a monotone map, induction over steps) + bit-exact window correspondence + differential delivery/impulse pipeline on the real code",
        ref="5/C01",
    ),
    "C19": dict(
        text="Theorems (Lean 4): if any registered agent has no record for the epoch the import raises the missing-ephemeris error naming it, whatever else "
             "the database holds; a successful import gives every registered agent the state of its (first) record, empties the registrant set and leaves "
             "unregistered agents untouched (invariant by induction over the returned rows, duplicate-free registrant keys); the observation loader "
             "returns each stored position/target key exactly once and everything when keys are distinct; the public write methods are rejected. A "
             "witness theorem records the unrepaired count comparison. Tied to the code by running the real EphemerisImporter and "
             "loadImportedObservations/_attachObsMetadata on real SQLite importer files built per case (supersets, subsets, gaps, unrelated agents "
             "hiding a missing one, duplicate observations), with SHA-256 of the file before and after."
             " Importer databases carry Julian dates either converted from the time stamp or as a running scenario writes them (start date plus elapsed seconds), which differ in the last bit at a third of the minutes."
             " The engine's own step is run with imported observations only, epoch after epoch, and the agent factories are asked for every combination of the two realtime flags.",
        note=BASE_TB + "SQLAlchemy/SQLite return what was stored; agents are stand-ins whose importState is the real TargetAgent.importState; the path from the "
             "engine's observation list to the filter update is covered by C08/C09, not here.",
        technique="Lean 4 proof (invariant over the import loop) + differential correspondence on real importer database files",
        ref="5/C19",
    ),
    "C06": dict(
        text="Theorems (Lean 4, Mathlib matrices over the rationals, any dimension, any admissible tuning): the sigma-point weights sum to one; the weighted "
             "mean of linearly mapped sigma points is the mapped centre and their weighted cross covariance about the mapped centres is G1 (L L^T) G2^T for any "
             "factor L (negative centre weight, alpha and beta drop out) - hence pred_x = F x, pred_p = F P F^T + Q, and in redraw mode S = H P- H^T + R, "
             "C = P- H^T (the Kalman update for any stacked H), in no-redraw mode the documented variant with A = F P F^T; P- - P+ = K S K^T is PSD, P+ is symmetric, and by the Joseph "
             "form PSD whenever prior and noise are. Tied to the code by running the real UnscentedKalmanFilter on mock linear dynamics/measurements "
             "(1-8 states, stacked observations incl. totals equal to 2n+1, four tunings, multi-step observed/unobserved/forecast-then-missed patterns) against "
             "the executable model and an exact rational Kalman filter."
             " The hand-back of prediction, forecast and update through their result objects runs in fresh interpreters, once with a forecast result applied first and once with an update result first."
             " A second filter of the same dimensions is stepped alongside (all predictions, then all updates).",
        note=BASE_TB + "numpy cholesky/inv/sqrt are oracle inputs; tolerances scale with the measured conditioning of the exact reference (capped at 1e-4); the list-matrix "
             "executable model and the Mathlib statements are the same formulas written twice.",
        technique="Lean 4 proof (matrix algebra) + differential correspondence with the real UKF on linear systems against an exact Kalman filter",
        ref="5/C06",
    ),
    "C08": dict(
        text="Theorems (Lean 4): any two results of one batch commute under the processResults merges (reward jobs write different rows; task jobs belong to "
             "different targets and MAY report the same sensor - the merge keeps the report of the highest target id; record lists compared as multisets), merges respect state equivalence, hence by induction over List.Perm the post-step engine "
             "state is the same for EVERY permutation of EVERY batch; the step's observation/miss lists contain exactly the records the jobs returned, each "
             "once (the lists are reset per step); every tasked sensor ends the step with the pointing state reported by the highest-target job that tasked it. Witness theorems record the "
             "unrepaired quadratic miss list, the per-job reset of sensor_changes and the last-write-wins merge. Tied to the code by real scenarios on real Ray (1-4 radars x 1-5 targets, "
             "all four policies, displaced truths, slow sensors, narrow fields of view, jobs that return a hit and a miss together) in which the harness chooses the order JobExecutor.join processes finished "
             "jobs (FIFO, LIFO, seeded random): visibility/reward/decision matrices, observations, misses, pointing state, estimates, truths and stored rows are "
             "compared bit for bit across orders, and the processed job sequence of every step is replayed through the model."
             " Cases include serendipitous observations with wide cones (a target reported by several jobs of one sensor in a step) and an agent with id 0; handed_list_order_independent proves that with the engine's list kept sorted every filter is handed the same list, in the same places, for every completion order."
             " Steps go through the real propagateTo (which writes the database), the output cadence varies, and every record a step produced must be stored when the run ends on a save.",
        note=BASE_TB + "Ray copies objects to workers and ray.wait is complete (only the processing order is chosen); the guarded hook seeds a task job's measurement "
             "noise from the job so that noise does not depend on the worker process; all four decision policies are exercised; with AllVisibleDecision (advanced radars only) several jobs of a step report the same sensor and the model's rule (the report of the highest target id) is compared with the sensor's actual end-of-step state.",
        technique="Lean 4 proof (commutativity + induction over permutations) + real Ray runs under harness-chosen completion orders",
        ref="5/C08",
    ),
    "C15": dict(
        text="Theorems (Lean 4): in every propagation call the thrust is on exactly on the overlap of the call with [start, end] - for calls containing the "
             "start, the end, both or neither, under the re-arm rule of _prepEvents and the phase-dependent event function - hence, by a telescoping clip "
             "argument, the total time with thrust on is end - start for EVERY division of the run into calls (any step size, aligned or not); a witness "
             "theorem records the unrepaired overrun (60-150 s with 60 s steps thrusts to 180 s). Several burns of one agent share one thrust slot: "
             "slot_is_own_interval proves that for burns that do not touch, at every instant of every call the slot holds burn b exactly on b's own interval, "
             "whatever else is queued (each_burn_own_duration: each is on for its own end - start); slot_witnesses records what a _prepEvents that clears the "
             "slot for burns not under way does. Tied to the code by comparing, call by call, every thrust callback (burn, time, installed/removed) and the "
             "slot at the end of the call of the real SpecialPerturbations/TwoBody propagators (real event classes, real prune rule, one or two burns per agent) "
             "with the model's timeline, and the final state with an independent coast/thrust/coast(/thrust/coast) integration (the property itself)."
             " The reference trajectory takes the natural forces from the model and evaluates the thrust itself from its documented definition (NTW axes from r and v), with magnitudes and components that vary from case to case; burns enter through the real data-event handleEvent; a coasting companion shares the dynamics object. The queue prune that decides which burns reach the propagator (Agent.prunePropagateEvents) is translated from /repo on every run and characterised in RV/Bridge/Agents.lean (a burn is kept exactly while the agent's time is before its end, once).",
        note=BASE_TB + "scipy's terminal-event location is the abstract integrator (an event fires at its root); trajectory equality is numerical, against a reference "
             "integration with the same tolerances; boundaries within 1e-9 s before the end are excluded (the callback's tolerance).",
        technique="Lean 4 proof (per-call overlap + telescoping) + differential correspondence of callback times + reference-trajectory oracle",
        ref="5/C15",
    ),
    "C09": dict(
        text="Theorems (Lean 4) over a model of what a run writes (clock epochs, initial save, stepForward recording the stepped epoch, the output test on the clock "
             "time, saveDatabaseOutput inserting missing epochs before one bulk save): the referential-consistency invariant (unique epochs; every truth, estimate "
             "and transient row refers to a stored epoch; rows waiting to be saved wait together with their epoch) holds initially and is preserved by every step, "
             "for any step/output/span incl. runs past the configured stop; truth and estimate rows are exactly the initial state plus one row per agent held (target tracked) at each output epoch, also when agents join or leave at run time; one call "
             "or several consecutive calls give the same database; a witness theorem records the unrepaired dangling rows. Tied to the code by real scenarios on real "
             "Ray whose SQLite file is audited with SQL (uniqueness, anti-joins for every epoch and agent reference in seven tables, per-epoch counts, timestamp vs "
             "Julian date, read-back equality with the live objects) and compared with the model's predicted tables; atomicity by fault injection in bulk saves of 4, 700 and 1500 rows; scenarios include a target joining and a target leaving at run time."
             " Output steps of 3-5 physics steps with the configured stop inside a save interval and the run going past it are included."
             " A target tracked by two engines and manoeuvre detections between two saves are included; every table is audited for rows identical in every column.",
        note=BASE_TB + "SQLAlchemy/SQLite transaction semantics are exercised (a failing row in a bulk save), not proved; states are abstracted to row identities in the model.",
        technique="Lean 4 proof (invariant by induction over steps) + SQL audit of real output databases compared with the model",
        ref="5/C09",
    ),
    "C10": dict(
        text="Theorems (Lean 4) over a model of the truth side of a step (one propagation job per agent, results applied in completion order, an arbitrary opaque "
             "rest-of-system that may read the truth): an agent's new truth state is the propagation of its own previous state whatever the other agents and the completion "
             "order are; two completion orders give the same truth; by induction over steps, two runs sharing dynamics, initial truth and propagation events have equal truth at "
             "every step for ANY two rest-of-systems (estimation on/off, filters, rewards, decisions, sensors, noise, output cadence) and any permutation of job completions; "
             "other agents are irrelevant; one call or consecutive calls are the same fold. Tied to the code by pairs of real runs on real Ray compared BIT FOR BIT on every "
             "truth state per step and on the stored truth rows: truth-only, other policies, other noise seed, output every second step, uneven propagateTo splits, permuted "
             "completions, extra/fewer targets, the first target dropped, targets in reverse order, an extra sensor; two-body and perturbed truth, with an NTW impulse; targets of "
             "different mass and area with radiation pressure on; once per scenario one variant runs in a fresh interpreter, so that nothing the process built earlier can mask a dependence."
             " A variant has an agent fly under the id of a late joiner, leave, and the id be used again.",
        note=BASE_TB + "that the real step has the modelled structure (the truth update reads nothing but truth) is exactly what the bit-for-bit pairs test; Ray's worker isolation is assumed and exercised.",
        technique="Lean 4 proof (non-interference by induction, order independence) + bit-for-bit differential runs of real scenario pairs",
        ref="5/C10",
    ),
    "C02": dict(
        text="Theorems (Lean 4) over the first-failure cascade that collectObservations/attemptObservation/isVisible implement, for ANY list of constraint checks: a reported "
             "observation satisfies every constraint; a miss states the reason of a constraint that really fails (and all earlier ones hold); if all hold the target is observed; "
             "exactly one record for the primary target; a sensor that cannot slew reports one slew miss and nothing else (no serendipitous observation about a pointing it never "
             "reached); serendipitous records are observations only, of offered targets that satisfy every constraint, and none when disabled. Tied to the code by running the real "
             "Radar/AdvRadar/Optical collectObservations on ground and space hosts and comparing outcome and reason with the cascade fed by an INDEPENDENT evaluation of each "
             "constraint (vector geometry for line of sight, atan2 angles for both field-of-view shapes across the north seam, masks incl. wrapping ones, range limits, slew budget, "
             "limb cone), plus the reported measurement against plain trigonometry on the slant-range vector (noise-free equality, 6.5 sigma with noise)."
             " A real scenario with a slow mount and geostationary targets further apart than one step's slew budget is run as well: reachability is judged on the history of reported observations alone; optical cases at the edge of the Earth's shadow hold equal-size serendipitous targets on both sides of it."
             " A sensor with a correlated stated noise is sampled 1500 times and the draws whitened with the stated covariance. Sensor.isVisible and Radar.isVisible are TRANSLATED from /repo to Lean on every run (RV/Generated/Sensors.lean) and RV/Bridge/Sensors.lean proves that they are the cascade over the named list of checks in the code's order, and carries the two main theorems to the translated code; reordering, dropping or altering a test breaks that proof.",
        note=BASE_TB + "photometric constraints (solar flux, visual magnitude, galactic exclusion, lighting) and the radar range equation are evaluated with the code's own helpers: "
             "their place in the cascade is checked, their physics is not re-derived; cases with a deciding constraint within 1e-9 of its boundary are skipped and counted.",
        technique="Lean 4 proof over an executable cascade model + differential correspondence against an independent geometric evaluation",
        ref="5/C02",
    ),
    "C12": dict(
        text="Theorems (Lean 4, polynomial identities with angles as (cos, sin) pairs and sqrt/norm as oracles constrained by their squares): the state coe2eci builds has exactly the "
             "radius p/(1+e cos v), speed, r.v sign, angular momentum p*sq*(sin O sin i, -cos O sin i, cos i), node line, eccentricity vector e*P and semi-major axis that eci2coe "
             "measures, and the cosines/quadrant tests of argument of perigee, argument of latitude and true anomaly are those of the angles given; the four branches are exhaustive "
             "and disjoint, degenerate elements are returned as exactly zero, every returned angle is in [0, 2pi), singularityCheck preserves the signed longitude up to whole turns "
             "(node angle counted backwards for retrograde equatorial orbits, with a witness of the unrepaired mirror image); the equinoctial frame is orthonormal and right-handed, "
             "p/q invert the unit angular momentum (direct and retrograde), h^2+k^2=e^2, radius and areal velocity from equinoctial elements, exact recovery of the eccentric longitude (the arctan2 arguments are (sin F, cos F) themselves); true/eccentric anomaly maps are mutually inverse as unit "
             "vectors. Tied to the code by exact-rational evaluation of every modelled function on the real code's own inputs (coe2eci, flags/branch, singularityCheck, eci2coe angle "
             "selection, sma, eccentricity vector, angular momentum, equinoctial basis, p/q, eqe2eci) and by round trips of the real conversions, Newton solvers and the ECI/COE/EQE "
             "configuration descriptions over orbits straddling every threshold."
             " Every configuration is asked for its state twice, the first answer modified in place in between. wrapAngle2Pi / wrapAngleNegPiPi are translated from /repo on every run and proved equal to the angle model (RV/Bridge/Maths.lean).",
        note=BASE_TB + "arccos/arctan2/sqrt are oracles in the theorems; convergence of the Newton solvers is exercised on the real code only; orbits inside the circular/equatorial "
             "limits are reproduced to 4x the limit, others to 2e-7 relative (arccos resolution near 0/pi). One open known finding: wrapAngle2Pi returns 2*pi for tiny negative input.",
        technique="Lean 4 proof of the element/state identities + exact-rational differential correspondence + real-code round trips",
        ref="5/C12",
    ),
    "C03": dict(
        text="Theorems (Lean 4): the integrator is an abstract lawful flow; around it the code's restart loop is modelled exactly. Composability: propagating to any intermediate "
             "time and on equals propagating straight through, with any time-ordered list of state-jump events, each applied once in the part it falls in (induction over the event "
             "list); bulk output: the n-th state propagateBulk returns equals a separate propagate to the n-th requested time, for every output grid; batch consistency for every "
             "batch size K: the strided slices state[jj:jj+half:step] and state[jj+half::step] of the C-order flattened (6,K) array touch exactly rows 0-2 and 3-5 of column jj, "
             "the batched derivative is the flattened batch of per-column derivatives and a column's derivative does not depend on the other columns; the Lagrange-coefficient "
             "Kepler solution has angular momentum (f*gd - fd*g) r0 x v0 (the solver's acceptance test is conservation of h), and such steps compose with multiplicative "
             "determinant; binary64: moving d seconds between start epoch and elapsed time changes the Julian date the force model sees by at most 3*2^-32 + 3*2^-44 day (6e-5 s). "
             "Tied to the code by exact correspondence (numpy slices/ravel against the index model; the real batched right-hand side against the model's ravel of the real "
             "per-column right-hand sides, bit for bit; the real propagate/propagateBulk loop with real impulse events on constant-velocity dynamics against the model's loop; the "
             "epoch expression bit for bit) and by the metamorphic relations evaluated on the real integrators: split vs whole, batch (C, Fortran, transposed-view, strided "
             "layouts) vs single, bulk vs single, two-body vs closed-form Kepler, energy and angular momentum drift, epoch shift across midnight and year ends incl. the force at "
             "one instant described both ways."
             " Batches also mix a low-orbit member (in and out of the Earth's shadow) with always-lit high ones under radiation pressure, so that a quantity computed once per batch instead of once per member shows."
             " The final output of propagateBulk is held to 1e-8 km against a separate call (the same integration), and a day-long arc with Sun and Moon is split after a third.",
        note=BASE_TB + "scipy solve_ivp is assumed to approximate a lawful flow within its tolerances: real trajectories are compared to 3e-4 km / 3e-7 km/s per revolution "
             "(epoch-split: 2e-6 km, 1e-3 km with radiation pressure because of the shadow-boundary kink); the loop restarts one ulp after an event, the model at the event time; "
             "convergence of the universal-variable iteration is exercised on the real code only.",
        technique="Lean 4 proof over an abstract flow + exact layout/loop/epoch correspondence + metamorphic relations on the real integrators",
        ref="5/C03",
    ),
    "C13": dict(
        text="Theorems (Lean 4): the third-body expression the code evaluates (Battin's q) equals the direct formula (r3-r)/d^3 - r3/R^3 for every geometry (via "
             "|r|^2 + 2 r.(r3-r) = R^2 - d^2); the relativistic term equals the Schwarzschild correction mu/(c^2 r^3)((4mu/r - v^2) r + 4 (r.v) v); radiation pressure is the "
             "cannonball model: along Sun->satellite, magnitude P*C_R*A/m*(AU/d)^2*fraction/1000, zero in full shadow; the sum contains point mass, geopotential, the configured "
             "third bodies (a plain sum) and exactly the switched-on terms; the Cunningham V/W recursion gives the textbook gradient in closed form for the complete degree-2 field (C20, C21/S21, C22/S22) "
             "and J3, term by term, for every position; the Earth-fixed sandwich with an orthogonal matrix preserves lengths and inverts; Clenshaw evaluation equals the Chebyshev series for any number of "
             "coefficients and the scaled segment argument lies in [-1, 1). Tied to the code by exact-rational correspondence of each term, of the V/W tables, of the harmonic "
             "sum (degree <= 12), of the segment scaling and the Chebyshev value with the real functions, and by the real _differentialEquation compared with an independent "
             "reference for every configuration subset: gradient of a potential built from the file's normalised coefficients with a separate Legendre recursion (all four "
             "files, degree <= 20), direct third-body formula, own two-disk visible fraction incl. penumbra, Schwarzschild term, batch columns bit for bit; Sun/Moon continuity "
             "across segment boundaries and agreement with low-precision analytic ephemerides.",
        note=BASE_TB + "general degree/order equality of recursion and potential gradient is numerical (1e-7 relative) - the theorems cover degree 2 and J3; Sun/Moon accuracy only against "
             "Vallado's low-precision formulas (2e-3 / 1e-2); the Earth-fixed rotation of the instant is taken from the code (C04).",
        technique="Lean 4 proof of the term identities + exact-rational correspondence + independent numerical reference on the real right-hand side",
        ref="5/C13",
    ),
    "C20": dict(
        text="Theorems (Lean 4): for ANY Lagrange coefficients f, g, gdot with g != 0 that a Lambert iteration ends with, the velocities _calculateVelocities returns close the arc "
             "exactly: propagating (r1, v1) with the coefficient set completed by fdot = (f*gdot - 1)/g (so f*gdot - fdot*g = 1, the Kepler solver's own acceptance test) arrives at r2 "
             "with the returned v2; both ends carry the angular momentum (r1 x r2)/g and both velocities lie in the transfer plane; radarObs2eciPosition inverts the radar "
             "measurement model for orthogonal frame matrices (with a witness that a non-transposed matrix does not) and the range/azimuth/elevation part round-trips (C04); the "
             "transfer-direction rule, the single-pass rule and the choice of the stored observation are characterised exactly. Tied to the code by correspondence of "
             "_calculateVelocities on the coefficients recovered from each real solution, and by the real solvers on arcs generated by the real Kepler propagator (both senses, "
             "e <= 0.7, 2-98 % of a period, extra weight on long-way half-period arcs), re-propagated; the real observation inversion for ground and space sensors; the real "
             "LambertIOD (both solvers) fed from a real in-memory database with two noise-free radar observations 2-39.5 % of a period apart."
             " Arcs about other central bodies (Moon, Mars, Venus, Uranus) use the solvers' mu argument; the orbit determination is also driven with observation pairs closer than the configured spacing and older observations stored.",
        note=BASE_TB + "convergence of the universal-variable and Battin iterations is exercised on the real code only (arrival within 1e-3 km + 5e-6 km per second of flight); arcs "
             "are generated and re-propagated with the code's own Kepler solver; transfer angles within 8 deg of 0/180/360 are skipped and counted.",
        technique="Lean 4 proof of arc closure and observation inversion + real solvers on generated arcs + real IOD with a real database",
        ref="5/C20",
    ),
    "C11": dict(
        text="Theorems (Lean 4, corollaries of C04/C05 for the Terrestrial model): the state the site reports, converted back with the reduction of the same instant, is exactly "
             "the configured Earth-fixed position at rest; the anchor computed at construction is the configured geodetic point; the inertial velocity is PNR(omega x W r) with "
             "speed omega times the distance from the axis; the site is evaluated at start + t whenever the Julian-date round trip returns the start instant, and a witness "
             "records the unrepaired one-second-early epoch. Tied to the code by a bit-exact comparison of Terrestrial.datetime_start with the time model and by running the "
             "real dynamicsFactory/Terrestrial.propagate path for sites anywhere on Earth, odd-second starts, runs across UTC midnights, the 2016 leap second and year ends, and "
             "facilities that join after the clock advanced, checking position (< 1 m), Earth-fixed velocity and inertial speed at every step."
             " Half of the sites have a second facility 2-40 m away built just before them in the same process. The Julian-date and calendar functions are translated from /repo on every run and proved equal to the model (RV/Bridge/Time.lean).",
        note=BASE_TB + "orthogonality of an instant's reduction matrices is a hypothesis of the theorems; the universally quantified Julian-date round trip is C05's (partial there).",
        technique="Lean 4 corollaries of the frame and time theorems + real-code evaluation of the property at every step",
        ref="5/C11",
    ),
}

PLANNED = {}

# round 7: what each check gained (appended to the level text)
ROUND7 = {
    "C01": " Round 7: the event function of an impulse (ScheduledImpulse.__call__) and the query getRelevantEvents builds (its .filter comparisons read as a row predicate) are TRANSLATED from /repo on every run; RV.Bridge.Thrust proves the event value changes sign at the impulse's own time only and is zero exactly inside finfo.resolution, RV.Bridge.EventsQuery proves the query IS the model's `relevant` predicate (half-open window, named instance only).",
    "C15": " Round 7: ScheduledFiniteThrust.__call__, getStateChangeCallback and one pass of Celestial._prepEvents' re-arm loop are TRANSLATED from /repo on every run; RV.Bridge.Thrust proves the event function has its root at the start while off and at the END while on, the callback switches on iff the end is at least 1e-9 (as binary64 reads it, within 1e-25 of the model's) away, and the re-arm fold is the model's prepSlot with flags armedAfterPrep. Round 8: after each case a pass that stops INSIDE a burn is followed by the whole arc in one call with the same event objects (what a pass leaves on them must not leak into the next).",
    "C17": " Round 7: the three detectors' __call__ methods and oneSidedChiSquareTest are TRANSLATED from /repo on every run (chi2.isf a function parameter, the deques lists); RV.Bridge.Detect proves them to be the model's standardStep / Sliding.step / Fading.step and the decision to be `detect` (strict <: a statistic that reaches the bound is a detection); exact histories whose statistic IS the bound (significance found by scanning doubles) exercise that equality on the real code.",
    "C04": " Round 7: dayOfYear is TRANSLATED from /repo on every run and RV.Bridge.Conversions proves it equal to the model's for every year and month 1-12; seconds2hms, utc2TerrestrialTime (Terrestrial Time affine in the UTC second, continuous through the end of the day) and the two sidereal-time polynomials (RV.Bridge.Sidereal: equal to the model's gmst/gast) are translated as well; the check runs in a daylight-saving time zone (TZ=EST5EDT,M3.2.0,M11.1.0) with probes at its switch instants, compares the absolute Earth-fixed orientation with the 1982 mean sidereal time less precession (6e-4 rad), converts a neighbouring observer 1-70 m away first in half of the razel cases and lays range/elevation/azimuth off along the observer's own horizon axes.",
    "C11": " Round 7: RV.Bridge.Conversions (dayOfYear translated from /repo) is audited with this check; sites within 60 deg of the equator are also compared with an absolute reference (right ascension = 1982 mean sidereal time + east longitude - precession, 6e-4 rad); starts in January-March of leap years.",
    "C05": " Round 7: the step count of Scenario.propagateTo is TRANSLATED from /repo on every run (binary64 semantics; the loop read as the number of times its body runs, the refusing else-branch as a guard) and RV.Bridge.ScenarioRun proves it to be Time.propagateSteps, the function timed_run_steps is about.",
    "C20": " Round 7: determineTransferDirection and checkSinglePass are TRANSLATED from /repo on every run; RV.Bridge.Lambert proves them to be the model's transferDirection / singlePass (inside one period: accepted, the transit time handed on unchanged; a non-positive gap raises). Round 8: 30 % of the low-orbit IOD cases replay a detection episode on ONE LambertIOD object (a refused attempt, a newer observation stored, the next attempt).",
    "C13": " Round 7: the branch cascade of calculateSunVizFraction (which scales the radiation pressure) is TRANSLATED from /repo on every run; RV.Bridge.Geometry proves it 1 on the sunward side, 0 in full occultation, 1 without overlap, whatever sqrt/arccos are.",
    "C12": " Round 7: EquinoctialElements.fromECI/fromCOE(...).toECI() for both element sets (found defect 691b191); COE configurations that carry two spellings of an angle with the first exactly 0.0.",
    "C14": " Round 7: satellites exactly on the Earth-Sun line behind the Earth (found defect 560e552); ConicFoV.inFieldOfView and the branch cascade of calculateSunVizFraction are TRANSLATED from /repo (half the cone, reflexive, monotone in the cone; fraction 1 sunward, 0 in full occultation, 1 without overlap).",
    "C02": " Round 7: Sensor.canSlew and ConicFoV.inFieldOfView are TRANSLATED from /repo on every run (RV.Bridge.Geometry: reachable iff slew rate x time since last tasked covers the separation; waiting longer never loses reachability). Round 8: the stated-noise oracle fails on NaN as well and a +0.9 and a -0.9 correlated stated noise are pinned. OPEN MISS recorded in DESIGN 0.9: a limb elevation frozen per space-based optical sensor (needs an eccentric host followed over hundreds of steps) is not yet reported by this check.",
    "C07": " Round 7: 30 % of the small cases are decided by a real CentralizedTaskingEngine living through several steps (generateTasking, decision matrix and task rows), half of them after a step with the same rewards and another visibility.",
    "C08": " Round 7: the engine's observation list is compared between completion orders as a SEQUENCE (it is what the filters stack and the rows are written from), not only as a multiset.",
    "C10": " Round 7: impulses inside steps, a third (one pinned) inside the very first step of the run; variant drop_maneuvering (the others fly as if the manoeuvring target had never been there).",
}


def main():
    props = [json.loads(l) for l in (VERIF / "properties.jsonl").read_text().splitlines() if l.strip()]
    checks, na = [], []
    for p in props:
        pid = p["id"]
        if pid in CHECKS:
            c = CHECKS[pid]
            checks.append({
                "property_id": pid,
                "quick_cmd": f"./check {pid} --tier quick",
                "thorough_cmd": f"./check {pid} --tier thorough",
                "evidence_file": f"evidence/{pid}.json",
                "replay_cmd_template": f"./check {pid} --replay {{path}}",
                "engine": "lean-model+correspondence",
                "level_claimed": {"category": "proof", "text": c["text"] + ROUND7.get(pid, ""), "design_ref": c["ref"]},
                "level_note": c["note"],
                "technique": c["technique"],
            })
        else:
            na.append({"property_id": pid, "reason": PLANNED.get(pid, "not claimed yet: the Lean model and correspondence check for this property are not built at this commit (DESIGN.md section 5 has the plan); no other technique is substituted")})
    m = {
        "version": 1,
        "setup_cmd": "./setup.sh",
        "hooks": {
            "guard": "RESONAATE_VERIF",
            "enable": "environment variable RESONAATE_VERIF=1 (set by ./check and inherited by the Ray workers)",
            "baseline_off_cmd": "cd /repo && /venv/bin/python -m pytest -ra -q -p no:cacheprovider --timeout=900 --continue-on-collection-errors",
            "source_commits": ["06d62ab"],
            "add_only": True,
        },
        "engines": [{
            "name": "lean-model+correspondence",
            "path": "lean/ harness/",
            "serves_properties": [c["property_id"] for c in checks],
            "kind_free_text": "Lean 4 executable models and theorems (lake project lean/), Python differential harness driving the real code and the model through a line protocol, ast extractor regenerating lean/RV/Generated from /repo on every run",
        }],
        "checks": checks,
        "not_applicable": na,
        "notes": "See DESIGN.md. known_findings.json lists open findings and fixed defects (fix: commits in /repo).",
    }
    (VERIF / "MANIFEST.json").write_text(json.dumps(m, indent=1) + "\n")
    print(f"{len(checks)} checks, {len(na)} not claimed")


if __name__ == "__main__":
    main()
