#!/usr/bin/env python3
"""Run the pinned suite for a stored seeded change in its own scratch worktree and merge the result into its meta.json.

usage: tools/seed_suite.py <name> [--merge-only]
The suite result is first written to seeded/<name>/suite.json (so that it can run while tools/seed.py --no-suite is
working on the same seed); `--merge-only` folds an existing suite.json into meta.json.
"""
import json
import os
import subprocess
import sys
import xml.etree.ElementTree as ET
from pathlib import Path

VERIF = Path(__file__).resolve().parent.parent
ALWAYS_FAIL = {"tests.common.test_config", "testRemoteData", "testCalculateMetric", "testEntryPoint", "testModuleCommand"}


def sh(cmd, cwd=None, env=None, timeout=3600):
    p = subprocess.run(cmd, shell=True, cwd=cwd, env=env, capture_output=True, text=True, timeout=timeout)
    return p.returncode, p.stdout + p.stderr


def merge(dst):
    sj, mj = dst / "suite.json", dst / "meta.json"
    if sj.exists() and mj.exists():
        meta = json.loads(mj.read_text())
        meta.update(json.loads(sj.read_text()))
        if "full pinned suite in the patched worktree" not in meta["ran"]:
            meta["ran"].append("full pinned suite in the patched worktree")
        meta["confirmed"] = meta["demo_clean_rc"] == 0 and meta["demo_patched_rc"] != 0 and not meta.get("suite_new_failures")
        mj.write_text(json.dumps(meta, indent=1))
        sj.unlink()
        print(dst.name, "confirmed" if meta["confirmed"] else "NOT confirmed", meta.get("suite_new_failures"))


def main():
    name = sys.argv[1]
    dst = VERIF / "seeded" / name
    if "--merge-only" in sys.argv:
        return merge(dst)
    wt = Path(f"/tmp/seedsuite-{name}-{os.getpid()}")
    rc, out = sh(f"git -C /repo worktree add --detach {wt} HEAD")
    assert rc == 0, out
    res = {}
    try:
        env = dict(os.environ, PYTHONPATH=f"{wt}/src", PYTHONDONTWRITEBYTECODE="1")
        rc, out = sh(f"git apply {dst}/patch.diff", cwd=wt)
        assert rc == 0, "patch does not apply: " + out
        xml = f"/tmp/seedsuite-{name}.xml"
        sh(f"/venv/bin/python -m pytest -q -p no:cacheprovider --timeout=900 --continue-on-collection-errors --junitxml={xml}", cwd=wt, env=env, timeout=3000)
        bad = []
        for tc in ET.parse(xml).getroot().iter("testcase"):
            if tc.find("failure") is not None or tc.find("error") is not None:
                ident = f"{tc.get('classname')}::{tc.get('name')}"
                if not any(a in ident for a in ALWAYS_FAIL):
                    bad.append(ident)
        still = []
        for ident in bad:  # load-sensitive tests are re-run alone
            tname = ident.split("::")[-1].split("[")[0]
            path = ident.split("::")[0].split(".Test")[0].replace(".", "/") + ".py"
            rc2, _ = sh(f"timeout 1200 /venv/bin/python -m pytest {path} -k {tname} -p no:cacheprovider -o addopts='' -q", cwd=wt, env=env, timeout=1500)
            if rc2 != 0:
                still.append(ident)
        res = {"suite_failures_first_pass": bad, "suite_new_failures": still}
        os.remove(xml)
    finally:
        sh(f"git -C /repo worktree remove --force {wt}")
    (dst / "suite.json").write_text(json.dumps(res, indent=1))
    merge(dst)


if __name__ == "__main__":
    main()
