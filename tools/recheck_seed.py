#!/usr/bin/env python3
"""Re-run a property's quick check against an already confirmed seeded change (after a check was strengthened).
usage: tools/recheck_seed.py <name> [--props=C02,C14]"""
import json
import subprocess
import sys
import time
from pathlib import Path

VERIF = Path(__file__).resolve().parent.parent


def sh(cmd, cwd=None, timeout=3600):
    p = subprocess.run(cmd, shell=True, cwd=cwd, capture_output=True, text=True, timeout=timeout)
    return p.returncode, p.stdout + p.stderr


# the input on which a seeded change was caught is kept as a corpus case of that property (corpus cases run first in every run), so that the
# change stays caught whatever later happens to the generator. Scenario-sized inputs are left out (they are pinned as generator shapes instead).
HARVEST = {"C01", "C02", "C03", "C04", "C05", "C06", "C07", "C11", "C12", "C13", "C14", "C15", "C17", "C18", "C19", "C20"}
SKIP_OPS = {"scn", "noise", "legs", "scn-impulse", "scn-join", "scenario"}


def harvest(p, name, r):
    case = r.get("case")
    if p not in HARVEST or r.get("kind") != "failing-input" or not isinstance(case, dict) or str(case.get("op", "")) in SKIP_OPS:
        return
    d = VERIF / "corpus" / p
    d.mkdir(parents=True, exist_ok=True)
    (d / f"seed-{name}.json").write_text(json.dumps([case], indent=1))


def main():
    name = sys.argv[1]
    dst = VERIF / "seeded" / name
    meta = json.loads((dst / "meta.json").read_text())
    props = [meta["property"]]
    for a in sys.argv[2:]:
        if a.startswith("--props="):
            props = a.split("=", 1)[1].split(",")
    rc, out = sh("git -C /repo status --porcelain")
    assert out.strip() == "", "/repo not clean: " + out
    rc, out = sh(f"git -C /repo apply {dst}/patch.diff")
    assert rc == 0, out
    try:
        for p in props:
            t = time.time()
            rc, out = sh(f"./check {p} --tier quick", cwd=VERIF)
            vio = [l for l in out.splitlines() if l.startswith("VIOLATION")]
            entry = {"rc": rc, "violation_lines": vio, "wall_s": round(time.time() - t, 1)}
            if vio:
                rp = vio[0].split("replay=")[1].split()[0]
                try:
                    r = json.loads(Path(rp).read_text())
                    entry.update(replay_kind=r.get("kind"), replay_what=r.get("what", r.get("note")), replay_key=r.get("key"))
                    harvest(p, name, r)
                except Exception as e:  # noqa: BLE001
                    entry["replay_err"] = str(e)
            # `first_result` (what the check reported when the change was first run against it) is written once and never touched again
            meta.setdefault("first_result", {}).setdefault(p, {k: meta["checks"].get(p, {}).get(k) for k in ("rc", "replay_kind", "replay_key", "replay_what")})
            meta["checks"][p] = entry
    finally:
        sh("git -C /repo checkout -- .")
    meta["detected_by"] = [p for p, v in meta["checks"].items() if v["rc"] == 1 and v["violation_lines"]]
    meta["ran"].append("re-checked after the check was strengthened: patch applied to /repo, ./check <prop> --tier quick, git checkout -- .")
    (dst / "meta.json").write_text(json.dumps(meta, indent=1))
    print(json.dumps({k: meta[k] for k in ("name", "confirmed", "detected_by", "checks")}, indent=1)[:1500])


if __name__ == "__main__":
    main()
