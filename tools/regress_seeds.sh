#!/bin/sh
# usage: tools/regress_seeds.sh  - re-runs the quick check of every stored seeded change against the current checks:
# patch applied to /repo, ./check <property> --tier quick, /repo restored. One line per change; anything but "rc":1 needs attention.
cd "$(dirname "$0")/.."
V=$(pwd)
for d in seeded/*/; do
  n=$(basename $d)
  [ "$n" = "C08-one-observation-per-sensor-kept" ] && continue   # no longer a violation since fix 4ecfeb3 (see its meta.json)
  if ! git -C /repo apply --check $V/$d/patch.diff 2>/dev/null; then echo "$n PATCH-DOES-NOT-APPLY"; continue; fi
  out=$(python3 tools/recheck_seed.py $n 2>&1)
  rc=$(echo "$out" | grep '"rc"' | head -1 | tr -d ' ,')
  key=$(echo "$out" | grep 'replay_key' | head -1 | tr -d ' ')
  kind=$(echo "$out" | grep 'replay_kind' | head -1 | tr -d ' ')
  echo "$n $rc $kind $key"
done
