#!/usr/bin/env python3
"""Confirm a seeded defect and record it under /verif/seeded/<name>/.

usage: tools/seed.py <property> <src_dir with patch.diff demo.py notes.md> <name> [--no-suite] [--props C07,C02]

Steps (all in a scratch worktree outside /repo and /verif, removed afterwards):
  demo on the clean tree must exit 0; with the patch it must exit non-zero; the pinned suite with the
  patch must show only the BASELINE always-fail entries.
Then the patch is applied to /repo, the property's quick check is run (expected: exit 1 + VIOLATION line),
and /repo is restored straight afterwards.
"""
import json
import os
import shutil
import subprocess
import sys
import time
import xml.etree.ElementTree as ET
from pathlib import Path

VERIF = Path(__file__).resolve().parent.parent
ALWAYS_FAIL = {
    "tests.common.test_config",
    "testRemoteData",
    "testCalculateMetric",
    "testEntryPoint",
    "testModuleCommand",
}


def sh(cmd, cwd=None, env=None, timeout=3600):
    p = subprocess.run(cmd, shell=True, cwd=cwd, env=env, capture_output=True, text=True, timeout=timeout)
    return p.returncode, p.stdout + p.stderr


def main():
    pid, src, name = sys.argv[1], Path(sys.argv[2]), sys.argv[3]
    no_suite = "--no-suite" in sys.argv
    props = [pid]
    for a in sys.argv:
        if a.startswith("--props="):
            props = a.split("=", 1)[1].split(",")
    dst = VERIF / "seeded" / name
    dst.mkdir(parents=True, exist_ok=True)
    for f in ("patch.diff", "demo.py", "notes.md"):
        if (src / f).exists():
            shutil.copy(src / f, dst / f)
    # a demo that asserts it was imported from its author's own scratch worktree would fail in mine for that reason alone
    import re
    dp = dst / "demo.py"
    dp.write_text(re.sub(r"(?m)^(\s*)assert [^\n]*resonaate\.__file__[^\n]*$", r"\1pass  # (path assertion of the author's worktree removed)", dp.read_text()))
    wt = Path(f"/tmp/seedchk-{name}-{os.getpid()}")
    meta = {"property": pid, "name": name, "ran": []}
    rc, out = sh(f"git -C /repo worktree add --detach {wt} HEAD")
    assert rc == 0, out
    try:
        env = dict(os.environ, PYTHONPATH=f"{wt}/src", PYTHONDONTWRITEBYTECODE="1")
        rc0, out0 = sh(f"timeout 900 /venv/bin/python {dst}/demo.py", cwd=wt, env=env)
        meta["demo_clean_rc"] = rc0
        rc, out = sh(f"git apply {dst}/patch.diff", cwd=wt)
        assert rc == 0, "patch does not apply: " + out
        rc1, out1 = sh(f"timeout 900 /venv/bin/python {dst}/demo.py", cwd=wt, env=env)
        meta["demo_patched_rc"] = rc1
        meta["demo_patched_tail"] = out1[-600:]
        meta["ran"].append("demo.py on clean worktree and with patch (PYTHONPATH=<worktree>/src)")
        if not no_suite:
            xml = f"/tmp/seedchk-{name}.xml"
            rc, out = sh(
                f"/venv/bin/python -m pytest -q -p no:cacheprovider --timeout=900 --continue-on-collection-errors --junitxml={xml}",
                cwd=wt, env=env, timeout=3000,
            )
            bad = []
            root = ET.parse(xml).getroot()
            for tc in root.iter("testcase"):
                if tc.find("failure") is not None or tc.find("error") is not None:
                    ident = f"{tc.get('classname')}::{tc.get('name')}"
                    if not any(a in ident for a in ALWAYS_FAIL):
                        bad.append(ident)
            # a failure outside the always-fail set is re-run alone: the scenario regression tests are load sensitive
            still = []
            for ident in bad:
                name = ident.split("::")[-1].split("[")[0]
                path = ident.split("::")[0].split(".Test")[0].replace(".", "/") + ".py"
                rc2, out2 = sh(f"timeout 1200 /venv/bin/python -m pytest {path} -k {name} -p no:cacheprovider -o addopts='' -q", cwd=wt, env=env, timeout=1500)
                if rc2 != 0:
                    still.append(ident)
            meta["suite_failures_first_pass"] = bad
            bad = still
            meta["suite_new_failures"] = bad
            meta["ran"].append("full pinned suite in the patched worktree")
            os.remove(xml)
    finally:
        sh(f"git -C /repo worktree remove --force {wt}")
    # now our checks against /repo with the patch
    rc, out = sh("git -C /repo status --porcelain")
    assert out.strip() == "", "/repo not clean: " + out
    rc, out = sh(f"git -C /repo apply {dst}/patch.diff")
    assert rc == 0, out
    meta["checks"] = {}
    try:
        for p in props:
            t = time.time()
            rc, out = sh(f"./check {p} --tier quick", cwd=VERIF, timeout=3600)
            vio = [l for l in out.splitlines() if l.startswith("VIOLATION")]
            meta["checks"][p] = {"rc": rc, "violation_lines": vio, "wall_s": round(time.time() - t, 1)}
            if vio:
                rp = vio[0].split("replay=")[1].split()[0]
                try:
                    r = json.loads(Path(rp).read_text())
                    meta["checks"][p]["replay_kind"] = r.get("kind")
                    meta["checks"][p]["replay_what"] = r.get("what", r.get("note"))
                    meta["checks"][p]["replay_key"] = r.get("key")
                except Exception as e:  # noqa: BLE001
                    meta["checks"][p]["replay_err"] = str(e)
    finally:
        sh("git -C /repo checkout -- .")
        rc, out = sh("git -C /repo status --porcelain")
        assert out.strip() == "", out
    meta["ran"].append("patch applied to /repo, ./check <prop> --tier quick, git checkout -- .")
    meta["confirmed"] = (
        meta["demo_clean_rc"] == 0 and meta["demo_patched_rc"] != 0 and not meta.get("suite_new_failures")
    )
    meta["detected_by"] = [p for p, v in meta["checks"].items() if v["rc"] == 1 and v["violation_lines"]]
    meta["first_result"] = {p: {k: v.get(k) for k in ("rc", "replay_kind", "replay_key", "replay_what")} for p, v in meta["checks"].items()}
    (dst / "meta.json").write_text(json.dumps(meta, indent=1))
    print(json.dumps({k: meta[k] for k in ("name", "confirmed", "detected_by", "checks")}, indent=1))


if __name__ == "__main__":
    main()
