import json, os, subprocess, sys, glob
from pathlib import Path
os.environ["VERIF_REPO"] = "/tmp/obl-wt"
sys.path.insert(0, "/verif/harness")
import py2lean
WT = "/tmp/obl-wt"; DEV = Path("/tmp/leandev2")  # scratch: a worktree of /repo HEAD and a copy of /verif/lean with its .lake (create both first; remove afterwards)
BRIDGES = ["Time", "Maths", "MathsProps", "Sensors", "Agents", "Geometry", "Thrust", "Detect", "Conversions", "EventsQuery", "Sidereal", "ScenarioRun", "Lambert"]
def sh(c, **k): return subprocess.run(c, shell=True, capture_output=True, text=True, **k)
def gen():
    out = {}
    for m in py2lean.TARGETS:
        try: out[m] = py2lean.generate(m)
        except Exception as e: out[m] = f"UNSUPPORTED: {type(e).__name__}: {e}"
    return out
base = gen()
assert not any(v.startswith("UNSUPPORTED") for v in base.values()), {k: v for k, v in base.items() if v.startswith("UNSUPPORTED")}
for m, t in base.items(): (DEV / "RV/Generated" / f"{m}.lean").write_text(t)
r = sh("lake build " + " ".join("RV.Bridge." + b for b in BRIDGES), cwd=DEV)
assert r.returncode == 0, r.stdout[-2000:]
res = {}
for d in sorted(glob.glob("/verif/seeded/*/")):
    n = Path(d).name
    sh("git checkout -- . && git clean -fdq", cwd=WT)
    if sh(f"git apply {d}patch.diff", cwd=WT).returncode != 0:
        res[n] = {"applies": False}; continue
    g = gen()
    diff = [m for m in g if g[m] != base[m]]
    entry = {"applies": True, "generated_differs": diff, "translator_failed": [m for m in diff if g[m].startswith("UNSUPPORTED")], "bridges_broken": []}
    if diff:
        for m in g:
            t = g[m] if not g[m].startswith("UNSUPPORTED") else f"namespace RV.Generated.{m}\n#eval (show Nat from by exact translator_failed)\nend RV.Generated.{m}\n"
            (DEV / "RV/Generated" / f"{m}.lean").write_text(t)
        for b in BRIDGES:
            rb = sh(f"lake build RV.Bridge.{b}", cwd=DEV)
            if rb.returncode != 0: entry["bridges_broken"].append(b)
        for m, t in base.items(): (DEV / "RV/Generated" / f"{m}.lean").write_text(t)
    res[n] = entry
    print(n, entry, flush=True)
sh("git checkout -- . && git clean -fdq", cwd=WT)
json.dump(res, open("/tmp/r7/obligations.json", "w"), indent=1)
print("DONE", sum(1 for v in res.values() if v.get("bridges_broken")), "of", len(res))
