#!/bin/sh
# usage: tools/runall.sh [quick|thorough] [seed]  - runs every check on the current /repo tree, prints one line per property
cd "$(dirname "$0")/.."
tier=${1:-quick}
[ -n "$2" ] && export VERIF_SEED=$2
for p in C01 C02 C03 C04 C05 C06 C07 C08 C09 C10 C11 C12 C13 C14 C15 C16 C17 C18 C19 C20; do
  s=$(date +%s)
  out=$(./check $p --tier $tier 2>&1)
  rc=$?
  e=$(date +%s)
  echo "$p rc=$rc $((e-s))s $(echo "$out" | grep -c '^VIOLATION') violations $(echo "$out" | grep -c '^KNOWN-FINDING') known"
  echo "$out" | grep '^VIOLATION'
done
