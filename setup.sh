#!/bin/sh
# setup_cmd: build the Lean project from files on disk (offline). Mathlib is on the toolchain path.
set -e
here="$(cd "$(dirname "$0")" && pwd)"
cd "$here"
/venv/bin/python harness/extract.py || true   # also runs harness/py2lean.py (Generated/Stardate, Maths, Sensors)
cd lean && lake build
