"""C07 - tasking decisions are feasible and optimal in the sense each policy documents."""
from __future__ import annotations

import itertools
import sys
from fractions import Fraction
from pathlib import Path

sys.path.insert(0, str(Path(__file__).resolve().parent))
import numpy as np
from common import Run, Toks, close, corpus, fmt, fmt_bmat, fmt_list, fmt_mat, frac, guarded, main_guard

PID = "C07"


# ----------------------------------------------------------------------------- real code
_ENGINE_DB = []


def engine_decision(policy, R, V, seed, prior):
    """the decision as a scenario gets it: one long-lived `CentralizedTaskingEngine` whose reward and visibility matrices are filled step
    after step, `generateTasking()`, then the engine's decision matrix and the task rows it would store"""
    from resonaate.data import setDBPath
    from resonaate.physics.time.stardate import JulianDate
    from resonaate.scenario.config import decision_config as dc
    from resonaate.scenario.config.reward_config import SimpleSummationRewardConfig
    from resonaate.tasking.decisions import decisionFactory
    from resonaate.tasking.engine.centralized_engine import CentralizedTaskingEngine
    from resonaate.tasking.rewards import rewardsFactory

    if not _ENGINE_DB:
        setDBPath("sqlite://")
        _ENGINE_DB.append(True)
    cfg = {"greedy": dc.MyopicNaiveGreedyDecisionConfig, "munkres": dc.MunkresDecisionConfig, "allvis": dc.AllVisibleDecision}[policy]()
    T, S = len(R), len(R[0])
    sensors, targets = [10001 + k for k in range(S)], [20001 + k for k in range(T)]
    eng = CentralizedTaskingEngine(engine_id=1, sensor_ids=sensors, target_ids=targets,
                                   reward=rewardsFactory(SimpleSummationRewardConfig(metrics=[{"name": "TimeSinceObservation"}])),
                                   decision=decisionFactory(cfg), importer_db_path=None, realtime_obs=True)
    for R0, V0 in list(prior or []) + [(R, V)]:
        eng.reward_matrix = np.array(R0, dtype=float)
        eng.visibility_matrix = np.array(V0, dtype=bool)
        eng.generateTasking()
    D = np.asarray(eng.decision_matrix)
    if D.shape != (T, S):
        raise ValueError(f"shape {D.shape}")
    rows = list(eng.getCurrentTasking(JulianDate.getJulianDate(2021, 3, 30, 16, 0, 0.0)))
    for t in rows:
        ti, si = targets.index(t.target_id), sensors.index(t.sensor_id)
        if bool(t.decision) != bool(D[ti][si]) or bool(t.visibility) != bool(V[ti][si]):
            raise ValueError(f"task row ({t.sensor_id},{t.target_id}) decision={t.decision} visibility={t.visibility} differs from the matrices")
    return [[bool(x) for x in row] for row in D]


def impl_decision(policy, R, V, seed=None, prior=None, via=None):
    if via == "engine":
        return engine_decision(policy, R, V, seed, prior)
    from resonaate.tasking.decisions.decisions import (
        AllVisibleDecision,
        MunkresDecision,
        MyopicNaiveGreedyDecision,
        RandomDecision,
    )

    cls = {
        "greedy": MyopicNaiveGreedyDecision,
        "munkres": MunkresDecision,
        "allvis": AllVisibleDecision,
        "random": RandomDecision,
    }[policy]
    obj = cls(seed=seed) if policy == "random" else cls()
    # the engine keeps one decision object for the whole run: earlier calls must leave nothing behind
    for R0, V0 in prior or []:
        obj.calculate(np.array(R0, dtype=float), np.array(V0, dtype=bool))
    D = obj.calculate(np.array(R, dtype=float), np.array(V, dtype=bool))
    D = np.asarray(D)
    if D.shape != np.array(R).shape:
        raise ValueError(f"shape {D.shape}")
    return [[bool(x) for x in row] for row in D]


def masked_total(R, V, D):
    return sum(Fraction(R[t][s]) for t in range(len(R)) for s in range(len(R[0])) if D[t][s] and V[t][s])


# ----------------------------------------------------------------------------- exact Hungarian (harness side, untrusted)
def hungarian_max(M):
    """Max-total complete assignment of the rows of M (rows <= cols) with dual potentials.
    Returns (sigma, u, v) with u[t]+v[s] >= M[t][s], v >= 0, sum(u)+sum(v) = total(sigma).
    The result is *checked* by the Lean model (`checkDual`), not trusted."""
    n, m = len(M), len(M[0])
    a = [[-Fraction(x) for x in row] for row in M]
    INF = None
    u = [Fraction(0)] * (n + 1)
    v = [Fraction(0)] * (m + 1)
    p = [0] * (m + 1)
    way = [0] * (m + 1)
    for i in range(1, n + 1):
        p[0] = i
        j0 = 0
        minv = [INF] * (m + 1)
        used = [False] * (m + 1)
        while True:
            used[j0] = True
            i0 = p[j0]
            delta = INF
            j1 = 0
            for j in range(1, m + 1):
                if not used[j]:
                    cur = a[i0 - 1][j - 1] - u[i0] - v[j]
                    if minv[j] is INF or cur < minv[j]:
                        minv[j] = cur
                        way[j] = j0
                    if delta is INF or minv[j] < delta:
                        delta = minv[j]
                        j1 = j
            for j in range(m + 1):
                if used[j]:
                    u[p[j]] += delta
                    v[j] -= delta
                elif minv[j] is not INF:
                    minv[j] -= delta
            j0 = j1
            if p[j0] == 0:
                break
        while True:
            j1 = way[j0]
            p[j0] = p[j1]
            j0 = j1
            if j0 == 0:
                break
    sigma = [0] * n
    for j in range(1, m + 1):
        if p[j]:
            sigma[p[j] - 1] = j - 1
    return sigma, [-x for x in u[1:]], [-x for x in v[1:]]


def transpose(M):
    return [list(r) for r in zip(*M)]


# ----------------------------------------------------------------------------- cases
def gen_matrix(rng, T, S, kind):
    if kind == "small":
        vals = [-1, 0, 1, 2]
        R = [[rng.choice(vals) for _ in range(S)] for _ in range(T)]
    elif kind == "ties":
        R = [[rng.choice([0, 1]) for _ in range(S)] for _ in range(T)]
    elif kind == "dyadic":
        R = [[Fraction(rng.randint(-64, 256), 16) for _ in range(S)] for _ in range(T)]
    else:  # engine-like: non-negative, zero where invisible (filled below)
        R = [[Fraction(rng.randint(0, 1000), 128) for _ in range(S)] for _ in range(T)]
    pv = rng.choice([0.2, 0.5, 0.8, 1.0])
    V = [[rng.random() < pv for _ in range(S)] for _ in range(T)]
    if kind == "engine":
        R = [[R[t][s] if V[t][s] else Fraction(0) for s in range(S)] for t in range(T)]
    return R, V


def cases(run: Run):
    rng = run.rng
    out = [dec_case(c) for c in corpus(PID)]  # stored as JSON: rationals as strings
    # exhaustive small scope: all shapes up to 2x2 (quick) with rewards in {-1,0,1,2} and every mask is too many at 3x3;
    # quick: exhaustive 1x1..2x2; sampled 3x3; thorough: exhaustive up to 2x3/3x2, sampled 3x3, 4x4
    vals = [-1, 0, 1, 2]
    shapes_ex = [(1, 1), (1, 2), (2, 1), (2, 2)]
    for T, S in shapes_ex:
        cells = T * S
        allR = list(itertools.product(vals, repeat=cells))
        allV = list(itertools.product([False, True], repeat=cells))
        if cells == 4 and run.quick():
            allR = rng.sample(allR, 64)
        for r in allR:
            for v in allV:
                R = [list(r[i * S : (i + 1) * S]) for i in range(T)]
                V = [list(v[i * S : (i + 1) * S]) for i in range(T)]
                for pol in ("greedy", "munkres", "allvis"):
                    out.append({"op": pol, "R": R, "V": V, "src": "exhaustive"})
    for _ in range(run.n(300, 4000)):
        T, S = rng.randint(1, 4), rng.randint(1, 4)
        R, V = gen_matrix(rng, T, S, rng.choice(["small", "ties", "dyadic", "engine"]))
        prior = None
        if rng.random() < 0.4:
            # earlier steps of the same engine: same shape (other rewards, other visibility), now and then another shape first
            prior = [list(gen_matrix(rng, T, S, rng.choice(["small", "ties", "dyadic", "engine"]))) for _ in range(rng.randint(1, 3))]
            if rng.random() < 0.25:
                T0, S0 = rng.randint(1, 4), rng.randint(1, 4)
                prior.insert(0, list(gen_matrix(rng, T0, S0, "small")))
        via = None
        if rng.random() < 0.3:
            # through a real tasking engine that lives for several steps; in half of these the step before had the very same rewards and another
            # visibility (a target rising or setting while the metrics stand still)
            via = "engine"
            if prior is None or rng.random() < 0.5:
                prior = [p for p in (prior or []) if len(p[0]) == T and len(p[0][0]) == S]
                prior.append([R, [[rng.random() < 0.5 for _ in range(S)] for _ in range(T)]])
            else:
                prior = [p for p in prior if len(p[0]) == T and len(p[0][0]) == S] or None
        for pol in ("greedy", "munkres", "allvis"):
            out.append({"op": pol, "R": R, "V": V, "src": "random-small" + ("-history" if prior else "") + ("-engine" if via else ""),
                        **({"prior": prior} if prior else {}), **({"via": via} if via else {})})
        out.append({"op": "random", "R": R, "V": V, "seed": rng.randint(0, 2**31), "src": "random-small"})
    for _ in range(run.n(40, 400)):
        T, S = rng.randint(3, 40), rng.randint(3, 40)
        R, V = gen_matrix(rng, T, S, rng.choice(["ties", "dyadic", "engine"]))
        for pol in ("greedy", "munkres", "allvis"):
            out.append({"op": pol, "R": R, "V": V, "src": "random-large"})
        out.append({"op": "random", "R": R, "V": V, "seed": rng.randint(0, 2**31), "src": "random-large"})
    # rewards
    for _ in range(run.n(200, 3000)):
        n = rng.randint(1, 12)
        kind = rng.choice(["pos", "mixed", "nonpos", "pow2"])
        if kind == "pos":
            m = [Fraction(rng.randint(0, 400), 32) for _ in range(n)]
        elif kind == "mixed":
            m = [Fraction(rng.randint(-200, 400), 32) for _ in range(n)]
        elif kind == "nonpos":
            m = [Fraction(rng.randint(-200, 0), 32) for _ in range(n)]
        else:
            m = [Fraction(rng.randint(0, 64), 8) for _ in range(n - 1)] + [Fraction(8)]
        # the memory layout of the metric tensor is the caller's business: C order, Fortran order, or a transposed view
        out.append({"op": "norm", "m": m, "layout": rng.choice(["c", "c", "f", "moveaxis", "slice"])})
    for _ in range(run.n(200, 3000)):
        delta = Fraction(rng.randint(0, 64), 64)
        ms = [Fraction(rng.randint(-64, 64), 16) for _ in range(4)]
        if rng.random() < 0.3:
            ms[0] = Fraction(0)
        c = {"op": "reward", "delta": delta, "ms": ms}
        if rng.random() < 0.6:
            c["order4"] = rng.sample(range(4), 4)
            c["order3"] = rng.sample(range(3), 3)
        out.append(c)
    return out


def is_true_row(case):
    return any(any(r) for r in case["V"])


# ----------------------------------------------------------------------------- model lines
def model_lines(case, impl):
    """Lines sent to the Lean driver for one case (may need the implementation's output)."""
    op = case["op"]
    if op in ("greedy", "allvis"):
        return [f"dec.{op} {fmt_mat(case['R'])} {fmt_bmat(case['V'])}"]
    if op == "random":
        if impl[0] != "ok":
            return []
        D = impl[1]
        S = len(case["V"][0])
        ch = [next((t for t in range(len(D)) if D[t][s]), 0) for s in range(S)]
        return [f"dec.random {fmt_bmat(case['V'])} {len(ch)} " + " ".join(map(str, ch))]
    if op == "munkres":
        R, V = case["R"], case["V"]
        T, S = len(R), len(R[0])
        lines = []
        if impl[0] == "ok":
            D = impl[1]
            pairs = [(t, s) for t in range(T) for s in range(S) if D[t][s]]
            lines.append(
                f"dec.munkres {fmt_mat(R)} {fmt_bmat(V)} {len(pairs)} " + " ".join(f"{t} {s}" for t, s in pairs)
            )
        else:
            lines.append("skip")
        if T <= 4 and S <= 4:
            lines.append(f"dec.best {fmt_mat(R)} {fmt_bmat(V)}")
        else:
            RR, VV = (R, V) if T <= S else (transpose(R), transpose(V))
            M = [[Fraction(RR[t][s]) if VV[t][s] else Fraction(0) for s in range(len(RR[0]))] for t in range(len(RR))]
            sigma, u, v = hungarian_max(M)
            lines.append(
                f"dec.dual {fmt_mat(RR)} {fmt_bmat(VV)} {fmt_list(u)} {fmt_list(v)} {len(sigma)} "
                + " ".join(map(str, sigma))
            )
        return lines
    if op == "norm":
        return [f"rew.norm {fmt_list(case['m'])}"]
    if op == "reward":
        d, ms = case["delta"], case["ms"]
        return [
            f"rew.cc {fmt(d)} {fmt(ms[0])} {fmt(ms[1])} {fmt(ms[2])}",
            f"rew.comb {fmt(d)} {fmt(ms[0])} {fmt(ms[1])} {fmt(ms[2])} {fmt(ms[3])}",
            f"rew.sum {fmt_list(ms)}",
        ]
    raise KeyError(op)


# ----------------------------------------------------------------------------- real rewards
_REWARD_OBJS = {}


def reward_objs():
    if not _REWARD_OBJS:
        from resonaate.tasking.metrics.metric_base import (
            InformationMetric,
            SensorMetric,
            StabilityMetric,
            TargetMetric,
        )
        from resonaate.tasking.rewards.rewards import CombinedReward, CostConstrainedReward, SimpleSummationReward

        def mk(base):
            class _M(base):
                def calculate(self, estimate_agent, sensor_agent):
                    return 0.0

            return _M()

        st, inf, sen, tg = mk(StabilityMetric), mk(InformationMetric), mk(SensorMetric), mk(TargetMetric)
        _REWARD_OBJS.update(
            cc=lambda d: CostConstrainedReward([st, inf, sen], delta=d),
            comb=lambda d, order=(0, 1, 2, 3): CombinedReward([[st, inf, sen, tg][k] for k in order], delta=d),
            cc_o=lambda d, order=(0, 1, 2): CostConstrainedReward([[st, inf, sen][k] for k in order], delta=d),
            sum=lambda: SimpleSummationReward([st, inf, sen, tg]),
        )
    return _REWARD_OBJS


def impl_case(case):
    op = case["op"]
    if op in ("greedy", "munkres", "allvis", "random"):
        return guarded(impl_decision, op, case["R"], case["V"], case.get("seed"), case.get("prior"), case.get("via"))
    if op == "norm":
        def f():
            ro = reward_objs()["sum"]()
            m = case["m"]
            # a (T,S,K) tensor with K = 4 metrics and S = 2 sensors reporting the same numbers: slice 0 carries the list, the others are constant
            arr = np.zeros((len(m), 2, 4))
            arr[:, :, 0] = np.array([float(x) for x in m])[:, None]
            arr[:, :, 1] = 1.0
            layout = case.get("layout", "c")
            if layout == "f":
                arr = np.asfortranarray(arr)
            elif layout == "moveaxis":
                arr = np.moveaxis(np.ascontiguousarray(np.moveaxis(arr, -1, 0)), 0, -1)
            elif layout == "slice":
                big = np.zeros((len(m), 3, 4))
                big[:, :2, :] = arr
                arr = big[:, :2, :]
            out = ro.normalizeMetrics(arr)
            if not (np.array_equal(out[:, 0, :], out[:, 1, :])):
                raise AssertionError("two sensors with the same metrics were normalised differently")
            return [float(x) for x in out[:, 0, 0]], [float(x) for x in out[:, 0, 1]]

        return guarded(f)
    if op == "reward":
        def g():
            ro = reward_objs()
            d = float(case["delta"])
            ms = [float(x) for x in case["ms"]]
            arr3 = np.array(ms[:3]).reshape(1, 1, 3)
            arr4 = np.array(ms).reshape(1, 1, 4)
            # the metric list in any order (the rewards find their metrics by kind, not by position)
            o4, o3 = case.get("order4", [0, 1, 2, 3]), case.get("order3", [0, 1, 2])
            arr3 = np.array([ms[k] for k in o3]).reshape(1, 1, 3)
            arr4o = np.array([ms[k] for k in o4]).reshape(1, 1, 4)
            a = float(np.asarray(ro["cc_o"](d, tuple(o3)).calculate(arr3)).reshape(-1)[0])
            b = float(np.asarray(ro["comb"](d, tuple(o4)).calculate(arr4o)).reshape(-1)[0])
            c = float(np.asarray(ro["sum"]().calculate(arr4)).reshape(-1)[0])
            return a, b, c

        return guarded(g)
    raise KeyError(op)


# ----------------------------------------------------------------------------- oracle (the property on the real output)
def oracle(run: Run, case, impl, best):
    """Returns a list of (key, what) failures of the property itself."""
    op = case["op"]
    fails = []
    if op in ("greedy", "munkres", "allvis", "random"):
        if impl[0] != "ok":
            return [(f"{op}:raises", f"{op} raised {impl[1]}")]
        D, R, V = impl[1], case["R"], case["V"]
        T, S = len(R), len(R[0])
        for t in range(T):
            for s in range(S):
                if D[t][s] and not V[t][s]:
                    fails.append((f"{op}:invisible", f"sensor {s} tasked to invisible target {t}"))
        colcount = [sum(1 for t in range(T) if D[t][s]) for s in range(S)]
        rowcount = [sum(1 for s in range(S) if D[t][s]) for t in range(T)]
        if op in ("greedy", "munkres", "random") and any(c > 1 for c in colcount):
            fails.append((f"{op}:two-targets", f"a sensor is tasked to {max(colcount)} targets"))
        if op == "munkres" and any(c > 1 for c in rowcount):
            fails.append((f"{op}:two-sensors", f"a target is tasked by {max(rowcount)} sensors"))
        if op == "allvis" and D != [[bool(x) for x in r] for r in V]:
            fails.append((f"{op}:not-exact", "all-visible decision differs from the visibility matrix"))
        if op == "greedy":
            for s in range(S):
                col = [Fraction(R[t][s]) for t in range(T)]
                mx = max(col)
                for t in range(T):
                    if D[t][s] and col[t] != mx:
                        fails.append((f"{op}:not-max", f"sensor {s} tasked to target {t} with reward {col[t]} < {mx}"))
                best_visible = [t for t in range(T) if col[t] == mx and V[t][s]]
                if len([t for t in range(T) if col[t] == mx]) == 1 and best_visible and colcount[s] == 0:
                    fails.append((f"{op}:not-tasked", f"sensor {s} sees its unique best target but is not tasked"))
        if op == "random":
            for s in range(S):
                if any(V[t][s] for t in range(T)) and colcount[s] != 1:
                    fails.append((f"{op}:not-tasked", f"sensor {s} sees a target but has {colcount[s]} taskings"))
        if op == "munkres" and best is not None:
            tot = masked_total(R, V, D)
            if tot != best:
                fails.append((f"{op}:not-optimal", f"masked total {tot} but the optimum over complete assignments is {best}"))
    elif op == "reward":
        if impl[0] != "ok":
            return [("reward:raises", impl[1])]
        # the documented combinations, by kind of metric (stability, information, sensor, target), whatever the order of the metric list
        d = Fraction(case["delta"])
        st, inf, sen, tg = [Fraction(x) for x in case["ms"]]
        sign = (st > 0) - (st < 0)
        cc = d * (sign + inf) - (1 - d) * sen
        for got, want, nm in zip(impl[1], (cc, cc + tg, st + inf + sen + tg), ("cost-constrained", "combined", "summation")):
            if abs(got - float(want)) > 1e-12 * max(1.0, abs(float(want))):
                fails.append((f"reward:{nm}", f"{nm} reward {got} but the documented combination gives {float(want)} (delta {float(d)}, stability/information/sensor/target metrics "
                                               f"{[float(x) for x in case['ms']]}, metric list order {case.get('order4') if nm != 'cost-constrained' else case.get('order3')})"))
    elif op == "norm":
        if impl[0] != "ok":
            return [("norm:raises", impl[1])]
        for x in impl[1][0] + impl[1][1]:
            if x > 1.0:
                fails.append(("norm:gt-one", f"normalised metric {x} > 1"))
    return fails


def metamorphic(run: Run, case, impl):
    """Relabelling sensors/targets relabels the decision (greedy/all-visible: sensors always;
    targets when column maxima are unique; munkres: value equivariance)."""
    op = case["op"]
    if op not in ("greedy", "allvis", "munkres") or impl[0] != "ok":
        return []
    R, V, D = case["R"], case["V"], impl[1]
    T, S = len(R), len(R[0])
    rng = run.rng
    ps = list(range(S))
    rng.shuffle(ps)
    pt = list(range(T))
    rng.shuffle(pt)
    fails = []
    R2 = [[R[t][ps[s]] for s in range(S)] for t in range(T)]
    V2 = [[V[t][ps[s]] for s in range(S)] for t in range(T)]
    i2 = guarded(impl_decision, op, R2, V2)
    if i2[0] != "ok":
        return [(f"{op}:raises", i2[1])]
    if op in ("greedy", "allvis"):
        if i2[1] != [[D[t][ps[s]] for s in range(S)] for t in range(T)]:
            fails.append((f"{op}:sensor-relabel", f"relabelling sensors by {ps} does not relabel the decision"))
    else:
        if masked_total(R2, V2, i2[1]) != masked_total(R, V, D):
            fails.append((f"{op}:sensor-relabel", f"relabelling sensors by {ps} changes the total"))
    R3 = [[R[pt[t]][s] for s in range(S)] for t in range(T)]
    V3 = [[V[pt[t]][s] for s in range(S)] for t in range(T)]
    i3 = guarded(impl_decision, op, R3, V3)
    if i3[0] != "ok":
        return [(f"{op}:raises", i3[1])]
    if op == "allvis" or (
        op == "greedy" and all(sorted([R[t][s] for t in range(T)])[-1:] != sorted([R[t][s] for t in range(T)])[-2:-1] for s in range(S))
    ):
        if i3[1] != [[D[pt[t]][s] for s in range(S)] for t in range(T)]:
            fails.append((f"{op}:target-relabel", f"relabelling targets by {pt} does not relabel the decision"))
    elif op == "munkres":
        if masked_total(R3, V3, i3[1]) != masked_total(R, V, D):
            fails.append((f"{op}:target-relabel", f"relabelling targets by {pt} changes the total"))
    return fails


def enc_case(c):
    def e(v):
        if isinstance(v, Fraction):
            return fmt(v)
        if isinstance(v, (list, tuple)):
            return [e(x) for x in v]
        return v

    return {k: e(v) for k, v in c.items()}


def dec_case(c):
    def d(v):
        if isinstance(v, list):
            return [d(x) for x in v]
        if isinstance(v, str):
            return Fraction(v)
        return v

    out = {k: (d(v) if k in ("R", "m", "ms", "delta") else v) for k, v in c.items()}
    if "prior" in out:
        out["prior"] = [[d(R0), V0] for R0, V0 in out["prior"]]
    return out


def canon_dec(D):
    return fmt_bmat(D)


def run_cases(run: Run, cs, with_model=True):
    impls = [impl_case(c) for c in cs]
    lines, spans = [], []
    for c, i in zip(cs, impls):
        ls = [l for l in model_lines(c, i)]
        spans.append((len(lines), len(ls)))
        lines.extend(ls)
    send = [l for l in lines if l != "skip"]
    outs = run.model(send) if with_model else None
    it = iter(outs) if outs is not None else None
    mouts = []
    for l in lines:
        mouts.append(None if (it is None or l == "skip") else next(it))
    for c, i, (a, n) in zip(cs, impls, spans):
        mo = mouts[a : a + n]
        op = case_op = c["op"]
        best = None
        nontrivial = False
        jc = enc_case(c)
        if op in ("greedy", "allvis", "random", "munkres"):
            V = c["V"]
            nontrivial = any(any(r) for r in V) and not all(all(r) for r in V) or len(V) * len(V[0]) > 1
        else:
            nontrivial = True
        run.case(op, jc, nontrivial, branch=c.get("src"))
        if outs is not None:
            run.model_compared += 1
            if op in ("greedy", "allvis", "random"):
                want = canon_dec(i[1]) if i[0] == "ok" else f"err:{i[1]}"
                if not mo or mo[0] != want:
                    run.disagree(op, jc, want, mo)
            elif op == "munkres":
                if i[0] == "ok":
                    want = canon_dec(i[1]) + " " + fmt(masked_total(c["R"], c["V"], i[1]))
                    if mo[0] != want:
                        run.disagree(op, jc, want, mo[0])
                t = Toks(mo[1]) if mo[1] and mo[1] != "bad-op" else None
                if t is None:
                    run.disagree(op, jc, "optimum", mo[1])
                elif len(c["R"]) <= 4 and len(c["R"][0]) <= 4:
                    best = t.rat()
                    run.count("munkres:bruteforce")
                else:
                    ok = t.int()
                    val = t.rat()
                    if ok == 1:
                        best = val
                        run.count("munkres:dual-certified")
                    else:
                        run.notes.append("harness Hungarian produced a certificate the model rejected")
                        run.disagree(op, jc, "certificate", mo[1])
            elif op == "norm":
                if i[0] != "ok" or mo[0] == "bad-op":
                    run.disagree(op, jc, i, mo)
                else:
                    want = Toks(mo[0]).list()
                    got = i[1][0]
                    if len(want) != len(got) or not all(close(a, b, 1e-12) for a, b in zip(got, want)):
                        run.disagree(op, jc, got, mo[0])
                    for a, b in zip(got, want):
                        run.worse("normalize", abs(a - float(b)))
                    if any(abs(x - 1.0) > 0 for x in i[1][1]):
                        run.disagree(op, jc, "constant slice changed", i[1][1])
            elif op == "reward":
                if i[0] != "ok" or "bad-op" in mo:
                    run.disagree(op, jc, i, mo)
                else:
                    for a, b, nm in zip(i[1], mo, ("cc", "comb", "sum")):
                        if not close(a, Fraction(b), 1e-12):
                            run.disagree(f"reward.{nm}", jc, a, b)
                        run.worse(f"reward.{nm}", abs(a - float(Fraction(b))))
        for key, what in oracle(run, c, i, best):
            run.fail(key, jc, what)
        if str(c.get("src")).startswith("random-small") or c.get("src") == "exhaustive" or run.tier == "thorough":
            if c.get("src") != "exhaustive" or run.rng.random() < 0.1:
                for key, what in metamorphic(run, c, i):
                    run.fail(key, jc, what)


def search(run: Run):
    """Implementation-only sweep: brute-force optimum in Python, more shapes."""
    rng = run.rng
    for _ in range(3000):
        T, S = rng.randint(1, 4), rng.randint(1, 4)
        R, V = gen_matrix(rng, T, S, rng.choice(["small", "ties", "dyadic"]))
        for pol in ("greedy", "munkres", "allvis", "random"):
            c = {"op": pol, "R": R, "V": V, "seed": rng.randint(0, 99999)}
            i = impl_case(c)
            best = None
            if pol == "munkres":
                RR, VV = (R, V) if T <= S else (transpose(R), transpose(V))
                M = [[Fraction(RR[t][s]) if VV[t][s] else Fraction(0) for s in range(len(RR[0]))] for t in range(len(RR))]
                best = max(
                    sum(M[t][p[t]] for t in range(len(M))) for p in itertools.permutations(range(len(M[0])), len(M))
                )
            f = oracle(run, c, i, best) + metamorphic(run, c, i)
            if f:
                return (f[0][0], enc_case(c), f[0][1])
    return None


def main():
    run = Run(
        PID,
        ["RV.Props.C07"],
        ["RV/Model/Decisions.lean"],
        "Lean 4 theorems over an executable model of the four decision policies and reward formulas; "
        "differential correspondence model vs real classes; optimality by brute force (<=4x4) or Lean-checked dual certificate",
        trusted_extra=[
            "scipy.optimize.linear_sum_assignment is not modelled: its output is judged (one-to-one, optimal) on every case",
            "numpy argmax/where semantics mirrored by the model and compared exactly",
        ],
    )
    run.rule = (
        "exhaustive 1x1..2x2 with rewards in {-1,0,1,2} and every mask (2x2 rewards sampled at quick tier); random shapes "
        "<=4x4 and <=40x40 with tied/dyadic/engine-like rewards; non-trivial = more than one cell or a mixed mask; "
        "distinct by hash of (op, matrices)"
    )
    run.assumptions = [
        "RandomDecision is judged on feasibility only (membership of the drawn target among the visible ones)",
        "target relabelling of the greedy policy is required only when column maxima are unique (argmax tie-breaking)",
    ]
    run.lean_phase()
    if run.args.replay:
        import json

        rp = json.loads(Path(run.args.replay).read_text())
        cs = [dec_case(rp["case"])] if rp.get("kind") == "failing-input" else cases(run)
    else:
        cs = cases(run)
    run_cases(run, cs)
    run.finish(search)


if __name__ == "__main__":
    main_guard(main)
