"""C13 - the high-fidelity force model equals an independent reference at every state and epoch."""
from __future__ import annotations

import json
import math
import sys
from datetime import datetime, timedelta
from fractions import Fraction
from functools import lru_cache
from pathlib import Path

sys.path.insert(0, str(Path(__file__).resolve().parent))
import numpy as np
from common import Run, corpus, fmt, frac, guarded, main_guard

PID = "C13"
MU = 398600.4415
RE = 6378.1363
FILES = ["egm96.txt", "jgm3.txt", "egm2008.txt", "GGM03S.txt"]
AU = 1.49599e8
C_KM = 299792.458
MU_SUN, MU_MOON = 1.32712440041939400e11, 4902.800066


def cases(run: Run):
    rng = run.rng
    out = list(corpus(PID))
    for _ in range(run.n(40, 400)):
        alt = rng.choice([200.0, 400.0, 800.0, 20200.0, 35786.0, 9 * RE, rng.uniform(200, 9 * RE)])
        r = RE + alt
        lat, lon = math.asin(rng.uniform(-1, 1)), rng.uniform(0, 2 * math.pi)
        pos = [r * math.cos(lat) * math.cos(lon), r * math.cos(lat) * math.sin(lon), r * math.sin(lat)]
        sp = math.sqrt(MU / r) * rng.uniform(0.8, 1.2)
        d = np.cross(pos, [rng.uniform(-1, 1), rng.uniform(-1, 1), rng.uniform(-1, 1)])
        vel = list(sp * d / np.linalg.norm(d) + 0.3 * sp * rng.uniform(-1, 1) * np.array(pos) / r)
        start = datetime(rng.randint(2015, 2021), rng.randint(1, 12), rng.randint(1, 28), rng.randint(0, 23), rng.randint(0, 59), rng.randint(0, 59))
        bodies = rng.choice([[], ["sun"], ["moon"], ["sun", "moon"], ["moon", "sun"], ["sun", "moon", "jupiter"], ["venus", "saturn"]])
        t_off = rng.choice([0.0, 60.0, 3600.0, 600.5, 3599.75, 86400.25, 5 * 86400.0, 20 * 86400.0 + 0.4, rng.uniform(0, 30 * 86400), rng.uniform(0, 7200)])
        degree = rng.choice([0, 2, 2, 4, 8, 12, 20])
        order_le = rng.random() < 0.3
        if rng.random() < 0.2:
            # a dynamics object created in one calendar year and asked for the force in the next (a run across New Year), with tesseral terms on:
            # the acceleration is a function of the state and the epoch, not of when the object was made
            start = datetime(rng.randint(2015, 2021), 12, rng.choice([30, 31, 31]), rng.randint(0, 23), rng.randint(0, 59), rng.randint(0, 59))
            t_off = rng.choice([2 * 86400.0, 86400.0 * 2 + 0.25, 5 * 86400.0, rng.uniform(2 * 86400, 20 * 86400)])
            degree, order_le = rng.choice([4, 8, 12, 20]), False
        out.append({
            "pos": pos, "vel": [float(v) for v in vel], "start": start.isoformat(), "t": t_off,
            "file": rng.choice(FILES), "degree": degree, "order_le": order_le, "bodies": bodies,
            "srp": rng.random() < 0.6, "gr": rng.random() < 0.5, "K": rng.choice([1, 1, 2, 3]), "ratio": rng.choice([0.02, 0.005, 0.1]),
            "eph_jd": rng.uniform(2457024.0, 2459800.0), "eph_k": rng.randint(0, 600), "shadow_bias": rng.random() < 0.35,
        })
    return out


# ----------------------------------------------------------------------------- independent reference
@lru_cache(maxsize=8)
def ref_coeffs(fname):
    """normalised coefficients parsed from the text file, independently of the loader"""
    import resonaate.physics.data.geopotential as gp

    C, S = {}, {}
    for line in (Path(gp.__file__).parent / fname).read_text().splitlines():
        p = line.split()
        if len(p) >= 4:
            n, m = int(p[0]), int(p[1])
            C[(n, m)], S[(n, m)] = float(p[2].replace("D", "e")), float(p[3].replace("D", "e"))
    return C, S


def pbar_table(N, sphi):
    """fully normalised associated Legendre functions by the standard forward column recursion"""
    cphi = math.sqrt(max(0.0, 1 - sphi * sphi))
    P = [[0.0] * (N + 2) for _ in range(N + 2)]
    P[0][0] = 1.0
    if N >= 1:
        P[1][1] = math.sqrt(3.0) * cphi
    for n in range(2, N + 1):
        P[n][n] = math.sqrt((2 * n + 1) / (2 * n)) * cphi * P[n - 1][n - 1]
    for m in range(0, N + 1):
        for n in range(m + 1, N + 1):
            a = math.sqrt((4 * n * n - 1) / (n * n - m * m))
            b = math.sqrt(((2 * n + 1) * (n + m - 1) * (n - m - 1)) / ((n - m) * (n + m) * (2 * n - 3))) if n - m >= 2 else 0.0
            P[n][m] = a * sphi * P[n - 1][m] - (b * P[n - 2][m] if n - m >= 2 else 0.0)
    return P


def potential_ns(fname, N, M, p):
    """the non-spherical part of the geopotential (degrees 2..N, orders 0..min(n,M)) at an Earth-fixed point"""
    C, S = ref_coeffs(fname)
    x, y, z = p
    r = math.sqrt(x * x + y * y + z * z)
    lam = math.atan2(y, x)
    P = pbar_table(N, z / r)
    u = 0.0
    for n in range(2, N + 1):
        s = 0.0
        for m in range(0, min(n, M) + 1):
            s += P[n][m] * (C.get((n, m), 0.0) * math.cos(m * lam) + S.get((n, m), 0.0) * math.sin(m * lam))
        u += (RE / r) ** n * s
    return MU / r * u


def grad_ns(fname, N, M, p, h=0.05):
    """central-difference gradient (4th order) of the non-spherical potential"""
    g = []
    for k in range(3):
        def at(d):
            q = list(p)
            q[k] += d
            return potential_ns(fname, N, M, q)
        g.append((-at(2 * h) + 8 * at(h) - 8 * at(-h) + at(-2 * h)) / (12 * h))
    return np.array(g)


def sun_lowprec(jd):
    """Vallado's low-precision solar position (Algorithm 29), km, mean equator of date ~ J2000 to 1e-3"""
    T = (jd - 2451545.0) / 36525.0
    lam_m = math.radians((280.460 + 36000.771 * T) % 360.0)
    Ms = math.radians((357.5291092 + 35999.05034 * T) % 360.0)
    lam = lam_m + math.radians(1.914666471) * math.sin(Ms) + math.radians(0.019994643) * math.sin(2 * Ms)
    lam -= math.radians(1.396971 * T)  # general precession in longitude: equinox of date -> J2000
    rr = 1.000140612 - 0.016708617 * math.cos(Ms) - 0.000139589 * math.cos(2 * Ms)
    eps = math.radians(23.439291)
    return rr * AU * np.array([math.cos(lam), math.cos(eps) * math.sin(lam), math.sin(eps) * math.sin(lam)])


def moon_lowprec(jd):
    """Vallado's low-precision lunar position (Algorithm 31), km"""
    T = (jd - 2451545.0) / 36525.0
    d = math.radians
    lam = d(218.32 + 481267.8813 * T + 6.29 * math.sin(d(134.9 + 477198.85 * T)) - 1.27 * math.sin(d(259.2 - 413335.38 * T)) + 0.66 * math.sin(d(235.7 + 890534.23 * T))
            + 0.21 * math.sin(d(269.9 + 954397.70 * T)) - 0.19 * math.sin(d(357.5 + 35999.05 * T)) - 0.11 * math.sin(d(186.6 + 966404.05 * T)))
    phi = d(5.13 * math.sin(d(93.3 + 483202.03 * T)) + 0.28 * math.sin(d(228.2 + 960400.87 * T)) - 0.28 * math.sin(d(318.3 + 6003.18 * T)) - 0.17 * math.sin(d(217.6 - 407332.20 * T)))
    par = d(0.9508 + 0.0518 * math.cos(d(134.9 + 477198.85 * T)) + 0.0095 * math.cos(d(259.2 - 413335.38 * T)) + 0.0078 * math.cos(d(235.7 + 890534.23 * T)) + 0.0028 * math.cos(d(269.9 + 954397.70 * T)))
    lam -= d(1.396971 * T)  # equinox of date -> J2000
    eps = d(23.439291)
    rr = RE / math.sin(par)
    return rr * np.array([math.cos(phi) * math.cos(lam), math.cos(eps) * math.cos(phi) * math.sin(lam) - math.sin(eps) * math.sin(phi),
                          math.sin(eps) * math.cos(phi) * math.sin(lam) + math.cos(eps) * math.sin(phi)])


def sun_fraction(sat, sun, r_sun=696000.0, r_earth=RE):
    """visible fraction of the solar disk seen from the satellite: overlap of two disks of angular radii a (Sun) and b (Earth) whose centres are c apart"""
    s = sun - sat
    a = math.asin(r_sun / np.linalg.norm(s))
    b = math.asin(r_earth / np.linalg.norm(sat))
    c = math.acos(max(-1.0, min(1.0, float((-sat) @ s) / (np.linalg.norm(sat) * np.linalg.norm(s)))))
    if c >= a + b:
        return 1.0
    if c <= b - a:
        return 0.0
    if c <= a - b:
        return 1.0 - (b * b) / (a * a)
    # lens area of two circles
    x = (c * c + a * a - b * b) / (2 * c)
    yy = math.sqrt(max(0.0, a * a - x * x))
    area = a * a * math.acos(x / a) + b * b * math.acos((c - x) / b) - c * yy
    return 1.0 - area / (math.pi * a * a)


def impl_run(c):
    from resonaate.dynamics import special_perturbations as spm
    from resonaate.physics import constants as const
    from resonaate.physics.bodies import Earth, Moon, Sun
    from resonaate.physics.bodies import third_body as tb
    from resonaate.physics.bodies.gravitational_potential import getNonSphericalHarmonics, loadGeopotentialCoefficients, nonSphericalAcceleration
    from resonaate.physics.sensor_utils import calculateSunVizFraction
    from resonaate.physics.time.stardate import JulianDate, datetimeToJulianDate, julianDateToDatetime
    from resonaate.physics.transforms.reductions import ReductionParams
    from resonaate.common.labels import GeopotentialModel
    from resonaate.scenario.config.geopotential_config import GeopotentialConfig
    from resonaate.scenario.config.perturbations_config import PerturbationsConfig

    assert float(Earth.mu) == MU and float(Earth.radius) == RE, "Earth constants changed: update MU/RE"
    start = datetime.fromisoformat(c["start"])
    jd0 = datetimeToJulianDate(start)
    N = c["degree"]
    M = max(0, N - 2) if c["order_le"] else N
    pos, vel = np.array(c["pos"]), np.array(c["vel"])
    jd = JulianDate(jd0 + c["t"] / 86400)
    sun_now = np.array(Sun.getPosition(jd))
    if c["shadow_bias"]:
        # put the satellite behind the Earth as seen from the Sun, with the Sun's disc cut by the Earth's limb: seen from the satellite the
        # Earth (angular radius b) and the Sun (angular radius a) are c = b + u a apart, u from -1.3 (umbra) through the penumbra to +1.3 (full sun)
        s_hat = sun_now / np.linalg.norm(sun_now)
        perp = np.cross(s_hat, [0.3, -0.5, 0.8])
        perp /= np.linalg.norm(perp)
        rr = float(np.linalg.norm(pos))
        b_ang = math.asin(RE / rr)
        a_ang = math.asin(696000.0 / float(np.linalg.norm(sun_now)))
        u = -1.3 + 2.6 * ((c["eph_k"] % 53) / 52.0)
        c_ang = b_ang + u * a_ang
        pos = -rr * (math.cos(c_ang) * s_hat + math.sin(c_ang) * perp)
    out = {"pos": [float(v) for v in pos], "N": N, "M": M, "jd": float(jd), "jd0": float(jd0)}

    def dyn(bodies, srp, gr, degree, order):
        return spm.SpecialPerturbations(JulianDate(jd0), GeopotentialConfig(model=c["file"], degree=degree, order=order),
                                        PerturbationsConfig(third_bodies=bodies, solar_radiation_pressure=srp, general_relativity=gr), c["ratio"])

    x = np.concatenate([pos, vel])
    acc = lambda d_, st=x: np.array(d_._differentialEquation(float(c["t"]), st.copy(), check_collision=False))
    full = acc(dyn(c["bodies"], c["srp"], c["gr"], N, M))
    out["full"] = [float(v) for v in full]
    out["terms"] = {
        "none": [float(v) for v in acc(dyn([], False, False, N, M))],
        "pm": [float(v) for v in acc(dyn([], False, False, 0, 0))],
        "srp_only": [float(v) for v in acc(dyn([], True, False, 0, 0))],
        "srp_with_sun": [float(v) for v in acc(dyn(["sun"], True, False, 0, 0))],
        "sun_only": [float(v) for v in acc(dyn(["sun"], False, False, 0, 0))],
        "gr_only": [float(v) for v in acc(dyn([], False, True, 0, 0))],
    }
    for b in set(c["bodies"]):
        out["terms"]["tb:" + b] = [float(v) for v in acc(dyn([b], False, False, 0, 0))]
    # batch layout: K columns at once against one at a time
    K = c["K"]
    if K > 1:
        cols = [x] + [np.concatenate([pos * (1 + 0.01 * k), vel]) for k in range(1, K)]
        flat = np.array(cols).T.copy().ravel()
        d = dyn(c["bodies"], c["srp"], c["gr"], N, M)
        out["batch"] = [float(v) for v in d._differentialEquation(float(c["t"]), flat.copy(), check_collision=False)]
        out["batch_cols"] = [[float(v) for v in d._differentialEquation(float(c["t"]), col.copy(), check_collision=False)] for col in cols]
    # pieces for the reference and for the model
    _dt = julianDateToDatetime(jd)
    Mcode = np.array(spm._getRotationMatrix(jd, ReductionParams.build(_dt)))
    out["rot_code"] = [[float(v) for v in row] for row in Mcode]
    # the Earth-fixed -> inertial rotation of the EXACT instant (microseconds), through the reduction that C04 checks
    exact = ReductionParams.build(start + timedelta(seconds=c["t"]))
    Mrot = np.array(exact.rot_pnr) @ np.array(exact.rot_w)
    out["rot"] = [[float(v) for v in row] for row in Mrot]
    out["sun"] = [float(v) for v in sun_now]
    out["moon"] = [float(v) for v in Moon.getPosition(jd)]
    out["bodies_pos"] = {}
    for b in set(c["bodies"]):
        cls = {"sun": tb.Sun, "moon": tb.Moon, "jupiter": tb.Jupiter, "saturn": tb.Saturn, "venus": tb.Venus}[b]
        out["bodies_pos"][b] = ([float(v) for v in cls.getPosition(jd)], float(cls.mu))
    out["tb_fn"] = {b: [float(v) for v in spm._getThirdBodyAcceleration(pos, np.array(p))] for b, (p, _) in out["bodies_pos"].items()}
    out["frac"] = float(calculateSunVizFraction(pos, sun_now))
    out["const"] = {"P": float(const.SOLAR_PRESSURE), "au": float(const.AU2KM), "c": float(const.SPEED_OF_LIGHT)}
    r_ecef = Mcode.T @ pos
    out["r_ecef"] = [float(v) for v in r_ecef]
    out["r_ecef_exact"] = [float(v) for v in (Mrot.T @ pos)]
    cnm, snm = loadGeopotentialCoefficients(GeopotentialModel(c["file"]))
    out["ns_ecef"] = [float(v) for v in nonSphericalAcceleration(r_ecef, Earth.mu, Earth.radius, cnm, snm, N, M)]
    v_, w_ = getNonSphericalHarmonics(r_ecef, Earth.radius, N + 1, M + 1)
    out["V"], out["W"] = [[float(t) for t in row] for row in v_], [[float(t) for t in row] for row in w_]
    out["cnm"] = [[float(cnm[n, m]) for m in range(M + 1)] for n in range(N + 1)]
    out["snm"] = [[float(snm[n, m]) for m in range(M + 1)] for n in range(N + 1)]
    # ephemeris: continuity across a segment boundary and the Chebyshev evaluation itself
    seg = [tb.TBK.SS_BC_2_SUN_CENTER, tb.TBK.SS_BC_2_EARTH_BC, tb.TBK.EARTH_BC_2_MOON_CENTER, tb.TBK.EARTH_BC_2_EARTH_CENTER][c["eph_k"] % 4]
    jd_init, interval, coeffs = tb.THIRD_BODY_EPHEMS[seg.value]
    k = int((c["eph_jd"] - jd_init) / interval)
    boundary = jd_init + k * interval
    eps = 2.0 ** -20  # ~0.08 s, exactly representable next to a JD
    out["eph"] = {"seg": seg.name, "boundary": boundary, "before": [float(v) for v in tb.getSegmentPosition(boundary - eps, seg)],
                  "after": [float(v) for v in tb.getSegmentPosition(boundary + eps, seg)], "at": [float(v) for v in tb.getSegmentPosition(boundary, seg)], "eps": eps}
    jde = c["eph_jd"]
    val = (jde - jd_init) / interval
    out["eph"]["scale"] = (float(jde), float(jd_init), float(interval), float(2 * (val - int(val) - 0.5)), int(val))
    out["eph"]["coeffs_x"] = [float(v) for v in coeffs[0, int(val), :]]
    out["eph"]["value_x"] = float(tb.getSegmentPosition(jde, seg)[0])
    out["eph"]["sun_at"] = [float(v) for v in Sun.getPosition(jde)]
    out["eph"]["moon_at"] = [float(v) for v in Moon.getPosition(jde)]
    return out


def rel(a, b, scale=None):
    a, b = np.asarray(a, float), np.asarray(b, float)
    s = scale if scale is not None else max(float(np.linalg.norm(b)), 1e-300)
    return float(np.linalg.norm(a - b) / s)


def oracle(run: Run, c, impl):
    if impl[0] != "ok":
        return [("raises", f"{impl[1]}")]
    o = impl[1]
    fails = []
    pos, vel = np.array(o["pos"]), np.array(c["vel"])
    r = float(np.linalg.norm(pos))
    N, M = o["N"], o["M"]
    desc = f"r={r:.1f} km, {c['file']} {N}x{M}, bodies {c['bodies']}, srp {c['srp']}, gr {c['gr']}, epoch {c['start']} + {c['t']:.0f} s"
    T = o["terms"]
    a_pm = -MU * pos / r**3
    e = rel(np.array(T["pm"])[3:], a_pm)
    run.worse("point-mass", e)
    if not e <= 1e-12:
        fails.append(("point-mass", f"with nothing configured the acceleration differs from -mu r/r^3 by {e:.3g} ({desc})"))
    if rel(np.array(T["pm"])[:3], vel) > 0:
        fails.append(("kinematics", f"the position derivative is not the velocity ({desc})"))
    # the rotation the right-hand side uses against the rotation of the exact instant
    Mrot = np.array(o["rot"])
    dM = float(np.max(np.abs(np.array(o["rot_code"]) - Mrot)))
    run.worse("earth-fixed-rotation", dM)
    if not dM <= 2e-8:
        fails.append(("earth-fixed-frame", f"the Earth-fixed frame the force model uses differs from the frame of that instant by {dM:.3g} (matrix entries) ({desc})"))
    # geopotential: gradient of the potential built from the file's normalised coefficients, rotated with the instant's Earth-fixed matrix
    if N >= 2:
        g = Mrot @ grad_ns(c["file"], N, M, np.array(o["r_ecef_exact"]))
        got = np.array(T["none"])[3:] - np.array(T["pm"])[3:]
        e = rel(got, g)
        run.worse("geopotential", e)
        if not e <= 1e-7:
            fails.append(("geopotential", f"the non-spherical acceleration differs from the gradient of the {c['file']} potential (degree {N}, order {M}) by {e:.3g} relative: "
                                          f"code {got.tolist()}, reference {g.tolist()} ({desc})"))
    elif rel(np.array(T["none"])[3:], np.array(T["pm"])[3:]) > 1e-15:
        fails.append(("geopotential:absent", f"degree {N} configured, yet a non-spherical term is present ({desc})"))
    # third bodies: direct formula, each alone and summed
    tb_sum = np.zeros(3)
    for b, (p3, mu3) in o["bodies_pos"].items():
        p3 = np.array(p3)
        direct = mu3 * ((p3 - pos) / np.linalg.norm(p3 - pos) ** 3 - p3 / np.linalg.norm(p3) ** 3)
        e = rel(mu3 * np.array(o["tb_fn"][b]), direct)
        run.worse("third-body", e)
        if not e <= 1e-7:
            fails.append(("third-body", f"{b}: the third-body term differs from mu3((r3-r)/d^3 - r3/R^3) by {e:.3g} relative ({desc})"))
        # and it is what the right-hand side adds (to the resolution of the total acceleration it is added to)
        got = np.array(T["tb:" + b])[3:] - np.array(T["pm"])[3:]
        e2 = rel(got, direct, scale=float(np.linalg.norm(direct)) + 4e-16 * float(np.linalg.norm(a_pm)))
        run.worse("third-body:in-sum", e2)
        if not e2 <= 1.0 and not rel(got, direct) <= 1e-6:
            fails.append(("third-body:in-sum", f"{b}: the right-hand side adds {got.tolist()} for this body, the direct formula gives {direct.tolist()} ({desc})"))
        tb_sum += direct * c["bodies"].count(b)
    # radiation pressure: cannonball, the Sun of this instant, own visible fraction
    sun = np.array(o["sun"])
    s = sun - pos
    d = float(np.linalg.norm(s))
    nu = sun_fraction(pos, sun)
    srp_ref = -o["const"]["P"] * c["ratio"] * (o["const"]["au"] / d) ** 2 * (s / d) * nu / 1000.0
    full_sun = -o["const"]["P"] * c["ratio"] * (o["const"]["au"] / d) ** 2 / 1000.0
    for key in ("srp_only", "srp_with_sun"):
        base = T["pm"] if key == "srp_only" else T["sun_only"]
        got = np.array(T[key])[3:] - np.array(base)[3:]
        e = rel(got, srp_ref, scale=abs(full_sun))
        run.worse("srp", e)
        if not e <= 2e-5:
            fails.append(("srp", f"radiation pressure ({'Sun also a third body' if key == 'srp_with_sun' else 'Sun not a third body'}) differs from the cannonball model with visible fraction "
                                 f"{nu:.4f} by {e:.3g} of the full-sun magnitude: code {got.tolist()}, reference {srp_ref.tolist()} ({desc})"))
    run.count(f"sun:{'full' if nu >= 1 else 'shadow' if nu <= 0 else 'penumbra'}")
    # relativistic correction (Schwarzschild term)
    c2 = (o["const"]["c"] / 1000.0) ** 2
    gr_ref = MU / (c2 * r**3) * ((4 * MU / r - vel @ vel) * pos + 4 * (pos @ vel) * vel)
    got = np.array(T["gr_only"])[3:] - np.array(T["pm"])[3:]
    e = rel(got, gr_ref)
    run.worse("gr", e)
    if not e <= 1e-6:
        fails.append(("gr", f"the relativistic term differs from the Schwarzschild correction by {e:.3g} relative ({desc})"))
    # the configured sum: exactly the configured terms
    want = np.array(T["none"])[3:] + tb_sum + (srp_ref if c["srp"] else 0.0) + (gr_ref if c["gr"] else 0.0)
    pert_scale = float(np.linalg.norm(want - a_pm)) + 1e-12
    e = rel(np.array(o["full"])[3:], want, scale=pert_scale)
    run.worse("sum", e)
    if not e <= 5e-5:
        fails.append(("sum", f"the configured acceleration differs from point mass + geopotential + configured third bodies + configured SRP/GR by {e:.3g} of the perturbation ({desc})"))
    if "batch" in o:
        K = c["K"]
        db = np.array(o["batch"]).reshape(6, K)
        for k in range(K):
            if not np.array_equal(db[:, k], np.array(o["batch_cols"][k])):
                fails.append(("batch", f"column {k} of a batch of {K} differs from the same state evaluated alone ({desc})"))
                break
    # ephemerides
    ep = o["eph"]
    vmax = {"SS_BC_2_SUN_CENTER": 0.03, "SS_BC_2_EARTH_BC": 32.0, "EARTH_BC_2_MOON_CENTER": 1.2, "EARTH_BC_2_EARTH_CENTER": 0.02}[ep["seg"]]
    jump = max(float(np.linalg.norm(np.array(ep["after"]) - np.array(ep["at"]))), float(np.linalg.norm(np.array(ep["at"]) - np.array(ep["before"]))))
    run.worse("ephemeris-jump-km", jump)
    if not jump <= vmax * ep["eps"] * 86400 * 1.5 + 1e-6:
        fails.append(("ephemeris:continuity", f"{ep['seg']} jumps by {jump:.6g} km across the segment boundary JD {ep['boundary']}"))
    es = rel(ep["sun_at"], sun_lowprec(ep["scale"][0]))
    em = rel(ep["moon_at"], moon_lowprec(ep["scale"][0]))
    run.worse("sun-vs-analytic", es)
    run.worse("moon-vs-analytic", em)
    if not es <= 2e-3:
        fails.append(("ephemeris:sun", f"Sun position at JD {ep['scale'][0]} differs from the low-precision analytic ephemeris by {es:.3g} relative"))
    if not em <= 1e-2:
        fails.append(("ephemeris:moon", f"Moon position at JD {ep['scale'][0]} differs from the low-precision analytic ephemeris by {em:.3g} relative"))
    return fails


# ----------------------------------------------------------------------------- model correspondence
def V(l):
    return " ".join(fmt(frac(float(v))) for v in l)


def model_lines(c, o):
    L = []
    pos, vel = np.array(o["pos"]), np.array(c["vel"])
    for b, (p3, mu3) in o["bodies_pos"].items():
        p3 = np.array(p3)
        L.append((f"tb:{b}", f"fo.tb {V(pos)} {V(p3)} {fmt(frac(float(np.linalg.norm(pos))))} {fmt(frac(float(np.linalg.norm(p3))))} {fmt(frac(float(np.linalg.norm(p3 - pos))))}"))
    c2 = (o["const"]["c"] / 1000) ** 2
    L.append(("gr", f"fo.gr {fmt(frac(MU))} {fmt(frac(c2))} {V(pos)} {V(vel)} {fmt(frac(float(np.linalg.norm(pos))))} {fmt(frac(float(np.linalg.norm(vel))))}"))
    sun = np.array(o["sun"])
    L.append(("srp", f"fo.srp {fmt(frac(o['const']['P']))} {fmt(frac(c['ratio']))} {fmt(frac(o['const']['au']))} {V(pos)} {V(sun)} {fmt(frac(float(np.linalg.norm(sun - pos))))} {fmt(frac(o['frac']))}"))
    N, M = o["N"], o["M"]
    if N <= 12:
        re = np.array(o["r_ecef"])
        rn = float(np.linalg.norm(re))
        rho = RE / rn
        xb, yb, zb = (float(v) for v in re * rho / rn)
        L.append(("harm", f"fo.harm {fmt(frac(xb))} {fmt(frac(yb))} {fmt(frac(zb))} {fmt(frac(rho))} {fmt(frac(rho ** 2))} {N + 1} {M + 1}"))
        if N >= 2:
            L.append(("nonsph", f"fo.nonsph {fmt(frac(MU))} {fmt(frac(RE))} {N} {M} {V(re)} {fmt(frac(rn))} " + " ".join(V(row) for row in o["cnm"]) + " " + " ".join(V(row) for row in o["snm"])))
    ep = o["eph"]
    L.append(("scale", f"fo.scale {fmt(frac(ep['scale'][0]))} {fmt(frac(ep['scale'][1]))} {fmt(frac(ep['scale'][2]))}"))
    L.append(("cheb", f"fo.cheb {fmt(frac(ep['scale'][3]))} {len(ep['coeffs_x'])} {V(ep['coeffs_x'])}"))
    return L


def compare(run: Run, c, o, key, out):
    if out == "bad-op":
        run.disagree(key, c, "ok", out)
        return
    T = o["terms"]
    pm = np.array(T["pm"])[3:]
    if key.startswith("tb:"):
        b = key[3:]
        code_form, direct = ([float(Fraction(t)) for t in part.split()] for part in out.split("|"))
        mu3 = o["bodies_pos"][b][1]
        if rel(code_form, o["tb_fn"][b]) > 1e-9:
            run.disagree(key, c, str(o["tb_fn"][b]), str(code_form))
    elif key == "gr":
        code_form, _ = ([float(Fraction(t)) for t in part.split()] for part in out.split("|"))
        got = np.array(T["gr_only"])[3:] - pm
        if rel(code_form, got) > 1e-6:
            run.disagree(key, c, str(got.tolist()), str(code_form))
    elif key == "srp":
        m = [float(Fraction(t)) for t in out.split()]
        got = np.array(T["srp_only"])[3:] - pm
        full = o["const"]["P"] * c["ratio"] * (o["const"]["au"] / float(np.linalg.norm(np.array(o["sun"]) - np.array(o["pos"])))) ** 2 / 1000
        if rel(m, got, scale=full) > 1e-6:
            run.disagree(key, c, str(got.tolist()), str(m))
    elif key == "harm":
        vpart, wpart = out.split("|")
        mv, mw = [float(Fraction(t)) for t in vpart.split()], [float(Fraction(t)) for t in wpart.split()]
        cv = [t for row in o["V"] for t in row]
        cw = [t for row in o["W"] for t in row]
        sc = max(1e-300, max(abs(t) for t in cv))
        if len(mv) != len(cv) or any(abs(a - b) > 1e-11 * sc for a, b in zip(mv, cv)) or any(abs(a - b) > 1e-11 * sc for a, b in zip(mw, cw)):
            run.disagree(key, c, str(cv[:8]), str(mv[:8]))
    elif key == "nonsph":
        m = [float(Fraction(t)) for t in out.split()]
        if rel(m, o["ns_ecef"]) > 1e-9:
            run.disagree(key, c, str(o["ns_ecef"]), str(m))
    elif key == "scale":
        x, idx = out.split()
        ep = o["eph"]
        if int(idx) != ep["scale"][4] or abs(float(Fraction(x)) - ep["scale"][3]) > 1e-9:
            run.disagree(key, c, str(ep["scale"]), out)
    elif key == "cheb":
        if abs(float(Fraction(out)) - o["eph"]["value_x"]) > 1e-9 * max(1.0, abs(o["eph"]["value_x"])):
            run.disagree(key, c, repr(o["eph"]["value_x"]), out)


def run_cases(run: Run, cs):
    impls = [guarded(impl_run, c) for c in cs]
    plan, lines = [], []
    for idx, (c, i) in enumerate(zip(cs, impls)):
        if i[0] == "ok":
            try:
                for key, l in model_lines(c, i[1]):
                    plan.append((idx, key))
                    lines.append(l)
            except (ValueError, OverflowError):
                pass
    outs = run.model(lines)
    if outs is not None:
        for (idx, key), out in zip(plan, outs):
            run.model_compared += 1
            compare(run, cs[idx], impls[idx][1], key, out)
    for c, i in zip(cs, impls):
        run.case("acceleration", c, nontrivial=True, branch=f"{c['file']}:{c['degree']}")
        for key, what in oracle(run, c, i):
            run.fail(key, c, what)


def search(run: Run):
    sub = Run.__new__(Run)
    sub.__dict__.update(run.__dict__)
    sub.rng = __import__("random").Random(run.seed + 71)
    sub.tier = "thorough"
    for c in cases(sub)[:200]:
        f = oracle(run, c, guarded(impl_run, c))
        if f:
            return (f[0][0], c, f[0][1])
    return None


def main():
    run = Run(
        PID,
        ["RV.Props.C13", "RV.Bridge.Geometry"],
        ["RV/Model/Forces.lean"],
        "Lean 4 theorems (the third-body expression equals the direct formula; the relativistic term equals the Schwarzschild correction; cannonball radiation pressure in direction, "
        "magnitude and shadow; the sum contains exactly the configured terms; the Cunningham recursion gives the textbook J2 gradient; Earth-fixed sandwich with an orthogonal matrix; "
        "Clenshaw evaluation equals the Chebyshev series for any number of coefficients; scaled segment argument in [-1, 1)) + exact-rational correspondence of every term, of the "
        "V/W tables and of the harmonic sum with the real code + the real _differentialEquation against an independent reference for every configuration subset",
        trusted_extra=[
            "general degree/order: the harmonic sum is compared with a finite-difference gradient of a potential built from the file's normalised coefficients with an independent "
            "normalised Legendre recursion (1e-7 relative); the closed-form theorem covers J2",
            "Sun/Moon accuracy is checked against Vallado's low-precision formulas only (2e-3 / 1e-2 relative); the DE432 coefficients are data",
            "the Earth-fixed rotation of the exact instant is built from ReductionParams (the reduction C04 checks), not from the force model's own helper",
        ],
    )
    run.rule = ("states from 200 km altitude to 10 Earth radii at random latitude/longitude, epochs 2015-2021 plus 0-30 days of elapsed time, the four coefficient files at degree 0-20 "
                "(order = degree or lower), every third-body subset used incl. repeated and permuted bodies, SRP/GR on and off, satellites placed around the Earth's shadow boundary, "
                "batches of 1-3 columns, ephemeris segments at and around their interval boundaries")
    run.assumptions = []
    run.lean_phase()
    if run.args.replay:
        rp = json.loads(Path(run.args.replay).read_text())
        cs = [rp["case"]] if rp.get("kind") == "failing-input" else cases(run)
    else:
        cs = cases(run)
    run_cases(run, cs)
    run.finish(search)


if __name__ == "__main__":
    main_guard(main)
