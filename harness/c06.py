"""C06 - the unscented filter equals the Kalman filter on linear systems; covariances stay valid."""
from __future__ import annotations

import json
import math
import sys
from datetime import datetime
from fractions import Fraction
from pathlib import Path
from types import SimpleNamespace

sys.path.insert(0, str(Path(__file__).resolve().parent))
import numpy as np
from common import Run, Toks, close, corpus, fmt, frac, guarded, main_guard

PID = "C06"


# ----------------------------------------------------------------------------- exact linear algebra (harness side)
def fmat(rows):
    return [[Fraction(x) for x in r] for r in rows]


def mmul(A, B):
    return [[sum(A[i][k] * B[k][j] for k in range(len(B))) for j in range(len(B[0]))] for i in range(len(A))]


def mT(A):
    return [list(r) for r in zip(*A)]


def madd(A, B):
    return [[a + b for a, b in zip(ra, rb)] for ra, rb in zip(A, B)]


def msub(A, B):
    return [[a - b for a, b in zip(ra, rb)] for ra, rb in zip(A, B)]


def minv(M):
    n = len(M)
    A = [[Fraction(x) for x in row] + [Fraction(int(i == j)) for j in range(n)] for i, row in enumerate(M)]
    for c in range(n):
        p = next(r for r in range(c, n) if A[r][c] != 0)
        A[c], A[p] = A[p], A[c]
        pv = A[c][c]
        A[c] = [x / pv for x in A[c]]
        for r in range(n):
            if r != c and A[r][c] != 0:
                f = A[r][c]
                A[r] = [x - f * y for x, y in zip(A[r], A[c])]
    return [row[n:] for row in A]


def mvec(A, v):
    return [sum(a * b for a, b in zip(r, v)) for r in A]


def chol(P):
    """exact Cholesky when it exists in the rationals, else None"""
    n = len(P)
    L = [[Fraction(0)] * n for _ in range(n)]
    for i in range(n):
        for j in range(i + 1):
            s = P[i][j] - sum(L[i][k] * L[j][k] for k in range(j))
            if i == j:
                if s <= 0:
                    return None
                r = Fraction(math.isqrt(s.numerator), math.isqrt(s.denominator))
                if r * r != s:
                    return None
                L[i][j] = r
            else:
                L[i][j] = s / L[j][j]
    return L


def rand_lower(rng, n):
    L = [[Fraction(0)] * n for _ in range(n)]
    for i in range(n):
        for j in range(i):
            L[i][j] = Fraction(rng.randint(-4, 4), rng.choice([1, 2, 4]))
        L[i][i] = Fraction(rng.choice([1, 2, 3, 4, 1, 2]), rng.choice([1, 2, 4]))
    return L


def cases(run: Run):
    rng = run.rng
    out = [dec(c) for c in corpus(PID)]  # stored as JSON: rationals as strings
    for _ in range(run.n(120, 1500)):
        n = rng.choice([1, 2, 3, 4, 5, 6, 6, 8])
        nobs = rng.randint(1, 4)
        dims = [rng.randint(1, 3) for _ in range(nobs)]
        if rng.random() < 0.25:  # stacked dimension equal to the number of sigma points (a square measurement matrix)
            target = 2 * n + 1
            dims = []
            while sum(dims) < target:
                dims.append(min(rng.randint(1, 4), target - sum(dims)))
        tuning = rng.choice(["gamma2", "gamma2", "half", "default", "kappa0", "tight", "tight"])
        if tuning == "gamma2":
            alpha, kappa, beta = Fraction(1), Fraction(4 - n), Fraction(2)
        elif tuning == "half":
            alpha, kappa, beta = Fraction(1, 2), Fraction(16 - n), Fraction(rng.choice([0, 2]))
        elif tuning == "kappa0":
            alpha, kappa, beta = Fraction(1), Fraction(0), Fraction(2)
        elif tuning == "tight":
            # legal tunings with a very small spread: alpha below the default, or alpha = 1e-3 with n + kappa below one
            if rng.random() < 0.5:
                alpha, kappa, beta = Fraction(rng.choice([5, 4, 2]), 10000), None, Fraction(2)
            else:
                alpha, kappa, beta = Fraction(1, 1000), Fraction(1, 2) - n, Fraction(2)
        else:
            alpha, kappa, beta = Fraction(1, 1000), None, Fraction(2)
        steps = rng.randint(1, 4)
        pattern = [rng.choice(["obs", "obs", "none", "forecast-miss"]) for _ in range(steps)]
        pattern[-1] = "obs"
        m = sum(dims)
        c = {
            "n": n, "dims": dims, "alpha": alpha, "kappa": kappa, "beta": beta, "resample": rng.random() < 0.5, "flow": rng.choice(["direct", "engine", "results"]), "companion": rng.random() < 0.5, "pattern": pattern, "tuning": tuning,
            "x0": [Fraction(rng.randint(-20, 20), 4) for _ in range(n)], "L0": rand_lower(rng, n),
            "F": [[Fraction(rng.randint(-2, 2), rng.choice([4, 8, 16])) + (1 if i == j else 0) for j in range(n)] for i in range(n)],
            "Lq": [[(Fraction(rng.choice([1, 2]), 4) if i == j else Fraction(0)) for j in range(n)] for i in range(n)],
            "H": [[Fraction(rng.randint(-3, 3), rng.choice([1, 2])) for _ in range(n)] for _ in range(m)],
            "r": [Fraction(rng.choice([1, 2, 4, 1]), rng.choice([1, 4, 16])) for _ in range(m)],
            "ys": [[Fraction(rng.randint(-40, 40), 4) for _ in range(m)] for _ in range(steps)],
        }
        if rng.random() < 0.2 and m >= 2 and tuning in ("gamma2", "half", "kappa0"):
            # observations in wildly different units (an angle in radians next to a range in metres): the estimate does not depend on the units
            # a measurement is expressed in, but the stacked innovation covariance then spans 12-14 orders of magnitude
            units = [rng.choice([Fraction(1, 10000), Fraction(1), Fraction(1000)]) for _ in range(m)]
            if len(set(units)) > 1:
                c["H"] = [[h * u for h in row] for row, u in zip(c["H"], units)]
                c["r"] = [r * u * u for r, u in zip(c["r"], units)]
                c["ys"] = [[y * u for y, u in zip(ys, units)] for ys in c["ys"]]
                c["units"] = [str(u) for u in units]
        out.append(c)
    return out


# ----------------------------------------------------------------------------- the real filter on a linear system
class LinDyn:
    def __init__(self, F):
        self.F = np.array([[float(x) for x in r] for r in F])

    def propagate(self, t0, t1, X, scheduled_events=None, **kw):
        return self.F @ X


class LinMeas:
    def __init__(self, Hblock, rdiag):
        from resonaate.physics.measurements import IsAngle

        self.H = np.array([[float(x) for x in r] for r in Hblock])
        self.r_matrix = np.diag([float(x) for x in rdiag])
        self.angular_values = [IsAngle.NOT_ANGLE] * len(Hblock)

    def calculateMeasurement(self, sensor_eci, tgt_eci, utc_date, noisy=False):
        v = self.H @ np.asarray(tgt_eci, dtype=float)
        return {f"m{i}": float(x) for i, x in enumerate(v)}


def make_obs(c, y):
    obs, k = [], 0
    for d in c["dims"]:
        meas = LinMeas(c["H"][k : k + d], c["r"][k : k + d])
        obs.append(SimpleNamespace(measurement=meas, sensor_eci=np.zeros(6), r_matrix=meas.r_matrix, dim=d, julian_date=2459304.17,
                                   measurement_states=np.array([float(v) for v in y[k : k + d]])))
        k += d
    return obs


def impl_run(c):
    from resonaate.estimation.kalman.unscented_kalman_filter import UnscentedKalmanFilter
    from resonaate.physics.time.stardate import ScenarioTime

    n = c["n"]
    P0 = mmul(c["L0"], mT(c["L0"]))
    Q = mmul(c["Lq"], mT(c["Lq"]))
    kw = {"alpha": float(c["alpha"]), "beta": float(c["beta"])}
    if c["kappa"] is not None:
        kw["kappa"] = float(c["kappa"])
    f = UnscentedKalmanFilter(1, ScenarioTime(0.0), np.array([float(x) for x in c["x0"]]), np.array([[float(x) for x in r] for r in P0]), LinDyn(c["F"]),
                              np.array([[float(x) for x in r] for r in Q]), None, False, False, resample=c["resample"], **kw)
    w = {"mean_sum": float(np.sum(f.mean_weight)), "gamma": float(f.gamma), "mean_weight": [float(x) for x in f.mean_weight], "cvr0": float(f.cvr_weight[0, 0])}
    steps = []
    import copy

    # a second filter of the same dimensions living in the same interpreter, stepped as a scenario steps its estimates: all predictions first, then
    # all updates - one filter's step must not leak into another's
    companion = None
    if c.get("companion") and c.get("flow") == "direct":
        companion = copy.deepcopy(f)
        companion.est_x = companion.est_x + 1.0
        companion.est_p = companion.est_p * 3.0  # another covariance: its sigma points spread differently
    engine = c.get("flow") in ("engine", "results")
    results = c.get("flow") == "results"  # every step handed back to the agent's filter through its result object
    for k, kind in enumerate(c["pattern"]):
        if engine:
            # the way the scenario drives a filter: a worker copy predicts and only the result fields are applied to the agent's filter;
            # a worker copy updates and the agent takes that whole filter back
            worker = copy.deepcopy(f)
            worker.predict(ScenarioTime(60.0 * (k + 1)))
            worker.getPredictionResult().apply(f)
        else:
            f.predict(ScenarioTime(60.0 * (k + 1)))
            if companion is not None:
                companion.predict(ScenarioTime(60.0 * (k + 1)))
        rec = {"kind": kind, "pred_x": f.pred_x.copy(), "pred_p": f.pred_p.copy()}
        obs = make_obs(c, c["ys"][k])
        if kind == "forecast-miss":
            (copy.deepcopy(f) if engine else f).forecast(obs)  # a look-ahead (as tasking does), then the observation is missed
        if results and kind not in ("forecast-miss", "none"):
            # a look-ahead on a worker copy applied as a forecast result (as the reward jobs do), then the update applied as an update result
            look = copy.deepcopy(f)
            look.forecast(obs)
            look.getForecastResult().apply(f)
        upd = copy.deepcopy(f) if engine else f
        if kind in ("forecast-miss", "none"):
            upd.update([])
        else:
            upd.update(obs)
        if results:
            upd.getUpdateResult().apply(f)
        else:
            f = upd
        if kind not in ("forecast-miss", "none"):
            rec.update(S=f.innov_cvr.copy(), C=f.cross_cvr.copy(), K=f.kalman_gain.copy())
        rec.update(est_x=f.est_x.copy(), est_p=f.est_p.copy())
        if companion is not None:
            companion.update(make_obs(c, [y + 1 for y in c["ys"][k]]) if kind == "obs" else [])
        steps.append(rec)
    return {"w": w, "steps": steps}


def kf_reference(c):
    """the Kalman filter (and the documented no-redraw variant) in exact arithmetic"""
    n = c["n"]
    F, H = c["F"], c["H"]
    Q = mmul(c["Lq"], mT(c["Lq"]))
    R = [[(c["r"][i] if i == j else Fraction(0)) for j in range(len(c["r"]))] for i in range(len(c["r"]))]
    x, P = list(c["x0"]), mmul(c["L0"], mT(c["L0"]))
    out = []
    for k, kind in enumerate(c["pattern"]):
        A = mmul(mmul(F, P), mT(F))
        xm, Pm = mvec(F, x), madd(A, Q)
        if kind != "obs":
            x, P = xm, Pm
            out.append({"pred_x": xm, "pred_p": Pm, "est_x": x, "est_p": P})
            continue
        B = Pm if c["resample"] else A
        S = madd(mmul(mmul(H, B), mT(H)), R)
        C = mmul(B, mT(H))
        K = mmul(C, minv(S))
        nu = [a - b for a, b in zip(c["ys"][k], mvec(H, xm))]
        x = [a + b for a, b in zip(xm, mvec(K, nu))]
        P = msub(Pm, mmul(mmul(K, S), mT(K)))
        out.append({"pred_x": xm, "pred_p": Pm, "est_x": x, "est_p": P, "S": S, "C": C, "K": K})
    return out


def model_lines(c, ref):
    """one ukf.step line per observed step whose prior covariance has an exact rational Cholesky factor"""
    n, m = c["n"], len(c["r"])
    lam = c["alpha"] ** 2 * (n + (c["kappa"] if c["kappa"] is not None else 3 - n)) - n
    g2 = n + lam
    gr = Fraction(math.isqrt(g2.numerator), math.isqrt(g2.denominator)) if g2 > 0 else None
    gamma = gr if (gr is not None and gr * gr == g2) else Fraction(math.sqrt(float(g2)))
    lines = []
    x, P = list(c["x0"]), mmul(c["L0"], mT(c["L0"]))
    Q = mmul(c["Lq"], mT(c["Lq"]))
    R = [[(c["r"][i] if i == j else Fraction(0)) for j in range(m)] for i in range(m)]
    for k, kind in enumerate(c["pattern"]):
        L = chol(P)
        r = ref[k]
        if kind == "obs" and L is not None:
            Lp = chol(r["pred_p"]) if c["resample"] else L
            if Lp is not None:
                Sinv = minv(r["S"])
                flat = lambda M: " ".join(fmt(v) for row in M for v in row)
                lines.append((k, f"ukf.step {n} {m} {fmt(lam)} {fmt(gamma)} {fmt(c['alpha'])} {fmt(c['beta'])} " + " ".join(fmt(v) for v in x) + " "
                              + flat(L) + " " + flat(c["F"]) + " " + flat(Q) + f" {1 if c['resample'] else 0} " + flat(Lp) + " " + flat(c["H"]) + " " + flat(R)
                              + " " + flat(Sinv) + " " + " ".join(fmt(v) for v in c["ys"][k])))
        x, P = r["est_x"], r["est_p"]
    return lines


def enc(v):
    if isinstance(v, Fraction):
        return fmt(v)
    if isinstance(v, list):
        return [enc(x) for x in v]
    if isinstance(v, dict):
        return {k: enc(x) for k, x in v.items()}
    return v


def dec(c):
    def d(v):
        if isinstance(v, str):
            return Fraction(v)
        if isinstance(v, list):
            return [d(x) for x in v]
        return v

    out = dict(c)
    for k in ("alpha", "kappa", "beta", "x0", "L0", "F", "Lq", "H", "r", "ys"):
        if out.get(k) is not None:
            out[k] = d(out[k])
    return out


def maxrel(a, b):
    a = np.asarray(a, dtype=float).reshape(-1)
    b = np.array([float(x) for row in (b if isinstance(b[0], list) else [b]) for x in row])
    return float(np.max(np.abs(a - b)) / max(1.0, float(np.max(np.abs(b)))))


def oracle(run: Run, c, impl, ref):
    if impl[0] != "ok":
        return [("ukf:raises", f"{impl[1]}")]
    i = impl[1]
    fails = []
    base = 1e-6 if c["tuning"] == "default" else 1e-5 if c["tuning"] == "tight" else 1e-9
    # the centre weight is lambda / (n + lambda): -1.2e7 for alpha = 4e-4, and the 2n+1 terms then sum to one only to |w0| x machine epsilon
    # (2.1e-9 seen for alpha = 1/2500 on the clean tree - a false alarm of the fixed 1e-9 this line used to have)
    nn = c["n"]
    lam_ = float(c["alpha"]) ** 2 * (nn + (float(c["kappa"]) if c["kappa"] is not None else 3 - nn)) - nn
    if abs(i["w"]["mean_sum"] - 1.0) > 1e-9 + 50 * abs(lam_ / (nn + lam_)) * 2.3e-16:
        fails.append(("weights", f"sigma-point weights sum to {i['w']['mean_sum']}"))
    cond_acc = 1.0
    for k, (st, r) in enumerate(zip(i["steps"], ref)):
        mode = "redraw" if c["resample"] else "no-redraw"
        # float error grows with the conditioning of the innovation covariance (inverted) and of the covariances handed
        # from step to step; the tolerance is scaled by it (measured on the exact reference) and capped
        if "S" in r:
            cond_acc *= max(1.0, float(np.linalg.cond(np.array([[float(v) for v in row] for row in r["S"]]))))
        cond_acc = max(cond_acc, float(np.linalg.cond(np.array([[float(v) for v in row] for row in r["pred_p"]]))))
        tol = min(1e-4, base * max(1.0, cond_acc) * c["n"])
        run.worse("log10-condition", math.log10(cond_acc))
        for key in ("pred_x", "pred_p", "est_x", "est_p") + (("S", "C", "K") if st["kind"] == "obs" else ()):
            e = maxrel(st[key], r[key])
            run.worse(f"{mode}:{key}", e)
            if e > tol:
                what = "Kalman" if (c["resample"] or key.startswith("pred")) else "documented no-redraw variant"
                fails.append((f"ukf:{key}", f"step {k} ({st['kind']}, {mode}, n={c['n']}, dims {c['dims']}, pattern {c['pattern']}): {key} differs from the {what} value by {e:.3g} (relative)"))
                return fails
        P = np.asarray(st["est_p"])
        Pm = np.asarray(st["pred_p"])
        if np.max(np.abs(P - P.T)) > 1e-9 * max(1.0, np.abs(P).max()):
            fails.append(("ukf:symmetric", f"step {k}: est_p not symmetric"))
        sc = max(1.0, np.abs(Pm).max())
        if np.linalg.eigvalsh((P + P.T) / 2).min() < -1e-7 * sc and c["resample"]:
            fails.append(("ukf:psd", f"step {k}: est_p has a negative eigenvalue"))
        if np.linalg.eigvalsh(((Pm - P) + (Pm - P).T) / 2).min() < -1e-7 * sc:
            fails.append(("ukf:post-le-prior", f"step {k}: posterior exceeds prior"))
        if st["kind"] != "obs" and (maxrel(st["est_x"], [r["pred_x"]]) > tol):
            fails.append(("ukf:no-obs", f"step {k}: a step without observations changed the propagated mean"))
        if st["kind"] == "obs":
            K, S = np.asarray(st["K"]), np.asarray(st["S"])
            if np.max(np.abs(P - (Pm - K @ S @ K.T))) > 1e-9 * sc:
                fails.append(("ukf:post-formula", f"step {k}: est_p != pred_p - K S K^T"))
    return fails


def to_lists(v):
    if isinstance(v, np.ndarray):
        return v.tolist()
    if isinstance(v, dict):
        return {k: to_lists(x) for k, x in v.items()}
    if isinstance(v, (list, tuple)):
        return [to_lists(x) for x in v]
    if isinstance(v, (np.floating, np.integer)):
        return v.item()
    return v


def worker_main():
    """the cases on stdin, each run on the real filter in this fresh interpreter, results on stdout"""
    cs = [dec(c) for c in json.loads(sys.stdin.read())]
    out = []
    for c in cs:
        r = guarded(impl_run, c)
        out.append([r[0], to_lists(r[1])])
    print("WORKER-RESULT " + json.dumps(out))


def impl_fresh(cs):
    """result objects keep per-class state for the life of the interpreter: the hand-back flow is run in fresh interpreters, one in which the first
    result ever applied after a prediction is a forecast (as in a scenario step) and one in which it is an update"""
    import subprocess

    if not cs:
        return []
    p = subprocess.run([sys.executable, "-u", str(Path(__file__).resolve()), "--worker"], input=json.dumps([enc(c) for c in cs]), capture_output=True, text=True, timeout=1200)
    for line in p.stdout.splitlines():
        if line.startswith("WORKER-RESULT "):
            return [tuple(x) for x in json.loads(line[len("WORKER-RESULT "):])]
    raise RuntimeError("fresh-interpreter run produced no result: " + (p.stderr or p.stdout)[-400:])


def run_cases(run: Run, cs):
    impls = [None if c.get("flow") == "results" else guarded(impl_run, c) for c in cs]
    for first_obs in (True, False):
        idx = [k for k, c in enumerate(cs) if c.get("flow") == "results" and (c["pattern"][0] == "obs") == first_obs]
        got = guarded(impl_fresh, [cs[k] for k in idx])
        for j, k in enumerate(idx):
            impls[k] = got[1][j] if got[0] == "ok" else got
        run.count("fresh-interpreter:" + ("forecast-first" if first_obs else "update-first"), len(idx))
    refs = [kf_reference(c) for c in cs]
    lines, spans = [], []
    for c, r in zip(cs, refs):
        ls = model_lines(c, r)
        spans.append((len(lines), ls))
        lines.extend(l for _, l in ls)
    outs = run.model(lines)
    for c, i, r, (a, ls) in zip(cs, impls, refs, spans):
        jc = enc(c)
        small = {k: v for k, v in jc.items() if k in ("n", "dims", "alpha", "kappa", "beta", "resample", "flow", "pattern", "tuning")}
        run.case("ukf", small, nontrivial=True, branch=("redraw" if c["resample"] else "no-redraw") + ":" + c["tuning"])
        if 2 * c["n"] + 1 == len(c["r"]):
            run.count("square-measurement-sigma-matrix")
        if outs is not None and i[0] == "ok":
            for j, (k, _) in enumerate(ls):
                run.model_compared += 1
                mo = outs[a + j]
                if mo == "bad-op":
                    run.disagree("ukf", small, "ok", mo)
                    continue
                parts = [[Fraction(t) for t in p.split()] for p in mo.split("|")]
                st = i[1]["steps"][k]
                tol = 1e-6 if c["tuning"] == "default" else 1e-5 if c["tuning"] == "tight" else 1e-9
                for key, vals in zip(("pred_x", "pred_p", "S", "C", "K", "est_x", "est_p"), parts):
                    got = np.asarray(st[key], dtype=float).reshape(-1)
                    want = np.array([float(v) for v in vals])
                    e = float(np.max(np.abs(got - want)) / max(1.0, float(np.max(np.abs(want)))))
                    run.worse(f"model:{key}", e)
                    if e > tol:
                        run.disagree(f"ukf.{key}", small, f"step {k}: relative difference {e:.3g}", "model")
                        break
        for key, what in oracle(run, c, i, r):
            run.fail(key, jc, what)


def search(run: Run):
    sub = Run.__new__(Run)
    sub.__dict__.update(run.__dict__)
    sub.rng = __import__("random").Random(run.seed + 31)
    sub.tier = "thorough"
    for c in cases(sub)[:800]:
        f = oracle(run, c, guarded(impl_run, c), kf_reference(c))
        if f:
            return (f[0][0], enc(c), f[0][1])
    return None


def main():
    if "--worker" in sys.argv:
        return worker_main()
    run = Run(
        PID,
        ["RV.Props.C06"],
        ["RV/Model/Ukf.lean"],
        "Lean 4 theorems over Mathlib matrices (one key identity for linearly mapped sigma points; Joseph form for positive semi-definiteness) + "
        "differential correspondence of the real UnscentedKalmanFilter on mock linear dynamics/measurements against the executable model and an exact rational Kalman filter",
        trusted_extra=[
            "numpy cholesky/inv/sqrt are oracle inputs (L with L L^T = P, Sinv, gamma); compared to 1e-9 (1e-6 for the default alpha=1e-3 tuning, where the weights are ~1e6)",
            "the executable list-matrix model and the Mathlib-matrix statements are the same formulas written twice; their agreement is by inspection and by the differential runs",
        ],
    )
    run.rule = ("state dimension 1-8, 1-4 stacked observations of differing dimension incl. stacks whose total equals the number of sigma points, both modes, four tunings, "
                "1-4 steps mixing observed, unobserved and forecast-then-missed steps; every case non-trivial; distinct by hash")
    run.assumptions = ["in no-redraw mode the code implements the documented variant (A = F P F^T without Q in the gain); positive semi-definiteness of the posterior is required in redraw mode"]
    run.lean_phase()
    if run.args.replay:
        rp = json.loads(Path(run.args.replay).read_text())
        cs = [dec(rp["case"])] if rp.get("kind") == "failing-input" else cases(run)
    else:
        cs = cases(run)
    run_cases(run, cs)
    run.finish(search)


if __name__ == "__main__":
    main_guard(main)
