"""C18 - multiple-model estimation keeps valid probabilities and a moment-matched output."""
from __future__ import annotations

import json
import math
import sys
from fractions import Fraction
from pathlib import Path

sys.path.insert(0, str(Path(__file__).resolve().parent))
import numpy as np
from common import Run, Toks, close, corpus, fmt, fmt_list, frac, guarded, main_guard

PID = "C18"
XD = 6


# ----------------------------------------------------------------------------- real objects with scripted member filters
class StubModel:
    """Stand-in for a member filter: attributes are scripted per update step (as the suite's own tests do)."""

    def __init__(self, mid, script, ydim):
        self.mid = mid
        self.script = script  # list of dicts per step
        self.k = -1
        self.ydim = ydim
        self.time = 0.0
        self.source = "Observation"
        self.is_angular = np.zeros(ydim, dtype=bool)
        self.r_matrix = np.eye(ydim)
        self._load(0)

    def _load(self, k):
        s = self.script[min(k, len(self.script) - 1)]
        self.pred_x = np.array(s["pred_x"], dtype=float)
        self.est_x = np.array(s["est_x"], dtype=float)
        self.pred_p = np.diag(np.array(s["pred_p"], dtype=float))
        self.est_p = np.diag(np.array(s["est_p"], dtype=float))
        self.nis = float(s["nis"])
        self.innov_cvr = np.diag(np.array(s["innov"], dtype=float))
        self.mean_pred_y = np.zeros(self.ydim)
        self.cross_cvr = np.zeros((XD, self.ydim))
        self.kalman_gain = np.zeros((XD, self.ydim))
        self.true_y = np.zeros(self.ydim)
        self.innovation = np.full(self.ydim, math.sqrt(self.nis / self.ydim))

    def update(self, observations):
        self.k += 1
        self._load(self.k)
        self.time = 60.0 * (self.k + 1)

    def predict(self, t):
        pass


_NOMINAL = {}


def nominal():
    if not _NOMINAL:
        from resonaate.dynamics.two_body import TwoBody
        from resonaate.estimation.kalman.unscented_kalman_filter import UnscentedKalmanFilter
        from resonaate.estimation.maneuver_detection import StandardNis

        est_x = np.array([6378.0, 2.0, 10.0, 0.0, 7.0, 0.0])
        est_p = np.diagflat([1.0, 2.0, 1.0, 1, 1, 1])
        _NOMINAL["f"] = UnscentedKalmanFilter(10001, 0.0, est_x, est_p, TwoBody(), 3 * est_p, StandardNis(0.01), None, False)
    return _NOMINAL["f"]


def build(c):
    from resonaate.estimation.adaptive.gpb1 import GeneralizedPseudoBayesian1
    from resonaate.estimation.adaptive.initialization import lambertInitializationFactory
    from resonaate.estimation.adaptive.mmae_stacking_utils import stackingFactory
    from resonaate.estimation.adaptive.smm import StaticMultipleModel

    args = (nominal(), 300, lambertInitializationFactory("lambert_universal"), stackingFactory("eci_stack"), 1, 60, float(c["thr"]), float(c["pct"]))
    f = StaticMultipleModel(*args) if c["kind"] == "smm" else GeneralizedPseudoBayesian1(*args, mix_ratio=float(c["mix"]))
    n = len(c["models"])
    f.models = [StubModel(i, m, c["ydim"]) for i, m in enumerate(c["models"])]
    f.num_models = n
    f.model_weights = np.array([float(x) for x in c["w0"]])
    f.model_likelihoods = np.ones(n)
    f.mode_probabilities = np.array([float(x) for x in c["w0"]])
    f.true_y = np.zeros(c["ydim"])
    f.x_dim = XD
    f.est_x = np.zeros(XD)
    f.pred_x = np.zeros(XD)
    return f


def impl_run(c):
    from resonaate.common.labels import SensorLabel  # noqa: F401  (import check)
    from resonaate.estimation.sequential_filter import FilterFlag

    f = build(c)
    # a second multiple-model filter in the same interpreter (another target in multiple-model estimation), updated right after this one at every
    # step: what this filter holds must still be what it computed
    g = None
    if c.get("companion"):
        shifted = [[{**st_, "pred_x": [x + 5 for x in st_["pred_x"]], "est_x": [x + 5 for x in st_["est_x"]]} for st_ in m] for m in c["models"]]
        g = build({**c, "models": shifted})
    steps = []
    for k in range(c["steps"]):
        before_ids = [m.mid for m in f.models]
        w_before = [float(x) for x in f.model_weights]
        mu_before = [float(x) for x in f.mode_probabilities]
        observed = bool(c.get("observed", [True] * c["steps"])[k])
        f.update(["obs"] if observed else [])  # a step without observations carries no evidence: the probabilities stay what they were
        closed = bool(FilterFlag.ADAPTIVE_ESTIMATION_CLOSE in f.flags)
        st = {
            "observed": observed,
            "before_ids": before_ids,
            "w_before": w_before,
            "mu_before": mu_before,
            "ids": [m.mid for m in f.models],
            "w": [float(x) for x in f.model_weights],
            "mu": [float(x) for x in f.mode_probabilities],
            "est_x": [float(x) for x in f.est_x],
            "est_p": [[float(x) for x in r] for r in f.est_p],
            "nis": float(f.nis),
            "closed": closed,
            "k": k,
        }
        if g is not None:
            held = (f.est_x, f.pred_x, f.est_p)
            try:
                g.update(["obs"] if observed else [])
            except Exception:  # noqa: BLE001  (the companion's own fate is not under test)
                g = None
            st["after_companion"] = {"est_x": [float(x) for x in held[0]], "est_p": [[float(x) for x in r] for r in held[2]],
                                     "cf_est_x": [float(x) for x in f.converged_filter.est_x] if closed else None}
        if closed:
            cf = f.converged_filter
            st["cf_est_x"] = [float(x) for x in cf.est_x]
            st["cf_est_p"] = [[float(x) for x in r] for r in cf.est_p]
        steps.append(st)
        if closed:
            break
    return steps


# ----------------------------------------------------------------------------- independent evaluations
def likelihood(m_step, ydim):
    """Gaussian likelihood of a model's innovation: exp(-nis/2)/sqrt((2 pi)^m det S)."""
    det = 1.0
    for x in m_step["innov"]:
        det *= float(x)
    return math.exp(-0.5 * float(m_step["nis"])) / math.sqrt((2 * math.pi) ** ydim * det)


def step_data(c, ids, k):
    return [c["models"][i][min(k, len(c["models"][i]) - 1)] for i in ids]


def gate_bound(c):
    from scipy.stats import chi2

    return float(chi2.isf(1 - float(c["pct"]), c["ydim"]))


def cases(run: Run):
    rng = run.rng
    out = [dec(c) for c in corpus(PID)]  # stored as JSON: rationals as strings
    for _ in range(run.n(250, 3000)):
        kind = rng.choice(["smm", "smm", "gpb1"])
        n = rng.choice([2, 2, 3, 3, 4, 5, 8, 12, 30])
        ydim = rng.choice([2, 3, 4])
        pattern = rng.choice(["generic", "dominant", "underflow-all", "underflow-some", "underflow-first", "close"])
        steps = rng.randint(1, 4)
        # a third of the cases at orbital magnitudes: states of thousands of km that differ between models by metres, covariances of
        # (metres)^2 and (mm/s)^2 - where a covariance formed as a difference of large second moments loses all its digits
        regime = "orbital" if rng.random() < 0.35 else "unit"
        base = [Fraction(7000), Fraction(-1200), Fraction(300), Fraction(1), Fraction(29, 4), Fraction(-1, 2)]
        models = []
        for i in range(n):
            script = []
            for k in range(steps):
                if pattern == "generic":
                    nis = rng.choice([0.5, 1, 2, 3, 5, 8, 13, 20])
                elif pattern == "dominant":
                    nis = 0.5 if i == (n // 2) else rng.choice([30, 40, 60])
                elif pattern == "close":
                    nis = 0.25 if i == (n - 1) else rng.choice([8, 13, 25])
                elif pattern == "underflow-all":
                    nis = rng.choice([3000, 4000, 8000])
                elif pattern == "underflow-first":
                    nis = 4000 if i == 0 else 2.0
                else:
                    nis = rng.choice([4000, 2, 3, 5])
                if regime == "orbital":
                    sx = [Fraction(1, 1000)] * 3 + [Fraction(1, 10**6)] * 3
                    sig = rng.choice([Fraction(1, 1000), Fraction(1, 10000), Fraction(1, 100)])  # 1 m, 10 cm, 10 m
                    sp = [sig * sig] * 3 + [sig * sig / 10**6] * 3
                    script.append(
                        {
                            "pred_x": [base[j] + Fraction(rng.randint(-64, 64), 8) * sx[j] for j in range(XD)],
                            "est_x": [base[j] + Fraction(rng.randint(-64, 64), 8) * sx[j] for j in range(XD)],
                            "pred_p": [Fraction(rng.randint(1, 32), 8) * sp[j] for j in range(XD)],
                            "est_p": [Fraction(rng.randint(1, 32), 8) * sp[j] for j in range(XD)],
                            "nis": Fraction(nis),
                            "innov": [Fraction(rng.choice([1, 2, 4, 8]), rng.choice([1, 2, 4])) for _ in range(ydim)],
                        }
                    )
                    continue
                script.append(
                    {
                        "pred_x": [Fraction(rng.randint(-64, 64), 8) for _ in range(XD)],
                        "est_x": [Fraction(rng.randint(-64, 64), 8) for _ in range(XD)],
                        "pred_p": [Fraction(rng.randint(1, 32), 8) for _ in range(XD)],
                        "est_p": [Fraction(rng.randint(1, 32), 8) for _ in range(XD)],
                        "nis": Fraction(nis),
                        "innov": [Fraction(rng.choice([1, 2, 4, 8]), rng.choice([1, 2, 4])) for _ in range(ydim)],
                    }
                )
            models.append(script)
        if rng.random() < 0.5:
            w0 = [Fraction(1, n)] * n
        else:
            raw = [rng.randint(0 if rng.random() < 0.2 else 1, 16) for _ in range(n)]
            if sum(raw) == 0:
                raw[0] = 1
            w0 = [Fraction(x, sum(raw)) for x in raw]
        out.append(
            {
                "kind": kind, "n": n, "ydim": ydim, "pattern": pattern, "steps": steps, "models": models, "w0": w0, "regime": regime, "companion": rng.random() < 0.4,
                # steps without observations in between (static multiple model only): predict, then update with nothing
                "observed": [True] + [not (kind == "smm" and rng.random() < 0.35) for _ in range(steps - 1)],
                "thr": rng.choice([Fraction(1, 10**10), Fraction(1, 100), Fraction(1, 20), Fraction(1, 5), Fraction(2, 5)]),
                "pct": rng.choice([Fraction(997, 1000), Fraction(9, 10), Fraction(3, 5), Fraction(4, 5)]),
                "mix": rng.choice([Fraction(3, 2), Fraction(1), Fraction(10), Fraction(1, 2)]),
            }
        )
    return out


def enc(v):
    if isinstance(v, Fraction):
        return fmt(v)
    if isinstance(v, list):
        return [enc(x) for x in v]
    if isinstance(v, dict):
        return {k: enc(x) for k, x in v.items()}
    return v


def dec(c):
    def d(v):
        if isinstance(v, str):
            return Fraction(v)
        if isinstance(v, list):
            return [d(x) for x in v]
        if isinstance(v, dict):
            return {k: d(x) for k, x in v.items()}
        return v

    out = dict(c)
    for k in ("models", "w0", "thr", "pct", "mix"):
        out[k] = d(c[k])
    return out


def model_lines(c, steps):
    """For every executed step: the probability step and the mixture moments of the survivors."""
    lines = []
    B = gate_bound(c)
    for st in steps:
        ids0 = st["before_ids"]
        data = step_data(c, ids0, st["k"])
        L = [likelihood(d, c["ydim"]) if st.get("observed", True) else 1.0 for d in data]
        nis = [d["nis"] for d in data]
        if c["kind"] == "smm":
            lines.append(f"mm.smmstep {fmt(c['thr'])} {fmt(c['pct'])} {fmt(B)} {fmt_list(st['w_before'])} {fmt_list(L)} {fmt_list(nis)}")
        else:
            lines.append(f"mm.gpb1 {fmt(c['mix'])} {fmt_list(st['mu_before'])} {fmt_list(L)}")
        ids1 = st["ids"]
        d1 = step_data(c, ids1, st["k"])
        xs = " ".join(" ".join(fmt(x) for x in d["est_x"]) for d in d1)
        ps = " ".join(" ".join(fmt(d["est_p"][i] if i == j else 0) for i in range(XD) for j in range(XD)) for d in d1)
        lines.append(f"mm.mix {XD} {fmt_list(st['w'])} {xs} {ps}")
    return lines


TOL = 1e-9


def oracle(run: Run, c, impl):
    fails = []
    kind = c["kind"]
    if impl[0] != "ok":
        return [(f"{kind}:raises", f"update raised {impl[1]}")]
    for st in impl[1]:
        w = st["w"]
        k = st["k"]
        if not st["ids"]:
            fails.append((f"{kind}:no-model", f"step {k}: no model remains"))
            break
        if any((x != x) or x in (float("inf"), float("-inf")) for x in w + st["est_x"]):
            fails.append((f"{kind}:nan", f"step {k}: non-finite weights or estimate {w}"))
            break
        if any(x < 0 for x in w) or abs(sum(w) - 1) > 1e-9:
            fails.append((f"{kind}:invalid-weights", f"step {k}: weights {w} (sum {sum(w)})"))
            break
        if kind == "gpb1":
            mu = st["mu"]
            if any((x != x) or x < 0 for x in mu) or abs(sum(mu) - 1) > 1e-9:
                fails.append((f"{kind}:invalid-modes", f"step {k}: mode probabilities {mu} (sum {sum(mu)})"))
                break
            # the prior of the next step is the posterior mixed by this filter's own Markov matrix: mix_ratio on the diagonal, 1 elsewhere, rows normalised
            nm = len(w)
            if nm == len(mu) and nm > 1:
                scale = 1.0 / (nm - 1 + float(c["mix"]))
                want = [scale * (sum(w) - wi) + float(c["mix"]) * scale * wi for wi in w]
                if any(abs(a_ - b_) > 1e-9 for a_, b_ in zip(mu, want)):
                    fails.append((f"{kind}:mixing", f"step {k}: mode probabilities {mu} are not the posterior {w} mixed with mix_ratio {float(c['mix'])} (expected {want})"))
                    break
        # Bayes' rule on the survivors: w'_i / w'_j = (w_i L_i) / (w_j L_j)
        data0 = step_data(c, st["before_ids"], k)
        L = {i: (likelihood(d, c["ydim"]) if st.get("observed", True) else 1.0) for i, d in zip(st["before_ids"], data0)}
        prior = dict(zip(st["before_ids"], st["mu_before"] if kind == "gpb1" else st["w_before"]))
        post = dict(zip(st["ids"], w))
        ev = sum(prior[i] * L[i] for i in st["before_ids"])
        if ev > 1e-12 and len(st["ids"]) > 1:
            run.count("bayes-checked")
            tot = sum(prior[i] * L[i] for i in st["ids"])
            for i in st["ids"]:
                if not close(post[i], prior[i] * L[i] / tot, 1e-7) and abs(post[i] - prior[i] * L[i] / tot) > 1e-12:
                    fails.append((f"{kind}:bayes", f"step {k}: model {i} has weight {post[i]}, Bayes' rule gives {prior[i] * L[i] / tot}"))
                    break
        elif ev <= 1e-12:
            run.count("evidence-underflow")
        # combined estimate = probability-weighted mean, covariance = moment-matched mixture, symmetric PSD
        d1 = step_data(c, st["ids"], k)
        # exact moments of the mixture with the reported weights (rational arithmetic), compared on the scale of the covariance itself:
        # |error_ij| <= 1e-6 sqrt(cov_ii cov_jj), so a covariance of (1 m)^2 on a state of 7000 km is held to the same standard as a unit one
        wq = [Fraction(x) for x in w]
        wsum = sum(wq)
        meanq = [sum(wi * Fraction(d["est_x"][j]) for wi, d in zip(wq, d1)) / wsum for j in range(XD)]
        covq = [[sum(wi * ((Fraction(d["est_p"][i]) if i == j else 0) + (Fraction(d["est_x"][i]) - meanq[i]) * (Fraction(d["est_x"][j]) - meanq[j]))
                     for wi, d in zip(wq, d1)) / wsum for j in range(XD)] for i in range(XD)]
        mean = np.array([float(x) for x in meanq])
        cov = np.array([[float(x) for x in r] for r in covq])
        sd = np.sqrt(np.diag(cov))
        scale = np.outer(sd, sd)
        if not all(abs(a_ - b_) <= 1e-9 * max(1.0, abs(b_)) for a_, b_ in zip(st["est_x"], mean)):
            fails.append((f"{kind}:mean", f"step {k}: est_x is not the probability-weighted mean"))
            break
        ep = np.array(st["est_p"])
        if not (np.abs(ep - cov) <= 1e-6 * scale + 1e-300).all():
            worst = float(np.max(np.abs(ep - cov) / (scale + 1e-300)))
            fails.append((f"{kind}:cov", f"step {k}: est_p is not the moment-matched mixture covariance (off by {worst:.3g} of sqrt(P_ii P_jj), regime {c.get('regime', 'unit')})"))
            break
        corr = ((ep + ep.T) / 2) / (scale + 1e-300)
        if not (np.abs(ep - ep.T) <= 1e-9 * scale).all() or np.linalg.eigvalsh(corr).min() < -1e-6:
            fails.append((f"{kind}:cov-psd", f"step {k}: est_p not symmetric positive semi-definite"))
            break
        ac = st.get("after_companion")
        if ac is not None and (ac["est_x"] != st["est_x"] or ac["est_p"] != st["est_p"]):
            fails.append((f"{kind}:aliased", f"step {k}: after another multiple-model filter was updated, this filter's combined estimate changed from {st['est_x'][:3]} to {ac['est_x'][:3]}"))
            break
        if st["closed"]:
            run.count(f"{kind}:closed")
            if kind == "smm":
                if len(st["ids"]) != 1:
                    fails.append((f"{kind}:handback-blend", f"step {k}: estimation closed with {len(st['ids'])} models still active"))
                    break
                d = d1[0]
                pd = np.array([float(x) for x in d["est_p"]])
                if not np.allclose(st["cf_est_x"], [float(x) for x in d["est_x"]], rtol=1e-12, atol=1e-12) or not (
                    np.abs(np.array(st["cf_est_p"]) - np.diag(pd)) <= 1e-9 * np.sqrt(np.outer(pd, pd))
                ).all():
                    fails.append((f"{kind}:handback", f"step {k}: the filter handed back is not the surviving model {st['ids'][0]}"))
                    break
            else:
                if not np.allclose(st["cf_est_x"], mean, rtol=1e-9, atol=1e-9) or not (np.abs(np.array(st["cf_est_p"]) - cov) <= 1e-6 * scale + 1e-300).all():
                    fails.append((f"{kind}:handback", f"step {k}: the filter handed back differs from the combined estimate"))
                    break
    return fails


def run_cases(run: Run, cs):
    impls = [guarded(impl_run, c) for c in cs]
    lines, spans = [], []
    for c, i in zip(cs, impls):
        try:
            ls = model_lines(c, i[1]) if i[0] == "ok" else []
        except (ValueError, OverflowError):  # non-finite numbers in the implementation's output
            ls = []
        spans.append((len(lines), len(ls)))
        lines.extend(ls)
    outs = run.model(lines)
    for c, i, (a, n) in zip(cs, impls, spans):
        jc = enc(c)
        small = {k: v for k, v in jc.items() if k != "models"} | {"model0_step0": jc["models"][0][0]}
        run.case(c["kind"], small, nontrivial=True, branch=c["pattern"])
        run.count(f"regime:{c.get('regime', 'unit')}")
        if not all(c.get("observed", [True])):
            run.count("with-unobserved-steps")
        run.count(f"n={c['n']}")
        if outs is not None and i[0] == "ok":
            run.model_compared += 1
            mo = outs[a : a + n]
            if not mo:
                run.disagree(c["kind"], small, "non-finite output", "not representable")
            for j, st in enumerate(i[1] if mo else []):
                l1, l2 = mo[2 * j], mo[2 * j + 1]
                if "bad-op" in (l1, l2):
                    run.disagree(c["kind"], small, "ok", f"{l1} | {l2}")
                    break
                t = Toks(l1)
                if c["kind"] == "smm" and not st.get("observed", True):
                    # without observations the convergence gate reads the combined NIS left by the last observed step, which the model's step does not
                    # carry: the probability step of such a step is judged by the oracle alone (the probabilities stay what they were)
                    pass
                elif c["kind"] == "smm":
                    kept = [int(x) for x in t.list()]
                    w = t.list()
                    closed = t.int() == 1
                    want_ids = [st["before_ids"][q] for q in kept]
                    # a model whose weight sits within rounding of a threshold may legitimately fall either way
                    if want_ids != st["ids"] or closed != st["closed"]:
                        data0 = step_data(c, st["before_ids"], st["k"])
                        pl = [p_ * (likelihood(d_, c["ydim"]) if st.get("observed", True) else 1.0) for p_, d_ in zip(st["w_before"], data0)]
                        tot = sum(pl)
                        post = [x / tot for x in pl] if tot > 0 else []
                        # (the pre-prune posterior, and the posterior renormalised over any subset, may sit on a threshold)
                        near = any(abs(x - float(thr)) < 1e-9 for x in post + [float(y) for y in w] + list(st["w"]) for thr in (c["thr"], c["pct"]))
                        if near:
                            run.boundary_skips += 1
                        else:
                            run.disagree("smm.step", small, f"ids {st['ids']} closed {st['closed']}", f"ids {want_ids} closed {closed}")
                        break
                    if len(w) != len(st["w"]) or not all(close(a_, b_, TOL) or abs(a_ - float(b_)) < 1e-13 for a_, b_ in zip(st["w"], w)):
                        run.disagree("smm.weights", small, st["w"], [float(x) for x in w])
                        break
                else:
                    w = t.list()
                    mu = t.list()
                    if not all(close(a_, b_, TOL) or abs(a_ - float(b_)) < 1e-13 for a_, b_ in zip(st["w"], w)) or not all(
                        close(a_, b_, TOL) or abs(a_ - float(b_)) < 1e-13 for a_, b_ in zip(st["mu"], mu)
                    ):
                        run.disagree("gpb1", small, (st["w"], st["mu"]), ([float(x) for x in w], [float(x) for x in mu]))
                        break
                t2 = Toks(l2)
                mean = t2.list()
                cov = t2.mat()
                if not all(close(a_, b_, TOL) or abs(a_ - float(b_)) < 1e-11 for a_, b_ in zip(st["est_x"], mean)):
                    run.disagree("mix.mean", small, st["est_x"], [float(x) for x in mean])
                    break
                flat_i = [x for r in st["est_p"] for x in r]
                flat_m = [x for r in cov for x in r]
                if not all(close(a_, b_, TOL) or abs(a_ - float(b_)) < 1e-11 for a_, b_ in zip(flat_i, flat_m)):
                    run.disagree("mix.cov", small, "est_p", "model covariance differs")
                    break
        elif outs is not None:
            run.disagree(c["kind"], small, i, "implementation raised")
        for key, what in oracle(run, c, i):
            run.fail(key, jc, what)


def search(run: Run):
    sub = Run.__new__(Run)
    sub.__dict__.update(run.__dict__)
    sub.rng = __import__("random").Random(run.seed + 1)
    sub.tier = "thorough"
    for c in cases(sub)[:1500]:
        f = oracle(run, c, guarded(impl_run, c))
        if f:
            return (f[0][0], enc(c), f[0][1])
    return None


def main():
    run = Run(
        PID,
        ["RV.Props.C18"],
        ["RV/Model/Mmae.lean"],
        "Lean 4 theorems over an executable model of the SMM/GPB1 probability updates, pruning, closure and mixture moments; "
        "differential correspondence with the real StaticMultipleModel / GeneralizedPseudoBayesian1 objects driving scripted member filters",
        trusted_extra=[
            "model likelihoods exp(-nis/2)/sqrt((2 pi)^m det S) are oracle inputs (computed independently by the harness)",
            "scipy chi2.isf is the oracle bound of the convergence gate; member filters are scripted stand-ins (initialize() bypassed)",
        ],
    )
    run.rule = (
        "2-30 models, 1-4 update steps, likelihood patterns generic / one dominant / converging / underflow of all, some or the "
        "first model, thresholds 1e-10..0.4, percentages 0.6..0.997; every case is non-trivial (>= 2 models); distinct by hash"
    )
    run.assumptions = ["a weight within 1e-9 of a threshold may fall either side: counted as boundary skip"]
    run.lean_phase()
    if run.args.replay:
        rp = json.loads(Path(run.args.replay).read_text())
        cs = [dec(rp["case"])] if rp.get("kind") == "failing-input" else cases(run)
    else:
        cs = cases(run)
    run_cases(run, cs)
    run.finish(search)


if __name__ == "__main__":
    main_guard(main)
