"""C14 - visibility predicates match exact geometry and respect its symmetries."""
from __future__ import annotations

import json
import math
import sys
from fractions import Fraction
from pathlib import Path
from types import SimpleNamespace

sys.path.insert(0, str(Path(__file__).resolve().parent))
import numpy as np
from common import Run, Toks, close, corpus, fmt, frac, guarded, main_guard

PID = "C14"


def earth():
    from resonaate.physics.bodies.earth import Earth

    return Earth


def consts():
    import resonaate.physics.constants as c

    return float(c.PI), float(c.TWOPI)


# ----------------------------------------------------------------------------- generators
def gen_pos(rng, lo=1.0, hi=10.0, integer=False):
    """a point between lo and hi Earth radii in a random direction"""
    R = float(earth().radius)
    while True:
        v = np.array([rng.gauss(0, 1) for _ in range(3)])
        n = np.linalg.norm(v)
        if n > 1e-3:
            break
    r = v / n * R * rng.uniform(lo, hi)
    if integer:
        r = np.round(r)
    else:
        r = np.round(r * 1024) / 1024
    return [float(x) for x in r]


def gen_los(rng):
    kind = rng.choice(["generic", "generic", "grazing", "surface", "near", "far-side", "neighbours", "radial"])
    R = float(earth().radius)
    r1 = gen_pos(rng, 1.001, 8.0, integer=rng.random() < 0.5)
    if kind == "generic":
        r2 = gen_pos(rng, 1.001, 8.0, integer=rng.random() < 0.5)
    elif kind == "near":
        r2 = [x + rng.choice([-1, 1]) * rng.uniform(1, 200) for x in r1]
        r2 = [round(x * 64) / 64 for x in r2]
    elif kind == "neighbours":
        # two sites a few km apart, on or just above the surface: the chord between them dips d^2 / 8R below the sphere
        r1 = gen_pos(rng, 1.0, 1.0)
        a = np.array(r1)
        u = np.cross(a, [rng.gauss(0, 1) for _ in range(3)])
        u /= np.linalg.norm(u)
        d = rng.choice([2.0, 5.0, 12.0, 20.0, 27.0, rng.uniform(1, 60)])
        dip = d * d / (8 * R)
        h1, h2 = [rng.choice([0.0, 0.3 * dip, 0.8 * dip, 1.5 * dip, 3 * dip]) for _ in range(2)]
        p1 = a / np.linalg.norm(a) * (R + h1)
        q = a + u * d
        p2 = q / np.linalg.norm(q) * (R + h2)
        r1, r2 = [float(x) for x in p1], [float(x) for x in p2]
    elif kind == "radial":
        # exactly collinear, same side: a satellite straight above a site (or above another satellite); the cosine of the angle between
        # them is 1 up to rounding, on either side of it
        r1 = gen_pos(rng, 1.0, 3.0, integer=rng.random() < 0.3)
        k = rng.choice([1.5, 2.0, 3.0, 1.0 + 2**-10, rng.uniform(1.001, 8.0)])
        r2 = [x * k for x in r1]
    elif kind == "surface":
        r1 = gen_pos(rng, 1.0, 1.0001)
        r2 = gen_pos(rng, 1.0, 7.0)
    elif kind == "far-side":
        r2 = [-x * rng.uniform(0.5, 2.0) + rng.uniform(-50, 50) for x in r1]
        r2 = [round(x * 64) / 64 for x in r2]
    else:  # grazing: the chord's closest approach is within a few km of the surface
        a = np.array(r1)
        u = np.cross(a, [rng.gauss(0, 1) for _ in range(3)])
        u /= np.linalg.norm(u)
        d = math.sqrt(max(0.0, a @ a - (R + rng.uniform(-5, 5)) ** 2))
        p = a / np.linalg.norm(a)
        h = R + rng.uniform(-5, 5)
        # tangent direction from a to the sphere of radius h
        sin_t = h / np.linalg.norm(a)
        dirv = -p * math.sqrt(max(0.0, 1 - sin_t**2)) + u * sin_t
        r2 = a + dirv * d * rng.uniform(1.2, 3.0)
        r2 = [round(float(x) * 64) / 64 for x in r2]
    # both ends lie at or above the surface (the property is about positions "from the surface to 10 Earth radii"; for a point inside the
    # sphere the question "is the line of sight obstructed" has no answer the code is held to): push an end that fell inside back onto it
    for v in (r1, r2):
        n = math.sqrt(sum(x * x for x in v))
        if 0 < n < R:
            k = (R / n) * (1 + 2**-40)
            v[:] = [x * k for x in v]
    return {"op": "los", "r1": r1, "r2": r2, "kind": kind}


def gen_dir(rng, az=None, el=None, rho=None):
    az = rng.uniform(0, 2 * math.pi) if az is None else az
    el = rng.uniform(-0.2, 1.5) if el is None else el
    rho = rng.uniform(500, 40000) if rho is None else rho
    # SEZ: x south, y east, z up; azimuth from north clockwise => x = -cos(az)cos(el), y = sin(az)cos(el)
    v = [-rho * math.cos(el) * math.cos(az), rho * math.cos(el) * math.sin(az), rho * math.sin(el)]
    return [round(x * 4096) / 4096 for x in v]


def gen_fov(rng, shape):
    seam = rng.random() < 0.4
    azp = rng.choice([0.0, 2 * math.pi - 0.02, 0.02, math.radians(359.0), math.radians(1.0)]) if seam else rng.uniform(0, 2 * math.pi)
    elp = rng.choice([0.1, 0.7, 1.2, 1.5]) if rng.random() < 0.5 else rng.uniform(0.0, 1.5)
    size = rng.choice([1.0, 5.0, 10.0, 30.0, 60.0, 120.0])
    half = math.radians(size) / 2
    k = rng.choice([0.0, 0.5, 0.9, 1.1, 1.5, 3.0])
    azb = azp + rng.choice([-1, 1]) * k * half * rng.random()
    elb = min(1.55, max(-1.55, elp + rng.choice([-1, 1]) * k * half * rng.random()))
    c = {"op": shape, "p": gen_dir(rng, azp, elp), "b": gen_dir(rng, azb, elb), "size": size, "size2": rng.choice([size, 2.0, 20.0]), "seam": seam, "via_config": rng.random() < 0.4,
         "phi": rng.choice([0.3, 1.0, math.pi, 2 * math.pi - azp + 0.01, -azp - 0.005, 4.0])}
    return c


def cases(run: Run):
    rng = run.rng
    out = list(corpus(PID))
    for _ in range(run.n(600, 8000)):
        out.append(gen_los(rng))
    for _ in range(run.n(500, 6000)):
        out.append(gen_fov(rng, "conic"))
        out.append(gen_fov(rng, "rect"))
    for _ in range(run.n(400, 4000)):
        a0 = rng.choice([0.0, 10.0, 90.0, 350.0, 359.0, 180.0, rng.uniform(0, 360)])
        a1 = rng.choice([360.0, 10.0, 5.0, 90.0, 1.0, rng.uniform(0, 360)])
        az = rng.choice([0.0, 359.999, 0.001, a0, a1, rng.uniform(0, 360), (a0 + a1) / 2, ((a0 + a1) / 2 + 180) % 360])
        c = {"op": "azmask", "a0": a0, "a1": a1, "az": az, "el": rng.choice([10.0, 45.0, 89.0, 0.5])}
        if float(a0).is_integer() and float(a1).is_integer():
            # whole-degree masks handed over as integer arrays (a legal way to write [350, 10]); the elevation then also reaches up to 75 deg
            c["int_masks"] = rng.random() < 0.6
            if c["int_masks"]:
                c["el"] = rng.choice([10.0, 45.0, 75.0, 89.0])
        out.append(c)
    for _ in range(run.n(300, 3000)):
        out.append({"op": "limb", "host": gen_pos(rng, 1.05, 7.0), "tgt_dir": gen_dir(rng, el=rng.uniform(-1.5, 0.3)), "graze": rng.random() < 0.4, "u": rng.random()})
    for _ in range(run.n(300, 3000)):
        out.append({"op": "sun", "tgt": gen_pos(rng, 1.02, 7.0), "mode": rng.choice(["random", "anti-sun", "penumbra", "sunward", "axis"]), "u": rng.random(), "v": rng.random()})
    return out


# ----------------------------------------------------------------------------- real code and model lines
def v6(v):
    return np.array(list(v) + [0.0, 0.0, 0.0])


def rotz(v, phi):
    c, s = math.cos(phi), math.sin(phi)
    return [c * v[0] - s * v[1], s * v[0] + c * v[1], v[2]]


_SENSOR = {}


def radar(a0, a1, int_masks=False):
    from resonaate.sensors.field_of_view import ConicFoV
    from resonaate.sensors.radar import Radar

    return Radar(
        az_mask=(np.array([int(a0), int(a1)]) if int_masks else np.array([a0, a1])),
        el_mask=(np.array([0, 90]) if int_masks else np.array([0.0, 90.0])), r_matrix=np.ones(4), diameter=10.0, efficiency=0.9,
        tx_power=2.5e6, tx_frequency=1.5e9, min_detectable_power=1.0e-15, slew_rate=3.0,
        field_of_view=ConicFoV(math.radians(10.0)), background_observations=False, minimum_range=None, maximum_range=None,
    )


def sun_case(c):
    """positions for the visible-Sun-fraction call"""
    from resonaate.physics.bodies import Sun

    R = float(earth().radius)
    tgt = np.array(c["tgt"])
    au = 1.496e8
    if c["mode"] == "random":
        d = np.array(gen_pos(__import__("random").Random(int(c["u"] * 1e9)), 1, 1))
        sun = d / np.linalg.norm(d) * au
    elif c["mode"] == "sunward":
        sun = tgt / np.linalg.norm(tgt) * au
        sun = sun + np.cross(tgt, [0.3, 0.2, 0.9]) * (c["u"] * 100)
    else:
        # the Sun roughly opposite to the satellite; lateral offset sweeps umbra -> penumbra -> light
        axis = -tgt / np.linalg.norm(tgt)
        lat = np.cross(axis, [0.12, 0.9, 0.31])
        lat /= np.linalg.norm(lat)
        if c["mode"] == "axis":
            # the satellite on the Earth-Sun line itself, behind the Earth: the cosine of the separation angle is 1 up to rounding
            return tgt, axis * (au * (0.98 + 0.04 * c["u"]))
        if c["mode"] == "anti-sun":
            ang = c["u"] * 1.2
        else:
            a_ = math.asin(float(Sun.radius) / au)
            b_ = math.asin(R / np.linalg.norm(tgt))
            ang = b_ + (2 * c["u"] - 1) * 1.3 * a_
        d = axis * math.cos(ang) + lat * math.sin(ang)
        sun = d / np.linalg.norm(d) * au
    return tgt, sun


def fov_from_config(shape, size, size2):
    """the field of view as a scenario builds it (`FieldOfView.fromConfig`), right after another sensor's that shares its first angle:
    every sensor's field of view has its own configured size"""
    from resonaate.scenario.config.sensor_config import ConicFieldOfViewConfig, RectangularFieldOfViewConfig
    from resonaate.sensors.field_of_view import FieldOfView

    if shape == "conic":
        FieldOfView.fromConfig(RectangularFieldOfViewConfig(azimuth_angle=size, elevation_angle=min(179.0, size * 1.5)))
        return FieldOfView.fromConfig(ConicFieldOfViewConfig(cone_angle=size))
    FieldOfView.fromConfig(RectangularFieldOfViewConfig(azimuth_angle=size, elevation_angle=min(179.0, size2 * 2 + 1)))
    FieldOfView.fromConfig(ConicFieldOfViewConfig(cone_angle=size))
    return FieldOfView.fromConfig(RectangularFieldOfViewConfig(azimuth_angle=size, elevation_angle=size2))


def inplace_answer(f, p, b, phi):
    """the rotated question asked with the SAME two array objects as the question before it, their contents overwritten in place
    (a sensor keeps its boresight array and updates it): the answer depends on the vectors, not on which objects carry them"""
    pa, ba = v6(p), v6(b)
    f.inFieldOfView(pa, ba)
    pa[:] = v6(rotz(p, phi))
    ba[:] = v6(rotz(b, phi))
    return bool(f.inFieldOfView(pa, ba))


def impl_case(c):
    from resonaate.physics import sensor_utils as su
    from resonaate.physics.measurements import getAzimuth, getElevation
    from resonaate.sensors.field_of_view import ConicFoV, RectangularFoV

    op = c["op"]
    if op == "los":
        r1, r2 = np.array(c["r1"]), np.array(c["r2"])
        return {"los": bool(su.lineOfSight(r1, r2)), "rev": bool(su.lineOfSight(r2, r1))}
    if op == "conic":
        f = fov_from_config("conic", c["size"], None) if c.get("via_config") else ConicFoV(math.radians(c["size"]))
        p, b = c["p"], c["b"]
        return {
            "in": bool(f.inFieldOfView(v6(p), v6(b))), "self": bool(f.inFieldOfView(v6(p), v6(p))),
            "rot": bool(f.inFieldOfView(v6(rotz(p, c["phi"])), v6(rotz(b, c["phi"])))),
            "scaled": bool(f.inFieldOfView(v6([2 * x for x in p]), v6([0.5 * x for x in b]))),
            "inplace": inplace_answer(f, p, b, c["phi"]),
        }
    if op == "rect":
        f = (fov_from_config("rectangular", c["size"], c["size2"]) if c.get("via_config")
             else RectangularFoV(azimuth_angle=math.radians(c["size"]), elevation_angle=math.radians(c["size2"])))
        p, b = c["p"], c["b"]
        pr, br = rotz(p, c["phi"]), rotz(b, c["phi"])
        return {
            "in": bool(f.inFieldOfView(v6(p), v6(b))), "self": bool(f.inFieldOfView(v6(p), v6(p))),
            "rot": bool(f.inFieldOfView(v6(pr), v6(br))),
            "inplace": inplace_answer(f, p, b, c["phi"]),
            "azel": [float(getAzimuth(v6(p))), float(getElevation(v6(p))), float(getAzimuth(v6(b))), float(getElevation(v6(b)))],
        }
    if op == "azmask":
        from resonaate.sensors.sensor_base import Sensor

        s = radar(c["a0"], c["a1"], bool(c.get("int_masks")))
        R = float(earth().radius)
        host = np.array([R + 0.5, 0.0, 0.0, 0.0, 0.0, 0.0])
        s._host = SimpleNamespace(eci_state=host, time=0.0)
        sez = v6(gen_dir(None, math.radians(c["az"]), math.radians(c["el"]), 3000.0))
        # a target position far above the host along its zenith keeps line of sight true
        tgt = np.array([R + 3000.0, 0.0, 0.0, 0.0, 0.0, 0.0])
        vis, why = Sensor.isVisible(s, tgt, 10.0, 0.2, sez)
        return {"vis": bool(vis), "why": why.name, "az": float(getAzimuth(sez)), "el": float(getElevation(sez)), "mask": [float(x) for x in s.az_mask], "elmask": [float(x) for x in s.el_mask]}
    if op == "limb":
        host = np.array(c["host"] + [0.0, 0.0, 0.0])
        sez = v6(c["tgt_dir"])
        if c["graze"]:
            E = earth()
            d = np.linalg.norm(host[:3])
            lim = math.asin((float(E.radius) + float(E.atmosphere)) / d) - math.pi / 2 + (c["u"] - 0.5) * 2e-3
            sez = v6(gen_dir(None, 1.0, lim, 5000.0))
        return {"obsc": bool(su.checkSpaceSensorEarthLimbObscuration(host, sez)), "sez": [float(x) for x in sez[:3]]}
    if op == "sun":
        tgt, sun = sun_case(c)
        return {"frac": float(su.calculateSunVizFraction(tgt, sun)), "sun": [float(x) for x in sun]}
    raise KeyError(op)


def model_line(c, i):
    E = earth()
    R2 = float(E.radius) ** 2
    op = c["op"]
    if op == "los":
        return f"vis.los {fmt(R2)} " + " ".join(fmt(x) for x in c["r1"] + c["r2"])
    if op == "conic":
        cc = math.cos(math.radians(c["size"]) / 2)
        return f"vis.conic {fmt(cc)} " + " ".join(fmt(x) for x in c["p"] + c["b"])
    if op == "rect":
        a = i["azel"]
        return f"vis.rect {fmt(math.radians(c['size']) / 2)} {fmt(math.radians(c['size2']) / 2)} " + " ".join(fmt(x) for x in a)
    if op == "azmask":
        return f"vis.azmask {fmt(i['mask'][0])} {fmt(i['mask'][1])} {fmt(i['az'])}"
    if op == "limb":
        Rl = float(E.radius) + float(E.atmosphere)
        host = c["host"]
        d2 = sum(Fraction(x) ** 2 for x in host)
        s = i["sez"]
        rho2 = sum(Fraction(x) ** 2 for x in s)
        return f"vis.limb {fmt(Fraction(Rl) ** 2)} {fmt(d2)} {fmt(s[2])} {fmt(rho2)}"
    return None


# ----------------------------------------------------------------------------- independent geometry (the oracle)
def exact_segment_clear(r1, r2, R2):
    """exact: min over t in [0,1] of |r1 + t (r2 - r1)|^2 >= R^2, with margin"""
    a = [Fraction(x) for x in r1]
    d = [Fraction(y) - Fraction(x) for x, y in zip(r1, r2)]
    dd = sum(x * x for x in d)
    if dd == 0:
        return None, None
    t = -sum(x * y for x, y in zip(a, d)) / dd
    t = min(Fraction(1), max(Fraction(0), t))
    p = [x + t * y for x, y in zip(a, d)]
    m = sum(x * x for x in p)
    return m >= R2, float(m - R2)


def angle_between(a, b):
    a, b = np.array(a), np.array(b)
    return math.atan2(np.linalg.norm(np.cross(a, b)), float(a @ b))


def oracle(run: Run, c, impl):
    PI, TAU = consts()
    E = earth()
    op = c["op"]
    if impl[0] != "ok":
        return [(f"{op}:raises", f"{impl[1]}")]
    i = impl[1]
    fails = []
    if op == "los":
        R2 = Fraction(float(E.radius)) ** 2
        want, margin = exact_segment_clear(c["r1"], c["r2"], R2)
        if i["los"] != i["rev"]:
            fails.append(("los:asymmetric", f"lineOfSight(r1,r2)={i['los']} but lineOfSight(r2,r1)={i['rev']}"))
        if want is not None:
            if abs(margin) < 1e-3:
                run.boundary_skips += 1
            elif i["los"] != want:
                fails.append(("los:segment", f"lineOfSight={i['los']} but the segment's closest approach is {margin:+.3f} km^2 relative to R^2"))
            run.count(f"los:{want}")
    elif op == "conic":
        ang = angle_between(c["p"], c["b"])
        half = math.radians(c["size"]) / 2
        if abs(ang - half) < 1e-9:
            run.boundary_skips += 1
        else:
            want = ang <= half
            run.count(f"conic:{want}")
            for k in ("in", "rot", "scaled", "inplace"):
                if i[k] != want:
                    fails.append((f"conic:{k}", f"angular offset {ang:.6f} rad, half-angle {half:.6f}: inFieldOfView[{k}]={i[k]}"))
        if not i["self"]:
            fails.append(("conic:reflexive", "boresight not inside its own cone"))
    elif op == "rect":
        p, b = c["p"], c["b"]
        daz = abs(math.atan2(p[0] * b[1] - p[1] * b[0], p[0] * b[0] + p[1] * b[1]))
        elp = math.atan2(p[2], math.hypot(p[0], p[1]))
        elb = math.atan2(b[2], math.hypot(b[0], b[1]))
        ha, he = math.radians(c["size"]) / 2, math.radians(c["size2"]) / 2
        if min(abs(daz - ha), abs(abs(elp - elb) - he)) < 1e-9:
            run.boundary_skips += 1
        else:
            want = daz <= ha and abs(elp - elb) <= he
            run.count(f"rect:{want}:{'seam' if c['seam'] else 'interior'}")
            for k in ("in", "rot", "inplace"):
                if i[k] != want:
                    fails.append((f"rect:{k}", f"azimuth offset {daz:.6f} (half {ha:.6f}), elevation offset {abs(elp - elb):.6f} (half {he:.6f}): inFieldOfView[{k}]={i[k]}"))
        if not i["self"]:
            fails.append(("rect:reflexive", "boresight not inside its own field of view"))
    elif op == "azmask":
        a0, a1, az = math.radians(c["a0"]), math.radians(c["a1"]), i["az"]
        inside = (a0 <= az <= a1) if a0 <= a1 else (az >= a0 or az <= a1)
        near = min(abs(az - a0), abs(az - a1)) < 1e-9
        if near:
            run.boundary_skips += 1
        else:
            run.count(f"azmask:{'wrap' if a0 > a1 else 'plain'}:{inside}")
            if i["vis"] != inside:
                fails.append(("azmask", f"mask [{c['a0']},{c['a1']}] deg, azimuth {math.degrees(az):.4f}: visible={i['vis']} ({i['why']})"))
            if not i["vis"] and i["why"] != "AZIMUTH_MASK":
                fails.append(("azmask:reason", f"mask [{c['a0']},{c['a1']}] deg{' (integer arrays)' if c.get('int_masks') else ''}, elevation {c['el']} deg inside [0, 90]: rejected for {i['why']}"))
    elif op == "limb":
        Rl = float(E.radius) + float(E.atmosphere)
        d = math.sqrt(sum(x * x for x in c["host"]))
        s = i["sez"]
        rho = math.sqrt(sum(x * x for x in s))
        # tangent cone: angle from nadir of the target direction < half-angle of the cone
        nadir_angle = math.atan2(math.hypot(s[0], s[1]), -s[2])
        cone = math.asin(Rl / d)
        if abs(nadir_angle - cone) < 1e-9:
            run.boundary_skips += 1
        else:
            want = nadir_angle < cone
            run.count(f"limb:{want}")
            if i["obsc"] != want:
                fails.append(("limb", f"target {math.degrees(nadir_angle):.5f} deg from nadir, cone {math.degrees(cone):.5f}: obscured={i['obsc']}"))
    elif op == "sun":
        f = i["frac"]
        tgt, sun = np.array(c["tgt"]), np.array(i["sun"])
        if not (0.0 <= f <= 1.0) or f != f:
            fails.append(("sun:range", f"visible fraction {f}"))
        if float(tgt @ sun) > 0 and np.linalg.norm(sun) >= np.linalg.norm(sun - tgt) and f != 1.0:
            fails.append(("sun:sunward", f"fraction {f} on the sunward side"))
        # deep umbra: the satellite is inside the umbral cylinder core (Earth's apparent radius exceeds Sun's by a margin)
        from resonaate.physics.bodies import Sun

        a = math.asin(float(Sun.radius) / np.linalg.norm(sun - tgt))
        b = math.asin(float(E.radius) / np.linalg.norm(tgt))
        cang = angle_between(-tgt, sun - tgt)
        branch = "sunward" if np.linalg.norm(sun) >= np.linalg.norm(sun - tgt) else ("umbra" if cang < abs(b - a) else ("partial" if cang < a + b else "clear"))
        run.count(f"sun:{branch}")
        if branch == "umbra" and cang < abs(b - a) - 1e-9 and f != 0.0:
            fails.append(("sun:umbra", f"fraction {f} deep in the umbra"))
        if branch == "clear" and cang > a + b + 1e-9 and f != 1.0:
            fails.append(("sun:clear", f"fraction {f} with no overlap"))
    return fails


def run_cases(run: Run, cs):
    impls = [guarded(impl_case, c) for c in cs]
    lines, idx = [], []
    for c, i in zip(cs, impls):
        l = model_line(c, i[1]) if i[0] == "ok" else None
        idx.append(len(lines) if l else None)
        if l:
            lines.append(l)
    outs = run.model(lines)
    for c, i, k in zip(cs, impls, idx):
        op = c["op"]
        run.case(op, c, nontrivial=True, branch=c.get("kind") or ("seam" if c.get("seam") else None))
        if outs is not None and k is not None:
            run.model_compared += 1
            mo = outs[k]
            if mo in ("bad-op", "degenerate"):
                if mo == "bad-op":
                    run.disagree(op, c, i, mo)
                continue
            t = Toks(mo)
            mb = t.int() == 1
            ib = {"los": "los", "conic": "in", "rect": "in", "azmask": "vis", "limb": "obsc"}[op]
            got = i[1][ib]
            if mb != got:
                margins = [float(t.rat()) for _ in range(len(t.t) - 1)]
                scale = {"los": 1e-3, "conic": 1e3, "rect": 1e-12, "azmask": 0.0, "limb": 1e6}[op]
                if op == "los":
                    near = abs(margins[1]) < 1e-3 or min(abs(margins[0]), abs(margins[0] - 1)) < 1e-12
                elif op == "conic":
                    near = abs(margins[1]) < 1e-9 * (abs(margins[0]) ** 2 + 1) or abs(margins[0]) < 1e-6
                elif op == "rect":
                    near = min(abs(m) for m in margins) < 1e-12
                elif op == "limb":
                    near = abs(margins[0]) < 1e-9 * max(1.0, abs(margins[0]))
                else:
                    near = False
                if near:
                    run.boundary_skips += 1
                else:
                    run.disagree(op, c, got, mo)
        for key, what in oracle(run, c, i):
            run.fail(key, c, what)


def search(run: Run):
    sub = Run.__new__(Run)
    sub.__dict__.update(run.__dict__)
    sub.rng = __import__("random").Random(run.seed + 5)
    sub.tier = "thorough"
    for c in cases(sub)[:12000]:
        f = oracle(run, c, guarded(impl_case, c))
        if f:
            return (f[0][0], c, f[0][1])
    return None


def main():
    run = Run(
        PID,
        ["RV.Props.C14", "RV.Props.C14Real", "RV.Bridge.Geometry", "RV.Bridge.Sensors"],
        ["RV/Model/Visibility.lean"],
        "Lean 4 theorems (ordered-field algebra for line of sight = segment test, dot-product invariance of the cone, turn-invariance "
        "of the rectangular window, mask case analysis; real analysis for the arcsin/arccos forms) + differential correspondence "
        "with the real predicates + independent exact/atan2 geometry as oracle",
        trusted_extra=[
            "numpy norm/arccos/arcsin/arctan2 are library calls: the model is in algebraic form; boolean disagreements within rounding of a boundary are skipped and counted",
            "the partial-occultation value of calculateSunVizFraction (lens area) is only range-checked on samples, not proved",
        ],
    )
    run.rule = (
        "line of sight: random/grazing/surface/near/far-side pairs from 1 to 8 Earth radii, integer and dyadic coordinates; fields of view: "
        "boresights at the north seam and elsewhere, offsets 0-3 half-widths, common rotations about the vertical; wrapping and plain azimuth "
        "masks through a real Radar; limb grazing; Sun geometry sunward/umbra/penumbra. Every case counts as non-trivial; distinct by hash"
    )
    run.assumptions = ["boundary cases (|margin| below the stated thresholds) are skipped: floating point decides them either way"]
    run.lean_phase()
    if run.args.replay:
        rp = json.loads(Path(run.args.replay).read_text())
        cs = [rp["case"]] if rp.get("kind") == "failing-input" else cases(run)
    else:
        cs = cases(run)
    run_cases(run, cs)
    run.finish(search)


if __name__ == "__main__":
    main_guard(main)
