"""C02 - reported observations satisfy all sensor constraints; misses state a true reason."""
from __future__ import annotations

import json
import math
import sys
from datetime import datetime, timedelta
from pathlib import Path
from types import SimpleNamespace

sys.path.insert(0, str(Path(__file__).resolve().parent))
import numpy as np
from common import Run, corpus, guarded, main_guard

PID = "C02"
START = datetime(2021, 3, 30, 16, 0, 0)


def cases(run: Run):
    """mostly-valid attempts (every constraint satisfied unless perturbed), each with 0-2 constraints pushed to or past their limits"""
    rng = run.rng
    out = list(corpus(PID))
    for _ in range(run.n(300, 3000)):
        stype = rng.choice(["radar", "radar", "optical", "optical", "adv_radar"])
        host = rng.choice(["ground", "ground", "space"])
        fov = rng.choice(["conic", "conic", "rect"])
        size = rng.choice([1.0, 2.0, 5.0, 20.0])
        lon = rng.choice([0.0, -100.0, 140.0, 179.9])
        c = {
            "stype": stype, "host": host, "fov": fov, "size": size, "size2": rng.choice([size, 2 * size]),
            "az": rng.choice([0.05, 359.7, 0.3, 180.0, rng.uniform(0, 360)]), "el": rng.choice([10.0, 45.0, 80.0, rng.uniform(5, 89)]),
            "rho": rng.choice([1500.0, 4000.0, 20000.0, 36000.0]), "off": rng.choice([0.0, 0.2, 0.45]) * size, "offdir": rng.uniform(0, 360),
            "mask": [0.0, 359.99999], "elmask": [1.0, 89.99999] if host == "ground" else [-89.99999, 89.99999], "minr": None, "maxr": None,
            "slew": 3.0, "since": 60.0, "prev_az": rng.uniform(0, 360), "prev_el": rng.uniform(5, 85), "xs": 25.0, "refl": 0.21,
            "nbg": rng.choice([0, 2, 4]), "bg": rng.random() < 0.6, "lat": rng.choice([0.0, 30.0, -45.0, 70.0]), "lon": lon, "seed": rng.randint(0, 10**6),
        }
        # optical sites mostly in darkness: local solar time around midnight
        night = int(round((24 - lon / 15.0) % 24)) % 24
        c["hour"] = (night + rng.choice([0, 0, 1, -2, 3])) % 24 if rng.random() < 0.8 else rng.choice([0, 4, 8, 12, 16, 20])
        if host == "space":
            c["el"] = rng.choice([c["el"], -c["el"] / 2, rng.uniform(-60, 60)])
            if rng.random() < 0.3:
                # a target behind the Earth's limb but on the sensor's side of the Earth: below the limb depression, beyond the tangent point
                rh = 7000.0 + 300 * (c["seed"] % 5)
                limb = math.degrees(math.acos(6378.1363 / rh))
                tangent = math.sqrt(rh * rh - 6378.1363**2)
                c["el"] = -(limb + rng.uniform(1.0, 12.0))
                c["rho"] = tangent * rng.uniform(1.15, 2.2)
                c["off"] = 0.0
        for _k in range(rng.choice([0, 0, 1, 1, 2])):
            what = rng.choice(["mask", "elmask", "minr", "maxr", "slew", "slew-near", "xs", "off", "low", "far", "near"])
            if what == "mask":
                c["mask"] = rng.choice([[350.0, 10.0], [90.0, 270.0], [270.0, 90.0], [10.0, 350.0]])
            elif what == "elmask":
                c["elmask"] = rng.choice([[20.0, 60.0], [0.0, 30.0], [40.0, 89.0]])
            elif what == "minr":
                c["minr"] = rng.choice([800.0, 3000.0, 25000.0])
            elif what == "maxr":
                c["maxr"] = rng.choice([30000.0, 3000.0])
            elif what == "slew":
                c["slew"], c["since"] = rng.choice([(0.05, 60.0), (0.5, 10.0), (0.05, 300.0)])
            elif what == "slew-near":
                # a slow sensor whose previous boresight is close to the new pointing: the budget decides
                c["slew"], c["since"] = 0.05, 60.0
                c["prev_az"], c["prev_el"] = c["az"] + rng.uniform(-4, 4), min(89.0, max(-89.0, c["el"] + rng.uniform(-3, 3)))
            elif what == "xs":
                c["xs"], c["refl"] = rng.choice([(1.0, 0.21), (0.01, 0.05), (1e-4, 0.05)])
            elif what == "off":
                c["off"] = rng.choice([0.55, 0.9, 1.5]) * size
            elif what == "low":
                c["el"] = rng.choice([0.3, 1.5, 2.0])
            elif what == "far":
                c["rho"] = 60000.0
            elif what == "near":
                c["rho"] = 500.0
        out.append(c)
    # the edge of the Earth's shadow: an optical ground site at local midnight looking 35-60 deg up; along that line of sight targets below
    # R_E / cos(el) are in the umbra, the ones beyond are lit.  The tasked target is lit, the serendipitous ones (same size, same field of view)
    # straddle the edge: each must be judged on its own illumination
    for _ in range(run.n(16, 120)):
        lon = rng.choice([0.0, -100.0, 140.0])
        el = rng.choice([35.0, 45.0, 60.0])
        edge = 6378.0 / math.cos(math.radians(el))
        c = {
            "stype": "optical", "host": "ground", "fov": rng.choice(["conic", "rect"]), "size": rng.choice([5.0, 10.0, 20.0]), "size2": 20.0,
            "az": rng.uniform(0, 360), "el": el, "rho": edge * rng.choice([1.12, 1.2, 1.35]), "off": 0.0, "offdir": 0.0,
            "mask": [0.0, 359.99999], "elmask": [1.0, 89.99999], "minr": None, "maxr": None, "slew": 3.0, "since": 60.0, "prev_az": rng.uniform(0, 360), "prev_el": 45.0,
            "xs": 25.0, "refl": 0.21, "nbg": 4, "bg": True, "lat": 0.0, "lon": lon, "seed": rng.randint(0, 10**6), "kind": "shadow-edge",
        }
        c["hour"] = int(round((24 - lon / 15.0) % 24)) % 24
        out.append(c)
    # "within the sensor's stated noise", for a sensor whose stated noise is correlated: the noisy measurements of one geometry, whitened with the
    # stated covariance, have the identity as their sample covariance
    for k in range(run.n(3, 12)):
        out.append({"op": "noise", "labels": rng.choice([["azimuth_rad", "elevation_rad"], ["azimuth_rad", "elevation_rad", "range_km", "range_rate_km_p_sec"]]),
                    "rho": rng.choice([0.9, -0.9, 0.6, -0.5, 0.0]), "n": 1500, "seed": rng.randint(1, 10**6)})
        if k < 2:
            out[-1]["rho"] = [0.9, -0.9][k]  # a strongly correlated and a strongly anti-correlated stated noise are always there
    # the same constraints through a whole scenario (engine, worker jobs, the sensor state reported back to the main process): a slow mount and
    # geostationary targets further apart than one step's slew budget - what the sensor reports over many steps must be reachable
    for _ in range(run.n(1, 5)):
        lon = rng.choice([10.0, -60.0, 120.0])
        out.append({"op": "scn", "lon": lon, "offsets": rng.sample([5.25, -3.25, 1.0, -7.5, 9.0], 3), "slew": rng.choice([0.1, 0.1, 0.15]), "dt": 60,
                    "steps": run.n(16, 30), "fov": rng.choice([2.0, 3.0]), "seed": rng.randint(1, 9999), "decision": rng.choice(["MunkresDecision", "MyopicNaiveGreedyDecision"])})
    return out


# ----------------------------------------------------------------------------- building the real objects
def build(c):
    from resonaate.common.labels import PlatformLabel
    from resonaate.physics.time.stardate import ScenarioTime, datetimeToJulianDate
    from resonaate.physics.transforms.methods import ecef2eci, lla2ecef, razel2sez, sez2ecef
    from resonaate.sensors.advanced_radar import AdvRadar
    from resonaate.sensors.field_of_view import ConicFoV, RectangularFoV
    from resonaate.sensors.optical import Optical
    from resonaate.sensors.radar import Radar

    when = datetime(2021, 3, 30, c["hour"], 0, 0) + timedelta(seconds=600)
    lat, lon = math.radians(c["lat"]), math.radians(c["lon"])
    if c["host"] == "ground":
        ecef = lla2ecef(np.array([lat, lon, 0.2]))
        host_eci = ecef2eci(ecef, when)
        host_ecef = ecef
        agent_type = PlatformLabel.GROUND_FACILITY
    else:
        r = np.array([7000.0 + 300 * (c["seed"] % 5), 0.0, 0.0])
        rot = np.array([[math.cos(lon), -math.sin(lon), 0], [math.sin(lon), math.cos(lon), 0], [0, 0, 1]])
        r = rot @ r
        v = np.cross([0, 0.3, 1.0], r)
        v = v / np.linalg.norm(v) * math.sqrt(398600.4418 / np.linalg.norm(r))
        host_eci = np.concatenate([r, v])
        from resonaate.physics.transforms.methods import ecef2lla, eci2ecef

        host_ecef = eci2ecef(host_eci, when)
        lla = ecef2lla(host_ecef)
        lat, lon = float(lla[0]), float(lla[1])
        agent_type = PlatformLabel.SPACECRAFT
    fov = ConicFoV(math.radians(c["size"])) if c["fov"] == "conic" else RectangularFoV(azimuth_angle=math.radians(c["size"]), elevation_angle=math.radians(c["size2"]))
    common = dict(az_mask=np.array(c["mask"]), el_mask=np.array(c["elmask"]) if c["host"] == "ground" else np.array([-90.0, 89.99999]) if False else np.array(c["elmask"]),
                  diameter=10.0, efficiency=0.9, slew_rate=c["slew"], field_of_view=fov, background_observations=c["bg"], minimum_range=c["minr"], maximum_range=c["maxr"])
    if c["stype"] == "optical":
        sensor = Optical(r_matrix=np.array([1e-10, 1e-10]), detectable_vismag=16.0, **common)
    elif c["stype"] == "adv_radar":
        sensor = AdvRadar(r_matrix=np.array([1e-10, 1e-10, 1e-6, 1e-10]), tx_power=2.5e6, tx_frequency=1.5e9, min_detectable_power=1.0e-15, **common)
    else:
        sensor = Radar(r_matrix=np.array([1e-10, 1e-10, 1e-6, 1e-10]), tx_power=2.5e6, tx_frequency=1.5e9, min_detectable_power=1.0e-15, **common)
    host = SimpleNamespace(eci_state=host_eci, time=ScenarioTime(600.0), datetime_epoch=when, julian_date_epoch=datetimeToJulianDate(when), simulation_id=60001,
                           agent_type=agent_type, sensor_time_bias_event_queue=[])
    sensor._host = host

    def place(rho, el_deg, az_deg):
        sez = razel2sez(rho, math.radians(el_deg), math.radians(az_deg), 0.0, 0.0, 0.0)
        rel = sez2ecef(sez, lat, lon)
        eci = ecef2eci(host_ecef + rel, when)
        vv = np.cross([0.0, 0.0, 1.0], eci[:3])
        eci[3:] = vv / np.linalg.norm(vv) * 3.0
        return eci

    truth = place(c["rho"], c["el"], c["az"])
    d_az = c["off"] * math.cos(math.radians(c["offdir"])) / max(0.05, math.cos(math.radians(min(c["el"], 85.0))))
    d_el = c["off"] * math.sin(math.radians(c["offdir"]))
    est = place(c["rho"] * 1.001, min(89.9, max(-89.0, c["el"] + d_el)), c["az"] + d_az)
    tgt = SimpleNamespace(eci_state=truth, simulation_id=10001, visual_cross_section=c["xs"], reflectivity=c["refl"])
    rs = np.random.default_rng(c["seed"])
    bgs = []
    for k in range(c["nbg"]):
        e2 = place(c["rho"] * float(rs.uniform(0.7, 1.3)), min(89.9, max(-5.0, c["el"] + float(rs.normal(0, c["size"])))), c["az"] + float(rs.normal(0, c["size"])))
        bgs.append(SimpleNamespace(eci_state=e2, simulation_id=10002 + k, visual_cross_section=c["xs"], reflectivity=c["refl"]))
    # where the sensor pointed before, and when
    sensor.boresight = razel2sez(1.0, math.radians(c["prev_el"]), math.radians(c["prev_az"]), 0, 0, 0)[:3]
    sensor.time_last_tasked = ScenarioTime(600.0 - c["since"])
    return sensor, host, tgt, est, bgs


# ----------------------------------------------------------------------------- independent evaluation of every constraint
def ang(a, b):
    a, b = np.asarray(a, float), np.asarray(b, float)
    return math.atan2(float(np.linalg.norm(np.cross(a, b))), float(a @ b))


def azel(sez):
    az = math.atan2(sez[1], -sez[0]) % (2 * math.pi)
    el = math.atan2(sez[2], math.hypot(sez[0], sez[1]))
    return az, el


def checks_for(sensor, host, target, pointing_sez, c):
    """ordered (reason, holds, margin) for one target against the pointing: field of view first, then the visibility cascade"""
    from resonaate.common.labels import Explanation, PlatformLabel
    from resonaate.physics import sensor_utils as su
    from resonaate.physics.bodies import Sun
    from resonaate.physics.bodies.earth import Earth
    from resonaate.physics.transforms.methods import getSlantRangeVector

    sez = getSlantRangeVector(host.eci_state, target.eci_state, host.datetime_epoch)
    out = []
    # field of view about the commanded pointing
    if c["fov"] == "conic":
        a = ang(sez[:3], pointing_sez[:3])
        half = math.radians(c["size"]) / 2
        out.append((Explanation.FIELD_OF_VIEW.value, a <= half, abs(a - half)))
    else:
        (azp, elp), (azb, elb) = azel(pointing_sez), azel(sez)
        daz = abs((azp - azb + math.pi) % (2 * math.pi) - math.pi)
        ha, he = math.radians(c["size"]) / 2, math.radians(c["size2"]) / 2
        out.append((Explanation.FIELD_OF_VIEW.value, daz <= ha and abs(elp - elb) <= he, min(abs(daz - ha), abs(abs(elp - elb) - he))))
    rng_km = float(np.linalg.norm(sez[:3]))
    out.append((Explanation.MINIMUM_RANGE.value, not (c["minr"] is not None and rng_km < c["minr"]), abs(rng_km - (c["minr"] or -1e9))))
    out.append((Explanation.MAXIMUM_RANGE.value, not (c["maxr"] is not None and rng_km > c["maxr"]), abs(rng_km - (c["maxr"] or 1e18))))
    # exact segment-versus-sphere test
    r1, r2 = np.asarray(target.eci_state[:3], float), np.asarray(host.eci_state[:3], float)
    d = r2 - r1
    # the point of the line closest to the Earth's centre obstructs only when it lies between the two ends (the ends themselves - a site
    # on the ellipsoid is below the equatorial-radius sphere - are not obstructions)
    t = float(-(r1 @ d) / (d @ d))
    closest = float(np.linalg.norm(r1 + t * d))
    between = 0.0 <= t <= 1.0
    out.append((Explanation.LINE_OF_SIGHT.value, (not between) or closest >= float(Earth.radius),
                min(abs(t), abs(t - 1.0)) if not between else min(abs(closest - float(Earth.radius)), abs(t), abs(t - 1.0)) if closest < float(Earth.radius) else abs(closest - float(Earth.radius))))
    az, el = azel(sez)
    e0, e1 = math.radians(c["elmask"][0]), math.radians(c["elmask"][1])
    out.append((Explanation.ELEVATION_MASK.value, e0 <= el <= e1, min(abs(el - e0), abs(el - e1))))
    a0, a1 = math.radians(c["mask"][0]), math.radians(c["mask"][1])
    inside = (a0 <= az <= a1) if a0 <= a1 else (az >= a0 or az <= a1)
    out.append((Explanation.AZIMUTH_MASK.value, inside, min(abs(az - a0), abs(az - a1))))
    if c["stype"] in ("radar", "adv_radar"):
        mx = float(sensor.maximumRangeTo(target.visual_cross_section))
        out.append((Explanation.RADAR_SENSITIVITY.value, rng_km <= mx, abs(rng_km - mx)))
    else:
        sun = Sun.getPosition(host.julian_date_epoch)
        bore = np.asarray(target.eci_state, float) - np.asarray(host.eci_state, float)
        flux = float(su.calculateIncidentSolarFlux(target.visual_cross_section, target.eci_state[:3], sun))
        out.append((Explanation.SOLAR_FLUX.value, flux > 0, abs(flux) if flux != 0 else 1.0))  # exactly zero = in the umbra, decided geometrically
        phase = su.calculatePhaseAngle(sun, target.eci_state[:3], host.eci_state[:3])
        vm = float(su.apparentVisualMagnitude(target.visual_cross_section, target.reflectivity, su.lambertianPhaseFunction(phase), float(np.linalg.norm(bore)))) if flux > 0 else 99.0
        out.append((Explanation.VIZ_MAG.value, vm <= sensor.detectable_vismag, abs(vm - sensor.detectable_vismag)))
        out.append((Explanation.GALACTIC_EXCLUSION.value, bool(su.checkGalacticExclusionZone(bore[:3])), 1.0))
        if host.agent_type == PlatformLabel.SPACECRAFT:
            tsu = (sun - target.eci_state[:3]) / np.linalg.norm(target.eci_state[:3] - sun)
            out.append((Explanation.SPACE_ILLUMINATION.value, bool(su.checkSpaceSensorLightingConditions(bore[:3], tsu)), 1.0))
            dist = float(np.linalg.norm(host.eci_state[:3]))
            cone = math.asin((float(Earth.radius) + float(Earth.atmosphere)) / dist)
            nadir_angle = math.atan2(math.hypot(sez[0], sez[1]), -sez[2])
            out.append((Explanation.LIMB_OF_EARTH.value, not (nadir_angle < cone), abs(nadir_angle - cone)))
        else:
            out.append((Explanation.GROUND_ILLUMINATION.value, bool(su.checkGroundSensorLightingConditions(host.eci_state[:3], sun / np.linalg.norm(sun))), 1.0))
    return out, sez


def impl_run(c):
    from resonaate.common.labels import Explanation
    from resonaate.data.observation import MissedObservation, Observation
    from resonaate.physics.transforms.methods import getSlantRangeVector

    sensor, host, tgt, est, bgs = build(c)
    prev_bore = np.array(sensor.boresight, dtype=float)
    pointing = getSlantRangeVector(host.eci_state, est, host.datetime_epoch)
    need = ang(prev_bore, pointing[:3])
    budget = math.radians(c["slew"]) * c["since"]
    can_slew = budget >= need
    np.random.seed(c["seed"] % (2**32))
    obs, missed, bore, tlast = sensor.collectObservations(est, tgt, list(bgs))
    prim_checks, _ = checks_for(sensor, host, tgt, pointing, c)
    bg_checks = [(b.simulation_id, checks_for(sensor, host, b, pointing, c)[0]) for b in bgs]
    z = None
    for o in obs:
        if o.target_id == tgt.simulation_id:
            clean = sensor._measurement.calculateMeasurement(host.eci_state, tgt.eci_state, host.datetime_epoch, noisy=False)
            # the same quantities from the slant-range vector by plain trigonometry
            sz = np.asarray(getSlantRangeVector(host.eci_state, tgt.eci_state, host.datetime_epoch), float)
            own = {"azimuth_rad": azel(sz)[0], "elevation_rad": azel(sz)[1], "range_km": float(np.linalg.norm(sz[:3])),
                   "range_rate_km_p_sec": float(sz[:3] @ sz[3:] / np.linalg.norm(sz[:3]))}
            z = (list(map(float, o.measurement_states)), [own[k] for k in clean], [float(v) for v in np.sqrt(np.diag(sensor.r_matrix))],
                 [float(v) for v in clean.values()])
    return {
        "obs": [(int(o.sensor_id), int(o.target_id)) for o in obs], "missed": [(int(m.sensor_id), int(m.target_id), str(m.reason)) for m in missed],
        "can_slew": can_slew, "need": need, "budget": budget, "slew_margin": abs(budget - need), "prim": [(r, bool(h), float(m)) for r, h, m in prim_checks],
        "bg": [(tid, [(r, bool(h), float(m)) for r, h, m in cs]) for tid, cs in bg_checks],
        "bore_moved": float(ang(bore, pointing[:3])), "bore_kept": float(ang(bore, prev_bore)), "tlast": float(tlast), "z": z, "slew_reason": Explanation.SLEW_DISTANCE.value,
    }


def model_line(c, i):
    w = lambda s: s.replace(" ", "_")
    prim = " ".join(f"{1 if h else 0} {w(r)}" for r, h, _ in i["prim"])
    bgs = " ".join(f"{tid} {len(cs)} " + " ".join(f"{1 if h else 0} {w(r)}" for r, h, _ in cs) for tid, cs in i["bg"])
    return f"sen.collect {w(i['slew_reason'])} {1 if i['can_slew'] else 0} {1 if c['bg'] else 0} {len(i['prim'])} {prim} {len(i['bg'])} {bgs}"


def near_boundary(checks):
    """the first failing check, or any check before it, is within rounding of its boundary"""
    for r, h, m in checks:
        if m < 1e-9:
            return True
        if not h:
            return False
    return False


def oracle(run: Run, c, impl, mo):
    if impl[0] != "ok":
        return [("raises", f"{impl[1]}")]
    i = impl[1]
    fails = []
    prim_obs = [o for o in i["obs"] if o[1] == 10001]
    prim_miss = [m for m in i["missed"] if m[1] == 10001]
    desc = f"{c['stype']} on a {c['host']} host, {c['fov']} FoV {c['size']} deg, target az {c['az']:.2f} el {c['el']:.2f} range {c['rho']}"
    if len(prim_obs) + len(prim_miss) != 1:
        fails.append(("records", f"{len(prim_obs)} observations and {len(prim_miss)} miss records for the primary target ({desc})"))
        return fails
    if any(m[1] != 10001 for m in i["missed"]):
        fails.append(("background-miss", f"a miss record was produced for a background target ({desc})"))
    if i["slew_margin"] < 1e-9:
        run.boundary_skips += 1
        return fails
    if not i["can_slew"]:
        run.count("outcome:slew-miss")
        if any(t != 10001 for _, t in i["obs"]):
            fails.append(("background:no-slew", f"the sensor could not slew to the commanded pointing (it stays where it was, {math.degrees(i['need']):.2f} deg away, budget "
                                                f"{math.degrees(i['budget']):.2f} deg), yet it reported serendipitous observations {[t for _, t in i['obs']]} in the field of view about that pointing ({desc})"))
        if not prim_miss or prim_miss[0][2] != i["slew_reason"]:
            fails.append(("slew", f"pointing needs more slew than rate x elapsed time allows, yet the sensor reported {prim_obs or prim_miss} ({desc})"))
        if i["bore_kept"] > 1e-12:
            fails.append(("slew:boresight", f"the boresight moved although the slew was not possible ({desc})"))
        return fails
    if i["bore_moved"] > 1e-9 or abs(i["tlast"] - 600.0) > 1e-9:
        fails.append(("pointing", f"after a possible slew the boresight is {math.degrees(i['bore_moved']):.4f} deg from the commanded pointing and time_last_tasked is {i['tlast']} ({desc})"))
    if near_boundary(i["prim"]):
        run.boundary_skips += 1
        return fails
    failing = [r for r, h, _ in i["prim"] if not h]
    if prim_obs:
        run.count("outcome:observation")
        if failing:
            fails.append(("reported-but-violates", f"an observation was reported although the constraint '{failing[0]}' fails by an independent evaluation ({desc})"))
        if i["z"]:
            z, clean, sig, noise_free = i["z"]
            for a, b in zip(noise_free, clean):
                if abs(a - b) > 1e-9 * max(1.0, abs(b)) and abs(abs(a - b) - 2 * math.pi) > 1e-9:
                    fails.append(("noise-free", f"with noise off the sensor reports {a!r}, the geometry gives {b!r} ({desc})"))
                    break
            for a, b, s in zip(z, clean, sig):
                d = abs(((a - b + math.pi) % (2 * math.pi)) - math.pi) if abs(a - b) > 3.0 else abs(a - b)
                if d > 6.5 * s + 1e-12:
                    fails.append(("noise", f"a measurement component is {d / s:.1f} sigma from the noise-free value ({desc})"))
                    break
    else:
        reason = prim_miss[0][2]
        run.count(f"outcome:miss:{reason}")
        if not failing:
            fails.append(("missed-but-satisfies", f"a miss ('{reason}') was reported although every constraint holds by an independent evaluation ({desc})"))
        elif reason not in failing:
            fails.append(("untrue-reason", f"the miss states '{reason}', which holds; the failing constraints are {failing} ({desc})"))
        elif reason != failing[0]:
            run.count("reason-not-first-failing")
    # serendipitous observations
    for (s, t) in i["obs"]:
        if t == 10001:
            continue
        cs = dict(i["bg"]).get(t)
        if cs is None:
            fails.append(("background:unknown", f"observation of target {t} that was not offered ({desc})"))
        elif not near_boundary(cs) and any(not h for _, h, _ in cs):
            bad = [r for r, h, _ in cs if not h][0]
            fails.append(("background:violates", f"serendipitous observation of {t} although '{bad}' fails ({desc})"))
    if not c["bg"] and any(t != 10001 for _, t in i["obs"]):
        fails.append(("background:disabled", f"serendipitous observations although they are disabled ({desc})"))
    return fails


def run_cases(run: Run, cs):
    for c in [c for c in cs if c.get("op") == "noise"]:
        r = guarded(noise_run, c)
        run.case("noise", c, nontrivial=True, branch=f"noise:{len(c['labels'])}d:{'correlated' if c['rho'] else 'diagonal'}")
        for key, what in noise_oracle(c, r):
            run.fail(key, c, what)
    scn_cases = [c for c in cs if c.get("op") == "scn"]
    cs = [c for c in cs if c.get("op") not in ("scn", "noise")]
    for c in scn_cases:
        r = guarded(scn_run, c)
        run.case("scenario", c, nontrivial=True, branch=f"scenario:{c['decision']}")
        if r[0] == "ok":
            run.count("scenario:observations", len(r[1]))
            run.count("scenario:target-changes", sum(1 for a, b in zip(r[1], r[1][1:]) if a["target"] != b["target"]))
        for key, what in scn_oracle(c, r):
            run.fail(key, c, what)
    if not cs:
        return
    impls = [guarded(impl_run, c) for c in cs]
    lines = [model_line(c, i[1]) if i[0] == "ok" else None for c, i in zip(cs, impls)]
    outs = run.model([l for l in lines if l])
    it = iter(outs) if outs is not None else None
    for c, i, l in zip(cs, impls, lines):
        run.case("collect", c, nontrivial=True, branch=f"{c['stype']}:{c['host']}")
        mo = next(it) if (it is not None and l) else None
        if mo is not None and i[0] == "ok":
            run.model_compared += 1
            r = i[1]
            if mo == "bad-op":
                run.disagree("collect", c, "ok", mo)
            elif not (r["slew_margin"] < 1e-9 or (r["can_slew"] and near_boundary(r["prim"])) or any(near_boundary(cs_) for _, cs_ in r["bg"])):
                head, _, bgpart = mo.partition(" B")
                prim_obs = [o for o in r["obs"] if o[1] == 10001]
                prim_miss = [m for m in r["missed"] if m[1] == 10001]
                got = "obs" if prim_obs else ("missed:" + prim_miss[0][2].replace(" ", "_") if prim_miss else "none")
                got_bg = sorted(t for _, t in r["obs"] if t != 10001)
                want_bg = sorted(int(x) for x in bgpart.split())
                if head.strip() != got or got_bg != want_bg:
                    run.disagree("collect", c, f"{got} bg {got_bg}", mo)
        for key, what in oracle(run, c, i, mo):
            run.fail(key, c, what)


# ----------------------------------------------------------------------------- the stated noise
def noise_run(c):
    from resonaate.physics.measurements import Measurement

    m = len(c["labels"])
    sig = np.array([1e-4, 2e-4, 0.05, 1e-3][:m])
    corr = np.eye(m)
    corr[0, 1] = corr[1, 0] = c["rho"]
    if m == 4:
        corr[2, 3] = corr[3, 2] = -c["rho"] / 2
    R = np.outer(sig, sig) * corr
    meas = Measurement.fromMeasurementLabels(c["labels"], R)
    sen = np.array([6378.0, 0.0, 0.0, 0.0, 0.465, 0.0])
    tgt = np.array([7000.0, 1500.0, 900.0, -1.0, 6.9, 2.0])
    when = datetime(2021, 3, 30, 16, 0, 0)
    clean = meas.calculateMeasurement(sen, tgt, when, noisy=False)
    np.random.seed(c["seed"])
    L = np.linalg.cholesky(R)
    W = np.zeros((m, m))
    for _ in range(c["n"]):
        noisy = meas.calculateNoisyMeasurement(sen, tgt, when)
        d = np.array([noisy[k] - clean[k] for k in c["labels"]])
        d[:2] = (d[:2] + np.pi) % (2 * np.pi) - np.pi
        w = np.linalg.solve(L, d)
        W += np.outer(w, w)
    return {"whitened_cov": (W / c["n"]).tolist()}


def noise_oracle(c, impl):
    if impl[0] != "ok":
        return [("noise:raises", str(impl[1]))]
    W = np.array(impl[1]["whitened_cov"])
    dev = float(np.max(np.abs(W - np.eye(len(W)))))
    # entries of the sample covariance of n whitened draws scatter by about sqrt(2/n) (diagonal) about the identity: 0.25 is more than six of those for n = 1500
    if not dev <= 0.25:  # written so that a NaN (noise that is not a number) fails as well
        return [("noise:covariance", f"{c['n']} noisy measurements ({c['labels']}, correlation {c['rho']}) whitened with the stated covariance have sample covariance "
                                     f"{np.round(W, 2).tolist()} - {dev:.2f} from the identity")]
    return []


# ----------------------------------------------------------------------------- the constraints through a whole scenario
SCN_START = datetime(2021, 3, 30, 16, 0, 0)


def scn_run(c):
    """a real scenario (Ray jobs and all): per step, every observation the engine reports with the direction from the sensor to the target's TRUE
    position in the sensor's own topocentric frame, computed here from the truth states"""
    import scen
    from resonaate.physics.transforms.methods import ecef2eci, eci2ecef

    lon0 = c["lon"]

    def geo(tid, lon_deg):
        ecef = np.array([42164.0 * math.cos(math.radians(lon_deg)), 42164.0 * math.sin(math.radians(lon_deg)), 0.0, 0.0, 0.0, 0.0])
        eci = ecef2eci(ecef, SCN_START)
        return scen.target_cfg(tid, eci[:3], eci[3:])

    sensor = scen.radar_cfg(100001, 0.0, lon0, alt=0.0, slew=c["slew"], fov={"fov_shape": "conic", "cone_angle": c["fov"]}, adv=True)
    sensor["sensor"].update(aperture_diameter=30.0, tx_power=3.0e7, min_detectable_power=1.0e-19, covariance=np.diag([1e-10, 1e-10, 1e-8, 1e-11]).tolist())
    targets = [geo(30001 + k, lon0 + off) for k, off in enumerate(c["offsets"])]
    eng = [scen.engine_cfg(1, targets, [sensor], decision=c["decision"])]
    app = scen.build(scen.scenario_cfg(SCN_START, c["dt"], c["dt"] * (c["steps"] + 1), eng, seed=c["seed"]))
    lat, lon = 0.0, math.radians(lon0)
    # south-east-zenith axes of the site in the Earth-fixed frame
    sez = np.array([[math.sin(lat) * math.cos(lon), math.sin(lat) * math.sin(lon), -math.cos(lat)], [-math.sin(lon), math.cos(lon), 0.0],
                    [math.cos(lat) * math.cos(lon), math.cos(lat) * math.sin(lon), math.sin(lat)]])
    out = []
    try:
        for _k in range(c["steps"]):
            app.stepForward()
            e = list(app._tasking_engines.values())[0]
            when = app.clock.datetime_epoch
            s_ecef = eci2ecef(np.asarray(app.sensor_agents[100001].eci_state, dtype=float), when)[:3]
            for o in e.observations:
                t_ecef = eci2ecef(np.asarray(app.target_agents[o.target_id].eci_state, dtype=float), when)[:3]
                d = sez @ (t_ecef - s_ecef)
                out.append({"t": float(app.clock.time), "sensor": int(o.sensor_id), "target": int(o.target_id), "dir": [float(v) for v in d / np.linalg.norm(d)]})
    finally:
        scen.cleanup()
    return out


def scn_oracle(c, impl):
    """slew reachability over the history: between two observations a sensor reports, its boresight can have turned by at most rate x elapsed time
    (whatever it was tasked to in between), and each observed target lies within half a field of view of the boresight at its epoch"""
    if impl[0] != "ok":
        return [("scenario:raises", str(impl[1]))]
    fails = []
    last = {}
    n = 0
    for o in impl[1]:
        prev = last.get(o["sensor"])
        if prev is not None and o["t"] >= prev["t"]:
            ang_deg = math.degrees(math.acos(max(-1.0, min(1.0, float(np.dot(prev["dir"], o["dir"]))))))
            budget = c["slew"] * (o["t"] - prev["t"]) + c["fov"] + 0.05
            n += 1
            if ang_deg > budget:
                fails.append(("scenario:slew", f"sensor {o['sensor']} reports target {prev['target']} at t={prev['t']:.0f} s and target {o['target']} at t={o['t']:.0f} s: {ang_deg:.2f} deg apart, "
                                               f"but {c['slew']} deg/s for {o['t'] - prev['t']:.0f} s and a {c['fov']} deg field of view allow {budget:.2f} deg (GEO targets at {c['offsets']} deg from the site's meridian)"))
                break
        last[o["sensor"]] = o
    return fails


def search(run: Run):
    sub = Run.__new__(Run)
    sub.__dict__.update(run.__dict__)
    sub.rng = __import__("random").Random(run.seed + 59)
    sub.tier = "thorough"
    for c in [c for c in cases(sub) if c.get("op") not in ("scn", "noise")][:2500]:
        f = oracle(run, c, guarded(impl_run, c), None)
        if f:
            return (f[0][0], c, f[0][1])
    return None


def main():
    run = Run(
        PID,
        ["RV.Props.C02", "RV.Bridge.Sensors", "RV.Bridge.Geometry"],
        ["RV/Model/Sensor.lean"],
        "Lean 4 theorems over the first-failure cascade (for any list of checks) + differential correspondence of the real collectObservations with the cascade fed by an "
        "INDEPENDENT evaluation of every constraint (exact segment/sphere line of sight, atan2 angles for fields of view, masks, slew budget, tangent-cone limb test)",
        trusted_extra=[
            "photometric constraints (solar flux, visual magnitude, galactic exclusion, lighting) and the radar range equation are evaluated with the code's own helper functions: only their place in the cascade is checked",
            "'within the stated noise' is a 6.5 sigma bound per component on each reported measurement",
        ],
    )
    run.rule = ("radar / advanced radar / optical sensors on ground and space hosts, conic and rectangular fields of view of 1-20 deg, targets at the north seam, low and high elevation, "
                "500-60000 km, estimates displaced by 0-1.5 field-of-view radii, wrapping and plain azimuth masks, elevation masks, range limits, slow slews, small cross sections, "
                "day and night epochs, 0-4 background targets with serendipitous observations on and off")
    run.assumptions = ["cases in which a deciding constraint is within 1e-9 of its boundary are skipped and counted"]
    run.lean_phase()
    if run.args.replay:
        rp = json.loads(Path(run.args.replay).read_text())
        cs = [rp["case"]] if rp.get("kind") == "failing-input" else cases(run)
    else:
        cs = cases(run)
    run_cases(run, cs)
    run.finish(search)


if __name__ == "__main__":
    main_guard(main)
