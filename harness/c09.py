"""C09 - the output database is complete, duplicate-free and referentially consistent."""
from __future__ import annotations

import json
import sqlite3
import sys
from datetime import datetime, timedelta
from pathlib import Path

sys.path.insert(0, str(Path(__file__).resolve().parent))
import numpy as np
import scen
from common import Run, corpus, guarded, main_guard

PID = "C09"
SITES = [(0.0, 0.0), (5.0, 10.0)]
TGT_SPOTS = [(1.0, 2.0), (4.0, 8.0), (-4.0, -6.0)]
FK_TABLES = ["truth_ephemerides", "estimate_ephemerides", "observations", "missed_observations", "tasks", "detected_maneuvers", "filterstep"]


def cases(run: Run):
    rng = run.rng
    out = list(corpus(PID))
    for _ in range(run.n(6, 50)):
        dt = rng.choice([60, 60, 30, 120])
        outk = rng.choice([1, 1, 2, 3, 4])
        span_steps = rng.randint(2, 5)
        total = rng.randint(2, 8)
        # how the run is split into consecutive propagateTo calls
        cuts = sorted(rng.sample(range(1, total), rng.randint(0, min(2, total - 1)))) if total > 1 else []
        nt = rng.randint(1, 3)
        # agents that join or leave through scenario-step events
        events = []
        if total >= 3 and rng.random() < 0.6:
            events.append({"kind": "add", "step": rng.randint(1, total - 1), "tid": 10101})
        if total >= 3 and nt >= 2 and rng.random() < 0.5:
            events.append({"kind": "remove", "step": rng.randint(1, total - 1), "tid": 10001 + rng.randrange(nt)})
        ns = rng.randint(1, 2)
        if total >= 3 and ns >= 2 and rng.random() < 0.6:
            # a sensor that leaves the scenario (the other one stays), with output steps still to come
            events.append({"kind": "remove", "step": rng.randint(1, total - 1), "tid": 60001 + rng.randrange(ns), "atype": "sensor"})
        out.append({"dt": dt, "out": outk * dt, "span": span_steps * dt, "steps": total, "cuts": cuts, "ns": ns, "nt": nt,
                    "truth_only": rng.random() < 0.25, "start_sec": rng.choice([0, 0, 9, 30]), "seed": rng.randint(1, 10**6), "events": events})
    # pinned: a sensor that leaves early with nothing else happening afterwards (no later addition or removal to rebuild anything), several output steps to come
    out.append({"dt": 60, "out": 60, "span": 360, "steps": 5, "cuts": [3], "ns": 2, "nt": 1, "truth_only": True, "start_sec": 0, "seed": 4242,
                "events": [{"kind": "remove", "step": 2, "tid": 60002, "atype": "sensor"}]})
    # the shape that needs care: run past the configured stop with output_step = 2 dt
    out.append({"dt": 60, "out": 120, "span": 120, "steps": 6, "cuts": [3], "ns": 1, "nt": 2, "truth_only": False, "start_sec": 0, "seed": 7})
    # ... and with an output step of several physics steps, the configured stop inside a save interval and the run going well past it: rows written at
    # the steps between two saves (observations, tasks) must still find their epochs
    k = rng.choice([3, 4, 5])
    # a target tracked by two engines (one estimate, written once); manoeuvre detection on with a detection on a step between two saves
    out.append({"dt": 60, "out": rng.choice([60, 120]), "span": 240, "steps": 4, "cuts": [], "ns": 2, "nt": 2, "truth_only": False, "start_sec": 0, "seed": rng.randint(1, 999), "shared": True})
    out.append({"dt": 60, "out": 180, "span": 480, "steps": 8, "cuts": rng.choice([[], [4]]), "ns": 2, "nt": 2, "truth_only": False, "start_sec": 0, "seed": rng.randint(1, 999), "md": True})
    out.append({"dt": 60, "out": 60 * k, "span": 60 * rng.randint(1, k - 1) + 60 * k * rng.choice([0, 1]), "steps": 2 * k + rng.randint(1, k), "cuts": rng.choice([[], [k + 1]]),
                "ns": 1, "nt": 2, "truth_only": False, "start_sec": 0, "seed": rng.randint(1, 999)})
    return out


def build_case(c):
    from resonaate.physics.transforms.methods import ecef2eci, lla2ecef

    start = datetime(2021, 3, 30, 16, 0, 0) + timedelta(seconds=c["start_sec"])
    sensors = [scen.radar_cfg(60001 + k, *SITES[k]) for k in range(c["ns"])]
    targets = []
    for k in range(c["nt"]):
        lat, lon = TGT_SPOTS[k]
        ecef = lla2ecef(np.array([np.radians(lat), np.radians(lon), 700.0 + 50 * k]))
        eci = ecef2eci(ecef, start + timedelta(seconds=90))
        r = eci[:3]
        v = np.cross([0, 0, 1.0], r)
        v = v / np.linalg.norm(v) * np.sqrt(398600.4418 / np.linalg.norm(r))
        targets.append(scen.target_cfg(10001 + k, r, v))
    eng = [scen.engine_cfg(1, targets, sensors)]
    if c.get("shared") and len(sensors) >= 2:
        eng = [scen.engine_cfg(1, targets, sensors[:1]), scen.engine_cfg(2, targets[:1], sensors[1:])]
    events = []
    if c.get("md"):
        when = scen.iso(start + timedelta(seconds=2 * c["dt"]))
        events.append({"scope": "agent_propagation", "scope_instance_id": 10001, "start_time": when, "end_time": when, "event_type": "impulse",
                       "thrust_vector": [0.0, 0.03, 0.01], "thrust_frame": "eci", "planned": False})
    for ev in c.get("events", []):
        when = scen.iso(start + timedelta(seconds=ev["step"] * c["dt"]))
        if ev["kind"] == "add":
            ecef = lla2ecef(np.array([np.radians(3.0), np.radians(-1.0), 900.0]))
            eci = ecef2eci(ecef, start + timedelta(seconds=90))
            r = eci[:3]
            v = np.cross([0, 0, 1.0], r)
            v = v / np.linalg.norm(v) * np.sqrt(398600.4418 / np.linalg.norm(r))
            events.append({"scope": "scenario_step", "scope_instance_id": 0, "start_time": when, "end_time": when, "event_type": "target_addition",
                           "tasking_engine_id": 1, "target_agent": scen.target_cfg(ev["tid"], r, v)})
        else:
            events.append({"scope": "scenario_step", "scope_instance_id": 0, "start_time": when, "end_time": when, "event_type": "agent_removal",
                           "tasking_engine_id": 1, "agent_id": ev["tid"], "agent_type": ev.get("atype", "target")})
    cfg = scen.scenario_cfg(start, c["dt"], c["span"], eng, out_step=c["out"], truth_only=c["truth_only"], seed=c["seed"], events=events)
    if c.get("md"):
        cfg["estimation"]["sequential_filter"]["maneuver_detection"] = {"name": "standard_nis", "threshold": 0.05}
    return scen.build(cfg), start


def impl_run(c):
    from resonaate.physics.time.stardate import JulianDate, ScenarioTime

    app, start = build_case(c)
    jd0 = app.clock.julian_date_start
    bounds = [k * c["dt"] for k in c["cuts"]] + [c["steps"] * c["dt"]]
    per_step_rows = []
    agent_sets = []
    seen_obs = [0]
    # count the transient rows each step produces by wrapping stepForward
    import resonaate.scenario.scenario as scn

    orig = scn.Scenario.stepForward

    def wrapped(self):
        orig(self)
        n = 0
        for eng in self._tasking_engines.values():
            n += len(eng.observations) + len(eng.missed_observations)
        per_step_rows.append(n)
        agent_sets.append((sorted(list(self.target_agents) + list(self.sensor_agents)), sorted(self.estimate_agents)))

    scn.Scenario.stepForward = wrapped
    try:
        for b in bounds:
            app.propagateTo(JulianDate(ScenarioTime(float(b)).convertToJulianDate(jd0)))
    finally:
        scn.Scenario.stepForward = orig
    live = {aid: [float(x) for x in a.eci_state] for aid, a in {**app.target_agents, **app.sensor_agents}.items()}
    live_est = {aid: ([float(x) for x in a.eci_state], [float(x) for x in np.asarray(a.nominal_filter.est_p).reshape(-1)]) for aid, a in app.estimate_agents.items()}
    path = app._verif_db_path
    audit = audit_db(path, c, start)
    audit["per_step_rows"] = per_step_rows
    audit["agent_sets"] = agent_sets
    audit["live"] = live
    audit["live_est"] = live_est
    audit["time"] = float(app.clock.time)
    return audit


def audit_db(path, c, start):
    from resonaate.physics.time.stardate import datetimeToJulianDate

    con = sqlite3.connect(path)
    cur = con.cursor()
    epochs = cur.execute("select julian_date, timestampISO from epochs order by julian_date").fetchall()
    out = {"epochs": [(jd, ts) for jd, ts in epochs]}
    out["epoch_secs"] = [int(round((datetime.fromisoformat(ts) - start).total_seconds())) for _, ts in epochs]
    out["dup_epochs"] = cur.execute("select count(*) from (select julian_date from epochs group by julian_date having count(*) > 1)").fetchone()[0] + \
        cur.execute("select count(*) from (select timestampISO from epochs group by timestampISO having count(*) > 1)").fetchone()[0]
    out["ts_mismatch"] = [(ts, jd) for jd, ts in epochs if abs(float(datetimeToJulianDate(datetime.fromisoformat(ts))) - jd) > 1e-9]
    dangling = {}
    counts = {}
    for t in FK_TABLES:
        try:
            counts[t] = cur.execute(f"select count(*) from {t}").fetchone()[0]
            dangling[t] = cur.execute(f"select count(*) from {t} x where not exists (select 1 from epochs e where e.julian_date = x.julian_date)").fetchone()[0]
        except sqlite3.OperationalError:
            counts[t], dangling[t] = None, 0
    out["counts"], out["dangling"] = counts, dangling
    # rows that are equal in every column but their own id
    dups = {}
    for t in FK_TABLES:
        try:
            cols = [r[1] for r in cur.execute(f"pragma table_info({t})").fetchall() if r[1] != "id"]
            if cols:
                dups[t] = cur.execute(f"select count(*) from (select count(*) n from {t} group by {', '.join(cols)} having n > 1)").fetchone()[0]
        except sqlite3.OperationalError:
            pass
    out["dup_rows"] = dups
    agents = {r[0] for r in cur.execute("select unique_id from agents").fetchall()}
    bad_agents = 0
    for t, cols in (("truth_ephemerides", ["agent_id"]), ("estimate_ephemerides", ["agent_id"]), ("observations", ["sensor_id", "target_id"]), ("missed_observations", ["sensor_id", "target_id"]), ("tasks", ["sensor_id", "target_id"])):
        for col in cols:
            for (v,) in cur.execute(f"select distinct {col} from {t}").fetchall():
                if v not in agents:
                    bad_agents += 1
    out["bad_agents"] = bad_agents
    # truth / estimate rows per epoch (seconds since start)
    sec = {jd: s for (jd, _), s in zip(epochs, out["epoch_secs"])}
    out["truth_rows"] = sorted((a, sec.get(jd, -1)) for a, jd in cur.execute("select agent_id, julian_date from truth_ephemerides").fetchall())
    out["est_rows"] = sorted((a, sec.get(jd, -1)) for a, jd in cur.execute("select agent_id, julian_date from estimate_ephemerides").fetchall())
    out["obs_rows"] = sorted(sec.get(jd, -1) for (jd,) in cur.execute("select julian_date from observations union all select julian_date from missed_observations").fetchall())
    last = {}
    for a, jd, *st in cur.execute("select agent_id, julian_date, pos_x_km, pos_y_km, pos_z_km, vel_x_km_p_sec, vel_y_km_p_sec, vel_z_km_p_sec from truth_ephemerides order by julian_date").fetchall():
        last[a] = (sec.get(jd, -1), [float(x) for x in st])
    out["last_truth"] = last
    cov_cols = ", ".join(f"covar_{i}{j}" for i in range(6) for j in range(6))
    last_est = {}
    for row in cur.execute(f"select agent_id, julian_date, pos_x_km, pos_y_km, pos_z_km, vel_x_km_p_sec, vel_y_km_p_sec, vel_z_km_p_sec, {cov_cols} from estimate_ephemerides order by julian_date").fetchall():
        last_est[row[0]] = (sec.get(row[1], -1), [float(x) for x in row[2:8]], [float(x) for x in row[8:]])
    out["last_est"] = last_est
    con.close()
    return out


def model_line(c, per_step_rows, agent_sets):
    agents = [10001 + k for k in range(c["nt"])] + [60001 + k for k in range(c["ns"])]
    tracked = [] if c["truth_only"] else [10001 + k for k in range(c["nt"])]
    steps = []
    rid = 1
    L = lambda xs: f"{len(xs)} " + " ".join(map(str, xs))
    for n, (ag, tr) in zip(per_step_rows, agent_sets):
        steps.append(L([rid + i for i in range(n)]) + " " + L(ag) + " " + L(tr))
        rid += n
    return f"db.run recordStepped {c['dt']} {c['out']} {c['span']} {L(agents)} {L(tracked)} {len(steps)} " + " ".join(steps)


def parse_model(mo):
    def sect(tag):
        a = mo.index(tag + "[") + len(tag) + 1
        return mo[a : mo.index("]", a)].split()

    return {"E": [int(x) for x in sect("E")], "T": sorted((int(p.split("@")[0]), int(p.split("@")[1])) for p in sect("T")),
            "S": sorted((int(p.split("@")[0]), int(p.split("@")[1])) for p in sect("S")), "R": sorted(int(p.split("@")[1]) for p in sect("R"))}


def oracle(run: Run, c, impl):
    if impl[0] != "ok":
        return [("raises", f"{impl[1]}")]
    a = impl[1]
    fails = []
    dt, out, N = c["dt"], c["out"], c["steps"]
    desc = f"dt {dt} s, output {out} s, span {c['span']} s, {N} steps in calls cut at {c['cuts']}"
    if a["dup_epochs"]:
        fails.append(("epochs:duplicate", f"duplicate epochs ({desc})"))
    jds = [jd for jd, _ in a["epochs"]]
    if jds != sorted(jds) or a["epoch_secs"] != sorted(a["epoch_secs"]) or len(set(a["epoch_secs"])) != len(a["epoch_secs"]):
        fails.append(("epochs:order", f"epochs not strictly increasing ({desc})"))
    if a["ts_mismatch"]:
        fails.append(("epochs:timestamp", f"timestamp and Julian date disagree for {a['ts_mismatch'][:2]} ({desc})"))
    for t, n in a["dangling"].items():
        if n:
            fails.append(("fk:epoch", f"{n} of {a['counts'][t]} rows of {t} refer to a julian_date that is not in epochs ({desc})"))
    if a["bad_agents"]:
        fails.append(("fk:agent", f"rows refer to unknown agents ({desc})"))
    for t, n in a.get("dup_rows", {}).items():
        if n:
            fails.append(("rows:duplicate", f"{n} groups of identical rows in {t} ({a['counts'][t]} rows in all) ({desc})"))
    agents = [10001 + k for k in range(c["nt"])] + [60001 + k for k in range(c["ns"])]
    out_epochs = [0] + [k * dt for k in range(1, N + 1) if (k * dt) % out == 0]
    # membership from the event schedule: an agent is written at every output epoch strictly inside its time in the scenario, never
    # strictly outside; at the very epoch it joins or leaves either is accepted (the event's own instant)
    joins = {ev["tid"]: ev["step"] * dt for ev in c.get("events", []) if ev["kind"] == "add"}
    leaves = {ev["tid"]: ev["step"] * dt for ev in c.get("events", []) if ev["kind"] == "remove"}
    desc += f", events {c.get('events', [])}"

    def membership(ids):
        must, may = set(), set()
        for ag in ids:
            for t in out_epochs:
                lo, hi = joins.get(ag, -1), leaves.get(ag, 10**12)
                if lo < t < hi:
                    must.add((ag, t))
                elif t in (lo, hi):
                    may.add((ag, t))
        return must, may

    must, may = membership(agents + list(joins))
    have = a["truth_rows"]
    if len(set(have)) != len(have) or not (must <= set(have) <= must | may):
        missing = sorted(must - set(have))[:4]
        extra = sorted(set(have) - must - may)[:4]
        dup = sorted({x for x in have if have.count(x) > 1})[:4]
        fails.append(("rows:truth", f"truth rows are not one per agent per output epoch: missing {missing}, unexpected {extra}, duplicated {dup} ({desc})"))
    if not c["truth_only"]:
        must_e, may_e = membership([10001 + k for k in range(c["nt"])] + list(joins))
        have_e = a["est_rows"]
        if len(set(have_e)) != len(have_e) or not (must_e <= set(have_e) <= must_e | may_e):
            fails.append(("rows:estimate", f"estimate rows are not one per tracked target per output epoch: missing {sorted(must_e - set(have_e))[:4]}, "
                                            f"unexpected {sorted(set(have_e) - must_e - may_e)[:4]} ({desc})"))
    # read back: the last stored truth/estimate of each agent is the state the simulation held at that epoch (when the last step was an output step)
    if a["time"] in out_epochs:
        for ag, (t, st) in a["last_truth"].items():
            if t == int(a["time"]) and st != a["live"][ag]:
                fails.append(("readback:truth", f"stored truth state of agent {ag} differs from the live one ({desc})"))
        for ag, (t, st, cov) in a["last_est"].items():
            if t == int(a["time"]) and (st != a["live_est"][ag][0] or cov != a["live_est"][ag][1]):
                fails.append(("readback:estimate", f"stored estimate of target {ag} differs from the live one ({desc})"))
    return fails


def atomicity_probe(run: Run):
    """a step's rows are committed together or not at all: one bad row in the middle of a bulk save leaves none of them"""
    import logging
    import tempfile, os, shutil

    from sqlalchemy.orm import Query

    from resonaate.data.epoch import Epoch
    from resonaate.data.resonaate_database import ResonaateDatabase

    out = []
    for n_rows, bad_at in ((4, 2), (700, 650), (1500, 1400)):
        d = tempfile.mkdtemp(prefix="verif-c09-")
        try:
            db = ResonaateDatabase(db_path=f"sqlite:///{os.path.join(d, 'a.sqlite3')}", logger=logging.getLogger("verif-null"))
            rows = [Epoch(julian_date=2459300.5 + k, timestampISO=(datetime(2021, 3, 27) + timedelta(days=k)).isoformat(timespec="microseconds")) for k in range(n_rows)]
            # one row in the middle violates the unique julian_date
            rows[bad_at] = Epoch(julian_date=2459300.5 + 1, timestampISO="1999-01-01T00:00:00.000000")
            logging.disable(logging.CRITICAL)  # the expected IntegrityError is logged with its full parameter list
            try:
                db.bulkSave(rows)
                raised = False
            except Exception:  # noqa: BLE001
                raised = True
            finally:
                logging.disable(logging.NOTSET)
            n = len(db.getData(Query(Epoch)))
            run.case("atomicity", {"rows": n_rows, "bad": bad_at}, True, branch=f"atomicity:{n_rows}")
            if not raised or n != 0:
                out.append(("atomicity", f"a bulk save of {n_rows} rows whose row {bad_at} fails raised={raised} and left {n} of its rows committed"))
        finally:
            shutil.rmtree(d, ignore_errors=True)
    # a step's batch spans several tables: good epoch rows and agent rows of which two share their primary key - nothing of it may stay
    from resonaate.data.agent import AgentModel

    d = tempfile.mkdtemp(prefix="verif-c09-")
    try:
        db = ResonaateDatabase(db_path=f"sqlite:///{os.path.join(d, 'b.sqlite3')}", logger=logging.getLogger("verif-null"))
        rows = [Epoch(julian_date=2459300.5 + k, timestampISO=(datetime(2021, 3, 27) + timedelta(days=k)).isoformat(timespec="microseconds")) for k in range(5)]
        rows += [AgentModel(unique_id=10001, name="a"), AgentModel(unique_id=10002, name="b"), AgentModel(unique_id=10001, name="again")]
        logging.disable(logging.CRITICAL)
        try:
            db.bulkSave(rows)
            raised = False
        except Exception:  # noqa: BLE001
            raised = True
        finally:
            logging.disable(logging.NOTSET)
        n_e, n_a = len(db.getData(Query(Epoch))), len(db.getData(Query(AgentModel)))
        run.case("atomicity", {"rows": 8, "tables": 2}, True, branch="atomicity:mixed-tables")
        if not raised or n_e or n_a:
            out.append(("atomicity", f"a bulk save of 5 epoch rows and 3 agent rows of which two share a key raised={raised} and left {n_e} epoch and {n_a} agent rows committed"))
    finally:
        shutil.rmtree(d, ignore_errors=True)
    return out


def run_cases(run: Run, cs):
    impls = [guarded(impl_run, c) for c in cs]
    scen.cleanup()
    lines = [model_line(c, i[1]["per_step_rows"], i[1]["agent_sets"]) if i[0] == "ok" else "skip" for c, i in zip(cs, impls)]
    outs = run.model([l for l in lines if l != "skip"])
    it = iter(outs) if outs is not None else None
    for c, i, l in zip(cs, impls, lines):
        run.case("run", c, nontrivial=True, branch=("past-span" if c["steps"] * c["dt"] > c["span"] else "within-span") + (":out>dt" if c["out"] > c["dt"] else ":out=dt"))
        if it is not None and l != "skip":
            mo = next(it)
            run.model_compared += 1
            if mo == "bad-op":
                run.disagree("db", c, "ok", mo)
            else:
                m = parse_model(mo)
                a = i[1]
                got_E = sorted(a["epoch_secs"])
                if sorted(m["E"]) != got_E:
                    run.disagree("db.epochs", c, got_E, sorted(m["E"]))
                elif m["T"] != a["truth_rows"]:
                    run.disagree("db.truth", c, a["truth_rows"][:12], m["T"][:12])
                elif (not c["truth_only"]) and m["S"] != a["est_rows"]:
                    run.disagree("db.est", c, a["est_rows"][:12], m["S"][:12])
                elif m["R"] != a["obs_rows"]:
                    run.disagree("db.rows", c, a["obs_rows"], m["R"])
        for key, what in oracle(run, c, i):
            run.fail(key, c, what)
    for key, what in atomicity_probe(run):
        run.fail(key, {"op": "atomicity"}, what)


def search(run: Run):
    sub = Run.__new__(Run)
    sub.__dict__.update(run.__dict__)
    sub.rng = __import__("random").Random(run.seed + 43)
    sub.tier = "quick"
    for c in cases(sub)[:14]:
        f = oracle(run, c, guarded(impl_run, c))
        scen.cleanup()
        if f:
            return (f[0][0], c, f[0][1])
    return None


def main():
    run = Run(
        PID,
        ["RV.Props.C09"],
        ["RV/Model/Database.lean"],
        "Lean 4 theorems (referential-consistency invariant by induction over steps, exact truth-row formula, split-run equality) over a model of what a run writes + "
        "real scenarios on real Ray whose SQLite file is audited with SQL (uniqueness, anti-joins for every epoch/agent reference, counts per output epoch, "
        "timestamp vs Julian date, read-back equality) and compared with the model's predicted tables; fault injection for atomicity",
        trusted_extra=["SQLAlchemy/SQLite transaction semantics (atomicity is exercised by fault injection, not proved)", "the model abstracts states to row identities; read-back equality is checked on the real file"],
    )
    run.rule = ("steps 30-120 s, output step 1-3x the physics step, configured span 2-5 steps, runs of 2-8 steps incl. runs past the configured stop, split into 1-3 consecutive "
                "propagateTo calls, 1-2 radars x 1-3 targets, truth-only and with estimation, starts on odd seconds")
    run.assumptions = ["timestampISO must equal its Julian date to 1e-9 days"]
    run.lean_phase()
    if run.args.replay:
        rp = json.loads(Path(run.args.replay).read_text())
        cs = [rp["case"]] if rp.get("kind") == "failing-input" and "dt" in rp["case"] else cases(run)
    else:
        cs = cases(run)
    run_cases(run, cs)
    run.finish(search)


if __name__ == "__main__":
    main_guard(main)
