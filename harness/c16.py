"""C16 - filter updates are invariant to angle representation and observation order."""
from __future__ import annotations

import copy
import itertools
import json
import math
import sys
from datetime import datetime, timedelta
from fractions import Fraction
from pathlib import Path
from types import SimpleNamespace

sys.path.insert(0, str(Path(__file__).resolve().parent))
import numpy as np
from common import Run, Toks, close, corpus, fmt, frac, guarded, main_guard

PID = "C16"
START = datetime(2021, 3, 30, 16, 0, 0)


def consts():
    import resonaate.physics.constants as c

    return float(c.PI), float(c.TWOPI)


# ----------------------------------------------------------------------------- scalar helpers
def gen_angle(rng):
    PI, TAU = consts()
    kind = rng.choice(["seam", "turns", "generic", "tiny", "dyadic"])
    if kind == "seam":
        base = rng.choice([0.0, PI, -PI, TAU, -TAU, PI / 2, 3 * PI])
        eps = rng.choice([0.0, 0.0, 1e-15, -1e-15, 1e-12, -1e-12, 2.0**-52, -(2.0**-52)])
        return base + eps
    if kind == "turns":
        return rng.uniform(-PI, PI) + rng.choice([1, -1, 2, -3, 7, 40, -40, 1000, 10**6, -(10**6)]) * TAU
    if kind == "tiny":
        return rng.choice([1e-20, -1e-20, 5e-324, -5e-324, 1e-300])
    if kind == "dyadic":
        return rng.randint(-4096, 4096) / 64.0
    return rng.uniform(-20.0, 20.0)


def scalar_cases(run: Run):
    rng = run.rng
    out = []
    for _ in range(run.n(1500, 20000)):
        op = rng.choice(["wrap2pi", "wrapneg", "res", "res", "vwrapneg", "vwrap2pi", "vres"])
        c = {"op": op, "a": gen_angle(rng)}
        if op in ("res", "vres"):
            c["b"] = gen_angle(rng)
            c["ang"] = rng.random() < 0.85
        out.append(c)
    return out


def scalar_impl(c):
    from resonaate.physics import maths as M

    a = c["a"]
    if c["op"] == "wrap2pi":
        return float(M.wrapAngle2Pi(a))
    if c["op"] == "wrapneg":
        return float(M.wrapAngleNegPiPi(a))
    if c["op"] == "res":
        r1 = float(M.residual(a, c["b"], c["ang"]))
        r2 = float(M.residuals(np.array([a, 1.0]), np.array([c["b"], 0.25]), np.array([c["ang"], False]))[0])
        if r1 != r2:
            raise ValueError(f"residual {r1} != residuals {r2}")
        return r1
    if c["op"] == "vwrapneg":
        return float(M.vecWrapAngleNeg(np.array([a, 0.5]))[0])
    if c["op"] == "vwrap2pi":
        return float(M.vecWrapAngle2Pi(np.array([a, 0.5]))[0])
    if c["op"] == "vres":
        return float(M.vecResiduals(np.array([a, 1.0]), np.array([c["b"], 0.25]), np.array([c["ang"], False]))[0])
    raise KeyError(c["op"])


def scalar_line(c):
    if c["op"] in ("res", "vres"):
        return f"ang.{c['op']} {fmt(c['a'])} {fmt(c['b'])} {1 if c['ang'] else 0}"
    return f"ang.{c['op']} {fmt(c['a'])}"


def scalar_oracle(run, c, impl):
    """range and turn-invariance on the real helpers"""
    PI, TAU = consts()
    from resonaate.physics import maths as M

    fails = []
    if impl[0] != "ok":
        return [(f"{c['op']}:raises", impl[1])]
    r = impl[1]
    op = c["op"]
    mag = max(abs(c["a"]), abs(c.get("b", 0.0)), 1.0)
    tol = 1e-12 + 4e-16 * mag
    if op == "wrap2pi" and not (0.0 <= r <= TAU):
        fails.append(("wrap2pi:range", f"wrapAngle2Pi({c['a']!r}) = {r!r} outside [0, 2pi)"))
    if op in ("wrapneg",) and not (-PI - 1e-15 < r <= PI):
        fails.append(("wrapneg:range", f"wrapAngleNegPiPi({c['a']!r}) = {r!r} outside (-pi, pi]"))
    if op == "res" and c["ang"]:
        if not (-PI < r <= PI):
            fails.append(("res:range", f"residual({c['a']!r}, {c['b']!r}) = {r!r} outside (-pi, pi]"))
        # congruent to a - b modulo a turn
        d = (Fraction(c["a"]) - Fraction(c["b"]) - Fraction(r)) / Fraction(TAU)
        if abs(d - round(d)) * TAU > tol * 4:
            fails.append(("res:congruence", f"residual({c['a']!r}, {c['b']!r}) = {r!r} is not a-b modulo a turn"))
        # whole turns on either side (exactly representable shifts are used: k*TAU rounds, so compare with tolerance)
        for k, m in ((1, 0), (0, -2), (5, 3)):
            r2 = float(M.residual(c["a"] + k * TAU, c["b"] + m * TAU, True))
            diff = abs(r2 - r)
            if min(diff, abs(diff - TAU)) > tol * 16 or (diff > 1.0 and abs(abs(r) - PI) > 1e-9):
                fails.append(("res:turns", f"residual changes from {r!r} to {r2!r} when adding ({k},{m}) turns to ({c['a']!r},{c['b']!r})"))
                break
    if op == "vres" and c["ang"]:
        for k, m in ((2, 0), (0, 5), (-40, 3)):
            r2 = float(M.vecResiduals(np.array([c["a"] + k * TAU]), np.array([c["b"] + m * TAU]), np.array([True]))[0])
            diff = abs(r2 - r)
            if min(diff, abs(diff - TAU)) > tol * 64 or (diff > 1.0 and abs(abs(r) - PI) > 1e-9):
                fails.append(("vres:turns", f"vecResiduals changes from {r!r} to {r2!r} when adding ({k},{m}) turns to ({c['a']!r},{c['b']!r})"))
                break
        if not (-PI - 1e-12 <= r <= PI + 1e-12):
            fails.append(("vres:range", f"vecResiduals = {r!r} outside [-pi, pi]"))
    return fails


def mean_oracle(run: Run):
    """angularMean: invariant under whole turns of any input and under positive scaling of the weights
    (negative centre weight allowed, as the UKF's mean weights have)."""
    from resonaate.physics import maths as M

    PI, TAU = consts()
    rng = run.rng
    fails = []
    for _ in range(run.n(200, 3000)):
        n = rng.randint(2, 13)
        centre = gen_angle(rng) % TAU
        ang = np.array([centre + rng.uniform(-0.3, 0.3) for _ in range(n)])
        w = np.array([rng.uniform(0.01, 1.0) for _ in range(n)])
        if rng.random() < 0.5:
            w[0] = -rng.uniform(0.1, 3.0) * 0  - rng.uniform(0.0, 0.5)
            if w.sum() <= 0:
                w[0] = 0.1
        for low, high in ((0.0, TAU), (-PI, PI)):
            m0 = guarded(M.angularMean, ang.copy(), weights=w.copy(), low=low, high=high)
            run.case("angmean", {"n": n, "centre": centre, "low": low}, True, branch="angmean")
            if m0[0] != "ok":
                fails.append(("angmean:raises", m0[1]))
                continue
            m0 = float(m0[1])
            if not (low - 1e-12 <= m0 <= high + 1e-12):
                fails.append(("angmean:range", f"angularMean {m0} outside [{low},{high}]"))
            ks = np.array([rng.choice([0, 1, -1, 3, -7]) for _ in range(n)])
            m1 = float(M.angularMean(ang + ks * TAU, weights=w.copy(), low=low, high=high))
            m2 = float(M.angularMean(ang.copy(), weights=w * rng.choice([0.25, 3.0, 17.0]), low=low, high=high))
            for mm, nm in ((m1, "turns"), (m2, "weight-scale")):
                d = abs(mm - m0)
                if min(d, abs(d - TAU)) > 1e-9:
                    fails.append((f"angmean:{nm}", f"angularMean changes from {m0} to {mm} under {nm}"))
            # the mean of angles clustered within 0.3 rad of `centre` is within 0.3 rad of it (also across the seam) when all weights are non-negative
            d = abs(((m0 - centre + PI) % TAU) - PI)
            if d > 0.31 and (w >= 0).all():
                fails.append(("angmean:seam", f"mean {m0} of angles clustered at {centre} (range [{low},{high}])"))
    # the weights an unscented filter really uses: a huge negative centre weight and 2n equal positive ones (sum 1), for the whole legal
    # range of the spread parameter alpha; the sigma angles are symmetric about the centre, so the mean is the centre - also on the seam
    for _ in range(run.n(120, 1500)):
        nx = rng.choice([2, 6, 6, 9])
        alpha = rng.choice([1e-3, 1e-3, 1e-4, 5e-5, 1e-5, 0.5, 1.0])
        lam = alpha**2 * 3.0 - nx
        w0, wi = lam / (nx + lam), 1.0 / (2.0 * (nx + lam))
        centre = rng.choice([0.0, TAU - 1e-7, 1e-7, PI, -PI + 1e-9, TAU, rng.uniform(0, TAU)]) + rng.choice([0, 0, TAU, -3 * TAU])
        spread = [alpha * math.sqrt(3.0) * rng.uniform(1e-5, 1e-3) for _ in range(nx)]
        ang = np.array([centre] + [centre + d for d in spread] + [centre - d for d in spread])
        if rng.random() < 0.7:
            ang = np.mod(ang, TAU)  # as a measurement function reports them: each sigma angle wrapped on its own, so a cluster on the seam is split
        w = np.array([w0] + [wi] * (2 * nx))
        for low, high in ((0.0, TAU), (-PI, PI)):
            m = guarded(M.angularMean, ang.copy(), weights=w.copy(), low=low, high=high)
            run.case("angmean", {"nx": nx, "alpha": alpha, "centre": centre, "low": low}, True, branch="angmean:ukf-weights")
            if m[0] != "ok":
                fails.append(("angmean:raises", m[1]))
                continue
            d = abs(((float(m[1]) - centre + PI) % TAU) - PI)
            # the weighted sum cancels |w0| against 2n w_i: the direction of the resultant is good to about |w0| x machine epsilon
            if d > 1e-9 + 50.0 * abs(w0) * 2.3e-16:
                fails.append(("angmean:ukf-weights", f"mean {float(m[1])!r} of {2 * nx + 1} sigma angles symmetric about {centre!r} with the unscented weights for alpha = {alpha} "
                                                    f"(centre weight {w0:.3g}) in [{low},{high}]: {d:.3g} rad from the centre"))
    return fails


# ----------------------------------------------------------------------------- the real UKF
def sensor_states(lat_deg, lon_deg, alt, when):
    from resonaate.physics.transforms.methods import ecef2eci, lla2ecef

    lla = np.array([math.radians(lat_deg), math.radians(lon_deg), alt])
    ecef = lla2ecef(lla)
    if ecef.shape[0] == 3:
        ecef = np.concatenate([ecef, np.zeros(3)])
    return ecef, ecef2eci(ecef, when)


def target_from_razel(sen_ecef, lat_deg, lon_deg, rng_km, el_deg, az_deg, when, speed=7.0):
    from resonaate.physics.transforms.methods import ecef2eci, razel2sez, sez2ecef

    sez = razel2sez(rng_km, math.radians(el_deg), math.radians(az_deg), 0.0, 0.0, 0.0)
    rel = sez2ecef(sez, math.radians(lat_deg), math.radians(lon_deg))
    eci = ecef2eci(sen_ecef + rel, when)
    v = np.cross([0.0, 0.0, 1.0], eci[:3])
    eci[3:] = v * speed / np.linalg.norm(v)
    return eci


LAYOUTS = {
    "radar": (["azimuth_rad", "elevation_rad", "range_km", "range_rate_km_p_sec"], [1e-8, 1e-8, 1e-6, 1e-10]),
    "optical": (["azimuth_rad", "elevation_rad"], [2.5e-9, 2.5e-9]),
    "radec": (["right_ascension_rad", "declination_rad"], [2.5e-9, 2.5e-9]),
}


def make_obs(kind, sen_eci, truth_eci, when, offset):
    from resonaate.physics.measurements import Measurement
    from resonaate.physics.time.stardate import datetimeToJulianDate

    labels, rdiag = LAYOUTS[kind]
    try:
        meas = Measurement.fromMeasurementLabels(labels, np.diag(rdiag))
    except Exception:  # noqa: BLE001  (a layout the tree does not support)
        return None
    vals = np.array(list(meas.calculateMeasurement(sen_eci, truth_eci, when, noisy=False).values()), dtype=float)
    vals = vals + np.array(offset[: len(vals)])
    if kind in ("radar", "optical"):
        # the real Observation class, built through its constructor as the sensors do: what the filter reads back from it is what was reported
        from resonaate.data.observation import Observation

        ob = Observation(julian_date=datetimeToJulianDate(when), target_id=10001, sensor_id=60001, sensor_type=kind, sensor_eci=np.asarray(sen_eci, dtype=float),
                         measurement=meas, **{k: float(v) for k, v in zip(labels, vals)})
        got = np.asarray(ob.measurement_states, dtype=float)
        ob.kind = kind
        # what the filter will read back, against what was reported: an angle may come back in another representation (whole turns away), nothing else
        tau = 2 * math.pi
        ob.reported_err = max([abs((g - v + math.pi) % tau - math.pi) if a.name != "NOT_ANGLE" else abs(g - v)
                               for g, v, a in zip(got, vals, meas.angular_values)] + [0.0])
        ob.reported_vals = [float(v) for v in vals]
        ob.readback_vals = [float(g) for g in got]
        return ob
    return SimpleNamespace(
        measurement=meas, sensor_eci=sen_eci, r_matrix=meas.r_matrix, dim=len(labels),
        julian_date=datetimeToJulianDate(when), measurement_states=vals, kind=kind,
    )


def with_states(o, vals):
    """the same observation reporting other values: a real Observation is rebuilt through its constructor (the values are its columns)"""
    if isinstance(o, SimpleNamespace):
        o.measurement_states = vals
        return o
    from resonaate.data.observation import Observation

    labels = list(o.measurement.labels)
    ob = Observation(julian_date=o.julian_date, target_id=o.target_id, sensor_id=o.sensor_id, sensor_type=o.sensor_type,
                     sensor_eci=np.asarray(o.sensor_eci, dtype=float), measurement=o.measurement, **{k: float(v) for k, v in zip(labels, vals)})
    ob.kind = o.kind
    return ob


def report_oracle(c):
    """an Observation built with reported angles hands the filter those angles, up to whole turns (linear components exactly)"""
    from resonaate.data.observation import Observation
    from resonaate.physics.measurements import Measurement

    labels, rdiag = LAYOUTS[c["kind"]]

    def f():
        meas = Measurement.fromMeasurementLabels(labels, np.diag(rdiag))
        vals = [c["az"], c["el"], 36000.0, 0.07][: len(labels)]
        ob = Observation(julian_date=2459304.5, target_id=10001, sensor_id=60001, sensor_type=c["kind"], sensor_eci=np.array([7000.0, 0, 0, 0, 7.5, 0]),
                         measurement=meas, **{k: float(v) for k, v in zip(labels, vals)})
        got = [float(g) for g in np.asarray(ob.measurement_states, dtype=float)]
        return vals, got, [a.name != "NOT_ANGLE" for a in meas.angular_values]

    r = guarded(f)
    if r[0] != "ok":
        return [("obs:raises", str(r[1]))]
    vals, got, ang = r[1]
    tau = 2 * math.pi
    for v, g, a in zip(vals, got, ang):
        err = abs((g - v + math.pi) % tau - math.pi) if a else abs(g - v)
        if err > 1e-9:
            return [("obs:reported-angle", f"an observation built with the reported values {vals} hands the filter {got}: not the reported angles up to whole turns (off by {err:.6g} rad)")]
    return []


def new_ukf(est_x, est_p, resample, alpha=None):
    from resonaate.dynamics.two_body import TwoBody
    from resonaate.estimation.kalman.unscented_kalman_filter import UnscentedKalmanFilter
    from resonaate.physics.time.stardate import ScenarioTime

    q = np.diag([1e-12] * 3 + [1e-14] * 3)
    kw = {} if alpha is None else {"alpha": alpha}
    return UnscentedKalmanFilter(10001, ScenarioTime(0.0), est_x.copy(), est_p.copy(), TwoBody(), q, None, False, False, resample=resample, **kw)


def ukf_cases(run: Run):
    rng = run.rng
    out = []
    for _ in range(run.n(40, 500)):
        steps = rng.choice([1, 1, 2, 2, 3])
        hist = []
        for _ in range(steps):
            nobs = rng.choice([1, 1, 2, 2, 3])
            hist.append([rng.choice(["radar", "optical", "optical"]) for _ in range(nobs)])
        out.append(
            {
                "op": "ukf", "hist": hist, "az": rng.choice([0.0, 0.0, 359.99, 0.01, 180.0, 90.0, rng.uniform(0, 360)]),
                "el": rng.choice([20.0, 45.0, 70.0]), "rng": rng.choice([1500.0, 4000.0, 36000.0]),
                "lat": rng.choice([30.0, -45.0, 60.0, 0.0]), "lon": rng.choice([-100.0, 10.0, 179.5]),
                "resample": rng.random() < 0.5, "seed": rng.randint(0, 10**6), "turns": rng.choice([1, -1, 2, 5, 40]),
                "alpha": rng.choice([None, None, 1e-4, 5e-5, 0.5]),
                # (pushed elevations are probed without the filter, op `report` below: a 100 deg innovation makes the update itself meaningless -
                # a LinAlgError there was a false alarm of this harness, seed 3)
                "el_off": 0,
            }
        )
    # what an Observation hands back to the filter, for any reported angles: beyond the zenith, below the nadir, near either seam, whole turns away
    for _ in range(run.n(60, 600)):
        out.append({"op": "report", "kind": rng.choice(["radar", "optical"]),
                    "az": rng.choice([0.0, -1e-7, 6.283185307179586, 6.2832, 3.141592653589793, rng.uniform(-7, 14)]),
                    "el": rng.choice([1.5707963267948966, 1.5725, -1.5709, 1.2, 3.1, -3.0, rng.uniform(-3.5, 3.5)]) + rng.choice([0, 0, 1, -3]) * 6.283185307179586})
    # the history shape that needs care: equal total dimension, different angular layout
    out.append({"op": "ukf", "hist": [["radar"], ["optical", "optical"]], "az": 0.0, "el": 45.0, "rng": 2000.0, "lat": 30.0,
                "lon": -100.0, "resample": False, "seed": 7, "turns": 2})
    return out


def ukf_run(c, variant):
    """variant: dict(turns=k or 0, perm=tuple or None, rewrap=bool).  Returns posterior after every step."""
    PI, TAU = consts()
    rs = np.random.default_rng(c["seed"])
    dt = 60.0
    when0 = START
    sen_ecef, _ = sensor_states(c["lat"], c["lon"], 0.2, when0)
    truth0 = target_from_razel(sen_ecef, c["lat"], c["lon"], c["rng"], c["el"], c["az"], when0 + timedelta(seconds=dt))
    # back-propagate the truth by one step so that the first update happens near the chosen geometry
    from resonaate.dynamics.two_body import TwoBody
    from resonaate.physics.time.stardate import ScenarioTime

    dyn = TwoBody()
    truth = dyn.propagate(ScenarioTime(dt), ScenarioTime(0.0), truth0) if False else truth0.copy()
    est_p = np.diag([1e-2] * 3 + [1e-6] * 3)
    est_x = truth + rs.normal(0, 1, 6) * np.sqrt(np.diag(est_p)) * 0.5
    f = new_ukf(est_x, est_p, c["resample"], c.get("alpha"))
    res = []
    t = 0.0
    for k, layout in enumerate(c["hist"]):
        t += dt
        when = START + timedelta(seconds=t)
        truth = dyn.propagate(ScenarioTime(t - dt), ScenarioTime(t), truth)
        _, sen_eci = sensor_states(c["lat"], c["lon"], 0.2, when)
        obs = []
        for j, kind in enumerate(layout):
            off = rs.normal(0, 1, 4) * np.array([1e-4, 1e-4, 1e-3, 1e-5])
            if c.get("el_off") and k == len(c["hist"]) - 1:
                off[1] += math.radians(c["el_off"])  # a reported elevation carried past its nominal range by noise (a pass near the zenith)
            o = make_obs(kind, sen_eci, truth, when, off)
            obs.append(o)
        last = k == len(c["hist"]) - 1
        if last and variant.get("turns"):
            for n_, o in enumerate(obs):
                ang = [a.name != "NOT_ANGLE" for a in o.measurement.angular_values]
                obs[n_] = with_states(o, np.asarray(o.measurement_states, dtype=float) + np.array([variant["turns"] * TAU if a else 0.0 for a in ang]))
        if last and variant.get("rewrap"):
            for n_, o in enumerate(obs):
                vals = np.asarray(o.measurement_states, dtype=float).copy()
                for i, a in enumerate(o.measurement.angular_values):
                    if a.name == "ANGLE_0_2PI" and vals[i] > PI:
                        vals[i] -= TAU  # same direction, represented on (-pi, pi]
                    elif a.name == "ANGLE_0_2PI" and vals[i] < 0:
                        vals[i] += TAU
                obs[n_] = with_states(o, vals)
        if last and variant.get("perm") is not None and len(obs) > 1:
            obs = [obs[i] for i in variant["perm"][: len(obs)] if i < len(obs)]
        f.predict(ScenarioTime(t))
        f.update(obs)
        ang_flags = np.concatenate([[a.name != "NOT_ANGLE" for a in o.measurement.angular_values] for o in obs])
        res.append({"est_x": f.est_x.copy(), "est_p": f.est_p.copy(), "innovation": np.array(f.innovation, dtype=float).copy(),
                    "ang": ang_flags, "is_angular": np.array(f.is_angular, dtype=bool).copy(), "kinds": [o.kind for o in obs],
                    "reported_err": max([getattr(o, "reported_err", 0.0) for o in obs] + [0.0]),
                    "reported": [(getattr(o, "reported_vals", None), getattr(o, "readback_vals", None)) for o in obs]})
    return res


def ukf_oracle(run: Run, c):
    PI, TAU = consts()
    fails = []
    base = guarded(ukf_run, c, {})
    if base[0] != "ok":
        return [("ukf:raises", f"{base[1]}")]
    b = base[1][-1]
    nlast = len(c["hist"][-1])
    run.count(f"ukf:layout:{'+'.join(c['hist'][-1])}")
    if len(c["hist"]) > 1:
        run.count("ukf:multi-step")
    for st in base[1]:
        if st.get("reported_err", 0.0) > 1e-9:
            fails.append(("obs:reported-angle", f"an observation built with the reported values {st['reported'][0][0]} hands the filter {st['reported'][0][1]}: "
                                                f"not the reported angles up to whole turns (off by {st['reported_err']:.6g} rad)"))
            break
    if not np.array_equal(b["is_angular"], b["ang"]):
        fails.append(("ukf:angular-flags", f"filter treats components {b['is_angular'].tolist()} as angular, the stacked measurement has {b['ang'].tolist()}"))
    for i, (nu, a) in enumerate(zip(b["innovation"], b["ang"])):
        if a and not (-PI < nu <= PI):
            fails.append(("ukf:innovation-range", f"angular innovation {nu} outside (-pi, pi]"))
    scale = max(1.0, float(np.abs(b["est_x"]).max()))

    def same(r, what):
        r = r[-1]
        dx = float(np.abs(r["est_x"] - b["est_x"]).max())
        dp = float(np.abs(r["est_p"] - b["est_p"]).max() / max(1e-300, np.abs(b["est_p"]).max()))
        run.worse(f"ukf:{what}:dx", dx / scale)
        run.worse(f"ukf:{what}:dp", dp)
        if dx > 1e-6 * scale or dp > 1e-6:
            fails.append((f"ukf:{what}", f"posterior changes under {what}: |dx| {dx:.3g} km, relative |dP| {dp:.3g} (history {c['hist']}, az {c['az']})"))

    v = guarded(ukf_run, c, {"turns": c["turns"]})
    same(v[1], "turns") if v[0] == "ok" else fails.append(("ukf:raises", v[1]))
    v = guarded(ukf_run, c, {"rewrap": True})
    same(v[1], "wrap-point") if v[0] == "ok" else fails.append(("ukf:raises", v[1]))
    if nlast > 1:
        perms = list(itertools.permutations(range(nlast)))[1:]
        for p in perms[: (2 if run.quick() else 6)]:
            v = guarded(ukf_run, c, {"perm": p})
            same(v[1], "reorder") if v[0] == "ok" else fails.append(("ukf:raises", v[1]))
    return fails


# ----------------------------------------------------------------------------- driver
def run_all(run: Run, scal, ukfs):
    impls = [guarded(scalar_impl, c) for c in scal]
    outs = run.model([scalar_line(c) for c in scal])
    PI, TAU = consts()
    for idx, (c, i) in enumerate(zip(scal, impls)):
        seam = abs((c["a"] / PI) - round(c["a"] / PI)) < 1e-9
        run.case(c["op"], c, nontrivial=abs(c["a"]) > PI or seam, branch="seam" if seam else "interior")
        if outs is not None:
            run.model_compared += 1
            mo = outs[idx]
            if mo == "bad-op" or i[0] != "ok":
                run.disagree(c["op"], c, i, mo)
            else:
                m = Fraction(mo)
                mag = max(abs(c["a"]), abs(c.get("b", 0.0)), 1.0)
                tol = 1e-13 + 4e-16 * mag
                d = abs(i[1] - float(m))
                if d > tol:
                    # rounding at a wrap boundary may pick the other representative of the same direction
                    if abs(d - TAU) <= tol * 8 and (abs(abs(float(m)) - PI) < 1e-9 or abs(float(m)) < 1e-9 or abs(float(m) - TAU) < 1e-9):
                        run.boundary_skips += 1
                    else:
                        run.disagree(c["op"], c, i[1], float(m))
                else:
                    run.worse(c["op"], d)
        for key, what in scalar_oracle(run, c, i):
            run.fail(key, c, what)
    for key, what in mean_oracle(run):
        run.fail(key, {"op": "angmean"}, what)
    for c in ukfs:
        if c["op"] == "report":
            run.case("report", c, nontrivial=True, branch=c["kind"])
            for key, what in report_oracle(c):
                run.fail(key, c, what)
            continue
        run.case("ukf", c, nontrivial=True, branch=f"steps={len(c['hist'])}")
        for key, what in ukf_oracle(run, c):
            run.fail(key, c, what)


def search(run: Run):
    sub = Run.__new__(Run)
    sub.__dict__.update(run.__dict__)
    sub.rng = __import__("random").Random(run.seed + 17)
    sub.tier = "thorough"
    for c in scalar_cases(sub)[:6000]:
        f = scalar_oracle(run, c, guarded(scalar_impl, c))
        if f:
            return (f[0][0], c, f[0][1])
    f = mean_oracle(sub)
    if f:
        return (f[0][0], {"op": "angmean"}, f[0][1])
    for c in ukf_cases(sub)[:150]:
        f = ukf_oracle(run, c)
        if f:
            return (f[0][0], c, f[0][1])
    return None


def main():
    run = Run(
        PID,
        ["RV.Props.C16", "RV.Bridge.Maths", "RV.Bridge.MathsProps"],
        ["RV/Model/Angles.lean"],
        "Lean 4 theorems (floor/fmod algebra over the rationals with the code's own PI/TWOPI constants; matrix algebra for the "
        "permutation invariance of the update); differential correspondence of the scalar and vector helpers; metamorphic runs "
        "of the real UKF (whole turns, wrap point, observation order, multi-step layouts)",
        trusted_extra=[
            "numpy fmod/remainder/% semantics are mirrored by the model and compared to 1e-13; sin/cos/arctan2 of angularMean are library calls (metamorphic checks only)",
            "the UKF-level invariances are evaluated on the real filter (two-body dynamics, real Measurement objects); the theorem covers the update algebra",
        ],
    )
    run.rule = (
        "scalar helpers: seam values (0, +-pi, +-2pi +- ulps), many-turn offsets up to 1e6 turns, tiny and dyadic values; "
        "non-trivial = |angle| > pi or on a seam. UKF: 1-3 step histories of 1-3 stacked radar/optical observations, azimuth on/off the "
        "north seam, with/without sigma-point redraw"
    )
    run.assumptions = [
        "floating-point: helper outputs are compared to the exact rational model to 1e-13 + 4e-16*|input|; a result within rounding of a "
        "wrap boundary may legitimately be the other representative (boundary skip)",
        "posterior equality under reordering / turns / wrap point is required to 1e-6 relative",
    ]
    run.lean_phase()
    if run.args.replay:
        rp = json.loads(Path(run.args.replay).read_text())
        c = rp["case"]
        if rp.get("kind") == "failing-input" and c.get("op") in ("ukf", "report"):
            run_all(run, [], [c])
        elif rp.get("kind") == "failing-input" and c.get("op") != "angmean":
            run_all(run, [c], [])
        else:
            run_all(run, scalar_cases(run), ukf_cases(run))
    else:
        run_all(run, list(corpus(PID)) + scalar_cases(run), ukf_cases(run))
    run.finish(search)


if __name__ == "__main__":
    main_guard(main)
