"""C04 - reference-frame conversions are exact inverses, rigid, and continuous in time."""
from __future__ import annotations

import json
import math
import os
import sys
import time
from datetime import datetime, timedelta
from fractions import Fraction
from pathlib import Path

sys.path.insert(0, str(Path(__file__).resolve().parent))
import numpy as np
from common import Run, Toks, close, corpus, fmt, frac, guarded, main_guard

PID = "C04"


def fl(xs):
    return " ".join(fmt(x) for x in xs)


def flat(m):
    return [float(x) for x in np.asarray(m, dtype=float).reshape(-1)]


def rand_date(rng, boundary=True):
    """an instant with Earth-orientation data (the table covers 2014-01-01 .. 2022-10-04), biased to calendar boundaries"""
    y = rng.randint(2015, 2021)
    if boundary and rng.random() < 0.6:
        kind = rng.choice(["minute", "day", "month", "leap", "year"])
        if kind == "minute":
            base = datetime(y, rng.randint(1, 12), rng.randint(1, 28), rng.randint(0, 23), rng.randint(0, 59), 0)
        elif kind == "day":
            base = datetime(y, rng.randint(1, 12), rng.randint(2, 28), 0, 0, 0)
        elif kind == "month":
            base = datetime(y, rng.randint(2, 12), 1, 0, 0, 0)
        elif kind == "leap":
            ly = rng.choice([2016, 2020])
            base = rng.choice([datetime(ly, 2, 29, 0, 0, 0), datetime(ly, 3, 1, 0, 0, 0), datetime(y, 3, 1, 0, 0, 0)])
        else:
            base = datetime(rng.randint(2016, 2022), 1, 1, 0, 0, 0)
        off = rng.choice([0.0, -1.0, 1.0, -0.5, 0.5, -0.2, 0.3, -0.7, 0.9, -60.0, 59.0])
        return base + timedelta(seconds=off)
    y = rng.randint(2014, 2022)
    return datetime(y, rng.randint(1, 9 if y == 2022 else 12), rng.randint(1, 28), rng.randint(0, 23), rng.randint(0, 59), rng.randint(0, 59), rng.choice([0, 0, 250000, 500000]))


def rand_state(rng, lo=6600.0, hi=45000.0):
    v = np.array([rng.gauss(0, 1) for _ in range(3)])
    r = v / np.linalg.norm(v) * rng.uniform(lo, hi)
    u = np.cross(r, [rng.gauss(0, 1) for _ in range(3)])
    u = u / np.linalg.norm(u) * rng.uniform(1.0, 8.0) + r / np.linalg.norm(r) * rng.uniform(-1, 1)
    return [round(float(x) * 256) / 256 for x in r] + [round(float(x) * 65536) / 65536 for x in u]


def int_state(rng, big=9000):
    """a whole-number state with a well-defined orbit plane (position and velocity not aligned, neither zero)"""
    while True:
        r = [rng.randint(-big, big) for _ in range(3)]
        v = [rng.randint(-8, 8) for _ in range(3)]
        if np.linalg.norm(r) > 500 and np.linalg.norm(v) >= 1 and np.linalg.norm(np.cross(r, v)) > 500:
            return [float(x) for x in r + v]


def cases(run: Run):
    rng = run.rng
    out = list(corpus(PID))
    for _ in range(run.n(150, 2000)):
        out.append({"op": "rot", "k": rng.randint(1, 3), "angle": rng.choice([0.0, 0.5, -1.25, math.pi, rng.uniform(-7, 7)])})
        out.append({"op": "skew", "w": [rng.randint(-9, 9) / rng.choice([1, 2, 4]) for _ in range(3)], "k": rng.randint(1, 3), "angle": rng.uniform(-3, 3),
                    "v": [rng.randint(-9, 9) for _ in range(3)]})
    for _ in range(run.n(150, 2000)):
        out.append({"op": "ecef", "date": rand_date(rng).isoformat(), "x": rand_state(rng)})
    for _ in range(run.n(60, 600)):
        d = rand_date(rng)
        out.append({"op": "history", "dates": [(d + timedelta(seconds=s)).isoformat() for s in rng.sample([0.0, 0.5, 0.25, 1.0, 0.75, 60.0, 0.1], 4)], "x": rand_state(rng)})
    for _ in range(run.n(150, 1500)):
        out.append({"op": "sez", "lat": rng.choice([0.0, 89.9, -89.9, 45.0, rng.uniform(-90, 90)]), "lon": rng.choice([0.0, 180.0, -180.0, 179.999, rng.uniform(-180, 180)]), "x": rand_state(rng, 100, 40000)})
        out.append({"op": "sph", "x": rand_state(rng, 100, 40000)})
        out.append({"op": "rsw", "t": rand_state(rng), "c": rand_state(rng)})
        if rng.random() < 0.25:
            # whole-number states handed over as integer arrays (basis vectors, offsets in whole km, values read from JSON):
            # legal inputs of the rotation-only conversions, whose answers must still be real-valued rotations
            out.append({"op": "sez", "int": True, "lat": rng.uniform(-90, 90), "lon": rng.uniform(-180, 180),
                        "x": int_state(rng, 40000)})
            out.append({"op": "rsw", "int": True, "t": int_state(rng), "c": int_state(rng)})
        out.append({"op": "lla", "lat": rng.choice([0.0, 90.0, -90.0, 45.0, rng.uniform(-90, 90)]), "lon": rng.choice([0.0, 180.0, -180.0, rng.uniform(-180, 180)]), "alt": rng.choice([0.0, 0.5, 800.0, 36000.0, -0.1])})
        out.append({"op": "razel", "date": rand_date(rng).isoformat(), "obs": rand_state(rng, 6378.2, 6400.0), "tgt": rand_state(rng)})
        if rng.random() < 0.5:
            out[-1]["nb"] = [rng.uniform(-40, 40) for _ in range(3)]
    for _ in range(run.n(200, 3000)):
        y = rng.choice([1900, 2000, 2016, 2020, 2021, 2023, 2024, 2100, rng.randint(1901, 2099)])
        m = rng.randint(1, 12)
        out.append({"op": "doy", "y": y, "m": m, "d": rng.choice([1, 28, 29, 30, 31, rng.randint(1, 28)]), "h": rng.randint(0, 23), "mi": rng.randint(0, 59), "s": rng.choice([0.0, 59.0, 30.5, rng.randint(0, 59) + 0.25])})
    for _ in range(run.n(100, 1000)):
        out.append({"op": "gast", "y": rng.randint(1995, 2055), "days": rng.choice([0.0, 365.0, 59.0, 60.0, rng.randint(0, 365) + rng.randint(0, 86399) / 86400.0]), "eqe": rng.uniform(-1e-4, 1e-4)})
    # rotation continuity across boundaries (implementation oracle only)
    for _ in range(run.n(150, 2500)):
        out.append({"op": "spin", "date": rand_date(rng).isoformat(), "delta": rng.choice([0.5, 1.0, 0.1, 60.0, 2.0])})
    for yb in range(2015, 2023):
        for off in ([-0.9, -0.6, -0.3, -0.1, 0.0, 0.1, 0.3, 0.6, 0.9] if run.quick() else [x / 10 for x in range(-20, 21)]):
            out.append({"op": "spin", "date": (datetime(yb, 1, 1) + timedelta(seconds=off)).isoformat(), "delta": rng.choice([0.05, 0.5, 1.0])})
    out += dst_switch_cases()
    return out


def dst_switch_cases():
    """the check runs in a time zone with daylight saving (see main): rotation probes around the naive clock times at which that zone switches"""
    out = []
    for y in range(2015, 2022):  # the Earth-orientation table ends on 2022-10-04
        mar = next(datetime(y, 3, d) for d in range(8, 15) if datetime(y, 3, d).weekday() == 6)
        nov = next(datetime(y, 11, d) for d in range(1, 8) if datetime(y, 11, d).weekday() == 6)
        for base in (mar, nov):
            for hh in (1, 2, 3):
                out.append({"op": "spin", "date": (base + timedelta(hours=hh) - timedelta(seconds=0.5)).isoformat(), "delta": 1.0})
    return out


def valid_date(c):
    try:
        datetime(c["y"], c["m"], c["d"])
        return True
    except ValueError:
        return False


# ----------------------------------------------------------------------------- the real code
def red(dt):
    from resonaate.physics.transforms.reductions import ReductionParams

    return ReductionParams.build(dt)


def om_of(r):
    from resonaate.physics import constants as const
    from resonaate.physics.bodies.earth import Earth

    return float(Earth.spin_rate * (1 - r.lod / const.DAYS2SEC))


def impl_case(c):
    from resonaate.physics import maths as M
    from resonaate.physics.time import conversions as TC
    from resonaate.physics.transforms import methods as T

    op = c["op"]
    if op == "rot":
        f = {1: M.rot1, 2: M.rot2, 3: M.rot3}[c["k"]]
        return {"m": flat(f(c["angle"])), "cs": [float(np.cos(c["angle"])), float(np.sin(c["angle"]))]}
    if op == "skew":
        w = np.array(c["w"], dtype=float)
        f = {1: M.dotRot1, 2: M.dotRot2, 3: M.dotRot3}[c["k"]]
        return {"skew": flat(M.skewSymmetric(w)), "dot": flat(f(c["angle"], w)), "cs": [float(np.cos(c["angle"])), float(np.sin(c["angle"]))],
                "sv": flat(M.skewSymmetric(w) @ np.array(c["v"], dtype=float))}
    if op == "ecef":
        dt = datetime.fromisoformat(c["date"])
        x = np.array(c["x"])
        e = T.eci2ecef(x, dt)
        back = T.ecef2eci(e, dt)
        e2 = T.ecef2eci(x, dt)
        back2 = T.eci2ecef(e2, dt)
        r = red(dt)
        return {"ecef": flat(e), "back": flat(back), "eci": flat(e2), "back2": flat(back2), "rnp": flat(r.rot_rnp), "pnr": flat(r.rot_pnr), "w": flat(r.rot_w), "om": om_of(r)}
    if op == "history":
        x = np.array(c["x"])
        outs = []
        for ds in c["dates"]:
            dt = datetime.fromisoformat(ds)
            e = T.eci2ecef(x, dt)
            b = T.ecef2eci(e, dt)
            r = red(dt)
            outs.append({"ecef": flat(e), "back": flat(b), "rnp": flat(r.rot_rnp), "pnr": flat(r.rot_pnr), "w": flat(r.rot_w), "om": om_of(r)})
        return outs
    if op == "sez":
        lat, lon = math.radians(c["lat"]), math.radians(c["lon"])
        x = np.array([int(v) for v in c["x"]]) if c.get("int") else np.array(c["x"])
        s = T.ecef2sez(x, lat, lon)
        b = T.sez2ecef(s, lat, lon)
        return {"sez": flat(s), "back": flat(b), "trig": [float(np.cos(lon)), float(np.sin(lon)), float(np.cos(lat - np.pi / 2)), float(np.sin(lat - np.pi / 2))],
                "fwd": flat(T.sez2ecef(x, lat, lon))}
    if op == "sph":
        x = np.array(c["x"])
        sp = T.cartesian2spherical(x)
        back = T.spherical2cartesian(*sp)
        rz = T.sez2razel(x)
        back2 = T.razel2sez(*rz)
        return {"sph": [float(v) for v in sp], "back": flat(back), "razel": [float(v) for v in rz], "back2": flat(back2)}
    if op == "rsw":
        t, ch = np.array(c["t"]), np.array(c["c"])
        if c.get("int"):
            t, ch = np.array([int(v) for v in c["t"]]), np.array([int(v) for v in c["c"]])
        rel = T.eci2rsw(t, ch)
        back = T.rsw2eci(t, rel)
        ntw = T.ntw2eci(t, rel)
        return {"rel": flat(rel), "back": flat(back), "ntw": flat(ntw), "nr": float(np.linalg.norm(t[:3])), "nv": float(np.linalg.norm(t[3:])), "nh": float(np.linalg.norm(np.cross(t[:3], t[3:])))}
    if op == "lla":
        from resonaate.physics.bodies.earth import Earth

        lla = np.array([math.radians(c["lat"]), math.radians(c["lon"]), c["alt"]])
        e = T.lla2ecef(lla)
        back = T.ecef2lla(e)
        lat, lon = lla[0], lla[1]
        N = float(Earth.radius / np.sqrt(1 - Earth.eccentricity**2 * np.sin(lat) ** 2))
        return {"ecef": flat(e)[:3], "back": [float(v) for v in back], "trig": [float(np.cos(lat)), float(np.sin(lat)), float(np.cos(lon)), float(np.sin(lon))], "N": N,
                "e2": float(Earth.eccentricity**2), "a": float(Earth.radius)}
    if op == "razel":
        dt = datetime.fromisoformat(c["date"])
        obs, tgt = np.array(c["obs"]), np.array(c["tgt"])
        if c.get("nb"):
            # another observer a few tens of metres away (a neighbouring dome) is converted just before this one
            nb = obs.copy()
            nb[:3] += np.array(c["nb"]) / 1000.0
            T.eci2razel(tgt, nb, dt)
        rz = T.eci2razel(tgt, obs, dt)
        oe, te = T.eci2ecef(obs, dt), T.eci2ecef(tgt, dt)
        lla = T.ecef2lla(oe)
        extra = {"obs_ecef": flat(oe)[:3], "tgt_ecef": flat(te)[:3], "lat": float(lla[0]), "lon": float(lla[1])}
        rd = T.razel2radec(*rz, observer_eci=obs, utc_date=dt)
        rz2 = T.radec2razel(*rd, observer_eci=obs, utc_date=dt)
        rd2 = T.eci2radec(tgt, obs, dt)
        return {"razel": [float(v) for v in rz], "radec": [float(v) for v in rd], "razel2": [float(v) for v in rz2], "radec2": [float(v) for v in rd2], **extra}
    if op == "doy":
        return {"doy": float(TC.dayOfYear(c["y"], c["m"], c["d"], c["h"], c["mi"], c["s"]))}
    if op == "gast":
        from resonaate.physics.time.stardate import JulianDate

        jd = JulianDate.getJulianDate(c["y"], 1, 1, 0, 0, 0)
        return {"gast": float(TC.greenwichApparentTime(c["y"], c["days"], c["eqe"])), "gmst": float(TC.greenwichMeanTime(jd)), "jd": float(jd)}
    if op == "spin":
        from resonaate.physics.transforms.eops import getEarthOrientationParameters

        dt = datetime.fromisoformat(c["date"])
        dt2 = dt + timedelta(seconds=c["delta"])
        x = np.array([42164.0, 0.0, 0.0, 0.0, 3.0746, 0.0])
        e1, e2 = T.eci2ecef(x, dt), T.eci2ecef(x, dt2)
        a1, a2 = math.atan2(e1[1], e1[0]), math.atan2(e2[1], e2[0])
        eo1, eo2 = getEarthOrientationParameters(dt.date()), getEarthOrientationParameters(dt2.date())
        return {"a1": a1, "dtheta": a1 - a2, "dut1": [float(eo1.delta_ut1), float(eo2.delta_ut1)], "eqe": [float(red(dt).eq_equinox), float(red(dt2).eq_equinox)]}
    raise KeyError(op)


def sph_dc(sp):
    rho, th, ph, rd, thd, phd = sp
    return [rho, math.cos(th), math.sin(th), math.cos(ph), math.sin(ph), rd, thd, phd]


def model_lines(c, i):
    op = c["op"]
    if op == "rot":
        return [f"fr.rot {c['k']} {fl(i['cs'])}"]
    if op == "skew":
        return [f"fr.skew {fl(c['w'])}", f"fr.dotrot {c['k']} {fl(i['cs'])} {fl(c['w'])}"]
    if op == "ecef":
        return [f"fr.eci2ecef {fl(i['rnp'])} {fl(i['w'])} {fmt(i['om'])} {fl(c['x'])}", f"fr.ecef2eci {fl(i['pnr'])} {fl(i['w'])} {fmt(i['om'])} {fl(c['x'])}"]
    if op == "history":
        return [f"fr.eci2ecef {fl(s['rnp'])} {fl(s['w'])} {fmt(s['om'])} {fl(c['x'])}" for s in i]
    if op == "sez":
        return [f"fr.ecef2sez {fl(i['trig'])} {fl(c['x'])}", f"fr.sez2ecef {fl(i['trig'])} {fl(c['x'])}"]
    if op == "sph":
        x = c["x"]
        rng = math.sqrt(sum(v * v for v in x[:3]))
        t1 = math.sqrt(x[0] ** 2 + x[1] ** 2)
        return [f"fr.cart2sph {fl(x)} {fmt(rng)} {fmt(t1)}", f"fr.sph2cart {fl(sph_dc(i['sph']))}", f"fr.razel2sez {fl(sph_dc(i['razel']))}"]
    if op == "rsw":
        return [f"fr.eci2rsw {fl(c['t'])} {fl(c['c'])} {fmt(i['nr'])} {fmt(i['nh'])}", f"fr.rsw2eci {fl(c['t'])} {fl(i['rel'])} {fmt(i['nr'])} {fmt(i['nh'])}",
                f"fr.ntw2eci {fl(c['t'])} {fl(i['rel'])} {fmt(i['nv'])} {fmt(i['nh'])}"]
    if op == "lla":
        return [f"fr.lla2ecef {fmt(i['e2'])} {fmt(i['N'])} {fl(i['trig'])} {fmt(c['alt'])}"]
    if op == "doy":
        return [f"fr.doy {c['y']} {c['m']} {c['d']} {c['h']} {c['mi']} {fmt(c['s'])}"]
    if op == "gast":
        return [f"fr.gast {c['y']} {fmt(c['days'])} {fmt(c['eqe'])}", f"fr.gmst {fmt(i['jd'])}"]
    return []


def vec_close(a, b, tol, scale=None):
    a, b = np.array(a, dtype=float), np.array([float(x) for x in b])
    s = scale if scale is not None else max(1.0, float(np.abs(b).max()))
    return bool(np.all(np.abs(a - b) <= tol * s)), float(np.abs(a - b).max() / s)


def ang_close(a, b, tol):
    d = abs(a - b) % (2 * math.pi)
    return min(d, 2 * math.pi - d) <= tol


def compare(run: Run, c, i, mo):
    """model vs implementation; returns description of the first disagreement or None"""
    op = c["op"]
    if any(m == "bad-op" for m in mo):
        return f"model rejected: {mo}"
    T = [Toks(m) for m in mo]

    def vec(t, n):
        return [t.rat() for _ in range(n)]

    if op == "rot":
        if [Fraction(x) for x in map(frac, i["m"])] != vec(T[0], 9):
            return "rotation matrix entries differ"
    elif op == "skew":
        if [frac(x) for x in i["skew"]] != vec(T[0], 9):
            return "skewSymmetric entries differ"
        ok, e = vec_close(i["dot"], vec(T[1], 9), 1e-14)
        run.worse("dotRot", e)
        if not ok:
            return "dotRot differs"
    elif op == "ecef":
        for key, t in (("ecef", T[0]), ("eci", T[1])):
            ok, e = vec_close(i[key], vec(t, 6), 1e-11)
            run.worse(key, e)
            if not ok:
                return f"{key} differs from the model (rel {e:.3g})"
    elif op == "history":
        for k, (s, t) in enumerate(zip(i, T)):
            ok, e = vec_close(s["ecef"], vec(t, 6), 1e-11)
            run.worse("history", e)
            if not ok:
                return f"conversion {k} at {c['dates'][k]} differs from the model built from that instant's reduction (rel {e:.3g})"
    elif op == "sez":
        for key, t in (("sez", T[0]), ("fwd", T[1])):
            ok, e = vec_close(i[key], vec(t, 6), 1e-12)
            run.worse("sez", e)
            if not ok:
                return f"{key} differs"
    elif op == "sph":
        m = vec(T[0], 8)
        got = sph_dc(i["sph"])
        ok, e = vec_close(got, m, 1e-10, scale=None)
        # direction cosines and rates individually
        for g, w in zip(got, m):
            if not close(g, w, 1e-9) and abs(g - float(w)) > 1e-12:
                return f"cartesian2spherical differs: {g} vs {float(w)}"
        for key, t in (("back", T[1]), ("back2", T[2])):
            ok, e = vec_close(i[key], vec(t, 6), 1e-11)
            run.worse("sph", e)
            if not ok:
                return f"{key} differs"
    elif op == "rsw":
        for key, t in (("rel", T[0]), ("back", T[1]), ("ntw", T[2])):
            ok, e = vec_close(i[key], vec(t, 6), 1e-10)
            run.worse("rsw", e)
            if not ok:
                return f"{key} differs"
    elif op == "lla":
        ok, e = vec_close(i["ecef"], vec(T[0], 3), 1e-13)
        run.worse("lla", e)
        if not ok:
            return "lla2ecef differs"
    elif op == "doy":
        m = T[0].rat()
        ref = T[0].int()
        if not close(i["doy"], m, 1e-13):
            return f"dayOfYear {i['doy']} vs model {float(m)}"
        if valid_date(c) and math.floor(i["doy"]) != ref:
            return f"day of year {i['doy']} but the civil calendar gives {ref}"
    elif op == "gast":
        g = T[0].rat()
        if not ang_close(i["gast"], float(g), 2e-9):
            return f"GAST {i['gast']} vs model {float(g)}"
        gm = T[1].rat()
        if not ang_close(i["gmst"], float(gm), 2e-9):
            return f"GMST {i['gmst']} vs model {float(gm)}"
        run.worse("gast", min(abs(i["gast"] - float(g)), 1.0))
    return None


def oracle(run: Run, c, impl):
    op = c["op"]
    if impl[0] != "ok":
        return [(f"{op}:raises", f"{impl[1]}")]
    i = impl[1]
    fails = []

    def chk(name, a, b, tol, scale=None):
        ok, e = vec_close(a, b, tol, scale)
        run.worse(f"oracle:{name}", e)
        if not ok:
            fails.append((f"{op}:{name}", f"{name}: relative error {e:.3g} (case {op})"))

    if op == "skew":
        w, v = np.array(c["w"]), np.array(c["v"], dtype=float)
        chk("skew-is-cross", i["sv"], np.cross(w, v), 1e-14)
        S = np.array(i["skew"]).reshape(3, 3)
        if not np.array_equal(S, -S.T):
            fails.append(("skew:antisymmetric", f"skewSymmetric({c['w']}) is not antisymmetric"))
    elif op == "rot":
        Rm = np.array(i["m"]).reshape(3, 3)
        chk("orthogonal", (Rm @ Rm.T).reshape(-1), np.eye(3).reshape(-1), 1e-14)
    elif op == "ecef":
        x = c["x"]
        chk("inverse", i["back"], x, 1e-11)
        chk("inverse2", i["back2"], x, 1e-11)
        chk("length", [np.linalg.norm(i["ecef"][:3])], [np.linalg.norm(x[:3])], 1e-12)
    elif op == "history":
        for s in i:
            chk("inverse", s["back"], c["x"], 1e-11)
    elif op == "sez":
        chk("inverse", i["back"], c["x"], 1e-12)
        chk("length", [np.linalg.norm(i["sez"][:3]), np.linalg.norm(i["sez"][3:])], [np.linalg.norm(c["x"][:3]), np.linalg.norm(c["x"][3:])], 1e-13)
    elif op == "sph":
        chk("inverse", i["back"], c["x"], 1e-11)
        chk("razel-inverse", i["back2"], c["x"], 1e-11)
        chk("range", [i["sph"][0]], [np.linalg.norm(c["x"][:3])], 1e-14)
        if not (0 <= i["sph"][2] < 2 * math.pi + 1e-15) or not (-math.pi / 2 <= i["sph"][1] <= math.pi / 2):
            fails.append(("sph:range", f"angles out of range {i['sph'][1:3]}"))
    elif op == "rsw":
        d = np.array(c["c"]) - np.array(c["t"])
        chk("inverse", i["back"], d, 1e-10)
        chk("length", [np.linalg.norm(i["rel"][:3]), np.linalg.norm(i["rel"][3:])], [np.linalg.norm(d[:3]), np.linalg.norm(d[3:])], 1e-12)
        chk("ntw-length", [np.linalg.norm(i["ntw"][:3])], [np.linalg.norm(i["rel"][:3])], 1e-12)
        t = np.array(c["t"])
        # radial component of the separation is its projection on the position direction
        chk("radial", [i["rel"][0]], [float(d[:3] @ t[:3] / np.linalg.norm(t[:3]))], 1e-10, scale=max(1.0, np.linalg.norm(d[:3])))
    elif op == "lla":
        a, e2 = i["a"], i["e2"]
        x, y, z = i["ecef"]
        if c["alt"] == 0.0:
            val = (x * x + y * y) / a**2 + z * z / (a**2 * (1 - e2))
            run.worse("oracle:ellipsoid", abs(val - 1))
            if abs(val - 1) > 1e-13:
                fails.append(("lla:ellipsoid", f"lla2ecef at zero altitude is off the ellipsoid by {val - 1:.3g}"))
        lat, lon, alt = i["back"]
        at_pole = abs(abs(c["lat"]) - 90.0) <= 1e-6  # the longitude of a pole is undefined; latitude and height are not
        if abs(lat - math.radians(c["lat"])) > (1e-7 if at_pole else 1e-11) or abs(alt - c["alt"]) > 1e-7 or not (at_pole or ang_close(lon, math.radians(c["lon"]), 1e-11)):
            fails.append(("lla:inverse", f"ecef2lla(lla2ecef({c['lat']},{c['lon']},{c['alt']})) = ({math.degrees(lat)},{math.degrees(lon)},{alt})"))
    elif op == "razel":
        a, b = i["razel"], i["razel2"]
        if not (close(a[0], b[0], 1e-10) and ang_close(a[1], b[1], 1e-10) and ang_close(a[2], b[2], 1e-9)):
            fails.append(("razel:inverse", f"radec2razel(razel2radec(.)) {b[:3]} vs {a[:3]}"))
        a, b = i["radec"], i["radec2"]
        if not (close(a[0], b[0], 1e-10) and ang_close(a[1], b[1], 1e-10) and ang_close(a[2], b[2], 1e-9)):
            fails.append(("razel:compose", "eci2radec differs from razel2radec(eci2razel)"))
        d = np.array(c["tgt"][:3]) - np.array(c["obs"][:3])
        if not close(i["razel"][0], float(np.linalg.norm(d)), 1e-11):
            fails.append(("razel:range", "range is not the distance between the two positions"))
        # range/azimuth/elevation laid off along THIS observer's own horizon axes (south, east, zenith at its geodetic latitude and
        # longitude) from its own position lead back to the target - whatever was converted before
        rho, el, az = i["razel"][:3]  # the code's order: range, elevation, azimuth
        la, lo = i["lat"], i["lon"]
        S, E, Z = -rho * math.cos(el) * math.cos(az), rho * math.cos(el) * math.sin(az), rho * math.sin(el)
        sh = np.array([math.sin(la) * math.cos(lo), math.sin(la) * math.sin(lo), -math.cos(la)])
        eh = np.array([-math.sin(lo), math.cos(lo), 0.0])
        zh = np.array([math.cos(la) * math.cos(lo), math.cos(la) * math.sin(lo), math.sin(la)])
        back = np.array(i["obs_ecef"]) + S * sh + E * eh + Z * zh
        miss = float(np.linalg.norm(back - np.array(i["tgt_ecef"])))
        run.worse("oracle:razel-own-axes", miss)
        if not miss <= 1e-6 + 1e-10 * rho:
            fails.append(("razel:own-axes", f"range/az/el laid off along the observer's own horizon axes end {miss:.6g} km from the target"
                          + (f" (an observer {np.linalg.norm(c['nb']):.0f} m away was converted just before)" if c.get("nb") else "")))
        # the rates as well (an observer that moves in the Earth-fixed frame: aircraft, satellite)
        def rates_close(u, v):
            return all(abs(x - y) <= 1e-9 * max(1.0, abs(x), abs(y)) + 1e-13 for x, y in zip(u[3:6], v[3:6]))

        if not rates_close(i["razel"], i["razel2"]):
            fails.append(("razel:inverse-rates", f"radec2razel(razel2radec(.)) rates {i['razel2'][3:6]} vs {i['razel'][3:6]}"))
        if not rates_close(i["radec"], i["radec2"]):
            fails.append(("razel:compose-rates", f"razel2radec(eci2razel) rates {i['radec'][3:6]} differ from eci2radec {i['radec2'][3:6]}"))
        dv = np.array(c["tgt"][3:6]) - np.array(c["obs"][3:6])
        rho = float(np.linalg.norm(d))
        rho_dot = float(d @ dv) / rho
        pxy = float(d[0] ** 2 + d[1] ** 2)
        own = [rho, 0.0, 0.0, rho_dot, float(dv[2] - rho_dot * d[2] / rho) / math.sqrt(pxy), float(d[0] * dv[1] - d[1] * dv[0]) / pxy]  # range, dec, ra rates
        if pxy > 1.0 and not rates_close(own, i["radec"]):
            fails.append(("razel:radec-rates", f"razel2radec rates {i['radec'][3:6]} are not those of the relative inertial state {own[3:6]}"))
    elif op == "spin":
        from resonaate.physics.bodies.earth import Earth

        delta = c["delta"]
        om = 7.292115146706979e-05  # sidereal rate (rad/s) to first order; the allowance below covers its ppm-level variations
        step_ut1 = i["dut1"][1] - i["dut1"][0]
        step_eqe = i["eqe"][1] - i["eqe"][0]
        expect = om * (delta + step_ut1) + step_eqe
        dth = (i["dtheta"] + math.pi) % (2 * math.pi) - math.pi
        allowed = 5e-9 + 1e-7 * om * delta
        run.worse("oracle:spin", abs(dth - expect))
        run.count("spin:eop-step" if step_ut1 != 0 else "spin:same-eop")
        # the absolute angle: the inertial x axis seen from the Earth lies at minus the sidereal angle, which the 1982 expression gives from
        # the date alone once the general precession in right ascension since J2000 is taken off (nutation, dUT1 and polar motion together stay below 6e-4 rad)
        d0 = datetime.fromisoformat(c["date"])
        jd = d0.toordinal() + 1721424.5 + (d0.hour * 3600 + d0.minute * 60 + d0.second + d0.microsecond * 1e-6) / 86400.0
        tc = (jd - 2451545.0) / 36525.0
        gmst = math.radians(((67310.54841 + (876600.0 * 3600 + 8640184.812866) * tc + 0.093104 * tc * tc - 6.2e-6 * tc**3) % 86400.0) / 240.0)
        off = (-i["a1"] - gmst + 2.2362e-4 * tc * 100.0 + math.pi) % (2 * math.pi) - math.pi  # general precession in right ascension since J2000
        run.worse("oracle:spin-absolute", abs(off))
        if not abs(off) < 6e-4:
            fails.append(("spin:absolute", f"at {c['date']} the Earth-fixed frame is turned {off:.6g} rad from the sidereal angle of that date "
                          f"(process time zone {os.environ.get('TZ')})"))
        if abs(dth - expect) > allowed:
            fails.append(("spin:continuity", f"Earth rotation between {c['date']} and +{delta}s advanced {dth:.9g} rad, expected {expect:.9g} (EOP dUT1 step {step_ut1:.3g}s)"))
    return fails


def run_cases(run: Run, cs):
    impls = [guarded(impl_case, c) for c in cs]
    lines, spans = [], []
    for c, i in zip(cs, impls):
        ls = model_lines(c, i[1]) if i[0] == "ok" else []
        spans.append((len(lines), len(ls)))
        lines.extend(ls)
    outs = run.model(lines)
    for c, i, (a, n) in zip(cs, impls, spans):
        branch = None
        if "date" in c:
            d = datetime.fromisoformat(c["date"])
            branch = "year-boundary" if (d.month, d.day) in ((1, 1), (12, 31)) else ("leap-day" if (d.month, d.day) in ((2, 29), (3, 1), (2, 28)) else "other-date")
        run.case(c["op"], c, nontrivial=True, branch=branch)
        if outs is not None and n and i[0] == "ok":
            run.model_compared += 1
            d = compare(run, c, i[1], outs[a : a + n])
            if d:
                run.disagree(c["op"], c, d, outs[a : a + n][0][:200])
        for key, what in oracle(run, c, i):
            run.fail(key, c, what)


def search(run: Run):
    sub = Run.__new__(Run)
    sub.__dict__.update(run.__dict__)
    sub.rng = __import__("random").Random(run.seed + 11)
    sub.tier = "thorough"
    for c in cases(sub)[:9000]:
        f = oracle(run, c, guarded(impl_case, c))
        if f:
            return (f[0][0], c, f[0][1])
    return None


def main():
    # the code works with naive datetimes whose fields are UTC: nothing may depend on the zone the process runs in. The whole check runs
    # in a zone with daylight saving (a POSIX rule, no tz database needed), where a detour through local time shows
    os.environ["TZ"] = "EST5EDT,M3.2.0,M11.1.0"
    time.tzset()
    run = Run(
        PID,
        ["RV.Props.C04", "RV.Bridge.Conversions", "RV.Bridge.Sidereal"],
        ["RV/Model/Frames.lean", "RV/Num/Vec3.lean"],
        "Lean 4 theorems (polynomial identities with linear_combination certificates; omega over the Gregorian calendar for all years; "
        "kernel-evaluated exact-rational table for the year-boundary continuity of the sidereal angle) + differential correspondence "
        "with the real transforms using the real reduction matrices as inputs + round-trip and rotation-continuity oracles",
        trusted_extra=[
            "sin/cos/sqrt/arcsin/arctan2 values are oracle inputs with their defining identities as hypotheses; nutation series, precession polynomials and the EOP table are data",
            "ecef2lla (closed-form quartic) is covered by the round-trip oracle only, not by a theorem",
        ],
    )
    run.rule = (
        "dates 2015-2022 biased to minute/day/month/leap-day/year boundaries with sub-second offsets; states from LEO to beyond GEO; poles, equator, "
        "antimeridian; interleaved conversion histories within one second; rotation-continuity probes on a dense grid around every 1 January"
    )
    run.assumptions = [
        "Earth-rotation continuity allows the jump explained by the EOP table's own day-to-day dUT1 and equation-of-equinox steps plus 5e-9 rad",
    ]
    run.lean_phase()
    if run.args.replay:
        rp = json.loads(Path(run.args.replay).read_text())
        cs = [rp["case"]] if rp.get("kind") == "failing-input" else cases(run)
    else:
        cs = cases(run)
    run_cases(run, cs)
    run.finish(search)


if __name__ == "__main__":
    main_guard(main)
