"""C01 - every scheduled event takes effect exactly once, at its configured time."""
from __future__ import annotations

import json
import logging
import sys
from collections import Counter
from datetime import datetime, timedelta
from fractions import Fraction
from pathlib import Path
from types import SimpleNamespace

sys.path.insert(0, str(Path(__file__).resolve().parent))
import numpy as np
from common import Run, Toks, corpus, fmt, frac, guarded, main_guard

PID = "C01"
EPOCH = datetime(1970, 1, 1)
SCOPES = ["scenario_step", "agent_propagation", "task_reward_generation", "observation_generation"]


def secs(dt: datetime) -> int:
    d = dt - EPOCH
    return d.days * 86400 + d.seconds


def rand_start(rng):
    base = datetime(rng.randint(2015, 2022), rng.randint(1, 9), rng.randint(1, 28), rng.randint(0, 23), rng.randint(0, 59), 0)
    return base + timedelta(seconds=rng.choice([0, 0, 9, 17, 30, 59, rng.randint(0, 59)]))


def cases(run: Run):
    rng = run.rng
    out = list(corpus(PID))
    for _ in range(run.n(25, 300)):
        start = rand_start(rng)
        dt = rng.choice([2, 10, 30, 60, 60, 60, 120, 300, 600, 900, 45])
        N = rng.randint(4, 18)
        events = []
        for eid in range(1, rng.randint(3, 10)):
            scope = rng.choice(SCOPES)
            kind = rng.random()
            if kind < 0.7:
                t = rng.randint(1, N) * dt  # exactly on a step boundary
            elif kind < 0.85:
                t = rng.randint(1, N) * dt + rng.choice([-1, 1])
            else:
                t = rng.randint(1, N * dt)
            t = min(max(t, 1), N * dt)
            dur = 0 if scope in ("scenario_step", "agent_propagation") else rng.choice([0, dt, 2 * dt, dt // 2 + 1, 3 * dt + 1, rng.randint(1, 4 * dt)])
            events.append({"id": eid, "scope": scope, "inst": rng.choice([0, 1, 2]), "a": t, "b": t + dur})
        out.append({"op": "deliver", "start": start.isoformat(), "dt": dt, "N": N, "events": events})
    for _ in range(run.n(14, 150)):
        start = rand_start(rng)
        dt = rng.choice([60, 60, 300, 120, 30])
        N = rng.randint(4, 10)
        imps = []
        used = set()
        for iid in range(rng.randint(1, 3)):
            kind = rng.random()
            if kind < 0.12:
                t = rng.randint(1, 7)  # the first seconds of scenario time, where one ulp of t is below the event function's zero snap
            elif kind < 0.55:
                t = rng.randint(1, N - 1) * dt
            elif kind < 0.75:
                t = rng.randint(1, N - 1) * dt + rng.choice([-1, 1])
            else:
                t = rng.randint(1, (N - 1) * dt)
            if rng.random() < 0.3:
                t = t + rng.choice([0.4, 0.25, 0.5, 0.75, 0.015625])  # instants are not whole seconds in general
            if t in used and rng.random() < 0.5:
                continue  # otherwise: two impulses of the agent at one instant (both must be applied)
            used.add(t)
            imps.append({"id": iid, "t": t, "dv": [0.0, rng.choice([0.01, 0.05, -0.02]), 0.003], "frame": rng.choice(["eci", "ntw"]), "planned": rng.random() < 0.3})
        if rng.random() < 0.25 and imps:
            # a second impulse at the very instant of the first
            im0 = imps[0]
            imps.append({"id": max(im["id"] for im in imps) + 1, "t": im0["t"], "dv": [0.0, rng.choice([0.02, -0.03]), 0.001], "frame": rng.choice(["eci", "ntw"]), "planned": False})
        out.append({"op": "impulse", "start": start.isoformat(), "dt": dt, "N": N, "imps": imps})
    # starts on which whole fractions of a day make scenario times land exactly on step boundaries
    for start, dt, t in ((datetime(2021, 3, 30, 12, 0, 0), 300, 2700), (datetime(2021, 3, 30, 12, 0, 0), 60, 2700), (datetime(2021, 3, 30, 0, 0, 0), 675, 675),
                         (datetime(2021, 3, 30, 16, 0, 0), 60, 3), (datetime(2021, 3, 30, 16, 0, 0), 60, 6)):
        out.append({"op": "impulse", "start": start.isoformat(), "dt": dt, "N": t // dt + 3, "imps": [{"id": 0, "t": t, "dv": [0.0, 0.05, 0.0], "frame": "eci", "planned": False}]})
    # the same through a real scenario (Ray jobs, registrations, the agents' own queues): impulses on step boundaries, where the event's
    # scenario time computed from Julian dates lands a few microseconds before or after the boundary
    for _ in range(run.n(2, 12)):
        start = rng.choice([datetime(2018, 12, 1, 12, 0, 0), datetime(2021, 3, 30, 16, 0, 0), rand_start(rng)])
        dt = rng.choice([60, 60, 30, 120])
        ks = rng.sample(range(1, 12), 3)
        imps = [{"t": k * dt, "dv": [0.0, 0.01, 0.002]} for k in ks[:2]] + [{"t": ks[2] * dt + rng.choice([-1, 1, 7]), "dv": [0.0, -0.01, 0.0]}]
        out.append({"op": "scn-impulse", "start": start.isoformat(), "dt": dt, "N": max(im["t"] for im in imps) // dt + 2, "imps": imps, "seed": rng.randint(1, 999)})
    # an event at the very last instant of the simulated span ("up to and including the last step"): the scenario is configured to stop there, and is run to there
    for start, dt, k in ((datetime(2018, 12, 1, 12, 0, 0), 60, 5), (datetime(2018, 12, 1, 12, 0, 0), 60, 6), (datetime(2021, 3, 30, 12, 0, 0), 300, 9),
                         (rand_start(rng), rng.choice([60, 30, 120]), rng.randint(2, 9)))[: run.n(4, 4)]:
        out.append({"op": "scn-impulse", "start": start.isoformat(), "dt": dt, "N": k, "at_stop": True, "seed": rng.randint(1, 999),
                    "imps": [{"t": k * dt, "dv": [0.0, 0.01, 0.002]}, {"t": (k - 1) * dt, "dv": [0.0, -0.01, 0.001]}]})
    # several kinds of event in one step: a target that joins through an addition event and manoeuvres later in that same step (or in a later one)
    for _ in range(run.n(1, 6)):
        dt = rng.choice([60, 60, 120])
        k = rng.randint(2, 4)
        t_add = (k - 1) * dt + rng.choice([10, dt // 2, dt])
        t_imp = rng.choice([k * dt, k * dt, min(k * dt, t_add + rng.randint(1, 20)), k * dt + rng.randint(1, dt)])
        out.append({"op": "scn-join", "start": rng.choice([datetime(2021, 3, 30, 16, 0, 0), rand_start(rng)]).isoformat(), "dt": dt, "N": k + 3, "t_add": t_add, "t_imp": max(t_imp, t_add),
                    "dv": [0.0, 0.01, 0.002], "seed": rng.randint(1, 999)})
        # two manoeuvre events of one target inside one step; an impulse in the step right after a finite burn of the same target has ended
        k = rng.randint(2, 4)
        out.append({"op": "scn-join", "setup": "double", "start": datetime(2021, 3, 30, 16, 0, 0).isoformat(), "dt": dt, "N": k + 3, "t_add": 0,
                    "t_first": (k - 1) * dt + rng.randint(1, dt // 2), "t_imp": (k - 1) * dt + rng.choice([dt // 2 + 5, dt]), "dv": [0.0, 0.01, 0.002], "seed": rng.randint(1, 999)})
        out.append({"op": "scn-join", "setup": "burn", "start": datetime(2021, 3, 30, 16, 0, 0).isoformat(), "dt": dt, "N": k + 4, "t_add": 0,
                    "burn": [(k - 2) * dt + 10, (k - 1) * dt + rng.randint(5, dt - 5)], "t_imp": k * dt + rng.choice([rng.randint(1, dt - 1), dt]), "dv": [0.0, 0.01, 0.002],
                    "seed": rng.randint(1, 999)})
    return out


# ----------------------------------------------------------------------------- real code, in process
class _NullDB:
    def insertData(self, *a, **k):
        return None


def real_clock(start, span, dt):
    import resonaate.scenario.clock as clk

    old = clk.getDBConnection
    clk.getDBConnection = lambda: _NullDB()
    try:
        return clk.ScenarioClock(start, span, dt)
    finally:
        clk.getDBConnection = old


def step_windows(start, dt, N):
    """(prior_jd, next_jd) handed to the event queries by the real Scenario.stepForward, for N steps."""
    import resonaate.scenario.scenario as scn

    clock = real_clock(start, float(dt * N), float(dt))
    calls = []
    old_h, old_g = scn.handleRelevantEvents, scn.getRelevantEvents

    def rec_handle(inst, database, scope, lb, ub, logger, scope_instance_id=None):
        calls.append((scope.value, float(lb), float(ub)))

    def rec_get(database, scope, lb, ub, scope_instance_id=None):
        calls.append((scope.value, float(lb), float(ub)))
        return []

    scn.handleRelevantEvents, scn.getRelevantEvents = rec_handle, rec_get
    try:
        stub = SimpleNamespace(
            clock=clock, database=None, logger=logging.getLogger("verif-null"), target_agents={}, sensor_agents={}, estimate_agents={},
            _agent_propagator=SimpleNamespace(enqueueJob=lambda j: None, join=lambda: None), _ephem_importer=None, _unsaved_epochs={},
            _estimate_predictor=SimpleNamespace(enqueueJob=lambda j: None, join=lambda: None), _tasking_engines={},
            _target_store={}, _sensor_store={}, _estimate_store={},
            scenario_config=SimpleNamespace(propagation=SimpleNamespace(truth_simulation_only=True)), current_julian_date=clock.julian_date_start,
        )
        per_step = []
        for _ in range(N):
            calls.clear()
            prior = clock.datetime_epoch
            scn.Scenario.stepForward(stub)
            per_step.append({"calls": list(calls), "prior": prior, "epoch": clock.datetime_epoch})
        return per_step
    finally:
        scn.handleRelevantEvents, scn.getRelevantEvents = old_h, old_g


def make_db():
    from resonaate.data.resonaate_database import ResonaateDatabase

    return ResonaateDatabase(db_path="sqlite://", logger=logging.getLogger("verif-null"))


def impl_deliver(c):
    from resonaate.data.events import EventScope, SensorTimeBiasEvent, getRelevantEvents
    from resonaate.physics.time.stardate import datetimeToJulianDate

    start = datetime.fromisoformat(c["start"])
    dt, N = c["dt"], c["N"]
    db = make_db()
    rows = []
    for e in c["events"]:
        rows.append(
            SensorTimeBiasEvent(
                scope=e["scope"], scope_instance_id=e["inst"], start_time_jd=datetimeToJulianDate(start + timedelta(seconds=e["a"])),
                end_time_jd=datetimeToJulianDate(start + timedelta(seconds=e["b"])), event_type="sensor_time_bias", applied_bias=float(e["id"]),
            )
        )
    db.insertData(*rows)
    wins = step_windows(start, dt, N)
    deliveries = []  # (step, event id, handler instance or None)
    windows = []
    for k, w in enumerate(wins, start=1):
        by_scope = {s: (lb, ub) for s, lb, ub in w["calls"]}
        windows.append([k, by_scope.get("scenario_step")])
        for scope in SCOPES:
            if scope in ("scenario_step", "agent_propagation"):
                lb, ub = by_scope[scope]
                got = getRelevantEvents(db, EventScope(scope), lb, ub)
                deliveries += [(k, int(ev.applied_bias), None, scope) for ev in got]
            else:
                # the engine (task rewards) computes its window from the two datetimes; the observation-generation query is the
                # scenario's own window; both address one instance
                lb, ub = datetimeToJulianDate(w["prior"]), datetimeToJulianDate(w["epoch"])
                for inst in (0, 1, 2):
                    got = getRelevantEvents(db, EventScope(scope), lb, ub, inst)
                    deliveries += [(k, int(ev.applied_bias), inst, scope) for ev in got]
    return {"windows": windows, "deliveries": sorted(deliveries, key=lambda x: (x[0], x[1], x[2] or 0))}


_PUSHED = []


def impl_impulse(c):
    """in-process pipeline of the real pieces: stepForward's window -> getRelevantEvents -> ScheduledImpulseEvent.handleEvent ->
    Agent.prunePropagateEvents -> TwoBody.propagate."""
    import resonaate.dynamics.integration_events.scheduled_impulse as si
    from resonaate.agents.agent_base import Agent
    from resonaate.data.events import EventScope, ScheduledImpulseEvent, getRelevantEvents
    from resonaate.dynamics.two_body import TwoBody
    from resonaate.physics.time.stardate import ScenarioTime, datetimeToJulianDate

    start = datetime.fromisoformat(c["start"])
    dt, N = c["dt"], c["N"]
    db = make_db()
    rows = []
    for im in c["imps"]:
        when = start + timedelta(seconds=im["t"])
        rows.append(
            ScheduledImpulseEvent(
                scope=EventScope.AGENT_PROPAGATION.value, scope_instance_id=10001, start_time_jd=datetimeToJulianDate(when),
                end_time_jd=datetimeToJulianDate(when), event_type="impulse", planned=im["planned"], thrust_vec_0=im["dv"][0],
                thrust_vec_1=im["dv"][1] + im["id"] * 1e-4, thrust_vec_2=im["dv"][2], thrust_frame=im["frame"],
            )
        )
    db.insertData(*rows)
    wins = step_windows(start, dt, N)
    jd0 = datetimeToJulianDate(start)
    truth = SimpleNamespace(julian_date_start=jd0, simulation_id=10001, propagate_event_queue=[], _time=ScenarioTime(0.0))
    est = SimpleNamespace(julian_date_start=jd0, simulation_id=10001, propagate_event_queue=[], _time=ScenarioTime(0.0))
    truth.appendPropagateEvent = lambda ev: Agent.appendPropagateEvent(truth, ev)
    est.appendPropagateEvent = lambda ev: Agent.appendPropagateEvent(est, ev)
    pushed = []
    old = si.EventStack.pushEvent
    si.EventStack.pushEvent = classmethod(lambda cls, rec: pushed.append(rec))
    dyn = TwoBody()
    x = np.array([7000.0, 0.0, 0.0, 0.0, 7.5, 0.5])
    x_ref = x.copy()
    applied = Counter()
    queue_log, times, est_q = [], {}, []
    try:
        for k, w in enumerate(wins, start=1):
            lb, ub = [(a, b) for s, a, b in w["calls"] if s == "agent_propagation"][0]
            evs = getRelevantEvents(db, EventScope.AGENT_PROPAGATION, lb, ub)
            delivered = []
            for ev in evs:
                before = len(truth.propagate_event_queue)
                ev.handleEvent(truth)
                if ev.planned:
                    ev.handleEvent(est)
                imp = truth.propagate_event_queue[before]
                iid = round((ev.thrust_vec_1 % 0.01) / 1e-4) if False else None
                delivered.append((float(imp.time), ev.thrust_vec_1))
            t0, t1 = float((k - 1) * dt), float(k * dt)
            truth._time = ScenarioTime(t0)
            Agent.prunePropagateEvents(truth)
            queue_log.append((k, [(float(i.time), float(i.thrust[4])) for i in truth.propagate_event_queue], delivered))
            n0 = len(pushed)
            x = dyn.propagate(ScenarioTime(t0), ScenarioTime(t1), x, scheduled_events=truth.propagate_event_queue)
            x_ref = dyn.propagate(ScenarioTime(t0), ScenarioTime(t1), x_ref)
            applied[k] = len(pushed) - n0
            est_q.append(len(est.propagate_event_queue))
    finally:
        si.EventStack.pushEvent = old
    # identify each impulse by its (unique) second velocity component
    per_imp = {}
    for im in c["imps"]:
        key = im["dv"][1] + im["id"] * 1e-4
        per_imp[im["id"]] = {"time": None, "delivered_steps": [], "key": key}
    for k, q, delivered in queue_log:
        for tm, key in delivered:
            for iid, info in per_imp.items():
                if abs(info["key"] - key) < 1e-12:
                    info["time"] = tm
                    info["delivered_steps"].append(k)
    return {"applied_per_step": [applied[k] for k in range(1, N + 1)], "total": len(pushed), "per_imp": per_imp, "queue_log": queue_log,
            "dv_norm": float(np.linalg.norm((x - x_ref)[3:])), "est_queue": est_q[-1] if est_q else 0}


# ----------------------------------------------------------------------------- impulses through the real scenario (Ray, registrations, agent queues)
def impl_scenario_impulse(c):
    import scen
    from resonaate.dynamics.two_body import TwoBody
    from resonaate.physics.time.stardate import ScenarioTime
    from resonaate.physics.transforms.methods import ecef2eci, lla2ecef

    start = datetime.fromisoformat(c["start"])
    dt, N = c["dt"], c["N"]
    sensors = [scen.radar_cfg(60001, 0.0, 0.0)]
    targets, x0 = [], {}
    for j, im in enumerate(c["imps"]):
        ecef = lla2ecef(np.array([np.radians(1.0 + 2 * j), np.radians(2.0 + 3 * j), 700.0 + 40 * j]))
        eci = ecef2eci(ecef, start + timedelta(seconds=90))
        r = eci[:3]
        v = np.cross([0, 0, 1.0], r)
        v = v / np.linalg.norm(v) * np.sqrt(398600.4415 / np.linalg.norm(r))
        targets.append(scen.target_cfg(10001 + j, r, v))
        x0[10001 + j] = np.concatenate([r, v])
    events = []
    for j, im in enumerate(c["imps"]):
        when = scen.iso(start + timedelta(seconds=im["t"]))
        events.append({"scope": "agent_propagation", "scope_instance_id": 10001 + j, "start_time": when, "end_time": when, "event_type": "impulse",
                       "thrust_vector": im["dv"], "thrust_frame": "eci", "planned": False})
    cfg = scen.scenario_cfg(start, dt, dt * (N if c.get("at_stop") else N + 1), [scen.engine_cfg(1, targets, sensors)], truth_only=True, seed=c.get("seed", 1), events=events, prop="two_body")
    app = scen.build(cfg)
    try:
        for _ in range(N):
            app.stepForward()
        final = {tid: np.array(a.eci_state, dtype=float) for tid, a in app.target_agents.items()}
    finally:
        scen.cleanup()
    out = {}
    T = lambda s: ScenarioTime(float(s))
    for j, im in enumerate(c["imps"]):
        tid = 10001 + j
        dv = np.concatenate([np.zeros(3), np.array(im["dv"], dtype=float)])
        refs = {}
        a = TwoBody().propagate(T(0), T(im["t"]), x0[tid].copy()) if im["t"] > 0 else x0[tid].copy()
        for times in (0, 1, 2):
            b = a + times * dv
            refs[times] = TwoBody().propagate(T(im["t"]), T(N * dt), b) if N * dt > im["t"] else b
        out[tid] = {"final": [float(v) for v in final[tid]], "refs": {k: [float(v) for v in r] for k, r in refs.items()}, "t": im["t"]}
    return out


def oracle_scenario_impulse(c, impl):
    if impl[0] != "ok":
        return [("raises", f"{impl[1]}")]
    fails = []
    for tid, o in impl[1].items():
        f = np.array(o["final"])
        d = {k: float(np.linalg.norm(f[3:] - np.array(r)[3:])) for k, r in o["refs"].items()}
        if not d[1] <= 1e-7:
            times = min(d, key=d.get)
            key = "scenario-impulse"
            if times == 0 and o["t"] == c["N"] * c["dt"]:
                # known finding (known_findings.json): the impulse's scenario time is rebuilt from Julian dates; when that lands a few microseconds AFTER the
                # final epoch the impulse is queued for a step that never comes. Only that case is the known one: same instant, rounding before or onto
                # the epoch, must be applied.
                from resonaate.physics.time.stardate import datetimeToJulianDate

                st = datetime.fromisoformat(c["start"])
                t_jd = float(datetimeToJulianDate(st + timedelta(seconds=o["t"])).convertToScenarioTime(datetimeToJulianDate(st)))
                if t_jd > o["t"]:
                    key = "scenario-impulse:at-stop-late"
            fails.append((key, f"start {c['start']} dt {c['dt']}: the impulse of target {tid} at +{o['t']} s was applied {times} time(s) in a real scenario run "
                                              f"(final velocity is {d[1]:.3g} km/s from the once-applied reference, {d[times]:.3g} from the {times}x one)"))
    return fails


def impl_scenario_join(c):
    """a real scenario in which a target is added by an event and given an impulse afterwards; run with and without the impulse"""
    import scen
    from resonaate.physics.transforms.methods import ecef2eci, lla2ecef

    start = datetime.fromisoformat(c["start"])
    dt, N = c["dt"], c["N"]

    def tgt(tid, lat, lon, alt):
        ecef = lla2ecef(np.array([np.radians(lat), np.radians(lon), alt]))
        eci = ecef2eci(ecef, start + timedelta(seconds=90))
        r = eci[:3]
        v = np.cross([0, 0, 1.0], r)
        v = v / np.linalg.norm(v) * np.sqrt(398600.4415 / np.linalg.norm(r))
        return scen.target_cfg(tid, r, v)

    finals = {}
    setup = c.get("setup", "addition")
    who = 10101 if setup == "addition" else 10001  # the target that receives the impulse under test
    for with_impulse in (True, False):
        when_add = scen.iso(start + timedelta(seconds=c["t_add"]))
        when_imp = scen.iso(start + timedelta(seconds=c["t_imp"]))
        events = []
        if setup == "addition":
            events.append({"scope": "scenario_step", "scope_instance_id": 0, "start_time": when_add, "end_time": when_add, "event_type": "target_addition",
                           "tasking_engine_id": 1, "target_agent": tgt(10101, 3.0, -1.0, 900.0)})
        elif setup == "double":
            w1 = scen.iso(start + timedelta(seconds=c["t_first"]))
            events.append({"scope": "agent_propagation", "scope_instance_id": who, "start_time": w1, "end_time": w1, "event_type": "impulse",
                           "thrust_vector": [0.003, -0.004, 0.0], "thrust_frame": "eci", "planned": False})
        else:
            b0, b1 = (scen.iso(start + timedelta(seconds=t)) for t in c["burn"])
            events.append({"scope": "agent_propagation", "scope_instance_id": who, "start_time": b0, "end_time": b1, "event_type": "finite_burn",
                           "acc_vector": [0.0, 2e-5, 0.0], "thrust_frame": "eci", "planned": False})
        if with_impulse:
            events.append({"scope": "agent_propagation", "scope_instance_id": who, "start_time": when_imp, "end_time": when_imp, "event_type": "impulse",
                           "thrust_vector": c["dv"], "thrust_frame": "eci", "planned": False})
        cfg = scen.scenario_cfg(start, dt, dt * (N + 1), [scen.engine_cfg(1, [tgt(10001, 1.0, 2.0, 700.0)], [scen.radar_cfg(60001, 0.0, 0.0)])], truth_only=True,
                                seed=c.get("seed", 1), events=events, prop="two_body")
        app = scen.build(cfg)
        try:
            for _ in range(N):
                app.stepForward()
            finals[with_impulse] = {tid: [float(v) for v in a.eci_state] for tid, a in app.target_agents.items()}
        finally:
            scen.cleanup()
    return {"with": finals[True], "without": finals[False]}


def oracle_scenario_join(c, impl):
    if impl[0] != "ok":
        return [("raises", f"{impl[1]}")]
    w, wo = impl[1]["with"], impl[1]["without"]
    setup = c.get("setup", "addition")
    who = 10101 if setup == "addition" else 10001
    if who not in w or who not in wo:
        return [("scenario-join", f"the target added at +{c['t_add']} s is not in the scenario at the end of the run")]
    dv = float(np.linalg.norm(np.array(w[who][3:]) - np.array(wo[who][3:])))
    size = float(np.linalg.norm(c["dv"]))
    fails = []
    # a few minutes after the impulse the velocity difference between the two runs is still the delta-v, to within a few per cent
    if not 0.8 * size <= dv <= 1.2 * size:
        what = {"addition": f"a target added at +{c['t_add']} s", "double": f"a target that already had an impulse at +{c.get('t_first')} s in the same step",
                "burn": f"a target whose finite burn {c.get('burn')} s had ended in the step before"}[setup]
        fails.append(("scenario-join", f"start {c['start']} dt {c['dt']}: {what} and given an impulse of {size:.4f} km/s at +{c['t_imp']} s ends the run "
                                       f"{dv:.4g} km/s from the run without the impulse ({dv / size:.2f} of the delta-v: dropped if 0, duplicated if 2)"))
    if setup == "addition" and w[10001] != wo[10001]:
        fails.append(("scenario-join:other", "the impulse addressed to the added target changed the other target's trajectory"))
    return fails


def impl_case(c):
    if c["op"] == "scn-join":
        return impl_scenario_join(c)
    if c["op"] == "scn-impulse":
        return impl_scenario_impulse(c)
    return impl_deliver(c) if c["op"] == "deliver" else impl_impulse(c)


# ----------------------------------------------------------------------------- model
def model_lines(c, i):
    if c["op"] in ("scn-impulse", "scn-join"):
        return []
    start = secs(datetime.fromisoformat(c["start"]))
    dt, N = c["dt"], c["N"]
    if c["op"] == "deliver":
        lines = [f"evt.window datetime {start} {dt} {k}" for k in range(1, N + 1)]
        for e in c["events"]:
            insts = ["-"] if e["scope"] in ("scenario_step", "agent_propagation") else ["0", "1", "2"]
            for inst in insts:
                lines.append(f"evt.deliver datetime 1 {start} {dt} {N} {e['scope']} {inst} {e['id']} {e['scope']} {e['inst']} {start + e['a']} {start + e['b']}")
        return lines
    ts = [Fraction(k * dt) for k in range(N + 1)]
    ds = []
    for iid, info in i["per_imp"].items():
        for k in info["delivered_steps"]:
            ds.append((k, iid, info["time"]))
    ids = sorted(i["per_imp"].keys())
    return [f"evt.run strict {len(ts)} " + " ".join(fmt(t) for t in ts) + f" {len(ds)} " + " ".join(f"{k} {iid} {fmt(tm)}" for k, iid, tm in ds) + f" {len(ids)} " + " ".join(map(str, ids))]


def compare(run, c, i, mo):
    if any(m == "bad-op" for m in mo):
        return f"model rejected: {mo[:2]}"
    N = c["N"]
    if c["op"] == "deliver":
        for k in range(1, N + 1):
            w = i["windows"][k - 1][1]
            lb, ub = mo[k - 1].split()
            if w is None or frac(w[0]) != Fraction(lb) or frac(w[1]) != Fraction(ub):
                return f"step {k} window bits differ: impl {w} model ({float(Fraction(lb))!r}, {float(Fraction(ub))!r})"
        want = []
        idx = N
        for e in c["events"]:
            insts = [None] if e["scope"] in ("scenario_step", "agent_propagation") else [0, 1, 2]
            for inst in insts:
                steps = [int(x) for x in Toks(mo[idx]).list()]
                idx += 1
                want += [(k, e["id"], inst, e["scope"]) for k in steps]
        want.sort(key=lambda x: (x[0], x[1], x[2] or 0))
        got = [tuple(x) for x in i["deliveries"]]
        if got != want:
            diff = sorted(set(got) ^ set(want))[:4]
            return f"deliveries differ (step, event, handler, scope): {diff}"
        return None
    counts = [int(x) for x in mo[0].split()] if mo[0].strip() else []
    ids = sorted(i["per_imp"].keys())
    if sum(counts) != i["total"]:
        return f"number of applied impulses differs: impl {i['total']} model {counts}"
    return None


def oracle(run: Run, c, impl):
    op = c["op"]
    if op == "scn-join":
        return oracle_scenario_join(c, impl)
    if op == "scn-impulse":
        return oracle_scenario_impulse(c, impl)
    if impl[0] != "ok":
        return [(f"{op}:raises", f"{impl[1]}")]
    i = impl[1]
    dt, N = c["dt"], c["N"]
    fails = []
    if op == "deliver":
        got = Counter()
        for k, eid, inst, scope in i["deliveries"]:
            got[(eid, inst)] += 0
            got[(eid, inst, k)] += 1
        for e in c["events"]:
            insts = [None] if e["scope"] in ("scenario_step", "agent_propagation") else [0, 1, 2]
            for inst in insts:
                steps = sorted(k for (k, eid, ins, sc) in i["deliveries"] if eid == e["id"] and ins == inst)
                if inst is not None and inst != e["inst"]:
                    want = []
                else:
                    # the steps whose interval (t_{k-1}, t_k] meets [a, b]
                    want = [k for k in range(1, N + 1) if e["a"] <= k * dt and (k - 1) * dt < e["b"]]
                run.count("aligned" if e["a"] % dt == 0 else "misaligned")
                if steps != want:
                    kind = "instant" if e["a"] == e["b"] else "interval"
                    fails.append((f"deliver:{kind}", f"start {c['start']} dt {dt}: event [{e['a']},{e['b']}] s for instance {e['inst']} (scope {e['scope']}) handed to instance {inst} in steps {steps}, expected {want}"))
    else:
        for im in c["imps"]:
            info = i["per_imp"][im["id"]]
            want = [int(-(-im["t"] // dt))]
            if info["delivered_steps"] != want:
                fails.append(("impulse:delivery", f"start {c['start']} dt {dt}: impulse at +{im['t']} s delivered in steps {info['delivered_steps']}, expected {want}"))
        n = len(c["imps"])
        if i["total"] != n:
            fails.append(("impulse:count", f"start {c['start']} dt {dt}: {n} impulses at {[im['t'] for im in c['imps']]} s changed the velocity {i['total']} times (per step {i['applied_per_step']})"))
        for im in c["imps"]:
            k = int(-(-im["t"] // dt))
            if i["applied_per_step"][k - 1] == 0 and (k >= N or i["applied_per_step"][k] == 0):
                fails.append(("impulse:time", f"impulse at +{im['t']} s was not applied in step {k} (or just after its boundary)"))
        planned = sum(1 for im in c["imps"] if im["planned"])
        run.count(f"impulses:{n}")
        if len({im["t"] for im in c["imps"]}) < n:
            run.count("impulses:coincident")
    return fails


def run_cases(run: Run, cs):
    impls = [guarded(impl_case, c) for c in cs]
    lines, spans = [], []
    for c, i in zip(cs, impls):
        ls = model_lines(c, i[1]) if i[0] == "ok" else []
        spans.append((len(lines), len(ls)))
        lines.extend(ls)
    outs = run.model(lines)
    for c, i, (a, n) in zip(cs, impls, spans):
        start = datetime.fromisoformat(c["start"])
        run.case(c["op"], c, nontrivial=True, branch="odd-second-start" if start.second else "whole-minute-start")
        if outs is not None and n and i[0] == "ok":
            run.model_compared += 1
            d = compare(run, c, i[1], outs[a : a + n])
            if d:
                run.disagree(c["op"], c, d, outs[a][:200])
        for key, what in oracle(run, c, i):
            run.fail(key, c, what)


def search(run: Run):
    sub = Run.__new__(Run)
    sub.__dict__.update(run.__dict__)
    sub.rng = __import__("random").Random(run.seed + 23)
    sub.tier = "thorough"
    for c in cases(sub)[:260]:
        f = oracle(run, c, guarded(impl_case, c))
        if f:
            return (f[0][0], c, f[0][1])
    return None


def main():
    run = Run(
        PID,
        ["RV.Props.C01", "RV.Bridge.Time", "RV.Bridge.Agents", "RV.Bridge.Thrust", "RV.Bridge.EventsQuery", "RV.Bridge.EventsQueryProps"],
        ["RV/Model/Events.lean", "RV/Model/Time.lean"],
        "Lean 4 theorems (window tiling and exactly-one-step delivery over any strictly increasing Julian-date map; induction over steps for "
        "the agent's impulse queue) + bit-exact correspondence of the real stepForward windows + differential delivery runs against a real "
        "in-memory database + an in-process pipeline of the real query/handleEvent/prune/propagate code for impulses",
        trusted_extra=[
            "scipy solve_ivp event location is modelled by its documented rule (a terminal event fires at its root inside the call; one event per stop); exercised on every impulse case",
            "strict monotonicity of datetimeToJulianDate on whole seconds is a hypothesis of the tiling theorems (C05) and is checked bit-exactly on every generated window",
            "SQLAlchemy/SQLite evaluate the comparison on the stored binary64 values",
        ],
    )
    run.rule = (
        "starts with odd seconds half the time, steps 2..900 s, 3-9 event rows per case on step boundaries (70%), +-1 s (15%) or anywhere (15%), "
        "four scopes, three handler instances (ids 0, 1, 2), durations 0..4 steps; impulse cases: 1-3 impulses in ECI/NTW frames incl. times whose scenario "
        "time is exactly a step boundary; every case is non-trivial; distinct by hash"
    )
    run.assumptions = ["events at or before the scenario start are outside the property"]
    run.lean_phase()
    if run.args.replay:
        rp = json.loads(Path(run.args.replay).read_text())
        cs = [rp["case"]] if rp.get("kind") == "failing-input" else cases(run)
    else:
        cs = cases(run)
    run_cases(run, cs)
    run.finish(search)


if __name__ == "__main__":
    main_guard(main)
