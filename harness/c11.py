"""C11 - ground facilities stay fixed at their configured geodetic location."""
from __future__ import annotations

import json
import math
import sys
from datetime import datetime, timedelta
from fractions import Fraction
from pathlib import Path

sys.path.insert(0, str(Path(__file__).resolve().parent))
import numpy as np
from common import Run, Toks, corpus, fmt, frac, guarded, main_guard

PID = "C11"


def cases(run: Run):
    rng = run.rng
    out = list(corpus(PID))
    for _ in range(run.n(60, 600)):
        kind = rng.choice(["generic", "odd-second", "midnight", "leap-second", "late-join", "year-end", "leap-february"])
        y = rng.randint(2015, 2021)
        if kind == "midnight":
            start = datetime(y, rng.randint(1, 12), rng.randint(1, 27), 23, rng.randint(50, 59), rng.choice([0, 13, 47]))
        elif kind == "leap-second":
            start = datetime(2016, 12, 31, 23, rng.randint(40, 58), rng.choice([0, 30]))
        elif kind == "leap-february":
            # January and February of a leap year: the day count must not yet include the leap day
            start = datetime(rng.choice([2016, 2020]), rng.choice([1, 2, 2, 2, 3]), rng.randint(1, 29), rng.randint(0, 23), rng.randint(0, 59), rng.choice([0, 17]))
        elif kind == "year-end":
            start = datetime(y, 12, 31, 23, rng.randint(45, 59), rng.choice([0, 21]))
        else:
            start = datetime(y, rng.randint(1, 12), rng.randint(1, 28), rng.randint(0, 23), rng.randint(0, 59), 0 if kind == "generic" else rng.randint(1, 59))
        dt = rng.choice([60, 60, 300, 30, 900])
        steps = rng.randint(3, 12) if kind not in ("midnight", "leap-second", "year-end") else rng.randint(12, 40)
        if kind == "midnight" and rng.random() < 0.4:
            dt, steps = 3600, rng.randint(26, 80)  # several midnights
        out.append({
            "kind": kind, "start": start.isoformat(), "dt": dt, "steps": steps, "lat": rng.choice([0.0, 89.0, -89.0, 45.0, rng.uniform(-85, 85)]),
            "lon": rng.choice([0.0, 180.0, -179.9, rng.uniform(-180, 180)]), "alt": rng.choice([0.0, 0.1, 2.5, rng.uniform(0, 4)]),
            "join_after": (rng.randint(1, 40) * dt if kind == "late-join" else 0),
            # another facility a few metres away, built just before this one in the same process (two dishes of one site): each keeps its own place
            "neighbour_m": rng.choice([0, 0, 2.0, 5.0, 9.0, 15.0, 40.0]),
            # how the facility's configuration object came to be: parsed fresh, or derived from another facility's configuration that was already
            # used (a template copied with new coordinates, a deep copy edited in place) - it must be placed where IT says
            "derive": rng.choice(["fresh", "fresh", "copy-update", "deepcopy-edit"]),
        })
    # runs across New Year with an epoch exactly on 1 January 00:00:00 (UT1 is still in the old year when UT1-UTC < 0)
    for y in (2014, 2015, 2018, 2019, 2020, 2021)[: run.n(6, 6)]:
        out.append({"kind": "new-year-midnight", "start": datetime(y, 12, 31, 23, 50 + rng.randint(0, 5), 0).isoformat(), "dt": 60, "steps": 16,
                    "lat": rng.uniform(-60, 60), "lon": rng.uniform(-180, 180), "alt": 0.3, "join_after": 0, "neighbour_m": 0, "derive": "fresh"})
    return out


class _NullDB:
    def insertData(self, *a, **k):
        return None


def impl_run(c):
    import resonaate.scenario.clock as clk
    from resonaate.dynamics import dynamicsFactory
    from resonaate.physics.time.stardate import ScenarioTime
    from resonaate.physics.transforms.methods import eci2ecef, lla2ecef
    from resonaate.scenario.config.agent_config import SensingAgentConfig
    from resonaate.scenario.config.geopotential_config import GeopotentialConfig
    from resonaate.scenario.config.perturbations_config import PerturbationsConfig
    from resonaate.scenario.config.propagation_config import PropagationConfig
    import scen

    start = datetime.fromisoformat(c["start"])
    old = clk.getDBConnection
    clk.getDBConnection = lambda: _NullDB()
    try:
        clock = clk.ScenarioClock(start, float(c["dt"] * 4), float(c["dt"]))
    finally:
        clk.getDBConnection = old
    # a facility that joins later is built by the same factory when the clock has already advanced
    t = 0.0
    while t < c["join_after"]:
        clock.ticToc()
        t += c["dt"]
    other = None
    derive = c.get("derive", "fresh")
    if c.get("neighbour_m") or derive != "fresh":
        dlat = math.degrees((c.get("neighbour_m") or 2.0e6) / 1000.0 / 6378.0) * (-1 if c["lat"] > 0 else 1)
        other = SensingAgentConfig(**scen.radar_cfg(60000, c["lat"] + dlat, c["lon"], c["alt"]))
        other_dyn = dynamicsFactory(other, PropagationConfig(), GeopotentialConfig(), PerturbationsConfig(), clock)
        other_dyn.propagate(ScenarioTime(float(clock.time)), ScenarioTime(float(clock.time) + c["dt"]), other.state.toECI(clock.datetime_epoch))
    cfg = SensingAgentConfig(**scen.radar_cfg(60001, c["lat"], c["lon"], c["alt"]))
    if derive == "copy-update":
        st = other.state.model_copy(update={"latitude": c["lat"], "longitude": c["lon"], "altitude": c["alt"]})
        cfg = other.model_copy(update={"id": 60001, "name": "radar60001", "state": st})
    elif derive == "deepcopy-edit":
        import copy

        cand = copy.deepcopy(other)
        try:
            cand.state.latitude, cand.state.longitude, cand.state.altitude = c["lat"], c["lon"], c["alt"]
            cfg = cand
        except Exception:  # noqa: BLE001  (a frozen model cannot be edited: then the fresh configuration stands)
            pass
    dyn = dynamicsFactory(cfg, PropagationConfig(), GeopotentialConfig(), PerturbationsConfig(), clock)
    state = cfg.state.toECI(clock.datetime_epoch)
    want = lla2ecef(np.array([math.radians(c["lat"]), math.radians(c["lon"]), c["alt"]]))[:3]
    out = {"dyn_start": dyn.datetime_start.isoformat(), "x_ecef": [float(v) for v in np.asarray(dyn.x_ecef)[:6]], "want": [float(v) for v in want], "steps": []}
    for k in range(1, c["steps"] + 1):
        t0, t1 = float(clock.time), float(clock.time) + c["dt"]
        state = dyn.propagate(ScenarioTime(t0), ScenarioTime(t1), state)
        clock.ticToc()
        when = clock.datetime_epoch
        ecef = eci2ecef(np.asarray(state, dtype=float), when)
        out["steps"].append({"t": t1, "when": when.isoformat(), "eci": [float(v) for v in state], "ecef": [float(v) for v in ecef]})
    return out


def oracle(run: Run, c, impl):
    from resonaate.physics.bodies.earth import Earth

    if impl[0] != "ok":
        return [("raises", f"{impl[1]}")]
    i = impl[1]
    fails = []
    want = np.array(i["want"])
    start = datetime.fromisoformat(c["start"])
    if datetime.fromisoformat(i["dyn_start"]) != start:
        fails.append(("epoch", f"the site's reference epoch is {i['dyn_start']}, the scenario starts at {c['start']}"))
    worst = 0.0
    for st in i["steps"]:
        e = np.array(st["ecef"])
        err_m = float(np.linalg.norm(e[:3] - want)) * 1000.0
        worst = max(worst, err_m)
        if err_m > 1.0:
            fails.append(("position", f"{c['kind']}: site ({c['lat']:.3f}, {c['lon']:.3f}, {c['alt']} km) configured at start {c['start']}"
                                      + (f" (joined after {c['join_after']} s)" if c["join_after"] else "") + f": at {st['when']} it is {err_m:.2f} m from its configured Earth-fixed position"))
            break
        if float(np.linalg.norm(e[3:])) > 1e-6:
            fails.append(("ecef-velocity", f"Earth-fixed velocity {np.linalg.norm(e[3:]):.3g} km/s at {st['when']}"))
            break
        x = np.array(st["eci"])
        speed = float(np.linalg.norm(x[3:]))
        axis_dist = math.hypot(e[0], e[1])
        expect = float(Earth.spin_rate) * axis_dist
        # the rotation axis of date is the celestial intermediate pole, up to ~0.6 arcsec (allowed here: 4e-6 rad) from the Earth-fixed z axis (polar motion):
        # near the geographic poles that moves the distance from the axis by up to |r| * 4e-6
        if abs(speed - expect) > 1e-6 * expect + float(Earth.spin_rate) * float(np.linalg.norm(e[:3])) * 4e-6 + 1e-9:
            fails.append(("inertial-velocity", f"inertial speed {speed:.9f} km/s, Earth rotation at that point gives {expect:.9f} km/s ({st['when']})"))
            break
    # the absolute orientation, judged without the code's own sidereal time (a day-of-year slip turns the Earth by a degree and leaves every
    # round trip through the code's frames intact): the site's inertial right ascension is the 1982 mean sidereal time of the date plus its
    # east longitude, less the general precession in right ascension since J2000 (m + n sin(ra) tan(dec)); what is left - nutation, UT1-UTC,
    # polar motion, second-order precession - stays below 6e-4 rad for sites within 60 deg of the equator
    if not fails and abs(c["lat"]) < 60.0:
        for st in i["steps"]:
            d0 = datetime.fromisoformat(st["when"])
            x = np.array(st["eci"])
            jd = d0.toordinal() + 1721424.5 + (d0.hour * 3600 + d0.minute * 60 + d0.second + d0.microsecond * 1e-6) / 86400.0
            tc = (jd - 2451545.0) / 36525.0
            gmst = math.radians(((67310.54841 + (876600.0 * 3600 + 8640184.812866) * tc + 0.093104 * tc * tc - 6.2e-6 * tc**3) % 86400.0) / 240.0)
            ra, dec = math.atan2(x[1], x[0]), math.atan2(x[2], math.hypot(x[0], x[1]))
            lon_e = math.atan2(want[1], want[0])
            years = tc * 100.0
            expect_ra = gmst + lon_e - (2.2362e-4 + 9.717e-5 * math.sin(ra) * math.tan(dec)) * years
            off = (ra - expect_ra + math.pi) % (2 * math.pi) - math.pi
            run.worse("oracle:sidereal-absolute", abs(off))
            if not abs(off) < 6e-4:
                fails.append(("sidereal-angle", f"{c['kind']}: site ({c['lat']:.3f}, {c['lon']:.3f}) at {st['when']}: its inertial right ascension is {off:.6g} rad "
                                                f"({off * 6378 * math.cos(dec):.1f} km along its parallel) from the mean sidereal time of that date plus its longitude"))
                break
    # rigid rotation, judged without any frame conversion of the code: between consecutive epochs a point at distance rho from the rotation axis
    # moves along a chord 2 rho sin(omega dt / 2), whatever the direction of the axis (precession and nutation move the axis, not the distance)
    if not fails:
        om = float(Earth.spin_rate)
        rho = math.hypot(want[0], want[1])
        rn = float(np.linalg.norm(want))
        for a, b in zip(i["steps"], i["steps"][1:]):
            chord = float(np.linalg.norm(np.array(b["eci"][:3]) - np.array(a["eci"][:3])))
            # a UTC step that contains an inserted leap second lasts one SI second longer, and the Earth turns for all of them
            ta, tb = datetime.fromisoformat(a["when"]), datetime.fromisoformat(b["when"])
            leap = sum(1 for ls in (datetime(2015, 7, 1), datetime(2017, 1, 1)) if ta < ls <= tb)
            half = math.sin(om * (c["dt"] + leap) / 2)
            expect = 2 * rho * half
            tol = 0.003 + 2 * half * rn * 4e-6 + 2e-6 * expect  # 3 m: steps of the tabulated UT1-UTC at day changes (~2 ms of rotation)
            if abs(chord - expect) > tol:
                fails.append(("inertial-track", f"{c['kind']}: site ({c['lat']:.3f}, {c['lon']:.3f}) between {a['when']} and {b['when']} moved {chord:.6f} km in the inertial frame; "
                                                f"a point fixed to the rotating Earth moves {expect:.6f} km in {c['dt']} s ({(chord - expect) * 1000:.1f} m off)"))
                break
    run.worse("position-error-m", worst)
    return fails


def model_lines(c, i):
    """bit-exact tie of the epoch arithmetic: Terrestrial.datetime_start = julianDateToDatetime(datetimeToJulianDate(start))"""
    start = datetime.fromisoformat(c["start"])
    return [f"time.jd {start.year} {start.month} {start.day} {start.hour} {start.minute} {start.second} 0"]


def run_cases(run: Run, cs):
    impls = [guarded(impl_run, c) for c in cs]
    outs1 = run.model([model_lines(c, i)[0] for c, i in zip(cs, impls)])
    outs2 = run.model([f"time.j2d nearest {o}" for o in outs1]) if outs1 is not None else None
    epoch = datetime(1970, 1, 1)
    for idx, (c, i) in enumerate(zip(cs, impls)):
        run.case("site", c, nontrivial=True, branch=c["kind"])
        if outs2 is not None and i[0] == "ok":
            run.model_compared += 1
            d = datetime.fromisoformat(i[1]["dyn_start"]) - epoch
            if int(outs2[idx]) != d.days * 86400 + d.seconds:
                run.disagree("site.epoch", c, i[1]["dyn_start"], outs2[idx])
        for key, what in oracle(run, c, i):
            run.fail(key, c, what)


def search(run: Run):
    sub = Run.__new__(Run)
    sub.__dict__.update(run.__dict__)
    sub.rng = __import__("random").Random(run.seed + 53)
    sub.tier = "thorough"
    for c in cases(sub)[:400]:
        f = oracle(run, c, guarded(impl_run, c))
        if f:
            return (f[0][0], c, f[0][1])
    return None


def main():
    run = Run(
        PID,
        ["RV.Props.C11", "RV.Bridge.Time", "RV.Bridge.Conversions", "RV.Bridge.Sidereal"],
        ["RV/Model/Frames.lean", "RV/Model/Time.lean"],
        "Lean 4 corollaries of the frame-inverse theorems (C04) and of the Julian-date round trip (C05) for the Terrestrial model + bit-exact tie of the site's reference epoch + "
        "the real dynamicsFactory/Terrestrial.propagate path evaluated against the configured geodetic position at every step",
        trusted_extra=["the reduction matrices of an instant are orthogonal (hypothesis of the theorems; nutation/precession/EOP values are data)",
                       "the property is evaluated on the real code with the reduction of the same instant (eci2ecef at the clock's datetime)"],
    )
    run.rule = ("sites at random latitude/longitude/altitude incl. near the poles and the antimeridian; starts on whole minutes and odd seconds, runs crossing UTC midnight (one or several), "
                "the 2016-12-31 leap second and year ends; facilities that join after the clock has advanced; steps 30-3600 s")
    run.assumptions = ["'within a metre' of the configured Earth-fixed position; inertial speed within 1e-6 relative of omega x (distance from the axis), the axis taken within 4e-6 rad (polar motion) of the Earth-fixed z axis"]
    run.lean_phase()
    if run.args.replay:
        rp = json.loads(Path(run.args.replay).read_text())
        cs = [rp["case"]] if rp.get("kind") == "failing-input" else cases(run)
    else:
        cs = cases(run)
    run_cases(run, cs)
    run.finish(search)


if __name__ == "__main__":
    main_guard(main)
